//go:build verif

package main

// In-memory net.Conn doubles used by the C05 and C09 scenarios.

import (
	"errors"
	"io"
	"net"
	"os"
	"sync"
	"time"
)

type fakeAddr string

func (a fakeAddr) Network() string { return "tcp" }
func (a fakeAddr) String() string  { return string(a) }

// chunkConn delivers a pre-scripted byte stream in exactly the given chunks (one Read never crosses a
// chunk boundary; an empty chunk is a (0, nil) read), then io.EOF; every Write call is logged whole.
type chunkConn struct {
	mu     sync.Mutex
	chunks [][]byte
	writes [][]byte
	yield  func() // called inside Write after logging (to provoke interleavings); may be nil
	closed bool
}

func newChunkConn(chunks [][]byte) *chunkConn {
	cp := make([][]byte, len(chunks))
	for i, c := range chunks {
		cp[i] = append([]byte(nil), c...)
	}
	return &chunkConn{chunks: cp}
}

func (c *chunkConn) Read(p []byte) (int, error) {
	c.mu.Lock()
	defer c.mu.Unlock()
	if len(p) == 0 { // like a TCP conn: a zero-length read does not report EOF
		return 0, nil
	}
	if len(c.chunks) == 0 {
		return 0, io.EOF
	}
	n := copy(p, c.chunks[0])
	if n == len(c.chunks[0]) {
		c.chunks = c.chunks[1:]
	} else {
		c.chunks[0] = c.chunks[0][n:]
	}
	return n, nil
}

func (c *chunkConn) Write(p []byte) (int, error) {
	c.mu.Lock()
	c.writes = append(c.writes, append([]byte(nil), p...))
	y := c.yield
	c.mu.Unlock()
	if y != nil {
		y()
	}
	return len(p), nil
}

func (c *chunkConn) log() [][]byte {
	c.mu.Lock()
	defer c.mu.Unlock()
	return append([][]byte(nil), c.writes...)
}

func (c *chunkConn) Close() error                       { c.mu.Lock(); c.closed = true; c.mu.Unlock(); return nil }
func (c *chunkConn) LocalAddr() net.Addr                { return fakeAddr("127.0.0.1:443") }
func (c *chunkConn) RemoteAddr() net.Addr               { return fakeAddr("127.0.0.2:50000") }
func (c *chunkConn) SetDeadline(t time.Time) error      { return nil }
func (c *chunkConn) SetReadDeadline(t time.Time) error  { return nil }
func (c *chunkConn) SetWriteDeadline(t time.Time) error { return nil }

// cut splits b at the given sorted positions (0 < p < len(b)); repeated positions give empty chunks.
func cut(b []byte, pos []int) [][]byte {
	var out [][]byte
	last := 0
	for _, p := range pos {
		out = append(out, b[last:p])
		last = p
	}
	return append(out, b[last:])
}

// ---------------------------------------------------------------------------------------------
// duplex: a blocking in-memory connection end for scenarios that run inside a synctest bubble.
// One side is handed to the code under test, the script drives the other side through feed/eof/taken.
// Blocking uses sync.Cond (durably blocking for synctest); the read deadline is honoured in (virtual) time.

type duplexEnd struct {
	mu        sync.Mutex
	cond      *sync.Cond
	in        [][]byte // chunks waiting to be read by the code under test
	inEOF     bool
	out       []byte // everything the code under test wrote
	outWrites int
	closed    bool // closed by the code under test
	nClose    int
	deadline  time.Time
	wdeadline time.Time // write deadline: a Write at or after it fails, as on a net.Conn
	timer     *time.Timer
	local     string
	remote    string
	readsDone int
}

func newDuplexEnd(local, remote string) *duplexEnd {
	d := &duplexEnd{local: local, remote: remote}
	d.cond = sync.NewCond(&d.mu)
	return d
}

var errDuplexClosed = errors.New("use of closed connection")

func (d *duplexEnd) Read(p []byte) (int, error) {
	d.mu.Lock()
	defer d.mu.Unlock()
	for {
		if d.closed {
			return 0, errDuplexClosed
		}
		if len(d.in) > 0 {
			if len(p) == 0 {
				return 0, nil
			}
			n := copy(p, d.in[0])
			if n == len(d.in[0]) {
				d.in = d.in[1:]
			} else {
				d.in[0] = d.in[0][n:]
			}
			d.readsDone++
			return n, nil
		}
		if d.inEOF {
			return 0, io.EOF
		}
		if !d.deadline.IsZero() && !time.Now().Before(d.deadline) {
			return 0, os.ErrDeadlineExceeded
		}
		d.cond.Wait()
	}
}

func (d *duplexEnd) Write(p []byte) (int, error) {
	d.mu.Lock()
	defer d.mu.Unlock()
	if d.closed {
		return 0, errDuplexClosed
	}
	if !d.wdeadline.IsZero() && !time.Now().Before(d.wdeadline) {
		return 0, os.ErrDeadlineExceeded
	}
	d.out = append(d.out, p...)
	d.outWrites++
	return len(p), nil
}

func (d *duplexEnd) Close() error {
	d.mu.Lock()
	d.closed = true
	d.nClose++
	if d.timer != nil {
		d.timer.Stop()
	}
	d.mu.Unlock()
	d.cond.Broadcast()
	return nil
}

func (d *duplexEnd) SetReadDeadline(t time.Time) error {
	d.mu.Lock()
	d.deadline = t
	if d.timer != nil {
		d.timer.Stop()
		d.timer = nil
	}
	if !t.IsZero() {
		d.timer = time.AfterFunc(time.Until(t), func() { d.cond.Broadcast() })
	}
	d.mu.Unlock()
	d.cond.Broadcast()
	return nil
}
func (d *duplexEnd) SetDeadline(t time.Time) error {
	d.SetWriteDeadline(t)
	return d.SetReadDeadline(t)
}
func (d *duplexEnd) SetWriteDeadline(t time.Time) error {
	d.mu.Lock()
	d.wdeadline = t
	d.mu.Unlock()
	return nil
}
func (d *duplexEnd) LocalAddr() net.Addr  { return fakeAddr(d.local) }
func (d *duplexEnd) RemoteAddr() net.Addr { return fakeAddr(d.remote) }

// script side
func (d *duplexEnd) feed(b []byte) {
	d.mu.Lock()
	d.in = append(d.in, append([]byte(nil), b...))
	d.mu.Unlock()
	d.cond.Broadcast()
}
func (d *duplexEnd) eof() {
	d.mu.Lock()
	d.inEOF = true
	d.mu.Unlock()
	d.cond.Broadcast()
}
func (d *duplexEnd) taken() []byte {
	d.mu.Lock()
	defer d.mu.Unlock()
	return append([]byte(nil), d.out...)
}
func (d *duplexEnd) isClosed() bool {
	d.mu.Lock()
	defer d.mu.Unlock()
	return d.closed
}
func (d *duplexEnd) pendingIn() int {
	d.mu.Lock()
	defer d.mu.Unlock()
	n := 0
	for _, c := range d.in {
		n += len(c)
	}
	return n
}
