//go:build verif

package main

// C17 — User bookkeeping never deadlocks and never loses track of a live session.
// The parent scenario runs each case in its own child process (a deadlocked child can only be left by exiting):
//   deadlock : two overlapping upload rounds, schedule taken from the Lean witness (Props/C17 pinned_deadlock_reachable)
//   orphan   : admission vs. last-session closure (Props/C17 orphanSchedule), sequenced through the real functions
//   hookvar  : the same with the closer parked at "ActiveUser.CloseSession:beforeTerminate" (not a violation on either tree)
//   stress   : seeded random overlap of all bookkeeping operations under a watchdog
// Deadlock verdict = two whole-process goroutine dumps a grace period apart both showing the two operations inside
// sync mutex-acquire frames AND the director's bookkeeping (who was released holding what) closing the cycle.

import (
	"fmt"
	"os"
	"runtime"
	"sort"
	"strings"
	"sync"
	"sync/atomic"
	"time"

	"github.com/cbeuw/Cloak/internal/common"
	mux "github.com/cbeuw/Cloak/internal/multiplex"
	"github.com/cbeuw/Cloak/internal/server"
)

func init() {
	scenarios["C17"] = c17
	scenarios["C17sub"] = c17sub
}

func c17(c *ctx) {
	o := c.o
	cases := [][]string{{"deadlock"}, {"orphan"}, {"hookvar"}, {"doubleterm"}, {"authrace"}, {"admit"}, {"admitbypass"}}
	nStress := 3
	if c.thorough() {
		nStress = 16
	}
	for i := 0; i < nStress; i++ {
		cases = append(cases, []string{"stress", fmt.Sprint(i)})
	}
	failed := 0
	for _, cs := range cases {
		res := runChildE(c, 90*time.Second, append([]string{"C17sub"}, cs...)...)
		o.stat("children", 1)
		if res.exit != 0 {
			if sig := crashSignature(res.stderr); sig != "" {
				o.V("C17 bookkeeping crashed the process: "+sig, map[string]any{"case": cs, "stderr_tail": tailE(res.stderr, 1500)})
			} else {
				failed++
				o.N(fmt.Sprintf("child %v exit=%d timedOut=%v stderr=%s", cs, res.exit, res.timedOut, tailE(res.stderr, 300)))
			}
		}
	}
	if failed > 0 {
		c.o.close()
		os.Exit(3)
	}
}

func tailE(s string, n int) string {
	if len(s) > n {
		return s[len(s)-n:]
	}
	return s
}

func c17sub(c *ctx) {
	if len(c.args) < 1 {
		os.Exit(2)
	}
	switch c.args[0] {
	case "deadlock":
		c17Deadlock(c)
	case "orphan":
		c17Orphan(c, false)
	case "hookvar":
		c17Orphan(c, true)
	case "doubleterm":
		c17DoubleTerminate(c)
	case "authrace":
		c17AuthRace(c)
	case "admit":
		c17AdmitDuringTermination(c, false)
	case "admitbypass":
		c17AdmitDuringTermination(c, true)
	case "stress":
		c17Stress(c)
	default:
		os.Exit(2)
	}
}

// pollUntil spins (state inspection, no verdict is ever derived from the cap) until f() or the cap expires
func pollUntil(cap time.Duration, f func() bool) bool {
	t0 := time.Now()
	for {
		if f() {
			return true
		}
		if time.Since(t0) > cap {
			return false
		}
		time.Sleep(500 * time.Microsecond)
	}
}

func isDone(ch chan struct{}) bool {
	select {
	case <-ch:
		return true
	default:
		return false
	}
}

func probeLine(rig *panelRig, u *server.ActiveUser) string {
	q, a := rig.panel.Probe()
	var ls []string
	if q {
		ls = append(ls, "0")
	}
	if a {
		ls = append(ls, "1")
	}
	if u != nil && server.VerifProbeS(u) {
		ls = append(ls, "2")
	}
	return "[" + strings.Join(ls, ",") + "]"
}

func c17Deadlock(c *ctx) {
	o := c.o
	rig := newPanelRig(1000)
	rig.putUser(1, 3, 1_000_000, 1_000_000, 5000)
	u, err := rig.panel.GetUser(uidBytes(1), false)
	if err != nil {
		fmt.Fprintln(os.Stderr, "setup GetUser:", err)
		os.Exit(2)
	}
	if _, _, _, err := server.VerifGetSession(u, 1, c.freshKey()); err != nil {
		fmt.Fprintln(os.Stderr, "setup GetSession:", err)
		os.Exit(2)
	}
	server.VerifValve(u).AddRx(10)
	rig.panel.UpdateUsageQueue() // a first, undisturbed collection: the queue now has an entry for the user

	parked := make(chan struct{})
	release := make(chan struct{})
	var armed int32 = 1
	common.SetVerifHook(func(label string) {
		if label == "userPanel.updateUsageQueue:betweenLocks" && atomic.CompareAndSwapInt32(&armed, 1, 0) {
			close(parked)
			<-release
		}
	})
	o.T("lk.new", "ok")
	o.T("lk.spawn prog=updateUsageQueue user=0", "t=0")
	d1, d2 := make(chan struct{}), make(chan struct{})
	go func() { rig.panel.UpdateUsageQueue(); close(d1) }()
	<-parked
	heldAtHook := probeLine(rig, u)
	o.T("lk.tohook t=0", "locks="+heldAtHook+" state=moved")
	o.T("lk.spawn prog=commitUpdate user=0 sig=Q+A+A-S+S-A+A-Q-", "t=1")
	go func() { rig.panel.CommitUpdate(); close(d2) }()
	settled := pollUntil(10*time.Second, func() bool {
		return isDone(d2) || anyMutexWait(dumpAll(), "(*userPanel).commitUpdate")
	})
	st2 := "moved"
	if isDone(d2) {
		st2 = "done"
	} else if settled {
		st2 = "blocked"
	}
	heldAfter2 := probeLine(rig, u)
	o.T("lk.adv t=1 k=100", "locks="+heldAfter2+" state="+st2)
	close(release)
	// decide: both finished, or both parked in mutex-acquire frames on two dumps a grace period apart
	var dumpA, dumpB string
	stuck := func(d string) bool {
		return inMutexWait(d, "(*userPanel).updateUsageQueue", "sync.(*Mutex).Lock") && anyMutexWait(d, "(*userPanel).commitUpdate")
	}
	pollUntil(10*time.Second, func() bool {
		if isDone(d1) && isDone(d2) {
			return true
		}
		dumpA = dumpAll()
		return stuck(dumpA)
	})
	deadlock := false
	if !(isDone(d1) && isDone(d2)) {
		time.Sleep(300 * time.Millisecond)
		dumpA = dumpAll()
		time.Sleep(1200 * time.Millisecond)
		dumpB = dumpAll()
		// bookkeeping: thread 0 was parked holding exactly what the probe showed and had not taken anything else;
		// thread 1 was started afterwards and every lock that became held since is its own
		cycle := heldAtHook == "[1]" && heldAfter2 == "[0,1]" && st2 == "blocked"
		deadlock = stuck(dumpA) && stuck(dumpB) && !isDone(d1) && !isDone(d2) && cycle
	}
	b2i := func(b bool) int {
		if b {
			return 1
		}
		return 0
	}
	dl := 0
	if deadlock {
		dl = 1
	}
	o.T("lk.settle", fmt.Sprintf("done=[%d,%d] locks=%s deadlock=%d", b2i(isDone(d1)), b2i(isDone(d2)), probeLine(rig, u), dl))
	caseC(o, "deadlock-replay", true)
	if deadlock {
		o.V("C17 deadlock updateUsageQueue-vs-commitUpdate lock-order inversion", map[string]any{
			"schedule": []string{"round1: updateUsageQueue takes activeUsersM, parked at userPanel.updateUsageQueue:betweenLocks",
				"round2: commitUpdate takes usageUpdateQueueM, waits for activeUsersM.RLock", "round1 released: waits for usageUpdateQueueM"},
			"held_when_parked": heldAtHook, "held_after_commit_started": heldAfter2,
			"dump1_frames": framesOf(dumpA), "dump2_frames": framesOf(dumpB), "grace_ms": 1200})
	} else if !(isDone(d1) && isDone(d2)) {
		o.N("deadlock replay: operations neither finished nor matched the deadlock pattern — no verdict")
	}
	o.sample("deadlock replay: held at hook " + heldAtHook + ", after commit start " + heldAfter2 + fmt.Sprintf(", deadlock=%v", deadlock))
	o.close()
	os.Exit(0) // never wait for the stuck goroutines
}

// bookkeepingWaiters: goroutines parked in a sync mutex-acquire frame called (directly or not) from a bookkeeping operation
func bookkeepingWaiters(d string) []string {
	var out []string
	for _, g := range strings.Split(d, "\n\n") {
		iLock := -1
		for _, lf := range []string{"sync.(*Mutex).Lock", "sync.(*RWMutex).RLock", "sync.(*RWMutex).Lock"} {
			if i := strings.Index(g, lf+"("); i >= 0 && (iLock < 0 || i < iLock) {
				iLock = i
			}
		}
		if iLock < 0 {
			continue
		}
		iOp := -1
		for _, f := range []string{"server.(*userPanel).", "server.(*ActiveUser)."} {
			if i := strings.Index(g, f); i >= 0 && (iOp < 0 || i < iOp) {
				iOp = i
			}
		}
		if iOp < 0 || iLock > iOp {
			continue
		}
		var fs []string
		for _, ln := range strings.Split(g, "\n") {
			if strings.HasPrefix(ln, "sync.(") || strings.Contains(ln, "server.(*userPanel)") || strings.Contains(ln, "server.(*ActiveUser)") {
				fs = append(fs, strings.TrimSpace(ln[:strings.LastIndex(ln, "(")]))
			}
		}
		out = append(out, strings.Join(fs, " <- "))
	}
	return out
}

// bookkeepingWaiterIDs maps goroutine id -> its bookkeeping frames, for goroutines parked in a lock acquisition
// inside a userPanel / ActiveUser operation
func bookkeepingWaiterIDs(d string) map[string]string {
	out := map[string]string{}
	for _, g := range strings.Split(d, "\n\n") {
		ws := bookkeepingWaiters(g)
		if len(ws) != 1 || !strings.HasPrefix(g, "goroutine ") {
			continue
		}
		id := strings.Fields(g[len("goroutine "):])[0]
		out[id] = ws[0]
	}
	return out
}

func framesOf(d string) []string {
	var out []string
	for _, g := range strings.Split(d, "\n\n") {
		if strings.Contains(g, "(*userPanel).updateUsageQueue") || strings.Contains(g, "(*userPanel).commitUpdate") {
			var fs []string
			for _, ln := range strings.Split(g, "\n") {
				if strings.HasPrefix(ln, "sync.(") || strings.Contains(ln, "server.(*userPanel)") || strings.HasPrefix(ln, "goroutine ") {
					fs = append(fs, strings.TrimSpace(ln))
				}
			}
			out = append(out, strings.Join(fs, " <- "))
		}
	}
	return out
}

// ---- orphan session: admission vs. the user's last session closing ------------------------------------------

func sessOut(existing bool, key [32]byte, err error) string {
	switch {
	case err == nil && existing:
		return fmt.Sprintf("joined key=%d", keyNum(key))
	case err == nil:
		return fmt.Sprintf("created key=%d", keyNum(key))
	}
	n := errName(err)
	if strings.HasPrefix(n, "other:") && strings.Contains(n, "terminated") {
		return "retired"
	}
	return "refused " + n
}

func c17Orphan(c *ctx, hookVariant bool) {
	o := c.o
	rig := newPanelRig(1000)
	now := int64(1000)
	o.T("sess.new", "ok")
	rig.putUser(7, 2, 5000, 5000, 100000)
	o.T("sess.put uid=7 cap=2 upc=5000 downc=5000 exp=100000", "ok")
	created := map[*mux.Session]string{}
	getUser := func() *server.ActiveUser {
		u, err := rig.panel.GetUser(uidBytes(7), false)
		if err != nil {
			o.T(fmt.Sprintf("sess.getUser uid=7 bypass=0 now=%d", now), "err="+errName(err))
			return nil
		}
		id, fresh := rig.idOf(u)
		f := 0
		if fresh {
			f = 1
		}
		o.T(fmt.Sprintf("sess.getUser uid=7 bypass=0 now=%d", now), fmt.Sprintf("rec=%d fresh=%d", id, f))
		return u
	}
	getSession := func(u *server.ActiveUser, sid uint32) {
		k := c.freshKey()
		s, ex, sk, err := server.VerifGetSession(u, sid, k)
		id, _ := rig.idOf(u)
		o.T(fmt.Sprintf("sess.getSession rec=%d sid=%d key=%d now=%d", id, sid, keyNum(k), now), sessOut(ex, sk, err))
		if err == nil && !ex {
			created[s] = fmt.Sprintf("rec%d sid %d", id, sid)
		}
	}
	u0 := getUser()
	getSession(u0, 1)
	// second connection of the same user: the dispatcher resolves the record …
	uD := getUser()
	if !hookVariant {
		// … the user's last session closes, which terminates the user …
		server.VerifCloseSession(u0, 1, "")
		o.T("sess.closeLocked rec=0 sid=1", fmt.Sprintf("remaining=%d", server.VerifNumSession(u0)))
		o.T("sess.terminate rec=0", rig.stateLine())
		// … and only now the dispatcher creates its session, in the record it resolved earlier
		getSession(uD, 2)
	} else {
		parked, release := make(chan struct{}), make(chan struct{})
		var armed int32 = 1
		common.SetVerifHook(func(label string) {
			if label == "ActiveUser.CloseSession:beforeTerminate" && atomic.CompareAndSwapInt32(&armed, 1, 0) {
				close(parked)
				<-release
			}
		})
		done := make(chan struct{})
		go func() { server.VerifCloseSession(u0, 1, ""); close(done) }()
		<-parked
		o.T("sess.closeLocked rec=0 sid=1", fmt.Sprintf("remaining=%d", server.VerifNumSession(u0)))
		getSession(uD, 2) // between the locked part of CloseSession and TerminateActiveUser
		close(release)
		<-done
		o.T("sess.terminate rec=0", rig.stateLine())
	}
	// a further connection of that user
	u2 := getUser()
	if u2 != nil {
		getSession(u2, 3)
	}
	o.T("sess.state", rig.stateLine())
	orph := rig.orphans()
	single := "1"
	if len(orph) > 0 {
		single = "0"
	}
	o.T("sess.single", single)
	name := "orphan-replay"
	if hookVariant {
		name = "orphan-hook-variant"
	}
	caseC(o, name, true)
	if len(orph) > 0 {
		o.V("C17 orphan-session admission-vs-last-close", map[string]any{"variant": name,
			"schedule":                            []string{"conn A: GetUser → record 0, GetSession(1) created", "conn B: GetUser → record 0", "conn A's session 1 closes → CloseSession → TerminateActiveUser(record 0)", "conn B: GetSession(2) on record 0"},
			"live_sessions_outside_active_record": orph, "state": rig.stateLine()})
	}
	o.sample(name + ": " + rig.stateLine())
	common.SetVerifHook(nil)
	rig.close()
}

// two terminations of one record overlap (its last session closes while a TERMINATE verdict is being carried out), the user
// reconnects in between: the late delete must not remove the NEW record's entry (Props/C17 c17_unguarded_delete_witness)
func c17DoubleTerminate(c *ctx) {
	o := c.o
	rig := newPanelRig(1000)
	now := int64(1000)
	o.T("sess.new", "ok")
	rig.putUser(7, 2, 5000, 5000, 100000)
	o.T("sess.put uid=7 cap=2 upc=5000 downc=5000 exp=100000", "ok")
	getUser := func() *server.ActiveUser {
		u, err := rig.panel.GetUser(uidBytes(7), false)
		if err != nil {
			o.T(fmt.Sprintf("sess.getUser uid=7 bypass=0 now=%d", now), "err="+errName(err))
			return nil
		}
		id, fresh := rig.idOf(u)
		f := 0
		if fresh {
			f = 1
		}
		o.T(fmt.Sprintf("sess.getUser uid=7 bypass=0 now=%d", now), fmt.Sprintf("rec=%d fresh=%d", id, f))
		return u
	}
	getSession := func(u *server.ActiveUser, sid uint32) {
		k := c.freshKey()
		_, ex, sk, err := server.VerifGetSession(u, sid, k)
		id, _ := rig.idOf(u)
		o.T(fmt.Sprintf("sess.getSession rec=%d sid=%d key=%d now=%d", id, sid, keyNum(k), now), sessOut(ex, sk, err))
	}
	u0 := getUser()
	getSession(u0, 1)
	parked, release := make(chan struct{}), make(chan struct{})
	var armed int32 = 1
	common.SetVerifHook(func(label string) {
		if label == "ActiveUser.CloseSession:beforeTerminate" && atomic.CompareAndSwapInt32(&armed, 1, 0) {
			close(parked)
			<-release
		}
	})
	done := make(chan struct{})
	go func() { server.VerifCloseSession(u0, 1, ""); close(done) }()
	<-parked
	o.T("sess.closeLocked rec=0 sid=1", fmt.Sprintf("remaining=%d", server.VerifNumSession(u0)))
	rig.panel.Terminate(u0, "verdict") // what commitUpdate does for a TERMINATE response
	o.T("sess.terminate rec=0", rig.stateLine())
	u1 := getUser() // the user reconnects: a new record
	if u1 != nil {
		getSession(u1, 1)
	}
	close(release) // the parked closure now runs its own TerminateActiveUser(record 0)
	<-done
	o.T("sess.terminate rec=0", rig.stateLine())
	orph := rig.orphans()
	single := "1"
	if len(orph) > 0 {
		single = "0"
	}
	o.T("sess.single", single)
	caseC(o, "double-terminate", true)
	if len(orph) > 0 {
		o.V("C17 orphan-session late-delete-removes-new-record", map[string]any{
			"schedule": []string{"session 1 of record 0 closes; CloseSession parked before TerminateActiveUser", "TerminateActiveUser(record 0) by a TERMINATE verdict completes",
				"user reconnects: record 1, session 1", "parked closure resumes: TerminateActiveUser(record 0) deletes activeUsers[uid] = record 1"},
			"live_sessions_outside_active_record": orph, "state": rig.stateLine()})
	}
	o.sample("double-terminate: " + rig.stateLine())
	common.SetVerifHook(nil)
	rig.close()
}

// ---- seeded random overlap of all bookkeeping operations ------------------------------------------------------

func c17Stress(c *ctx) {
	o := c.o
	sub := 0
	if len(c.args) > 1 {
		fmt.Sscan(c.args[1], &sub)
	}
	for i := 0; i < sub*7+1; i++ {
		c.r.next()
	}
	rig := newPanelRig(1000)
	nUsers := 2
	for uid := 1; uid <= nUsers; uid++ {
		rig.putUser(uid, 3, 1<<50, 1<<50, 1<<40)
	}
	// user 2 runs out of upload credit somewhere in the middle: the commit's TERMINATE path is exercised too;
	// it is topped up again now and then by the traffic worker
	rig.putUser(2, 3, 400, 1<<50, 1<<40)
	iters := 400
	if c.thorough() {
		iters = 6000
	}
	var progress int64
	var mu sync.Mutex
	type cs struct {
		s   *mux.Session
		u   *server.ActiveUser
		sid uint32
	}
	var createdAll []cs
	var wg sync.WaitGroup
	var admittersLeft int32 = 3
	worker := func(r *rng, f func(r *rng), isAdmitter bool) {
		defer wg.Done()
		for i := 0; ; i++ {
			if isAdmitter && i >= iters {
				atomic.AddInt32(&admittersLeft, -1)
				return
			}
			if !isAdmitter && atomic.LoadInt32(&admittersLeft) == 0 {
				return
			}
			f(r)
			atomic.AddInt64(&progress, 1)
			if r.intn(4) == 0 {
				runtime.Gosched()
			}
		}
	}
	admit := func(r *rng) {
		uid := 1 + r.intn(nUsers)
		u, err := rig.panel.GetUser(uidBytes(uid), false)
		if err != nil {
			return
		}
		if r.intn(2) == 0 {
			runtime.Gosched()
		}
		sid := uint32(1 + r.intn(3))
		var k [32]byte
		copy(k[:], r.bytes(32))
		s, ex, _, err := server.VerifGetSession(u, sid, k)
		if err != nil {
			if !strings.Contains(err.Error(), "terminated") { // (a retired record sends the dispatcher back to the lookup)
				server.VerifRefusedCleanup(u, sid) // what dispatchConnection does on a refused session
			}
			return
		}
		if !ex {
			mu.Lock()
			createdAll = append(createdAll, cs{s, u, sid})
			mu.Unlock()
		}
	}
	closer := func(r *rng) {
		mu.Lock()
		var x *cs
		if len(createdAll) > 0 {
			x = &createdAll[r.intn(len(createdAll))]
		}
		mu.Unlock()
		if x != nil {
			server.VerifCloseSession(x.u, x.sid, "")
		}
	}
	upload := func(r *rng) {
		rig.panel.UpdateUsageQueue()
		rig.panel.CommitUpdate()
	}
	traffic := func(r *rng) {
		for _, u := range rig.panel.ActiveList() {
			server.VerifValve(u).AddRx(int64(r.intn(5)))
		}
		if r.intn(40) == 0 {
			rig.putUser(2, 3, 400, 1<<50, 1<<40)
		}
	}
	fs := []func(*rng){admit, admit, admit, closer, closer, upload, upload, traffic}
	for i, f := range fs {
		wg.Add(1)
		go worker(c.r.fork(), f, i < 3)
	}
	allDone := make(chan struct{})
	go func() { wg.Wait(); close(allDone) }()
	// watchdog
	last, lastChange := int64(-1), time.Now()
	lastPartial := time.Now()
	for {
		select {
		case <-allDone:
		case <-time.After(100 * time.Millisecond):
			// partial deadlock: some operations are wedged on each other while the other workers still make progress.
			// Verdict only if the SAME goroutines sit in bookkeeping lock-acquire frames in three whole-process dumps 2 s apart
			// (critical sections here last micro- to milliseconds) and a lock probe finds a bookkeeping lock held throughout.
			if time.Since(lastPartial) > 3*time.Second {
				lastPartial = time.Now()
				w1 := bookkeepingWaiterIDs(dumpAll())
				if len(w1) >= 2 {
					time.Sleep(2 * time.Second)
					w2 := bookkeepingWaiterIDs(dumpAll())
					time.Sleep(2 * time.Second)
					d3 := dumpAll()
					w3 := bookkeepingWaiterIDs(d3)
					var same []string
					for id, fr := range w1 {
						if w2[id] == fr && w3[id] == fr {
							same = append(same, "goroutine "+id+": "+fr)
						}
					}
					q, a := rig.panel.Probe()
					sHeld := false
					for _, u := range rig.panel.ActiveList() {
						if server.VerifProbeS(u) {
							sHeld = true
						}
					}
					if len(same) >= 2 && (q || a || sHeld) {
						sort.Strings(same)
						caseC(o, fmt.Sprintf("stress-%d", sub), true)
						o.V("C17 deadlock among bookkeeping operations (random overlap)", map[string]any{"stress_case": sub,
							"operations_completed_meanwhile": atomic.LoadInt64(&progress), "same_goroutines_waiting_in_3_dumps_over_4s": same,
							"usageUpdateQueueM_held": q, "activeUsersM_held": a, "some_sessionsM_held": sHeld})
						o.close()
						os.Exit(0)
					}
				}
			}
			p := atomic.LoadInt64(&progress)
			if p != last {
				last, lastChange = p, time.Now()
				continue
			}
			if time.Since(lastChange) < 400*time.Millisecond {
				continue
			}
			stuck := func(d string) bool { return len(bookkeepingWaiters(d)) >= 2 }
			d1 := dumpAll()
			if stuck(d1) {
				time.Sleep(1500 * time.Millisecond)
				d2 := dumpAll()
				q, a := rig.panel.Probe()
				if stuck(d2) && atomic.LoadInt64(&progress) == last && (q || a) {
					caseC(o, fmt.Sprintf("stress-%d", sub), true)
					o.V("C17 deadlock among bookkeeping operations (random overlap)", map[string]any{"stress_case": sub, "operations_completed": last,
						"waiting_in_dump1": bookkeepingWaiters(d1), "waiting_in_dump2": bookkeepingWaiters(d2),
						"usageUpdateQueueM_held": q, "activeUsersM_held": a})
					o.stat("stress_ops", int(last))
					o.close()
					os.Exit(0)
				}
			}
			if time.Since(lastChange) > 30*time.Second {
				o.N("stress: no progress for 30 s without the recognised deadlock pattern — no verdict")
				o.close()
				os.Exit(3)
			}
			continue
		}
		break
	}
	// quiescence
	o.stat("stress_ops", int(atomic.LoadInt64(&progress)))
	var orph []string
	for _, x := range createdAll {
		if x.s.IsClosed() {
			continue
		}
		uid := uidNum(server.VerifUID(x.u))
		cur := rig.panel.ActiveRecord(uidBytes(uid))
		if cur != x.u || server.VerifSessions(x.u)[x.sid] != x.s {
			orph = append(orph, fmt.Sprintf("uid %d sid %d", uid, x.sid))
		}
	}
	caseC(o, fmt.Sprintf("stress-%d", sub), true)
	if len(orph) > 0 {
		o.V("C17 orphan-session admission-vs-last-close (random overlap)", map[string]any{"stress_case": sub, "live_sessions_not_owned_by_the_active_record": orph})
	}
	o.sample(fmt.Sprintf("stress %d: %d operations, %d sessions created, %d orphans at quiescence", sub, atomic.LoadInt64(&progress), len(createdAll), len(orph)))
	o.close()
	os.Exit(0)
}
