//go:build verif

package main

import (
	"bytes"
	"crypto/rand"
	"fmt"
	"sync"
	"time"

	"github.com/cbeuw/Cloak/internal/client"
	"github.com/cbeuw/Cloak/internal/common"
	"github.com/cbeuw/Cloak/internal/server"
)

// C06 "the server recovers exactly the client's UID, session id and options" with MANY handshakes going on at the same time in
// one process (the client's MakeSession with NumConn > 1, a server with several clients connecting): real goroutines, real
// parallelism, each building its own first packet (real client code) and presenting it to the real AuthFirstPacket; every goroutine
// must get back ITS OWN uid and session id, every time. Monitor only. (Round-7 seed C06-9 - an AEAD cache whose hit path reads the
// entry after releasing the lock - gave no failing input: nothing ran two handshakes with different secrets in parallel.)

func init() { scenarios["C06par"] = c06par }

func c06par(c *ctx) {
	workers, rounds := 16, 400
	if c.thorough() {
		rounds = 6000
	}
	keys := newServerKeys(c.r)
	sta := newState(keys, stateOpts{now: time.Now})
	var mu sync.Mutex
	hit := false
	total := 0
	var wg sync.WaitGroup
	for w := 0; w < workers; w++ {
		wg.Add(1)
		go func(w int) {
			defer wg.Done()
			uid := make([]byte, 16)
			rand.Read(uid)
			uid[0] = byte(w)
			for i := 0; i < rounds; i++ {
				mu.Lock()
				stop := hit
				mu.Unlock()
				if stop {
					return
				}
				sid := uint32(w)<<20 | uint32(i)
				enc := byte(i % 4)
				unordered := i%3 == 0
				ai := mkAuthInfo(keys, uid, sid, "shadowsocks", enc, unordered, time.Now, cryptoRand{}, "example.com")
				pkt, err := client.VerifFirstPacketTLS(ai, (w+i)%3)
				if err != nil {
					continue
				}
				ci, _, err := server.AuthFirstPacket(pkt, server.TLS{}, sta)
				bad := ""
				switch {
				case err != nil:
					bad = "the server refused a first packet made by the real client with the right key: " + err.Error()
				case !bytes.Equal(ci.UID, uid):
					bad = fmt.Sprintf("uid: client %x, server %x", uid, ci.UID)
				case ci.SessionId != sid:
					bad = fmt.Sprintf("session id: client %d, server %d", sid, ci.SessionId)
				case ci.EncryptionMethod != enc || ci.Unordered != unordered || ci.ProxyMethod != "shadowsocks":
					bad = "options differ"
				}
				mu.Lock()
				total++
				if bad != "" && !hit {
					hit = true
					c.o.V("C06 concurrent-handshakes: with several handshakes in progress at once the server does not recover what the client sent",
						map[string]any{"worker": w, "round": i, "what": bad, "workers": workers,
							"replay": fmt.Sprintf("%d goroutines, each: the real client's first packet (DirectTLS, own uid / session id) -> server.AuthFirstPacket, in a loop; the failure shows after %d handshakes in all (needs real parallelism)", workers, total)})
				}
				mu.Unlock()
			}
		}(w)
	}
	wg.Wait()
	// the same at the level of the two wrappers every handshake goes through (common.AESGCMEncrypt / AESGCMDecrypt: the hello's
	// payload, the session-key reply), each goroutine under ITS OWN key, tens of thousands of times: what one seals it must open
	iters := 20000
	if c.thorough() {
		iters = 200000
	}
	sealed := 0
	for w := 0; w < workers && !hit; w++ {
		wg.Add(1)
		go func(w int) {
			defer wg.Done()
			key := make([]byte, 32)
			rand.Read(key)
			nonce := make([]byte, 12)
			pt := make([]byte, 48)
			for i := 0; i < iters; i++ {
				if i%64 == 0 {
					mu.Lock()
					stop := hit
					sealed += 64
					mu.Unlock()
					if stop {
						return
					}
					rand.Read(key) // a new shared secret, as every handshake has
				}
				nonce[0], nonce[1], nonce[2], pt[0], pt[1] = byte(i), byte(i>>8), byte(w), byte(w), byte(i)
				ct, err := common.AESGCMEncrypt(nonce, key, pt)
				var back []byte
				if err == nil {
					back, err = common.AESGCMDecrypt(nonce, key, ct)
				}
				if err != nil || !bytes.Equal(back, pt) {
					mu.Lock()
					if !hit {
						hit = true
						c.o.V("C06 concurrent-handshakes: with several handshakes in progress at once the server does not recover what the client sent",
							map[string]any{"worker": w, "iteration": i, "what": fmt.Sprintf("what one goroutine sealed under its key with common.AESGCMEncrypt does not open under the same key with common.AESGCMDecrypt: %v", err),
								"replay": fmt.Sprintf("%d goroutines, each with its own 32-byte key (renewed every 64 rounds): AESGCMEncrypt then AESGCMDecrypt of a 48-byte plaintext, in a loop (needs real parallelism)", workers)})
					}
					mu.Unlock()
					return
				}
			}
		}(w)
	}
	wg.Wait()
	c.o.stat("parallel_seal_open_pairs", sealed)
	c.o.stat("parallel_handshakes", total)
	c.o.case_("parallel handshakes", true)
}
