//go:build verif

package main

import (
	"fmt"
	"sync"
	"sync/atomic"
	"testing/synctest"
	"time"

	"github.com/cbeuw/Cloak/internal/server"
)

// C08 "accepts a given client handshake at most once ... across the periodic clean-ups of the server's replay memory ...
// clean-ups at arbitrary phases relative to them": handshakes that arrive WHILE a clean-up pass is running. The cache holds
// a few hundred thousand live entries of other clients (a pass then takes milliseconds), several connections present fresh
// hellos one after the other from the very instant the cleaner wakes (virtual clock), and one second later every one of
// them is presented again: none may be accepted a second time. Presentations are concurrent, so this scenario has monitors
// only (no rows for the model). Own subprocess (synctest bubble with the immortal cleaner).

func init() { scenarios["C08race"] = c08race }

func c08race(c *ctx) {
	r := c.r
	cycles, presenters, perConn, ballast := 2, 8, 60, 200000
	if c.thorough() {
		cycles, perConn, ballast = 4, 150, 300000
	}
	synctest.Run(func() {
		keys := newServerKeys(r)
		sta := newState(keys, stateOpts{bypass: [][]byte{c08UID}, now: time.Now})
		start := time.Now()
		period := server.VerifCleanerPeriod()
		var firstRefused, replayAccepted int64
		var example atomic.Value
		for cy := 1; cy <= cycles; cy++ {
			passAt := start.Add(time.Duration(cy) * period)
			time.Sleep(time.Until(passAt.Add(-time.Minute)))
			server.VerifReplayBallast(sta, byte(cy), ballast, time.Now().Unix()) // registered a minute before the pass: they survive it
			hellos := make([][]hsPacket, presenters)
			for p := range hellos {
				for i := 0; i < perConn; i++ {
					tr := []string{"tls", "ws"}[(p+i)%2]
					hellos[p] = append(hellos[p], buildFirstPacket(keys, r, tr, (p+i)%3, c08UID, uint32(cy*100000+p*1000+i), "shadowsocks", 1, false, passAt))
				}
			}
			var wg sync.WaitGroup
			for p := 0; p < presenters; p++ {
				wg.Add(1)
				go func(mine []hsPacket) {
					defer wg.Done()
					time.Sleep(time.Until(passAt)) // wakes at the same instant as the cleaner
					for _, h := range mine {
						buf := append([]byte(nil), h.pkt...)
						if _, _, err := server.AuthFirstPacket(buf, transportOf(h.tr), sta); err != nil {
							atomic.AddInt64(&firstRefused, 1)
						}
					}
				}(hellos[p])
			}
			time.Sleep(time.Until(passAt))
			wg.Wait()
			synctest.Wait() // the cleaner has finished its pass and sleeps again
			time.Sleep(time.Second)
			for p := range hellos {
				for _, h := range hellos[p] {
					buf := append([]byte(nil), h.pkt...)
					if _, _, err := server.AuthFirstPacket(buf, transportOf(h.tr), sta); err == nil {
						if atomic.AddInt64(&replayAccepted, 1) == 1 {
							example.Store(h)
						}
					}
				}
			}
			c.o.stat("presentations_during_a_cleanup_pass", presenters*perConn)
		}
		if replayAccepted > 0 {
			h := example.Load().(hsPacket)
			c.o.V("C08 replay-after-cleanup presented-during-the-clean-up-pass", map[string]any{"accepted_twice": replayAccepted, "presented": cycles * presenters * perConn,
				"transport": h.tr, "first_packet": hx(h.pkt), "server_private_key": hx(keys.priv[:]), "cache_entries_of_other_clients": ballast,
				"history": []string{"first presentation at the instant the cleaner wakes (12 h virtual sleep elapsed), while its pass over the cache runs → accept",
					"same packet 1 s later (timestamp still inside the window) → accept"},
				"replay": fmt.Sprintf("InitState (cleaner running) under testing/synctest; %d entries registered a minute before the pass; %d goroutines present %d fresh hellos each from the pass instant on; all presented again 1 s later", ballast, presenters, perConn)})
		}
		if firstRefused > 0 {
			c.o.N(fmt.Sprintf("C08 race: %d fresh hellos were refused at their first presentation", firstRefused))
		}
		c.o.case_("presentations during a clean-up pass", true)
		childFinish(c)
	})
}
