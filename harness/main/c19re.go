//go:build verif

package main

import (
	"fmt"
	"net"
	"os"
	"sync"
	"testing/synctest"
	"time"

	mux "github.com/cbeuw/Cloak/internal/multiplex"
	"github.com/cbeuw/Cloak/internal/server"
)

// C19, the user's allowance across a disconnect/reconnect: the property counts "all of the user's sessions and
// connections together" over ANY interval. When a user's last session closes the active-user record is
// terminated, and the next connection builds a fresh record with a fresh (full) token bucket.
// Runs in its own subprocess (synctest bubble with immortal panel goroutines).

func init() { scenarios["C19re"] = c19reChild }

type c19reConn struct {
	mu   sync.Mutex
	evs  *[]c19reEv
	t0   time.Time
	dead chan struct{}
	once sync.Once
}
type c19reEv struct {
	t int64
	n int
	a int // activation number
}

var c19reActivation int

func (c *c19reConn) Read(b []byte) (int, error) { <-c.dead; return 0, fmt.Errorf("closed") }
func (c *c19reConn) Write(b []byte) (int, error) {
	c.mu.Lock()
	*c.evs = append(*c.evs, c19reEv{int64(time.Since(c.t0)), len(b), c19reActivation})
	c.mu.Unlock()
	return len(b), nil
}
func (c *c19reConn) Close() error                       { c.once.Do(func() { close(c.dead) }); return nil }
func (c *c19reConn) LocalAddr() net.Addr                { return faddr("l") }
func (c *c19reConn) RemoteAddr() net.Addr               { return faddr("r") }
func (c *c19reConn) SetDeadline(t time.Time) error      { return nil }
func (c *c19reConn) SetReadDeadline(t time.Time) error  { return nil }
func (c *c19reConn) SetWriteDeadline(t time.Time) error { return nil }

func c19reChild(c *ctx) {
	r := c.r
	synctest.Run(func() {
		ncases := 6
		if c.thorough() {
			ncases = 60
		}
		for k := 0; k < ncases; k++ {
			rate := int64(50_000 + r.intn(2_000_000)) // well above the largest message
			msg := 1000 + r.intn(8000)
			activations := 2 + r.intn(3)
			phase := time.Duration(100+r.intn(400)) * time.Millisecond
			gap := time.Duration(r.intn(50)) * time.Millisecond
			tag := fmt.Sprintf("reconnect #%d rate=%d msg=%d activations=%d phase=%v gap=%v", k, rate, msg, activations, phase, gap)
			panel := server.NewVerif19Panel(rate, rate)
			uid := r.bytes(16)
			var evs []c19reEv
			var mu sync.Mutex
			_ = mu
			t0 := time.Now()
			maxMsg := 0
			for a := 0; a < activations; a++ {
				c19reActivation = a
				var key [32]byte
				copy(key[:], r.bytes(32))
				ob, _ := mux.MakeObfuscator(byte(r.intn(4)), key)
				u, sesh, err := panel.Admit(uid, uint32(a+1), mux.SessionConfig{Obfuscator: ob, MsgOnWireSizeLimit: 16401, InactivityTimeout: time.Hour})
				if err != nil {
					c.o.N("reconnect: admit failed: " + err.Error())
					return
				}
				cn := &c19reConn{evs: &evs, t0: t0, dead: make(chan struct{})}
				sesh.AddConnection(cn)
				st, err := sesh.OpenStream()
				if err != nil {
					return
				}
				start := time.Now()
				buf := r.bytes(msg)
				for time.Since(start) < phase { // a backlogged sender
					if _, err := st.Write(buf); err != nil {
						break
					}
				}
				// the user's last session ends: serveSession calls CloseSession, which terminates the record
				panel.CloseSession(u, uint32(a+1))
				cn.Close()
				synctest.Wait()
				if panel.IsActive(uid) {
					c.o.N("reconnect: record still active after its last session closed")
				}
				time.Sleep(gap)
			}
			for _, e := range evs {
				if e.n > maxMsg {
					maxMsg = e.n
				}
			}
			// the property's bound for EVERY interval [a,b] of send instants, all activations together
			lit := func(dt int64) float64 {
				return 1.01*(float64(rate)*float64(dt)/1e9+float64(rate)) + float64(maxMsg) + 16
			}
			worstAll, worstOne := 0.0, 0.0
			var wa, wb int
			for i := range evs {
				sum := 0
				sameAct := true
				for j := i; j < len(evs); j++ {
					sum += evs[j].n
					if evs[j].a != evs[i].a {
						sameAct = false
					}
					ex := float64(sum) - lit(evs[j].t-evs[i].t)
					if ex > worstAll {
						worstAll, wa, wb = ex, i, j
					}
					if sameAct && ex > worstOne {
						worstOne = ex
					}
				}
			}
			c.o.case_(tag, true)
			total := 0
			for _, e := range evs {
				total += e.n
			}
			c.o.stat("reconnect_bytes", total)
			switch {
			case worstOne > 0:
				c.o.V("C19 exceeds-one-second-worth within one activation", map[string]any{"tag": tag, "excess_bytes": int64(worstOne)})
			case worstAll > 0:
				c.o.V("C19 fresh-allowance-after-reactivation", map[string]any{"tag": tag, "rate": rate, "largest_message": maxMsg,
					"interval_ns": evs[wb].t - evs[wa].t, "from_activation": evs[wa].a, "to_activation": evs[wb].a,
					"excess_bytes_over_rate_x_t_plus_one_second": int64(worstAll),
					"why": "the user's last session closed, the active-user record was terminated, and the next connection got a new record with a fresh full bucket"})
			}
		}
		childFinish(c)
	})
	os.Exit(0)
}
