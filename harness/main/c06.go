//go:build verif

package main

// C06 — client and server agree on identity, options and session key after the handshake.
//
// Real handshakes in one process over in-memory connections: client DirectTLS.Handshake (chrome /
// firefox / safari) and WSOverTLS.Handshake (through a TLS terminator that plays the CDN and forwards the
// plain HTTP upgrade to the server) against the server's readFirstPacket + AuthFirstPacket + Responder,
// and a subset against the whole dispatchConnection; × four encryption methods × session ids
// {0, 1, 2^31, 2^32−1, random} × both unordered flags × client clock offsets inside the window × server
// names incl. "random".  Monitor (the property): the server's ClientInfo equals what the client was
// configured with, and both ends hold the same 32-byte key.
//
// T rows (`hs.*`): every real uTLS ClientHello goes through the Lean parser (random / session id / key
// share must be what Go's parser found); the Lean client plaintext and payload must equal the real ones;
// the Lean reading of the plaintext must equal the server's ClientInfo; the Lean client-side extraction
// applied to the real reply must give the real key; composeReply is compared byte for byte.

import (
	"bytes"
	"crypto/ecdsa"
	"crypto/elliptic"
	crand "crypto/rand"
	"crypto/tls"
	"crypto/x509"
	"crypto/x509/pkix"
	"fmt"
	"io"
	"math/big"
	"net"
	"os"
	"sync"
	"time"

	"github.com/cbeuw/Cloak/internal/client"
	"github.com/cbeuw/Cloak/internal/server"
	"golang.org/x/crypto/curve25519"
)

func init() { scenarios["C06"] = c06 }

// the ClientInfo the server returned for the previous direct (non-dispatch) handshake, and the UID that client sent
var (
	c06prevCI  server.ClientInfo
	c06prevUID []byte
)

// ---- buffered in-memory duplex connection (writes never block; deadlines honoured) ----

type halfPipe struct {
	mu       sync.Mutex
	cond     *sync.Cond
	buf      bytes.Buffer
	closed   bool
	deadline time.Time
	timer    *time.Timer
}

func newHalf() *halfPipe { h := &halfPipe{}; h.cond = sync.NewCond(&h.mu); return h }

func (h *halfPipe) write(p []byte) (int, error) {
	h.mu.Lock()
	defer h.mu.Unlock()
	if h.closed {
		return 0, io.ErrClosedPipe
	}
	h.buf.Write(p)
	h.cond.Broadcast()
	return len(p), nil
}
func (h *halfPipe) read(p []byte) (int, error) {
	h.mu.Lock()
	defer h.mu.Unlock()
	for h.buf.Len() == 0 {
		if h.closed {
			return 0, io.EOF
		}
		if !h.deadline.IsZero() && !time.Now().Before(h.deadline) {
			return 0, os.ErrDeadlineExceeded
		}
		h.cond.Wait()
	}
	return h.buf.Read(p)
}
func (h *halfPipe) close() {
	h.mu.Lock()
	h.closed = true
	h.cond.Broadcast()
	h.mu.Unlock()
}
func (h *halfPipe) setDeadline(t time.Time) {
	h.mu.Lock()
	h.deadline = t
	if h.timer != nil {
		h.timer.Stop()
	}
	if !t.IsZero() {
		d := time.Until(t)
		if d < 0 {
			d = 0
		}
		h.timer = time.AfterFunc(d, func() { h.mu.Lock(); h.cond.Broadcast(); h.mu.Unlock() })
	}
	h.cond.Broadcast()
	h.mu.Unlock()
}

type memConn struct {
	rd, wr *halfPipe
	mu     sync.Mutex
	sent   bytes.Buffer // everything this end wrote (tap)
}

func memPipe() (*memConn, *memConn) {
	a, b := newHalf(), newHalf()
	return &memConn{rd: a, wr: b}, &memConn{rd: b, wr: a}
}
func (c *memConn) Read(p []byte) (int, error) { return c.rd.read(p) }
func (c *memConn) Write(p []byte) (int, error) {
	c.mu.Lock()
	c.sent.Write(p)
	c.mu.Unlock()
	return c.wr.write(p)
}
func (c *memConn) Close() error                       { c.rd.close(); c.wr.close(); return nil }
func (c *memConn) LocalAddr() net.Addr                { return &net.TCPAddr{IP: net.IPv4(127, 0, 0, 1), Port: 443} }
func (c *memConn) RemoteAddr() net.Addr               { return &net.TCPAddr{IP: net.IPv4(127, 0, 0, 1), Port: 40000} }
func (c *memConn) SetDeadline(t time.Time) error      { c.rd.setDeadline(t); return nil }
func (c *memConn) SetReadDeadline(t time.Time) error  { c.rd.setDeadline(t); return nil }
func (c *memConn) SetWriteDeadline(t time.Time) error { return nil }
func (c *memConn) sentBytes() []byte {
	c.mu.Lock()
	defer c.mu.Unlock()
	return append([]byte(nil), c.sent.Bytes()...)
}

// recReader hands out seeded bytes and remembers every read.
type recReader struct {
	r     *rng
	reads [][]byte
}

func (s *recReader) Read(p []byte) (int, error) {
	b := s.r.bytes(len(p))
	copy(p, b)
	s.reads = append(s.reads, b)
	return len(p), nil
}

func selfSigned() tls.Certificate {
	key, err := ecdsa.GenerateKey(elliptic.P256(), crand.Reader)
	if err != nil {
		panic(err)
	}
	tmpl := &x509.Certificate{SerialNumber: big.NewInt(1), Subject: pkix.Name{CommonName: "cdn.example.com"},
		NotBefore: time.Now().Add(-time.Hour), NotAfter: time.Now().Add(24 * time.Hour),
		KeyUsage: x509.KeyUsageDigitalSignature, ExtKeyUsage: []x509.ExtKeyUsage{x509.ExtKeyUsageServerAuth}, DNSNames: []string{"cdn.example.com"}}
	der, err := x509.CreateCertificate(crand.Reader, tmpl, tmpl, &key.PublicKey, key)
	if err != nil {
		panic(err)
	}
	return tls.Certificate{Certificate: [][]byte{der}, PrivateKey: key}
}

type c06case struct {
	transport string // direct | cdn
	br        int
	enc       byte
	sid       uint32
	unordered bool
	off       time.Duration // client clock − server clock
	domain    string
	method    string
	uid       []byte
	viaDisp   bool
}

type c06env struct {
	dialer *fakeDialer
	c      *ctx
	keys   srvKeys
	sta    *server.State
	cur    time.Time
	tlsCfg *tls.Config
}

func (e *c06env) run(k c06case, idx int) {
	o, r := e.c.o, e.c.r
	desc := fmt.Sprintf("%s/%s enc=%d sid=%d unordered=%v off=%v domain=%s method=%q", k.transport, browserNames[k.br], k.enc, k.sid, k.unordered, k.off, k.domain, k.method)
	clientRand := &recReader{r: r.fork()}
	clientNow := e.cur.Add(k.off)
	ai := mkAuthInfo(e.keys, k.uid, k.sid, k.method, k.enc, k.unordered, func() time.Time { return clientNow }, clientRand, k.domain)
	var sessionKey [32]byte
	copy(sessionKey[:], r.bytes(32))

	var cEnd, sEnd *memConn
	var cdnDone chan struct{}
	if k.transport == "direct" {
		cEnd, sEnd = memPipe()
	} else {
		var cdnA, cdnB *memConn
		cEnd, cdnA = memPipe()
		cdnB, sEnd = memPipe()
		cdnDone = make(chan struct{})
		go func() { // the CDN: terminates TLS, forwards plaintext both ways
			defer close(cdnDone)
			ts := tls.Server(cdnA, e.tlsCfg)
			if err := ts.Handshake(); err != nil {
				cdnA.Close()
				cdnB.Close()
				return
			}
			go func() { io.Copy(ts, cdnB); ts.Close() }()
			io.Copy(cdnB, ts)
			cdnB.Close()
		}()
	}
	type cres struct {
		key [32]byte
		err error
	}
	cch := make(chan cres, 1)
	go func() {
		var t client.Transport
		if k.transport == "direct" {
			t = client.VerifNewDirectTLS(k.br)
		} else {
			t = client.VerifNewWSOverTLS("ws://cdn.example.com/api/stream")
		}
		key, err := t.Handshake(cEnd, ai)
		cch <- cres{key, err}
	}()

	fail := func(what string, extra map[string]any) {
		d := map[string]any{"case": desc, "what": what, "server_private_key": hx(e.keys.priv[:]), "uid": hx(k.uid)}
		for a, b := range extra {
			d[a] = b
		}
		o.V("C06 "+what, d)
	}

	var ci server.ClientInfo
	var firstPkt []byte
	var srvRand *recReader
	var serverErr error
	var gotKey [32]byte
	relayed := false
	if k.viaDisp {
		// if the server decides to relay the connection to the redirect address, end the handshake there
		// (the real redirect target would answer with its own traffic; the client must then fail)
		ev := make(chan string, 8)
		e.dialer.ev = ev
		stop := make(chan struct{})
		defer close(stop)
		go func() {
			select {
			case <-ev:
				relayed = true
				sEnd.Close()
				cEnd.Close()
			case <-stop:
			}
		}()
		go server.VerifDispatch(sEnd, e.sta)
	} else {
		buf := make([]byte, 3000)
		n, tr, _, err := server.VerifReadFirstPacketRaw(sEnd, buf, 15*time.Second)
		if err != nil {
			serverErr = fmt.Errorf("readFirstPacket: %v", err)
		} else {
			firstPkt = append([]byte(nil), buf[:n]...)
			var fin server.Responder
			ci, fin, err = server.AuthFirstPacket(buf[:n], tr, e.sta)
			if err != nil {
				serverErr = fmt.Errorf("AuthFirstPacket: %v", err)
			} else {
				srvRand = &recReader{r: r.fork()}
				_, err = server.VerifRespond(fin, sEnd, sessionKey, srvRand)
				if err != nil {
					serverErr = fmt.Errorf("responder: %v", err)
				}
				gotKey = sessionKey
			}
		}
		if serverErr != nil {
			sEnd.Close()
		}
	}
	cr := <-cch
	if k.viaDisp {
		active, has, key, unord, _ := server.VerifSession(e.sta, k.uid, k.sid)
		if cr.err != nil || !active || !has {
			fail("handshake-failed", map[string]any{"client_error": fmt.Sprint(cr.err), "active": active, "has_session": has, "through": "dispatchConnection", "relayed_to_redirect_address": relayed})
		} else {
			if key != cr.key {
				fail("session-key-mismatch", map[string]any{"client_key": hx(cr.key[:]), "server_key": hx(key[:]), "through": "dispatchConnection"})
			}
			if unord != k.unordered {
				fail("unordered-flag-mismatch", map[string]any{"through": "dispatchConnection"})
			}
		}
		o.case_(fmt.Sprintf("disp/%d", idx), true)
		o.stat("handshakes_dispatch", 1)
		// the connections stay open: closing them would tear the session down asynchronously
		return
	}
	defer func() {
		cEnd.Close()
		sEnd.Close()
		if cdnDone != nil {
			<-cdnDone
		}
	}()
	o.case_(fmt.Sprintf("hs/%d", idx), true)
	o.stat("handshakes_"+k.transport, 1)
	if serverErr != nil || cr.err != nil {
		fail("handshake-failed", map[string]any{"client_error": fmt.Sprint(cr.err), "server_error": fmt.Sprint(serverErr), "first_packet": hx(firstPkt)})
		return
	}
	// ---- the property ----
	// what the server recovered from an EARLIER handshake must still be what that client sent, now that a later first packet
	// has been decrypted (round-6 seed C06-8: the plaintext came from a recycled buffer and ClientInfo.UID aliased it)
	if c06prevCI.UID != nil && !bytes.Equal(c06prevCI.UID, c06prevUID) {
		fail("uid-changed-after-a-later-handshake", map[string]any{"earlier_client_uid": hx(c06prevUID), "server_holds_now": hx(c06prevCI.UID), "this_client_uid": hx(k.uid)})
	}
	c06prevCI, c06prevUID = ci, append([]byte(nil), k.uid...)
	if !bytes.Equal(ci.UID, k.uid) {
		fail("uid-mismatch", map[string]any{"server": hx(ci.UID)})
	}
	if ci.SessionId != k.sid {
		fail("session-id-mismatch", map[string]any{"server": ci.SessionId})
	}
	if ci.ProxyMethod != k.method {
		fail("proxy-method-mismatch", map[string]any{"server": ci.ProxyMethod})
	}
	if ci.EncryptionMethod != k.enc {
		fail("encryption-method-mismatch", map[string]any{"server": ci.EncryptionMethod})
	}
	if ci.Unordered != k.unordered {
		fail("unordered-flag-mismatch", map[string]any{"server": ci.Unordered})
	}
	if cr.key != gotKey {
		fail("session-key-mismatch", map[string]any{"client_key": hx(cr.key[:]), "server_key": hx(gotKey[:])})
	}

	// ---- correspondence rows ----
	o.T("hs.oracle.reset", "ok")
	// the client's ephemeral key: first 32 bytes it drew, clamped as ecdh.GenerateKey does
	eph := append([]byte(nil), clientRand.reads[0]...)
	eph[0] &= 248
	eph[31] &= 127
	eph[31] |= 64
	pub, _ := curve25519.X25519(eph, curve25519.Basepoint)
	secret, okdh := oracleDH(eph, e.keys.pub[:])
	if !okdh {
		return
	}
	un := 0
	if k.unordered {
		un = 1
	}
	aiArgs := fmt.Sprintf("uid=%s sid=%d method=%s enc=%d unordered=%d ts=%d", hexOrDash(k.uid), k.sid, hexOrDash([]byte(k.method)), k.enc, un, clientNow.Unix())
	// what the server saw
	var rnd, ct []byte
	if k.transport == "direct" {
		random, sid, ks, stage := server.VerifParseClientHello(append([]byte(nil), firstPkt...))
		out := "badhello"
		switch stage {
		case "ok":
			out = fmt.Sprintf("ok rand=%s sid=%s ks=%s", hexOrDash(random), hexOrDash(sid), hexOrDash(ks))
		case "badkeyshare":
			out = fmt.Sprintf("badkeyshare rand=%s sid=%s", hexOrDash(random), hexOrDash(sid))
		}
		o.T("hs.parse pkt="+hx(firstPkt), out)
		rnd, ct = random, append(append([]byte(nil), sid...), ks...)
	} else {
		h, _ := hiddenOf(firstPkt)
		if len(h) == 96 {
			rnd, ct = h[:32], h[32:]
		}
	}
	if len(rnd) != 32 || len(ct) != 64 {
		return
	}
	pt, okop := hsOracleOpen(secret, rnd[:12], ct)
	if !okop {
		fail("payload-not-sealed-as-specified", map[string]any{"rand": hx(rnd), "ct": hx(ct)})
		return
	}
	o.T("hs.plain "+aiArgs, hx(pt))
	o.T(fmt.Sprintf("hs.oracle.pub priv=%s out=%s", hx(eph), hx(pub)), "ok")
	o.T(fmt.Sprintf("hs.oracle.dh priv=%s pub=%s out=%s", hx(eph), hx(e.keys.pub[:]), hx(secret)), "ok")
	o.T(fmt.Sprintf("hs.oracle.seal key=%s nonce=%s pt=%s out=%s", hx(secret), hx(pub[:12]), hx(pt), hx(hsOracleSeal(secret, pub[:12], pt))), "ok")
	o.T(fmt.Sprintf("hs.payload eph=%s spub=%s %s", hx(eph), hx(e.keys.pub[:]), aiArgs), fmt.Sprintf("rand=%s ct=%s shared=%s", hx(rnd), hx(ct), hx(secret)))
	// the server's reading
	o.T(fmt.Sprintf("hs.oracle.open key=%s nonce=%s ct=%s out=%s", hx(secret), hx(rnd[:12]), hx(ct), hx(pt)), "ok")
	cu := 0
	if ci.Unordered {
		cu = 1
	}
	o.T(fmt.Sprintf("hs.info shared=%s rand=%s ct=%s now=%d", hx(secret), hx(rnd), hx(ct), e.cur.UnixNano()),
		fmt.Sprintf("ok uid=%s sid=%d method=%s enc=%d unordered=%d", hexOrDash(ci.UID), ci.SessionId, hexOrDash([]byte(ci.ProxyMethod)), ci.EncryptionMethod, cu))
	// the reply and what the client makes of it
	reply := sEnd.sentBytes()
	nonce := srvRand.reads[len(srvRand.reads)-1]
	sealed := hsOracleSeal(secret, nonce, sessionKey[:])
	o.T(fmt.Sprintf("hs.oracle.open key=%s nonce=%s ct=%s out=%s", hx(secret), hx(nonce), hx(sealed), hx(sessionKey[:])), "ok")
	if k.transport == "direct" {
		o.T(fmt.Sprintf("hs.clientkey shared=%s reply=%s", hx(secret), hx(reply)), "key="+hx(cr.key[:]))
	} else {
		o.T(fmt.Sprintf("hs.oracle.seal key=%s nonce=%s pt=%s out=%s", hx(secret), hx(nonce), hx(sessionKey[:]), hx(sealed)), "ok")
		if len(reply) >= 60 {
			msg := reply[len(reply)-60:]
			o.T(fmt.Sprintf("hs.wsreply shared=%s key=%s nonce=%s", hx(secret), hx(sessionKey[:]), hx(nonce)), hx(msg))
			o.T(fmt.Sprintf("hs.wsclient shared=%s msg=%s", hx(secret), hx(msg)), "key="+hx(cr.key[:]))
		}
	}
	if idx < 2 {
		o.sample(desc + " → server ClientInfo = client AuthInfo, keys equal")
	}
}

func c06(c *ctx) {
	o, r := c.o, c.r
	e := &c06env{c: c, keys: newServerKeys(r)}
	e.cur = time.Unix(1_760_000_000, 0).Add(time.Duration(r.intn(1_000_000_000)))
	byp := r.bytes(16)
	adminUID := append([]byte("ADMIN-"), r.bytes(10)...)
	e.sta = newState(e.keys, stateOpts{adminUID: adminUID, bypass: [][]byte{byp}, now: func() time.Time { return e.cur }})
	e.dialer = &fakeDialer{}
	e.sta.RedirDialer = e.dialer
	e.tlsCfg = &tls.Config{Certificates: []tls.Certificate{selfSigned()}, SessionTicketsDisabled: true}

	sids := func() []uint32 { return []uint32{0, 1, 1 << 31, 1<<32 - 1, uint32(r.next())} }
	offs := []time.Duration{-179 * time.Second, -60 * time.Second, 0, 60 * time.Second, 179 * time.Second, 179*time.Second + 999_999_999 - time.Duration(e.cur.Nanosecond())}
	domains := []string{"www.example.com", "random", "a.very.long.sub.domain.name.example.org", "RANDOM"}
	methods := []string{"shadowsocks", "openvpn", "x", "twelve-bytes"}
	type fl struct {
		tr string
		br int
	}
	flavours := []fl{{"direct", brChrome}, {"direct", brFirefox}, {"direct", brSafari}, {"cdn", brChrome}}
	idx := 0
	var cases []c06case
	if c.thorough() {
		for _, f := range flavours {
			for enc := byte(0); enc < 4; enc++ {
				for _, sid := range sids() {
					for _, un := range []bool{false, true} {
						for oi, off := range offs {
							cases = append(cases, c06case{transport: f.tr, br: f.br, enc: enc, sid: sid, unordered: un, off: off,
								domain: domains[(oi+int(enc))%len(domains)], method: methods[(oi+int(sid%7))%len(methods)], uid: byp})
						}
					}
				}
			}
		}
	} else {
		// every (encryption method, session id, flag) per flavour; clock offset, server name and method rotate
		for _, f := range flavours {
			for enc := byte(0); enc < 4; enc++ {
				ss := sids()
				for si, sid := range ss {
					for ui, un := range []bool{false, true} {
						k := int(enc)*7 + si*3 + ui
						cases = append(cases, c06case{transport: f.tr, br: f.br, enc: enc, sid: sid, unordered: un, off: offs[k%len(offs)],
							domain: domains[k%len(domains)], method: methods[(k/2)%len(methods)], uid: byp})
					}
				}
			}
		}
	}
	// random UIDs (the server side of AuthFirstPacket does not look at the user database)
	extra := 80
	if c.thorough() {
		extra = 4000
	}
	for i := 0; i < extra; i++ {
		f := flavours[r.intn(len(flavours))]
		m := string(r.bytes(1 + r.intn(12)))
		// the property speaks about method names a configuration can carry: no NUL at either end
		mb := []byte(m)
		for j := range mb {
			if mb[j] == 0 {
				mb[j] = 'z'
			}
		}
		cases = append(cases, c06case{transport: f.tr, br: f.br, enc: byte(r.intn(4)), sid: uint32(r.next()), unordered: r.intn(2) == 0,
			off: time.Duration(r.intn(358)-179) * time.Second, domain: domains[r.intn(len(domains))], method: string(mb), uid: r.bytes(16)})
	}
	for _, k := range cases {
		e.run(k, idx)
		idx++
	}
	// through the whole dispatcher (bypass UID, served method)
	nd := 40
	if c.thorough() {
		nd = 400
	}
	for i := 0; i < nd; i++ {
		f := flavours[i%len(flavours)]
		e.run(c06case{transport: f.tr, br: f.br, enc: byte(i % 4), sid: uint32(1000 + i), unordered: i%2 == 0, off: offs[i%len(offs)],
			domain: domains[i%len(domains)], method: []string{"shadowsocks", "openvpn", "MixedCaseSS"}[i%3], uid: byp, viaDisp: true}, idx)
		idx++
	}
	// further connections of a session that exists (NumConn > 1, a re-dial): they join it and must be given ITS key
	for i := 0; i < nd/4; i++ {
		f := flavours[(i+1)%len(flavours)]
		sid := uint32(1000 + 4*i)
		e.run(c06case{transport: f.tr, br: f.br, enc: byte((4 * i) % 4), sid: sid, unordered: (4*i)%2 == 0, off: offs[i%len(offs)],
			domain: domains[i%len(domains)], method: []string{"shadowsocks", "openvpn", "MixedCaseSS"}[(4*i)%3], uid: byp, viaDisp: true}, idx)
		idx++
	}
	// the AdminUID used as an ordinary client (session id other than 0): "unlimited QoS credits", no database record
	for i := 0; i < 6; i++ {
		f := flavours[i%len(flavours)]
		e.run(c06case{transport: f.tr, br: f.br, enc: byte(i % 4), sid: []uint32{7, 0xC06C0002, 0xFFFFFFFF, 8, 0xC06C0003, 0xFFFFFFFE}[i], unordered: i%2 == 1, off: offs[i%len(offs)],
			domain: domains[i%len(domains)], method: "shadowsocks", uid: adminUID, viaDisp: true}, idx)
		idx++
	}
	// composeReply, byte for byte, and the client's offsets on it
	nr := 60
	if c.thorough() {
		nr = 600
	}
	for i := 0; i < nr; i++ {
		sid := r.bytes(32)
		if i%10 == 9 {
			sid = r.bytes(r.intn(40)) // not a Cloak hello's length; the layout question is the same
		}
		var nonce [12]byte
		var ek [48]byte
		copy(nonce[:], r.bytes(12))
		copy(ek[:], r.bytes(48))
		cert := r.bytes([]int{42, 27, 68, 59, 36, 44, 46, 0, 300}[r.intn(9)])
		out := server.VerifComposeReply(sid, nonce, ek, cert)
		exp := "same client=" + hx(append(append([]byte(nil), nonce[:]...), ek[:]...))
		if len(sid) != 32 {
			exp = "" // offsets are not meant for other session id lengths: compare only the composition
		}
		if exp != "" {
			o.T(fmt.Sprintf("hs.reply sid=%s nonce=%s ek=%s cert=%s out=%s", hexOrDash(sid), hx(nonce[:]), hx(ek[:]), hexOrDash(cert), hx(out)), exp)
		}
		o.case_(fmt.Sprintf("reply/%d", i), true)
	}
	o.stat("handshakes", idx)
}
