//go:build verif

package main

import (
	"bytes"
	"fmt"
	"testing/synctest"
	"time"

	mux "github.com/cbeuw/Cloak/internal/multiplex"
)

// C11 "dropped without effect and later valid frames are still processed", on the path a message really takes:
// it arrives on a live underlying connection and the connection's receive loop (switchboard.deplex) hands it to
// recvDataFromRemote.  Garbage / modified / foreign-key messages are pushed into the connection, then a genuine
// frame: the session must stay open, the connection must stay in use, the genuine frame must be readable.
func c11conn(c *ctx, m int, rounds int) {
	o, r := c.o, c.r
	synctest.Run(func() {
		key := c4key(r)
		rg := newSeshPair(byte(m), key, 2, false, false, time.Hour)
		B := rg.S[1].sesh
		next := uint32(1)
		for round := 0; round < rounds; round++ {
			k := r.intn(2)
			ng := 1 + r.intn(4)
			kinds := []string{}
			for i := 0; i < ng; i++ {
				var g []byte
				switch r.intn(4) {
				case 0:
					g = r.bytes(1 + r.intn(60))
					kinds = append(kinds, "short random")
				case 1:
					g = refEncode(m, c4key(r), c4frame(r, 1+r.intn(100)), nil, r.bytes(8))
					kinds = append(kinds, "foreign key")
				case 2:
					g = refEncode(m, key, refFrame{sid: 900 + next, seq: 0, closing: 0, payload: r.bytes(1 + r.intn(200))}, nil, r.bytes(8))
					g[14+r.intn(len(g)-14)] ^= 1 << uint(r.intn(8))
					kinds = append(kinds, "payload/tag bit flipped")
				default:
					g = r.bytes(22 + r.intn(3000))
					kinds = append(kinds, "random")
				}
				rg.S[1].conns[k].in <- g
			}
			synctest.Wait()
			f := refFrame{sid: next, seq: 0, closing: 0, payload: r.bytes(1 + r.intn(300))}
			next++
			rg.S[1].conns[k].in <- refEncode(m, key, f, nil, r.bytes(8))
			synctest.Wait()
			st := mux.VerifTryAccept(B)
			var got []byte
			if st != nil {
				buf := make([]byte, 400)
				if buffered, _, _ := mux.VerifReadState(st); buffered > 0 {
					n, _ := st.Read(buf)
					got = buf[:n]
				}
			}
			if B.IsClosed() || st == nil || mux.VerifStreamID(st) != f.sid || !bytes.Equal(got, f.payload) || rg.S[1].conns[k].isClosed() {
				o.V("C11 valid-frame-not-processed-after-garbage on a live connection", map[string]any{"m": m, "key": hx(key[:]), "round": round, "bad_messages_before": kinds,
					"session_closed": B.IsClosed(), "terminal_message": B.TerminalMsg(), "connection_closed_by_receiver": rg.S[1].conns[k].isClosed(),
					"stream_accepted": st != nil, "got": hx(got), "want": hx(f.payload)})
				break
			}
			o.stat("valid_after_garbage_on_conn", 1)
		}
		rg.S[0].sesh.Close()
		B.Close()
		rg.propagate()
		synctest.Wait()
	})
	o.case_(fmt.Sprintf("conn m=%d", m), true)
}
