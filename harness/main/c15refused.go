//go:build verif

package main

// C15, the REFUSED connection. dispatchConnection's admission is three separately locked steps when GetSession says no:
// GetUser, GetSession (refused), and a clean-up of the user record — which runs at an arbitrary later moment of the
// schedule as far as the other connections are concerned (no lock is held in between). This file drives those steps one at
// a time on the real userPanel/ActiveUser (the clean-up through server.VerifRefusedCleanup: the very statement the
// dispatcher of THIS tree executes), in scripted schedules (the red team's: refused sibling, a slot frees, sibling creates,
// the refused one cleans up, third sibling arrives) and in seeded random ones, with closures of sessions that are not the
// user's last one and admin edits in between. Every step's answer and the state after it are compared with the Lean model
// (sess.* ops); the monitor states the property: a connection presenting a (uid, session id) for which a session is
// attached and was never closed by anybody entitled to (client/proxy closure, termination of the user) joins THAT session
// and gets ITS key.

import (
	"fmt"
	"sort"
	"strings"
	"time"

	mux "github.com/cbeuw/Cloak/internal/multiplex"
	"github.com/cbeuw/Cloak/internal/server"
)

type c15pk struct {
	uid int
	sid uint32
}

type c15cur struct {
	rec      int // the record the session was attached in
	sesh     *mux.Session
	key      [32]byte
	killedBy string // set when the session is found closed right after a refused connection's clean-up
}

type c15pend struct {
	u   *server.ActiveUser
	rec int
	uid int
	sid uint32
}

type c15rx struct {
	c       *ctx
	o       *outw
	rig     *panelRig
	now     int64
	name    string
	users   map[int]*c15user
	cur     map[c15pk]*c15cur
	pending []c15pend
	steps   []string
	nClean, nCleanSibling, nTerm, nAttach int
	hit     bool
}

func newC15rx(c *ctx, name string) *c15rx {
	x := &c15rx{c: c, o: c.o, now: 1000, name: name, users: map[int]*c15user{}, cur: map[c15pk]*c15cur{}}
	x.rig = newPanelRig(x.now)
	x.o.T("sess.new", "ok")
	return x
}

func (x *c15rx) put(u *c15user) {
	x.users[u.uid] = u
	x.rig.putUser(u.uid, u.cap, u.up, u.down, u.expiry)
	x.o.T(fmt.Sprintf("sess.put uid=%d cap=%d upc=%d downc=%d exp=%d", u.uid, u.cap, u.up, u.down, u.expiry), "ok")
	x.steps = append(x.steps, fmt.Sprintf("admin: uid %d cap=%d upCredit=%d downCredit=%d expiry=%d", u.uid, u.cap, u.up, u.down, u.expiry))
}

// admit = GetUser + GetSession as dispatchConnection performs them; a refusal leaves the clean-up pending
func (x *c15rx) admit(who string, uid int, sid uint32) {
	o := x.o
	u, uerr := x.rig.panel.GetUser(uidBytes(uid), false)
	op := fmt.Sprintf("sess.getUser uid=%d bypass=0 now=%d", uid, x.now)
	if uerr != nil {
		o.T(op, "err="+errName(uerr))
		x.steps = append(x.steps, fmt.Sprintf("conn %s (uid %d, sid %d): GetUser -> %s", who, uid, sid, errName(uerr)))
		return
	}
	id, fresh := x.rig.idOf(u)
	f := 0
	if fresh {
		f = 1
	}
	o.T(op, fmt.Sprintf("rec=%d fresh=%d", id, f))
	key := x.c.freshKey()
	sesh, exist, sk, err := server.VerifGetSession(u, sid, key)
	out := sessOut(exist, sk, err)
	o.T(fmt.Sprintf("sess.getSession rec=%d sid=%d key=%d now=%d", id, sid, keyNum(key), x.now), out)
	x.steps = append(x.steps, fmt.Sprintf("conn %s (uid %d, sid %d): GetUser -> record %d, GetSession -> %s", who, uid, sid, id, out))
	if err != nil {
		if !strings.HasPrefix(out, "retired") {
			x.pending = append(x.pending, c15pend{u, id, uid, sid})
		}
		return
	}
	x.nAttach++
	pk := c15pk{uid, sid}
	if prev, ok := x.cur[pk]; ok && (prev.sesh != sesh || prev.key != sk) {
		sig := "C15 same (uid, session id) attached to different sessions or given different keys"
		if prev.killedBy != "" {
			sig = "C15 sibling-session-closed-by-refused-connection"
		}
		x.hit = true
		o.V(sig, map[string]any{"script": x.name, "uid": uid, "rec": id, "earlier_connection_rec": prev.rec, "sid": sid,
			"earlier_connection_key": keyNum(prev.key), "this_connection_key": keyNum(sk), "same_object": prev.sesh == sesh,
			"earlier_session_closed_now": prev.sesh.IsClosed(), "closed_by": prev.killedBy,
			"note":     "nobody entitled to close that session did: no client/proxy closure of it, no termination of the user",
			"schedule": append([]string{}, x.steps...)})
	}
	if c, ok := x.cur[pk]; !ok || c.sesh != sesh {
		x.cur[pk] = &c15cur{rec: id, sesh: sesh, key: sk}
	}
}

// cleanup runs the pending clean-up i: the statement the dispatcher executes after the refusal
func (x *c15rx) cleanup(i int) {
	p := x.pending[i]
	x.pending = append(x.pending[:i], x.pending[i+1:]...)
	if c, ok := x.cur[c15pk{p.uid, p.sid}]; ok && c.rec == p.rec && !c.sesh.IsClosed() {
		x.nCleanSibling++
	}
	which := server.VerifRefusedCleanup(p.u, p.sid)
	x.nClean++
	term := 0
	if x.rig.panel.ActiveRecord(uidBytes(p.uid)) != p.u {
		term = 1
		x.nTerm++
	}
	x.o.T(fmt.Sprintf("sess.refusedCleanup rec=%d sid=%d", p.rec, p.sid), fmt.Sprintf("terminate=%d %s", term, x.rig.stateLine()))
	x.steps = append(x.steps, fmt.Sprintf("the refused connection (uid %d, sid %d) runs its error path on record %d: %s -> terminate=%d", p.uid, p.sid, p.rec, which, term))
	for _, c := range x.cur {
		if c.rec == p.rec && c.killedBy == "" && c.sesh.IsClosed() {
			c.killedBy = fmt.Sprintf("error path of the refused connection (uid %d, sid %d): %s", p.uid, p.sid, which)
		}
	}
}

// cleanupParked runs pending clean-up 0 on its own goroutine while the harness holds usageUpdateQueueM: if the clean-up
// decides to terminate the record, it parks at the first lock of TerminateActiveUser, i.e. right after its own sessionsM
// section. `between` runs while it is parked; then the lock is released and the termination completes.
func (x *c15rx) cleanupParked(between func()) {
	p := x.pending[0]
	x.pending = x.pending[1:]
	release := x.rig.panel.HoldQueueLock()
	fin := make(chan struct{})
	which := ""
	go func() { which = server.VerifRefusedCleanup(p.u, p.sid); close(fin) }()
	pollUntil(10*time.Second, func() bool {
		return isDone(fin) || inMutexWait(dumpAll(), "(*userPanel).updateUsageQueueForOne", "sync.(*Mutex).Lock")
	})
	x.nClean++
	if isDone(fin) { // it did not terminate anything: nothing to interleave with
		release()
		x.o.T(fmt.Sprintf("sess.refusedCleanup rec=%d sid=%d", p.rec, p.sid), "terminate=0 "+x.rig.stateLine())
		return
	}
	x.o.T(fmt.Sprintf("sess.refusedCleanupLocked rec=%d sid=%d", p.rec, p.sid), "terminate=1")
	x.steps = append(x.steps, fmt.Sprintf("the refused connection (uid %d, sid %d) runs the sessionsM section of its error path on record %d and decides to terminate it; it is parked before TerminateActiveUser", p.uid, p.sid, p.rec))
	between()
	release()
	<-fin
	x.nTerm++
	x.o.T(fmt.Sprintf("sess.terminate rec=%d", p.rec), x.rig.stateLine())
	x.steps = append(x.steps, fmt.Sprintf("the refused connection's TerminateActiveUser(record %d) completes (%s)", p.rec, which))
	for _, c := range x.cur {
		if c.rec == p.rec && c.killedBy == "" && c.sesh.IsClosed() {
			c.killedBy = fmt.Sprintf("error path of the refused connection (uid %d, sid %d): %s, termination of the record it had found empty", p.uid, p.sid, which)
		}
	}
}

// closeOther closes a session of a record that holds at least two (never the user's last one), as serveSession does
func (x *c15rx) closeOther(pk c15pk) bool {
	cu, ok := x.cur[pk]
	if !ok {
		return false
	}
	rec := x.rig.recs[cu.rec]
	before := server.VerifNumSession(rec)
	if before < 2 {
		return false
	}
	if _, there := server.VerifSessions(rec)[pk.sid]; !there {
		return false
	}
	server.VerifCloseSession(rec, pk.sid, "")
	delete(x.cur, pk)
	x.o.T(fmt.Sprintf("sess.closeLocked rec=%d sid=%d", cu.rec, pk.sid), fmt.Sprintf("remaining=%d", before-1))
	x.steps = append(x.steps, fmt.Sprintf("session %d of record %d ends (CloseSession by serveSession); %d remain", pk.sid, cu.rec, before-1))
	return true
}

func (x *c15rx) sortedCur() []c15pk {
	var pks []c15pk
	for pk := range x.cur {
		pks = append(pks, pk)
	}
	sort.Slice(pks, func(i, j int) bool { return pks[i].uid < pks[j].uid || (pks[i].uid == pks[j].uid && pks[i].sid < pks[j].sid) })
	return pks
}

// finish: every outstanding clean-up runs, then one more connection presents every attached pair (with limits that would
// let it CREATE a session, so that a vanished session shows), then the state is compared and everything is torn down
func (x *c15rx) finish() {
	for len(x.pending) > 0 {
		x.cleanup(0)
	}
	var uids []int
	for k := range x.users {
		uids = append(uids, k)
	}
	sort.Ints(uids)
	for _, k := range uids {
		u := x.users[k]
		if u.cap >= 0 && u.cap < 8 {
			u.cap = 8
		}
		u.up, u.down, u.expiry = 5000, 5000, x.now+1000
		x.put(u)
	}
	// (these scripts never close a user's last session and never run an upload round: no user with a session is terminated)
	for _, pk := range x.sortedCur() {
		x.admit("probe", pk.uid, pk.sid)
	}
	x.o.T("sess.state", x.rig.stateLine())
	x.o.stat("refused_cleanups", x.nClean)
	x.o.stat("refused_cleanups_while_sibling_session_attached", x.nCleanSibling)
	x.o.stat("refused_cleanups_terminating_empty_record", x.nTerm)
	x.o.stat("step_level_attachments", x.nAttach)
	caseC(x.o, fmt.Sprintf("refused-%s-c%d-s%d-t%d", x.name, x.nClean, x.nCleanSibling, x.nTerm), x.nClean > 0)
	for _, rec := range x.rig.recs {
		for _, s := range server.VerifSessions(rec) {
			s.Close()
		}
	}
	x.rig.close()
}

// ---- scripted schedules ------------------------------------------------------------------------------------

func c15refusedScripted(c *ctx) {
	// 1. the finding: cap 2, sessions 101 and 102; A(555) refused; 101 ends; B(555) creates; A's error path; C(555)
	x := newC15rx(c, "sibling-closure")
	x.put(&c15user{uid: 1, cap: 2, up: 5000, down: 5000, expiry: 5000})
	x.admit("X1", 1, 101)
	x.admit("X2", 1, 102)
	x.admit("A", 1, 555)
	x.closeOther(c15pk{1, 101})
	x.admit("B", 1, 555)
	x.cleanup(0)
	x.o.T("sess.state", x.rig.stateLine())
	x.admit("C", 1, 555)
	if !x.hit {
		x.o.sample("refused sibling, slot freed by a closure, sibling creates, the refused one cleans up, third sibling JOINS: " + x.rig.stateLine())
	}
	x.finish()

	// 2. the refusal is lifted by an admin edit instead (credit exhausted while a session is up, then topped up)
	x = newC15rx(c, "sibling-topup")
	u := &c15user{uid: 1, cap: 4, up: 5000, down: 5000, expiry: 5000}
	x.put(u)
	x.admit("X1", 1, 7)
	u.down = 0
	x.put(u)
	x.admit("A", 1, 9)
	u.down = 800
	x.put(u)
	x.admit("B", 1, 9)
	x.cleanup(0)
	x.admit("C", 1, 9)
	x.finish()

	// 3. a refused FIRST connection: the record GetUser made is empty; the clean-up must remove it (both trees do)
	x = newC15rx(c, "empty-record")
	u = &c15user{uid: 1, cap: 0, up: 5000, down: 5000, expiry: 5000}
	x.put(u)
	x.admit("A", 1, 3)
	x.admit("A2", 1, 3)
	x.cleanup(0)
	if x.rig.panel.IsActive(uidBytes(1)) {
		// not part of C15's text; C17's: a record nobody uses stays in activeUsers (reported through the T rows only)
		x.o.N("empty record still active after the refused connection's clean-up")
	}
	u.cap = 2
	x.put(u)
	x.admit("B", 1, 3) // new record
	x.cleanup(0)       // A2's late clean-up names the OLD record
	x.admit("C", 1, 3)
	x.finish()

	// 4. two refused siblings, both clean up after the sibling created: the second clean-up finds nothing of its own either
	x = newC15rx(c, "two-refused")
	x.put(&c15user{uid: 1, cap: 1, up: 5000, down: 5000, expiry: 5000})
	x.put(&c15user{uid: 2, cap: 3, up: 5000, down: 5000, expiry: 5000})
	x.admit("X1", 1, 1)
	x.admit("Y1", 2, 1)
	x.admit("Y2", 2, 2)
	x.admit("A1", 1, 2)
	x.admit("A2", 1, 2)
	x.users[1].cap = 2
	x.put(x.users[1])
	x.admit("B", 1, 2)
	x.cleanup(1)
	x.admit("C", 1, 2)
	x.cleanup(0)
	x.admit("D", 1, 2)
	x.finish()

	// 5. refused FIRST connection racing with a sibling: A finds the record empty and is about to terminate it; the admin
	// raises the cap; sibling B arrives before A's TerminateActiveUser. B must not be given a session that A then destroys:
	// the repaired helper retires the record in the critical section in which it finds it empty, so B is sent back to the lookup
	x = newC15rx(c, "empty-record-race")
	u = &c15user{uid: 1, cap: 0, up: 5000, down: 5000, expiry: 5000}
	x.put(u)
	x.admit("A", 1, 3)
	before := x.nAttach
	x.cleanupParked(func() {
		u.cap = 2
		x.put(u)
		x.admit("B", 1, 3)
	})
	if x.nAttach == before {
		x.admit("B-again", 1, 3) // B was told "retired": the dispatcher looks the user up again
	}
	x.admit("C", 1, 3)
	x.finish()
}

// ---- seeded random schedules -------------------------------------------------------------------------------

func c15refusedRandom(c *ctx, idx int) {
	r := c.r
	x := newC15rx(c, fmt.Sprintf("r%d", idx))
	nU := 1 + r.intn(2)
	for i := 1; i <= nU; i++ {
		x.put(&c15user{uid: i, cap: int32(r.intn(4)), up: 5000, down: 5000, expiry: x.now + 1000})
	}
	nOps := 20 + r.intn(25)
	for k := 0; k < nOps; k++ {
		switch w := r.intn(20); {
		case w < 9:
			x.admit(fmt.Sprintf("#%d", k), 1+r.intn(nU), uint32(1+r.intn(3)))
		case w < 13:
			if len(x.pending) > 0 {
				x.cleanup(r.intn(len(x.pending)))
			}
		case w < 16:
			if pks := x.sortedCur(); len(pks) > 0 {
				x.closeOther(pks[r.intn(len(pks))])
			}
		case w < 19:
			u := x.users[1+r.intn(nU)]
			switch r.intn(4) {
			case 0:
				u.cap += int32(1 + r.intn(2)) // raised only: lowering below what is open is outside the property
			case 1:
				u.down = 0
			case 2:
				u.up = -1
			default:
				u.up, u.down = 700, 700
			}
			x.put(u)
		default:
			x.now += int64(r.intn(2))
			*x.rig.now = x.now
		}
	}
	x.finish()
}
