//go:build verif

package main

import (
	"bytes"
	"errors"
	"fmt"
	"io"
	"net"
	"runtime"
	"strings"
	"sync"
	"time"

	"github.com/cbeuw/Cloak/internal/client"
	"github.com/cbeuw/Cloak/internal/common"
	mux "github.com/cbeuw/Cloak/internal/multiplex"
)

// C14 / the client's routing table: the REAL client.RouteUDP on 127.0.0.1:0 driven by seeded event scripts over several
// local addresses (distinct loopback sockets): datagrams (admissible, oversize, from fresh addresses, with an
// OpenStream failure), replies written by the far end on a chosen stream, a stream's read deadline made to expire,
// sessions killed.  RouteUDP's table is a local variable: it is observed through behaviour — which (session, stream id)
// each datagram arrives on at the far side, which local socket each reply reaches, how often newSeshFunc is called, how
// many return goroutines exist (goroutine dump) — and compared step by step with Model/Route.lean (ops `rt.*`).
// Nothing is decided by a timeout: after every op the rig is brought to rest by state inspection (in-memory
// connections empty with their reader parked; number of return goroutines = number of open client-side streams).
func init() { scenarios["C14route"] = c14route }

// rtPipe: one direction of an in-memory connection whose idleness can be inspected
type rtPipe struct {
	mu      sync.Mutex
	cond    *sync.Cond
	buf     []byte
	waiting bool
	closed  bool
}

func newRtPipe() *rtPipe { p := &rtPipe{}; p.cond = sync.NewCond(&p.mu); return p }
func (p *rtPipe) idle() bool {
	p.mu.Lock()
	defer p.mu.Unlock()
	return p.closed || (len(p.buf) == 0 && p.waiting)
}

type rtConn struct{ r, w *rtPipe }

func (c *rtConn) Read(b []byte) (int, error) {
	p := c.r
	p.mu.Lock()
	defer p.mu.Unlock()
	for len(p.buf) == 0 && !p.closed {
		p.waiting = true
		p.cond.Wait()
	}
	p.waiting = false
	if len(p.buf) == 0 {
		return 0, io.EOF
	}
	n := copy(b, p.buf)
	p.buf = p.buf[n:]
	return n, nil
}
func (c *rtConn) Write(b []byte) (int, error) {
	p := c.w
	p.mu.Lock()
	defer p.mu.Unlock()
	if p.closed {
		return 0, errors.New("closed pipe")
	}
	p.buf = append(p.buf, b...)
	p.cond.Broadcast()
	return len(b), nil
}
func (c *rtConn) Close() error {
	for _, p := range []*rtPipe{c.r, c.w} {
		p.mu.Lock()
		p.closed = true
		p.cond.Broadcast()
		p.mu.Unlock()
	}
	return nil
}
func (c *rtConn) LocalAddr() net.Addr                { return addrT("rt") }
func (c *rtConn) RemoteAddr() net.Addr               { return addrT("rt-peer") }
func (c *rtConn) SetDeadline(t time.Time) error      { return nil }
func (c *rtConn) SetReadDeadline(t time.Time) error  { return nil }
func (c *rtConn) SetWriteDeadline(t time.Time) error { return nil }

type rtStream struct {
	k, sid int
	tx, rx *mux.Stream
	owner  int // the local address whose datagram arrived first on it
}

func (s *rtStream) txClosed() bool { return s.tx == nil || mux.VerifStreamClosed(s.tx) }

type rtArr struct {
	k, sid int
	data   []byte
}
type rtLoc struct {
	app  int
	data []byte
}

type rtRig struct {
	c        *ctx
	single   bool
	method   byte
	key      [32]byte
	mu       sync.Mutex
	tx, rx   []*mux.Session
	pipes    []*rtPipe
	failNext bool
	streams  []*rtStream
	apps     []*net.UDPConn
	locals   chan rtLoc
	local    *net.UDPConn
	serial   int
	sent     map[int][]byte // serial -> payload
	max      int
	base     int // return goroutines of earlier rigs (0 after their teardown)
}

func (g *rtRig) mk() *mux.Session {
	ob, err := mux.MakeObfuscator(g.method, g.key)
	if err != nil {
		panic(err)
	}
	return mux.MakeSession(uint32(21+len(g.tx)), mux.SessionConfig{Obfuscator: ob, Unordered: true, InactivityTimeout: time.Hour, MsgOnWireSizeLimit: 16401})
}

// newSesh is RouteUDP's newSeshFunc: a fresh real session pair over one inspectable in-memory connection
func (g *rtRig) newSesh() *mux.Session {
	g.mu.Lock()
	defer g.mu.Unlock()
	tx, rx := g.mk(), g.mk()
	ab, ba := newRtPipe(), newRtPipe()
	tx.AddConnection(common.NewTLSConn(&rtConn{r: ba, w: ab}))
	rx.AddConnection(common.NewTLSConn(&rtConn{r: ab, w: ba}))
	g.tx, g.rx, g.pipes = append(g.tx, tx), append(g.rx, rx), append(g.pipes, ab, ba)
	if g.failNext {
		g.failNext = false
		tx.Close()
	}
	return tx
}

func (g *rtRig) calls() int { g.mu.Lock(); defer g.mu.Unlock(); return len(g.tx) }

var rtStackBuf = make([]byte, 1<<20)

func rtReturnGoroutines() int {
	n := runtime.Stack(rtStackBuf, true)
	for n == len(rtStackBuf) {
		rtStackBuf = make([]byte, 2*len(rtStackBuf))
		n = runtime.Stack(rtStackBuf, true)
	}
	return bytes.Count(rtStackBuf[:n], []byte("created by github.com/cbeuw/Cloak/internal/client.RouteUDP in goroutine"))
}

func (g *rtRig) openTx() int {
	n := 0
	for _, s := range g.streams {
		if !s.txClosed() {
			n++
		}
	}
	return n
}

// rest waits (state inspection, 60 s liveness bound) until the connections are drained and every return goroutine whose
// stream is closed has ended; returns the number of return goroutines
func (g *rtRig) rest() int {
	dl := time.Now().Add(60 * time.Second) // state inspection; the bound only ends a run that is really stuck
	for {
		idle := true
		g.mu.Lock()
		for _, p := range g.pipes {
			if !p.idle() {
				idle = false
			}
		}
		g.mu.Unlock()
		n := rtReturnGoroutines() - g.base
		if idle && n == g.openTx() {
			return n
		}
		if time.Now().After(dl) {
			return n
		}
		time.Sleep(200 * time.Microsecond)
	}
}

func (g *rtRig) pipesIdle() {
	dl := time.Now().Add(60 * time.Second) // state inspection; the bound only ends a run that is really stuck
	for time.Now().Before(dl) {
		idle := true
		g.mu.Lock()
		for _, p := range g.pipes {
			if !p.idle() {
				idle = false
			}
		}
		g.mu.Unlock()
		if idle {
			return
		}
		time.Sleep(100 * time.Microsecond)
	}
}

// drain collects, without blocking, every datagram that has reached a far-side stream
func (g *rtRig) drain() []rtArr {
	var out []rtArr
	g.mu.Lock()
	rxs := append([]*mux.Session(nil), g.rx...)
	txs := append([]*mux.Session(nil), g.tx...)
	g.mu.Unlock()
	for k, rx := range rxs {
		for {
			s := mux.Verif14TryAccept(rx)
			if s == nil {
				break
			}
			sid := int(mux.Verif14StreamID(s))
			g.streams = append(g.streams, &rtStream{k: k, sid: sid, rx: s, tx: mux.VerifGetStream(txs[k], uint32(sid)), owner: -1})
		}
	}
	for _, s := range g.streams {
		for mux.Verif14StreamHead(s.rx) >= 0 {
			st, d := mux.Verif14StreamRead(s.rx, 70000)
			if st != "data" {
				break
			}
			out = append(out, rtArr{s.k, s.sid, d})
		}
	}
	return out
}

func (g *rtRig) find(k, sid int) *rtStream {
	for _, s := range g.streams {
		if s.k == k && s.sid == sid {
			return s
		}
	}
	return nil
}

// payload: [app, serial hi, serial lo, random...]
func (g *rtRig) payload(app, n int) []byte {
	g.serial++
	d := g.c.r.bytes(n)
	d[0] = byte(app)
	if n >= 3 {
		d[1], d[2] = byte(g.serial>>8), byte(g.serial)
	}
	g.sent[g.serial] = d
	return d
}

func (g *rtRig) addApp() int {
	a, err := net.DialUDP("udp", nil, g.local.LocalAddr().(*net.UDPAddr))
	if err != nil {
		panic(err)
	}
	i := len(g.apps)
	g.apps = append(g.apps, a)
	go func() {
		b := make([]byte, 70000)
		for {
			n, err := a.Read(b)
			if err != nil {
				return
			}
			g.locals <- rtLoc{i, append([]byte(nil), b[:n]...)}
		}
	}()
	return i
}

// judge: what the property says about one datagram that reached the far side
func (g *rtRig) judge(ar rtArr, script *[]string) {
	o := g.c.o
	s := g.find(ar.k, ar.sid)
	from := -1
	var want []byte
	if len(ar.data) >= 3 {
		want = g.sent[int(ar.data[1])<<8|int(ar.data[2])]
		if want != nil {
			from = int(want[0])
		}
	}
	if want == nil || !bytes.Equal(want, ar.data) {
		o.V("C14 datagram-altered on the client's routing path", map[string]any{"single": g.single, "arrived_len": len(ar.data), "arrived_head": hx(ar.data[:min(len(ar.data), 8)]),
			"what": "a datagram read by the peer on a stream of the real client.RouteUDP is not one of the datagrams a local application sent (cut, merged or mixed)", "script": *script})
		return
	}
	if s.owner < 0 {
		s.owner = from
	} else if s.owner != from {
		o.V("C14 stream-serves-two-addresses at client.RouteUDP", map[string]any{"single": g.single, "session": ar.k, "stream": ar.sid, "first_address": s.owner, "this_address": from,
			"what": "datagrams of two different local UDP addresses arrived on the same stream: the far end cannot tell them apart and answers to one of them — another stream's data mixed in", "script": *script})
	}
}

func (g *rtRig) run(steps int) {
	c, o, r := g.c, g.c.o, g.c.r
	var script []string
	T := func(op, out string) { script = append(script, op+" -> "+out); o.T(op, out) }
	bound := make(chan *net.UDPConn, 1)
	bind := func() (*net.UDPConn, error) {
		l, err := net.ListenUDP("udp", &net.UDPAddr{IP: net.IPv4(127, 0, 0, 1)})
		if err == nil {
			bound <- l
		}
		return l, err
	}
	go client.RouteUDP(bind, time.Hour, g.single, g.newSesh) // never returns
	select {
	case g.local = <-bound:
	case <-time.After(10 * time.Second):
		o.N("C14 route: RouteUDP did not bind within 10 s — part skipped")
		return
	}
	g.max = mux.Verif14MaxUnit(g.mk())
	sg := 0
	if g.single {
		sg = 1
	}
	T(fmt.Sprintf("rt.new single=%d max=%d", sg, g.max), "ok")
	for i := 0; i < 4; i++ {
		g.addApp()
	}
	lost := false
	// one datagram from app a (then, if a is not the probe address 0, the probe): returns after the rig is at rest
	dgram := func(a, n int, fail bool) {
		if lost {
			return
		}
		g.mu.Lock()
		g.failNext = fail
		g.mu.Unlock()
		type one struct {
			a, n   int
			d      []byte
			fail   bool
			arr    *rtArr
			serial int
		}
		ops := []*one{{a: a, n: n, fail: fail}}
		if a != 0 {
			ops = append(ops, &one{a: 0, n: 3 + r.intn(40)})
		}
		for _, x := range ops {
			x.d = g.payload(x.a, x.n)
			x.serial = g.serial
			g.apps[x.a].Write(x.d)
		}
		last := ops[len(ops)-1]
		dl := time.Now().Add(60 * time.Second) // state inspection; the bound only ends a run that is really stuck
		take := func() {
			for _, ar := range g.drain() {
				ar := ar
				g.judge(ar, &script)
				for _, x := range ops {
					if len(ar.data) >= 3 && int(ar.data[1])<<8|int(ar.data[2]) == x.serial && x.arr == nil {
						x.arr = &ar
					}
				}
			}
		}
		for last.arr == nil && time.Now().Before(dl) {
			take()
			if last.arr == nil {
				time.Sleep(100 * time.Microsecond)
			}
		}
		g.pipesIdle()
		take()
		live := g.rest()
		g.mu.Lock()
		g.failNext = false
		g.mu.Unlock()
		for _, x := range ops {
			f := 0
			if x.fail {
				f = 1
			}
			out := "dropped"
			if x.arr != nil {
				out = fmt.Sprintf("sent k=%d sid=%d n=%d", x.arr.k, x.arr.sid, len(x.arr.data))
			}
			// only the last datagram of the pair is observed with the rig at rest: q=1 asks the model for the counters too
			if x == last {
				T(fmt.Sprintf("rt.dgram a=%d n=%d fail=%d q=1", x.a, x.n, f), fmt.Sprintf("%s calls=%d live=%d", out, g.calls(), live))
			} else {
				T(fmt.Sprintf("rt.dgram a=%d n=%d fail=%d q=0", x.a, x.n, f), out)
			}
			o.case_(fmt.Sprint("rt-dgram", g.single, len(script)), x.arr == nil || x.a != 0)
		}
		if last.arr == nil {
			lost = true
			o.N("C14 route: the probe datagram did not come through within 5 s (loopback loss or a stale model) — script abandoned")
		}
	}
	dgram(0, 5, false)
	curDead := false
	for step := 0; step < steps && !lost; step++ {
		switch x := r.intn(100); {
		case x < 45:
			dgram(1+r.intn(len(g.apps)-1), 3+r.intn(1400), false)
			curDead = false
		case x < 52: // too large for one frame: refused by stream.Write, the stream is dropped
			dgram(1+r.intn(len(g.apps)-1), g.max+1+r.intn(3000), false)
			curDead = false
		case x < 60 && len(g.apps) < 12: // a fresh address; sometimes the session handed out for it is already closed
			a := g.addApp()
			fail := (g.single || curDead) && r.intn(2) == 0
			dgram(a, 3+r.intn(200), fail)
			curDead = false
		case x < 80 && len(g.streams) > 0: // the far end answers on a stream
			s := g.streams[r.intn(len(g.streams))]
			n := 1 + r.intn(1400)
			op := fmt.Sprintf("rt.reply k=%d sid=%d n=%d", s.k, s.sid, n)
			if s.txClosed() {
				T(op, fmt.Sprintf("closed calls=%d live=%d", g.calls(), g.rest()))
				break
			}
			d := r.bytes(n)
			if _, err := s.rx.Write(d); err != nil {
				T(op, fmt.Sprintf("peer-write-error calls=%d live=%d", g.calls(), g.rest()))
				break
			}
			select {
			case got := <-g.locals:
				if !bytes.Equal(got.data, d) {
					o.V("C14 datagram-altered on the client's routing path", map[string]any{"single": g.single, "direction": "stream -> local application", "sent_len": n, "got_len": len(got.data), "script": script})
				}
				if s.owner >= 0 && got.app != s.owner {
					o.V("C14 reply-delivered-to-another-address at client.RouteUDP", map[string]any{"single": g.single, "session": s.k, "stream": s.sid, "stream_carries_address": s.owner, "delivered_to_address": got.app,
						"what": "a datagram the far end wrote on the stream that carries local address A's datagrams was sent by the real client.RouteUDP to local address B: another stream's data reaches B", "script": script})
				}
				T(op, fmt.Sprintf("to a=%d n=%d calls=%d live=%d", got.app, len(got.data), g.calls(), g.rest()))
				o.case_(fmt.Sprint("rt-reply", g.single, len(script)), true)
			case <-time.After(5 * time.Second):
				lost = true
				o.N("C14 route: a reply did not reach any local socket within 5 s (loopback loss) — script abandoned")
			}
		case x < 90 && len(g.streams) > 0: // a stream's read deadline expires: its return goroutine ends
			s := g.streams[r.intn(len(g.streams))]
			if s.tx != nil {
				s.tx.SetReadDeadline(time.Now().Add(-time.Second))
			}
			dl := time.Now().Add(60 * time.Second) // state inspection; the bound only ends a run that is really stuck
			for !s.txClosed() && time.Now().Before(dl) {
				time.Sleep(100 * time.Microsecond)
			}
			T(fmt.Sprintf("rt.timeout k=%d sid=%d", s.k, s.sid), fmt.Sprintf("ok calls=%d live=%d", g.calls(), g.rest()))
			o.case_(fmt.Sprint("rt-timeout", g.single, len(script)), true)
		case x < 97 && g.calls() > 0: // a session dies
			k := r.intn(g.calls())
			if r.intn(2) == 0 {
				k = g.calls() - 1
			}
			g.mu.Lock()
			tx := g.tx[k]
			g.mu.Unlock()
			tx.Close()
			if k == g.calls()-1 {
				curDead = true
			}
			T(fmt.Sprintf("rt.kill k=%d", k), fmt.Sprintf("ok calls=%d live=%d", g.calls(), g.rest()))
			o.case_(fmt.Sprint("rt-kill", g.single, len(script)), true)
		}
	}
	o.stat("route_steps", len(script))
	if len(script) > 12 {
		o.sample(fmt.Sprintf("route script (single=%v): %s", g.single, strings.Join(script[:12], " ; ")))
	}
	// teardown: every session dies, every return goroutine must end before the next rig counts its own
	g.mu.Lock()
	txs := append([]*mux.Session(nil), g.tx...)
	g.mu.Unlock()
	for _, tx := range txs {
		tx.Close()
	}
	g.rest()
	for _, a := range g.apps {
		a.Close()
	}
	_ = c
}

func c14route(c *ctx) {
	o := c.o
	probe, err := net.ListenUDP("udp", &net.UDPAddr{IP: net.IPv4(127, 0, 0, 1)})
	if err != nil {
		o.N("C14 route: no loopback UDP in this environment — scenario skipped")
		return
	}
	probe.Close()
	rigs, steps := 4, 32
	if c.thorough() {
		rigs, steps = 24, 120
	}
	for i := 0; i < rigs; i++ {
		g := &rtRig{c: c, single: i%2 == 1, method: byte(c.r.intn(4)), locals: make(chan rtLoc, 1024), sent: map[int][]byte{}}
		copy(g.key[:], c.r.bytes(32))
		g.base = rtReturnGoroutines()
		g.run(steps)
	}
}
