//go:build verif

package main

import (
	"bytes"
	"fmt"

	mux "github.com/cbeuw/Cloak/internal/multiplex"
	"golang.org/x/crypto/salsa20"
)

func init() { scenarios["C11"] = c11 }

// the signature of the open finding of the pinned tree: an accepted modification confined to header bytes 12-13
const c11Known = "C11 accepted-modified-header-byte-12-13"

// c11oracle: the fields that carry Go's AEAD answer for `msg` (query formed as an honest v2 receiver would).
func c11oracle(m int, key [32]byte, msg []byte) string {
	a := refAEAD(m, key)
	if a == nil || len(msg) < 22 {
		return ""
	}
	hdr := make([]byte, 14)
	salsa20.XORKeyStream(hdr, msg[:14], msg[len(msg)-8:], &key)
	ct := msg[14:]
	out := "fail"
	if pt, err := a.Open(nil, hdr[:12], ct, nil); err == nil {
		out = hx(pt)
	}
	return fmt.Sprintf(" on=%s ol=%d oh=%s or=%s", hx(hdr[:12]), len(ct), fnvHex(ct), out)
}

type c11dec struct {
	verdict string // accept ... / reject ... / panic
	ok      bool
	frame   refFrame
	pan     string
}

func c11decode(ob *mux.VerifObfs, msg []byte) c11dec {
	sid, seq, cl, pl, errs, pan := ob.Deobfuscate(append([]byte(nil), msg...))
	switch {
	case pan != "":
		return c11dec{verdict: "reject panic", pan: pan}
	case errs != "":
		return c11dec{verdict: "reject " + errs}
	}
	f := refFrame{sid, seq, cl, append([]byte(nil), pl...)}
	return c11dec{verdict: "accept " + f.canon(), ok: true, frame: f}
}

// c11mods: every modification class of one base message under AEAD method m.
func c11mods(c *ctx, m int, key [32]byte, f refFrame, padLen int, exhaustive bool) {
	o, r := c.o, c.r
	ob, err := mux.VerifMakeObfuscator(byte(m), key)
	if err != nil {
		o.V("C11 MakeObfuscator-failed", map[string]any{"m": m, "err": err.Error()})
		return
	}
	// the base message comes from the real encoder when no padding is asked for, else from the reference encoder
	var base []byte
	if padLen < 0 {
		buf := make([]byte, 16401)
		n, errs, pan := ob.Obfuscate(f.sid, f.seq, f.closing, append([]byte(nil), f.payload...), buf, false, 0)
		if errs != "" || pan != "" {
			o.V("C11 obfuscate-failed", map[string]any{"err": errs, "panic": pan})
			return
		}
		base = append([]byte(nil), buf[:n]...)
	} else {
		base = refEncode(m, key, f, r.bytes(padLen), r.bytes(8))
	}
	info := func(extra map[string]any) map[string]any {
		d := map[string]any{"m": m, "key": hx(key[:]), "base_frame": f.canon(), "base_len": len(base)}
		if len(base) <= 400 {
			d["base_msg"] = hx(base)
		}
		for k, v := range extra {
			d[k] = v
		}
		return d
	}
	bd := c11decode(ob, base)
	o.T(fmt.Sprintf("c11.base m=%d key=%s msg=%s%s", m, hx(key[:]), hx(base), c11oracle(m, key, base)), bd.verdict)
	if !bd.ok || !refFrameEq(bd.frame, f) {
		o.V("C11 unmodified-message-rejected", info(map[string]any{"verdict": bd.verdict}))
		return
	}
	check := func(kind string, msg []byte, touched []int, extra map[string]any) c11dec {
		d := c11decode(ob, msg)
		if d.pan != "" {
			extra["panic"] = d.pan
			o.V("C11 panic-in-deobfuscate", info(extra))
		} else if d.ok {
			extra["accepted_as"] = d.frame.canon()
			only1213 := len(touched) > 0
			for _, p := range touched {
				if p != 12 && p != 13 {
					only1213 = false
				}
			}
			if only1213 {
				o.V(c11Known, info(extra))
				o.stat("accepted_12_13", 1)
			} else {
				o.V("C11 accepted-"+kind, info(extra))
			}
		}
		o.stat("mod_"+kind, 1)
		return d
	}
	// (a) single-bit flips
	for pos := 0; pos < len(base); pos++ {
		bits := []int{0, 1, 2, 3, 4, 5, 6, 7}
		if !exhaustive && pos >= 48 && pos < len(base)-48 {
			bits = []int{r.intn(8)}
		}
		for _, bit := range bits {
			msg := append([]byte(nil), base...)
			msg[pos] ^= 1 << uint(bit)
			d := check("modified-bit", msg, []int{pos}, map[string]any{"flip_pos": pos, "flip_bit": bit})
			o.T(fmt.Sprintf("c11.flip pos=%d bit=%d%s", pos, bit, c11oracle(m, key, msg)), d.verdict)
		}
	}
	// (b) truncations (every length) and extensions by 1..32 bytes
	for n := 0; n < len(base); n++ {
		if !exhaustive && n > 64 && n < len(base)-64 && r.intn(8) != 0 {
			continue
		}
		msg := base[:n]
		d := check("truncated", msg, nil, map[string]any{"truncated_to": n})
		o.T(fmt.Sprintf("c11.trunc n=%d%s", n, c11oracle(m, key, msg)), d.verdict)
	}
	for k := 1; k <= 32; k++ {
		ext := r.bytes(k)
		if k%3 == 0 {
			ext = make([]byte, k)
		}
		msg := append(append([]byte(nil), base...), ext...)
		d := check("extended", msg, nil, map[string]any{"extended_by": hx(ext)})
		o.T(fmt.Sprintf("c11.ext hex=%s%s", hx(ext), c11oracle(m, key, msg)), d.verdict)
	}
	// (c) random multi-byte corruptions (some confined to bytes 12..13)
	nc := 40
	if exhaustive {
		nc = 120
	}
	for k := 0; k < nc; k++ {
		var pos, ln int
		switch k % 4 {
		case 0:
			pos, ln = 12, 1+r.intn(2)
		case 1:
			pos, ln = r.intn(14), 1+r.intn(4)
		default:
			pos, ln = r.intn(len(base)), 1+r.intn(16)
		}
		if pos+ln > len(base) {
			ln = len(base) - pos
		}
		v := r.bytes(ln)
		msg := append([]byte(nil), base...)
		copy(msg[pos:], v)
		if bytes.Equal(msg, base) {
			continue
		}
		var touched []int
		for i := 0; i < ln; i++ {
			if msg[pos+i] != base[pos+i] {
				touched = append(touched, pos+i)
			}
		}
		d := check("modified-bytes", msg, touched, map[string]any{"patch_pos": pos, "patch": hx(v)})
		o.T(fmt.Sprintf("c11.patch pos=%d hex=%s%s", pos, hx(v), c11oracle(m, key, msg)), d.verdict)
	}
	// (d) the same bytes under other keys / other methods
	for k := 0; k < 12; k++ {
		m2, key2 := m, key
		switch k % 4 {
		case 0:
			key2 = c4key(r)
		case 1:
			key2[r.intn(32)] ^= 1 << uint(r.intn(8))
		case 2:
			key2[16+r.intn(16)] ^= 1 << uint(r.intn(8)) // same AES-128 key, different session key
		default:
			m2 = 1 + (m+r.intn(2))%3
		}
		if m2 == m && key2 == key {
			continue
		}
		ob2, err := mux.VerifMakeObfuscator(byte(m2), key2)
		if err != nil {
			continue
		}
		d := c11decode(ob2, base)
		extra := map[string]any{"receiver_m": m2, "receiver_key": hx(key2[:])}
		if d.pan != "" {
			extra["panic"] = d.pan
			o.V("C11 panic-in-deobfuscate", info(extra))
		} else if d.ok {
			extra["accepted_as"] = d.frame.canon()
			o.V("C11 accepted-foreign-key-or-method", info(extra))
		}
		o.stat("mod_foreign", 1)
		o.T(fmt.Sprintf("c11.foreign m=%d key=%s%s", m2, hx(key2[:]), c11oracle(m2, key2, base)), d.verdict)
	}
	o.case_(fmt.Sprintf("mods m=%d len=%d", m, len(base)), true)
}

// c11garbage: arbitrary byte strings to deobfuscate (all four methods): never a panic; under AEAD never accepted.
func c11garbage(c *ctx, m int, n int) {
	o, r := c.o, c.r
	key := c4key(r)
	ob, err := mux.VerifMakeObfuscator(byte(m), key)
	if err != nil {
		o.V("C11 MakeObfuscator-failed", map[string]any{"m": m, "err": err.Error()})
		return
	}
	lens := []int{}
	for l := 0; l <= 64; l++ {
		lens = append(lens, l)
	}
	lens = append(lens, 20480, 20479, 16401, 16402, 16640, 16641, 255+22, 256+22)
	for len(lens) < n {
		switch r.intn(3) {
		case 0:
			lens = append(lens, r.intn(600))
		default:
			lens = append(lens, r.intn(20481))
		}
	}
	for i, l := range lens {
		var g []byte
		switch i % 5 {
		case 0:
			g = make([]byte, l)
		case 1:
			g = bytes.Repeat([]byte{0xff}, l)
		default:
			g = r.bytes(l)
		}
		d := c11decode(ob, g)
		if d.pan != "" {
			o.V("C11 panic-in-deobfuscate", map[string]any{"m": m, "key": hx(key[:]), "len": l, "input_prefix": hx(g[:min(l, 64)]), "panic": d.pan})
		} else if d.ok && m != 0 {
			o.V("C11 accepted-garbage", map[string]any{"m": m, "key": hx(key[:]), "len": l, "input_prefix": hx(g[:min(l, 64)])})
		}
		o.T(fmt.Sprintf("c11.dec m=%d key=%s msg=%s%s", m, hx(key[:]), hx(g), c11oracle(m, key, g)), d.verdict)
		o.stat(fmt.Sprintf("garbage_m%d", m), 1)
	}
	o.case_(fmt.Sprintf("garbage m=%d", m), true)
}

// c11session: garbage into Session.recvDataFromRemote of a live session, then a valid frame whose delivery is checked.
func c11session(c *ctx, m int, rounds int) {
	o, r := c.o, c.r
	key := c4key(r)
	sess, err := mux.VerifMakeSession(byte(m), key, 16401, false)
	if err != nil {
		o.V("C11 MakeSession-failed", err.Error())
		return
	}
	defer sess.Close()
	ob, _ := mux.VerifMakeObfuscator(byte(m), key)
	nextStream := uint32(1)
	for round := 0; round < rounds; round++ {
		before := sess.State()
		ng := 1 + r.intn(12)
		for k := 0; k < ng; k++ {
			var g []byte
			switch r.intn(6) {
			case 0:
				g = r.bytes(r.intn(30))
			case 1:
				g = r.bytes(20480)
			case 2: // a well-formed message under a foreign key
				g = refEncode(m, c4key(r), c4frame(r, 1+r.intn(100)), r.bytes(r.intn(20)), r.bytes(8))
			default:
				g = r.bytes(r.intn(20481))
			}
			errs, pan := sess.Recv(append([]byte(nil), g...))
			if pan != "" {
				o.V("C11 panic-in-recvDataFromRemote", map[string]any{"m": m, "key": hx(key[:]), "len": len(g), "input_prefix": hx(g[:min(len(g), 64)]), "panic": pan})
				return
			}
			o.stat(fmt.Sprintf("session_garbage_m%d", m), 1)
			if m != 0 {
				if errs == "" {
					o.V("C11 garbage-accepted-by-session", map[string]any{"m": m, "key": hx(key[:]), "len": len(g), "input_prefix": hx(g[:min(len(g), 64)])})
				}
				if after := sess.State(); after != before {
					o.V("C11 garbage-changed-session-state", map[string]any{"m": m, "before": before, "after": after, "len": len(g)})
					before = after
				}
			} else {
				// plain method: no authentication, garbage may be taken for frames; keep the accept queue drained
				for {
					if _, ok := sess.TryAccept(); !ok {
						break
					}
				}
			}
		}
		if m == 0 {
			continue // "dropped without effect / later frames processed" is stated for authenticated methods only
		}
		// a valid frame on a fresh stream must now be processed: stream appears, payload readable
		f := refFrame{sid: nextStream, seq: 0, closing: 0, payload: r.bytes(1 + r.intn(300))}
		nextStream++
		buf := make([]byte, 16401)
		n, e1, p1 := ob.Obfuscate(f.sid, f.seq, f.closing, append([]byte(nil), f.payload...), buf, false, 0)
		if e1 != "" || p1 != "" {
			o.V("C11 obfuscate-failed", map[string]any{"err": e1, "panic": p1})
			return
		}
		errs, pan := sess.Recv(append([]byte(nil), buf[:n]...))
		if pan != "" {
			o.V("C11 panic-in-recvDataFromRemote", map[string]any{"m": m, "valid_frame": f.canon(), "panic": pan})
			return
		}
		st, ok := sess.TryAccept()
		var got []byte
		rs := "no-stream"
		if ok {
			rs, got = st.TryRead(len(f.payload) + 10)
		}
		if errs != "" || !ok || st.ID() != f.sid || rs != "data" || !bytes.Equal(got, f.payload) {
			o.V("C11 valid-frame-not-processed-after-garbage", map[string]any{"m": m, "key": hx(key[:]), "round": round, "garbage_before": ng,
				"recv_error": errs, "stream_accepted": ok, "read": rs, "got": hx(got), "want": hx(f.payload), "state": sess.State()})
			return
		}
		o.stat("valid_after_garbage", 1)
	}
	o.case_(fmt.Sprintf("session m=%d", m), true)
}

func c11(c *ctx) {
	o, r := c.o, c.r
	sizes := []int{1, 2, 7, 16, 33, 64, 100, 255, 256, 700, 1400, 4000}
	if c.thorough() {
		sizes = append(sizes, 3, 31, 500, 9000, 16132)
	}
	for m := 1; m <= 3; m++ {
		for i, l := range sizes {
			f := c4frame(r, l)
			f.closing = 0
			if i%3 == 1 {
				f.seq = uint64(r.intn(5))
			}
			padLen := -1 // real encoder (pads by itself when seq < 5)
			if i%4 == 3 {
				padLen = r.intn(240)
			}
			exhaustive := l <= 300 || (c.thorough() && l <= 1400)
			c11mods(c, m, c4key(r), f, padLen, exhaustive)
		}
	}
	ng := 300
	if c.thorough() {
		ng = 1500
	}
	for m := 0; m <= 3; m++ {
		c11garbage(c, m, ng)
	}
	rounds := 60
	if c.thorough() {
		rounds = 400
	}
	for m := 0; m <= 3; m++ {
		c11session(c, m, rounds)
	}
	for m := 1; m <= 3; m++ {
		c11conn(c, m, rounds/3)
	}
	o.sample("c11.flip pos=12 bit=0 -> accept ... c=1 (closing flag flipped on an AEAD frame): the open finding; every other position -> reject errAuth")
	o.sample("garbage of length 0..20480 x 4 methods into deobfuscate and into recvDataFromRemote of a live session, then a valid frame is delivered")
}
