//go:build verif

package main

import (
	"bytes"
	"encoding/base64"
	"encoding/json"
	"fmt"
	"math"
	"os"
	"runtime/debug"
	"sort"
	"strings"
	"time"

	"github.com/cbeuw/Cloak/internal/server"
	um "github.com/cbeuw/Cloak/internal/server/usermanager"
)

func init() { scenarios["C18"] = c18 }

// ---- C18: user database + admin API as a keyed store; no record the API can create crashes the server ----
//
// Every script runs the REAL code: usermanager.APIRouterOf(localManager) through net/http/httptest on a real
// bbolt file, the UserManager methods directly, and userPanel.GetUser through a shim.  T rows are compared with
// the Lean model (ops "db.*").  The monitor below is the property text evaluated against a reference map kept
// here, independent of the model:
//   - read-your-writes: a field mentioned in an accepted create/update is returned by later reads until
//     overwritten / deleted; a deleted or never-created user is not returned; an existing one is;
//   - a request answered >= 400 leaves the raw database unchanged;
//   - close/reopen leaves the raw database unchanged;
//   - nothing panics (a recovered panic counts);
//   - the value a list returned (UserManager.ListAllUsers, kept by the caller: "db.hold") still reads the same after
//     the later operations of the script ("db.reread" after every later write / reopen and at the end).

var c18Names = []string{"SessionsCap", "UpRate", "DownRate", "UpCredit", "DownCredit", "ExpiryTime"}
var c18Short = []string{"cap", "up", "down", "upc", "downc", "exp"}

type c18Ref struct {
	val [6]int64
	set [6]bool
}

type c18Hit struct {
	sig    string
	detail map[string]any
}

type c18Rig struct {
	c      *ctx
	path   string
	db     *um.VerifC18DB
	now    int64
	noSync bool
	ref    map[string]*c18Ref // by uid hex
	script []string           // "op => impl"
	hits   *[]c18Hit
	tag    string
	held   []*c18Held
}

// c18Held is a list result the caller keeps: the very value ListAllUsers returned, and what it said when returned
type c18Held struct {
	infos []um.UserInfo
	uids  [][]byte // deep copies taken at return time
	quiet bool     // no write transaction / close since it was returned
	done  bool     // already reported as changed
}

func (g *c18Rig) open() {
	db, err := um.VerifC18OpenDB(g.path, func() time.Time { return time.Unix(g.now, 0) }, g.noSync)
	if err != nil {
		fmt.Fprintln(os.Stderr, "C18: cannot open database:", err)
		os.Exit(3)
	}
	g.db = db
}

func (g *c18Rig) T(op, out string) {
	g.c.o.T(op, out)
	g.script = append(g.script, op+" => "+out)
}

var c18SeenClass = map[string]int{}
var c18HitCount = 0

func (g *c18Rig) hit(sig string, detail map[string]any) {
	c18HitCount++
	cl := sig
	if f := strings.Fields(sig); len(f) >= 2 {
		cl = f[0] + " " + f[1]
	}
	c18SeenClass[cl]++
	detail["tag"] = g.tag
	if c18SeenClass[cl] == 1 {
		// the first hit of a class carries the whole script as the concrete failing input
		detail["script"] = append([]string(nil), g.script...)
	} else if len(*g.hits) > 400 {
		return // counted, not stored
	}
	*g.hits = append(*g.hits, c18Hit{sig, detail})
}

func c18PanicClass(msg string) string {
	switch {
	case strings.Contains(msg, "index out of range") || strings.Contains(msg, "slice bounds"):
		return "panic-partial-record"
	case strings.Contains(msg, "token bucket") || strings.Contains(msg, "quantum"):
		return "panic-nonpositive-rate"
	}
	return "panic-other"
}

// panicked records the monitor hit for a panic and returns the model-comparable output
func (g *c18Rig) panicked(op, site, msg string) string {
	cl := c18PanicClass(msg)
	g.hit("C18 "+cl+" "+site, map[string]any{"op": op, "panic": msg})
	switch cl {
	case "panic-partial-record":
		return "panic index"
	case "panic-nonpositive-rate":
		return "panic bucket"
	}
	return "panic other " + msg
}

// ---- request construction ----

type c18Body struct {
	uid    []byte // nil: no UID member
	fields [6]*int64
	raw    string // if non-empty: sent verbatim
}

func (b *c18Body) json(r *rng) []byte {
	if b.raw != "" {
		return []byte(b.raw)
	}
	var parts []string
	if b.uid != nil {
		parts = append(parts, fmt.Sprintf(`"UID":"%s"`, base64.StdEncoding.EncodeToString(b.uid)))
	} else if r.intn(2) == 0 {
		parts = append(parts, `"UID":null`)
	}
	for i, f := range b.fields {
		if f != nil {
			parts = append(parts, fmt.Sprintf(`"%s":%d`, c18Names[i], *f))
		} else if r.intn(4) == 0 {
			parts = append(parts, fmt.Sprintf(`"%s":null`, c18Names[i]))
		}
	}
	// member order is irrelevant to JSON: shuffle
	for i := len(parts) - 1; i > 0; i-- {
		j := r.intn(i + 1)
		parts[i], parts[j] = parts[j], parts[i]
	}
	return []byte("{" + strings.Join(parts, ",") + "}")
}

// decodeAsServer decodes the body the way the handler does (encoding/json stays on the Go side of the protocol)
func c18Decode(body []byte) (ok bool, uid []byte, f [6]*int64) {
	var u um.UserInfo
	if err := json.NewDecoder(bytes.NewReader(body)).Decode(&u); err != nil {
		return false, nil, f
	}
	if u.SessionsCap != nil {
		v := int64(*u.SessionsCap)
		f[0] = &v
	}
	for i, p := range []um.MaybeInt64{u.UpRate, u.DownRate, u.UpCredit, u.DownCredit, u.ExpiryTime} {
		if p != nil {
			v := *p
			f[i+1] = &v
		}
	}
	return true, u.UID, f
}

func c18UidArg(uid []byte) string {
	if len(uid) == 0 {
		return "-"
	}
	return hx(uid)
}

func (g *c18Rig) dump() string { return g.db.Dump() }

// post: urlKind "ok" (uid through base64url), "bad" (not base64), "empty" (direct handler call, empty variable)
func (g *c18Rig) post(urlKind string, urlUID []byte, body *c18Body, why string) {
	raw := body.json(g.c.r)
	ok, buid, f := c18Decode(raw)
	op := "db.post url="
	switch urlKind {
	case "ok":
		op += hx(urlUID)
	default:
		op += urlKind
	}
	if !ok {
		op += " body=bad"
	} else {
		op += " body=ok buid=" + c18UidArg(buid)
		for i := range f {
			if f[i] == nil {
				op += " " + c18Short[i] + "=-"
			} else {
				op += fmt.Sprintf(" %s=%d", c18Short[i], *f[i])
			}
		}
	}
	before := g.dump()
	var st int
	var pan string
	switch urlKind {
	case "ok":
		st, _, pan = g.db.Serve("POST", "/admin/users/"+base64.URLEncoding.EncodeToString(urlUID), raw)
	case "bad":
		st, _, pan = g.db.Serve("POST", "/admin/users/"+[]string{"AAA", "!!!!", "A=AA"}[g.c.r.intn(3)], raw)
	case "empty":
		st, _, pan = g.db.CallHandler("post", "", raw)
	}
	if pan != "" {
		g.T(op, g.panicked(op, "writeUserInfoHlr", pan))
		return
	}
	g.T(op, fmt.Sprint(st))
	g.wrote(op)
	after := g.dump()
	if st >= 400 && after != before {
		g.hit("C18 rejected-request-changed-state "+why, map[string]any{"op": op, "status": st, "json_body": string(raw),
			"db_before": before, "db_after": after})
	}
	if st < 300 && ok && urlKind == "ok" && bytes.Equal(urlUID, buid) {
		k := hx(urlUID)
		r := g.ref[k]
		if r == nil {
			r = &c18Ref{}
			g.ref[k] = r
		}
		for i := range f {
			if f[i] != nil {
				r.val[i], r.set[i] = *f[i], true
			}
		}
	}
	if st < 300 && !(ok && urlKind == "ok" && bytes.Equal(urlUID, buid)) {
		g.hit("C18 invalid-request-accepted "+why, map[string]any{"op": op, "status": st, "json_body": string(raw)})
	}
}

func c18ShowInfo(u um.UserInfo) string {
	show32 := func(p um.MaybeInt32) string {
		if p == nil {
			return "-"
		}
		return fmt.Sprint(*p)
	}
	show64 := func(p um.MaybeInt64) string {
		if p == nil {
			return "-"
		}
		return fmt.Sprint(*p)
	}
	return fmt.Sprintf("cap=%s up=%s down=%s upc=%s downc=%s exp=%s", show32(u.SessionsCap), show64(u.UpRate), show64(u.DownRate),
		show64(u.UpCredit), show64(u.DownCredit), show64(u.ExpiryTime))
}

func c18InfoVals(u um.UserInfo) (v [6]int64, have [6]bool) {
	if u.SessionsCap != nil {
		v[0], have[0] = int64(*u.SessionsCap), true
	}
	for i, p := range []um.MaybeInt64{u.UpRate, u.DownRate, u.UpCredit, u.DownCredit, u.ExpiryTime} {
		if p != nil {
			v[i+1], have[i+1] = *p, true
		}
	}
	return
}

// checkRead: read-your-writes for one returned record
func (g *c18Rig) checkRead(op string, uidHex string, u um.UserInfo) {
	r := g.ref[uidHex]
	if r == nil {
		g.hit("C18 read-mismatch user-that-was-never-created-or-was-deleted-is-returned", map[string]any{"op": op, "uid": uidHex, "returned": c18ShowInfo(u)})
		return
	}
	v, have := c18InfoVals(u)
	for i := range v {
		if r.set[i] && (!have[i] || v[i] != r.val[i]) {
			g.hit("C18 read-mismatch field "+c18Names[i], map[string]any{"op": op, "uid": uidHex, "returned": c18ShowInfo(u),
				"expected_" + c18Names[i]: r.val[i]})
			return
		}
	}
}

func (g *c18Rig) get(urlKind string, uid []byte) {
	op := "db.get url="
	var st int
	var resp []byte
	var pan string
	switch urlKind {
	case "ok":
		op += hx(uid)
		st, resp, pan = g.db.Serve("GET", "/admin/users/"+base64.URLEncoding.EncodeToString(uid), nil)
	case "bad":
		op += "bad"
		st, resp, pan = g.db.Serve("GET", "/admin/users/AAA", nil)
	case "empty":
		op += "empty"
		st, resp, pan = g.db.CallHandler("get", "", nil)
	}
	if pan != "" {
		g.T(op, g.panicked(op, "GetUserInfo", pan))
		return
	}
	if st != 200 {
		g.T(op, fmt.Sprint(st))
		if urlKind == "ok" && g.ref[hx(uid)] != nil {
			g.hit("C18 read-mismatch existing-user-not-returned", map[string]any{"op": op, "status": st})
		}
		return
	}
	var u um.UserInfo
	if err := json.Unmarshal(resp, &u); err != nil {
		g.T(op, "200 undecodable "+string(resp))
		return
	}
	g.T(op, "200 "+c18ShowInfo(u))
	g.checkRead(op, hx(uid), u)
}

func (g *c18Rig) list() {
	op := "db.list"
	st, resp, pan := g.db.Serve("GET", "/admin/users", nil)
	if pan != "" {
		g.T(op, g.panicked(op, "ListAllUsers", pan))
		return
	}
	var us []um.UserInfo
	if st != 200 || json.Unmarshal(resp, &us) != nil {
		g.T(op, fmt.Sprintf("%d undecodable", st))
		return
	}
	items := make([]string, 0, len(us))
	seen := map[string]bool{}
	for _, u := range us {
		v, _ := c18InfoVals(u)
		items = append(items, fmt.Sprintf("%s:%d,%d,%d,%d,%d,%d", hx(u.UID), v[0], v[1], v[2], v[3], v[4], v[5]))
		seen[hx(u.UID)] = true
		g.checkRead(op, hx(u.UID), u)
	}
	sort.Strings(items)
	g.T(op, "users ["+strings.Join(items, ";")+"]")
	for k := range g.ref {
		if !seen[k] {
			g.hit("C18 read-mismatch existing-user-not-listed", map[string]any{"op": op, "uid": k})
			break
		}
	}
}

// hold: UserManager.ListAllUsers called directly (the admin handler and any other caller use the returned value
// after the read transaction has ended); the returned value is kept and looked at again later
func (g *c18Rig) hold() {
	op := "db.hold"
	var us []um.UserInfo
	var err error
	var pan string
	func() {
		defer func() {
			if r := recover(); r != nil {
				pan = fmt.Sprint(r)
			}
		}()
		us, err = g.db.Manager().ListAllUsers()
	}()
	if pan != "" {
		g.T(op, g.panicked(op, "ListAllUsers", pan))
		return
	}
	if err != nil {
		g.T(op, "err:"+err.Error())
		return
	}
	h := &c18Held{infos: us, quiet: true}
	items := make([]string, 0, len(us))
	for _, u := range us {
		v, _ := c18InfoVals(u)
		h.uids = append(h.uids, append([]byte(nil), u.UID...))
		items = append(items, fmt.Sprintf("%s:%d,%d,%d,%d,%d,%d", hx(u.UID), v[0], v[1], v[2], v[3], v[4], v[5]))
		g.checkRead(op, hx(u.UID), u)
	}
	sort.Strings(items)
	g.T(op, "users ["+strings.Join(items, ";")+"]")
	g.held = append(g.held, h)
}

// c18Peek copies a byte slice that may point into memory that has been unmapped since (a fault becomes a panic here)
func c18Peek(b []byte) (out []byte, fault string) {
	old := debug.SetPanicOnFault(true)
	defer debug.SetPanicOnFault(old)
	defer func() {
		if r := recover(); r != nil {
			out, fault = nil, fmt.Sprint(r)
		}
	}()
	out = append([]byte{}, b...)
	return
}

// wrote: a write transaction may have committed / the file was closed: look at every held list result again
func (g *c18Rig) wrote(after string) {
	for _, h := range g.held {
		h.quiet = false
	}
	g.reread(after)
}

func (g *c18Rig) reread(after string) {
	for k, h := range g.held {
		if h.done {
			continue
		}
		var items, was, now []string
		changed := false
		for i, u := range h.infos {
			seen, fault := c18Peek(u.UID)
			was = append(was, hx(h.uids[i]))
			if fault != "" {
				items = append(items, hx(h.uids[i])+":!")
				now = append(now, "<fault: "+fault+">")
				changed = true
				continue
			}
			items = append(items, hx(h.uids[i])+":"+hx(seen))
			now = append(now, hx(seen))
			if !bytes.Equal(seen, h.uids[i]) {
				changed = true
			}
		}
		arg := "-"
		if len(items) > 0 {
			arg = strings.Join(items, ",")
		}
		op := fmt.Sprintf("db.reread k=%d quiet=%s items=%s", k, c20b(h.quiet), arg)
		if changed {
			g.T(op, "changed")
			h.done = true
			g.hit("C18 list-result-changed-after-later-operations", map[string]any{"op": op, "after": after,
				"uids_when_ListAllUsers_returned": was, "uids_in_the_same_value_now": now})
		} else {
			g.T(op, "same")
		}
	}
}

func (g *c18Rig) del(urlKind string, uid []byte) {
	op := "db.del url="
	before := g.dump()
	var st int
	var pan string
	switch urlKind {
	case "ok":
		op += hx(uid)
		st, _, pan = g.db.Serve("DELETE", "/admin/users/"+base64.URLEncoding.EncodeToString(uid), nil)
	case "bad":
		op += "bad"
		st, _, pan = g.db.Serve("DELETE", "/admin/users/!!!!", nil)
	case "empty":
		op += "empty"
		st, _, pan = g.db.CallHandler("del", "", nil)
	}
	if pan != "" {
		g.T(op, g.panicked(op, "deleteUserHlr", pan))
		return
	}
	g.T(op, fmt.Sprint(st))
	g.wrote(op)
	after := g.dump()
	if st >= 400 && after != before {
		g.hit("C18 rejected-request-changed-state delete", map[string]any{"op": op, "status": st, "db_before": before, "db_after": after})
	}
	if st < 300 && urlKind == "ok" {
		delete(g.ref, hx(uid))
	}
}

func (g *c18Rig) auth(uid []byte, now int64) {
	g.now = now
	op := fmt.Sprintf("db.auth uid=%s now=%d", c18UidArg(uid), now)
	var out string
	func() {
		defer func() {
			if r := recover(); r != nil {
				out = g.panicked(op, "AuthenticateUser", fmt.Sprint(r))
			}
		}()
		up, down, err := g.db.Manager().AuthenticateUser(uid)
		out = c18ErrName(err)
		if err == nil {
			out = fmt.Sprintf("ok up=%d down=%d", up, down)
		}
	}()
	g.T(op, out)
}

func c18ErrName(err error) string {
	switch err {
	case nil:
		return "ok"
	case um.ErrUserNotFound:
		return "notfound"
	case um.ErrNoUpCredit:
		return "noup"
	case um.ErrNoDownCredit:
		return "nodown"
	case um.ErrUserExpired:
		return "expired"
	case um.ErrSessionsCapReached:
		return "capreached"
	}
	return "err:" + err.Error()
}

func (g *c18Rig) authz(uid []byte, n int64, now int64) {
	g.now = now
	op := fmt.Sprintf("db.authz uid=%s n=%d now=%d", c18UidArg(uid), n, now)
	var out string
	func() {
		defer func() {
			if r := recover(); r != nil {
				out = g.panicked(op, "AuthoriseNewSession", fmt.Sprint(r))
			}
		}()
		out = c18ErrName(g.db.Manager().AuthoriseNewSession(uid, um.AuthorisationInfo{NumExistingSessions: int(n)}))
	}()
	g.T(op, out)
}

type c18Upd struct {
	uid      []byte
	up, down int64
}

func (g *c18Rig) upload(ups []c18Upd, now int64) {
	g.now = now
	var items []string
	var su []um.StatusUpdate
	for _, u := range ups {
		items = append(items, fmt.Sprintf("%s:%d:%d", hx(u.uid), u.up, u.down))
		su = append(su, um.StatusUpdate{UID: u.uid, Active: true, NumSession: 1, UpUsage: u.up, DownUsage: u.down, Timestamp: now})
	}
	arg := "-"
	if len(items) > 0 {
		arg = strings.Join(items, ",")
	}
	op := fmt.Sprintf("db.upload now=%d ups=%s", now, arg)
	var out string
	func() {
		defer func() {
			if r := recover(); r != nil {
				out = g.panicked(op, "UploadStatus", fmt.Sprint(r))
			}
		}()
		resps, err := g.db.Manager().UploadStatus(su)
		if err != nil {
			out = "err:" + err.Error()
			return
		}
		var rs []string
		for _, r := range resps {
			m := map[string]string{"User no longer exists": "gone", "No upload credit left": "noup", "No download credit left": "nodown",
				"User has expired": "expired"}[r.Message]
			if m == "" || r.Action != um.TERMINATE {
				m = "?" + r.Message
			}
			rs = append(rs, hx(r.UID)+":"+m)
		}
		out = "resps [" + strings.Join(rs, ",") + "]"
	}()
	g.T(op, out)
	g.wrote(op)
	// usage accounting is C16's subject: the reference map just stops asserting the two credits of those users
	for _, u := range ups {
		if r := g.ref[hx(u.uid)]; r != nil {
			r.set[3], r.set[4] = false, false
		}
	}
}

func (g *c18Rig) getUser(uid []byte, now int64) {
	g.now = now
	op := fmt.Sprintf("db.getuser uid=%s now=%d", c18UidArg(uid), now)
	res, pan := server.VerifC18Activate(g.db.Manager(), uid)
	if pan != "" {
		res = g.panicked(op, "GetUser", pan)
	}
	g.T(op, res)
}

func (g *c18Rig) reopen() {
	before := g.dump()
	if err := g.db.Close(); err != nil {
		g.hit("C18 close-failed", map[string]any{"err": err.Error()})
	}
	g.open()
	g.T("db.reopen", "ok")
	g.wrote("db.reopen")
	if after := g.dump(); after != before {
		g.hit("C18 reopen-changed-state", map[string]any{"db_before": before, "db_after": after})
	}
}

// ---- values ----

var c18Vals64 = []int64{0, 1, -1, math.MaxInt32, math.MinInt32, math.MaxInt64, math.MinInt64, 2, 1 << 32, 1<<31 - 1, -(1 << 31) - 1}

func c18Val(r *rng, field int) int64 {
	if field == 0 { // SessionsCap is an int32
		switch r.intn(8) {
		case 0:
			return 0
		case 1:
			return 1
		case 2:
			return -1
		case 3:
			return math.MaxInt32
		case 4:
			return math.MinInt32
		case 5:
			return int64(r.intn(5))
		}
		return int64(int32(r.next()))
	}
	switch r.intn(3) {
	case 0:
		return c18Vals64[r.intn(len(c18Vals64))]
	case 1:
		return int64(r.intn(2000)) - 100
	}
	return int64(r.next())
}

func c18Now(r *rng) int64 {
	switch r.intn(5) {
	case 0:
		return 0
	case 1:
		return 1
	case 2:
		return -1
	case 3:
		return 1600000000
	}
	return int64(r.intn(3000)) - 200
}

func c18p64(v int64) *int64 { return &v }

func (g *c18Rig) randBody(uid []byte, subset int) *c18Body {
	b := &c18Body{uid: uid}
	for i := 0; i < 6; i++ {
		if subset&(1<<i) != 0 {
			b.fields[i] = c18p64(c18Val(g.c.r, i))
		}
	}
	return b
}

// probe everything the property names on every record that exists in the raw database
func (g *c18Rig) probeAll(uids [][]byte) {
	r := g.c.r
	now := c18Now(r)
	for _, uid := range uids {
		g.get("ok", uid)
		g.auth(uid, now)
		g.authz(uid, int64(r.intn(4)), now)
		g.getUser(uid, now)
	}
	g.list()
	g.hold()
	var ups []c18Upd
	for _, uid := range uids {
		ups = append(ups, c18Upd{uid, int64(r.intn(50)), int64(r.intn(50))})
	}
	g.upload(ups, now)
	g.list()
}

func c18NewRig(c *ctx, hits *[]c18Hit, idx int, tag string) *c18Rig {
	g := &c18Rig{c: c, path: fmt.Sprintf("c18_%d.db", idx), ref: map[string]*c18Ref{}, hits: hits, tag: tag, noSync: idx%16 != 0}
	os.Remove(g.path)
	g.open()
	g.T("db.new", "ok")
	return g
}

func (g *c18Rig) finish() {
	g.reread("end of script")
	g.T("db.dump", g.dump())
	g.db.Close()
	os.Remove(g.path)
}

func c18(c *ctx) {
	o, r := c.o, c.r
	var hits []c18Hit
	idx := 0
	uidA, uidB, uidC := r.bytes(16), r.bytes(16), r.bytes(16)
	uidLong := append(append([]byte(nil), uidA...), 0xaa, 0xbb, 0xcc, 0xdd) // AuthoriseNewSession truncates it to uidA
	uidShort := []byte{0x07}
	uids := [][]byte{uidA, uidB, uidC}

	// (1) every subset of the six fields as the only request that ever touched the record, then everything
	// the property names is done to it; second half of the subsets again as create + complementary update
	for subset := 0; subset < 64; subset++ {
		for variant := 0; variant < 3; variant++ {
			g := c18NewRig(c, &hits, idx, fmt.Sprintf("subset=%06b variant=%d", subset, variant))
			idx++
			uid := uids[r.intn(3)]
			g.post("ok", uid, g.randBody(uid, subset), "valid")
			switch variant {
			case 1:
				g.reopen()
			case 2:
				g.post("ok", uid, g.randBody(uid, r.intn(64)), "valid")
			}
			g.probeAll([][]byte{uid})
			g.finish()
			o.case_(fmt.Sprintf("subset %d/%d", subset, variant), subset != 63)
		}
	}
	// (2) the three requests of the Lean witnesses (Props/C18.lean, `pinned_*`), on the real code
	{
		g := c18NewRig(c, &hits, idx, "witness mismatch")
		idx++
		g.post("ok", uidA, &c18Body{uid: uidB, fields: [6]*int64{c18p64(3)}}, "uid-mismatch")
		g.get("ok", uidB)
		g.list()
		g.finish()
		g = c18NewRig(c, &hits, idx, "witness partial record")
		idx++
		g.post("ok", uidA, &c18Body{uid: uidA, fields: [6]*int64{c18p64(-1)}}, "valid")
		g.probeAll([][]byte{uidA})
		g.finish()
		g = c18NewRig(c, &hits, idx, "witness non-positive rate")
		idx++
		g.post("ok", uidA, &c18Body{uid: uidA, fields: [6]*int64{c18p64(1), c18p64(0), c18p64(5), c18p64(5), c18p64(5), c18p64(100)}}, "valid")
		g.getUser(uidA, 50)
		g.post("ok", uidA, &c18Body{uid: uidA, fields: [6]*int64{nil, c18p64(7), c18p64(math.MinInt64)}}, "valid")
		g.getUser(uidA, 50)
		g.post("ok", uidA, &c18Body{uid: uidA, fields: [6]*int64{nil, c18p64(math.MaxInt64), c18p64(1)}}, "valid")
		g.getUser(uidA, 50)
		g.finish()
		// Props/C18.lean `pinned_list_result_unstable`: a list result is kept, two unrelated writes follow
		g = c18NewRig(c, &hits, idx, "witness list result held across later writes")
		idx++
		full := [6]*int64{c18p64(2), c18p64(10), c18p64(10), c18p64(100), c18p64(100), c18p64(2000000000)}
		g.post("ok", uidA, &c18Body{uid: uidA, fields: full}, "valid")
		g.hold()
		g.post("ok", uidB, &c18Body{uid: uidB, fields: full}, "valid")
		g.post("ok", uidC, &c18Body{uid: uidC, fields: full}, "valid")
		g.hold()
		g.del("ok", uidB)
		g.reopen()
		g.finish()
		o.case_("witnesses", true)
	}
	// (3) random operation sequences over three UIDs (+ a 1-byte and a 20-byte UID)
	nScripts, maxOps := 1200, 12
	if c.thorough() {
		nScripts, maxOps = 20000, 30
	}
	kinds := map[string]int{}
	for s := 0; s < nScripts; s++ {
		g := c18NewRig(c, &hits, idx, fmt.Sprintf("random %d", s))
		idx++
		pick := func() []byte {
			switch r.intn(12) {
			case 0:
				return uidLong
			case 1:
				return uidShort
			}
			return uids[r.intn(3)]
		}
		nops := 4 + r.intn(maxOps-3)
		for k := 0; k < nops; k++ {
			uid := pick()
			kind := r.intn(100)
			switch {
			case kind < 34:
				subset := r.intn(64)
				if r.intn(3) == 0 {
					subset = 63
				}
				g.post("ok", uid, g.randBody(uid, subset), "valid")
				kinds["post"]++
			case kind < 40: // UID mismatch (other user / no UID / empty UID)
				other := pick()
				for bytes.Equal(other, uid) {
					other = pick()
				}
				b := g.randBody(other, r.intn(64))
				switch r.intn(4) {
				case 0:
					b.uid = nil
				case 1:
					b.uid = []byte{}
				}
				g.post("ok", uid, b, "uid-mismatch")
				kinds["post-mismatch"]++
			case kind < 46: // undecodable body: syntax error, wrong type, int32 overflow, truncated
				b := g.randBody(uid, 1+r.intn(63))
				good := string(b.json(r))
				switch r.intn(5) {
				case 0:
					b.raw = good[:len(good)-1-r.intn(len(good)/2)]
				case 1:
					b.raw = strings.Replace(good, `"UID":"`, `"UID":"*`, 1)
				case 2:
					b.raw = fmt.Sprintf(`{"UID":"%s","UpRate":5,"SessionsCap":%d,"DownRate":7}`, base64.StdEncoding.EncodeToString(uid), int64(math.MaxInt32)+1+int64(r.intn(9)))
				case 3:
					b.raw = fmt.Sprintf(`{"UID":"%s","UpCredit":12,"ExpiryTime":"soon","DownCredit":4}`, base64.StdEncoding.EncodeToString(uid))
				case 4:
					b.raw = []string{"", "null x", "[1,2]", `"str"`, "{", `{"UID":5}`, `{"UpRate":9223372036854775808}`, `{"UpRate":1.5}`}[r.intn(8)]
				}
				g.post("ok", uid, b, "bad-json")
				kinds["post-badjson"]++
			case kind < 49:
				g.post("bad", nil, g.randBody(uid, r.intn(64)), "bad-base64")
				kinds["post-badurl"]++
			case kind < 51:
				g.post("empty", nil, g.randBody(uid, r.intn(64)), "empty-uid")
				kinds["post-emptyurl"]++
			case kind < 61:
				g.get("ok", uid)
				kinds["get"]++
			case kind < 63:
				g.get([]string{"bad", "empty"}[r.intn(2)], nil)
				kinds["get-badurl"]++
			case kind < 66:
				g.list()
				kinds["list"]++
			case kind < 69:
				g.hold()
				kinds["list-held"]++
			case kind < 77:
				g.del("ok", uid)
				kinds["delete"]++
			case kind < 79:
				g.del([]string{"bad", "empty"}[r.intn(2)], nil)
				kinds["delete-badurl"]++
			case kind < 83:
				g.auth(uid, c18Now(r))
				kinds["authenticate"]++
			case kind < 87:
				n := int64(r.intn(5))
				switch r.intn(6) {
				case 0:
					n = math.MaxInt32
				case 1:
					n = 1<<32 - 1
				case 2:
					n = 1 << 32
				case 3:
					n = -1
				}
				g.authz(uid, n, c18Now(r))
				kinds["authorise"]++
			case kind < 92:
				var ups []c18Upd
				for j := r.intn(4); j > 0; j-- {
					u := c18Upd{pick(), int64(r.intn(100)), int64(r.intn(100))}
					switch r.intn(8) {
					case 0:
						u.up = math.MaxInt64
					case 1:
						u.down = math.MinInt64
					case 2:
						u.up = -5
					}
					ups = append(ups, u)
				}
				g.upload(ups, c18Now(r))
				kinds["upload"]++
			case kind < 96:
				g.getUser(uid, c18Now(r))
				kinds["activate"]++
			default:
				g.reopen()
				kinds["reopen"]++
			}
		}
		// then everything the property names, on every record that exists
		g.probeAll(append(append([][]byte(nil), uids...), uidShort, uidLong))
		g.finish()
		o.case_(fmt.Sprintf("random %d", s), true)
	}
	for k, v := range kinds {
		o.stat("op_"+k, v)
	}
	o.stat("scripts", idx)
	o.sample(`db.post url=<uidA> body=ok buid=<uidA> cap=-1 up=- down=- upc=- downc=- exp=- => 201 ; db.get url=<uidA> => 200 cap=-1 up=0 down=0 upc=0 downc=0 exp=0`)
	o.sample(`db.post url=<uidA> body=ok buid=<uidB> ... => 400 (database unchanged) ; db.getuser uid=<uidA> now=50 => badrate (UpRate=0)`)

	// ---- monitor hits: one concrete failing script per distinct signature first ----
	prio := func(sig string) int {
		switch {
		case strings.HasPrefix(sig, "C18 rejected-request-changed-state"):
			return 0
		case strings.HasPrefix(sig, "C18 panic-partial-record"):
			return 1
		case strings.HasPrefix(sig, "C18 panic-nonpositive-rate"):
			return 2
		case strings.HasPrefix(sig, "C18 list-result-changed"):
			return 3
		}
		return 4
	}
	class := func(sig string) string {
		f := strings.Fields(sig)
		if len(f) >= 2 {
			return f[0] + " " + f[1]
		}
		return sig
	}
	firstOf := map[string]int{}
	var order []string
	for i, h := range hits {
		cl := class(h.sig)
		if _, ok := firstOf[cl]; !ok {
			firstOf[cl] = i
			order = append(order, cl)
		}
	}
	sort.SliceStable(order, func(i, j int) bool { return prio(order[i]) < prio(order[j]) })
	if len(order) > 0 {
		all := map[string]any{}
		count := c18SeenClass
		for _, cl := range order {
			h := hits[firstOf[cl]]
			all[cl] = map[string]any{"signature": h.sig, "hits_this_run": count[cl], "failing_input": h.detail}
		}
		for k, cl := range order {
			h := hits[firstOf[cl]]
			d := map[string]any{}
			for kk, vv := range h.detail {
				d[kk] = vv
			}
			if k == 0 {
				d["distinct_signatures"] = all
			}
			o.V(h.sig, d)
		}
		emitted := 0
		for i, h := range hits {
			if firstOf[class(h.sig)] == i {
				continue
			}
			if emitted >= 60 {
				break
			}
			// later hits of a class: signature and op only (the first of each class carries the full script)
			o.V(h.sig, map[string]any{"tag": h.detail["tag"], "op": h.detail["op"]})
			emitted++
		}
		o.stat("monitor_hits_total", c18HitCount)
	}
}
