//go:build verif

package main

import (
	"fmt"
	"math"
	"os"
	"testing/synctest"
	"time"

	mux "github.com/cbeuw/Cloak/internal/multiplex"
)

// C19 "for all rates ... a backlogged sender is not held below that rate": the very large rates an administrator
// writes to mean "no limit" (UpRate/DownRate are int64). The valve made by mux.MakeValve is driven through its own
// txWait / rxWait on the virtual clock with an offered load that is a vanishing fraction of the rate (16 KiB per
// millisecond; single reads separated by idle hours or days): no call may wait at all. Every call is also a trace
// row for the Lean bucket (unbounded integers), built from what the constructor chose for the valve's bucket.
// Own subprocess (synctest bubble).

func init() { scenarios["C19huge"] = c19hugeChild }

func c19hugeChild(c *ctx) {
	r := c.r
	o := c.o
	synctest.Run(func() {
		rates := []int64{1_000_000_000, 1 << 32, 1<<34 - 1, 1 << 34, 1<<34 + 1, 1 << 40, 1_000_000_000_000, 1_000_000_000_000_000,
			1_000_000_000_000_000_000, 1 << 62, 4_700_000_000_000_000_000, math.MaxInt64 - 1, math.MaxInt64}
		n := 6
		if c.thorough() {
			n = 40
		}
		for i := 0; i < n; i++ {
			rates = append(rates, c19logRate(r, 1e9, 9.2e18))
		}
		for ri, rate := range rates {
			valve := mux.MakeValve(rate, rate)
			t0 := time.Now()
			rxP, txP := mux.Verif19ValveParams(valve)
			for _, tx := range []bool{true, false} {
				p, dir := rxP, "rx"
				if tx {
					p, dir = txP, "tx"
				}
				ok := 0
				if c19rateOKexact(p.Q, p.FI, p.Cap) {
					ok = 1
				}
				c19searchRow(o, p.Cap, p.Q, p.FI)
				o.T(fmt.Sprintf("tb.new rate=%d cap=%d q=%d fi=%d", p.Cap, p.Cap, p.Q, p.FI), fmt.Sprintf("ok rateOK=%d", ok))
				if p.Cap > rate {
					o.V("C19 bucket capacity is more than one second's worth of the configured rate", map[string]any{"rate": rate, "capacity": p.Cap})
				}
				var worst time.Duration
				var worstAt, worstCount int64
				take := func(count int) {
					now := int64(time.Since(t0))
					mux.Verif19Wait(valve, tx, count)
					d := time.Since(t0) - time.Duration(now)
					o.T(fmt.Sprintf("tb.take now=%d count=%d", now, count), fmt.Sprintf("wait=%d", int64(d)))
					if d > worst {
						worst, worstAt, worstCount = d, now, int64(count)
					}
				}
				steps := 0
				if tx {
					// steady: one full-size record every millisecond for 2.5 s (16 MB/s)
					for k := 0; k < 2500; k++ {
						time.Sleep(time.Millisecond)
						take(16384 + r.intn(18))
						steps++
					}
				} else {
					// sparse: single reads separated by idle periods of seconds, hours, days
					idles := []time.Duration{time.Second, 10 * time.Second, 3 * time.Hour, 26 * time.Hour, 40 * 24 * time.Hour}
					take(1000)
					for _, idle := range idles {
						time.Sleep(idle + time.Duration(r.intn(1_000_000_000)))
						take(1 + r.intn(20480))
						time.Sleep(time.Millisecond)
						take(1 + r.intn(20480))
						steps += 2
					}
				}
				if worst > 0 {
					o.V("C19 held-below-rate huge-rate", map[string]any{"configured_rate": rate, "direction": dir, "bucket_capacity": p.Cap, "quantum": p.Q, "fillInterval_ns": p.FI,
						"longest_wait_ns": int64(worst), "at_ns_since_valve_made": worstAt, "bytes_asked": worstCount,
						"what": "the offered load is at most 16.4 MB/s (tx: one record per millisecond; rx: single reads after idle periods), far below the configured rate and the one-second burst, and yet a wait was imposed",
						"replay": fmt.Sprintf("v := mux.MakeValve(%d, %d); tx: 2500 x {sleep 1ms; txWait(16384..16401)}; rx: rxWait after idle 1s,10s,3h,26h,40d", rate, rate)})
				}
				o.stat("huge_rate_calls", steps)
				o.case_(fmt.Sprintf("huge/%d/%s/%d", ri, dir, rate), true)
			}
			o.stat("huge_rates", 1)
		}
		o.close()
		os.Exit(0)
	})
}
