//go:build verif

package main

import (
	"bytes"
	"crypto/rand"
	"errors"
	"fmt"
	"io"
	"net"
	"sync"
	"time"

	"github.com/cbeuw/Cloak/internal/client"
	"github.com/cbeuw/Cloak/internal/common"
	"github.com/cbeuw/Cloak/internal/ecdh"
	mux "github.com/cbeuw/Cloak/internal/multiplex"
	"github.com/cbeuw/Cloak/internal/server"
)

// C14 over the whole chain in UDP mode: configuration (UDP=true) -> client.MakeSession (real handshakes against the real
// dispatchConnection) -> client.RouteUDP on loopback with K local UDP applications -> unordered streams -> the server's
// serveSession -> common.Copy to K upstream "UDP" connections (a harness echo service with datagram semantics) and back.
// Every application must get back its own datagrams, whole, and nobody else's.

// dgEnd: one end of an in-memory connection with datagram semantics (one Write = one message = one Read)
type dgEnd struct {
	in, out chan []byte
	closed  chan struct{}
	once    sync.Once
}

func newDgPair() (*dgEnd, *dgEnd) {
	ab, ba := make(chan []byte, 4096), make(chan []byte, 4096)
	return &dgEnd{in: ba, out: ab, closed: make(chan struct{})}, &dgEnd{in: ab, out: ba, closed: make(chan struct{})}
}
func (d *dgEnd) Read(b []byte) (int, error) {
	select {
	case m := <-d.in:
		return copy(b, m), nil
	case <-d.closed:
		return 0, io.EOF
	}
}
func (d *dgEnd) Write(b []byte) (int, error) {
	select {
	case <-d.closed:
		return 0, errors.New("closed")
	default:
	}
	select {
	case d.out <- append([]byte(nil), b...):
	default: // a full queue drops, as UDP does
	}
	return len(b), nil
}
func (d *dgEnd) Close() error                       { d.once.Do(func() { close(d.closed) }); return nil }
func (d *dgEnd) LocalAddr() net.Addr                { return addrT("dg") }
func (d *dgEnd) RemoteAddr() net.Addr               { return addrT("dg-peer") }
func (d *dgEnd) SetDeadline(t time.Time) error      { return nil }
func (d *dgEnd) SetReadDeadline(t time.Time) error  { return nil }
func (d *dgEnd) SetWriteDeadline(t time.Time) error { return nil }

func c14system(c *ctx, k int) {
	o, r := c.o, c.r
	probe, err := net.ListenUDP("udp", &net.UDPAddr{IP: net.IPv4(127, 0, 0, 1)})
	if err != nil {
		o.N("C14 system: no loopback UDP in this environment — part skipped")
		return
	}
	probe.Close()
	enc := []string{"plain", "aes-gcm", "aes-128-gcm", "chacha20-poly1305"}[r.intn(4)]
	K := 16 + r.intn(17) // many streams reach the server's accept loop back to back
	tag := fmt.Sprintf("udp system #%d enc=%s apps=%d", k, enc, K)
	var segMu sync.Mutex
	seg := func(avail int) int {
		segMu.Lock()
		defer segMu.Unlock()
		if r.intn(3) == 0 {
			return 1 + r.intn(avail)
		}
		return avail
	}
	pv, pub, err := ecdh.GenerateKey(rand.Reader)
	if err != nil {
		return
	}
	uid := r.bytes(16)
	world := common.RealWorldState
	var umu sync.Mutex
	upstreams := 0
	proxy := funcDialer(func() (net.Conn, error) {
		a, b := newDgPair()
		umu.Lock()
		upstreams++
		umu.Unlock()
		go func() { // echo
			buf := make([]byte, 70000)
			for {
				n, err := b.Read(buf)
				if err != nil {
					return
				}
				b.Write(buf[:n])
			}
		}()
		return a, nil
	})
	redir := funcDialer(func() (net.Conn, error) { return nil, errors.New("no web server in the harness") })
	sta := server.VerifC15State(server.VerifNewPanel(nil), pv, world, redir, proxy, "test")
	var arr [16]byte
	copy(arr[:], uid)
	sta.BypassUID[arr] = struct{}{}
	dial := funcDialer(func() (net.Conn, error) {
		a, b := newSpipe("net", seg)
		go server.VerifC15Dispatch(b, sta)
		return a, nil
	})
	raw := client.RawConfig{ServerName: "www.example.com", ProxyMethod: "test", EncryptionMethod: enc, UID: uid, PublicKey: ecdh.Marshal(pub),
		NumConn: 2, UDP: true, RemoteHost: "127.0.0.1", RemotePort: "443", LocalHost: "127.0.0.1", LocalPort: "1984", BrowserSig: "firefox", Transport: "direct", StreamTimeout: 300}
	_, remote, auth, err := raw.ProcessRawConfig(world)
	if err != nil {
		o.V("C14 system: valid configuration refused", map[string]any{"tag": tag, "err": err.Error()})
		return
	}
	auth.SessionId = uint32(1 + r.intn(1<<30))
	seshCh := make(chan *mux.Session, 1)
	go func() { seshCh <- client.MakeSession(remote, auth, dial) }()
	var sesh *mux.Session
	select {
	case sesh = <-seshCh:
	case <-time.After(60 * time.Second):
		o.N("C14 system: the session was not established within 60 s — case skipped")
		return
	}
	bound := make(chan *net.UDPConn, 1)
	bind := func() (*net.UDPConn, error) {
		l, err := net.ListenUDP("udp", &net.UDPAddr{IP: net.IPv4(127, 0, 0, 1)})
		if err == nil {
			bound <- l
		}
		return l, err
	}
	go client.RouteUDP(bind, time.Hour, false, func() *mux.Session { return sesh })
	var local *net.UDPConn
	select {
	case local = <-bound:
	case <-time.After(10 * time.Second):
		return
	}
	// K applications start at the same moment (their streams reach the server's accept loop back to back)
	const each = 12
	type res struct {
		got, foreign, echoed int
		example              string
	}
	out := make(chan res, K)
	start := make(chan struct{})
	for i := 0; i < K; i++ {
		a, err := net.DialUDP("udp", nil, local.LocalAddr().(*net.UDPAddr))
		if err != nil {
			return
		}
		defer a.Close()
		go func(i int, a *net.UDPConn) {
			<-start
			tagB := byte('a' + i)
			sent := map[string]bool{}
			var x res
			buf := make([]byte, 70000)
			for j := 0; j < each; j++ {
				d := append([]byte{tagB, byte(j)}, bytes.Repeat([]byte{tagB}, 10+(i*7+j*13)%900)...)
				sent[string(d)] = true
				a.Write(d)
				a.SetReadDeadline(time.Now().Add(400 * time.Millisecond))
				n, err := a.Read(buf)
				if err != nil {
					continue
				}
				x.got++
				if buf[0] != tagB {
					x.foreign++
					x.example = fmt.Sprintf("application %q received a datagram of %d bytes that starts with %q", tagB, n, buf[0])
				} else if sent[string(buf[:n])] {
					x.echoed++
				} else {
					x.foreign++
					x.example = fmt.Sprintf("application %q received %d bytes with its own letter that it never sent (merged, split or altered)", tagB, n)
				}
			}
			out <- x
		}(i, a)
	}
	close(start)
	total := res{}
	for i := 0; i < K; i++ {
		x := <-out
		total.got += x.got
		total.foreign += x.foreign
		total.echoed += x.echoed
		if x.example != "" {
			total.example = x.example
		}
	}
	umu.Lock()
	ups := upstreams
	umu.Unlock()
	if total.foreign > 0 || total.echoed == 0 || ups != K {
		o.V("C14 datagrams-mixed-or-lost end-to-end (client and server programs, UDP mode)", map[string]any{"tag": tag, "applications": K, "datagrams_each": each,
			"echoes_received": total.echoed, "foreign_or_altered": total.foreign, "upstream_connections_made": ups, "example": total.example,
			"replay": "RawConfig{UDP:true} -> ProcessRawConfig -> MakeSession (real handshakes) -> RouteUDP on loopback; K local UDP applications start together, 12 datagrams each; server serveSession -> echoing upstream with datagram semantics"})
	}
	sesh.Close()
	o.stat("udp_system_echoes", total.echoed)
	o.case_(tag, true)
}
