//go:build verif

package main

import (
	"bytes"
	"crypto/rand"
	"errors"
	"fmt"
	"io"
	"net"
	"sync"
	"time"

	"github.com/cbeuw/Cloak/internal/client"
	"github.com/cbeuw/Cloak/internal/common"
	"github.com/cbeuw/Cloak/internal/ecdh"
	mux "github.com/cbeuw/Cloak/internal/multiplex"
	"github.com/cbeuw/Cloak/internal/server"
)

// C01 over the WHOLE chain, every layer real: configuration (client.RawConfig.ProcessRawConfig) -> client.MakeSession
// (NumConn real handshakes against the real server dispatchConnection) -> client.RouteTCP with K concurrent local
// applications -> Stream.Write / ReadFrom -> obfuscate -> TLS records -> a byte-stream "network" that hands the
// bytes over in arbitrary segment sizes -> TLSConn.Read -> deplex -> reassembly -> the server's serveSession ->
// common.Copy to the upstream proxy (a harness echo service) and all the way back.  Each application must get back
// exactly what it wrote, and the upstream must have seen, per connection, exactly one application's bytes.

// spipe: one direction of a TCP-like byte stream; Write never blocks, Read returns a prefix of ARBITRARY length
type spipeHalf struct {
	mu     sync.Mutex
	cond   *sync.Cond
	buf    []byte
	closed bool
	seg    func(avail int) int
}

func newSpipeHalf(seg func(int) int) *spipeHalf {
	h := &spipeHalf{seg: seg}
	h.cond = sync.NewCond(&h.mu)
	return h
}

type spipeConn struct {
	rd, wr *spipeHalf
	name   string
	dmu    sync.Mutex
	rdl    time.Time
}

func newSpipe(name string, seg func(int) int) (*spipeConn, *spipeConn) {
	ab, ba := newSpipeHalf(seg), newSpipeHalf(seg)
	return &spipeConn{rd: ba, wr: ab, name: name + "-a"}, &spipeConn{rd: ab, wr: ba, name: name + "-b"}
}

func (c *spipeConn) Write(b []byte) (int, error) {
	h := c.wr
	h.mu.Lock()
	defer h.mu.Unlock()
	if h.closed {
		return 0, errors.New("write on closed pipe")
	}
	h.buf = append(h.buf, b...)
	h.cond.Broadcast()
	return len(b), nil
}

func (c *spipeConn) Read(b []byte) (int, error) {
	h := c.rd
	h.mu.Lock()
	defer h.mu.Unlock()
	for len(h.buf) == 0 {
		if h.closed {
			return 0, io.EOF
		}
		c.dmu.Lock()
		dl := c.rdl
		c.dmu.Unlock()
		if !dl.IsZero() {
			d := time.Until(dl)
			if d <= 0 {
				return 0, timeoutErr{}
			}
			t := time.AfterFunc(d, func() { h.mu.Lock(); h.cond.Broadcast(); h.mu.Unlock() })
			h.cond.Wait()
			t.Stop()
			continue
		}
		h.cond.Wait()
	}
	n := len(h.buf)
	if n > len(b) {
		n = len(b)
	}
	if k := h.seg(n); k >= 1 && k < n {
		n = k
	}
	copy(b, h.buf[:n])
	h.buf = h.buf[n:]
	return n, nil
}

type timeoutErr struct{}

func (timeoutErr) Error() string   { return "i/o timeout" }
func (timeoutErr) Timeout() bool   { return true }
func (timeoutErr) Temporary() bool { return true }

func (c *spipeConn) Close() error {
	for _, h := range []*spipeHalf{c.rd, c.wr} {
		h.mu.Lock()
		h.closed = true
		h.cond.Broadcast()
		h.mu.Unlock()
	}
	return nil
}
func (c *spipeConn) LocalAddr() net.Addr  { return addrT(c.name) }
func (c *spipeConn) RemoteAddr() net.Addr { return addrT(c.name + "-peer") }
func (c *spipeConn) SetDeadline(t time.Time) error {
	return c.SetReadDeadline(t)
}
func (c *spipeConn) SetReadDeadline(t time.Time) error {
	c.dmu.Lock()
	c.rdl = t
	c.dmu.Unlock()
	h := c.rd
	h.mu.Lock()
	h.cond.Broadcast()
	h.mu.Unlock()
	return nil
}
func (c *spipeConn) SetWriteDeadline(t time.Time) error { return nil }

type funcDialer func() (net.Conn, error)

func (f funcDialer) Dial(network, address string) (net.Conn, error) { return f() }

func c01system(c *ctx, k int) {
	r := c.r
	encs := []string{"plain", "aes-gcm", "aes-256-gcm", "aes-128-gcm", "chacha20-poly1305"}
	enc := encs[r.intn(len(encs))]
	browsers := []string{"chrome", "firefox", "safari"}
	br := browsers[r.intn(len(browsers))]
	numConn := 1 + r.intn(4)
	K := 2 + r.intn(4)
	tag := fmt.Sprintf("system #%d enc=%s browser=%s conns=%d apps=%d", k, enc, br, numConn, K)

	var segMu sync.Mutex
	seg := func(avail int) int { // how many of the available bytes this read hands over
		segMu.Lock()
		defer segMu.Unlock()
		switch r.intn(6) {
		case 0:
			return 1
		case 1:
			return 1 + r.intn(7) // inside a record header
		case 2:
			return avail // coalesced
		default:
			return 1 + r.intn(avail)
		}
	}

	pv, pub, err := ecdh.GenerateKey(rand.Reader)
	if err != nil {
		return
	}
	uid := r.bytes(16)
	world := common.RealWorldState
	// upstream proxy: echoes, remembers what each connection carried
	var umu sync.Mutex
	var upstream [][]byte
	proxy := funcDialer(func() (net.Conn, error) {
		a, b := newSpipe("upstream", seg)
		umu.Lock()
		idx := len(upstream)
		upstream = append(upstream, nil)
		umu.Unlock()
		go func() {
			buf := make([]byte, 8192)
			for {
				n, err := b.Read(buf)
				if n > 0 {
					umu.Lock()
					upstream[idx] = append(upstream[idx], buf[:n]...)
					umu.Unlock()
					b.Write(buf[:n])
				}
				if err != nil {
					return
				}
			}
		}()
		return a, nil
	})
	redirected := 0
	redir := funcDialer(func() (net.Conn, error) {
		umu.Lock()
		redirected++
		umu.Unlock()
		return nil, errors.New("no web server in the harness")
	})
	sta := server.VerifC15State(server.VerifNewPanel(nil), pv, world, redir, proxy, "test")
	var arr [16]byte
	copy(arr[:], uid)
	sta.BypassUID[arr] = struct{}{}
	dial := funcDialer(func() (net.Conn, error) {
		a, b := newSpipe("net", seg)
		go server.VerifC15Dispatch(b, sta)
		return a, nil
	})
	raw := client.RawConfig{ServerName: "www.example.com", ProxyMethod: "test", EncryptionMethod: enc, UID: uid, PublicKey: ecdh.Marshal(pub),
		NumConn: numConn, RemoteHost: "127.0.0.1", RemotePort: "443", LocalHost: "127.0.0.1", LocalPort: "1984", BrowserSig: br, Transport: "direct", StreamTimeout: 300}
	_, remote, auth, err := raw.ProcessRawConfig(world)
	if err != nil {
		c.o.V("C01 system: valid configuration refused", map[string]any{"tag": tag, "err": err.Error()})
		return
	}
	auth.SessionId = uint32(1 + r.intn(1<<30))
	seshCh := make(chan *mux.Session, 1)
	go func() { seshCh <- client.MakeSession(remote, auth, dial) }()
	var sesh *mux.Session
	select {
	case sesh = <-seshCh:
	case <-time.After(60 * time.Second):
		c.o.V("C01 system: session not established", map[string]any{"tag": tag, "redirected_connections": redirected,
			"what": "client.MakeSession against the real dispatchConnection did not complete within 60 s"})
		return
	}
	ln := &memListener{ch: make(chan net.Conn, K)}
	go client.RouteTCP(ln, time.Hour, false, func() *mux.Session { return sesh })

	type app struct {
		wrote, echoed []byte
		err           string
	}
	apps := make([]*app, K)
	var wg sync.WaitGroup
	for i := 0; i < K; i++ {
		ap := &app{}
		apps[i] = ap
		chunks := [][]byte{c01tagged(r, i, []int{1, 1 + r.intn(60), 1000 + r.intn(9000), 10240, 10241 + r.intn(8000)}[r.intn(5)])}
		for j := r.intn(5); j > 0; j-- {
			chunks = append(chunks, c01tagged(r, i, 1+r.intn(40000)))
		}
		for _, ch := range chunks {
			ap.wrote = append(ap.wrote, ch...)
		}
		local, remoteEnd := newSpipe(fmt.Sprintf("app%d", i), seg)
		ln.ch <- remoteEnd
		wg.Add(1)
		go func() {
			defer wg.Done()
			done := make(chan struct{})
			go func() {
				defer close(done)
				buf := make([]byte, len(ap.wrote))
				n, _ := io.ReadFull(local, buf)
				ap.echoed = buf[:n]
			}()
			for _, ch := range chunks {
				local.Write(ch)
			}
			select {
			case <-done:
			case <-time.After(90 * time.Second):
				ap.err = "echo incomplete after 90 s"
				local.Close()
				<-done
			}
			local.Close()
		}()
	}
	wg.Wait()
	umu.Lock()
	defer umu.Unlock()
	bad := ""
	for i, ap := range apps {
		if !bytes.Equal(ap.echoed, ap.wrote) {
			bad = fmt.Sprintf("application %d wrote %d bytes and got back %d bytes (first difference at %d) %s", i, len(ap.wrote), len(ap.echoed), c01firstDiff(ap.echoed, ap.wrote), ap.err)
			break
		}
	}
	if bad == "" {
		used := map[int]bool{}
		for ui, b := range upstream {
			found := false
			for i, ap := range apps {
				if !used[i] && bytes.Equal(ap.wrote, b) {
					used[i], found = true, true
					break
				}
			}
			if !found {
				bad = fmt.Sprintf("upstream connection %d carried %d bytes that are not what any one application wrote", ui, len(b))
				break
			}
		}
		if bad == "" && len(upstream) != K {
			bad = fmt.Sprintf("%d applications, %d upstream connections", K, len(upstream))
		}
	}
	if bad != "" {
		lens := []int{}
		for _, ap := range apps {
			lens = append(lens, len(ap.wrote))
		}
		c.o.V("C01 bytes-differ end-to-end (client and server programs)", map[string]any{"tag": tag, "written_lengths": lens, "what": bad,
			"replay": "RawConfig -> ProcessRawConfig -> MakeSession (real handshakes against dispatchConnection) -> RouteTCP; server serveSession -> echoing upstream; every byte stream delivered in random segment sizes"})
	}
	sesh.Close()
	c.o.stat("system_apps", K)
	c.o.case_(tag, true)
}
