//go:build verif

package main

import (
	"fmt"
	"io"
	"time"

	"github.com/cbeuw/Cloak/internal/common"
	mux "github.com/cbeuw/Cloak/internal/multiplex"
)

// C10 "every later byte … belongs to an application-data record … whose length is non-zero": the ways an application
// can hand the tunnel NOTHING — an empty Write, a source whose Read returns (0, nil) (what a datagram socket does for
// an empty datagram) — must not put a zero-length record (or anything that is not a whole valid record) on the wire.

type c10src struct {
	chunks [][]byte
	i      int
}

func (s *c10src) Read(b []byte) (int, error) {
	if s.i >= len(s.chunks) {
		return 0, io.EOF
	}
	ch := s.chunks[s.i]
	s.i++
	return copy(b, ch), nil
}

func c10emptyWrites(c *ctx) {
	r := c.r
	for method := 0; method < 4; method++ {
		for _, unordered := range []bool{false, true} {
			var key [32]byte
			copy(key[:], r.bytes(32))
			ob, err := mux.MakeObfuscator(byte(method), key)
			if err != nil {
				panic(err)
			}
			sesh := mux.MakeSession(3, mux.SessionConfig{Obfuscator: ob, Unordered: unordered, InactivityTimeout: time.Hour, MsgOnWireSizeLimit: 16401})
			cap := &capConn{}
			sesh.AddConnection(common.NewTLSConn(cap))
			st, err := sesh.OpenStream()
			if err != nil {
				continue
			}
			st.Write([]byte("hello"))
			st.Write(nil)
			st.Write([]byte{})
			st.ReadFrom(&c10src{chunks: [][]byte{[]byte("from a source"), {}, []byte("after the empty read")}})
			st.Write([]byte("world"))
			st.Close()
			sesh.Close()
			recs, whole := c10records(cap.buf)
			bad := ""
			if !whole {
				bad = "the bytes written do not split into whole records"
			}
			for i, rc := range recs {
				if !c10app(rc) {
					bad = fmt.Sprintf("record %d: type %d version %d.%d length %d", i, rc.typ, rc.ver[0], rc.ver[1], len(rc.body))
					break
				}
			}
			if bad != "" {
				c.o.V("C10 not-an-application-data-record after an empty write", map[string]any{"method": method, "unordered": unordered, "what": bad,
					"wire": hx(cap.buf[:min(len(cap.buf), 400)]),
					"replay": "session over common.TLSConn on a capturing connection; Write(\"hello\"), Write(nil), Write([]byte{}), ReadFrom(source yielding data, (0,nil), data), Write, Close"})
			}
			c.o.case_(fmt.Sprintf("empty/%d/%v", method, unordered), true)
		}
	}
}
