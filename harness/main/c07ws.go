//go:build verif

package main

import (
	"errors"
	"net"
	"net/http"
	"time"

	"github.com/gorilla/websocket"
)

// Would net/http + gorilla/websocket (libraries, not Cloak code) upgrade this request?  A WebSocket first packet
// whose credentials are valid can still be a request those libraries refuse (a bit flipped in `Upgrade:`,
// `Connection:`, `Sec-WebSocket-Version:`, `Sec-WebSocket-Key:`, an Origin that does not match Host ...): then the
// handshake reply cannot be made and the server closes the connection - after authentication, so this is neither
// "accepted only if ..." nor "every other first packet". The answer is computed here with the libraries alone, on a
// private connection, and handed to the model as a parameter of the operation (`upg=0`).

type wsRefListener struct {
	c    net.Conn
	done bool
}

func (l *wsRefListener) Accept() (net.Conn, error) {
	if l.done {
		return nil, errors.New("done")
	}
	l.done = true
	return l.c, nil
}
func (l *wsRefListener) Close() error   { return nil }
func (l *wsRefListener) Addr() net.Addr { return faddr("l") }

func wsUpgradable(pkt []byte) bool {
	conn := newEvConn("ref", append([]byte(nil), pkt...), make(chan string, 64)) // honours read deadlines, which net/http's Hijack relies on
	res := make(chan bool, 2)
	report := func(ok bool) {
		select {
		case res <- ok:
		default:
		}
	}
	srv := &http.Server{
		Handler: http.HandlerFunc(func(w http.ResponseWriter, r *http.Request) {
			up := websocket.Upgrader{}
			c, err := up.Upgrade(w, r, nil)
			report(err == nil)
			if err == nil {
				c.Close()
			}
		}),
		ConnState: func(_ net.Conn, st http.ConnState) {
			if st == http.StateClosed {
				report(false)
			}
		},
	}
	srv.Serve(&wsRefListener{c: conn})
	var ok bool
	select {
	case ok = <-res:
	case <-time.After(5 * time.Second):
		ok = true // the libraries are still waiting for more of the request: not a refusal
	}
	conn.Close()
	return ok
}
