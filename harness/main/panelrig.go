//go:build verif

package main

// Shared rig for C15 / C16 / C17: the real userPanel over a bbolt-backed localManager, child-process helper,
// goroutine-dump inspection. (New helper code of engineer E; harness/main/{main,util}.go are untouched.)

import (
	"bufio"
	"crypto/rand"
	"encoding/binary"
	"encoding/json"
	"fmt"
	"os"
	"os/exec"
	"path/filepath"
	"runtime"
	"sort"
	"strings"
	"sync/atomic"
	"time"

	"github.com/cbeuw/Cloak/internal/common"
	mux "github.com/cbeuw/Cloak/internal/multiplex"
	"github.com/cbeuw/Cloak/internal/server"
	"github.com/cbeuw/Cloak/internal/server/usermanager"
)

var rigSeq int64

func outPathArg() string {
	for i, a := range os.Args {
		if a == "-out" && i+1 < len(os.Args) {
			return os.Args[i+1]
		}
		if strings.HasPrefix(a, "-out=") {
			return a[5:]
		}
	}
	return ""
}

func scratchDir() string {
	d := filepath.Dir(outPathArg())
	if d == "" || d == "." {
		d, _ = os.Getwd()
	}
	return d
}

type panelRig struct {
	path  string
	mgr   usermanager.UserManager
	panel *server.VerifPanel
	now   *int64 // the manager's clock, unix seconds
	recID map[*server.ActiveUser]int
	recs  []*server.ActiveUser
}

func newPanelRig(now int64) *panelRig {
	n := atomic.AddInt64(&rigSeq, 1)
	p := filepath.Join(scratchDir(), fmt.Sprintf("users-%d-%d.db", os.Getpid(), n))
	os.Remove(p)
	clock := new(int64)
	*clock = now
	world := common.WorldState{Rand: rand.Reader, Now: func() time.Time { return time.Unix(atomic.LoadInt64(clock), 0) }}
	m, err := usermanager.MakeLocalManager(p, world)
	if err != nil {
		fmt.Fprintln(os.Stderr, "MakeLocalManager:", err)
		os.Exit(2)
	}
	return &panelRig{path: p, mgr: m, panel: server.VerifNewPanel(m), now: clock, recID: map[*server.ActiveUser]int{}}
}

func (r *panelRig) close() {
	if c, ok := r.mgr.(interface{ Close() error }); ok {
		c.Close()
	}
	os.Remove(r.path)
}

func uidBytes(i int) []byte {
	b := make([]byte, 16)
	binary.BigEndian.PutUint32(b[12:], uint32(i))
	return b
}
func uidNum(a [16]byte) int { return int(binary.BigEndian.Uint32(a[12:])) }

// putUser always writes a COMPLETE record (a partial one panics the pinned readers: C18) with positive rates.
func (r *panelRig) putUser(uid int, cap int32, upCredit, downCredit, expiry int64) {
	rate := int64(1) << 40
	err := r.mgr.WriteUserInfo(usermanager.UserInfo{UID: uidBytes(uid), SessionsCap: usermanager.JustInt32(cap),
		UpRate: usermanager.JustInt64(rate), DownRate: usermanager.JustInt64(rate),
		UpCredit: usermanager.JustInt64(upCredit), DownCredit: usermanager.JustInt64(downCredit), ExpiryTime: usermanager.JustInt64(expiry)})
	if err != nil {
		fmt.Fprintln(os.Stderr, "WriteUserInfo:", err)
		os.Exit(2)
	}
}

func (r *panelRig) credits(uid int) (up, down int64, ok bool) {
	info, err := r.mgr.GetUserInfo(uidBytes(uid))
	if err != nil {
		return 0, 0, false
	}
	return *info.UpCredit, *info.DownCredit, true
}

// idOf numbers ActiveUser objects in the order the harness first reports them (the model numbers them in creation order)
func (r *panelRig) idOf(u *server.ActiveUser) (id int, fresh bool) {
	if id, ok := r.recID[u]; ok {
		return id, false
	}
	id = len(r.recs)
	r.recID[u] = id
	r.recs = append(r.recs, u)
	return id, true
}

func errName(err error) string {
	switch err {
	case nil:
		return "nil"
	case usermanager.ErrUserNotFound:
		return "ErrUserNotFound"
	case usermanager.ErrSessionsCapReached:
		return "ErrSessionsCapReached"
	case usermanager.ErrNoUpCredit:
		return "ErrNoUpCredit"
	case usermanager.ErrNoDownCredit:
		return "ErrNoDownCredit"
	case usermanager.ErrUserExpired:
		return "ErrUserExpired"
	}
	return "other:" + strings.ReplaceAll(err.Error(), " ", "_")
}

func keyNum(k [32]byte) uint64 { return binary.BigEndian.Uint64(k[:8]) >> 8 }

func (c *ctx) freshKey() [32]byte {
	var k [32]byte
	copy(k[:], c.r.bytes(32))
	return k
}

// stateLine prints the implementation state in the canonical form of Driver/PanelOps.showState
func (r *panelRig) stateLine() string {
	var act []string
	type pr struct{ a, b int }
	var ps []pr
	for _, u := range r.panel.ActiveList() {
		id, _ := r.idOf(u)
		ps = append(ps, pr{uidNum(server.VerifUID(u)), id})
	}
	sort.Slice(ps, func(i, j int) bool { return ps[i].a < ps[j].a })
	for _, p := range ps {
		act = append(act, fmt.Sprintf("%d:%d", p.a, p.b))
	}
	var recs []string
	for id, u := range r.recs {
		ss := server.VerifSessions(u)
		var sids []int
		for k := range ss {
			sids = append(sids, int(k))
		}
		sort.Ints(sids)
		var es []string
		for _, s := range sids {
			es = append(es, fmt.Sprintf("%d:%d", s, keyNum(ss[uint32(s)].GetSessionKey())))
		}
		b := 0
		if server.VerifBypass(u) {
			b = 1
		}
		recs = append(recs, fmt.Sprintf("%d/u%d/b%d/[%s]", id, uidNum(server.VerifUID(u)), b, strings.Join(es, ",")))
	}
	return fmt.Sprintf("active=[%s] recs=[%s]", strings.Join(act, ","), strings.Join(recs, " "))
}

// orphans: non-closed sessions (of the records the harness knows) that are not in the record activeUsers holds for their uid
func (r *panelRig) orphans() []string {
	var out []string
	for id, u := range r.recs {
		cur := r.panel.ActiveRecord(uidBytes(uidNum(server.VerifUID(u))))
		for sid, s := range server.VerifSessions(u) {
			if !s.IsClosed() && cur != u {
				out = append(out, fmt.Sprintf("rec%d(uid %d) sid %d", id, uidNum(server.VerifUID(u)), sid))
			}
		}
	}
	sort.Strings(out)
	return out
}

// ---- child processes -------------------------------------------------------------------------------------

// caseC records a case in this process and leaves a line the parent can replay
func caseC(o *outw, key string, nontrivial bool) {
	o.case_(key, nontrivial)
	n := 0
	if nontrivial {
		n = 1
	}
	fmt.Fprintf(o.w, "C\t%s\t%d\n", strings.ReplaceAll(key, "\t", " "), n)
}

type childResult struct {
	exit     int
	timedOut bool
	stderr   string
	nT, nV   int
}

// runChild re-executes this binary with a sub-scenario, waits (generous timeout), and re-emits the child's rows.
func runChildE(c *ctx, timeout time.Duration, words ...string) childResult {
	childOut := filepath.Join(scratchDir(), fmt.Sprintf("child-%d-%d.trace", os.Getpid(), atomic.AddInt64(&rigSeq, 1)))
	args := append([]string{"-tier", c.tier, "-seed", fmt.Sprint(c.seed), "-out", childOut}, words...)
	cmd := exec.Command(os.Args[0], args...)
	var errb strings.Builder
	cmd.Stderr = &errb
	cmd.Dir = scratchDir()
	res := childResult{}
	if err := cmd.Start(); err != nil {
		res.exit = -1
		res.stderr = err.Error()
		return res
	}
	done := make(chan error, 1)
	go func() { done <- cmd.Wait() }()
	select {
	case err := <-done:
		if err != nil {
			res.exit = 1
			if ee, ok := err.(*exec.ExitError); ok {
				res.exit = ee.ExitCode()
			}
		}
	case <-time.After(timeout):
		cmd.Process.Kill()
		<-done
		res.timedOut = true
		res.exit = 124
	}
	res.stderr = errb.String()
	if f, err := os.Open(childOut); err == nil {
		sc := bufio.NewScanner(f)
		sc.Buffer(make([]byte, 1<<20), 1<<26)
		for sc.Scan() {
			ln := sc.Text()
			parts := strings.SplitN(ln, "\t", 3)
			if len(parts) < 2 {
				continue
			}
			switch parts[0] {
			case "T":
				if len(parts) == 3 {
					c.o.T(parts[1], parts[2])
					res.nT++
				}
			case "V":
				if len(parts) == 3 {
					c.o.V(parts[1], json.RawMessage(parts[2]))
					res.nV++
				}
			case "N":
				c.o.N(strings.Join(parts[1:], "\t"))
			case "X":
				c.o.sample(strings.Join(parts[1:], "\t"))
			case "C":
				if len(parts) == 3 {
					c.o.case_(parts[1], parts[2] == "1")
				}
			case "S":
				if len(parts) == 3 {
					switch parts[1] {
					case "cases", "distinct_nontrivial", "trace_lines", "monitor_hits":
					default:
						var n int
						fmt.Sscan(parts[2], &n)
						c.o.stat(parts[1], n)
					}
				}
			}
		}
		f.Close()
		os.Remove(childOut)
	}
	return res
}

// crashSignature extracts the Go runtime's fatal line from a dead child's stderr ("" if there is none)
func crashSignature(stderr string) string {
	for _, ln := range strings.Split(stderr, "\n") {
		if strings.HasPrefix(ln, "fatal error:") || strings.HasPrefix(ln, "panic:") {
			return strings.TrimSpace(ln)
		}
	}
	return ""
}

func (o *outw) flush() { o.w.Flush() }

// ---- goroutine dumps ---------------------------------------------------------------------------------------

func dumpAll() string {
	buf := make([]byte, 1<<20)
	for {
		n := runtime.Stack(buf, true)
		if n < len(buf) {
			return string(buf[:n])
		}
		buf = make([]byte, 2*len(buf))
	}
}

// inMutexWait: is there a goroutine whose stack contains `fn` and whose innermost Cloak-relevant frames sit in lockFrame
func inMutexWait(dump, fn, lockFrame string) bool {
	for _, g := range strings.Split(dump, "\n\n") {
		if strings.Contains(g, fn) && strings.Contains(g, lockFrame) {
			// the lock frame must be ABOVE (called from) fn: it appears earlier in the text
			if strings.Index(g, lockFrame) < strings.Index(g, fn) {
				return true
			}
		}
	}
	return false
}

func anyMutexWait(dump, fn string) bool {
	return inMutexWait(dump, fn, "sync.(*Mutex).Lock") || inMutexWait(dump, fn, "sync.(*RWMutex).RLock") || inMutexWait(dump, fn, "sync.(*RWMutex).Lock")
}

var _ = mux.EncryptionMethodPlain
