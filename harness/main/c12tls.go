//go:build verif

package main

import (
	"bytes"
	"fmt"
	"testing/synctest"
	"time"

	"github.com/cbeuw/Cloak/internal/common"
	mux "github.com/cbeuw/Cloak/internal/multiplex"
)

// C12, fault at every byte-offset class INSIDE a record: sessions run over common.TLSConn on a byte
// stream; the connection is cut after `cut` bytes of the j-th record (header / payload / tag), seen by both ends.
func c12tlsFault(c *ctx, method byte, nconn, nframes, j int, class string, side int) {
	r := c.r
	tag := fmt.Sprintf("tls-fault method=%d conns=%d frames=%d record=%d class=%s cutside=%d", method, nconn, nframes, j, class, side)
	synctest.Run(func() {
		var key [32]byte
		copy(key[:], r.bytes(32))
		var sesh [2]*mux.Session
		for i := 0; i < 2; i++ {
			ob, _ := mux.MakeObfuscator(method, key)
			sesh[i] = mux.MakeSession(9, mux.SessionConfig{Obfuscator: ob, MsgOnWireSizeLimit: 16401, InactivityTimeout: time.Hour})
		}
		var ends [2][]*bconn
		for k := 0; k < nconn; k++ {
			a, b := newBPair(fmt.Sprintf("f%d", k))
			ends[0] = append(ends[0], a)
			ends[1] = append(ends[1], b)
			sesh[0].AddConnection(common.NewTLSConn(connShim{a}))
			sesh[1].AddConnection(common.NewTLSConn(connShim{b}))
		}
		viol := func(sig string, d map[string]any) { d["tag"] = tag; c.o.V(sig, d) }
		st, err := sesh[0].OpenStream()
		if err != nil {
			viol("C12 open-refused-on-healthy-session", map[string]any{})
			return
		}
		mux.VerifSetStrategyFixed(sesh[0]) // keep the stream's frames on one connection so that "the j-th record" is well defined
		var written []byte
		for f := 0; f < nframes; f++ {
			d := r.bytes(1 + r.intn(200))
			k, _ := st.Write(d)
			written = append(written, d[:k]...)
		}
		synctest.Wait()
		// which connection carries the frames?
		ci := -1
		for k, e := range ends[0] {
			if e.pendingBytes() > 0 {
				ci = k
			}
		}
		if ci < 0 {
			return
		}
		e := ends[0][ci]
		// parse record boundaries of the pending byte stream
		e.mu.Lock()
		buf := append([]byte(nil), e.out...)
		e.mu.Unlock()
		var starts, lens []int
		for p := 0; p+5 <= len(buf); {
			l := int(buf[p+3])<<8 | int(buf[p+4])
			starts = append(starts, p)
			lens = append(lens, 5+l)
			p += 5 + l
		}
		if j >= len(starts) {
			return
		}
		var off int
		switch class {
		case "header":
			off = 1 + r.intn(4)
		case "payload":
			off = 5 + 14 + r.intn(lens[j]-5-14-8)
		case "tag":
			off = lens[j] - 1 - r.intn(8)
		case "boundary":
			off = 0
		}
		cut := starts[j] + off
		// B has a parked acceptor and, once the stream exists, a parked reader
		accCh := make(chan *mux.Stream, 1)
		go func() {
			cn, err := sesh[1].Accept()
			if err != nil {
				accCh <- nil
				return
			}
			accCh <- cn.(*mux.Stream)
		}()
		rdA := make(chan error, 1)
		go func() { _, err := st.Read(make([]byte, 10)); rdA <- err }() // A reads its own stream: nothing will come, must be released by the teardown
		synctest.Wait()
		// deliver `cut` bytes in a few segments, then the fault on both ends
		sent := 0
		for sent < cut {
			n := 1 + r.intn(cut-sent)
			e.push(n)
			sent += n
			synctest.Wait()
		}
		var got []byte
		var bst *mux.Stream
		select {
		case bst = <-accCh:
		default:
		}
		e.Close()
		e.peer.Close()
		synctest.Wait()
		if bst == nil {
			select {
			case bst = <-accCh:
			default:
				viol("C12 accept-still-blocked-after-session-close", map[string]any{})
			}
		}
		select {
		case <-rdA:
		default:
			viol("C12 read-still-blocked-after-session-close", map[string]any{"side": "A"})
			st.Close()
		}
		// the fault was seen by both ends: both sessions are down, nothing open, new streams refused
		for i := 0; i < 2; i++ {
			if !sesh[i].IsClosed() {
				viol("C12 session-not-closed-after-connection-fault", map[string]any{"side": sname(i), "state": mux.VerifSessionState(sesh[i])})
			}
			if n := mux.VerifOpenStreams(sesh[i]); n != 0 {
				viol("C12 open-stream-in-closed-session", map[string]any{"side": sname(i), "state": mux.VerifSessionState(sesh[i])})
			}
			if _, err := sesh[i].OpenStream(); err == nil {
				viol("C12 open-stream-accepted-on-closed-session", map[string]any{"side": sname(i)})
			}
		}
		// the other connections of both sessions are closed locally (the peer's ends then see EOF)
		for i := 0; i < 2; i++ {
			for k, x := range ends[i] {
				select {
				case <-x.dead:
				default:
					viol("C12 connection-left-open-after-teardown", map[string]any{"side": sname(i), "conn": k})
					x.Close()
				}
			}
		}
		// B's reader: a prefix of what was written, then the error, never a block
		if bst != nil {
			for guard := 0; guard < 10000; guard++ {
				if !mux.VerifStreamReadable(bst) {
					viol("C12 read-would-block-after-teardown", map[string]any{"side": "B"})
					bst.Close()
					break
				}
				b := make([]byte, 1+r.intn(300))
				k, err := bst.Read(b)
				if err != nil {
					break
				}
				got = append(got, b[:k]...)
			}
			if !bytes.HasPrefix(written, got) {
				viol("C12 reader-got-non-prefix", map[string]any{"got": hx(got), "written": hx(written)})
			}
			// complete records before the cut must have been delivered: j whole records
			c.o.stat("tlsfault_bytes_delivered", len(got))
		}
		synctest.Wait()
	})
	c.o.case_(tag, true)
}

func c12tls(c *ctx) {
	classes := []string{"boundary", "header", "payload", "tag"}
	maxF := 3
	if c.thorough() {
		maxF = 5
	}
	for nf := 1; nf <= maxF; nf++ {
		for j := 0; j < nf; j++ {
			for _, cl := range classes {
				for m := 0; m < 4; m++ {
					if cl == "tag" && m == 0 {
						continue // plain: the last 8 bytes are the nonce, same class as payload
					}
					c12tlsFault(c, byte(m), 1+(nf+j+m)%3, nf, j, cl, 0)
				}
			}
		}
	}
}
