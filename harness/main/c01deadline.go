//go:build verif

package main

import (
	"bytes"
	"fmt"
	"testing/synctest"
	"time"

	mux "github.com/cbeuw/Cloak/internal/multiplex"
)

// C01 with read deadlines: the byte pipe of an ordered stream (streamBufferedPipe) on a virtual clock. client.RouteUDP/RouteTCP
// and serveSession put read deadlines on the streams they serve; a deadline must not cost a byte. Seeded scripts on the REAL pipe
// inside a testing/synctest bubble: writes, reads of any size that return / time out / park and are woken by a write, a close,
// a new deadline or the pipe's own timer, deadlines set / moved / cleared / already expired, time passing across and exactly up
// to the deadline. Every step's answer, the answer of a parked read it woke and the pipe's fill are T rows for the Lean model
// (Model/StreamPipeDeadline.lean, ops `spl.*`).
// Monitor (the property's sentence only): the bytes the reader gets are exactly the bytes written, in order - nothing lost,
// duplicated or altered; with the deadline cleared, everything still buffered is delivered.

func init() { scenarios["C01dl"] = c01deadline }

func c01deadline(c *ctx) {
	n := 300
	if c.thorough() {
		n = 5000
	}
	for i := 0; i < n; i++ {
		c01deadlineScript(c, c.r.fork(), i)
	}
}

func c01deadlineScript(c *ctx, r *rng, idx int) {
	o := c.o
	nOps := 12 + r.intn(40)
	var script []string
	hit := false
	nTimeout, nWoke, nParkData := 0, 0, 0
	synctest.Run(func() {
		base := time.Now()
		now := func() int64 { return int64(time.Since(base)) }
		p := mux.Verif01NewSP()
		o.T("spl.new", "ok")
		var written, got []byte // own account
		parked := false
		report := func(sig string, extra map[string]any) {
			if hit {
				return
			}
			hit = true
			extra["script_index"], extra["ops"] = idx, script
			o.V(sig, extra)
		}
		show := func(res mux.Verif14DLRes) string {
			if res.Kind == "data" {
				return fmt.Sprintf("data n=%d h=%d", len(res.Data), fnv32(res.Data))
			}
			return res.Kind
		}
		account := func(res mux.Verif14DLRes) {
			switch res.Kind {
			case "data":
				got = append(got, res.Data...)
				if len(got) > len(written) || !bytes.Equal(got, written[:len(got)]) {
					report("C01 bytes-differ under-a-read-deadline: what the reader got is not a prefix of what was written",
						map[string]any{"got_len": len(got), "written_len": len(written), "last": hx(res.Data)})
				}
			case "timeout":
				nTimeout++
			}
		}
		woke := func() string {
			synctest.Wait()
			if !parked {
				return "-"
			}
			res, ok := p.Poll()
			if !ok {
				return "-"
			}
			parked = false
			nWoke++
			if res.Kind == "data" {
				nParkData++
			}
			account(res)
			return show(res)
		}
		state := func() string {
			pk := 0
			if parked {
				pk = 1
			}
			return fmt.Sprintf("%s now=%d parked=%d", p.State(), now(), pk)
		}
		emit := func(op, out string) {
			if len(script) < 120 {
				script = append(script, op+" -> "+out)
			}
			o.T(op, out)
		}
		for k := 0; k < nOps && !hit; k++ {
			switch x := r.intn(100); {
			case x < 30: // write
				nb := 1 + r.intn(24)
				if r.intn(10) == 0 {
					nb = 0
				}
				pl := r.bytes(nb)
				w := p.Write(pl)
				if w == "ok" {
					written = append(written, pl...)
				}
				wk := woke()
				emit(fmt.Sprintf("spl.w pl=%s", hx(pl)), fmt.Sprintf("%s woke=%s %s", w, wk, state()))
			case x < 62: // read
				if parked {
					continue
				}
				capacity := r.intn(30)
				p.StartRead(capacity)
				synctest.Wait()
				res, ok := p.Poll()
				out := "park"
				if ok {
					account(res)
					out = show(res)
				} else {
					parked = true
				}
				emit(fmt.Sprintf("spl.r cap=%d", capacity), out+" "+state())
			case x < 78: // deadline
				at := int64(-1)
				switch r.intn(6) {
				case 0:
				case 1:
					at = now() - int64(r.intn(3))*int64(r.intn(50))
					if at < 0 {
						at = 0
					}
				default:
					at = now() + 1 + int64(r.intn(200))
				}
				if at < 0 {
					p.SetDL(time.Time{})
				} else {
					p.SetDL(base.Add(time.Duration(at)))
				}
				wk := woke()
				emit(fmt.Sprintf("spl.dl at=%d", at), fmt.Sprintf("ok woke=%s %s", wk, state()))
			case x < 97: // time passes
				dt := 1 + r.intn(150)
				time.Sleep(time.Duration(dt))
				wk := woke()
				emit(fmt.Sprintf("spl.adv dt=%d", dt), fmt.Sprintf("ok woke=%s %s", wk, state()))
			default:
				p.Close()
				wk := woke()
				emit("spl.c", fmt.Sprintf("ok woke=%s %s", wk, state()))
			}
		}
		if !hit {
			p.SetDL(time.Time{})
			wk := woke()
			emit("spl.dl at=-1", fmt.Sprintf("ok woke=%s %s", wk, state()))
			for guard := 0; len(got) < len(written) && !parked && !hit && guard < 1000; guard++ {
				before := len(got)
				p.StartRead(64)
				synctest.Wait()
				res, ok := p.Poll()
				out := "park"
				if ok {
					account(res)
					out = show(res)
				} else {
					parked = true
				}
				emit("spl.r cap=64", out+" "+state())
				if len(got) == before && !hit {
					report("C01 bytes-lost after-read-deadline: with the deadline cleared a read does not return the bytes still outstanding",
						map[string]any{"result": out, "got_len": len(got), "written_len": len(written)})
				}
			}
		}
		if parked {
			p.Close()
			synctest.Wait()
			p.Poll()
		}
	})
	o.stat("deadline_scripts", 1)
	o.stat("deadline_timeouts", nTimeout)
	o.stat("deadline_parked_reads_woken", nWoke)
	o.stat("deadline_parked_reads_woken_with_data", nParkData)
	o.case_(fmt.Sprintf("deadline script %d", idx), nTimeout > 0 && nWoke > 0)
}
