//go:build verif

package main

// C16 — Usage is charged exactly once and exhausted or expired users are cut off.
// Real userPanel + bbolt store; limited users with LimitedValves. The harness adds traffic to the valves (and, in the
// `wire` part, pushes real frames through real sessions over counted in-memory connections), and calls updateUsageQueue /
// updateUsageQueueForOne / commitUpdate / CloseSession / TerminateActiveUser and admin edits in seeded interleavings,
// including two overlaps steered by VerifPoints (traffic while updateUsageQueue sits between its locks; collection and
// commit while a last-session closure sits before TerminateActiveUser). Every op is also an `acct.*` line for the Lean
// accounting model, which must predict queue contents, valve counters, active set and stored credits.

import (
	"fmt"
	"sort"
	"strings"
	"sync/atomic"

	"github.com/cbeuw/Cloak/internal/common"
	mux "github.com/cbeuw/Cloak/internal/multiplex"
	"github.com/cbeuw/Cloak/internal/server"
)

func init() { scenarios["C16"] = c16 }

type c16user struct {
	uid      int
	present  bool
	expiry   int64
	cur      *server.ActiveUser
	retired  []*server.ActiveUser
	sessions map[uint32]*mux.Session // of cur
	nextSid  uint32
	carried  [2]int64 // ghost: bytes counted into any valve of this uid (0 = rx/up, 1 = tx/down)
	granted  [2]int64 // ghost: credit granted
	dropped  [2]int64 // ghost: usage committed while the uid had no bucket
	everSeen bool
}

type c16rig struct {
	c     *ctx
	rig   *panelRig
	users map[int]*c16user
	uids  []int
	now   int64
	idx   int
}

func (g *c16rig) digest() string {
	var q []string
	for _, e := range g.rig.panel.Queue() {
		q = append(q, fmt.Sprintf("%d:%d:%d", uidNum(e.UID), e.Up, e.Down))
	}
	type a struct {
		uid int
		s   string
	}
	var as []a
	for _, u := range g.rig.panel.ActiveList() {
		v := server.VerifValve(u)
		as = append(as, a{uidNum(server.VerifUID(u)), fmt.Sprintf("%d:n%d:%d:%d", uidNum(server.VerifUID(u)), server.VerifNumSession(u), v.GetRx(), v.GetTx())})
	}
	sort.Slice(as, func(i, j int) bool { return as[i].uid < as[j].uid })
	var ss []string
	for _, x := range as {
		ss = append(ss, x.s)
	}
	// queue entries are sorted by raw uid bytes = numeric order for our uids
	return fmt.Sprintf("q=[%s] act=[%s]", strings.Join(q, ","), strings.Join(ss, ","))
}

func (g *c16rig) stored(u *c16user) (up, down int64, ok bool) { return g.rig.credits(u.uid) }

// the property's first clause, checked after every operation: never charged more than carried
func (g *c16rig) checkAtMost(after string) {
	for _, uid := range g.uids {
		u := g.users[uid]
		up, down, ok := g.stored(u)
		if !ok {
			continue
		}
		st := [2]int64{up, down}
		for d := 0; d < 2; d++ {
			if u.granted[d]-st[d] > u.carried[d] {
				g.c.o.V("C16 charged more than carried (or charged to another user)", map[string]any{"script": g.idx, "after": after, "uid": uid,
					"direction": []string{"up", "down"}[d], "granted": u.granted[d], "stored": st[d], "carried": u.carried[d]})
			}
		}
	}
}

func (g *c16rig) valvesZero(u *c16user) bool {
	recs := append([]*server.ActiveUser{}, u.retired...)
	if u.cur != nil {
		recs = append(recs, u.cur)
	}
	for _, r := range recs {
		v := server.VerifValve(r)
		if v.GetRx() != 0 || v.GetTx() != 0 {
			return false
		}
	}
	return true
}

func (g *c16rig) put(u *c16user, up, down, expiry int64) {
	oldUp, oldDown, ok := g.stored(u)
	if !ok {
		oldUp, oldDown = 0, 0
	}
	g.rig.putUser(u.uid, 1000, up, down, expiry)
	u.granted[0] += up - oldUp
	u.granted[1] += down - oldDown
	u.present, u.expiry, u.everSeen = true, expiry, true
	g.c.o.T(fmt.Sprintf("acct.put uid=%d upc=%d downc=%d exp=%d", u.uid, up, down, expiry), "ok")
}

func (g *c16rig) getLine(u *c16user) {
	up, down, ok := g.stored(u)
	out := "absent"
	if ok {
		out = fmt.Sprintf("up=%d down=%d", up, down)
	}
	g.c.o.T(fmt.Sprintf("acct.get uid=%d", u.uid), out)
}

// noteRetired: bookkeeping after the implementation may have terminated users
func (g *c16rig) syncActive() {
	for _, uid := range g.uids {
		u := g.users[uid]
		cur := g.rig.panel.ActiveRecord(uidBytes(uid))
		if u.cur != nil && cur != u.cur {
			u.retired = append(u.retired, u.cur)
			u.cur = nil
			u.sessions = map[uint32]*mux.Session{}
		}
		if cur != nil && u.cur == nil {
			u.cur = cur
		}
	}
}

func (g *c16rig) commit() {
	o := g.c.o
	before := g.rig.panel.Queue()
	prevRec := map[int]*server.ActiveUser{}
	prevSess := map[int]map[uint32]*mux.Session{}
	for _, e := range before {
		uid := uidNum(e.UID)
		u := g.users[uid]
		prevRec[uid] = u.cur
		if u.cur != nil {
			prevSess[uid] = server.VerifSessions(u.cur)
		}
		if !u.present {
			u.dropped[0] += e.Up
			u.dropped[1] += e.Down
		}
	}
	g.rig.panel.CommitUpdate()
	g.syncActive()
	o.T(fmt.Sprintf("acct.commit now=%d", g.now), g.digest())
	for _, e := range before {
		u := g.users[uidNum(e.UID)]
		g.getLine(u)
		// cut-off clause
		up, down, ok := g.stored(u)
		if !ok || up <= 0 || down <= 0 || u.expiry < g.now {
			bad := g.rig.panel.IsActive(uidBytes(u.uid))
			openLeft := 0
			for _, s := range prevSess[u.uid] {
				if !s.IsClosed() {
					openLeft++
				}
			}
			if prevRec[u.uid] != nil && server.VerifNumSession(prevRec[u.uid]) != 0 {
				openLeft++
			}
			if bad || openLeft > 0 {
				o.V("C16 exhausted, expired or deleted user not cut off by the upload", map[string]any{"script": g.idx, "uid": u.uid, "present": ok,
					"up": up, "down": down, "expiry": u.expiry, "now": g.now, "still_active": bad, "sessions_left_open": openLeft})
			}
		}
	}
	g.checkAtMost("commit")
}

func (g *c16rig) collect() {
	g.rig.panel.UpdateUsageQueue()
	g.c.o.T("acct.collect", g.digest())
}

func (g *c16rig) traffic(u *c16user, rec *server.ActiveUser, dir int, n int64, emit bool) {
	v := server.VerifValve(rec)
	if dir == 0 {
		v.AddRx(n)
	} else {
		v.AddTx(n)
	}
	u.carried[dir] += n
	d := []string{"rx", "tx"}[dir]
	if rec == u.cur {
		if emit {
			g.c.o.T(fmt.Sprintf("acct.traffic uid=%d dir=%s n=%d", u.uid, d, n), g.digest())
		} else {
			g.c.o.T(fmt.Sprintf("acct.traffic uid=%d dir=%s n=%d q=1", u.uid, d, n), "ok")
		}
	} else {
		g.c.o.T(fmt.Sprintf("acct.stray uid=%d dir=%s n=%d", u.uid, d, n), "ok")
	}
}

// exact-once clause at qualified quiescence: traffic stopped, one collection, one commit
func (g *c16rig) quiesce() {
	g.collect()
	g.commit()
	q := map[int]bool{}
	for _, e := range g.rig.panel.Queue() {
		if e.Up != 0 || e.Down != 0 {
			q[uidNum(e.UID)] = true
		}
	}
	for _, uid := range g.uids {
		u := g.users[uid]
		up, down, ok := g.stored(u)
		if !ok || q[uid] || !g.valvesZero(u) || u.dropped != [2]int64{} {
			continue
		}
		st := [2]int64{up, down}
		for d := 0; d < 2; d++ {
			if st[d] != u.granted[d]-u.carried[d] {
				g.c.o.V("C16 stored credit differs from granted minus carried at quiescence", map[string]any{"script": g.idx, "uid": uid,
					"direction": []string{"up", "down"}[d], "granted": u.granted[d], "carried": u.carried[d], "stored": st[d],
					"never_terminated": len(u.retired) == 0})
			}
		}
		g.c.o.stat("exact_checks", 1)
	}
}

func c16script(c *ctx, idx int) {
	o, r := c.o, c.r
	g := &c16rig{c: c, rig: newPanelRig(1000), users: map[int]*c16user{}, now: 1000, idx: idx}
	defer g.rig.close()
	defer common.SetVerifHook(nil)
	o.T("acct.new", "ok")
	nU := 1 + r.intn(3)
	for i := 1; i <= nU; i++ {
		u := &c16user{uid: i, sessions: map[uint32]*mux.Session{}, nextSid: 1}
		g.users[i] = u
		g.uids = append(g.uids, i)
		credit := func() int64 {
			if r.intn(3) == 0 {
				return int64(20 + r.intn(200)) // small: will be exhausted
			}
			return int64(100000 + r.intn(100000))
		}
		g.put(u, credit(), credit(), g.now+int64(2+r.intn(40)))
	}
	activate := func(u *c16user) {
		rec, err := g.rig.panel.GetUser(uidBytes(u.uid), false)
		out := "refused"
		if err == nil {
			out = "active"
			if u.cur == nil {
				u.cur = rec
			}
		}
		o.T(fmt.Sprintf("acct.activate uid=%d now=%d", u.uid, g.now), out)
	}
	openSess := func(u *c16user) {
		if u.cur == nil {
			return
		}
		sid := u.nextSid
		u.nextSid++
		s, ex, _, err := server.VerifGetSession(u.cur, sid, c.freshKey())
		if err != nil || ex {
			return // refused by the database (C15's business): nothing happened
		}
		if server.VerifSessionValve(s) != server.VerifValve(u.cur) {
			o.V("C16 session does not meter into its user's valve", map[string]any{"script": idx, "uid": u.uid})
		}
		u.sessions[sid] = s
		o.T(fmt.Sprintf("acct.open uid=%d", u.uid), g.digest())
	}
	anySid := func(u *c16user) (uint32, bool) {
		var sids []int
		for k := range u.sessions {
			sids = append(sids, int(k))
		}
		if len(sids) == 0 {
			return 0, false
		}
		sort.Ints(sids)
		return uint32(sids[r.intn(len(sids))]), true
	}
	closeSess := func(u *c16user) {
		sid, ok := anySid(u)
		if u.cur == nil || !ok {
			return
		}
		last := len(u.sessions) == 1
		rec := u.cur
		server.VerifCloseSession(rec, sid, "")
		delete(u.sessions, sid)
		if !last {
			o.T(fmt.Sprintf("acct.close uid=%d", u.uid), g.digest())
			return
		}
		g.syncActive()
		o.T(fmt.Sprintf("acct.close uid=%d q=1", u.uid), "ok")
		o.T(fmt.Sprintf("acct.terminate uid=%d", u.uid), g.digest())
	}
	nOps := 25 + r.intn(30)
	if c.thorough() {
		nOps = 60 + r.intn(80)
	}
	for _, uid := range g.uids {
		if r.intn(4) != 0 {
			activate(g.users[uid])
			openSess(g.users[uid])
		}
	}
	for k := 0; k < nOps; k++ {
		u := g.users[g.uids[r.intn(len(g.uids))]]
		switch r.intn(16) {
		case 0, 1, 2, 3, 4: // traffic on the current record
			if u.cur != nil {
				n := int64(r.intn(60))
				if r.intn(5) == 0 {
					n = int64(r.intn(3)) // 0, 1, 2
				}
				g.traffic(u, u.cur, r.intn(2), n, true)
			}
		case 5: // a late byte on a retired record's valve
			if len(u.retired) > 0 {
				g.traffic(u, u.retired[r.intn(len(u.retired))], r.intn(2), int64(1+r.intn(9)), true)
			}
		case 6:
			g.collect()
		case 7:
			g.commit()
		case 8:
			activate(u)
		case 9:
			openSess(u)
		case 10:
			closeSess(u)
		case 11: // admin: top-up, exhaust exactly, expiry edit, delete, re-create
			up, down, ok := g.stored(u)
			switch r.intn(6) {
			case 0:
				if ok {
					g.put(u, up+int64(r.intn(500)), down+int64(r.intn(500)), u.expiry)
				}
			case 1:
				if ok {
					g.put(u, up, down, g.now-1+int64(r.intn(3)))
				}
			case 2:
				if ok && u.present {
					g.rig.mgr.DeleteUser(uidBytes(u.uid))
					u.granted[0] -= up
					u.granted[1] -= down
					u.present = false
					o.T(fmt.Sprintf("acct.delete uid=%d", u.uid), "ok")
				}
			case 3:
				if !ok {
					g.put(u, int64(50+r.intn(1000)), int64(50+r.intn(1000)), g.now+int64(5+r.intn(30)))
				}
			default:
				// make the pending usage exhaust a credit EXACTLY (boundary of `<= 0`)
				if ok && u.cur != nil {
					v := server.VerifValve(u.cur)
					var qUp, qDown int64
					for _, e := range g.rig.panel.Queue() {
						if uidNum(e.UID) == u.uid {
							qUp, qDown = e.Up, e.Down
						}
					}
					needUp := up - qUp - v.GetRx()
					needDown := down - qDown - v.GetTx()
					if r.intn(2) == 0 && needUp > 0 && needUp < 5000 {
						g.traffic(u, u.cur, 0, needUp, true)
					} else if needDown > 0 && needDown < 5000 {
						g.traffic(u, u.cur, 1, needDown, true)
					}
				}
			}
		case 12: // updateUsageQueueForOne on the current or on a retired record
			if u.cur != nil && r.intn(2) == 0 {
				g.rig.panel.UpdateUsageQueueForOne(u.cur)
				o.T(fmt.Sprintf("acct.forOne uid=%d", u.uid), g.digest())
			} else if len(u.retired) > 0 {
				rec := u.retired[r.intn(len(u.retired))]
				v := server.VerifValve(rec)
				rx, tx := v.GetRx(), v.GetTx()
				g.rig.panel.UpdateUsageQueueForOne(rec)
				o.T(fmt.Sprintf("acct.forOld uid=%d up=%d down=%d", u.uid, rx, tx), g.digest())
			}
		case 13: // overlap: traffic arrives while updateUsageQueue sits between its two lock acquisitions
			parked, release := make(chan struct{}), make(chan struct{})
			var armed int32 = 1
			common.SetVerifHook(func(label string) {
				if label == "userPanel.updateUsageQueue:betweenLocks" && atomic.CompareAndSwapInt32(&armed, 1, 0) {
					close(parked)
					<-release
				}
			})
			done := make(chan struct{})
			go func() { g.rig.panel.UpdateUsageQueue(); close(done) }()
			<-parked
			for _, uid := range g.uids {
				x := g.users[uid]
				if x.cur != nil && r.intn(2) == 0 {
					g.traffic(x, x.cur, r.intn(2), int64(1+r.intn(40)), false)
				}
			}
			close(release)
			<-done
			common.SetVerifHook(nil)
			o.T("acct.collect", g.digest())
			o.stat("overlap_collect_traffic", 1)
		case 14: // overlap: collection (and a commit) while a last-session closure sits before TerminateActiveUser
			if u.cur == nil || len(u.sessions) != 1 {
				continue
			}
			sid, _ := anySid(u)
			rec := u.cur
			parked, release := make(chan struct{}), make(chan struct{})
			var armed int32 = 1
			common.SetVerifHook(func(label string) {
				if label == "ActiveUser.CloseSession:beforeTerminate" && atomic.CompareAndSwapInt32(&armed, 1, 0) {
					close(parked)
					<-release
				}
			})
			done := make(chan struct{})
			go func() { server.VerifCloseSession(rec, sid, ""); close(done) }()
			<-parked
			delete(u.sessions, sid)
			o.T(fmt.Sprintf("acct.close uid=%d", u.uid), g.digest())
			g.traffic(u, rec, r.intn(2), int64(1+r.intn(30)), true)
			g.collect()
			if r.intn(2) == 0 {
				g.commit()
			}
			stillCur := g.rig.panel.ActiveRecord(uidBytes(u.uid)) == rec
			rx, tx := server.VerifValve(rec).GetRx(), server.VerifValve(rec).GetTx()
			close(release)
			<-done
			common.SetVerifHook(nil)
			g.syncActive()
			if stillCur {
				o.T(fmt.Sprintf("acct.terminate uid=%d", u.uid), g.digest())
			} else {
				o.T(fmt.Sprintf("acct.forOld uid=%d up=%d down=%d", u.uid, rx, tx), g.digest())
			}
			o.stat("overlap_close_collect", 1)
		case 15:
			if r.intn(2) == 0 {
				g.now += int64(1 + r.intn(4))
				*g.rig.now = g.now
			} else if u.cur != nil && r.intn(3) == 0 {
				rec := u.cur
				g.rig.panel.Terminate(rec, "harness")
				g.syncActive()
				o.T(fmt.Sprintf("acct.terminate uid=%d", u.uid), g.digest())
			}
		}
		g.checkAtMost("op")
		if r.intn(12) == 0 {
			g.quiesce()
		}
	}
	g.quiesce()
	for _, uid := range g.uids {
		u := g.users[uid]
		g.getLine(u)
		o.T(fmt.Sprintf("acct.ghost uid=%d", uid), fmt.Sprintf("carried=%d:%d granted=%d:%d", u.carried[0], u.carried[1], u.granted[0], u.granted[1]))
	}
	terms := 0
	for _, uid := range g.uids {
		terms += len(g.users[uid].retired)
	}
	caseC(o, fmt.Sprintf("script-%d-u%d-ops%d-term%d", idx, nU, nOps, terms), terms > 0 || nU > 1)
	if idx < 2 {
		o.sample(fmt.Sprintf("script %d: %d users, %d ops, %d terminations; final %s", idx, nU, nOps, terms, g.digest()))
	}
	for _, uid := range g.uids {
		u := g.users[uid]
		for _, rec := range append(append([]*server.ActiveUser{}, u.retired...), u.cur) {
			if rec != nil {
				for _, s := range server.VerifSessions(rec) {
					s.Close()
				}
			}
		}
	}
}

func c16(c *ctx) {
	n := 40
	if c.thorough() {
		n = 1500
	}
	for i := 0; i < n; i++ {
		c16script(c, i)
	}
	for i := 0; i < n/4; i++ {
		c16wire(c, i)
	}
	ng := 2
	if c.thorough() {
		for i := 0; i < 40; i++ {
			c16race(c, i)
		}
		ng = 6
	}
	for i := 0; i < ng; i++ {
		c16gate(c, i)
	}
}
