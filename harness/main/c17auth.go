//go:build verif

package main

import (
	"sync"
	"time"

	"github.com/cbeuw/Cloak/internal/server"
	"github.com/cbeuw/Cloak/internal/server/usermanager"
)

// C17 "never loses track of a session", the window INSIDE GetSession: a connection with a new session id of an active
// user is in the user manager's authorisation query when the user's last other session closes.  The closure must wait
// for the admission (it holds the record's session lock across the query) or the admission must notice that the record
// was retired; a live session on a record the panel has dropped is lost: its usage is never uploaded, it cannot be
// terminated, and the next connection of the user makes a second record.

type gateManager struct {
	usermanager.UserManager
	mu      sync.Mutex
	armed   bool
	entered chan struct{}
	release chan struct{}
}

func (g *gateManager) AuthoriseNewSession(uid []byte, ai usermanager.AuthorisationInfo) error {
	g.mu.Lock()
	armed := g.armed
	g.armed = false
	g.mu.Unlock()
	if armed {
		close(g.entered)
		select {
		case <-g.release:
		case <-time.After(5 * time.Second):
		}
	}
	return g.UserManager.AuthoriseNewSession(uid, ai)
}

func c17AuthRace(c *ctx) {
	o := c.o
	rig := newPanelRig(1000)
	defer rig.close()
	gm := &gateManager{UserManager: rig.mgr, entered: make(chan struct{}), release: make(chan struct{})}
	rig.panel = server.VerifNewPanel(gm)
	rig.putUser(1, 5, 1<<40, 1<<40, 1<<40)
	u, err := rig.panel.GetUser(uidBytes(1), false)
	if err != nil {
		o.N("C17 auth race: GetUser failed: " + err.Error())
		return
	}
	rig.idOf(u)
	var k [32]byte
	if _, _, _, err := server.VerifGetSession(u, 1, k); err != nil {
		o.N("C17 auth race: first session refused: " + err.Error())
		return
	}
	gm.mu.Lock()
	gm.armed = true
	gm.mu.Unlock()
	aDone, bDone := make(chan struct{}), make(chan struct{})
	var aErr error
	go func() { // a connection of the same user with a NEW session id
		defer close(aDone)
		u2, err := rig.panel.GetUser(uidBytes(1), false)
		if err != nil {
			aErr = err
			return
		}
		rig.idOf(u2)
		_, _, _, aErr = server.VerifGetSession(u2, 2, k)
	}()
	select {
	case <-gm.entered:
	case <-time.After(5 * time.Second):
		o.N("C17 auth race: the authorisation query was not reached — case skipped")
		close(gm.release)
		<-aDone
		return
	}
	go func() { // the user's only other session ends
		defer close(bDone)
		server.VerifCloseSession(u, 1, "")
	}()
	time.Sleep(100 * time.Millisecond) // lets the closure run if the code lets it run
	close(gm.release)
	for _, ch := range []chan struct{}{aDone, bDone} {
		select {
		case <-ch:
		case <-time.After(20 * time.Second):
			o.N("C17 auth race: an operation did not return within 20 s (left to the deadlock cases)")
			return
		}
	}
	orph := rig.orphans()
	caseC(o, "authorisation-in-flight-vs-last-close", true)
	if len(orph) > 0 {
		e := "<nil>"
		if aErr != nil {
			e = aErr.Error()
		}
		o.V("C17 orphan-session authorisation-in-flight-vs-last-close", map[string]any{
			"schedule": []string{"user 1 active with session 1", "connection with new session id 2: GetSession inside Manager.AuthoriseNewSession (held)",
				"session 1 closes: CloseSession -> record empty -> TerminateActiveUser", "the authorisation query returns, session 2 is registered"},
			"live_sessions_outside_active_record": orph, "admission_error": e, "state": rig.stateLine()})
	}
	o.sample("auth race: " + rig.stateLine())
}
