//go:build verif

package main

import (
	"crypto/rand"
	"fmt"
	"net"
	"sync/atomic"
	"time"

	"github.com/cbeuw/Cloak/internal/client"
	"github.com/cbeuw/Cloak/internal/common"
	"github.com/cbeuw/Cloak/internal/ecdh"
	mux "github.com/cbeuw/Cloak/internal/multiplex"
	"github.com/cbeuw/Cloak/internal/server"
)

// C17 "a new connection for a user arriving while that user's last session is being closed ... without any of them
// blocking forever", through the REAL dispatchConnection and a real client handshake: the user's only session ends (its
// connection is lost), serveSession's CloseSession has decided "no session left" and is parked right before
// TerminateActiveUser (schedule point), a second connection of the same user with a new session id is dispatched, the
// termination is released. The second connection must be admitted (handshake reply, a live session owned by the
// record the panel holds). For a database user and for a bypass user (the two constructors of a record).
func c17AdmitDuringTermination(c *ctx, bypass bool) {
	o := c.o
	now := int64(1000)
	rig := newPanelRig(now)
	defer rig.close()
	world := common.WorldState{Rand: rand.Reader, Now: func() time.Time { return time.Unix(atomic.LoadInt64(rig.now), 0) }}
	pv, pub, err := ecdh.GenerateKey(rand.Reader)
	if err != nil {
		o.N("C17 admit during termination: key generation failed")
		return
	}
	sta := server.VerifC15State(rig.panel, pv, world, closingDialer{}, failingDialer{}, "test")
	uid := uidBytes(1)
	kind := "database user"
	if bypass {
		kind = "bypass user"
		var arr [16]byte
		copy(arr[:], uid)
		sta.BypassUID[arr] = struct{}{}
	} else {
		rig.putUser(1, 20, 1<<40, 1<<40, now+100000)
	}
	tag := "admission while the last session is being closed, " + kind
	handshake := func(sid uint32) (net.Conn, error) {
		a, b := net.Pipe()
		go server.VerifC15Dispatch(b, sta)
		ai := client.AuthInfo{UID: uid, SessionId: sid, ProxyMethod: "test", EncryptionMethod: mux.EncryptionMethodPlain,
			ServerPubKey: pub, MockDomain: "www.example.com", WorldState: world}
		a.SetDeadline(time.Now().Add(30 * time.Second)) // guard only
		_, err := (&client.DirectTLS{}).Handshake(a, ai)
		a.SetDeadline(time.Time{})
		return a, err
	}
	a1, err := handshake(1)
	if err != nil {
		o.N("C17 admit during termination: the first handshake failed: " + err.Error())
		return
	}
	if !pollUntil(5*time.Second, func() bool { _, has, _, _, _ := server.VerifSession(sta, uid, 1); return has }) {
		o.N("C17 admit during termination: session 1 was not registered — case skipped")
		return
	}
	parked, release := make(chan struct{}), make(chan struct{})
	var armed int32 = 1
	var lookups int64
	common.SetVerifHook(func(label string) {
		switch label {
		case "ActiveUser.CloseSession:beforeTerminate":
			if atomic.CompareAndSwapInt32(&armed, 1, 0) {
				close(parked)
				<-release
			}
		case "dispatchConnection:beforeGetSession":
			atomic.AddInt64(&lookups, 1)
		}
	})
	defer common.SetVerifHook(nil)
	a1.Close() // the only connection of session 1 is lost: the session closes, serveSession calls CloseSession
	select {
	case <-parked:
	case <-time.After(10 * time.Second):
		o.N("C17 admit during termination: the schedule point was not reached — case skipped")
		close(release)
		return
	}
	type res struct {
		conn net.Conn
		err  error
	}
	done := make(chan res, 1)
	go func() { cn, err := handshake(2); done <- res{cn, err} }()
	time.Sleep(150 * time.Millisecond) // the second connection is inside dispatchConnection, the record is retired and still in the panel
	during := atomic.LoadInt64(&lookups)
	close(release)
	select {
	case r := <-done:
		if r.err != nil {
			o.V("C17 admission-failed after the user's last session closed", map[string]any{"case": tag, "error": r.err.Error(),
				"replay": "dispatch connection 1 (session 1); lose it; CloseSession parked at ActiveUser.CloseSession:beforeTerminate; dispatch connection 2 (session 2, same user); release"})
		} else {
			_, has, _, _, _ := server.VerifSession(sta, uid, 2)
			if !has {
				o.V("C17 orphan-session admitted-during-termination", map[string]any{"case": tag,
					"what": "the second connection got its handshake reply, but the record the panel holds for the user does not own session 2"})
			}
			r.conn.Close()
		}
	case <-time.After(20 * time.Second):
		o.V("C17 admission-blocked after the user's last session closed", map[string]any{"case": tag,
			"what": "the termination has long finished; the connection that found the retired record is still inside dispatchConnection: no handshake reply, not relayed, not closed",
			"user_lookups_while_the_termination_was_parked": during, "user_lookups_total": atomic.LoadInt64(&lookups),
			"replay": "dispatch connection 1 (session 1); lose it; CloseSession parked at ActiveUser.CloseSession:beforeTerminate; dispatch connection 2 (session 2, same user); release; wait 20 s"})
	}
	o.stat("admit_during_termination_lookups_while_parked", int(during))
	o.sample(fmt.Sprintf("%s: %d user lookups by the waiting connection while the termination was parked (150 ms)", tag, during))
	caseC(o, tag, true)
}
