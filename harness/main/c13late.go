//go:build verif

package main

import (
	"fmt"
	"testing/synctest"
	"time"

	mux "github.com/cbeuw/Cloak/internal/multiplex"
)

// C13 "no two messages sent by one endpoint under one session key share a (stream id, sequence number) pair": the endpoint
// that ACCEPTS streams numbers each Stream object's frames from 0, so it must never make two Stream objects for one id.
// A frame of a stream that B closed long ago arrives late (its record was held back on a slow connection while the session
// stayed alive through another stream for many inactivity periods): it must be dropped. If B creates the stream again, the
// application serving it writes, and (id, 0), (id, 1), … go out a second time.
// (Seed C13-5 of round 6 - a timer that takes the closed-id mark out of the table after InactivityTimeout - was missed: no
// scenario let virtual time pass between a close and a late frame.)

func init() { scenarios["C13late"] = c13late }

func c13late(c *ctx) {
	n := 4
	if c.thorough() {
		n = 24
	}
	for k := 0; k < n; k++ {
		c13lateCase(c, k)
	}
}

func c13lateCase(c *ctx, k int) {
	r := c.r
	method := byte(k % 4)
	inactivity := []time.Duration{30 * time.Second, time.Second, 5 * time.Minute}[(k/4)%3]
	waitFactor := []int{3, 40, 1000}[r.intn(3)]
	closer := k % 2 // 0: B closes the stream itself; 1: A's closing frame closes it at B
	tag := fmt.Sprintf("late frame #%d method=%d inactivity=%v wait=%dx closer=%d", k, method, inactivity, waitFactor, closer)
	synctest.Run(func() {
		var key [32]byte
		copy(key[:], r.bytes(32))
		rg := newSeshPair(method, key, 2, false, false, inactivity)
		A, B := rg.S[0].sesh, rg.S[1].sesh
		flushAB := func() {
			synctest.Wait()
			for moved := true; moved; {
				moved = false
				for cn := 0; cn < 2; cn++ {
					if _, ok := rg.deliver(0, cn); ok {
						moved = true
					}
				}
				synctest.Wait()
			}
		}
		s1, err1 := A.OpenStream()
		s2, err2 := A.OpenStream()
		if err1 != nil || err2 != nil {
			panic("open")
		}
		s1.Write(r.bytes(1 + r.intn(100)))
		s2.Write(r.bytes(1 + r.intn(100)))
		flushAB()
		c1, e1 := B.Accept()
		c2, e2 := B.Accept()
		if e1 != nil || e2 != nil {
			c.o.N("C13 late: streams did not arrive - case skipped")
			return
		}
		b1, b2 := c1.(*mux.Stream), c2.(*mux.Stream)
		if mux.Verif14StreamID(b1) != mux.Verif14StreamID(s1) {
			b1, b2 = b2, b1
		}
		_ = b2
		id1 := mux.Verif14StreamID(b1)
		// the straggler: A writes once more on s1, the record stays in the network
		s1.Write(r.bytes(1 + r.intn(50)))
		synctest.Wait()
		held := [2][][]byte{}
		for cn := 0; cn < 2; cn++ {
			for {
				rec := rg.S[0].conns[cn].pop()
				if rec == nil {
					break
				}
				held[cn] = append(held[cn], rec)
			}
		}
		// B answers on the stream, then the stream is closed at B
		b1.Write(r.bytes(1 + r.intn(50)))
		if closer == 0 {
			b1.Close()
		} else {
			s1.Close()
			flushAB()
		}
		synctest.Wait()
		// a long time passes; both sessions stay alive through stream 2
		time.Sleep(time.Duration(waitFactor) * inactivity)
		synctest.Wait()
		if A.IsClosed() || B.IsClosed() {
			c.o.N("C13 late: a session closed while it had an open stream - not this scenario's subject")
			return
		}
		// the straggler arrives
		for cn := 0; cn < 2; cn++ {
			for _, rec := range held[cn] {
				select {
				case <-rg.S[1].conns[cn].dead:
				default:
					rg.S[1].conns[cn].in <- rec
				}
			}
		}
		synctest.Wait()
		// whatever B now hands to its application is served: the application writes on it
		for {
			st := mux.Verif14TryAccept(B)
			if st == nil {
				break
			}
			st.Write(r.bytes(1 + r.intn(20)))
			st.Write(r.bytes(1 + r.intn(20)))
			synctest.Wait()
		}
		// everything B has put on the wire under this session key, decoded
		type pair struct {
			sid uint32
			seq uint64
		}
		seen := map[pair]int{}
		nmsg := 0
		for cn := 0; cn < 2; cn++ {
			for {
				rec := rg.S[1].conns[cn].pop()
				if rec == nil {
					break
				}
				sid, seq, _, _, err := mux.Verif14Decode(A, rec)
				if err != nil {
					continue
				}
				nmsg++
				p := pair{sid, seq}
				seen[p]++
				if seen[p] == 2 {
					c.o.V("C13 nonce-reused stream-recreated-after-close: an endpoint sent two messages with the same (stream id, sequence number) under one session key",
						map[string]any{"tag": tag, "stream": sid, "seq": seq, "closed_stream": id1,
							"replay": fmt.Sprintf("session pair, 2 connections, InactivityTimeout %v: A opens streams 1 and 2 and writes on both; B accepts both, writes on stream %d, the stream is closed at B (closer=%d); a further frame of A for that stream is held back; %d inactivity periods pass with stream 2 open; the held frame arrives; B's application writes on whatever Accept hands out", inactivity, id1, closer, waitFactor)})
				}
			}
		}
		c.o.stat("late_messages_decoded", nmsg)
		A.Close()
		B.Close()
		rg.propagate()
		synctest.Wait()
	})
	c.o.case_(tag, true)
}
