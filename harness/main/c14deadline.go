//go:build verif

package main

import (
	"bytes"
	"fmt"
	"testing/synctest"
	"time"

	mux "github.com/cbeuw/Cloak/internal/multiplex"
)

// C14 with read deadlines. client.RouteUDP sets a read deadline on every stream it serves and refreshes it on every datagram,
// so every datagram of datagram mode passes a pipe with a deadline. Seeded scripts on the REAL datagramBufferedPipe inside a
// testing/synctest bubble (virtual clock): writes (data, empty, closing), reads that return at once, time out, or park and are
// woken by a write / close / new deadline / the pipe's own timer, deadline set / moved / cleared / already expired, passages of
// time across and up to the deadline. Every step's answer, the answer of a parked read it woke, and the pipe's queue are T rows
// for the Lean model (Model/PipeDeadline.lean, ops `pdl.*`).
// Monitor (the property's sentence only): each datagram accepted by a write is delivered to a reader at most once, whole and
// unaltered, in order, and - after the deadline is cleared - everything still outstanding is delivered.

func init() { scenarios["C14dl"] = c14deadline }

func c14deadline(c *ctx) {
	n := 400
	if c.thorough() {
		n = 6000
	}
	for i := 0; i < n; i++ {
		c14deadlineScript(c, c.r.fork(), i)
	}
}

func c14deadlineScript(c *ctx, r *rng, idx int) {
	o := c.o
	nOps := 12 + r.intn(40)
	var script []string
	hit := false
	nTimeout, nWoke, nParkData := 0, 0, 0
	synctest.Run(func() {
		base := time.Now()
		now := func() int64 { return int64(time.Since(base)) }
		p := mux.Verif14NewDL()
		o.T("pdl.new", "ok")
		var outstanding [][]byte // own account: accepted by a write, not yet returned by a read
		parked := false
		report := func(sig string, extra map[string]any) {
			if hit {
				return
			}
			hit = true
			extra["script_index"], extra["ops"] = idx, script
			o.V(sig, extra)
		}
		show := func(res mux.Verif14DLRes) string {
			if res.Kind == "data" {
				return fmt.Sprintf("data n=%d h=%d", len(res.Data), fnv32(res.Data))
			}
			return res.Kind
		}
		account := func(res mux.Verif14DLRes) {
			switch res.Kind {
			case "data":
				if len(outstanding) == 0 || !bytes.Equal(outstanding[0], res.Data) {
					report("C14 read returned something that is not one whole written datagram (merged/split/truncated/duplicated) under-a-read-deadline",
						map[string]any{"got": hx(res.Data), "outstanding": hxs(outstanding)})
					return
				}
				outstanding = outstanding[1:]
			case "timeout":
				nTimeout++
			}
		}
		// after an operation: did a parked read return?
		woke := func() string {
			synctest.Wait()
			if !parked {
				return "-"
			}
			res, ok := p.Poll()
			if !ok {
				return "-"
			}
			parked = false
			nWoke++
			if res.Kind == "data" {
				nParkData++
			}
			account(res)
			return show(res)
		}
		state := func() string {
			pk := 0
			if parked {
				pk = 1
			}
			return fmt.Sprintf("%s now=%d parked=%d", p.State(), now(), pk)
		}
		emit := func(op, out string) {
			if len(script) < 120 {
				script = append(script, op+" -> "+out)
			}
			o.T(op, out)
		}
		closed := false
		serial := 0
		for k := 0; k < nOps && !hit; k++ {
			switch x := r.intn(100); {
			case x < 30: // write
				nb := 1 + r.intn(24)
				if r.intn(10) == 0 {
					nb = 0
				}
				pl := r.bytes(nb)
				if nb > 0 {
					pl[0] = byte(serial)
					serial++
				}
				closing := uint8(0)
				if r.intn(40) == 0 {
					closing = uint8(1 + r.intn(2))
				}
				w := p.Write(closing, pl)
				if w == "ok" {
					outstanding = append(outstanding, pl)
				}
				if w == "close" {
					closed = true
				}
				wk := woke()
				emit(fmt.Sprintf("pdl.w closing=%d pl=%s", closing, hx(pl)), fmt.Sprintf("%s woke=%s %s", w, wk, state()))
			case x < 62: // read
				if parked {
					continue
				}
				capacity := r.intn(30)
				if len(outstanding) > 0 {
					h := len(outstanding[0])
					switch r.intn(5) {
					case 0:
						if h > 0 {
							capacity = h - 1
						}
					case 1:
						capacity = h
					default:
						capacity = h + r.intn(8)
					}
				}
				p.StartRead(capacity)
				synctest.Wait()
				res, ok := p.Poll()
				out := "park"
				if ok {
					account(res)
					out = show(res)
				} else {
					parked = true
				}
				emit(fmt.Sprintf("pdl.r cap=%d", capacity), out+" "+state())
			case x < 78: // deadline
				at := int64(-1)
				switch r.intn(6) {
				case 0: // clear
				case 1: // already past or exactly now
					at = now() - int64(r.intn(3))*int64(r.intn(50))
					if at < 0 {
						at = 0
					}
				default:
					at = now() + 1 + int64(r.intn(200))
				}
				if at < 0 {
					p.SetDL(time.Time{})
				} else {
					p.SetDL(base.Add(time.Duration(at)))
				}
				wk := woke()
				emit(fmt.Sprintf("pdl.dl at=%d", at), fmt.Sprintf("ok woke=%s %s", wk, state()))
			case x < 97: // time passes
				dt := 1 + r.intn(150)
				time.Sleep(time.Duration(dt))
				wk := woke()
				emit(fmt.Sprintf("pdl.adv dt=%d", dt), fmt.Sprintf("ok woke=%s %s", wk, state()))
			default: // local close
				p.Close()
				closed = true
				wk := woke()
				emit("pdl.c", fmt.Sprintf("ok woke=%s %s", wk, state()))
			}
		}
		// the end: no deadline any more; whatever is outstanding must come out, whole and in order
		if !hit {
			p.SetDL(time.Time{})
			wk := woke()
			emit("pdl.dl at=-1", fmt.Sprintf("ok woke=%s %s", wk, state()))
			for guard := 0; len(outstanding) > 0 && !parked && !hit && guard < 1000; guard++ {
				before := len(outstanding)
				p.StartRead(64)
				synctest.Wait()
				res, ok := p.Poll()
				out := "park"
				if ok {
					account(res)
					out = show(res)
				} else {
					parked = true
				}
				emit("pdl.r cap=64", out+" "+state())
				if len(outstanding) == before && !hit {
					report("C14 accepted-datagram-not-delivered after-read-deadline: with the deadline cleared a read does not return the next outstanding datagram",
						map[string]any{"result": out, "outstanding": hxs(outstanding)})
				}
			}
		}
		// leave no goroutine behind in the bubble
		if parked {
			p.Close()
			synctest.Wait()
			p.Poll()
		}
		_ = closed
	})
	o.stat("deadline_scripts", 1)
	o.stat("deadline_timeouts", nTimeout)
	o.stat("deadline_parked_reads_woken", nWoke)
	o.stat("deadline_parked_reads_woken_with_data", nParkData)
	o.case_(fmt.Sprintf("deadline script %d", idx), nTimeout > 0 && nWoke > 0)
}
