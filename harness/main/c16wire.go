//go:build verif

package main

// C16, wire part: a real client Session and the user's real server Session joined by a counted in-memory connection;
// request/reply exchanges of seeded sizes through real streams. "Volume carried" = what the counting connection saw.
// Monitor: the user's valve shows exactly those bytes (rx = bytes read from the client, tx = bytes written to it),
// and after one collection + one commit the stored credits went down by exactly those amounts, upload from UpCredit,
// download from DownCredit.

import (
	"fmt"
	"io"
	"net"
	"sync/atomic"
	"time"

	mux "github.com/cbeuw/Cloak/internal/multiplex"
	"github.com/cbeuw/Cloak/internal/server"
)

type countConn struct {
	net.Conn
	rd, wr int64
}

func (c *countConn) Read(b []byte) (int, error) {
	n, err := c.Conn.Read(b)
	atomic.AddInt64(&c.rd, int64(n))
	return n, err
}
func (c *countConn) Write(b []byte) (int, error) {
	n, err := c.Conn.Write(b)
	atomic.AddInt64(&c.wr, int64(n))
	return n, err
}

func within(d time.Duration, f func()) bool {
	done := make(chan struct{})
	go func() { f(); close(done) }()
	select {
	case <-done:
		return true
	case <-time.After(d):
		return false
	}
}

func c16wire(c *ctx, idx int) {
	o, r := c.o, c.r
	g := &c16rig{c: c, rig: newPanelRig(1000), users: map[int]*c16user{}, now: 1000, idx: 1000 + idx}
	defer g.rig.close()
	o.T("acct.new", "ok")
	u := &c16user{uid: 1, sessions: map[uint32]*mux.Session{}, nextSid: 1}
	g.users[1] = u
	g.uids = []int{1}
	g.put(u, 10_000_000, 20_000_000, 5000)
	rec, err := g.rig.panel.GetUser(uidBytes(1), false)
	if err != nil {
		o.N("wire: GetUser failed: " + err.Error())
		return
	}
	u.cur = rec
	o.T("acct.activate uid=1 now=1000", "active")
	key := c.freshKey()
	srv, _, _, err := server.VerifGetSession(rec, 1, key)
	if err != nil {
		o.N("wire: GetSession failed: " + err.Error())
		return
	}
	u.sessions[1] = srv
	o.T("acct.open uid=1", g.digest())
	obfs, _ := mux.MakeObfuscator(mux.EncryptionMethodPlain, key)
	cli := mux.MakeSession(1, mux.SessionConfig{Obfuscator: obfs, MsgOnWireSizeLimit: 16401, InactivityTimeout: 1000 * time.Hour})
	a, b := net.Pipe()
	cc := &countConn{Conn: b}
	srv.AddConnection(cc)
	cli.AddConnection(a)
	var lastRd, lastWr int64
	report := func(what string) {
		rd, wr := atomic.LoadInt64(&cc.rd), atomic.LoadInt64(&cc.wr)
		v := server.VerifValve(rec)
		u.carried[0] += rd - lastRd
		u.carried[1] += wr - lastWr
		o.T(fmt.Sprintf("acct.traffic uid=1 dir=rx n=%d q=1", rd-lastRd), "ok")
		o.T(fmt.Sprintf("acct.traffic uid=1 dir=tx n=%d", wr-lastWr), g.digest())
		lastRd, lastWr = rd, wr
		_ = v
	}
	exchanges := 2 + r.intn(4)
	okAll := true
	for e := 0; e < exchanges && okAll; e++ {
		req := r.bytes(1 + r.intn(3000))
		rep := r.bytes(1 + r.intn(5000))
		okAll = within(20*time.Second, func() {
			cs, err := cli.OpenStream()
			if err != nil {
				okAll = false
				return
			}
			go func() { cs.Write(req) }()
			ss, err := srv.Accept()
			if err != nil {
				okAll = false
				return
			}
			got := make([]byte, len(req))
			if _, err := io.ReadFull(ss, got); err != nil {
				okAll = false
				return
			}
			wrote := make(chan struct{})
			go func() { ss.Write(rep); close(wrote) }()
			back := make([]byte, len(rep))
			if _, err := io.ReadFull(cs, back); err != nil {
				okAll = false
				return
			}
			<-wrote
		})
		if !okAll {
			o.N(fmt.Sprintf("wire %d: exchange %d did not complete — no verdict for this part", idx, e))
			break
		}
		if r.intn(2) == 0 {
			report("exchange")
			if r.intn(2) == 0 {
				g.collect()
			}
		}
	}
	if !okAll {
		return
	}
	report("exchanges")
	// the metering clause, directly: the valve plus what was already collected equals what crossed the connection
	v := server.VerifValve(rec)
	var qUp, qDown int64
	for _, e := range g.rig.panel.Queue() {
		qUp, qDown = qUp+e.Up, qDown+e.Down
	}
	if v.GetRx()+qUp != lastRd || v.GetTx()+qDown != lastWr {
		o.V("C16 bytes crossing the connection pool are not metered exactly", map[string]any{"wire_script": idx, "exchanges": exchanges,
			"read_from_client": lastRd, "metered_rx": v.GetRx() + qUp, "written_to_client": lastWr, "metered_tx": v.GetTx() + qDown})
	}
	g.quiesce()
	up, down, _ := g.stored(u)
	if up != 10_000_000-u.carried[0] || down != 20_000_000-u.carried[1] {
		o.V("C16 stored credit differs from granted minus carried at quiescence", map[string]any{"wire_script": idx, "up_credit": up, "down_credit": down,
			"carried_up": u.carried[0], "carried_down": u.carried[1], "initial": []int64{10_000_000, 20_000_000}})
	}
	caseC(o, fmt.Sprintf("wire-%d-x%d-rx%d-tx%d", idx, exchanges, lastRd, lastWr), true)
	if idx == 0 {
		o.sample(fmt.Sprintf("wire 0: %d exchanges, %d bytes from client, %d bytes to client, credits now %d / %d", exchanges, lastRd, lastWr, up, down))
	}
	o.stat("wire_bytes", int(lastRd+lastWr))
	cli.Close()
	srv.Close()
}

// c16race (thorough tier / search): commitUpdate loops against traffic + updateUsageQueueForOne loops (never against
// updateUsageQueue: that overlap is C17's lock-order finding) — nothing is linearised, only the exact-once clause is
// evaluated at the final quiescence. Finds a queue reset that is not atomic with the snapshot.
func c16race(c *ctx, idx int) {
	o, r := c.o, c.r
	g := &c16rig{c: c, rig: newPanelRig(1000), users: map[int]*c16user{}, now: 1000, idx: 2000 + idx}
	defer g.rig.close()
	const init = int64(1) << 40
	rig := g.rig
	rig.putUser(1, 10, init, init, 1<<40)
	rec, err := rig.panel.GetUser(uidBytes(1), false)
	if err != nil {
		return
	}
	if _, _, _, err := server.VerifGetSession(rec, 1, c.freshKey()); err != nil {
		return
	}
	iters := 3000
	var carried [2]int64
	done := make(chan struct{})
	go func() {
		for i := 0; i < iters; i++ {
			rig.panel.CommitUpdate()
		}
		close(done)
	}()
	rr := r.fork()
	v := server.VerifValve(rec)
	for i := 0; i < iters; i++ {
		n := int64(1 + rr.intn(9))
		if rr.intn(2) == 0 {
			v.AddRx(n)
			carried[0] += n
		} else {
			v.AddTx(n)
			carried[1] += n
		}
		rig.panel.UpdateUsageQueueForOne(rec)
	}
	<-done
	rig.panel.UpdateUsageQueueForOne(rec)
	rig.panel.CommitUpdate()
	up, down, _ := rig.credits(1)
	caseC(o, fmt.Sprintf("race-%d", idx), true)
	if up != init-carried[0] || down != init-carried[1] {
		o.V("C16 stored credit differs from granted minus carried at quiescence", map[string]any{"race_script": idx,
			"overlap": "commitUpdate loop vs traffic+updateUsageQueueForOne loop", "iterations": iters,
			"carried_up": carried[0], "charged_up": init - up, "carried_down": carried[1], "charged_down": init - down})
	}
	for _, s := range server.VerifSessions(rec) {
		s.Close()
	}
}

// C16 exact-once, the window inside a single-user collection: `updateUsageQueueForOne` (run when a user is terminated)
// has taken the valve's counters; before it adds them to the pending usage, a periodic upload commits and swaps the
// queue.  Whatever the order inside, after one more collection and commit the stored credit must equal granted minus
// carried.  The valve's Nullify is wrapped so that a whole commitUpdate runs right after the counters were taken
// (in a goroutine with a 300 ms wait: code that holds the queue lock across the Nullify simply makes it wait).
func c16gate(c *ctx, idx int) {
	o, r := c.o, c.r
	rig := newPanelRig(1000)
	defer rig.close()
	const init = int64(1) << 40
	rig.putUser(1, 10, init, init, 1<<40)
	rec, err := rig.panel.GetUser(uidBytes(1), false)
	if err != nil {
		return
	}
	armed := false
	server.VerifWrapValve(rec, func(v mux.Valve) mux.Valve {
		return &mux.VerifGateValve{Valve: v, After: func() {
			if !armed {
				return
			}
			armed = false
			done := make(chan struct{})
			go func() { rig.panel.CommitUpdate(); close(done) }()
			select {
			case <-done:
			case <-time.After(300 * time.Millisecond):
			}
		}}
	})
	if _, _, _, err := server.VerifGetSession(rec, 1, c.freshKey()); err != nil {
		return
	}
	v := server.VerifValve(rec)
	var carried [2]int64
	add := func() {
		a, b := int64(1+r.intn(1000)), int64(1+r.intn(1000))
		v.AddRx(a)
		v.AddTx(b)
		carried[0] += a
		carried[1] += b
	}
	// something is already pending for the user, more traffic arrives, then the single-user collection with a commit inside
	add()
	rig.panel.UpdateUsageQueue()
	add()
	armed = true
	rig.panel.UpdateUsageQueueForOne(rec)
	armed = false
	time.Sleep(350 * time.Millisecond) // a commit that had to wait for the queue lock finishes
	add()
	rig.panel.UpdateUsageQueue()
	rig.panel.CommitUpdate()
	up, down, _ := rig.credits(1)
	caseC(o, fmt.Sprintf("gate-%d", idx), true)
	if up != init-carried[0] || down != init-carried[1] {
		o.V("C16 stored credit differs from granted minus carried at quiescence", map[string]any{"gate_script": idx,
			"overlap": "commitUpdate runs between updateUsageQueueForOne taking the valve's counters and adding them to the pending usage",
			"carried_up": carried[0], "charged_up": init - up, "carried_down": carried[1], "charged_down": init - down})
	}
	for _, s := range server.VerifSessions(rec) {
		s.Close()
	}
}
