//go:build verif

package usermanager

import (
	"bytes"
	"encoding/hex"
	"fmt"
	"net/http"
	"net/http/httptest"
	"strings"
	"time"

	"github.com/cbeuw/Cloak/internal/common"
	gmux "github.com/gorilla/mux"
	bolt "go.etcd.io/bbolt"
)

// VerifC18DB drives the real localManager + APIRouter on a real bbolt file (C18).
type VerifC18DB struct {
	m      *localManager
	router *APIRouter
}

// VerifC18OpenDB opens (or reopens) the database at path. now() is the manager's clock.
func VerifC18OpenDB(path string, now func() time.Time, noSync bool) (*VerifC18DB, error) {
	m, err := MakeLocalManager(path, common.WorldState{Now: now})
	if err != nil {
		return nil, err
	}
	m.db.NoSync = noSync
	return &VerifC18DB{m: m, router: APIRouterOf(m)}, nil
}

func (v *VerifC18DB) Manager() UserManager { return v.m }
func (v *VerifC18DB) Close() error         { return v.m.Close() }

// Serve sends one request through the real router. A panic is reported, never swallowed.
func (v *VerifC18DB) Serve(method, target string, body []byte) (status int, resp []byte, panicked string) {
	rec := httptest.NewRecorder()
	req := httptest.NewRequest(method, target, bytes.NewReader(body))
	func() {
		defer func() {
			if r := recover(); r != nil {
				panicked = fmt.Sprint(r)
			}
		}()
		v.router.ServeHTTP(rec, req)
	}()
	return rec.Code, rec.Body.Bytes(), panicked
}

// CallHandler calls a handler directly with the given {UID} path variable (the router never yields an empty one).
func (v *VerifC18DB) CallHandler(kind string, uidVar string, body []byte) (status int, resp []byte, panicked string) {
	rec := httptest.NewRecorder()
	method := map[string]string{"post": "POST", "get": "GET", "del": "DELETE"}[kind]
	req := httptest.NewRequest(method, "/admin/users/x", bytes.NewReader(body))
	req = gmux.SetURLVars(req, map[string]string{"UID": uidVar})
	func() {
		defer func() {
			if r := recover(); r != nil {
				panicked = fmt.Sprint(r)
			}
		}()
		var h http.HandlerFunc
		switch kind {
		case "post":
			h = v.router.writeUserInfoHlr
		case "get":
			h = v.router.getUserInfoHlr
		case "del":
			h = v.router.deleteUserHlr
		}
		h(rec, req)
	}()
	return rec.Code, rec.Body.Bytes(), panicked
}

var verifKeys = []string{"SessionsCap", "UpRate", "DownRate", "UpCredit", "DownCredit", "ExpiryTime"}

// Dump reads the raw content of the database (bbolt only, none of Cloak's decoding):
// [uidhex{cap,up,down,upc,downc,exp};...] in key order, "-" for an absent key, "+k" for any unexpected key.
func (v *VerifC18DB) Dump() string {
	var items []string
	_ = v.m.db.View(func(tx *bolt.Tx) error {
		return tx.ForEach(func(name []byte, b *bolt.Bucket) error {
			vals := make([]string, 0, 6)
			for _, k := range verifKeys {
				x := b.Get([]byte(k))
				if x == nil {
					vals = append(vals, "-")
				} else {
					vals = append(vals, hex.EncodeToString(x))
				}
			}
			n := 0
			_ = b.ForEach(func(k, _ []byte) error { n++; return nil })
			extra := ""
			for _, x := range vals {
				if x != "-" {
					n--
				}
			}
			if n != 0 {
				extra = fmt.Sprintf(",+%d", n)
			}
			items = append(items, hex.EncodeToString(name)+"{"+strings.Join(vals, ",")+extra+"}")
			return nil
		})
	})
	return "[" + strings.Join(items, ";") + "]"
}
