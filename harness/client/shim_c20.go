//go:build verif

package client

// VerifSsvToJson exposes the option-string front end (C20).
func VerifSsvToJson(ssv string) []byte { return ssvToJson(ssv) }

// VerifTransport exposes the unexported fields of a processed TransportConfig.
func VerifTransport(t TransportConfig) (mode, wsUrl, browserName string) {
	switch t.browser {
	case chrome:
		browserName = "chrome"
	case firefox:
		browserName = "firefox"
	case safari:
		browserName = "safari"
	default:
		browserName = "?"
	}
	return t.mode, t.wsUrl, browserName
}
