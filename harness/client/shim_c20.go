//go:build verif

package client

import (
	"fmt"
	"net"
)

// VerifC20SsvToJson exposes the option-string front end (C20).
func VerifC20SsvToJson(ssv string) []byte { return ssvToJson(ssv) }

// VerifC20Transport exposes the unexported fields of a processed TransportConfig.
func VerifC20Transport(t TransportConfig) (mode, wsUrl, browserName string) {
	switch t.browser {
	case chrome:
		browserName = "chrome"
	case firefox:
		browserName = "firefox"
	case safari:
		browserName = "safari"
	default:
		browserName = "?"
	}
	return t.mode, t.wsUrl, browserName
}

// VerifC20FirstPayload runs what every transport runs first when a connection is made with the processed
// configuration (makeAuthenticationPayload) and reports a panic instead of dying.
func VerifC20FirstPayload(ai AuthInfo) (panicked string) {
	defer func() {
		if r := recover(); r != nil {
			panicked = fmt.Sprint(r)
		}
	}()
	_, _ = makeAuthenticationPayload(ai)
	return ""
}

// VerifC20ClientHello runs the real Handshake of the transport the processed configuration selects against a pipe
// and returns the first TLS record the client sends (the ClientHello); the peer then hangs up.
func VerifC20ClientHello(t TransportConfig, ai AuthInfo) []byte {
	tr := t.CreateTransport()
	if tr == nil {
		return nil
	}
	cli, srv := net.Pipe()
	done := make(chan struct{})
	go func() {
		defer close(done)
		defer cli.Close()
		defer func() { _ = recover() }()
		_, _ = tr.Handshake(cli, ai)
	}()
	var rec []byte
	buf := make([]byte, 4096)
	for {
		n, err := srv.Read(buf)
		rec = append(rec, buf[:n]...)
		if err != nil || (len(rec) >= 5 && len(rec) >= 5+int(rec[3])<<8+int(rec[4])) {
			break
		}
	}
	srv.Close()
	<-done
	return rec
}
