//go:build verif

package client

// VerifC20SsvToJson exposes the option-string front end (C20).
func VerifC20SsvToJson(ssv string) []byte { return ssvToJson(ssv) }

// VerifC20Transport exposes the unexported fields of a processed TransportConfig.
func VerifC20Transport(t TransportConfig) (mode, wsUrl, browserName string) {
	switch t.browser {
	case chrome:
		browserName = "chrome"
	case firefox:
		browserName = "firefox"
	case safari:
		browserName = "safari"
	default:
		browserName = "?"
	}
	return t.mode, t.wsUrl, browserName
}
