//go:build verif

package client

// Shims for the handshake properties (C06, C07, C08): reach the client's unexported
// makeAuthenticationPayload / buildClientHello and construct transports with a chosen browser.

import "github.com/cbeuw/Cloak/internal/common"

type VerifPayload struct {
	Rand   [32]byte
	Ct     [64]byte
	Shared [32]byte
}

// VerifMakePayload runs the real makeAuthenticationPayload.
func VerifMakePayload(ai AuthInfo) VerifPayload {
	p, s := makeAuthenticationPayload(ai)
	return VerifPayload{Rand: p.randPubKey, Ct: p.ciphertextWithTag, Shared: s}
}

// VerifClientHello builds the ClientHello record exactly as DirectTLS.Handshake does
// (browser: 0 chrome, 1 firefox, 2 safari).
func VerifClientHello(br int, p VerifPayload, serverName string) ([]byte, error) {
	fields := clientHelloFields{
		random:         p.Rand[:],
		sessionId:      p.Ct[0:32],
		x25519KeyShare: p.Ct[32:64],
		serverName:     serverName,
	}
	ch, err := buildClientHello(browser(br), fields)
	if err != nil {
		return nil, err
	}
	return common.AddRecordLayer(ch, common.Handshake, common.VersionTLS11), nil
}

func VerifNewDirectTLS(br int) *DirectTLS { return &DirectTLS{browser: browser(br)} }

func VerifNewWSOverTLS(wsUrl string) *WSOverTLS { return &WSOverTLS{wsUrl: wsUrl} }

func VerifRandomServerName() string { return randomServerName() }
