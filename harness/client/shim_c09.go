//go:build verif

package client

import (
	"encoding/base64"

	"github.com/cbeuw/Cloak/internal/common"
)

// VerifFirstPacketTLS composes the first packet exactly as DirectTLS.Handshake does (makeAuthenticationPayload,
// buildClientHello, AddRecordLayer) without sending it.
func VerifFirstPacketTLS(ai AuthInfo, browserIdx int) ([]byte, error) {
	payload, _ := makeAuthenticationPayload(ai)
	fields := clientHelloFields{
		random:         payload.randPubKey[:],
		sessionId:      payload.ciphertextWithTag[0:32],
		x25519KeyShare: payload.ciphertextWithTag[32:64],
		serverName:     ai.MockDomain,
	}
	ch, err := buildClientHello(browser(browserIdx), fields)
	if err != nil {
		return nil, err
	}
	return common.AddRecordLayer(ch, common.Handshake, common.VersionTLS11), nil
}

// VerifHelloWithFields builds a genuine browser ClientHello whose Cloak fields are the given (arbitrary) bytes.
func VerifHelloWithFields(random, sessionId, keyShare []byte, serverName string, browserIdx int) ([]byte, error) {
	ch, err := buildClientHello(browser(browserIdx), clientHelloFields{random: random, sessionId: sessionId, x25519KeyShare: keyShare, serverName: serverName})
	if err != nil {
		return nil, err
	}
	return common.AddRecordLayer(ch, common.Handshake, common.VersionTLS11), nil
}

// VerifHiddenHeader is the value of the `hidden` header WSOverTLS.Handshake would send.
func VerifHiddenHeader(ai AuthInfo) string {
	payload, _ := makeAuthenticationPayload(ai)
	return base64.StdEncoding.EncodeToString(append(payload.randPubKey[:], payload.ciphertextWithTag[:]...))
}
