//go:build verif

package client

// Shim for the connector scenario (C06mk): build a RemoteConnConfig whose TransportConfig has the unexported mode /
// browser set, and read a transport's underlying connection back.

import "net"

func VerifRemoteConnConfig(mode string, br int, wsUrl string, numConn int, singleplex bool, addr string) RemoteConnConfig {
	return RemoteConnConfig{Singleplex: singleplex, NumConn: numConn, RemoteAddr: addr,
		Transport: TransportConfig{mode: mode, wsUrl: wsUrl, browser: browser(br)}}
}

// VerifUnderlying returns the connection a DirectTLS transport was given in Handshake (nil before that).
func VerifUnderlying(c net.Conn) net.Conn {
	if t, ok := c.(*DirectTLS); ok && t.TLSConn != nil {
		return t.TLSConn.Conn
	}
	return nil
}
