//go:build verif

package client

func VerifC10AppDataMaxLength() int { return appDataMaxLength }
