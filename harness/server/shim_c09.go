//go:build verif

package server

import (
	"io"
	"net"
	"time"
)

// VerifReadFirstPacket runs the real readFirstPacket on a fresh first-packet buffer and canonicalises its results.
func VerifReadFirstPacket(conn net.Conn) (n int, transport string, redirOnErr bool, errKind string) {
	buf := make([]byte, firstPacketSize)
	i, t, r, err := readFirstPacket(conn, buf, 15*time.Second)
	switch t.(type) {
	case nil:
		transport = "none"
	case TLS:
		transport = "tls"
	case WebSocket:
		transport = "ws"
	default:
		transport = "?"
	}
	switch {
	case err == nil:
		errKind = "ok"
	case err == io.ErrShortBuffer:
		errKind = "shortbuf"
	case err == ErrUnrecognisedProtocol:
		errKind = "unrec"
	default:
		errKind = "read"
	}
	return i, transport, r, errKind
}

// VerifDispatch is the real per-connection entry point of the server (what Serve runs for each accepted conn).
func VerifDispatch(conn net.Conn, sta *State) { dispatchConnection(conn, sta) }
