//go:build verif

package server

// Shims for the handshake properties (C06, C07, C08).

import (
	"io"
	"net"
	"time"

	"github.com/cbeuw/Cloak/internal/server/usermanager"
)

// VerifUsedCount is the number of entries in the replay cache.
func VerifUsedCount(sta *State) int {
	sta.usedRandomM.RLock()
	defer sta.usedRandomM.RUnlock()
	return len(sta.UsedRandom)
}

// VerifReadFirstPacket runs the real readFirstPacket.
func VerifReadFirstPacketRaw(conn net.Conn, buf []byte, timeout time.Duration) (int, Transport, bool, error) {
	return readFirstPacket(conn, buf, timeout)
}

// VerifSetManager replaces the user manager of the panel (before any connection is dispatched).
func VerifSetManager(sta *State, m usermanager.UserManager) { sta.Panel.Manager = m }

// VerifSession reports whether uid is active and has session sid; if so its key and ordering mode.
func VerifSession(sta *State, uid []byte, sid uint32) (active, has bool, key [32]byte, unordered bool, nSessions int) {
	var arr [16]byte
	copy(arr[:], uid)
	sta.Panel.activeUsersM.RLock()
	u, ok := sta.Panel.activeUsers[arr]
	sta.Panel.activeUsersM.RUnlock()
	if !ok {
		return
	}
	active = true
	u.sessionsM.RLock()
	defer u.sessionsM.RUnlock()
	nSessions = len(u.sessions)
	s, ok := u.sessions[sid]
	if !ok {
		return
	}
	has = true
	key = s.GetSessionKey()
	unordered = s.Unordered
	return
}

// VerifRespond calls a Responder obtained from AuthFirstPacket.
func VerifRespond(r Responder, conn net.Conn, key [32]byte, rnd io.Reader) (net.Conn, error) {
	return r(conn, key, rnd)
}

// VerifComposeReply runs the real composeReply.
func VerifComposeReply(sid []byte, nonce [12]byte, ek [48]byte, cert []byte) []byte {
	return composeReply(sid, nonce, ek, cert)
}

// VerifParseClientHello runs the real parseClientHello + unmarshal path of the TLS transport up to the
// point where random / session id / key share are known (no key agreement).
func VerifParseClientHello(data []byte) (random, sessionId, keyShare []byte, stage string) {
	ch, err := parseClientHello(data)
	if err != nil {
		return nil, nil, nil, "badhello"
	}
	ks, err := parseKeyShare(ch.extensions[[2]byte{0x00, 0x33}])
	if err != nil {
		return ch.random, ch.sessionId, nil, "badkeyshare"
	}
	return ch.random, ch.sessionId, ks, "ok"
}

// VerifResetReplay empties the replay cache (each variant of a bit-flip sweep must be judged on its own).
func VerifResetReplay(sta *State) {
	sta.usedRandomM.Lock()
	sta.UsedRandom = map[[32]byte]int64{}
	sta.usedRandomM.Unlock()
}

// VerifCleanerPeriod is the period of UsedRandomCleaner (replayCacheAgeLimit).
func VerifCleanerPeriod() time.Duration { return replayCacheAgeLimit }

// VerifReplayBallast registers n other clients' randoms (distinct, tagged with `tag`) as seen at unix time t: a cache
// of realistic size, so that a clean-up pass takes long enough for handshakes to arrive while it runs.
func VerifReplayBallast(sta *State, tag byte, n int, t int64) {
	sta.usedRandomM.Lock()
	var k [32]byte
	k[31] = tag
	for i := 0; i < n; i++ {
		k[0], k[1], k[2], k[3] = byte(i>>24), byte(i>>16), byte(i>>8), byte(i)
		sta.UsedRandom[k] = t
	}
	sta.usedRandomM.Unlock()
}
