//go:build verif

package server

import (
	"fmt"
	"net"

	"github.com/cbeuw/Cloak/internal/server/usermanager"
)

// the server's configuration loading (C09 target; links to C07/C06): wrappers around the unexported parsers.

// VerifParseRedirAddr runs the real parseRedirAddr; host is the String() of the resolved address.
func VerifParseRedirAddr(s string) (host, port string, err error, panicked any) {
	defer func() {
		if r := recover(); r != nil {
			panicked = r
		}
	}()
	a, p, e := parseRedirAddr(s)
	if e != nil {
		return "", "", e, nil
	}
	return a.String(), p, nil, nil
}

// VerifParseProxyBook runs the real parseProxyBook; every address is rendered as "<network> <address>".
func VerifParseProxyBook(m map[string][]string) (book map[string]string, err error, panicked any) {
	defer func() {
		if r := recover(); r != nil {
			panicked = r
		}
	}()
	b, e := parseProxyBook(m)
	if e != nil {
		return nil, e, nil
	}
	book = map[string]string{}
	for k, v := range b {
		book[k] = VerifAddrString(v)
	}
	return book, nil, nil
}

func VerifAddrString(a net.Addr) string {
	if a == nil {
		return "<nil>"
	}
	return a.Network() + " " + a.String()
}

// VerifStateView is what InitState put into the State, canonicalised.
type VerifStateView struct {
	VoidManager    bool
	ProxyKeepAlive int64 // -2: ProxyDialer is not a *net.Dialer
	RedirHost      string
	RedirPort      string
	Book           map[string]string
	Pv             []byte
	Admin          []byte
	NKeys          int
}

func VerifViewState(sta *State) (v VerifStateView) {
	_, v.VoidManager = sta.Panel.Manager.(*usermanager.Voidmanager)
	v.ProxyKeepAlive = -2
	if d, ok := sta.ProxyDialer.(*net.Dialer); ok {
		v.ProxyKeepAlive = int64(d.KeepAlive)
	}
	if sta.RedirHost != nil {
		v.RedirHost = sta.RedirHost.String()
	}
	v.RedirPort = sta.RedirPort
	v.Book = map[string]string{}
	for k, a := range sta.ProxyBook {
		v.Book[k] = VerifAddrString(a)
	}
	if p, ok := sta.StaticPv.(*[32]byte); ok {
		v.Pv = append([]byte(nil), p[:]...)
	} else {
		v.Pv = []byte(fmt.Sprintf("%T", sta.StaticPv))
	}
	v.Admin = sta.AdminUID
	v.NKeys = len(sta.BypassUID)
	return
}
