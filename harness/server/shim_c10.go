//go:build verif

package server

// C10: the hand-composed server flight, and the limit constant of this package.

func VerifC10ComposeReply(sid []byte, nonce [12]byte, enc [48]byte, cert []byte) []byte {
	return composeReply(sid, nonce, enc, cert)
}

func VerifC10AppDataMaxLength() int { return appDataMaxLength }
