//go:build verif

package server

import (
	"crypto"
	"net"

	"github.com/cbeuw/Cloak/internal/common"
)

// VerifC15State builds a server State around an existing panel, the way InitState does, without starting the
// immortal background goroutines (replay-cache cleaner, usage upload).
func VerifC15State(p *VerifPanel, pv crypto.PrivateKey, world common.WorldState, redir, proxy common.Dialer, proxyMethod string) *State {
	return &State{
		BypassUID:   make(map[[16]byte]struct{}),
		ProxyBook:   map[string]net.Addr{proxyMethod: &net.TCPAddr{IP: net.IPv4(127, 0, 0, 1), Port: 9}},
		UsedRandom:  map[[32]byte]int64{},
		RedirDialer: redir,
		ProxyDialer: proxy,
		WorldState:  world,
		StaticPv:    pv,
		RedirHost:   &net.IPAddr{IP: net.IPv4(127, 0, 0, 1)},
		RedirPort:   "80",
		Panel:       p.P,
	}
}

// VerifC15Dispatch runs the real dispatchConnection on one accepted connection.
func VerifC15Dispatch(conn net.Conn, sta *State) { dispatchConnection(conn, sta) }
