//go:build verif

package server

import (
	"errors"

	mux "github.com/cbeuw/Cloak/internal/multiplex"
	"github.com/cbeuw/Cloak/internal/server/usermanager"
)

// ---- C19: sessions of one user obtained the way the dispatcher obtains them (GetUser, then GetSession) ----

type verif19manager struct{ up, down int64 }

func (m *verif19manager) AuthenticateUser([]byte) (int64, int64, error) { return m.up, m.down, nil }
func (m *verif19manager) AuthoriseNewSession([]byte, usermanager.AuthorisationInfo) error {
	return nil
}
func (m *verif19manager) UploadStatus([]usermanager.StatusUpdate) ([]usermanager.StatusResponse, error) {
	return nil, nil
}
func (m *verif19manager) ListAllUsers() ([]usermanager.UserInfo, error) { return nil, nil }
func (m *verif19manager) GetUserInfo(UID []byte) (usermanager.UserInfo, error) {
	return usermanager.UserInfo{}, errors.New("not stored")
}
func (m *verif19manager) WriteUserInfo(usermanager.UserInfo) error { return nil }
func (m *verif19manager) DeleteUser(UID []byte) error              { return nil }

// Verif19UserSessions builds a user panel whose manager grants (upRate, downRate), and for every session id does
// what dispatchConnection does for a new connection: panel.GetUser(uid), then user.GetSession(id, config).
// It returns the sessions and the valve of each session's active-user record.
func Verif19UserSessions(upRate, downRate int64, uid []byte, ids []uint32, cfgs []mux.SessionConfig) ([]*mux.Session, []mux.Valve, error) {
	panel := MakeUserPanel(&verif19manager{upRate, downRate})
	var out []*mux.Session
	var valves []mux.Valve
	for i, id := range ids {
		user, err := panel.GetUser(uid)
		if err != nil {
			return nil, nil, err
		}
		sesh, _, err := user.GetSession(id, cfgs[i])
		if err != nil {
			return nil, nil, err
		}
		out = append(out, sesh)
		valves = append(valves, user.valve)
	}
	return out, valves, nil
}
