//go:build verif

package server

import (
	"sort"
	"time"

	mux "github.com/cbeuw/Cloak/internal/multiplex"
	"github.com/cbeuw/Cloak/internal/server/usermanager"
)

// VerifPanel drives the real userPanel / ActiveUser code from the harness (C15, C16, C17).
type VerifPanel struct{ P *userPanel }

// VerifNewPanel builds a userPanel exactly as MakeUserPanel does, except that the immortal regularQueueUpload
// goroutine is not started (the harness calls updateUsageQueue / commitUpdate itself).
func VerifNewPanel(m usermanager.UserManager) *VerifPanel {
	return &VerifPanel{&userPanel{
		Manager:          m,
		activeUsers:      make(map[[16]byte]*ActiveUser),
		usageUpdateQueue: make(map[[16]byte]*usagePair),
		uploadInterval:   1000 * time.Hour,
	}}
}

func (v *VerifPanel) GetUser(uid []byte, bypass bool) (*ActiveUser, error) {
	if bypass {
		return v.P.GetBypassUser(uid)
	}
	return v.P.GetUser(uid)
}
func (v *VerifPanel) UpdateUsageQueue()                    { v.P.updateUsageQueue() }
func (v *VerifPanel) UpdateUsageQueueForOne(u *ActiveUser) { v.P.updateUsageQueueForOne(u) }
func (v *VerifPanel) CommitUpdate() error                  { return v.P.commitUpdate() }
func (v *VerifPanel) Terminate(u *ActiveUser, why string)  { v.P.TerminateActiveUser(u, why) }
func (v *VerifPanel) IsActive(uid []byte) bool             { return v.P.isActive(uid) }

// ActiveRecord returns the record activeUsers holds for uid (nil if none).
func (v *VerifPanel) ActiveRecord(uid []byte) *ActiveUser {
	var a [16]byte
	copy(a[:], uid)
	v.P.activeUsersM.RLock()
	defer v.P.activeUsersM.RUnlock()
	return v.P.activeUsers[a]
}

func (v *VerifPanel) ActiveList() []*ActiveUser {
	v.P.activeUsersM.RLock()
	defer v.P.activeUsersM.RUnlock()
	var out []*ActiveUser
	for _, u := range v.P.activeUsers {
		out = append(out, u)
	}
	sort.Slice(out, func(i, j int) bool { return string(out[i].arrUID[:]) < string(out[j].arrUID[:]) })
	return out
}

type VerifQueueEntry struct {
	UID      [16]byte
	Up, Down int64
}

func (v *VerifPanel) Queue() []VerifQueueEntry {
	v.P.usageUpdateQueueM.Lock()
	defer v.P.usageUpdateQueueM.Unlock()
	var out []VerifQueueEntry
	for k, p := range v.P.usageUpdateQueue {
		out = append(out, VerifQueueEntry{k, *p.up, *p.down})
	}
	sort.Slice(out, func(i, j int) bool { return string(out[i].UID[:]) < string(out[j].UID[:]) })
	return out
}

// Probe reports which of the panel's two mutexes are held right now (by anybody, in any mode).
func (v *VerifPanel) Probe() (qHeld, aHeld bool) {
	if v.P.usageUpdateQueueM.TryLock() {
		v.P.usageUpdateQueueM.Unlock()
	} else {
		qHeld = true
	}
	if v.P.activeUsersM.TryLock() {
		v.P.activeUsersM.Unlock()
	} else {
		aHeld = true
	}
	return
}

func VerifProbeS(u *ActiveUser) bool {
	if u.sessionsM.TryLock() {
		u.sessionsM.Unlock()
		return false
	}
	return true
}

// VerifGetSession calls the real GetSession with a SessionConfig built the way dispatchConnection builds it
// (an obfuscator made from the connection's fresh key); it returns the key of the session actually joined.
func VerifGetSession(u *ActiveUser, sid uint32, key [32]byte) (sesh *mux.Session, existing bool, seshKey [32]byte, err error) {
	obfs, err := mux.MakeObfuscator(mux.EncryptionMethodPlain, key)
	if err != nil {
		return nil, false, seshKey, err
	}
	cfg := mux.SessionConfig{Obfuscator: obfs, Valve: nil, Unordered: false, MsgOnWireSizeLimit: appDataMaxLength,
		InactivityTimeout: 1000 * time.Hour}
	sesh, existing, err = u.GetSession(sid, cfg)
	if err != nil {
		return nil, false, seshKey, err
	}
	return sesh, existing, sesh.GetSessionKey(), nil
}

func VerifCloseSession(u *ActiveUser, sid uint32, why string) { u.CloseSession(sid, why) }
func VerifNumSession(u *ActiveUser) int                       { return u.NumSession() }
func VerifUID(u *ActiveUser) [16]byte                         { return u.arrUID }
func VerifBypass(u *ActiveUser) bool                          { return u.bypass }
func VerifValve(u *ActiveUser) mux.Valve                      { return u.valve }

func VerifSessions(u *ActiveUser) map[uint32]*mux.Session {
	u.sessionsM.RLock()
	defer u.sessionsM.RUnlock()
	out := make(map[uint32]*mux.Session, len(u.sessions))
	for k, s := range u.sessions {
		out[k] = s
	}
	return out
}

// VerifSessionValve: the valve a session meters into (must be its user's).
func VerifSessionValve(s *mux.Session) mux.Valve { return s.Valve }

// VerifWrapValve replaces the record's valve by a wrapper of it (sessions created afterwards meter into the wrapper).
func VerifWrapValve(u *ActiveUser, wrap func(mux.Valve) mux.Valve) { u.valve = wrap(u.valve) }

// HoldActiveUsers takes the panel's activeUsersM (write mode) and returns the function that releases it: connections
// dispatched meanwhile queue up at the panel and are let in together.
func (v *VerifPanel) HoldActiveUsers() (release func()) {
	v.P.activeUsersM.Lock()
	return v.P.activeUsersM.Unlock
}
