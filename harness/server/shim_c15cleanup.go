//go:build verif

package server

// VerifRefusedCleanup performs, on the real ActiveUser, the statement dispatchConnection executes with the user record
// when GetSession REFUSED the connection presenting sid (any error but "retired"), so that the harness can place that
// statement anywhere in a schedule (there is no schedule point between GetSession's return and it).
// Which statement that is depends on the tree and is an extracted fact (Gen.Panel.refusedCleanupCall):
//   - a tree with the C15 repair: user.terminateIfEmpty()
//   - before it:                  user.CloseSession(ci.SessionId, "")
// The assertion below is resolved at run time, so this file builds against either tree; the Lean model takes the same
// branch from the extracted fact and every step's outcome is compared (a shim that ran the other statement diverges).
func VerifRefusedCleanup(u *ActiveUser, sid uint32) string {
	if h, ok := any(u).(interface{ terminateIfEmpty() }); ok {
		h.terminateIfEmpty()
		return "terminateIfEmpty"
	}
	u.CloseSession(sid, "")
	return "CloseSession"
}
