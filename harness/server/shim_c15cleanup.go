//go:build verif

package server

import (
	"os"
	"reflect"
	"regexp"
	"runtime"
	"sync"
)

// The statement dispatchConnection executes with the user record when GetSession REFUSED the connection (any error but
// "retired"). There is no schedule point between GetSession's return and that statement, so the harness calls the statement
// itself, wherever its schedule wants it. WHICH statement is read from the very source file this binary was compiled from
// (the file that defines dispatchConnection), so the shim neither guesses nor depends on a helper's name staying the same
// without noticing: an unknown statement panics (reported as a harness failure, never as a violation).
var (
	verifCleanupOnce sync.Once
	verifCleanupName string
)

func VerifRefusedCleanupStatement() string {
	verifCleanupOnce.Do(func() {
		pc := reflect.ValueOf(dispatchConnection).Pointer()
		file, _ := runtime.FuncForPC(pc).FileLine(pc)
		src, err := os.ReadFile(file)
		if err != nil {
			verifCleanupName = "unreadable:" + file
			return
		}
		m := regexp.MustCompile(`(?s)user\.GetSession\(ci\.SessionId.*?\n\tif err != nil \{(.*?)\n\t\}`).FindSubmatch(src)
		if m == nil {
			verifCleanupName = "unrecognised"
			return
		}
		calls := regexp.MustCompile(`\buser\.(\w+)\(`).FindAllSubmatch(m[1], -1)
		if len(calls) != 1 {
			verifCleanupName = "unrecognised"
			return
		}
		verifCleanupName = string(calls[0][1])
	})
	return verifCleanupName
}

// VerifRefusedCleanup performs that statement on the real ActiveUser for a refused connection that presented sid.
func VerifRefusedCleanup(u *ActiveUser, sid uint32) string {
	name := VerifRefusedCleanupStatement()
	switch name {
	case "CloseSession":
		u.CloseSession(sid, "")
		return name
	case "terminateIfEmpty":
		// resolved at run time so that this file also builds against a tree without the helper
		if h, ok := any(u).(interface{ terminateIfEmpty() }); ok {
			h.terminateIfEmpty()
			return name
		}
	}
	panic("verif harness: dispatchConnection's clean-up after a refused GetSession is `user." + name + "(…)`; teach harness/server/shim_c15cleanup.go to call it")
}

// HoldQueueLock takes usageUpdateQueueM (the first lock TerminateActiveUser needs, through updateUsageQueueForOne) so that a
// termination in progress parks right after whatever preceded it; the returned function releases it.
func (v *VerifPanel) HoldQueueLock() (release func()) {
	v.P.usageUpdateQueueM.Lock()
	return v.P.usageUpdateQueueM.Unlock
}
