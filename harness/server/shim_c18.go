//go:build verif

package server

import (
	"fmt"
	"strings"

	mux "github.com/cbeuw/Cloak/internal/multiplex"
	"github.com/cbeuw/Cloak/internal/server/usermanager"
)

// VerifC18Activate runs the real userPanel.GetUser for a UID that is not active yet (fresh panel, no upload
// goroutine): AuthenticateUser, then mux.MakeValve with the stored rates. A panic is reported, never swallowed.
func VerifC18Activate(manager usermanager.UserManager, uid []byte) (res string, panicked string) {
	panel := &userPanel{
		Manager:          manager,
		activeUsers:      make(map[[16]byte]*ActiveUser),
		usageUpdateQueue: make(map[[16]byte]*usagePair),
		uploadInterval:   defaultUploadInterval,
	}
	defer func() {
		if r := recover(); r != nil {
			panicked = fmt.Sprint(r)
		}
	}()
	u, err := panel.GetUser(uid)
	switch err {
	case nil:
		if u == nil || u.valve == nil {
			return "nil-user", ""
		}
		if _, ok := u.valve.(*mux.LimitedValve); !ok {
			return "unlimited", ""
		}
		return "active", ""
	case usermanager.ErrUserNotFound:
		return "refused:notfound", ""
	case usermanager.ErrNoUpCredit:
		return "refused:noup", ""
	case usermanager.ErrNoDownCredit:
		return "refused:nodown", ""
	case usermanager.ErrUserExpired:
		return "refused:expired", ""
	}
	if strings.Contains(strings.ToLower(err.Error()), "rate") {
		return "badrate", ""
	}
	return "err:" + err.Error(), ""
}
