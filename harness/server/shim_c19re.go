//go:build verif

package server

import (
	mux "github.com/cbeuw/Cloak/internal/multiplex"
)

// Verif19Panel is a user panel whose manager grants (upRate, downRate) to every UID.
type Verif19Panel struct{ p *userPanel }

func NewVerif19Panel(upRate, downRate int64) *Verif19Panel {
	return &Verif19Panel{MakeUserPanel(&verif19manager{upRate, downRate})}
}

// Admit does what dispatchConnection does for a new connection: GetUser, then GetSession.
func (v *Verif19Panel) Admit(uid []byte, sid uint32, cfg mux.SessionConfig) (*ActiveUser, *mux.Session, error) {
	u, err := v.p.GetUser(uid)
	if err != nil {
		return nil, nil, err
	}
	s, _, err := u.GetSession(sid, cfg)
	return u, s, err
}

// CloseSession is what serveSession does when the session ends (the user's last session terminates the record).
func (v *Verif19Panel) CloseSession(u *ActiveUser, sid uint32) { u.CloseSession(sid, "") }

func (v *Verif19Panel) IsActive(uid []byte) bool { return v.p.isActive(uid) }
