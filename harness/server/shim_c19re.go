//go:build verif

package server

import (
	mux "github.com/cbeuw/Cloak/internal/multiplex"
)

// Verif19Panel is a user panel whose manager grants (upRate, downRate) to every UID.
type Verif19Panel struct{ p *userPanel }

func NewVerif19Panel(upRate, downRate int64) *Verif19Panel {
	return &Verif19Panel{MakeUserPanel(&verif19manager{upRate, downRate})}
}

// Admit does what dispatchConnection does for a new connection: GetUser, then GetSession.
func (v *Verif19Panel) Admit(uid []byte, sid uint32, cfg mux.SessionConfig) (*ActiveUser, *mux.Session, error) {
	u, err := v.p.GetUser(uid)
	if err != nil {
		return nil, nil, err
	}
	s, _, err := u.GetSession(sid, cfg)
	return u, s, err
}

// CloseSession is what serveSession does when the session ends (the user's last session terminates the record).
func (v *Verif19Panel) CloseSession(u *ActiveUser, sid uint32) { u.CloseSession(sid, "") }

func (v *Verif19Panel) IsActive(uid []byte) bool { return v.p.isActive(uid) }

// ---- simultaneous first connections of one user (C19: ONE allowance per user) ----

type verif19gate struct {
	verif19manager
	enter func()
}

func (m *verif19gate) AuthenticateUser(uid []byte) (int64, int64, error) {
	if m.enter != nil {
		m.enter()
	}
	return m.verif19manager.AuthenticateUser(uid)
}

// Verif19ConcurrentAdmit admits n connections of the same, not yet active, user at the same time (each with its own
// session id), the way dispatchConnection does; `enter` is called inside every AuthenticateUser query (the harness uses
// it to keep the queries overlapping when the code lets them overlap).  It returns the valve each connection ended up
// limited by.
func Verif19ConcurrentAdmit(upRate, downRate int64, uid []byte, ids []uint32, cfg func() mux.SessionConfig, enter func()) ([]mux.Valve, []error) {
	panel := MakeUserPanel(&verif19gate{verif19manager{upRate, downRate}, enter})
	valves := make([]mux.Valve, len(ids))
	errs := make([]error, len(ids))
	done := make(chan struct{}, len(ids))
	for i, id := range ids {
		go func(i int, id uint32) {
			defer func() { done <- struct{}{} }()
			u, err := panel.GetUser(uid)
			if err != nil {
				errs[i] = err
				return
			}
			if _, _, err := u.GetSession(id, cfg()); err != nil {
				errs[i] = err
				return
			}
			valves[i] = u.valve
		}(i, id)
	}
	for range ids {
		<-done
	}
	return valves, errs
}
