import CloakModel.Props.C02
