import Driver.Util
import CloakModel.Model.Locks

/-! driver ops `lk.*` — the lock-program machine on the programs extracted from the current tree (C17) -/
namespace Driver.D17

open Locks

abbrev St := List Thread
def init : St := []
def pfx : String := "lk."

def sigOf (p : List Instr) : String :=
  String.join (p.map fun i => match i with
    | .acq l => (if l = 0 then "Q" else if l = 1 then "A" else "S") ++ "+"
    | .rel l => (if l = 0 then "Q" else if l = 1 then "A" else "S") ++ "-")

def showR : Exec.R → String
  | .moved => "moved" | .blocked _ => "blocked" | .done => "done" | .noThread => "nothread"

def step (st : St) (cmd : String) (m : KV) : Option (St × String) :=
  match cmd with
  | "lk.new" => pure ([], "ok")
  | "lk.spawn" => do
    let name ← get m "prog"
    let u ← getNat m "user"
    let progs := genProgramsOf name
    let pick : Option (List Instr) :=
      match get m "sig" with
      | some sg => progs.find? (fun p => sigOf p == sg)
      | none => match progs with | [p] => some p | _ => none
    match pick with
    | none => pure (st, "nopath")
    | some p => pure (st ++ [⟨[], p.map (Instr.map (instOf u))⟩], s!"t={st.length}")
  | "lk.tohook" => do   -- run thread t up to its VerifPoint (updateUsageQueue: after the acquisitions that precede it)
    let t ← getNat m "t"
    let (s', r) := Exec.adv Gen.Panel.uuqAcqBeforeHook st t
    pure (s', s!"locks={showNats (Exec.lockedClasses s')} state={showR r}")
  | "lk.adv" => do
    let t ← getNat m "t"
    let k ← getNat m "k"
    let (s', r) := Exec.adv k st t
    let r' := match Exec.step1 s' t with | (_, .done) => Exec.R.done | (_, .blocked l) => .blocked l | _ => r
    pure (s', s!"locks={showNats (Exec.lockedClasses s')} state={showR r'}")
  | "lk.settle" =>
    let fuel := st.foldl (fun n t => n + t.prog.length) 1
    let s' := Exec.settle fuel st
    let done := s'.map (fun t => if t.prog.isEmpty then 1 else 0)
    pure (s', s!"done={showNats done} locks={showNats (Exec.lockedClasses s')} deadlock={if Exec.deadlockedB s' then 1 else 0}")
  | _ => none

end Driver.D17
