import Driver.Util
import CloakModel.Model.HsCrypto

/-! ORACLE rows: results of AES-GCM and X25519 computed by the harness with Go's standard library /
x-crypto directly and handed to the driver, which stores them and instantiates `HS.Crypto` from them.
A query that has no row is reported by the per-property driver as `bad-op` (the `has…` functions). -/
namespace Driver

structure Oracle where
  dhT   : List ((Bytes × Bytes) × Option Bytes)              -- (private, peer public) ↦ shared secret | fail
  openT : List ((Bytes × Bytes × Bytes) × Option Bytes)     -- (key, nonce, ct‖tag) ↦ plaintext | fail
  sealT : List ((Bytes × Bytes × Bytes) × Bytes)             -- (key, nonce, plaintext) ↦ ct‖tag
  pubT  : List (Bytes × Bytes)                               -- private ↦ public
deriving Inhabited

def Oracle.empty : Oracle := ⟨[], [], [], []⟩

def Oracle.hasDh (o : Oracle) (a b : Bytes) : Option (Option Bytes) := (o.dhT.find? (·.1 == (a, b))).map (·.2)
def Oracle.hasOpen (o : Oracle) (k n c : Bytes) : Option (Option Bytes) := (o.openT.find? (·.1 == (k, n, c))).map (·.2)
def Oracle.hasSeal (o : Oracle) (k n p : Bytes) : Option Bytes := (o.sealT.find? (·.1 == (k, n, p))).map (·.2)
def Oracle.hasPub (o : Oracle) (a : Bytes) : Option Bytes := (o.pubT.find? (·.1 == a)).map (·.2)

/-- the primitives as far as the rows go; the per-property drivers check that the rows they need exist
BEFORE running a model function, so the fall-back values below are never observed -/
def Oracle.crypto (o : Oracle) : HS.Crypto where
  gcmSeal := fun k n p => match o.hasSeal k n p with | some c => c | none => []
  gcmOpen := fun k n c => match o.hasOpen k n c with | some r => r | none => none
  dh := fun a b => match o.hasDh a b with | some r => r | none => none
  pub := fun a => match o.hasPub a with | some p => p | none => []

def hexOrFail (m : KV) (k : String) : Option (Option Bytes) :=
  match get m k with
  | none => none
  | some "fail" => some none
  | some s => (Hex.toBytes s).map some

/-- `<pfx>oracle.dh priv= pub= out=<hex>|fail`, `<pfx>oracle.open key= nonce= ct= out=<hex>|fail`,
`<pfx>oracle.seal key= nonce= pt= out=<hex>`, `<pfx>oracle.pub priv= out=<hex>`, `<pfx>oracle.reset` -/
def Oracle.step (o : Oracle) (kind : String) (m : KV) : Option Oracle :=
  match kind with
  | "dh" => do
    let a ← getHex m "priv"; let b ← getHex m "pub"; let r ← hexOrFail m "out"
    pure { o with dhT := ((a, b), r) :: o.dhT }
  | "open" => do
    let k ← getHex m "key"; let n ← getHex m "nonce"; let c ← getHex m "ct"; let r ← hexOrFail m "out"
    pure { o with openT := ((k, n, c), r) :: o.openT }
  | "seal" => do
    let k ← getHex m "key"; let n ← getHex m "nonce"; let p ← getHex m "pt"; let r ← getHex m "out"
    pure { o with sealT := ((k, n, p), r) :: o.sealT }
  | "pub" => do
    let a ← getHex m "priv"; let r ← getHex m "out"
    pure { o with pubT := (a, r) :: o.pubT }
  | "reset" => pure Oracle.empty
  | _ => none

end Driver
