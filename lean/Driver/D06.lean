import Driver.OracleTab
import CloakModel.Model.HsReply

/-! driver ops `hs.*` — the handshake layouts of both sides (C06): the client's plaintext and payload,
the server's ClientHello parser on real uTLS hellos, the server's reading of the plaintext, the reply
composed by the server and the client's extraction of the session key from it, for both transports.
Crypto comes from ORACLE rows (`hs.oracle.*`). -/
namespace Driver.D06
open HS

structure St where
  o : Oracle

def init : St := ⟨Oracle.empty⟩
def pfx : String := "hs."

def getHexD (m : KV) (k : String) : Option Bytes :=
  match get m k with
  | some "-" => some []
  | some s => Hex.toBytes s
  | none => none

def hexD (b : Bytes) : String := if b.isEmpty then "-" else Hex.ofBytes b

def showInfo (i : ClientInfo) : String :=
  s!"uid={hexD i.uid} sid={i.sid} method={hexD i.method} enc={i.enc.toNat} unordered={if i.unordered then 1 else 0}"

def authInfoOf (m : KV) : Option AuthInfo := do
  let uid ← getHexD m "uid"
  let sid ← getNat m "sid"
  let method ← getHexD m "method"
  let enc ← getNat m "enc"
  let un ← getBool m "unordered"
  pure ⟨uid, sid, method, UInt8.ofNat enc, un⟩

/-- offset of the 4 random bytes inside the reply: record header, the pieces before the key share,
the key-share header, then `shKsPadLo` -/
def padOffset : Nat :=
  5 + (u8s Gen.Handshake.shPiece0).length + (u8s Gen.Handshake.shPiece1).length + (u8s Gen.Handshake.shPiece2).length + 32 +
  (u8s Gen.Handshake.shPiece4).length + 32 + (u8s Gen.Handshake.shPiece6).length + (u8s Gen.Handshake.shPiece7).length +
  (u8s Gen.Handshake.shPiece8).length + (u8s Gen.Handshake.shKeyShareHdr).length + Gen.Handshake.shKsPadLo

def step (st : St) (cmd : String) (m : KV) : Option (St × String) :=
  if cmd.startsWith "hs.oracle." then do
    let o ← st.o.step (cmd.drop 10).toString m
    pure ({ st with o := o }, "ok")
  else match cmd with
  | "hs.parse" => do
    let pkt ← getHexD m "pkt"
    match parseClientHello pkt with
    | none => pure (st, "badhello")
    | some ch =>
      match parseKeyShare ch.peeled (lookupExt (beNat (Gen.Handshake.umExtKey.map UInt8.ofNat)) ch.exts) with
      | none => pure (st, s!"badkeyshare rand={hexD ch.random} sid={hexD ch.sid}")
      | some ks => pure (st, s!"ok rand={hexD ch.random} sid={hexD ch.sid} ks={hexD ks}")
  | "hs.plain" => do
    let a ← authInfoOf m
    let ts ← getInt m "ts"
    pure (st, Hex.ofBytes (mkPlain a ts))
  | "hs.payload" => do
    let a ← authInfoOf m
    let ts ← getInt m "ts"
    let eph ← getHex m "eph"
    let spub ← getHex m "spub"
    -- rows needed: pub(eph), dh(eph, spub), and — if the agreement succeeds — the sealing
    let rand ← st.o.hasPub eph
    let sec ← st.o.hasDh eph spub
    match sec with
    | none => pure (st, "panic")
    | some secret =>
      let _ ← st.o.hasSeal (fit 32 secret) (slice (fit 32 rand) Gen.Handshake.cNonceLo Gen.Handshake.cNonceHi) (mkPlain a ts)
      match mkPayload st.o.crypto eph spub a ts with
      | none => pure (st, "panic")
      | some p => pure (st, s!"rand={Hex.ofBytes p.rand} ct={Hex.ofBytes p.ct} shared={Hex.ofBytes p.shared}")
  | "hs.info" => do
    let shared ← getHex m "shared"
    let rand ← getHex m "rand"
    let ct ← getHex m "ct"
    let now ← getInt m "now"
    let _ ← st.o.hasOpen shared (slice rand Gen.Handshake.sNonceLo Gen.Handshake.sNonceHi) ct
    match decryptInfo st.o.crypto ⟨shared, rand, ct⟩ now with
    | .ok i => pure (st, "ok " ++ showInfo i)
    | .error .open_ => pure (st, "reject open")
    | .error .window => pure (st, "reject window")
    | .error .panic => pure (st, "panic")
  | "hs.reply" => do
    let sid ← getHexD m "sid"
    let nonce ← getHex m "nonce"
    let ek ← getHex m "ek"
    let cert ← getHexD m "cert"
    let out ← getHex m "out"
    let pad := slice out padOffset (padOffset + 4)
    match composeReply sid nonce ek cert pad with
    | none => none
    | some r =>
      if r ≠ out then pure (st, "differs model=" ++ Hex.ofBytes r)
      else match clientExtract out with
        | none => pure (st, "same client=err")
        | some (n, c) => pure (st, s!"same client={Hex.ofBytes (n ++ c)}")
  | "hs.clientkey" => do
    let shared ← getHex m "shared"
    let reply ← getHex m "reply"
    match clientExtract reply with
    | none => pure (st, "err")
    | some (n, c) =>
      let _ ← st.o.hasOpen shared n c
      match tlsClientKey st.o.crypto shared reply with
      | none => pure (st, "err")
      | some k => pure (st, "key=" ++ Hex.ofBytes k)
  | "hs.wsreply" => do
    let shared ← getHex m "shared"
    let key ← getHex m "key"
    let nonce ← getHex m "nonce"
    let _ ← st.o.hasSeal shared (fit Gen.Handshake.wsReplyNonceLen nonce) key
    pure (st, Hex.ofBytes (wsReply st.o.crypto shared key nonce))
  | "hs.wsclient" => do
    let shared ← getHex m "shared"
    let msg ← getHexD m "msg"
    if msg.length = Gen.Handshake.cWsReplyLen then
      let reply := slice msg Gen.Handshake.cWsReplyLo Gen.Handshake.cWsReplyHi
      let _ ← st.o.hasOpen shared (slice reply Gen.Handshake.cWsNonceLo Gen.Handshake.cWsNonceHi) (reply.drop Gen.Handshake.cWsCtLo)
    match wsClientKey st.o.crypto shared msg with
    | none => pure (st, "err")
    | some k => pure (st, "key=" ++ Hex.ofBytes k)
  | _ => none

end Driver.D06
