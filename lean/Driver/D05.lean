import Driver.Util
import CloakModel.Model.TLSRecord

/-! driver ops `rec.*` — TLS record framing (`common.TLSConn`) over a chunked stream, and the
concurrent-writers interleaving model (C05) -/
namespace Driver.D05

structure St where
  cs : Rec.Chunks
  nw : Nat
  pend : Rec.Pend

def init : St := ⟨[], 0, fun _ => []⟩
def pfx : String := "rec."

/-- comma-separated hex strings; "-" is the empty list; an empty item is the empty byte string -/
def hexList (s : String) : Option (List Bytes) :=
  if s == "-" then some [] else (s.splitOn ",").mapM Hex.toBytes

def showRes : Except Rec.RErr Bytes → String
  | .ok b => "ok " ++ Hex.ofBytes b
  | .error .shortBuf => "err shortbuffer"   -- both are io.ErrShortBuffer for the Go caller
  | .error .eof => "err eof"
  | .error .oversize => "err shortbuffer"

def findWriter (pend : Rec.Pend) (w : Bytes) : Nat → Nat → Option Nat
  | 0, _ => none
  | fuel+1, i => match pend i with
    | p :: _ => if p == w then some i else findWriter pend w fuel (i + 1)
    | [] => findWriter pend w fuel (i + 1)

def step (st : St) (cmd : String) (m : KV) : Option (St × String) :=
  match cmd with
  | "rec.open" => do
    let cs ← (get m "chunks").bind hexList
    pure ({ st with cs := cs }, "ok")
  | "rec.read" => do
    let b ← getNat m "buf"
    let (r, rest) := Rec.tlsRead b st.cs
    pure ({ st with cs := rest }, showRes r)
  | "rec.readall" => do
    let cs ← (get m "chunks").bind hexList
    let bufs ← ((get m "bufs").map (·.splitOn ",")).bind (·.mapM String.toNat?)
    pure (st, ";".intercalate ((Rec.readAll bufs cs).map showRes))
  | "rec.write" => do
    let msg ← getHex m "m"
    match Rec.tlsWrite msg with
    | none => pure (st, "err toolong")
    | some ps => pure (st, "wire " ++ ",".intercalate (ps.map Hex.ofBytes))
  | "rec.wopen" => do
    let ps ← get m "progs"
    let progs ← (ps.splitOn ";").mapM hexList
    pure ({ st with nw := progs.length, pend := Rec.pendOf Gen.Record.tlsWriteSingleWrite progs }, "ok")
  | "rec.wstep" => do
    let w ← getHex m "w"
    match findWriter st.pend w st.nw 0 with
    | none => pure (st, "bad")
    | some i =>
      let (p', _) := Rec.stepW (st.pend, []) i
      pure ({ st with pend := p' }, s!"ok {i}")
  | "rec.wdone" =>
    pure (st, if (List.range st.nw).all (fun i => (st.pend i).isEmpty) then "done" else "pending")
  | _ => none

end Driver.D05
