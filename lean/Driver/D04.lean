import Driver.CodecOracle

/-! driver ops `obfs.*` — the frame codec (C04): the Lean reference codec run on real wire bytes -/
namespace Driver.D04
open Codec Driver.CO

abbrev St := Table
def init : St := []
def pfx : String := "obfs."

def step (st : St) (cmd : String) (m : KV) : Option (St × String) :=
  match cmd with
  | "obfs.oclear" => pure ([], "ok")
  | "obfs.oracle" => do
    let t ← addOracle st m
    pure (t, "ok")
  | "obfs.aead" => do
    -- what Go's AEAD constructors report; the model's oracle instantiation assumes exactly these
    let _ ← isAead (← getNat m "m")
    let ov ← getNat m "overhead"
    let ns ← getNat m "nonce"
    pure (st, if ov == aeadOverhead && ns == aeadNonceSize then "ok" else "differs")
  | "obfs.salsa" => do
    let key ← getHex m "key"
    let nonce ← getHex m "nonce"
    let n ← getNat m "n"
    let s ← Salsa20.stream key nonce n
    pure (st, Hex.ofBytes s)
  | "obfs.consts" =>
    pure (st, s!"hdr={Gen.Codec.frameHeaderLength} nonce={Gen.Codec.salsa20NonceSize} maxextra={Gen.Codec.maxExtraLen} padfirst={Gen.Codec.padFirstNFrames} " ++
              s!"default={Gen.Codec.defaultMaxOnWireSize}")
  | "obfs.maxunit" => do
    let cfg ← getInt m "limit"
    let lim := if Gen.Codec.limitUnset cfg then Gen.Codec.limitDefault else cfg
    pure (st, s!"limit={lim} max={Gen.Codec.maxStreamUnitWrite lim} sendbuf={Gen.Codec.streamSendBufferSize lim} recvbuf={Gen.Codec.connReceiveBufferSize}")
  | "obfs.enc" => do
    let meth ← getNat m "m"
    let key ← getHex m "key"
    let f : Frame := ⟨← getNat m "sid", ← getNat m "seq", UInt8.ofNat (← getNat m "c"), ← getHex m "pl"⟩
    let bufLen ← getNat m "buflen"
    let pad ← getNat m "pad"
    let rnd ← getHex m "rnd"
    let o ← runEnc st meth key f bufLen pad rnd
    let d ← drawOK meth pad
    let draw := if Gen.Codec.padGuard f.seq then (if d then "valid" else "invalid") else "unused"
    pure (st, match o with | .ok _ => showO o ++ " draw=" ++ draw | _ => showO o)
  | "obfs.dec" => do
    let meth ← getNat m "m"
    let key ← getHex m "key"
    let msg ← getHex m "msg"
    let o ← runDec st meth key msg
    pure (st, showD o)
  | _ => none

end Driver.D04
