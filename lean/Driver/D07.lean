import Driver.OracleTab
import CloakModel.Model.Dispatch

/-! driver ops `auth.*` — `AuthFirstPacket` and `dispatchConnection` as the decision function of
`Model/Dispatch.lean` (C07).  The driver gets the raw byte stream (for WebSocket also the decoded
`hidden` header, an ORACLE value from net/http + base64), the crypto ORACLE rows and the server clock,
keeps the server's replay cache / active users / user records, and must predict the same decision. -/
namespace Driver.D07
open HS

structure St where
  o : Oracle
  srv : Srv

def emptySrv : Srv := ⟨[], [], [], [], [], [], []⟩
def init : St := ⟨Oracle.empty, emptySrv⟩
def pfx : String := "auth."

def hexList (s : String) : Option (List Bytes) :=
  if s = "-" then some [] else (s.splitOn ",").mapM Hex.toBytes

def probe : Crypto := ⟨fun _ _ _ => [], fun _ _ _ => none, fun _ _ => some (zeros 32), fun _ => []⟩

/-- are all ORACLE rows present that the model will ask for on this packet? -/
def rowsPresent (st : St) (t : Transport) (data : Bytes) (hidden : Option Bytes) : Bool :=
  match extract probe st.srv t data hidden with
  | .ok rand ct _ =>
    match st.o.hasDh st.srv.sk rand with
    | none => false
    | some none => true
    | some (some secret) => (st.o.hasOpen (fit 32 secret) (slice rand Gen.Handshake.sNonceLo Gen.Handshake.sNonceHi) ct).isSome
  | _ => true

def showDecision : Decision → String
  | .closeOnly => "close"
  | .web => "web"
  | .admin => "admin"
  | .proxy uid sid ex => s!"proxy uid={Hex.ofBytes uid} sid={sid} existing={if ex then 1 else 0}"
  | .stall => "stall"

/-- hex argument where `-` stands for the empty string -/
def getHexD (m : KV) (k : String) : Option Bytes :=
  match get m k with
  | some "-" => some []
  | some s => Hex.toBytes s
  | none => none

def hiddenArg (m : KV) : Option (Option Bytes) :=
  match get m "hidden" with
  | none => some none
  | some "none" => some none
  | some "-" => some (some [])
  | some s => (Hex.toBytes s).map some

def showInfo (i : ClientInfo) : String :=
  s!"accept uid={Hex.ofBytes i.uid} sid={i.sid} method={Hex.ofBytes i.method} enc={i.enc.toNat} unordered={if i.unordered then 1 else 0}"

def step (st : St) (cmd : String) (m : KV) : Option (St × String) :=
  if cmd.startsWith "auth.oracle." then do
    let o ← st.o.step (cmd.drop 12).toString m
    pure ({ st with o := o }, "ok")
  else match cmd with
  | "auth.new" => do
    let sk ← getHex m "sk"
    let admin ← (get m "admin").bind (fun s => if s = "-" then some [] else Hex.toBytes s)
    let byp ← (get m "bypass").bind hexList
    let book ← (get m "book").bind hexList
    let byp16 := byp.map (fit 16)
    let byp' := if admin.length ≠ 0 then byp16 ++ [fit 16 admin] else byp16
    pure ({ st with srv := ⟨sk, admin, byp', book, [], [], []⟩ }, "ok")
  | "auth.user" => do
    let uid ← getHex m "uid"
    let up ← getInt m "up"; let down ← getInt m "down"; let ex ← getInt m "expiry"; let cap ← getInt m "cap"
    let db := (uid, (⟨up, down, ex, cap⟩ : UserRec)) :: st.srv.db.filter (fun r => !(r.1 == uid))
    pure ({ st with srv := { st.srv with db := db } }, "ok")
  | "auth.deluser" => do
    let uid ← getHex m "uid"
    pure ({ st with srv := { st.srv with db := st.srv.db.filter (fun r => !(r.1 == uid)) } }, "ok")
  | "auth.resetcache" => pure ({ st with srv := { st.srv with cache := [] } }, "ok")
  | "auth.conn" => do
    let stream ← getHexD m "stream"
    let hidden ← hiddenArg m
    let now ← getInt m "now"
    match readFirst stream with
    | .packet t data => if !(rowsPresent st t data hidden) then none
    | _ => pure ()
    let (srv, d) := decide st.o.crypto st.srv stream hidden now
    -- `upg=0`: net/http + gorilla refuse to upgrade this WebSocket request (computed by the harness with the
    -- libraries alone): an ACCEPTED connection then gets no handshake reply and is closed; the bookkeeping stands
    let upg := (getInt m "upg").getD 1
    let isWs := match readFirst stream with | .packet .ws _ => true | _ => false
    let refused := upg == 0 && isWs && (match d with | .proxy _ _ _ => true | .admin => true | _ => false)
    pure ({ st with srv := srv }, if refused then "close" else showDecision d)
  | "auth.first" => do
    let tr ← get m "tr"
    let t ← (if tr = "tls" then some Transport.tls else if tr = "ws" then some Transport.ws else none)
    let data ← getHexD m "data"
    let hidden ← hiddenArg m
    let now ← getInt m "now"
    if !(rowsPresent st t data hidden) then none
    match extract st.o.crypto st.srv t data hidden with
    | .badHello => pure (st, "badhello")
    | .unmarshal => pure (st, "unmarshal")
    | .ok rand ct secret =>
      let (c, r) := authFrag st.o.crypto st.srv.cache ⟨secret, rand, ct⟩ now
      let st' := { st with srv := { st.srv with cache := c } }
      match r with
      | .ok info => pure (st', showInfo info)
      | .replay => pure (st', "replay")
      | .badDecrypt .window => pure (st', "reject window")
      | .badDecrypt _ => pure (st', "reject open")
      | .badKey => pure (st', "unmarshal")
  | "auth.state" =>
    pure (st, s!"cache={st.srv.cache.length} active={st.srv.active.length}")
  | _ => none

end Driver.D07
