import Driver.Util
import CloakModel.Model.ServerConfig

/-! driver ops `scfg.*` — the server's configuration: `parseRedirAddr`, the address `goWeb` dials, the bypass table,
`parseProxyBook`, `InitState` (C09 target; links to C07/C06). Strings travel as hex of their bytes; the resolvers are
oracle tables filled by the harness with Go's own `net.Resolve*Addr` (a host the table lacks prints `oracle-miss`). -/
namespace Driver.D09t

abbrev St := Unit
def init : St := ()
def pfx : String := "scfg."

open SCfg

def strOfBytes (b : Bytes) : Str := b.map fun x => Char.ofNat x.toNat
def bytesOfStr (s : Str) : Bytes := s.map fun c => UInt8.ofNat c.toNat
def hexStr (s : Str) : String := Hex.ofBytes (bytesOfStr s)
def unhexStr (h : String) : Option Str := if h == "-" then some [] else (Hex.toBytes h).map strOfBytes
def unhexBytes (h : String) : Option Bytes := if h == "-" then some [] else Hex.toBytes h

/-- `a:b,c:d` → table; value `!` = the resolver fails; outer `none` on lookup = not in the table -/
def table (s : String) : Option (List (Str × Option Str)) :=
  if s == "-" then some [] else
  (s.splitOn ",").mapM fun kv =>
    match kv.splitOn ":" with
    | [k, v] => do
      let k ← unhexStr k
      if v == "!" then pure (k, none) else do
        let v ← unhexStr v
        pure (k, some v)
    | _ => none

def lookup (t : List (Str × Option Str)) (h : Str) : Option (Option Str) := (t.find? (·.1 == h)).map (·.2)

/-- resolver backed by the table; records a miss by answering with a marker the harness never produces -/
def missMark : Str := "\x00oracle-miss".toList
def resolver (t : List (Str × Option Str)) (h : Str) : Option Str :=
  match lookup t h with
  | some r => r
  | none => some missMark

def bookResolverOf (t : List (Str × Option Str)) (r : String) (a : Str) : Option Str :=
  resolver t (r.toList ++ '|' :: a)

def entOf (s : String) : Option Entry :=
  match s.splitOn "/" with
  | [] => none
  | n :: ps => do
    let n ← unhexStr n
    let ps ← ps.mapM unhexStr
    pure { name := n, pair := ps }

def entsOf (s : String) : Option (List Entry) := if s == "-" then some [] else (s.splitOn ";").mapM entOf

def insertSorted (x : String) : List String → List String
  | [] => [x]
  | y :: ys => if x < y then x :: y :: ys else y :: insertSorted x ys

def showBook (b : Book) : String :=
  let items := b.map fun kv => hexStr kv.1 ++ ">" ++ hexStr kv.2
  if items.isEmpty then "-" else ",".intercalate (items.foldr insertSorted [])

def hasMiss (b : Book) : Bool := b.any fun kv => kv.2 == missMark

def b01 (b : Bool) : String := if b then "1" else "0"

def bytesList (s : String) : Option (List Bytes) := if s == "-" then some [] else (s.splitOn ",").mapM Hex.toBytes

def step (st : St) (cmd : String) (m : KV) : Option (St × String) :=
  match cmd with
  | "scfg.redir" => do
    let s ← (get m "s").bind unhexStr
    let t ← (get m "res").bind table
    match parseRedirAddr (resolver t) s with
    | .panic => pure (st, "panic")
    | .err => pure (st, "err")
    | .ok h p => if h == missMark then pure (st, "oracle-miss") else pure (st, s!"ok host={hexStr h} port={hexStr p}")
  | "scfg.dial" => do
    let s ← (get m "s").bind unhexStr
    let t ← (get m "res").bind table
    let lp ← (get m "lport").bind unhexStr
    match parseRedirAddr (resolver t) s with
    | .panic => pure (st, "panic")
    | .err => pure (st, "err")
    | .ok h p => if h == missMark then pure (st, "oracle-miss") else pure (st, s!"dial {Gen.ServerCfg.goWebDialNetwork} {hexStr (dialAddr h p lp)}")
  | "scfg.bypass" => do
    let tab ← (get m "tab").bind bytesList
    let admin ← (get m "admin").bind unhexBytes
    let uid ← (get m "uid").bind unhexBytes
    pure (st, b01 (isBypass (bypassTable tab admin) uid))
  | "scfg.book" => do
    let es ← (get m "ents").bind entsOf
    let t ← (get m "res").bind table
    match parseProxyBook (bookResolverOf t) es [] with
    | .panic => pure (st, "panic")
    | .err => pure (st, "err")
    | .ok b => if hasMiss b then pure (st, "oracle-miss") else pure (st, "ok " ++ showBook b)
  | "scfg.init" => do
    let cnc ← getBool m "cnc"
    let admin ← (get m "admin").bind unhexBytes
    let dbempty ← getBool m "dbempty"
    let dbopens ← getBool m "dbopens"
    let ka ← getInt m "ka"
    let key ← (get m "key").bind unhexBytes
    let redir ← (get m "redir").bind unhexStr
    let t ← (get m "res").bind table
    let es ← (get m "ents").bind entsOf
    let bt ← (get m "bres").bind table
    let byp ← (get m "byp").bind bytesList
    let env : Env := { resolveIP := resolver t, resolveBook := bookResolverOf bt, dbOpens := dbopens }
    let raw : Raw := { proxyBook := es, bypassUID := byp, redirAddr := redir, privateKey := key, adminUID := admin,
                       dbPathEmpty := dbempty, keepAlive := ka, cnc := cnc }
    match initState env raw with
    | .error e =>
      let n := match e with
        | .cnc => "cnc" | .db => "db" | .redir => "redir" | .book => "book" | .key => "key" | .panic => "panic"
      pure (st, "err=" ++ n)
    | .ok s =>
      if s.redirHost == missMark || hasMiss s.book then pure (st, "oracle-miss") else
      pure (st, s!"ok void={b01 s.voidManager} ka={s.proxyKeepAlive} host={hexStr s.redirHost} port={hexStr s.redirPort} " ++
                s!"pv={Hex.ofBytes s.pv} admin={Hex.ofBytes s.admin} nkeys={s.bypass.eraseDups.length} book={showBook s.book}")
  | _ => none

end Driver.D09t
