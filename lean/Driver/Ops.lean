import CloakModel.Model.ReorderBuf

/-! Line protocol → model operations. Every branch that the Go side can reject is an explicit
`bad-op`; nothing is defaulted. -/
namespace Driver

structure State where
  sb : RB.SB

def State.init : State := { sb := RB.init 0 }

def kvs (toks : List String) : List (String × String) :=
  toks.filterMap fun t => match t.splitOn "=" with
    | [k, v] => some (k, v)
    | _ => none

def get (m : List (String × String)) (k : String) : Option String := (m.find? (·.1 == k)).map (·.2)
def getNat (m : List (String × String)) (k : String) : Option Nat := (get m k).bind String.toNat?
def getInt (m : List (String × String)) (k : String) : Option Int := (get m k).bind String.toInt?
def getHex (m : List (String × String)) (k : String) : Option Bytes := (get m k).bind Hex.toBytes

def showNats (l : List Nat) : String := "[" ++ ",".intercalate (l.map toString) ++ "]"

def stepSB (st : State) (cmd : String) (m : List (String × String)) : Option (State × String) :=
  match cmd with
  | "sb.new" => do
    let n ← getNat m "next"
    pure ({ st with sb := RB.init n }, "ok")
  | "sb.write" => do
    let seq ← getNat m "seq"
    let c ← getNat m "closing"
    let pl ← getHex m "pl"
    let (sb', o) := RB.write st.sb ⟨seq, c != 0, pl⟩
    let os := match o with | .ok => "ok" | .close => "close" | .errOld => "errOld"
    pure ({ st with sb := sb' }, os)
  | "sb.read" => do
    let k ← getNat m "n"
    let (sb', o) := RB.read st.sb k
    let os := match o with | .data b => "data " ++ Hex.ofBytes b | .eof => "eof" | .block => "block"
    pure ({ st with sb := sb' }, os)
  | "sb.close" => pure ({ st with sb := RB.close st.sb }, "ok")
  | "sb.state" =>
    pure (st, s!"next={st.sb.next} heap={showNats (st.sb.heap.map (·.seq))} buf={st.sb.buf.length}")
  | _ => none

def step (st : State) (line : String) : State × String :=
  let toks := (line.splitOn " ").filter (· ≠ "")
  match toks with
  | [] => (st, "bad-op")
  | cmd :: rest =>
    let m := kvs rest
    let r := if cmd.startsWith "sb." then stepSB st cmd m else none
    match r with
    | some x => x
    | none => (st, "bad-op")

end Driver
