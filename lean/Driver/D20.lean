import Driver.Util
import CloakModel.Model.ClientConfig

/-! driver ops `cfg.*` — client configuration (C20). Strings travel hex-encoded (ASCII on both sides). -/
namespace Driver.D20
open CC

abbrev St := Unit
def init : St := ()
def pfx : String := "cfg."

def strOf (b : Bytes) : String := String.ofList (b.map fun x => Char.ofNat x.toNat)
def bytesOf (s : String) : Bytes := s.toList.map fun c => UInt8.ofNat c.toNat
def hexS (s : String) : String := Hex.ofBytes (bytesOf s)
def getStr (m : KV) (k : String) : Option String := (getHex m k).map strOf

def getList (m : KV) (k : String) : Option (List String) :=
  match get m k with
  | none => none
  | some "-" => some []
  | some v => (v.splitOn ",").mapM fun h => (Hex.toBytes h).map strOf

/-- the name `ProcessRawConfig` reports for an empty mandatory field: looked up in the extracted list of
early returns by the condition that tests that field -/
def reported (field : String) : String :=
  let cond := if field = "UID" ∨ field = "PublicKey" then s!"len(raw.{field}) == 0" else s!"raw.{field} == \"\""
  match caseOf Gen.ClientCfg.earlyReturns cond with
  | some r => r
  | none => "?" ++ field

def showErr : Err → String
  | .empty f => "err " ++ reported f
  | .badPublicKey => "err badkey"
  | .unknownMethod => "err unknownmethod"

def b01 (b : Bool) : String := if b then "1" else "0"

def showCfg (c : Cfg) : String :=
  let tr := match c.transport with
    | .direct b => s!"mode=direct br={b}"
    | .cdn u => s!"mode=cdn ws={hexS u}"
  let mock := if c.mockDomainList.isEmpty then "-" else ",".intercalate (c.mockDomainList.map hexS)
  s!"ok la={hexS c.localAddr} to={c.timeout} mock={mock} sp={b01 c.singleplex} nc={c.numConn} ka={c.keepAlive} " ++
  s!"ra={hexS c.remoteAddr} {tr} uid={Hex.ofBytes c.uid} pm={hexS c.proxyMethod} enc={c.encryptionMethod} " ++
  s!"un={b01 c.unordered} pk={Hex.ofBytes c.serverPubKey} md={hexS c.mockDomain}"

def parseRaw (m : KV) : Option RawConfig := do
  pure {
    serverName := ← getStr m "sn", proxyMethod := ← getStr m "pm", encryptionMethod := ← getStr m "em",
    uid := ← getHex m "uid", publicKey := ← getHex m "pk", numConn := ← getInt m "nc",
    localHost := ← getStr m "lh", localPort := ← getStr m "lp", remoteHost := ← getStr m "rh", remotePort := ← getStr m "rp",
    alternativeNames := ← getList m "alt", udp := ← getBool m "udp", browserSig := ← getStr m "bs",
    transport := ← getStr m "tr", cdnOriginHost := ← getStr m "ch", cdnWsUrlPath := ← getStr m "cp",
    streamTimeout := ← getInt m "st", keepAlive := ← getInt m "ka" }

def showLoaded : Loaded → String
  | .parseError => "parse-error"
  | .configError e => showErr e
  | .ok c => showCfg c
  | .nilDereference => "nil-config"

def step (st : St) (cmd : String) (m : KV) : Option (St × String) :=
  match cmd with
  | "cfg.process" => do
    let raw ← parseRaw m
    match processRaw String.toLower raw with
    | .ok c => pure (st, showCfg c)
    | .error e => pure (st, showErr e)
  | "cfg.ssv" => do
    let s ← getStr m "s"
    pure (st, Hex.ofBytes (bytesOf (String.ofList (ssvToJson s.toList))))
  | "cfg.doc" =>
    -- a configuration file whose top-level JSON value is `null`, or not an object at all
    match get m "kind" with
    | some "null" => pure (st, showLoaded (loadDoc String.toLower .null))
    | some "other" => pure (st, showLoaded (loadDoc String.toLower .other))
    | _ => none
  | "cfg.connect" => do
    -- first connection with the processed configuration; `dhfails` = X25519 refuses the configured PublicKey
    let raw ← parseRaw m
    let dh ← getBool m "dhfails"
    match processRaw String.toLower raw with
    | .ok c => pure (st, match firstConnect (fun _ => dh) c with | .proceeds => "proceeds" | .panics => "panics")
    | .error e => pure (st, showErr e)
  | "cfg.sni" => do
    -- is the server name of a connection the configured one, or one drawn for this connection?
    let raw ← parseRaw m
    match processRaw String.toLower raw with
    | .ok c =>
      let fresh := "\x00fresh"   -- not a name any configuration contains
      pure (st, if sniOf String.toLower c fresh = fresh then "fresh" else "literal")
    | .error e => pure (st, showErr e)
  | _ => none

end Driver.D20
