import Driver.Util
import CloakModel.Model.ReplayCache

/-! driver ops `rc.*` — the replay memory as `AuthFirstPacket` and `UsedRandomCleaner` use it (C08).
The harness tells what the server's transport layer extracted (`rand`), what the crypto ORACLE says
about it (`reg`, `ok`, `ts`) and the server clock; the model answers accept / replay / reject / early. -/
namespace Driver.D08

abbrev St := Replay.St
def init : St := Replay.init
def pfx : String := "rc."

def showOut : Replay.Out → String
  | .accept => "accept" | .replay => "replay" | .reject => "reject" | .early => "early"

def step (st : St) (cmd : String) (m : KV) : Option (St × String) :=
  match cmd with
  | "rc.new" => pure (Replay.init, "ok")
  | "rc.present" => do
    let rand ← getHex m "rand"
    let reg ← getBool m "reg"
    let ok ← getBool m "ok"
    let ts ← getInt m "ts"
    let now ← getInt m "now"
    if rand.length ≠ 32 then none
    else
      let (s, o) := Replay.G.present st ⟨rand, reg, ok, ts⟩ now
      pure (s, showOut o)
  | "rc.clean" => do
    let now ← getInt m "now"
    let s := Replay.G.clean st now
    pure (s, s!"n={s.cache.length}")
  | "rc.conc" => do
    let n ← getNat m "n"
    let was ← getBool m "was"
    -- every goroutine runs to completion, one after the other (any schedule gives the same count: c08_concurrent)
    let prog := Replay.prog Gen.Replay.registerAtomic
    let sched := (List.range n).flatMap (fun i => List.replicate prog.length i)
    let s := Replay.crun Gen.Replay.registerAtomic was n sched
    pure (st, s!"fresh={Replay.fresh s}")
  | "rc.state" => pure (st, s!"n={st.cache.length} acc={st.acc.length}")
  | _ => none

end Driver.D08
