import Driver.Util
import CloakModel.Model.FirstPacket

/-! driver ops `fp.*` — `readFirstPacket` over a chunked peer stream, and the whole rejected connection
(decision + relay) of `dispatchConnection` (C09) -/
namespace Driver.D09

abbrev St := Unit
def init : St := ()
def pfx : String := "fp."

def hexList (s : String) : Option (List Bytes) :=
  if s == "-" then some [] else (s.splitOn ",").mapM Hex.toBytes

def showT : FP.Transport → String | .none => "none" | .tls => "tls" | .ws => "ws"
def showE : FP.ErrKind → String | .ok => "ok" | .readErr => "read" | .shortBuffer => "shortbuf" | .unrecognised => "unrec"
def b01 (b : Bool) : String := if b then "1" else "0"

def verdict : String → Option FP.Verdict
  | "authFail" => some .authFail | "obfsFail" => some .obfsFail | "admin" => some .admin
  | "badMethod" => some .badMethod | "badUser" => some .badUser | "sessErr" => some .sessErr
  | "proxy" => some .proxy | _ => none

def target : String → Option FP.Target
  | "up" => some .up | "dial" => some .dialFails | "write" => some .writeFails | _ => none

def evOf (s : String) : Option FP.Ev :=
  if s == "pe" then some .peerEOF else if s == "te" then some .targetEOF
  else match s.splitOn ":" with
    | ["p", h] => (Hex.toBytes h).map .peer
    | ["t", h] => (Hex.toBytes h).map .target
    | _ => none

def step (st : St) (cmd : String) (m : KV) : Option (St × String) :=
  match cmd with
  | "fp.read" => do
    let cs ← (get m "chunks").bind hexList
    let (o, _) := FP.readFirstPacket cs
    pure (st, s!"n={o.data.length} t={showT o.transport} redir={b01 o.redirOnErr} err={showE o.err} closed={b01 o.closed}")
  | "fp.run" => do
    let cs ← (get m "chunks").bind hexList
    let v ← (get m "v").bind verdict
    let es ← get m "evs"
    let evs ← if es == "-" then some [] else (es.splitOn ";").mapM evOf
    -- `tg` (how the redirect target behaves) is optional: absent = up
    let tg ← match get m "tg" with
      | none => some FP.Target.up
      | some t => target t
    let (a, r) := FP.run cs v tg evs
    -- closed=<peer conn closed><target conn closed>
    let cl := s!" closed={b01 r.peerClosed}{b01 r.targetClosed}"
    let s := match a with
      | .web => s!"web target={Hex.ofBytes r.toTarget.flatten} peer={Hex.ofBytes r.toPeer.flatten}" ++ cl
      | .close => "close" ++ cl
      | .drop => "drop" ++ cl
      | .handshake => "handshake"
      | .other => "other"
    pure (st, s)
  | _ => none

end Driver.D09
