import Driver.Util
import CloakModel.Model.Route

/-! driver ops `rt.*` — client.RouteUDP's address → stream table as a state machine (C14, Model/Route.lean).
The harness lets the real RouteUDP come to rest after every op (every return goroutine whose stream is closed has
ended), so the driver runs `settle` after each event: the goroutines of closed streams exit, in order of opening. -/
namespace Driver.D14r
open Route

abbrev St := Route.St
def init : St := Route.St.init false 0
def pfx : String := "rt."

def settle (st : St) : St :=
  st.streams.foldl (fun acc r => if r.closed && r.live then Route.retExit acc r.id else acc) st

def liveCount (st : St) : Nat := (st.streams.filter (·.live)).length
def tail (st : St) : String := s!" calls={st.nextSess} live={liveCount st}"
def find (st : St) (k sid : Nat) : Option SRec := st.streams.find? (fun r => r.sess == k && r.sid == sid)

def step (st : St) (cmd : String) (m : KV) : Option (St × String) :=
  match cmd with
  | "rt.new" => do
    let single ← getBool m "single"
    let max ← getNat m "max"
    pure (Route.St.init single max, "ok")
  | "rt.dgram" => do
    let a ← getNat m "a"
    let n ← getNat m "n"
    let fail ← getBool m "fail"
    let q ← getBool m "q"
    let st1 := Route.step st (.localDatagram a (List.replicate n (UInt8.ofNat a)) fail)
    let out :=
      if st1.writes.length == st.writes.length + 1 then
        match st1.writes.getLast? with
        | some (_, s, pl) =>
          match Route.rec? st1 s with
          | some r => s!"sent k={r.sess} sid={r.sid} n={pl.length}"
          | none => "model-error"
        | none => "model-error"
      else if st1.writes.length == st.writes.length then "dropped" else "model-error"
    let st2 := settle st1
    pure (st2, if q then out ++ tail st2 else out)
  | "rt.reply" => do
    let k ← getNat m "k"
    let sid ← getNat m "sid"
    let n ← getNat m "n"
    let r ← find st k sid
    if r.closed || !r.live then pure (st, "closed" ++ tail st)
    else
      let st1 := Route.step st (.streamDatagram r.id (List.replicate n 0) false)
      match st1.delivs.getLast? with
      | some (_, a, pl) =>
        if st1.delivs.length == st.delivs.length + 1 then pure (st1, s!"to a={a} n={pl.length}" ++ tail st1) else pure (st1, "model-error")
      | none => pure (st1, "model-error")
  | "rt.timeout" => do
    let k ← getNat m "k"
    let sid ← getNat m "sid"
    let r ← find st k sid
    let st1 := settle (Route.step st (.retExit r.id))
    pure (st1, "ok" ++ tail st1)
  | "rt.kill" => do
    let k ← getNat m "k"
    let st1 := settle (Route.step st (.sessionClosed k))
    pure (st1, "ok" ++ tail st1)
  | _ => none

end Driver.D14r
