import Driver.Util
import CloakModel.Model.Sender

/-! driver ops `seq.*` — the sender interleaving model of one stream (C13).  The harness observes a
run of real goroutines on the wire tap, reconstructs the order of the critical sections and replays
it here as a schedule: `seq.spawn` starts a call (thread), `seq.run` lets one thread take steps.
The model must assign the same numbers, the same outcomes and end in the same state. -/
namespace Driver.D13

abbrev St := SN.State
def init : St := SN.init []
def pfx : String := "seq."

def parseNats (s : String) : Option (List Nat) :=
  if s.isEmpty then some [] else (s.splitOn ",").mapM String.toNat?

def parseRes : Char → Option SN.Res
  | 'o' => some .ok
  | 'c' => some .connErr
  | 'e' => some .encErr
  | _ => none

def zipFrames : List Nat → List SN.Res → Option (List (Nat × SN.Res))
  | [], [] => some []
  | p :: ps, r :: rs => (zipFrames ps rs).map ((p, r) :: ·)
  | _, _ => none

def showFrame (f : SN.Frame) : String := s!"{f.seq}:{if f.closing then 1 else 0}:{f.pl}"

/-- why a thread would return early at its next step, if it would -/
def early (s : SN.State) (th : SN.Thread) : Option String :=
  match th.prog with
  | .chk :: _ => if s.closed then some "refused" else none
  | .cas :: _ => if s.closed then some "refused" else none
  | .send r :: _ => if r = .ok then none else some "senderr"
  | _ => none

/-- run thread `t` for at most `fuel` enabled steps; returns the state and the reason of an early return seen -/
def runT (t : Nat) : Nat → SN.State → String → SN.State × String
  | 0, s, why => (s, why)
  | fuel + 1, s, why =>
    match s.thr[t]? with
    | none => (s, why)
    | some th =>
      let why' := match early s th with | some w => w | none => why
      match SN.step s t with
      | none => (s, why)
      | some s' => runT t fuel s' why'

def step (st : St) (cmd : String) (m : KV) : Option (St × String) :=
  match cmd with
  | "seq.new" => pure (SN.init [], "ok")
  | "seq.spawn" => do
    let kind ← get m "kind"
    let call ← match kind with
      | "w" => do
        let pls ← (get m "pls").bind parseNats
        let outs ← (match get m "outs" with | some s => s | none => "").toList.mapM parseRes
        let fs ← zipFrames pls outs
        pure (SN.Call.write fs)
      | "r" => do
        let pls ← (get m "pls").bind parseNats
        let outs ← (match get m "outs" with | some s => s | none => "").toList.mapM parseRes
        let fs ← zipFrames pls outs
        pure (SN.Call.readFrom fs)
      | "c" => do
        let pl ← getNat m "pl"
        let o ← (get m "out").bind (fun s => s.toList.head?) |>.bind parseRes
        pure (SN.Call.close pl o)
      | _ => none
    let id := st.thr.length
    pure (SN.spawn st call.prog, s!"t={id}")
  | "seq.run" => do
    let t ← getNat m "t"
    let th ← st.thr[t]?
    let fuel := match getNat m "n" with | some n => n | none => th.prog.length + 1
    let (s', why) := runT t fuel st "ok"
    let encNew := s'.enc.drop st.enc.length
    let wireNew := s'.wire.drop st.wire.length
    let done := match s'.thr[t]? with | some th' => th'.prog.isEmpty | none => true
    pure (s', s!"enc=[{",".intercalate (encNew.map showFrame)}] wire={showNats (wireNew.map (·.seq))} ret={why} done={if done then 1 else 0}")
  | "seq.state" =>
    pure (st, s!"seq={st.seq} closed={if st.closed then 1 else 0} enc={st.enc.length} wire={st.wire.length} lock={match st.lock with | none => "none" | some t => toString t}")
  | _ => none

end Driver.D13
