import Driver.Util
import CloakModel.Model.Codec
import CloakModel.Model.Salsa20

/-! Shared by the `obfs.*` (C04) and `c11.*` (C11) driver modules: running the codec model on real wire
bytes.  Salsa20 is native Lean.  The three AEADs are an ORACLE: the harness computes `Seal`/`Open` with Go's
`crypto/cipher` and `x/crypto/chacha20poly1305` directly (not through Cloak's code) and passes the answers as
`*.oracle` rows; the model computes its own query (key, nonce, input) and looks the answer up — a miss is a
`bad-op`, never a default.  Inputs are identified in the table by length and FNV-1a/64 digest. -/

namespace Driver.CO
open Codec

def fnv (b : Bytes) : UInt64 :=
  b.foldl (fun h x => (h ^^^ x.toUInt64) * 0x100000001b3) 0xcbf29ce484222325

def hex64 (v : UInt64) : String := Hex.ofBytes (beBytes 8 v.toNat)

structure Entry where
  isSeal : Bool
  m : Nat
  key : Bytes
  nonce : Bytes
  inLen : Nat
  inH : UInt64
  out : Option Bytes      -- none = Open failed

abbrev Table := List Entry

def lookup (t : Table) (isSeal : Bool) (m : Nat) (key nonce inp : Bytes) : Option (Option Bytes) :=
  let h := fnv inp
  (t.find? fun e => e.isSeal == isSeal && e.m == m && e.inLen == inp.length && e.inH == h && e.key == key && e.nonce == nonce).map (·.out)

/-- `*.oracle kind=seal|open m= key= nonce= inlen= inh= out=<hex>|fail` -/
def addOracle (t : Table) (m : KV) : Option Table := do
  let kind ← get m "kind"
  let isSeal ← if kind == "seal" then some true else if kind == "open" then some false else none
  let meth ← getNat m "m"
  let key ← getHex m "key"
  let nonce ← getHex m "nonce"
  let inLen ← getNat m "inlen"
  let inH ← getHex m "inh"
  let outS ← get m "out"
  let out ← if outS == "fail" then some none else (Hex.toBytes outS).map some
  pure (⟨isSeal, meth, key, nonce, inLen, UInt64.ofNat (beNat inH), out⟩ :: t)

/-- Salsa20 for a 32-byte key and 8-byte nonce; the callers have checked both sizes (`ready`), so the
`none` branch is unreachable there — it yields the empty stream, which makes every header slice of the
model panic rather than produce a plausible answer. -/
def salsa (key nonce : Bytes) (n : Nat) : Bytes :=
  match Salsa20.stream key nonce n with
  | some s => s
  | none => []

/-- the driver can only run the model when Salsa20 is used the way the native implementation supports -/
def ready (key : Bytes) : Bool := key.length == 32 && Gen.Codec.salsa20NonceSize == 8

/-- parameters of Go's AEADs (`cipher.NewGCM`, `chacha20poly1305.New`): validated by `*.aead` rows -/
def aeadOverhead : Nat := 16
def aeadNonceSize : Nat := 12

/-- method number -> is it an AEAD method? (`none` = unknown method: MakeObfuscator returns an error) -/
def isAead (m : Nat) : Option Bool :=
  if (m : Int) = Gen.Codec.encPlain then some false
  else if (m : Int) = Gen.Codec.encAES256GCM ∨ (m : Int) = Gen.Codec.encChacha20Poly1305 ∨ (m : Int) = Gen.Codec.encAES128GCM then some true
  else none

def dummyAead : Aead := ⟨aeadOverhead, aeadNonceSize, fun _ _ _ _ => [], fun _ _ _ _ => none⟩

def showD (o : DOut) : String :=
  match o with
  | .ok f => s!"ok sid={f.sid} seq={f.seq} c={f.closing.toNat} len={f.payload.length} h={hex64 (fnv f.payload)}"
  | .errShort => "errShort"
  | .errExtra => "errExtra"
  | .errAuth => "errAuth"
  | .panic => "panic"

/-- run `deobfuscate` of the model on `msg`; `none` = bad-op (oracle miss, unsupported sizes, unknown method) -/
def runDec (t : Table) (m : Nat) (key msg : Bytes) : Option DOut := do
  if !ready key then none
  let ae ← isAead m
  let C : Crypto := ⟨if ae then some dummyAead else none, salsa⟩
  match deobfPre C key msg with
  | .errShort => pure .errShort
  | .errExtra => pure .errExtra
  | .panic => pure .panic
  | .go p =>
    if !ae then pure (deobfFinish p none)
    else match deobfQuery dummyAead p with
      | none => pure .panic
      | some (n, ct) =>
        let r ← lookup t false m key n ct
        pure (deobfFinish p (some r))

def showO (o : OOut) : String :=
  match o with
  | .ok msg => s!"ok len={msg.length} h={hex64 (fnv msg)}"
  | .errEmpty => "errEmpty"
  | .errSmall => "errSmall"
  | .panic => "panic"

/-- run `obfuscate` of the model; mirrors `Codec.obfuscate` with the oracle in place of `a.aseal` -/
def runEnc (t : Table) (m : Nat) (key : Bytes) (f : Frame) (bufLen padDraw : Nat) (rnd : Bytes) : Option OOut := do
  if !ready key then none
  let ae ← isAead m
  let C : Crypto := ⟨if ae then some dummyAead else none, salsa⟩
  match obfPre (tagLenOf C) f bufLen padDraw rnd with
  | .errEmpty => pure .errEmpty
  | .errSmall => pure .errSmall
  | .go buf useful payloadLen padLen =>
    if !ae then pure (obfFinish C key buf useful none)
    else match obfQuery dummyAead buf payloadLen padLen with
      | none => pure .panic
      | some (n, pt) =>
        match ← lookup t true m key n pt with
        | none => none          -- Seal cannot fail
        | some ct => pure (obfFinish C key buf useful (some ct))

/-- is `padDraw` a value `common.RandInt(padBound tagLen)` can return? -/
def drawOK (m : Nat) (padDraw : Nat) : Option Bool := do
  let ae ← isAead m
  let tagLen : Nat := if ae then aeadOverhead else Gen.Codec.tagLenPlain.toNat
  pure (decide ((padDraw : Int) < Gen.Codec.padBound tagLen))

end Driver.CO
