import Driver.Util
import CloakModel.Model.Acct

/-! driver ops `acct.*` — the usage-accounting model (C16). `uids=` lists the users the harness created, so the
digest can print the function-valued state. -/
namespace Driver.D16

open Acct

structure St where
  s : Acct.St
  uids : List Nat

def init : St := ⟨Acct.init, []⟩
def pfx : String := "acct."

def digest (st : St) : String :=
  let s := st.s
  let q := (s.qkeys.mergeSort (· ≤ ·)).map fun u => s!"{u}:{s.queue (u, false)}:{s.queue (u, true)}"
  let a := (s.actives.mergeSort (· ≤ ·)).map fun u => s!"{u}:n{s.nsess u}:{s.valve (u, false)}:{s.valve (u, true)}"
  s!"q=[{",".intercalate q}] act=[{",".intercalate a}]"

def dirOf (m : KV) : Option Bool :=
  match get m "dir" with | some "rx" => some false | some "tx" => some true | _ => none

def ev (st : St) (e : Ev) : St := { st with s := Acct.step st.s e }

def step1 (st : St) (cmd : String) (m : KV) : Option (St × String) :=
  match cmd with
  | "acct.new" => pure (init, "ok")
  | "acct.put" => do
    let u ← getNat m "uid"
    let up ← getInt m "upc"
    let down ← getInt m "downc"
    let e ← getInt m "exp"
    let st' := ev st (.put u up down e)
    pure ({ st' with uids := if u ∈ st.uids then st.uids else st.uids ++ [u] }, "ok")
  | "acct.delete" => do
    let u ← getNat m "uid"
    pure (ev st (.delete u), "ok")
  | "acct.activate" => do
    let u ← getNat m "uid"
    let now ← getInt m "now"
    let st' := ev st (.activate u now)
    pure (st', if u ∈ st'.s.actives then "active" else "refused")
  | "acct.traffic" => do
    let u ← getNat m "uid"
    let d ← dirOf m
    let n ← getInt m "n"
    let st' := ev st (.traffic u d n)
    pure (st', digest st')
  | "acct.stray" => do
    let u ← getNat m "uid"
    let d ← dirOf m
    let n ← getInt m "n"
    pure (ev st (.stray u d n), "ok")
  | "acct.collect" => let st' := ev st .collectAll; pure (st', digest st')
  | "acct.forOne" => do       -- updateUsageQueueForOne on the current record
    let u ← getNat m "uid"
    let st' := ev (ev st (.swapOne u)) (.enqueueOne u)
    pure (st', digest st')
  | "acct.forOld" => do       -- … on a retired record, whose valve held (up, down): validated against `old`
    let u ← getNat m "uid"
    let up ← getInt m "up"
    let down ← getInt m "down"
    if 0 ≤ up ∧ up ≤ st.s.old (u, false) ∧ 0 ≤ down ∧ down ≤ st.s.old (u, true) then
      let st' := ev (ev st (.swapOld u up down)) (.enqueueOne u)
      pure (st', digest st')
    else pure (st, "invalid: more than the retired records hold")
  | "acct.commit" => do       -- commitUpdate: snapshot, UploadStatus, response loop
    let now ← getInt m "now"
    let s1 := Acct.step st.s .snapshot
    let s2 := if s1.inflight.isEmpty then s1 else Acct.commitOldest s1 now
    let st' := { st with s := s2 }
    pure (st', digest st')
  | "acct.open" => do
    let u ← getNat m "uid"
    let st' := ev st (.openSess u)
    pure (st', digest st')
  | "acct.close" => do        -- CloseSession of a session that is not the last one
    let u ← getNat m "uid"
    let st' := ev st (.closeSess u)
    pure (st', digest st')
  | "acct.terminate" => do    -- TerminateActiveUser (also: CloseSession of the last session)
    let u ← getNat m "uid"
    let st' := { st with s := Acct.terminate st.s u }
    pure (st', digest st')
  | "acct.get" => do
    let u ← getNat m "uid"
    if st.s.present u then pure (st, s!"up={st.s.stored (u, false)} down={st.s.stored (u, true)}")
    else pure (st, "absent")
  | "acct.ghost" => do        -- ghost terms the harness keeps as well (volume carried, credit granted)
    let u ← getNat m "uid"
    let s := st.s
    pure (st, s!"carried={s.carried (u, false)}:{s.carried (u, true)} granted={s.granted (u, false)}:{s.granted (u, true)}")
  | "acct.ghost2" => do
    let u ← getNat m "uid"
    let s := st.s
    pure (st, s!"old={s.old (u, false)}:{s.old (u, true)} dropped={s.dropped (u, false)}:{s.dropped (u, true)} pending={s.pending (u, false)}:{s.pending (u, true)}")
  | _ => none

/-- `q=1`: the implementation's state could not be observed at this point (another operation was parked holding a
lock); the op is applied and the state is compared at the next observed op -/
def step (st : St) (cmd : String) (m : KV) : Option (St × String) := do
  let (st', out) ← step1 st cmd m
  if get m "q" == some "1" then pure (st', "ok") else pure (st', out)

end Driver.D16
