import Driver.Ops

/-! `cloakdriver`: reads one operation per line on stdin, runs the executable models, prints one
canonical output line per operation.  Core Lean only (no Mathlib), so it links as a `lean_exe`. -/

partial def loop (h : IO.FS.Stream) (out : IO.FS.Stream) (st : Driver.State) : IO Unit := do
  let line ← h.getLine
  if line.isEmpty then return ()
  let l := (line.dropRightWhile (fun c => c == '\n' || c == '\r'))
  if l.isEmpty || l.startsWith "#" then
    loop h out st
  else
    let (st', o) := Driver.step st l
    out.putStrLn o
    loop h out st'

def main : IO Unit := do
  let stdin ← IO.getStdin
  let stdout ← IO.getStdout
  loop stdin stdout Driver.State.init
  stdout.flush
