import CloakModel.Model.Basic

/-! helpers of the line protocol shared by the per-property driver modules -/
namespace Driver

abbrev KV := List (String × String)

def kvs (toks : List String) : KV :=
  toks.filterMap fun t => match t.splitOn "=" with
    | [k, v] => some (k, v)
    | k :: v :: rest => some (k, "=".intercalate (v :: rest))
    | _ => none

def get (m : KV) (k : String) : Option String := (m.find? (·.1 == k)).map (·.2)
def getNat (m : KV) (k : String) : Option Nat := (get m k).bind String.toNat?
def getInt (m : KV) (k : String) : Option Int := (get m k).bind String.toInt?
def getHex (m : KV) (k : String) : Option Bytes := (get m k).bind Hex.toBytes
def getBool (m : KV) (k : String) : Option Bool := (getNat m k).map (· != 0)

def showNats (l : List Nat) : String := "[" ++ ",".intercalate (l.map toString) ++ "]"
def showInts (l : List Int) : String := "[" ++ ",".intercalate (l.map toString) ++ "]"

end Driver
