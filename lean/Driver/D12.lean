import Driver.Util
import CloakModel.Model.SessionOps

/-! driver ops `ss.*` — a pair of sessions (bookkeeping state machine + per-stream reorder buffers),
replayed at quiescent points against two real `multiplex.Session`s (C12, C01) -/
namespace Driver.D12
open SO

structure St where
  a : Side := {}
  b : Side := {}
  pa : Bool := false   -- an Accept is parked on side A / B: the next queued stream goes straight to it
  pb : Bool := false
  now : Nat := 0
  inact : Nat := 30000000000

def init : St := {}
def pfx : String := "ss."

def sideOf (st : St) (m : KV) : Option (Side × Bool) :=
  match get m "side" with
  | some "A" => some (st.a, true)
  | some "B" => some (st.b, false)
  | _ => none

def put (st : St) (isA : Bool) (sd : Side) : St := if isA then { st with a := sd } else { st with b := sd }

/-- a parked Accept takes the head of the queue as soon as there is one, and returns when the session closes -/
def servePark (sd : Side) (p : Bool) : Side × Bool :=
  if p then
    -- a receiver parked on the channel gets a buffered stream even if the channel has been closed since
    match sd.sm.accq with
    | _ :: r => ({ sd with sm := { sd.sm with accq := r } }, false)
    | [] => if sd.sm.qclosed then (sd, false) else (sd, true)
  else (sd, false)

def settle (st : St) : St :=
  let (a, pa) := servePark st.a st.pa
  let (b, pb) := servePark st.b st.pb
  { st with a := a, b := b, pa := pa, pb := pb }

def step (st : St) (cmd : String) (m : KV) : Option (St × String) :=
  match cmd with
  | "ss.new" => do
    let sp ← getBool m "singleplex"
    let n ← getNat m "conns"
    let inact ← getNat m "inact"
    let mk : Side := { sm := SM.run (SM.init sp) (List.replicate n .addConn), timers := [inact] }
    pure ({ a := mk, b := mk, now := 0, inact := inact, pa := false, pb := false }, "ok")
  | "ss.open" => do
    let (sd, isA) ← sideOf st m
    let (sd, r, id) := openStream sd
    let o := match r with
      | .ok => s!"ok id={id}"
      | .refused => "refused"
      | .nomux => "nomux"
      | _ => "bad"
    pure (put st isA sd, o ++ " | " ++ stateStr sd)
  | "ss.recv" => do
    let (sd, isA) ← sideOf st m
    let sid ← getNat m "sid"
    let seq ← getNat m "seq"
    let c ← getNat m "closing"
    let pl ← getHex m "pl"
    let (sd, _) := recv sd sid seq c pl st.now st.inact
    let st := settle (put st isA sd)
    pure (st, stateStr (if isA then st.a else st.b))
  | "ss.read" => do
    let (sd, isA) ← sideOf st m
    let id ← getNat m "id"
    let n ← getNat m "n"
    let sb ← getRB sd id
    let (sb', o) := RB.read sb n
    let os := match o with | .data b => "data " ++ Hex.ofBytes b | .eof => "eof" | .block => "block"
    pure (put st isA (setRB sd id sb'), os)
  | "ss.wake" => do   -- a parked reader returned `data` (trace validation: must be a non-empty prefix of what is buffered)
    let (sd, isA) ← sideOf st m
    let id ← getNat m "id"
    let sb ← getRB sd id
    match get m "data" with
    | some "eof" => if sb.closed ∧ sb.buf = [] then pure (st, "ok") else pure (st, "mismatch")
    | some h => do
      let d ← Hex.toBytes h
      if d ≠ [] ∧ sb.buf.take d.length = d then
        pure (put st isA (setRB sd id { sb with buf := sb.buf.drop d.length, out := sb.out ++ d }), "ok")
      else pure (st, "mismatch")
    | none => none
  | "ss.accept" => do
    let (sd, isA) ← sideOf st m
    let hd := sd.sm.accq.head?
    let (sd, r) := ev sd .accept
    let o := match r, hd with
      | .ok, some id => s!"ok id={id}"
      | .refused, _ => "refused"
      | .block, _ => "block"
      | _, _ => "bad"
    let st := put st isA sd
    let st := if r == .block ∧ getNat m "park" == some 1 then (if isA then { st with pa := true } else { st with pb := true }) else st
    pure (st, o)
  | "ss.closeStream" => do
    let (sd, isA) ← sideOf st m
    let id ← getNat m "id"
    let (sd, r) := closeStream sd id true st.now st.inact
    let o := match r with | .ok => "ok" | .refused => "err" | _ => "repeat"
    pure (settle (put st isA sd), o ++ " | " ++ stateStr sd)
  | "ss.wfault" => do
    let (sd, isA) ← sideOf st m
    pure (put st isA { sd with wfail := true }, "ok")
  | "ss.sendfail" => do   -- a data frame could not be written: send → passiveClose
    let (sd, isA) ← sideOf st m
    let (sd, _) := sessClose sd false
    pure (settle (put st isA sd), stateStr sd)
  | "ss.close" => do
    let (sd, isA) ← sideOf st m
    let (sd, r) := sessClose sd true
    let o := match r with | .ok => "ok" | .refused => "err" | _ => "repeat"
    pure (settle (put st isA sd), o ++ " | " ++ stateStr sd)
  | "ss.fault" => do   -- a connection of this side reported a read error: passiveClose
    let (sd, isA) ← sideOf st m
    let (sd, _) := sessClose sd false
    pure (settle (put st isA sd), stateStr sd)
  | "ss.tick" => do
    let d ← getNat m "d"
    let now := st.now + d
    let a := fireTimers st.a now
    let b := fireTimers st.b now
    pure (settle { st with a := a, b := b, now := now }, stateStr a ++ " || " ++ stateStr b)
  | "ss.state" => do
    let (sd, _) ← sideOf st m
    pure (st, stateStr sd)
  | _ => none

end Driver.D12
