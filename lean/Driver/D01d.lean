import Driver.Util
import CloakModel.Model.StreamPipeDeadline

/-! driver ops `spl.*` — the byte pipe of an ordered stream with read deadlines on a virtual clock (C01, `Model/StreamPipeDeadline.lean`) -/
namespace Driver.D01d

abbrev St := SPD.St
def init : St := SPD.init
def pfx : String := "spl."

def fnv (b : Bytes) : Nat := b.foldl (fun h x => ((h ^^^ x.toNat) * 16777619) % 4294967296) 2166136261

def showO : SPD.Out → String
  | .data d => s!"data n={d.length} h={fnv d}"
  | .eof => "eof"
  | .timeout => "timeout"
  | .park => "park"

def showOpt : Option SPD.Out → String
  | some o => showO o
  | none => "-"

def showSt (s : St) : String :=
  s!"buf={s.buf.length} closed={if s.closed then 1 else 0} now={s.now} parked={if s.pending.isSome then 1 else 0}"

def step (st : St) (cmd : String) (m : KV) : Option (St × String) :=
  match cmd with
  | "spl.new" => pure (SPD.init, "ok")
  | "spl.w" => do
    let pl ← getHex m "pl"
    let (s, r) := SPD.step st (.w pl)
    let w := match r.w with | some true => "ok" | some false => "closed" | none => "-"
    pure (s, s!"{w} woke={showOpt r.woke} {showSt s}")
  | "spl.r" => do
    let cap ← getNat m "cap"
    if st.pending.isSome then none else
    let (s, r) := SPD.step st (.r cap)
    pure (s, s!"{showOpt r.r} {showSt s}")
  | "spl.c" =>
    let (s, r) := SPD.step st .c
    pure (s, s!"ok woke={showOpt r.woke} {showSt s}")
  | "spl.dl" => do
    let a ← getInt m "at"
    let (s, r) := SPD.step st (.dl (if a < 0 then none else some a.toNat))
    pure (s, s!"ok woke={showOpt r.woke} {showSt s}")
  | "spl.adv" => do
    let dt ← getNat m "dt"
    let (s, r) := SPD.step st (.adv dt)
    pure (s, s!"ok woke={showOpt r.woke} {showSt s}")
  | _ => none

end Driver.D01d
