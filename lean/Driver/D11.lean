import Driver.CodecOracle

/-! driver ops `c11.*` — the decoder on modified / foreign / arbitrary input (C11).  Every op carries the answer
of Go's AEAD to the query an honest v2 receiver forms for that input (`on` nonce, `ol`/`oh` length and digest of
the ciphertext, `or` result); the model forms its own query and looks it up — if the two queries differ the
lookup misses and the answer is `bad-op`. -/
namespace Driver.D11
open Codec Driver.CO

structure St where
  m : Nat
  key : Bytes
  base : Bytes

def init : St := ⟨0, [], []⟩
def pfx : String := "c11."

/-- the one-entry oracle table carried by the op itself (empty when the op has no `on` field) -/
def inlineTable (meth : Nat) (key : Bytes) (m : KV) : Option Table :=
  match get m "on" with
  | none => some []
  | some _ => do
    let nonce ← getHex m "on"
    let inLen ← getNat m "ol"
    let inH ← getHex m "oh"
    let outS ← get m "or"
    let out ← if outS == "fail" then some none else (Hex.toBytes outS).map some
    pure [⟨false, meth, key, nonce, inLen, UInt64.ofNat (beNat inH), out⟩]

def verdict (o : DOut) : String :=
  match o with
  | .ok _ => "accept " ++ showD o
  | _ => "reject " ++ showD o

def decode (meth : Nat) (key msg : Bytes) (m : KV) : Option String := do
  let t ← inlineTable meth key m
  let o ← runDec t meth key msg
  pure (verdict o)

def flipBit (msg : Bytes) (pos bit : Nat) : Bytes := msg.modify pos (· ^^^ (UInt8.ofNat (2 ^ bit)))

def step (st : St) (cmd : String) (m : KV) : Option (St × String) :=
  match cmd with
  | "c11.base" => do
    let meth ← getNat m "m"
    let key ← getHex m "key"
    let msg ← getHex m "msg"
    let r ← decode meth key msg m
    pure (⟨meth, key, msg⟩, r)
  | "c11.flip" => do
    let pos ← getNat m "pos"
    let bit ← getNat m "bit"
    if pos ≥ st.base.length || bit ≥ 8 then none
    let r ← decode st.m st.key (flipBit st.base pos bit) m
    pure (st, r)
  | "c11.patch" => do
    -- overwrite bytes of the base message starting at pos
    let pos ← getNat m "pos"
    let v ← getHex m "hex"
    if pos + v.length > st.base.length then none
    let r ← decode st.m st.key (putAt st.base pos v) m
    pure (st, r)
  | "c11.trunc" => do
    let n ← getNat m "n"
    if n > st.base.length then none
    let r ← decode st.m st.key (st.base.take n) m
    pure (st, r)
  | "c11.ext" => do
    let v ← getHex m "hex"
    let r ← decode st.m st.key (st.base ++ v) m
    pure (st, r)
  | "c11.foreign" => do
    -- the base message decoded under another method / key
    let meth ← getNat m "m"
    let key ← getHex m "key"
    let r ← decode meth key st.base m
    pure (st, r)
  | "c11.dec" => do
    let meth ← getNat m "m"
    let key ← getHex m "key"
    let msg ← getHex m "msg"
    let r ← decode meth key msg m
    pure (st, r)
  | _ => none

end Driver.D11
