import Driver.Util
import CloakModel.Model.UserStore

/-! driver ops `db.*` — user database + admin API + activation (C18).  JSON/base64 stay on the Go side:
op lines carry the decoded request (`-` = field absent, `body=bad` = undecodable, `url=bad|empty`). -/
namespace Driver.D18
open US

/-- the database, and the list results the caller still holds (`db.hold`), oldest first -/
abbrev St := Store × List (List (Held × Rec))
def init : St := ([], [])
def pfx : String := "db."

def optInt (m : KV) (k : String) : Option (Option Int) :=
  match get m k with
  | none => none
  | some "-" => some none
  | some v => (v.toInt?).map some

def getUrl (m : KV) : Option Url :=
  match get m "url" with
  | some "empty" => some .empty
  | some "bad" => some .bad
  | some h => (Hex.toBytes h).map .ok
  | none => none

def getUidOrDash (m : KV) (k : String) : Option Bytes :=
  match get m k with
  | some "-" => some []
  | some h => Hex.toBytes h
  | none => none

def showRec (r : Rec) : String :=
  s!"cap={r.cap} up={r.upRate} down={r.downRate} upc={r.upCredit} downc={r.downCredit} exp={r.expiry}"

def showPanic : Panic → String
  | .indexOutOfRange => "panic index"
  | .tokenBucket => "panic bucket"

def insertBy (x : String × String) : List (String × String) → List (String × String)
  | [] => [x]
  | y :: r => if x.1 < y.1 then x :: y :: r else y :: insertBy x r

def sortBy (l : List (String × String)) : List (String × String) := l.foldl (fun acc x => insertBy x acc) []

def showAuth : AuthRes → String
  | .notFound => "notfound" | .noUp => "noup" | .noDown => "nodown" | .expired => "expired"
  | .ok u d => s!"ok up={u} down={d}"

def showAuthz : AuthzRes → String
  | .notFound => "notfound" | .noUp => "noup" | .noDown => "nodown" | .expired => "expired"
  | .capReached => "capreached" | .ok => "ok"

def showMsg : Msg → String
  | .gone => "gone" | .noUp => "noup" | .noDown => "nodown" | .expired => "expired"

def showOut : Out → String
  | .status n => toString n
  | .info n none => toString n
  | .info n (some r) => s!"{n} {showRec r}"
  | .users l =>
    let items := sortBy (l.map fun p => (Hex.ofBytes p.1,
      s!"{p.2.cap},{p.2.upRate},{p.2.downRate},{p.2.upCredit},{p.2.downCredit},{p.2.expiry}"))
    "users [" ++ ";".intercalate (items.map fun p => p.1 ++ ":" ++ p.2) ++ "]"
  | .auth r => showAuth r
  | .authz r => showAuthz r
  | .user (.refused r) => "refused:" ++ showAuth r
  | .user .badRate => "badrate"
  | .user .active => "active"
  | .resps l => "resps [" ++ ",".intercalate (l.map fun p => Hex.ofBytes p.1 ++ ":" ++ showMsg p.2) ++ "]"
  | .ok => "ok"
  | .panic p => showPanic p

def parseUps (s : String) : Option (List Upd) :=
  if s == "-" then some []
  else (s.splitOn ",").mapM fun item =>
    match item.splitOn ":" with
    | [h, a, b] => do
      let uid ← Hex.toBytes h
      let up ← a.toInt?
      let down ← b.toInt?
      pure ⟨uid, up, down⟩
    | _ => none

def showVal : Option Bytes → String
  | none => "-"
  | some b => Hex.ofBytes b

def dump (s : Store) : String :=
  let items := sortBy (s.map fun p => (Hex.ofBytes p.1,
    ",".intercalate (Key.all.map fun k => showVal (p.2 k))))
  "[" ++ ";".intercalate (items.map fun p => p.1 ++ "{" ++ p.2 ++ "}") ++ "]"

def parseOp (cmd : String) (m : KV) : Option Op :=
  match cmd with
  | "db.post" => do
    let u ← getUrl m
    match get m "body" with
    | some "bad" => pure (.post u .bad)
    | some "ok" =>
      let uid ← getUidOrDash m "buid"
      let c ← optInt m "cap"
      let ur ← optInt m "up"
      let dr ← optInt m "down"
      let uc ← optInt m "upc"
      let dc ← optInt m "downc"
      let e ← optInt m "exp"
      pure (.post u (.ok ⟨uid, c, ur, dr, uc, dc, e⟩))
    | _ => none
  | "db.get" => do pure (.get (← getUrl m))
  | "db.list" => pure .list
  | "db.del" => do pure (.del (← getUrl m))
  | "db.auth" => do pure (.auth (← getUidOrDash m "uid") (← getInt m "now"))
  | "db.authz" => do pure (.authz (← getUidOrDash m "uid") (← getInt m "n") (← getInt m "now"))
  | "db.upload" => do pure (.upload (← (get m "ups").bind parseUps) (← getInt m "now"))
  | "db.getuser" => do pure (.getUser (← getUidOrDash m "uid") (← getInt m "now"))
  | "db.reopen" => pure .reopen
  | _ => none

def heldUid : Held → Bytes
  | .own bs => bs
  | .txmem bs => bs

/-- `items=orig:seen,...` — for each entry of a held list result, the UID it had when returned and the UID
it shows now (`!` = looking at it faulted) -/
def parseItems (s : String) : Option (List (Bytes × Option Bytes)) :=
  if s == "-" then some []
  else (s.splitOn ",").mapM fun item =>
    match item.splitOn ":" with
    | [o, "!"] => do pure (← Hex.toBytes o, none)
    | [o, n] => do pure (← Hex.toBytes o, some (← Hex.toBytes n))
    | _ => none

/-- validate one re-read entry against the model: own memory must still read as returned; database memory
must as long as nothing was committed or closed since (`quiet`), and is unconstrained afterwards -/
def entryOk (quiet : Bool) (h : List (Held × Rec)) (e : Bytes × Option Bytes) : Bool :=
  match h.find? (fun p => heldUid p.1 == e.1) with
  | none => false
  | some (.own bs, _) => e.2 == some bs
  | some (.txmem bs, _) => !quiet || e.2 == some bs

def step (st : St) (cmd : String) (m : KV) : Option (St × String) :=
  match cmd with
  | "db.new" => pure (([], []), "ok")
  | "db.dump" => pure (st, dump st.1)
  | "db.hold" =>
    -- `UserManager.ListAllUsers` called directly; the caller keeps the returned value
    match listAllUsers genFacts st.1 with
    | .ok l => pure ((st.1, st.2 ++ [listHeld genFacts l]), showOut (.users l))
    | .error p => pure (st, showPanic p)
  | "db.reread" => do
    let k ← getNat m "k"
    let quiet ← getBool m "quiet"
    let items ← (get m "items").bind parseItems
    let h ← st.2[k]?
    if items.length ≠ h.length ∨ !(items.all (entryOk quiet h)) then pure (st, "not-what-the-model-allows")
    else if items.all (fun e => e.2 == some e.1) then pure (st, "same") else pure (st, "changed")
  | _ => do
    let op ← parseOp cmd m
    let r := US.step genFacts st.1 op
    pure ((r.1, st.2), showOut r.2)

end Driver.D18
