import Driver.Util
import CloakModel.Model.Connector

/-! driver ops `mk.*` — client.MakeSession as an event machine, common.backoff / RandRead / RandInt (C06, connector) -/
namespace Driver.D06c
open Connector

structure St where
  cfg : Cfg
  s : Connector.St

def init : St := { cfg := ⟨0, false, false, 0⟩, s := Connector.init "direct" 0 0 }
def pfx : String := "mk."

def b01 (b : Bool) : String := if b then "1" else "0"

def showOut : Out → St → String
  | .waiting, _ => "waiting"
  | .panic, _ => "panic"
  | .blocked, _ => "blocked"
  | .ok z, st =>
    s!"ok sid={z.id} key={z.key} nconns={z.conns.length} conns={showNats z.conns} closed={showNats st.s.closed} dials={st.s.dials} " ++
    s!"sp={b01 z.singleplex} un={b01 z.unordered} limit={z.msgOnWireSizeLimit} valvenil={b01 z.valveNil} panicked={b01 st.s.panicked}"

def step (st : St) (cmd : String) (m : KV) : Option (St × String) :=
  match cmd with
  | "mk.new" => do
    let mode ← get m "mode"
    let br ← getInt m "br"
    let n ← getNat m "n"
    let sp ← getBool m "sp"
    let un ← getBool m "un"
    let sid ← getNat m "sid"
    pure ({ cfg := ⟨n, sp, un, sid⟩, s := Connector.init mode br n }, "ok")
  | "mk.ev" => do
    -- one attempt of goroutine g: answered with the browser of the transport it creates and the time it has slept so far
    let k ← get m "k"
    let g ← getNat m "g"
    let conn ← getNat m "conn"
    let key ← getNat m "key"
    let e ← match k with
      | "df" => some (Ev.dialFail g)
      | "hf" => some (Ev.hsFail g conn)
      | "ok" => some (Ev.hsOk g conn key)
      | _ => none
    match st.s.gs[g]? with
    | none => pure (st, "no-such-goroutine")
    | some x =>
      if x.done then pure (st, "finished")
      else
        -- a failed dial shows no ClientHello: the browser of that attempt is not observable
        let b := if k == "df" then "-" else toString x.browser
        pure ({ st with s := Connector.step st.s e }, s!"br={b} at={x.slept}")
  | "mk.end" => pure (st, showOut (assemble st.cfg st.s) st)
  | "mk.backoff" => do
    -- ok = comma-separated 0/1: outcome of the i-th call of f (beyond the list: failure)
    let oks := ((← get m "ok").splitOn ",").map (· == "1")
    let src : Nat → Bool := fun i => match oks[i]? with | some b => b | none => false
    match backoff src with
    | .returned c sl => pure (st, s!"returned calls={c} slept={sl}")
    | .fatal c sl => pure (st, s!"fatal calls={c} slept={sl}")
  | "mk.randint" => do
    -- validates a draw of the real RandInt: the model's range for this n
    let n ← getInt m "n"
    let r ← getInt m "r"
    match randInt n r.toNat with
    | none => pure (st, "panic")
    | some v => pure (st, if 0 ≤ r ∧ v = r then "in-range" else "out-of-range")
  | _ => none

end Driver.D06c
