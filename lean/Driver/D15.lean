import Driver.PanelOps

/-! driver ops `sess.*` — session admission / closure on the bookkeeping model (C15; C17's orphan replay) -/
namespace Driver.D15

abbrev St := Panel.St
def init : St := Panel.init
def pfx : String := "sess."

def step (st : St) (cmd : String) (m : KV) : Option (St × String) :=
  Driver.PanelOps.step st (String.ofList (cmd.toList.drop 5)) m

end Driver.D15
