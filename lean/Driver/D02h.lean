import Driver.Util
import CloakModel.Model.GoHeap

/-! driver ops `hp.*` — Go's `container/heap` over `sorterHeap` (array layout after every operation) and
`streamBuffer.Write` on top of it (C02, heap part) -/
namespace Driver.D02h

structure St where
  h : GoHeap.Heap
  sb : GoHeap.SBH

def init : St := ⟨#[], GoHeap.initH 0⟩
def pfx : String := "hp."

def layout (h : GoHeap.Heap) : String := showNats (h.toList.map (·.seq))

def step (st : St) (cmd : String) (m : KV) : Option (St × String) :=
  match cmd with
  | "hp.new" => pure ({ st with h := #[] }, "ok")
  | "hp.push" => do
    let seq ← getNat m "seq"
    let h' := GoHeap.heapPush st.h ⟨seq, false, []⟩
    pure ({ st with h := h' }, layout h')
  | "hp.pop" =>
    if hz : 0 < st.h.size then
      let r := GoHeap.heapPop st.h hz
      pure ({ st with h := r.2 }, s!"k={r.1.seq} {layout r.2}")
    else pure (st, "panic")
  | "hp.sbnew" => do
    let n ← getNat m "next"
    pure ({ st with sb := GoHeap.initH n }, "ok")
  | "hp.sbwrite" => do
    let seq ← getNat m "seq"
    let c ← getNat m "closing"
    let pl ← getHex m "pl"
    let (sb', o) := GoHeap.writeH st.sb ⟨seq, c != 0, pl⟩
    let os := match o with | .ok => "ok" | .close => "close" | .errOld => "errOld"
    pure ({ st with sb := sb' }, s!"{os} next={sb'.next} heap={layout sb'.heap} buf={sb'.buf.length}")
  | _ => none

end Driver.D02h
