import Driver.Util
import CloakModel.Model.DgPipe

/-! driver ops `dg.*` — the datagram pipe of one unordered stream, the unordered `Stream.Write`, and the
receiving session's stream table (C14) -/
namespace Driver.D14

structure St where
  pipe : DG.Pipe
  sess : DG.Sess
  max  : Int

def init : St := ⟨DG.Pipe.empty, [], 0⟩
def pfx : String := "dg."

def fnv (b : Bytes) : Nat := b.foldl (fun h x => ((h ^^^ x.toNat) * 16777619) % 4294967296) 2166136261

def showR : DG.ROut → String
  | .data d => s!"data n={d.length} h={fnv d}"
  | .eof => "eof"
  | .short => "short"
  | .block => "block"

def showW : DG.WOut → String
  | .ok => "ok"
  | .closedNow => "close"
  | .refused => "closed"

def showPipe (p : DG.Pipe) : String :=
  s!"lens={showNats p.lens} buf={p.buf.length} closed={if p.closed then 1 else 0}"

def step (st : St) (cmd : String) (m : KV) : Option (St × String) :=
  match cmd with
  | "dg.new" => pure ({ st with pipe := DG.Pipe.empty }, "ok")
  | "dg.write" => do
    let c ← getNat m "closing"
    let pl ← getHex m "pl"
    let (p, o) := DG.write st.pipe c pl
    pure ({ st with pipe := p }, showW o)
  | "dg.read" => do
    let cap ← getNat m "cap"
    let (p, o) := DG.read st.pipe cap
    pure ({ st with pipe := p }, showR o)
  | "dg.close" => pure ({ st with pipe := DG.close st.pipe }, "ok")
  | "dg.state" => pure (st, showPipe st.pipe)
  | "dg.snew" => do
    let limit ← getInt m "limit"
    pure ({ st with sess := [], max := DG.maxUnit limit }, s!"ok max={DG.maxUnit limit}")
  | "dg.swrite" => do
    let u ← getBool m "u"
    let n ← getNat m "n"
    let (frames, e) := DG.swrite u st.max (List.replicate n 0)
    let es := match e with | .ok => "ok" | .errShortBuffer => "short-buffer" | .outOfFuel => "out-of-fuel"
    pure (st, s!"frames={showNats (frames.map List.length)} err={es}")
  | "dg.entry" => do
    -- client.RouteUDP: a datagram of n bytes on the local UDP socket
    let n ← getNat m "n"
    let (frames, e) := DG.udpEntry st.max (List.replicate n 0)
    let es := match e with | .ok => "ok" | .errShortBuffer => "short-buffer" | .outOfFuel => "out-of-fuel"
    pure (st, s!"frames={showNats (frames.map List.length)} err={es}")
  | "dg.sreadfrom" => do
    -- Stream.ReadFrom on an unordered stream: packet source holding one datagram / byte source holding n bytes
    let pkt ← getBool m "pkt"
    let n ← getNat m "n"
    let (frames, e) := if pkt then DG.readFromPkt true st.max (List.replicate n 0)
                       else DG.readFromStream true st.max (List.replicate n 0)
    let es := match e with | .ok => "0" | .errShortBuffer => "1" | .outOfFuel => "out-of-fuel"
    pure (st, s!"frames={showNats (frames.map List.length)} refused={es}")
  | "dg.sdeliver" => do
    let sid ← getNat m "sid"
    let c ← getNat m "closing"
    let pl ← getHex m "pl"
    let (s, _) := st.sess.deliver ⟨sid, c, pl⟩
    match s.get sid with
    | some p => pure ({ st with sess := s }, showPipe p)
    | none => none
  | "dg.sread" => do
    let sid ← getNat m "sid"
    let cap ← getNat m "cap"
    let (s, o) := st.sess.sread sid cap
    pure ({ st with sess := s }, match o with | .r x => showR x | .noStream => "nostream")
  | "dg.sclose" => do
    let sid ← getNat m "sid"
    match st.sess.get sid with
    | some p => pure ({ st with sess := st.sess.set sid (DG.close p) }, "ok")
    | none => pure (st, "nostream")
  | _ => none

end Driver.D14
