import Driver.Util
import CloakModel.Model.ReorderBuf

/-! driver ops `sb.*` — the reorder buffer + byte pipe of one ordered stream (C02, C03) -/
namespace Driver.D02

abbrev St := RB.SB
def init : St := RB.init 0
def pfx : String := "sb."

def step (st : St) (cmd : String) (m : KV) : Option (St × String) :=
  match cmd with
  | "sb.new" => do
    let n ← getNat m "next"
    pure (RB.init n, "ok")
  | "sb.write" => do
    let seq ← getNat m "seq"
    let c ← getNat m "closing"
    let pl ← getHex m "pl"
    let (sb', o) := RB.write st ⟨seq, c != 0, pl⟩
    let os := match o with | .ok => "ok" | .close => "close" | .errOld => "errOld"
    pure (sb', os)
  | "sb.read" => do
    let k ← getNat m "n"
    let (sb', o) := RB.read st k
    let os := match o with | .data b => "data " ++ Hex.ofBytes b | .eof => "eof" | .block => "block"
    pure (sb', os)
  | "sb.close" => pure (RB.close st, "ok")
  | "sb.state" =>
    pure (st, s!"next={st.next} heap={showNats (st.heap.map (·.seq))} buf={st.buf.length}")
  | _ => none

end Driver.D02
