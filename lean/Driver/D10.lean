import Driver.Util
import CloakModel.Model.TLSWire

/-! driver ops `tls.*` — direct-mode wire format (C10): the Lean mirror of what Cloak writes, and the RFC 8446
validator applied to bytes tapped between a real client and a real server -/
namespace Driver.D10
open TLSWire

abbrev St := Unit
def init : St := ()
def pfx : String := "tls."

def recStats (l : List Rec) : String :=
  s!"records={l.length} max={l.foldl (fun m r => max m r.body.length) 0}"

def step (st : St) (cmd : String) (m : KV) : Option (St × String) :=
  match cmd with
  | "tls.consts" =>
    -- the largest length TLSConn.Write accepts, found from the extracted guard
    let lim : Nat := (List.range 70000).foldl (fun acc n => if Gen.Wire.tlsTooLong (n : Nat) then acc else n) 0
    pure (st, s!"ver11={Gen.Wire.versionTLS11} ver13={Gen.Wire.versionTLS13} rl={Gen.Wire.recordLayerLength} hs={Gen.Wire.handshakeType} " ++
              s!"app={Gen.Wire.applicationDataType} limitC={Gen.Wire.appDataMaxLengthClient} limitS={Gen.Wire.appDataMaxLengthServer} tlsmax={lim}")
  | "tls.reply" => do
    let sid ← getHex m "sid"
    let nonce ← getHex m "nonce"
    let enc ← getHex m "enc"
    let rand4 ← getHex m "rand4"
    let cert ← getHex m "cert"
    if nonce.length != 12 || enc.length != 48 || rand4.length != 4 then none
    match composeReply sid nonce enc rand4 cert with
    | some r => pure (st, Hex.ofBytes r)
    | none => pure (st, "none")
  | "tls.write" => do
    let inp ← getHex m "in"
    match tlsWrite inp with
    | some r => pure (st, Hex.ofBytes r)
    | none => pure (st, "too-long")
  | "tls.chrec" => do
    let ch ← getHex m "ch"
    pure (st, Hex.ofBytes (clientHelloRecord ch))
  | "tls.flight" => do
    let sid ← getHex m "sid"
    let b ← getHex m "bytes"
    pure (st, if validServerFlight sid b then "valid" else "invalid")
  | "tls.server" => do
    let sid ← getHex m "sid"
    let b ← getHex m "bytes"
    match records b with
    | some l => pure (st, if validServerStream sid b then "valid " ++ recStats l else "invalid")
    | none => pure (st, "invalid")
  | "tls.client" => do
    let b ← getHex m "bytes"
    match validClientStream b, records b with
    | some f, some l => pure (st, s!"valid sid={Hex.ofBytes f.sid} sni={Hex.ofBytes f.sni} share={Hex.ofBytes f.share} random={Hex.ofBytes f.random} " ++ recStats l)
    | _, _ => pure (st, "invalid")
  | "tls.app" => do
    let b ← getHex m "bytes"
    match records b with
    | some l => pure (st, if validAppStream b then "valid " ++ recStats l else "invalid")
    | none => pure (st, "invalid")
  | _ => none

end Driver.D10
