import Driver.Util
import Driver.D14
import CloakModel.Model.PipeDeadline

/-! driver ops `pdl.*` — the datagram pipe with read deadlines on a virtual clock (C14, `Model/PipeDeadline.lean`) -/
namespace Driver.D14d

abbrev St := PDL.St
def init : St := PDL.init
def pfx : String := "pdl."

def showO : PDL.Out → String
  | .r o => Driver.D14.showR o
  | .timeout => "timeout"
  | .park => "park"

def showOpt : Option PDL.Out → String
  | some o => showO o
  | none => "-"

def showSt (s : St) : String :=
  s!"{Driver.D14.showPipe s.p} now={s.now} parked={if s.pending.isSome then 1 else 0}"

def step (st : St) (cmd : String) (m : KV) : Option (St × String) :=
  match cmd with
  | "pdl.new" => pure (PDL.init, "ok")
  | "pdl.w" => do
    let c ← getNat m "closing"
    let pl ← getHex m "pl"
    let (s, r) := PDL.step st (.w c pl)
    let w := match r.w with | some o => Driver.D14.showW o | none => "-"
    pure (s, s!"{w} woke={showOpt r.woke} {showSt s}")
  | "pdl.r" => do
    let cap ← getNat m "cap"
    if st.pending.isSome then none else
    let (s, r) := PDL.step st (.r cap)
    pure (s, s!"{showOpt r.r} {showSt s}")
  | "pdl.c" =>
    let (s, r) := PDL.step st .c
    pure (s, s!"ok woke={showOpt r.woke} {showSt s}")
  | "pdl.dl" => do
    -- at=-1 clears the deadline (the zero time), otherwise ns on the virtual clock
    let a ← getInt m "at"
    let (s, r) := PDL.step st (.dl (if a < 0 then none else some a.toNat))
    pure (s, s!"ok woke={showOpt r.woke} {showSt s}")
  | "pdl.adv" => do
    let dt ← getNat m "dt"
    let (s, r) := PDL.step st (.adv dt)
    pure (s, s!"ok woke={showOpt r.woke} {showSt s}")
  | _ => none

end Driver.D14d
