import Driver.Util
import CloakModel.Model.Stream

/-! driver ops `st.*` — the two ends (A, B) of one ordered stream (C03): write / close / recv / read /
sessclose on either side.  The harness runs the same operations on a pair of real Sessions and
delivers the captured messages itself, in an order drawn from the seed. -/
namespace Driver.D03

structure St where
  mtu : Nat
  a : ST.Side
  b : ST.Side

def init : St := ⟨16371, ST.init, ST.init⟩
def pfx : String := "st."

def side (st : St) (m : KV) : Option (ST.Side × (ST.Side → St)) :=
  match get m "side" with
  | some "A" => some (st.a, fun s => { st with a := s })
  | some "B" => some (st.b, fun s => { st with b := s })
  | _ => none

def step (st : St) (cmd : String) (m : KV) : Option (St × String) :=
  match cmd with
  | "st.new" => do
    let mtu ← getNat m "mtu"
    pure (⟨mtu, ST.init, ST.init⟩, "ok")
  | "st.write" => do
    let (s, put) ← side st m
    let pl ← getHex m "pl"
    match ST.write st.mtu s pl with
    | (s', .refused) => pure (put s', "refused")
    | (s', .sent fs) =>
      pure (put s', s!"sent seqs={showNats (fs.map (·.seq))} lens={showNats (fs.map (·.payload.length))}")
  | "st.close" => do
    let (s, put) ← side st m
    match ST.close s [] with
    | (s', .repeated) => pure (put s', "repeated")
    | (s', .sent f) => pure (put s', s!"sent seq={f.seq}")
  | "st.recv" => do
    let (s, put) ← side st m
    let seq ← getNat m "seq"
    let c ← getNat m "closing"
    let pl ← getHex m "pl"
    let (s', o) := ST.recv s ⟨seq, c != 0, pl⟩
    let os := match o with | .dropped => "dropped" | .ok => "ok" | .closed => "closed" | .errOld => "errOld"
    pure (put s', os)
  | "st.read" => do
    let (s, put) ← side st m
    let k ← getNat m "n"
    let (s', o) := ST.read s k
    let os := match o with
      | .data b => "data " ++ Hex.ofBytes b | .broken => "broken" | .eof => "eof" | .block => "block"
    pure (put s', os)
  | "st.sessclose" => do
    let (s, put) ← side st m
    pure (put (ST.sessClose s), "ok")
  | "st.state" => do
    let (s, _) ← side st m
    let b := fun (x : Bool) => if x then 1 else 0
    pure (st, s!"closed={b s.closed} tomb={b s.tomb} wseq={s.wseq} next={s.rb.next} heap={showNats (s.rb.heap.map (·.seq))} buf={s.rb.buf.length} pipeclosed={b s.rb.closed}")
  | _ => none

end Driver.D03
