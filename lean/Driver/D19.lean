import Driver.Util
import CloakModel.Model.TokenBucket

/-! driver ops `tb.*` — the token bucket of `juju/ratelimit` as Cloak's valve uses it (C19) -/
namespace Driver.D19

structure St where
  p : TB.P
  b : TB.B

def init : St := ⟨⟨1, 1, 1⟩, ⟨1, 0⟩⟩
def pfx : String := "tb."

def step (st : St) (cmd : String) (m : KV) : Option (St × String) :=
  match cmd with
  | "tb.new" => do
    let rate ← getInt m "rate"
    let cap ← getInt m "cap"
    let q ← getInt m "q"
    let fi ← getInt m "fi"
    if q ≤ 0 ∨ fi ≤ 0 ∨ cap ≤ 0 then none
    else
      let p : TB.P := ⟨cap, q, fi⟩
      pure (⟨p, TB.init p⟩, s!"ok rateOK={if TB.rateOK q fi rate then 1 else 0}")
  | "tb.search" => do
    let rate ← getInt m "rate"
    if rate ≤ 0 then none
    else match TB.search rate with
      | some (q, fi) => pure (st, s!"q={q} fi={fi}")
      | none => pure (st, "none")
  | "tb.take" => do
    let now ← getInt m "now"
    let c ← getInt m "count"
    let (b, w) := TB.takeNs st.p st.b now c
    pure ({ st with b := b }, s!"wait={w}")
  | "tb.avail" => do
    let now ← getInt m "now"
    let (b, a) := TB.availNs st.p st.b now
    pure ({ st with b := b }, s!"avail={a}")
  | _ => none

end Driver.D19
