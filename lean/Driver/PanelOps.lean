import Driver.Util
import CloakModel.Model.Panel

/-! shared executor of the session-bookkeeping ops (`sess.*` for C15, also used by C17's orphan replay) -/
namespace Driver.PanelOps

open Panel

def showPairs (l : List (Nat × Nat)) : String :=
  "[" ++ ",".intercalate ((l.mergeSort (fun a b => a.1 ≤ b.1)).map fun p => s!"{p.1}:{p.2}") ++ "]"

def showRec (rid : Nat) (r : Rec) : String :=
  s!"{rid}/u{r.uid}/b{if r.bypass then 1 else 0}/" ++ showPairs r.sessions

def showState (s : St) : String :=
  let idx := List.range s.recs.length
  let recs := idx.filterMap fun i => (s.recs[i]?).map (showRec i)
  s!"active={showPairs s.active} recs=[{" ".intercalate recs}]"

def step (st : St) (op : String) (m : KV) : Option (St × String) :=
  match op with
  | "new" => pure (Panel.init, "ok")
  | "put" => do
    let u ← getNat m "uid"
    let cap ← getInt m "cap"
    let uc ← getInt m "upc"
    let dc ← getInt m "downc"
    let e ← getInt m "exp"
    pure (Panel.put st u ⟨cap, 0, 0, uc, dc, e⟩, "ok")
  | "del" => do
    let u ← getNat m "uid"
    pure (Panel.del st u, "ok")
  | "getUser" => do
    let u ← getNat m "uid"
    let b ← getBool m "bypass"
    let now ← getInt m "now"
    let (s', r) := Panel.getUser st u b now
    let o := match r with
      | .ok rid fresh => s!"rec={rid} fresh={if fresh then 1 else 0}"
      | .err w => s!"err={w}"
    pure (s', o)
  | "getSession" => do
    let rid ← getNat m "rec"
    let sid ← getNat m "sid"
    let key ← getNat m "key"
    let now ← getInt m "now"
    let (s', r) := Panel.getSession Panel.genCfg st rid sid key now
    let o := match r with
      | .joined k => s!"joined key={k}"
      | .created k => s!"created key={k}"
      | .refused w => s!"refused {w}"
      | .retired => "retired"
      | .noRec => "norec"
    pure (s', o)
  | "closeLocked" => do
    let rid ← getNat m "rec"
    let sid ← getNat m "sid"
    let (s', r) := Panel.closeLocked st rid sid
    pure (s', match r with | some n => s!"remaining={n}" | none => "norec")
  | "closeQuiet" => do  -- a closure whose answer was not observed (ran concurrently); the state is compared afterwards
    let rid ← getNat m "rec"
    let sid ← getNat m "sid"
    pure ((Panel.closeLocked st rid sid).1, "ok")
  | "retire" => do
    let rid ← getNat m "rec"
    pure (Panel.retire Panel.genCfg st rid, "ok")
  | "closeAll" => do
    let rid ← getNat m "rec"
    let (s', ok) := Panel.closeAll st rid
    pure (s', if ok then "ok" else "disabled")
  | "deleteRec" => do
    let rid ← getNat m "rec"
    let (s', ok) := Panel.deleteRec Panel.genCfg st rid
    pure (s', if ok then "ok" else "disabled")
  | "refusedCleanup" => do  -- what dispatchConnection does after GetSession refused (rec, sid), run to completion by one thread
    let rid ← getNat m "rec"
    let sid ← getNat m "sid"
    let (s0, r) := Panel.refusedCleanup Panel.genCfg st rid sid
    match r with
    | none => pure (s0, "norec")
    | some false => pure (s0, "terminate=0 " ++ showState s0)
    | some true =>
      let s1 := Panel.retire Panel.genCfg s0 rid
      let (s2, _) := Panel.closeAll s1 rid
      let (s3, _) := Panel.deleteRec Panel.genCfg s2 rid
      pure (s3, "terminate=1 " ++ showState s3)
  | "refusedCleanupLocked" => do  -- the sessionsM section of that clean-up alone (the thread is parked before TerminateActiveUser)
    let rid ← getNat m "rec"
    let sid ← getNat m "sid"
    let (s0, r) := Panel.refusedCleanup Panel.genCfg st rid sid
    pure (s0, match r with | none => "norec" | some b => s!"terminate={if b then 1 else 0}")
  | "terminate" => do  -- TerminateActiveUser run to completion by one thread
    let rid ← getNat m "rec"
    let s1 := Panel.retire Panel.genCfg st rid
    let (s2, _) := Panel.closeAll s1 rid
    let (s3, _) := Panel.deleteRec Panel.genCfg s2 rid
    pure (s3, showState s3)
  | "state" => pure (st, showState st)
  | "single" => pure (st, if Panel.singleRecordB st then "1" else "0")
  | _ => none

end Driver.PanelOps
