import CloakModel.Model.SessionSM
import CloakModel.Model.ReorderBuf

/-! The Go *operations* of a session as sequences of `SM` events (program order of the Go code), plus
the per-stream receive buffers (`RB`).  This is what the driver replays against the implementation at
quiescent points (C12, C01). -/
namespace SO
open SM

structure Side where
  sm     : SM.St := {}
  rbs    : List (Nat × RB.SB) := []   -- receive buffer of every stream object created on this side
  timers : List Nat := []             -- absolute fire times of armed `checkTimeout` timers
  notice : Nat := 0                   -- session-closing notices sent (ghost)
  csent  : Nat := 0                   -- stream-closing frames sent (ghost)
  wfail  : Bool := false              -- every connection of this side fails on Write (the reset was seen by the writer first)

def ev (sd : Side) (e : Ev) : Side × Res :=
  let (s, r) := SM.step sd.sm e
  ({ sd with sm := s }, r)

def getRB (sd : Side) (id : Nat) : Option RB.SB := (sd.rbs.find? (·.1 == id)).map (·.2)
def setRB (sd : Side) (id : Nat) (sb : RB.SB) : Side :=
  if sd.rbs.any (·.1 == id) then { sd with rbs := sd.rbs.map (fun p => if p.1 == id then (id, sb) else p) }
  else { sd with rbs := (id, sb) :: sd.rbs }

/-- `closeSession` + `closeAll` (passiveClose), or + notice + `closeAll` (Close) -/
def sessClose (sd : Side) (active : Bool) (timer : Bool := false) : Side × Res :=
  -- the CAS on `closed`: the timer goroutine's own one is a distinct (ghost-instrumented) event
  let (sd, r) := ev sd (if timer then .tmoCas else .cas)
  if r != .ok then (sd, .repeat_)
  else
    let (sd, _) := ev sd .sweep
    let sd := { sd with rbs := sd.rbs.map (fun p => (p.1, RB.close p.2)) }  -- every open stream's pipe is closed; closing an already closed pipe is idempotent
    if active ∧ sd.wfail then
      -- `Close`: the notice cannot be sent; `send` calls passiveClose (a repeat, so no closeAll) and `Close` returns the error:
      -- whether its own closeAll still runs is what the source says (deferred before the send, or placed after it)
      if Gen.Session.closeSweepsEvenIfNoticeFails then ((ev sd .closeAll).1, .refused)
      else (sd, .refused)
    else
      let sd := if active then { sd with notice := sd.notice + 1 } else sd
      let (sd, _) := ev sd .closeAll
      (sd, .ok)

/-- what happens after `streamCountDecr() == 0` -/
def afterDecr (sd : Side) (now inact : Nat) : Side :=
  if sd.sm.count == 0 then
    if sd.sm.singleplex then (sessClose sd true).1
    else { sd with timers := sd.timers ++ [now + inact] }
  else sd

def entOf (sd : Side) (id : Nat) : Option Ent := (sd.sm.tbl.find? (·.1 == id)).map (·.2)

/-- `closeStream(s, active)` -/
def closeStream (sd : Side) (id : Nat) (active : Bool) (now inact : Nat) : Side × Res :=
  let (sd, r) := ev sd (.csCAS id)
  if r != .ok then (sd, .repeat_)
  else
    let sd := match getRB sd id with
      | some sb => setRB sd id (RB.close sb)
      | none => sd
    if active ∧ sd.wfail then
      -- the closing frame cannot be sent: `send` tears the session down (passiveClose) and closeStream returns the error
      -- before the tombstone and the count--
      ((sessClose sd false).1, .refused)
    else
    let sd := if active then { sd with csent := sd.csent + 1 } else sd   -- the closing frame is on the wire
    let (sd, _) := ev sd (.csTomb id)
    let (sd, _) := ev sd .csDecr
    (afterDecr sd now inact, .ok)

def openStream (sd : Side) : Side × Res × Nat :=
  let (sd, r) := ev sd .openCheck
  if r == .refused then (sd, .refused, 0)
  else
    let id := sd.sm.nextId
    let (sd, r) := ev sd .openInsert
    if r != .ok then (sd, r, id)
    else
      let (sd, _) := ev sd .openIncr
      (setRB sd id (RB.init 0), .ok, id)

/-- `recvDataFromRemote` of a decoded frame -/
def recv (sd : Side) (sid seq closing : Nat) (pl : Bytes) (now inact : Nat) : Side × String :=
  if closing == 2 then
    let (sd, r) := sessClose sd false
    (sd, if r == .ok then "sessclose" else "repeat")
  else if sd.sm.closed then (sd, "refused")
  else
    let (sd, isNew) :=
      match entOf sd sid with
      | some _ => (sd, false)
      | none =>
        let (sd, r) := ev sd (.recvNew sid)
        if r == Res.ok then
          let (sd, _) := ev sd .recvIncr
          (setRB sd sid (RB.init 0), true)
        else if r == Res.refused && Gen.Session.refusedStreamClosedActively && !sd.sm.closed then
          -- refused (accept backlog full) and told: count++ after the unlock, then `go newStream.Close()`
          let (sd, _) := ev sd .recvIncr
          let sd := setRB sd sid (RB.init 0)
          ((closeStream sd sid true now inact).1, false)
        else if r == Res.refused && Gen.Session.refusedStreamToldFromQueue && !sd.sm.closed then
          -- refused (accept backlog full; the id is a tombstone now) and queued for the teller, which sends one
          -- stream-closing frame for it; a failing send tears the session down, as every failing send does
          -- (the queue is as long as the backlog: assumed not full)
          if sd.wfail then ((sessClose sd false).1, false)
          else ({ sd with csent := sd.csent + 1 }, false)
        else (sd, false)   -- refused: the accept backlog is full; the id is now a tombstone
    match entOf sd sid with
    | some .tomb => (sd, "dropped")
    | none => (sd, "bad")
    | some _ =>
      match getRB sd sid with
      | none => (sd, "bad")
      | some sb =>
        let (sb', o) := RB.write sb ⟨seq, closing != 0, pl⟩
        let sd := setRB sd sid sb'
        match o with
        | .close =>
          let (sd, _) := closeStream sd sid false now inact
          (sd, if isNew then "new+closed" else "closed")
        | .errOld => (sd, "errOld")
        | .ok => (sd, if isNew then "new" else "ok")

def fireTimers (sd : Side) (now : Nat) : Side :=
  let due := sd.timers.filter (· ≤ now)
  let sd := { sd with timers := sd.timers.filter (fun t => ¬ t ≤ now) }
  due.foldl (fun sd _ =>
    let (sd, r) := ev sd .checkTimeout
    if r == .ok then (sessClose sd true true).1 else sd) sd

def showEnts (sd : Side) (e : Ent) : String :=
  let ids := (sd.sm.tbl.filter (·.2 == e)).map (·.1)
  let sorted := ids.toArray.qsort (· < ·) |>.toList
  "[" ++ ",".intercalate (sorted.map toString) ++ "]"

def b2s (b : Bool) : String := if b then "1" else "0"

def stateStr (sd : Side) : String :=
  let c := sd.sm.count % 4294967296
  s!"closed={b2s sd.sm.closed} count={c} open={showEnts sd .opn} closing={showEnts sd .closing} tomb={showEnts sd .tomb} accq={sd.sm.accq.length} broken={b2s sd.sm.broken} sent={sd.csent}/{sd.notice}"

end SO
