import CloakModel.Gen.Connector

/-! # `client.MakeSession` as a state machine, `common.backoff` / `RandRead` / `RandInt`

`MakeSession` starts `NumConn` goroutines; each loops `CreateTransport → Dial → Handshake` until a handshake succeeds,
sleeping after every failure, then stores the session key it was given, sends its transport into the channel and
reports done.  After all have reported, the key stored LAST becomes the obfuscator's key and `NumConn` transports are
taken from the channel and added to the new session.

The model is an event machine: an event is what ONE attempt of goroutine `g` met (dial failed / handshake failed on the
connection `conn` / handshake succeeded on `conn` and returned `key`); any interleaving of the goroutines is a list of
events.  What each branch does (close? fall back? how long it sleeps; the fall-back condition and target) comes from
`Gen.Connector`. -/

namespace Connector
open Gen.Connector

/-- one goroutine: its OWN copy of `transportConfig.browser`, whether it has reported done, virtual ns slept -/
structure G where
  browser : Int
  done : Bool
  slept : Int
  deriving Repr, DecidableEq

inductive Ev
  | dialFail (g : Nat)
  | hsFail (g : Nat) (conn : Nat)
  | hsOk (g : Nat) (conn : Nat) (key : Nat)
  deriving Repr, DecidableEq

structure St where
  mode : String
  gs : List G
  /-- `_sessionKey` (an `atomic.Value`): `none` = nothing stored yet -/
  stored : Option Nat
  /-- `connsCh`: (connection, key its handshake returned), in sending order -/
  ch : List (Nat × Nat)
  /-- connections whose transport was closed -/
  closed : List Nat
  dials : Nat
  /-- per attempt, in order: (goroutine, browser of the transport it created) -/
  attempts : List (Nat × Int)
  /-- `Close()` of a transport that never got a connection (nil embedded `*TLSConn`): nil dereference -/
  panicked : Bool
  deriving Repr

def init (mode : String) (browser : Int) (numConn : Nat) : St :=
  { mode := mode, gs := List.replicate numConn { browser := browser, done := false, slept := 0 },
    stored := none, ch := [], closed := [], dials := 0, attempts := [], panicked := false }

/-- the browser after a failure branch that contains (or not) the fall-back statement -/
def afterFail (has : Bool) (mode : String) (b : Int) : Int :=
  if has && fallbackCond mode b then fallbackBrowser b else b

def evG : Ev → Nat
  | .dialFail g => g
  | .hsFail g _ => g
  | .hsOk g _ _ => g

/-- an attempt of goroutine `g` exists only while `g` is one of the goroutines and has not finished -/
def enabled (s : St) (e : Ev) : Bool :=
  match s.gs[evG e]? with
  | some x => !x.done
  | none => false

def step (s : St) (e : Ev) : St :=
  match s.gs[evG e]? with
  | none => s
  | some x =>
    if x.done then s else
    match e with
    | .dialFail g =>
      { s with gs := s.gs.set g { x with browser := afterFail dialFailFallsBack s.mode x.browser, slept := x.slept + sleepDialFail }
               dials := s.dials + 1, attempts := s.attempts ++ [(g, x.browser)]
               panicked := s.panicked || dialFailCloses }
    | .hsFail g c =>
      { s with gs := s.gs.set g { x with browser := afterFail hsFailFallsBack s.mode x.browser, slept := x.slept + sleepHsFail }
               dials := s.dials + 1, attempts := s.attempts ++ [(g, x.browser)]
               closed := if hsFailCloses then s.closed ++ [c] else s.closed }
    | .hsOk g c k =>
      { s with gs := s.gs.set g { x with done := true }
               dials := s.dials + 1, attempts := s.attempts ++ [(g, x.browser)]
               stored := some k, ch := s.ch ++ [(c, k)] }

def run (s : St) (evs : List Ev) : St := evs.foldl step s

/-! ### the assembly after `wg.Wait()` -/

structure Cfg where
  numConn : Nat
  singleplex : Bool
  unordered : Bool
  sessionId : Nat
  deriving Repr, DecidableEq

structure Sesh where
  id : Nat
  key : Nat
  conns : List Nat
  singleplex : Bool
  unordered : Bool
  msgOnWireSizeLimit : Int
  valveNil : Bool
  deriving Repr, DecidableEq

inductive Out
  | waiting                -- `wg.Wait()` has not returned: some goroutine is still trying
  | panic                  -- `_sessionKey.Load().([32]byte)` on an empty atomic.Value
  | blocked                -- fewer transports in the channel than the adding loop wants
  | ok (s : Sesh)
  deriving Repr, DecidableEq

def countDone : List G → Nat
  | [] => 0
  | x :: xs => (if x.done then 1 else 0) + countDone xs

def allDone (gs : List G) : Bool := gs.all (·.done)

def lookupField (k : String) : Option String := (seshConfigFields.find? (·.1 == k)).map (·.2)

/-- a Boolean field of the SessionConfig literal, by the expression it is initialised from -/
def boolField (cfg : Cfg) (k : String) : Option Bool :=
  match lookupField k with
  | some "connConfig.Singleplex" => some cfg.singleplex
  | some "authInfo.Unordered" => some cfg.unordered
  | some "true" => some true
  | some "false" => some false
  | _ => none

def assemble (cfg : Cfg) (s : St) : Out :=
  if !allDone s.gs then .waiting
  else match s.stored with
  | none => .panic
  | some k =>
    if s.ch.length < cfg.numConn then .blocked
    else match boolField cfg "Singleplex", boolField cfg "Unordered" with
      | some sp, some un =>
        .ok { id := cfg.sessionId, key := k, conns := (s.ch.take cfg.numConn).map (·.1), singleplex := sp, unordered := un,
              msgOnWireSizeLimit := if lookupField "MsgOnWireSizeLimit" = some "appDataMaxLength" then appDataMaxLength else 0,
              valveNil := lookupField "Valve" = some "nil" }
      | _, _ => .blocked

/-! ### `common.backoff`, `RandRead`, `RandInt` -/

inductive BOut
  | returned (calls : Nat) (slept : Int)
  | fatal (calls : Nat) (slept : Int)       -- `log.Fatal`: the process exits
  deriving Repr, DecidableEq

/-- the retry loop: `src i` = the i-th call of `f` returned a nil error; one entry of the wait table per round,
slept AFTER the failed retry -/
def retryLoop (src : Nat → Bool) : List Int → Nat → Int → BOut
  | [], calls, slept => .fatal calls slept
  | w :: ws, calls, slept => if src calls then .returned (calls + 1) slept else retryLoop src ws (calls + 1) (slept + w)

def backoff (src : Nat → Bool) : BOut :=
  if src 0 then .returned 1 0 else retryLoop src (backoffWaits.take backoffRetries) 1 0

/-- `RandRead`: the source's i-th `Read` returns (bytes read, error is nil); only the error is looked at -/
def randRead (src : Nat → Nat × Bool) : BOut := backoff (fun i => (src i).2)

/-- `RandInt n` given the number `crypto/rand.Int` draws below its bound (`none`: rand.Int panics on a bound ≤ 0) -/
def randInt (n : Int) (draw : Nat) : Option Int :=
  if randIntBound n ≤ 0 then none else some ((draw : Int) % randIntBound n)

end Connector
