import CloakModel.Model.Basic
import CloakModel.Model.Codec
import CloakModel.Gen.Wire

/-! Direct-mode wire format (C10).

Part 1 mirrors the Go code that puts bytes on the wire — `composeServerHello`, `composeReply`, the server's
`addRecordLayer`, `common.AddRecordLayer` (ClientHello) and `TLSConn.Write` — built from the literals and
slice bounds the extractor read from the source (`Gen.Wire.*`).

Part 2 is an independent *validator*, written from RFC 8446 (record layer §5.1, ClientHello §4.1.2,
ServerHello §4.1.3, extensions §4.2) with literal numbers only.  It is the oracle of C10: the theorems say the
bytes of part 1 satisfy it; the harness feeds it the bytes tapped between a real client and a real server. -/

namespace TLSWire
open Gen.Wire

/-! ## Part 1: what Cloak writes -/

/-- `uint16(n)` big-endian (Go's conversions truncate) -/
def be16 (n : Nat) : Bytes := [UInt8.ofNat (n / 256), UInt8.ofNat n]

/-- a destination of `n` zero bytes after `copy(dst, v)` -/
def slot (n : Nat) (v : Bytes) : Bytes := v.take n ++ List.replicate (n - v.length) 0

/-- server `addRecordLayer(input, typ, ver)`: typ at [0:1], ver at [1:3], uint16 length at [3:5], input -/
def record (typ ver input : Bytes) : Bytes := slot 1 typ ++ slot 2 ver ++ be16 input.length ++ input

/-- `keyExchange`: 32 zero bytes, `copy(keyExchange, enc[20:48])`, 4 random bytes over `[28:32]` -/
def keyExchange (enc rand4 : Bytes) : Bytes :=
  let z : Bytes := List.replicate shKeyExchangeLen.toNat 0
  let src := (enc.drop shKeyExchangeEncLo.toNat).take (shKeyExchangeEncHi - shKeyExchangeEncLo).toNat
  let k1 := Codec.putAt z 0 (src.take z.length)
  Codec.putAt k1 shKeyExchangeRandLo.toNat (rand4.take (shKeyExchangeRandHi - shKeyExchangeRandLo).toNat)

/-- the 32-byte ServerHello random: `append(nonce[0:12], enc[0:20]...)` -/
def helloRandom (nonce enc : Bytes) : Bytes :=
  (nonce.drop shRandomNonceLo.toNat).take (shRandomNonceHi - shRandomNonceLo).toNat ++
  (enc.drop shRandomEncLo.toNat).take (shRandomEncHi - shRandomEncLo).toNat

/-- one element of the `serverHello [11][]byte` array; `none` = a kind the extractor does not produce -/
def piece (sid random kx : Bytes) (p : String × Bytes) : Option Bytes :=
  if p.1 = "lit" then some p.2
  else if p.1 = "sid" then some sid
  else if p.1 = "random" then some random
  else if p.1 = "keyshare" then some (p.2 ++ kx)
  else none

def concatPieces (sid random kx : Bytes) : List (String × Bytes) → Option Bytes
  | [] => some []
  | p :: ps => do
    let a ← piece sid random kx p
    let r ← concatPieces sid random kx ps
    pure (a ++ r)

/-- `composeServerHello(sessionId, nonce, encryptedSessionKeyWithTag)`; `rand4` = the four bytes it draws -/
def composeServerHello (sid nonce enc rand4 : Bytes) : Option Bytes :=
  concatPieces sid (helloRandom nonce enc) (keyExchange enc rand4) shPieces

/-- `composeReply(sessionId, nonce, encryptedSessionKeyWithTag, cert)` -/
def composeReply (sid nonce enc rand4 cert : Bytes) : Option Bytes :=
  (composeServerHello sid nonce enc rand4).map fun sh =>
    record replyHelloType replyVersion sh ++ (record replyCCSType replyVersion replyCCSBody ++ record replyCertType replyVersion cert)

/-- the bytes one `TLSConn.Write(in)` hands to the underlying connection (one `Conn.Write`); `none` = refused -/
def tlsWrite (inp : Bytes) : Option Bytes :=
  if tlsTooLong inp.length then none
  else some ([UInt8.ofNat applicationDataType.toNat, UInt8.ofNat (versionTLS13.toNat / 256), UInt8.ofNat versionTLS13.toNat] ++
             [UInt8.ofNat (inp.length / 256), UInt8.ofNat inp.length] ++ inp)

/-- `common.AddRecordLayer(ch, Handshake, VersionTLS11)`: what the client writes first -/
def clientHelloRecord (ch : Bytes) : Bytes :=
  [UInt8.ofNat handshakeType.toNat, UInt8.ofNat (versionTLS11.toNat / 256), UInt8.ofNat versionTLS11.toNat,
   UInt8.ofNat (ch.length / 256), UInt8.ofNat ch.length] ++ ch

/-! ## Part 2: the validator (RFC 8446; literal numbers only) -/

structure Rec where
  typ : UInt8
  ver : Bytes
  body : Bytes
deriving DecidableEq, Repr

/-- split a byte string into TLS records: type(1) version(2) length(2) fragment; `none` when a header or a
fragment is incomplete -/
def parseRecords : Nat → Bytes → Option (List Rec)
  | _, [] => some []
  | 0, _ => none
  | fuel+1, t :: v0 :: v1 :: l0 :: l1 :: rest =>
    let len := l0.toNat * 256 + l1.toNat
    if rest.length < len then none
    else (parseRecords fuel (rest.drop len)).map (⟨t, [v0, v1], rest.take len⟩ :: ·)
  | _+1, _ => none

def records (b : Bytes) : Option (List Rec) := parseRecords (b.length + 1) b

/-- application_data(23), legacy_record_version 0x0303, 0 < length ≤ 2^14 + 256 -/
def validAppRec (r : Rec) : Bool :=
  r.typ == 23 && r.ver == [3, 3] && decide (0 < r.body.length) && decide (r.body.length ≤ 16640)

/-- extensions: type(2) length(2) data, exactly filling the block -/
def parseExts : Nat → Bytes → Option (List (Nat × Bytes))
  | _, [] => some []
  | 0, _ => none
  | fuel+1, t0 :: t1 :: l0 :: l1 :: rest =>
    let len := l0.toNat * 256 + l1.toNat
    if rest.length < len then none
    else (parseExts fuel (rest.drop len)).map ((t0.toNat * 256 + t1.toNat, rest.take len) :: ·)
  | _+1, _ => none

def findExt (t : Nat) (es : List (Nat × Bytes)) : Option Bytes := (es.find? (·.1 == t)).map (·.2)

structure Hello where
  random : Bytes
  sid : Bytes
  suites : Bytes
  compression : Bytes
  exts : List (Nat × Bytes)
deriving Repr

/-- ServerHello handshake message: type 2, uint24 length, legacy_version 0x0303, random(32),
legacy_session_id_echo<0..32>, cipher_suite(2), legacy_compression_method = 0, extensions<6..2^16-1> -/
def parseServerHello (b : Bytes) : Option Hello :=
  match b with
  | 2 :: l0 :: l1 :: l2 :: 3 :: 3 :: r1 =>
    if l0.toNat * 65536 + l1.toNat * 256 + l2.toNat ≠ r1.length + 2 then none else
    if r1.length < 33 then none else
    let random := r1.take 32
    match r1.drop 32 with
    | sl :: r2 =>
      if r2.length < sl.toNat ∨ 32 < sl.toNat then none else
      let sid := r2.take sl.toNat
      match r2.drop sl.toNat with
      | c0 :: c1 :: comp :: e0 :: e1 :: r3 =>
        if comp ≠ 0 then none else
        if e0.toNat * 256 + e1.toNat ≠ r3.length then none else
        (parseExts (r3.length + 1) r3).map fun es => ⟨random, sid, [c0, c1], [comp], es⟩
      | _ => none
    | [] => none
  | _ => none

/-- key_share entry list: group(2) length(2) key_exchange …, exactly filling the block -/
def parseShares : Nat → Bytes → Option (List (Nat × Bytes))
  | fuel, b => parseExts fuel b

/-- the ServerHello a TLS 1.3 server sends for an X25519 / AES-256-GCM handshake, echoing `sid`:
32-byte session id echo, suite 0x1302, key_share = x25519(0x001d) with a 32-byte share,
supported_versions = 0x0304 -/
def validServerHello (sid : Bytes) (h : Hello) : Bool :=
  h.sid == sid && decide (h.sid.length = 32) && decide (h.random.length = 32) && h.suites == [0x13, 0x02] &&
  (match findExt 0x33 h.exts with
   | some (0 :: 0x1d :: 0 :: 0x20 :: k) => decide (k.length = 32)
   | _ => false) &&
  findExt 0x2b h.exts == some [3, 4]

/-- the server's side of the connection: ServerHello record (handshake 22, 0x0303), ChangeCipherSpec record
(20, 0x0303, body 01), then application-data records only — at least one -/
def validServerStream (sid : Bytes) (b : Bytes) : Bool :=
  match records b with
  | some (r1 :: r2 :: r3 :: rest) =>
    r1.typ == 22 && r1.ver == [3, 3] &&
    (match parseServerHello r1.body with
     | some h => validServerHello sid h
     | none => false) &&
    r2.typ == 20 && r2.ver == [3, 3] && r2.body == [1] &&
    validAppRec r3 && rest.all validAppRec
  | _ => false

/-- exactly the three-record flight -/
def validServerFlight (sid : Bytes) (b : Bytes) : Bool :=
  validServerStream sid b && (match records b with | some l => l.length == 3 | none => false)

/-- a byte string that is a sequence of application-data records -/
def validAppStream (b : Bytes) : Bool :=
  match records b with
  | some l => l.all validAppRec
  | none => false

/-- ClientHello: type 1, uint24 length, legacy_version 0x0303, random(32), legacy_session_id<0..32>,
cipher_suites<2..2^16-2>, legacy_compression_methods<1..2^8-1>, extensions<8..2^16-1> — all lengths nesting exactly -/
def parseClientHello (b : Bytes) : Option Hello :=
  match b with
  | 1 :: l0 :: l1 :: l2 :: 3 :: 3 :: r1 =>
    if l0.toNat * 65536 + l1.toNat * 256 + l2.toNat ≠ r1.length + 2 then none else
    if r1.length < 33 then none else
    let random := r1.take 32
    match r1.drop 32 with
    | sl :: r2 =>
      if r2.length < sl.toNat ∨ 32 < sl.toNat then none else
      let sid := r2.take sl.toNat
      match r2.drop sl.toNat with
      | s0 :: s1 :: r3 =>
        let slen := s0.toNat * 256 + s1.toNat
        if r3.length < slen ∨ slen < 2 ∨ slen % 2 ≠ 0 then none else
        let suites := r3.take slen
        match r3.drop slen with
        | cl :: r4 =>
          if r4.length < cl.toNat ∨ cl.toNat < 1 then none else
          let comp := r4.take cl.toNat
          match r4.drop cl.toNat with
          | e0 :: e1 :: r5 =>
            if e0.toNat * 256 + e1.toNat ≠ r5.length then none else
            (parseExts (r5.length + 1) r5).map fun es => ⟨random, sid, suites, comp, es⟩
          | _ => none
        | [] => none
      | _ => none
    | [] => none
  | _ => none

/-- server_name extension data: ServerNameList length(2), name_type host_name(0), HostName length(2), name -/
def sniName (d : Bytes) : Option Bytes :=
  match d with
  | l0 :: l1 :: 0 :: n0 :: n1 :: name =>
    if l0.toNat * 256 + l1.toNat = name.length + 3 ∧ n0.toNat * 256 + n1.toNat = name.length ∧ 0 < name.length then some name else none
  | _ => none

/-- key_share extension data of a ClientHello: client_shares length(2) then entries; the X25519 entry's key -/
def x25519Share (d : Bytes) : Option Bytes :=
  match d with
  | l0 :: l1 :: entries =>
    if l0.toNat * 256 + l1.toNat ≠ entries.length then none else
    match parseShares (entries.length + 1) entries with
    | some l => findExt 0x1d l
    | none => none
  | _ => none

structure ClientFields where
  sid : Bytes
  sni : Bytes
  share : Bytes
  random : Bytes
deriving Repr

/-- first record of the client's side: handshake(22), legacy_record_version 0x0301, one whole ClientHello with
a server name, a 32-byte session id and a 32-byte X25519 key share -/
def clientFields (r : Rec) : Option ClientFields :=
  if r.typ ≠ 22 ∨ r.ver ≠ [3, 1] then none else
  match parseClientHello r.body with
  | none => none
  | some h =>
    match findExt 0 h.exts, findExt 0x33 h.exts with
    | some sn, some ks =>
      match sniName sn, x25519Share ks with
      | some name, some share =>
        if h.sid.length = 32 ∧ share.length = 32 ∧ h.compression = [0] then some ⟨h.sid, name, share, h.random⟩ else none
      | _, _ => none
    | _, _ => none

/-- the client's side of the connection: one ClientHello record, then application-data records only -/
def validClientStream (b : Bytes) : Option ClientFields :=
  match records b with
  | some (r0 :: rest) =>
    match clientFields r0 with
    | some f => if rest.all validAppRec then some f else none
    | none => none
  | _ => none

end TLSWire
