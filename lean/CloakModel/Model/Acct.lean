import CloakModel.Gen.Acct
import CloakModel.Gen.Panel

/-! Model of usage accounting (C16): valves, the pending-usage queue, `commitUpdate` / `UploadStatus`, termination.

Counters are indexed by `(uid, down?)`: `(u, false)` is the upload direction (bytes received from the client,
`rx`, charged to `UpCredit`), `(u, true)` the download direction (`tx`, `DownCredit`) — the chain
rx → up → UpUsage → UpCredit is what `C16.gen_direction` checks on the extracted facts.
Steps are the atomic operations / critical sections of `userpanel.go` (`Gen.Acct.queueUnderLock`,
`collectUnderBothLocks`, `nullifyIsSwapRxTx`, `uploadOneTransaction`):
`traffic` = one `AddRx`/`AddTx`; `collectAll` = `updateUsageQueue`; `swapOne`/`enqueueOne` = the two halves of
`updateUsageQueueForOne`; `snapshot` = the locked section of `commitUpdate`; `upload` = the `UploadStatus`
transaction for the oldest snapshot; `retire` = the delete section of `TerminateActiveUser`.
Ghost fields (`carried`, `granted`, `dropped`, and `old` = what sits in valves of retired records) exist only for
the statements; the driver prints the others. -/

namespace Acct

abbrev U := Nat
abbrev K := U × Bool
abbrev Fn := K → Int

structure St where
  actives : List U                 -- uids with an ActiveUser record (limited users only)
  nsess : U → Nat                  -- open sessions of the current record
  valve : Fn                       -- LimitedValve counters of the current record
  old : Fn                         -- counters sitting in valves of retired records of this uid
  pending : Fn                     -- Nullify()'d by updateUsageQueueForOne, not yet in the queue
  queue : Fn                       -- usageUpdateQueue
  qkeys : List U                   -- its key set
  inflight : List (List U × Fn)    -- snapshots taken by commitUpdate, UploadStatus not yet run
  stored : Fn                      -- UpCredit / DownCredit in the database
  present : U → Bool               -- the uid has a bucket
  expiry : U → Int
  carried : Fn                     -- ghost: bytes that crossed the connection pool
  granted : Fn                     -- ghost: credit granted so far (initial + admin changes)
  dropped : Fn                     -- ghost: usage uploaded for a uid that no longer has a bucket

def init : St :=
  ⟨[], fun _ => 0, fun _ => 0, fun _ => 0, fun _ => 0, fun _ => 0, [], [], fun _ => 0, fun _ => false, fun _ => 0,
   fun _ => 0, fun _ => 0, fun _ => 0⟩

def addKey (l : List U) (u : U) : List U := if u ∈ l then l else l ++ [u]

def fsum (l : List (List U × Fn)) : Fn := fun k => (l.map (fun e => e.2 k)).sum

/-- may `u` be activated (`AuthenticateUser`)? -/
def authOk (s : St) (u : U) (now : Int) : Bool :=
  s.present u &&
  ((Gen.Panel.authenticateChecks (s.stored (u, false)) (s.stored (u, true)) (s.expiry u) now).find? (·.2)).isNone

/-- the verdict `UploadStatus` reaches for `u` given the credits it has just written -/
def verdict (s : St) (now : Int) (u : U) : Bool :=
  !s.present u || Gen.Acct.uploadUpExhausted (s.stored (u, false)) || Gen.Acct.uploadDownExhausted (s.stored (u, true)) ||
    Gen.Acct.uploadExpired now (s.expiry u)

def newCredit (down : Bool) (old usage : Int) : Int :=
  if down then Gen.Acct.uploadNewDown old usage else Gen.Acct.uploadNewUp old usage

inductive Ev
  | traffic (u : U) (down : Bool) (n : Int)     -- AddRx (down = false) / AddTx (down = true) on the current record's valve
  | stray (u : U) (down : Bool) (n : Int)       -- the same on the valve of a record that has been retired
  | collectAll
  | swapOne (u : U)
  | swapOld (u : U) (up down : Int)             -- updateUsageQueueForOne on ONE record of `u` that has been retired
                                                -- already: it holds `up`/`down` of what `old` sums over all of them
  | enqueueOne (u : U)
  | snapshot
  | upload (now : Int)
  | retire (u : U)
  | activate (u : U) (now : Int)
  | openSess (u : U)
  | closeSess (u : U)
  | closeAllSess (u : U)
  | put (u : U) (up down expiry : Int)          -- admin: (re)write the record
  | delete (u : U)

def step (s : St) : Ev → St
  | .traffic u d n =>
    if n < 0 then s else
    if u ∈ s.actives then
      { s with valve := fun k => if k = (u, d) then s.valve k + n else s.valve k,
               carried := fun k => if k = (u, d) then s.carried k + n else s.carried k }
    else
      { s with old := fun k => if k = (u, d) then s.old k + n else s.old k,
               carried := fun k => if k = (u, d) then s.carried k + n else s.carried k }
  | .stray u d n =>
    if n < 0 then s else
      { s with old := fun k => if k = (u, d) then s.old k + n else s.old k,
               carried := fun k => if k = (u, d) then s.carried k + n else s.carried k }
  | .collectAll =>
    { s with queue := fun k => if k.1 ∈ s.actives then s.queue k + s.valve k else s.queue k,
             valve := fun k => if k.1 ∈ s.actives then 0 else s.valve k,
             qkeys := s.actives.reverse.foldl addKey s.qkeys }
  | .swapOne u =>
    { s with pending := fun k => if k.1 = u then s.pending k + s.valve k else s.pending k,
             valve := fun k => if k.1 = u then 0 else s.valve k }
  | .swapOld u up down =>
    if 0 ≤ up ∧ up ≤ s.old (u, false) ∧ 0 ≤ down ∧ down ≤ s.old (u, true) then
      { s with pending := fun k => if k.1 = u then s.pending k + (if k.2 then down else up) else s.pending k,
               old := fun k => if k.1 = u then s.old k - (if k.2 then down else up) else s.old k }
    else s
  | .enqueueOne u =>
    { s with queue := fun k => if k.1 = u then s.queue k + s.pending k else s.queue k,
             pending := fun k => if k.1 = u then 0 else s.pending k,
             qkeys := addKey s.qkeys u }
  | .snapshot =>
    { s with inflight := s.inflight ++ [(s.qkeys, s.queue)], queue := fun _ => 0, qkeys := [] }
  | .upload _ =>
    match s.inflight with
    | [] => s
    | (_, f) :: rest =>
      { s with inflight := rest,
               stored := fun k => if s.present k.1 then newCredit k.2 (s.stored k) (f k) else s.stored k,
               dropped := fun k => if s.present k.1 then s.dropped k else s.dropped k + f k }
  | .retire u =>
    { s with actives := s.actives.filter (· ≠ u),
             old := fun k => if k.1 = u then s.old k + s.valve k else s.old k,
             valve := fun k => if k.1 = u then 0 else s.valve k }
  | .activate u now =>
    if u ∈ s.actives then s else if authOk s u now then { s with actives := u :: s.actives } else s
  | .openSess u => if u ∈ s.actives then { s with nsess := fun x => if x = u then s.nsess x + 1 else s.nsess x } else s
  | .closeSess u => { s with nsess := fun x => if x = u then s.nsess x - 1 else s.nsess x }
  | .closeAllSess u => { s with nsess := fun x => if x = u then 0 else s.nsess x }
  | .put u up down e =>
    { s with present := fun x => if x = u then true else s.present x,
             expiry := fun x => if x = u then e else s.expiry x,
             stored := fun k => if k.1 = u then (if k.2 then down else up) else s.stored k,
             granted := fun k => if k.1 = u then s.granted k + ((if k.2 then down else up) - s.stored k) else s.granted k }
  | .delete u =>
    { s with present := fun x => if x = u then false else s.present x,
             stored := fun k => if k.1 = u then 0 else s.stored k,
             granted := fun k => if k.1 = u then s.granted k - s.stored k else s.granted k }

def run (s : St) (evs : List Ev) : St := evs.foldl step s

/-- the uids `UploadStatus` answers TERMINATE for, given the snapshot keys it was handed -/
def verdicts (keys : List U) (s : St) (now : Int) : List U := keys.filter (verdict s now)

/-- `TerminateActiveUser` on the current record of `u` -/
def terminate (s : St) (u : U) : St :=
  step (step (step (step s (.swapOne u)) (.enqueueOne u)) (.closeAllSess u)) (.retire u)

/-- the response loop of `commitUpdate` -/
def respondAll (vs : List U) (s : St) : St :=
  vs.foldl (fun st u => if u ∈ st.actives then terminate st u else st) s

/-- the whole of `commitUpdate`'s second half for the oldest snapshot: transaction, then response loop -/
def commitOldest (s : St) (now : Int) : St :=
  match s.inflight with
  | [] => s
  | (keys, _) :: _ => let s' := step s (.upload now); respondAll (verdicts keys s' now) s'

end Acct
