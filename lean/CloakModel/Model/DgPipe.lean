import CloakModel.Model.Basic
import CloakModel.Gen.Datagram

/-! Model of the unordered (datagram / UDP) receive and send path:

* `DG.Pipe`, `DG.write`, `DG.read`, `DG.close` mirror `internal/multiplex/datagramBufferedPipe.go`
  (`Write(*Frame)`, `Read(target)`, `Close`) branch for branch.  The four branch conditions are the terms the
  extractor translated from the Go source (`Gen.Datagram.dgEOF/dgHasData/dgShort/dgClosing`).
* `DG.swrite` mirrors the loop of `Stream.Write` (`internal/multiplex/stream.go`), with the fit test and the
  loop guard taken from `Gen.Datagram.writeFits/writeLoop`; `DG.maxUnit` is `Gen.Datagram.maxStreamUnitWrite`.
* `DG.Sess` is the receiving session's stream table (`recvDataFromRemote` → `Stream.recvFrame` → pipe).

Not modelled: read deadlines (never set by the harness; outside C14), and `Write` parking while more than
`recvBufferSizeLimit = 2^31-1` bytes are buffered (precondition of the theorems' environment: less is buffered). -/

namespace DG

structure Pipe where
  lens : List Nat
  buf  : Bytes
  closed : Bool
deriving Repr, DecidableEq

def Pipe.empty : Pipe := ⟨[], [], false⟩

/-- result of `datagramBufferedPipe.Write`: `(false, nil)` | `(true, nil)` | `(true, io.ErrClosedPipe)` -/
inductive WOut | ok | closedNow | refused deriving DecidableEq, Repr
/-- result of `datagramBufferedPipe.Read`: `(n, nil)` with the bytes | `io.EOF` | `io.ErrShortBuffer` | parks in `rwCond.Wait` -/
inductive ROut | data (d : Bytes) | eof | short | block deriving DecidableEq, Repr

/-- `datagramBufferedPipe.Write(f)`; `closing` is `f.Closing`, `payload` is `f.Payload` -/
def write (p : Pipe) (closing : Nat) (payload : Bytes) : Pipe × WOut :=
  if p.closed then (p, .refused)
  else if Gen.Datagram.dgClosing (closing : Int) then ({ p with closed := true }, .closedNow)
  else ({ p with lens := p.lens ++ [payload.length], buf := p.buf ++ payload }, .ok)

/-- `datagramBufferedPipe.Read(target)` with `cap = len(target)`.  The third branch of the `match` cannot be
reached (`dgHasData` says the queue is non-empty); it is spelled out instead of defaulted. -/
def read (p : Pipe) (cap : Nat) : Pipe × ROut :=
  if Gen.Datagram.dgEOF p.closed (p.lens.length : Int) then (p, .eof)
  else if Gen.Datagram.dgHasData (p.lens.length : Int) then
    match p.lens with
    | l :: ls =>
      if Gen.Datagram.dgShort (cap : Int) (l : Int) then (p, .short)
      else ({ p with lens := ls, buf := p.buf.drop l }, .data (p.buf.take l))
    | [] => (p, .block)
  else (p, .block)

/-- `datagramBufferedPipe.Close` -/
def close (p : Pipe) : Pipe := { p with closed := true }

/-! ### sender: `Stream.Write` -/

inductive SOut | ok | errShortBuffer | outOfFuel deriving DecidableEq, Repr

/-- `sesh.maxStreamUnitWrite` for a configured `MsgOnWireSizeLimit` -/
def maxUnit (limit : Int) : Int := Gen.Datagram.maxStreamUnitWrite limit

/-- the loop `for n < len(in)` of `Stream.Write`; `sent` = payloads handed to `obfuscateAndSend` so far.
`fuel` bounds the iterations (the loop makes progress only if `max > 0`); running out is an explicit outcome. -/
def swriteLoop (unordered : Bool) (max : Int) (inp : Bytes) : Nat → Nat → List Bytes → List Bytes × SOut
  | 0, _, sent => (sent, .outOfFuel)
  | fuel+1, n, sent =>
    if Gen.Datagram.writeLoop (inp.length : Int) (n : Int) then
      if Gen.Datagram.writeFits (inp.length : Int) (n : Int) max then
        swriteLoop unordered max inp fuel inp.length (sent ++ [inp.drop n])
      else if unordered then (sent, .errShortBuffer)
      else swriteLoop unordered max inp fuel (n + max.toNat) (sent ++ [(inp.drop n).take max.toNat])
    else (sent, .ok)

/-- `Stream.Write(in)` on an open stream: the frame payloads emitted, and the error -/
def swrite (unordered : Bool) (max : Int) (inp : Bytes) : List Bytes × SOut :=
  swriteLoop unordered max inp (inp.length + 1) 0 []

/-! ### where a datagram enters a stream from a packet-oriented source (UDP socket)

Two places hand datagrams of a local UDP socket to an unordered stream:
`client.RouteUDP` (`localConn.ReadFrom(data)` then `stream.Write(data[:i])`) and `Stream.ReadFrom(r)`
(the server's `common.Copy(stream, udpConn)`; `r.Read(buf[hdr : hdr+L])`, one frame per `Read`).
A packet source gives one datagram per read and *silently drops* what does not fit the buffer, so the
buffer lengths (and the size test after the read, if any) are part of the property.  Both lengths and the
test are the extractor's terms (`Gen.Datagram.routeUDPBufLen`, `readFromLen`, `readFromRefuses`). -/

/-- one read of a packet-oriented source with a buffer of `cap` bytes: the next datagram cut to the buffer -/
def pktRead (cap : Nat) (d : Bytes) : Bytes := d.take cap

/-- one iteration of `client.RouteUDP` with an entry buffer of `bufLen` bytes and the session's per-frame maximum -/
def udpEntryAt (bufLen : Nat) (max : Int) (d : Bytes) : List Bytes × SOut :=
  swrite true max (pktRead bufLen d)

/-- `client.RouteUDP` as it is in the source: `data := make([]byte, routeUDPBufLen)` -/
def udpEntry (max : Int) (d : Bytes) : List Bytes × SOut :=
  udpEntryAt Gen.Datagram.routeUDPBufLen.toNat max d

/-- one iteration of `Stream.ReadFrom` on a packet source: read with `readLen` bytes of room, apply the size
test (`refuses`, on the number of bytes read), otherwise send exactly the bytes read as one frame -/
def readFromAt (readLen : Nat) (refuses : Nat → Bool) (d : Bytes) : List Bytes × SOut :=
  if refuses (pktRead readLen d).length then ([], .errShortBuffer) else ([pktRead readLen d], .ok)

/-- `Stream.ReadFrom` as it is in the source, packet source (`r` is a `net.PacketConn`) -/
def readFromPkt (unordered : Bool) (max : Int) (d : Bytes) : List Bytes × SOut :=
  readFromAt (Gen.Datagram.readFromLen max true unordered).toNat
    (fun k => Gen.Datagram.readFromRefuses (k : Int) max) d

/-- `Stream.ReadFrom` on a byte-stream source (TCP) that has `rest` ready: every `Read` takes what fits, the
remainder stays in the source; the source's EOF ends the loop (`.ok`). -/
def readFromStreamLoop (readLen : Nat) (refuses : Nat → Bool) : Nat → Bytes → List Bytes → List Bytes × SOut
  | 0, _, sent => (sent, .outOfFuel)
  | fuel+1, rest, sent =>
    if rest.length = 0 then (sent, .ok)
    else if refuses (rest.take readLen).length then (sent, .errShortBuffer)
    else readFromStreamLoop readLen refuses fuel (rest.drop readLen) (sent ++ [rest.take readLen])

def readFromStream (unordered : Bool) (max : Int) (inp : Bytes) : List Bytes × SOut :=
  readFromStreamLoop (Gen.Datagram.readFromLen max false unordered).toNat
    (fun k => Gen.Datagram.readFromRefuses (k : Int) max) (inp.length + 1) inp []

/-! ### receiver: the session's stream table -/

/-- a deobfuscated frame as seen by `recvDataFromRemote` -/
structure Frame where
  sid : Nat
  closing : Nat
  payload : Bytes
deriving Repr

abbrev Sess := List (Nat × Pipe)

def Sess.get : Sess → Nat → Option Pipe
  | [], _ => none
  | (k, p) :: r, sid => if k = sid then some p else Sess.get r sid

def Sess.set : Sess → Nat → Pipe → Sess
  | [], sid, p => [(sid, p)]
  | (k, q) :: r, sid, p => if k = sid then (k, p) :: r else (k, q) :: Sess.set r sid p

/-- `recvDataFromRemote` for a stream frame: look the stream up by the frame's id, create it if absent,
write into *its* pipe.  (A stream that was closed keeps its pipe in this model and refuses the write; in
the Go code the table holds a tombstone and the frame is dropped — the pipe's content is the same.) -/
def Sess.deliver (s : Sess) (f : Frame) : Sess × WOut :=
  match s.get f.sid with
  | some p => (s.set f.sid (DG.write p f.closing f.payload).1, (DG.write p f.closing f.payload).2)
  | none => (s.set f.sid (DG.write Pipe.empty f.closing f.payload).1, (DG.write Pipe.empty f.closing f.payload).2)

inductive SROut | r (o : ROut) | noStream deriving DecidableEq, Repr

/-- `Stream.Read(buf)` on the stream with this id (`len(buf) > 0`; a zero-length buffer returns `(0, nil)` at once) -/
def Sess.read (s : Sess) (sid cap : Nat) : Sess × SROut :=
  match s.get sid with
  | some p => (s.set sid (DG.read p cap).1, .r (DG.read p cap).2)
  | none => (s, .noStream)

/-- `Stream.Read(buf)` with `cap = len(buf)`: an empty buffer is answered `(0, nil)` before the pipe is asked
(`Gen.Datagram.streamReadEmptyBufIsNoop`, the `io.Reader` convention), otherwise the pipe's `Read` -/
def Sess.sread (s : Sess) (sid cap : Nat) : Sess × SROut :=
  if Gen.Datagram.streamReadEmptyBufIsNoop && cap == 0 then
    match s.get sid with
    | some _ => (s, .r (.data []))
    | none => (s, .noStream)
  else s.read sid cap

end DG
