import CloakModel.Model.Basic
import CloakModel.Gen.Session

/-! Session-level state machine of `internal/multiplex/session.go` + `switchboard.go`
(C12; the switchboard publish order is also used by C01).  One `Ev` is one atomic step of the Go
code at the granularity the extractor saw (critical sections under `streamsM`, atomic operations);
the Go operations are *sequences* of events (`Macro`), so theorems quantify over every interleaving
of events while the driver replays whole operations against the implementation. -/
namespace SM

inductive Ent | opn | closing | tomb deriving DecidableEq, Repr

structure St where
  closed   : Bool := false   -- Session.closed
  swept    : Bool := false   -- closeSession's locked section has run
  qclosed  : Bool := false   -- acceptCh closed
  accq     : List Nat := []  -- ids waiting in acceptCh
  tbl      : List (Nat × Ent) := []   -- Session.streams: (id, open | closed-not-yet-tombstoned | nil entry)
  count    : Int := 0        -- activeStreamCount (uint32 in Go; reported mod 2^32)
  pendIncr : Nat := 0        -- streams inserted whose count++ has not run yet
  pendDecr : Nat := 0        -- streams whose closeStream CAS ran but whose count-- has not run yet
  passed   : Nat := 0        -- OpenStream calls past an *unlocked* closed test, not yet inserted
  nextId   : Nat := 1
  broken   : Bool := false   -- switchboard.broken
  conns    : List Bool := []  -- pooled connections, true = not yet closed by closeAll
  singleplex : Bool := false
  tmoClose : Bool := false   -- ghost: checkTimeout initiated a close
  tmoBusy  : Bool := false   -- ghost: … while an open stream existed and no open was in flight
  tmoPending : Bool := false -- ghost: the timer goroutine has passed its test and has not done its CAS on `closed` yet
  tmoCasBusy : Bool := false -- ghost: the timer goroutine's CAS closed the session while a stream was open
deriving Repr

inductive Ev
  | openCheck | openInsert | openIncr
  | recvNew (id : Nat) | recvIncr
  | csCAS (id : Nat) | csTomb (id : Nat) | csDecr
  | cas | sweep | closeAll
  | accept | checkTimeout | tmoCas | addConn
deriving Repr

def nOpen : List (Nat × Ent) → Nat
  | [] => 0
  | (_, .opn) :: r => nOpen r + 1
  | _ :: r => nOpen r

def hasId (id : Nat) : List (Nat × Ent) → Bool
  | [] => false
  | (i, _) :: r => i == id || hasId id r

/-- first entry `(id, from)` becomes `(id, to)`; reports whether one was found -/
def setEnt (id : Nat) (frm to : Ent) : List (Nat × Ent) → List (Nat × Ent) × Bool
  | [] => ([], false)
  | (i, e) :: r =>
    if i = id ∧ e = frm then ((i, to) :: r, true)
    else let (r', b) := setEnt id frm to r; ((i, e) :: r', b)

def sweepTbl : List (Nat × Ent) → List (Nat × Ent)
  | [] => []
  | (_, .opn) :: r => sweepTbl r
  | x :: r => x :: sweepTbl r

inductive Res | ok | refused | nomux | repeat_ | block | none deriving DecidableEq, Repr

def insertOpen (s : St) : St × Res :=
  let id := s.nextId
  let s := { s with nextId := id + 1 }
  if s.singleplex ∧ id > 1 then (s, .nomux)
  else ({ s with tbl := (id, .opn) :: s.tbl, pendIncr := s.pendIncr + 1 }, .ok)

def step (s : St) : Ev → St × Res
  | .openCheck =>
    if Gen.Session.openStreamCheckUnderLock then (s, .ok)
    else if s.closed then (s, .refused) else ({ s with passed := s.passed + 1 }, .ok)
  | .openInsert =>
    if Gen.Session.openStreamCheckUnderLock then
      (if s.closed then (s, .refused) else insertOpen s)
    else match s.passed with
      | 0 => (s, .none)
      | n + 1 => insertOpen { s with passed := n }
  | .openIncr =>
    match s.pendIncr with
    | 0 => (s, .none)
    | n + 1 => ({ s with pendIncr := n, count := s.count + Gen.Session.openStreamIncrs }, .ok)
  | .recvNew id =>
    if s.closed then (s, .refused)
    else if hasId id s.tbl then (s, .none)
    else if Gen.Session.acceptBacklog ≤ (s.accq.length : Int) then
      -- the accept backlog is full (select … default): the stream is refused. Either its id is just remembered as
      -- closed, or (as the source says) it is registered like an accepted one — minus the queue — to be counted and
      -- closed from this side by the operation (`SO.recv`), which tells the peer
      if Gen.Session.refusedStreamClosedActively then
        ({ s with tbl := (id, .opn) :: s.tbl, pendIncr := s.pendIncr + 1 }, .refused)
      else ({ s with tbl := (id, .tomb) :: s.tbl }, .refused)
    else ({ s with tbl := (id, .opn) :: s.tbl, accq := s.accq ++ [id], pendIncr := s.pendIncr + 1 }, .ok)
  | .recvIncr =>
    match s.pendIncr with
    | 0 => (s, .none)
    | n + 1 => ({ s with pendIncr := n, count := s.count + 1 }, .ok)
  | .csCAS id =>
    let (t, found) := setEnt id .opn .closing s.tbl
    if found then ({ s with tbl := t, pendDecr := s.pendDecr + 1 }, .ok) else (s, .repeat_)
  | .csTomb id =>
    let (t, found) := setEnt id .closing .tomb s.tbl
    if found then ({ s with tbl := t }, .ok) else ({ s with tbl := (id, .tomb) :: s.tbl }, .ok)
  | .csDecr =>
    match s.pendDecr with
    | 0 => (s, .none)
    | n + 1 => ({ s with pendDecr := n, count := s.count - Gen.Session.closeStreamDecrs }, .ok)
  | .cas => if s.closed then (s, .repeat_) else ({ s with closed := true }, .ok)
  | .sweep =>
    if s.closed then
      ({ s with swept := true, qclosed := true, tbl := sweepTbl s.tbl,
                count := s.count - (nOpen s.tbl : Nat) * Gen.Session.closeSessionDecrsPerStream }, .ok)
    else (s, .none)
  | .closeAll =>
    if s.broken then (s, .repeat_) else ({ s with broken := true, conns := s.conns.map (fun _ => false) }, .ok)
  | .accept =>
    -- (before /repo's fix `Accept` tested the closed flag first and lost the streams queued when the session closed)
    if Gen.Session.acceptChecksClosedFirst && s.closed then (s, .refused) else
    match s.accq with
    | _ :: r => ({ s with accq := r }, .ok)
    | [] => if s.qclosed then (s, .refused) else (s, .block)
  | .checkTimeout =>
    if Gen.Session.timeoutCond s.count s.closed then
      ({ s with tmoClose := true, tmoPending := true,
                tmoBusy := s.tmoBusy || (decide (0 < nOpen s.tbl) && decide (s.pendIncr = 0)) }, .ok)
    else (s, .none)
  | .tmoCas =>   -- the `closeSession` CAS of the `Close()` that `checkTimeout` calls after its test
    if s.tmoPending then
      if s.closed then ({ s with tmoPending := false }, .repeat_)
      else ({ s with closed := true, tmoPending := false, tmoCasBusy := s.tmoCasBusy || decide (0 < nOpen s.tbl) }, .ok)
    else (s, .none)
  | .addConn => ({ s with conns := s.conns ++ [true] }, .ok)

def run (s : St) (evs : List Ev) : St := evs.foldl (fun s e => (step s e).1) s

def init (singleplex : Bool) : St := { singleplex := singleplex }

end SM
