import CloakModel.Gen.Panel

/-! Generic lock-program machine (C17, first half) and the bookkeeping lock programs of
`internal/server` as the extractor read them (`Gen.Panel.lockPrograms`).

A thread is a list of `acq ℓ | rel ℓ` instructions over lock identifiers; `Discipline` is any blocking
rule in which a refused acquisition has a holder other than the requester (covers `sync.Mutex`, and
`sync.RWMutex` including "a pending writer blocks new readers": the pending writer itself waits for a
reader that holds the lock). Core Lean only: the driver executes `Locks.Exec`. -/

namespace Locks

inductive Instr | acq (l : Nat) | rel (l : Nat)
deriving DecidableEq, Repr

structure Thread where
  held : List Nat
  prog : List Instr
deriving DecidableEq, Repr

/-- rank-ordered and well-bracketed, as a predicate on (held, remaining program) -/
def ok (rank : Nat → Nat) : List Nat → List Instr → Prop
  | held, [] => held = []
  | held, .acq l :: p => (∀ h ∈ held, rank h < rank l) ∧ ok rank (l :: held) p
  | held, .rel l :: p => l ∈ held ∧ ok rank (held.erase l) p

/-- decidable version of `ok` -/
def okb (rank : Nat → Nat) : List Nat → List Instr → Bool
  | held, [] => held.isEmpty
  | held, .acq l :: p => held.all (fun h => decide (rank h < rank l)) && okb rank (l :: held) p
  | held, .rel l :: p => held.contains l && okb rank (held.erase l) p

def heldBy (s : List Thread) (i : Nat) (l : Nat) : Prop := ∃ t, s[i]? = some t ∧ l ∈ t.held

structure Discipline where
  canAcq : List Thread → Nat → Nat → Prop
  blocked_has_holder : ∀ s i l, ¬ canAcq s i l → ∃ j, j ≠ i ∧ heldBy s j l

inductive Step (D : Discipline) : List Thread → List Thread → Prop
  | acq (s i t l p) : s[i]? = some t → t.prog = .acq l :: p → D.canAcq s i l →
      Step D s (s.set i ⟨l :: t.held, p⟩)
  | rel (s i t l p) : s[i]? = some t → t.prog = .rel l :: p →
      Step D s (s.set i ⟨t.held.erase l, p⟩)

inductive Reach (D : Discipline) (s0 : List Thread) : List Thread → Prop
  | refl : Reach D s0 s0
  | step {s s'} : Reach D s0 s → Step D s s' → Reach D s0 s'

/-- some thread is unfinished and no thread can move -/
def Deadlocked (D : Discipline) (s : List Thread) : Prop :=
  (∃ t ∈ s, t.prog ≠ []) ∧ ∀ s', ¬ Step D s s'

/-! ## The extracted programs -/

def ofPair : Bool × Nat → Instr
  | (true, c) => .acq c
  | (false, c) => .rel c

/-- lock classes: the names the rank speaks about -/
def Q : Nat := 0   -- userPanel.usageUpdateQueueM
def A : Nat := 1   -- userPanel.activeUsersM
def S : Nat := 2   -- ActiveUser.sessionsM (one instance per record)

/-- every path of every listed function, as instruction lists over lock CLASSES -/
def genPrograms : List (List Instr) :=
  Gen.Panel.lockPrograms.flatMap (fun e => e.2.map (·.map ofPair))

def genProgramsOf (name : String) : List (List Instr) :=
  (Gen.Panel.lockPrograms.filter (·.1 == name)).flatMap (fun e => e.2.map (·.map ofPair))

/-- the expected order: Q < A < S; every per-record `sessionsM` instance (identifier ≥ 2) has rank 2 -/
def rankQAS : Nat → Nat := fun l => min l 2

/-- a thread works on lock INSTANCES: class `c` becomes instance `f c` (`f` keeps Q and A, and sends the
class S to the `sessionsM` of the record the operation works on) -/
def Instr.map (f : Nat → Nat) : Instr → Instr
  | .acq l => .acq (f l)
  | .rel l => .rel (f l)

def instOf (u : Nat) : Nat → Nat := fun c => if c < 2 then c else c + u

/-! ## Executable machine with exclusive-lock blocking (what the driver runs for `lk.*` ops) -/
namespace Exec

def holders (s : List Thread) (l : Nat) : List Nat :=
  (List.range s.length).filter (fun j => match s[j]? with | some t => t.held.contains l | none => false)

def canAcqB (s : List Thread) (i l : Nat) : Bool := (holders s l).all (· == i)

inductive R | moved | blocked (l : Nat) | done | noThread
deriving DecidableEq, Repr

def step1 (s : List Thread) (i : Nat) : List Thread × R :=
  match s[i]? with
  | none => (s, .noThread)
  | some t =>
    match t.prog with
    | [] => (s, .done)
    | .acq l :: p => if canAcqB s i l then (s.set i ⟨l :: t.held, p⟩, .moved) else (s, .blocked l)
    | .rel l :: p => (s.set i ⟨t.held.erase l, p⟩, .moved)

/-- advance thread `i` by at most `k` instructions, stopping when blocked or finished -/
def adv : Nat → List Thread → Nat → List Thread × R
  | 0, s, _ => (s, .moved)
  | k+1, s, i =>
    match step1 s i with
    | (s', .moved) => adv k s' i
    | r => r

/-- round-robin until nobody moves (fuel = total remaining instructions + 1 rounds) -/
def settleRound (s : List Thread) : List Thread × Bool :=
  (List.range s.length).foldl (fun (acc : List Thread × Bool) i =>
    match adv (acc.1.foldl (fun n t => n + t.prog.length) 0) acc.1 i with
    | (s', _) => (s', acc.2 || decide (s' ≠ acc.1))) (s, false)

def settle : Nat → List Thread → List Thread
  | 0, s => s
  | k+1, s => match settleRound s with
    | (s', true) => settle k s'
    | (s', false) => s'

def lockedClasses (s : List Thread) : List Nat :=
  ((s.flatMap (·.held)).map (fun l => min l 2)).eraseDups.mergeSort

def deadlockedB (s : List Thread) : Bool :=
  s.any (fun t => !t.prog.isEmpty) &&
  (List.range s.length).all (fun i => match step1 s i with | (_, .moved) => false | _ => true)

end Exec
end Locks
