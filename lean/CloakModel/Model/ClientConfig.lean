import CloakModel.Model.Basic
import CloakModel.Model.GoInt
import CloakModel.Gen.ClientCfg

/-! Model of the client configuration front end (`internal/client/state.go`):
`RawConfig.ProcessRawConfig` check for check, with every tested condition, every right-hand side of the
numeric assignments, the three switch tables, the default literals and the `wsUrl` concatenation taken
from `Gen.ClientCfg` (translated from the Go source on every run), and `ssvToJson` mirrored on `List Char`.

`strings.ToLower` is a parameter `lower` (Go lowers Unicode, the driver instantiates ASCII lowering and the
generators stay in ASCII); `net.JoinHostPort` is transcribed from the standard library. -/

namespace CC
open GoInt

structure RawConfig where
  serverName : String
  proxyMethod : String
  encryptionMethod : String
  uid : Bytes
  publicKey : Bytes
  numConn : Int
  localHost : String
  localPort : String
  remoteHost : String
  remotePort : String
  alternativeNames : List String
  udp : Bool
  browserSig : String
  transport : String
  cdnOriginHost : String
  cdnWsUrlPath : String
  streamTimeout : Int
  keepAlive : Int
deriving DecidableEq, Repr

/-- `TransportConfig`: mode "direct" with a browser, or mode "cdn" with the WebSocket URL -/
inductive Transport
  | direct (browser : String)
  | cdn (wsUrl : String)
deriving DecidableEq, Repr

/-- the three processed structs (`LocalConnConfig`, `RemoteConnConfig`, `AuthInfo`); durations in ns -/
structure Cfg where
  localAddr : String
  timeout : Int
  mockDomainList : List String
  singleplex : Bool
  numConn : Int
  keepAlive : Int
  remoteAddr : String
  transport : Transport
  uid : Bytes
  proxyMethod : String
  encryptionMethod : Nat
  unordered : Bool
  serverPubKey : Bytes
  mockDomain : String
deriving DecidableEq, Repr

inductive Err
  | empty (field : String)      -- a mandatory field is empty
  | badPublicKey
  | unknownMethod
deriving DecidableEq, Repr

/-- a Go `switch` over string labels: first matching label -/
def caseOf {α} : List (String × α) → String → Option α
  | [], _ => none
  | (k, v) :: r, s => if s = k then some v else caseOf r s

/-- `net.JoinHostPort` -/
def joinHostPort (host port : String) : String :=
  if host.toList.contains ':' then "[" ++ host ++ "]:" ++ port else host ++ ":" ++ port

/-- the transport branch: mode from the switch table, then the fields of that mode -/
def transportOf (lower : String → String) (raw : RawConfig) : Transport :=
  let mode := match caseOf Gen.ClientCfg.transportCases (lower raw.transport) with
    | some m => m
    | none => Gen.ClientCfg.transportDefault
  if mode = "cdn" then
    let hostPort :=
      if raw.cdnOriginHost = "" then joinHostPort raw.remoteHost raw.remotePort
      else joinHostPort raw.cdnOriginHost raw.remotePort
    let path := if raw.cdnWsUrlPath = "" then Gen.ClientCfg.cdnPathDefault else raw.cdnWsUrlPath
    .cdn (Gen.ClientCfg.wsUrl hostPort path)
  else
    .direct (match caseOf Gen.ClientCfg.browserCases (lower raw.browserSig) with
      | some b => b
      | none => Gen.ClientCfg.browserDefault)

/-- `remote.KeepAlive` after the KeepAlive statement.  The second argument of the extracted terms is the
value of the *destination* field `remote.KeepAlive` at that point: it has not been assigned before
(`Gen.ClientCfg.keepAliveEarlierAssignments = 0`), so it is the zero value. `time.Duration` arithmetic wraps. -/
def keepAliveWith (onVal : Int → Int → Int) (raw : RawConfig) : Int :=
  if Gen.ClientCfg.keepAliveOffCond raw.keepAlive then wrap64 (Gen.ClientCfg.keepAliveOffVal raw.keepAlive 0)
  else wrap64 (onVal raw.keepAlive 0)

def keepAliveOf (raw : RawConfig) : Int := keepAliveWith Gen.ClientCfg.keepAliveOnVal raw

def timeoutOf (raw : RawConfig) : Int :=
  if Gen.ClientCfg.timeoutDefaultCond raw.streamTimeout then wrap64 (Gen.ClientCfg.timeoutDefaultVal raw.streamTimeout)
  else wrap64 (Gen.ClientCfg.timeoutVal raw.streamTimeout)

def numConnOf (raw : RawConfig) : Int × Bool :=
  if Gen.ClientCfg.singleplexCond raw.numConn then (Gen.ClientCfg.numConnThen raw.numConn, Gen.ClientCfg.singleplexThen)
  else (Gen.ClientCfg.numConnElse raw.numConn, Gen.ClientCfg.singleplexElse)

def mockList (raw : RawConfig) : List String :=
  raw.alternativeNames.filter (fun n => Gen.ClientCfg.altNameKept (n.utf8ByteSize : Nat)) ++ [raw.serverName]

/-- `ProcessRawConfig`, the early returns in source order; `ka` computes `remote.KeepAlive` -/
def processRawK (ka : RawConfig → Int) (lower : String → String) (raw : RawConfig) : Except Err Cfg :=
  if raw.serverName = "" then .error (.empty "ServerName")
  else if raw.proxyMethod = "" then .error (.empty "ProxyMethod")
  else if raw.uid.length = 0 then .error (.empty "UID")
  else if raw.publicKey.length = 0 then .error (.empty "PublicKey")
  else if Gen.ClientCfg.pubKeyRejected (raw.publicKey.length : Nat) then .error .badPublicKey
  else match caseOf Gen.ClientCfg.methodCases (lower raw.encryptionMethod) with
  | none => .error .unknownMethod
  | some enc =>
    if raw.remoteHost = "" then .error (.empty "RemoteHost")
    else if raw.remotePort = "" then .error (.empty "RemotePort")
    else if raw.localHost = "" then .error (.empty "LocalHost")
    else if raw.localPort = "" then .error (.empty "LocalPort")
    else .ok {
      localAddr := joinHostPort raw.localHost raw.localPort
      timeout := timeoutOf raw
      mockDomainList := mockList raw
      singleplex := (numConnOf raw).2
      numConn := (numConnOf raw).1
      keepAlive := ka raw
      remoteAddr := joinHostPort raw.remoteHost raw.remotePort
      transport := transportOf lower raw
      uid := raw.uid
      proxyMethod := raw.proxyMethod
      encryptionMethod := enc
      unordered := raw.udp
      serverPubKey := raw.publicKey
      mockDomain := raw.serverName }

/-- `ProcessRawConfig` with the KeepAlive statement of the tree being checked -/
def processRaw (lower : String → String) (raw : RawConfig) : Except Err Cfg := processRawK keepAliveOf lower raw

/-! ### `ParseConfig`: the JSON document, and what `cmd/ck-client` does with the result -/

/-- the top-level JSON value of the configuration text, as `encoding/json` sees it (decoding stays on the Go side) -/
inductive Doc
  | null                       -- the JSON value `null`
  | object (raw : RawConfig)   -- an object that decodes into `RawConfig` (absent members keep the zero value)
  | other                      -- anything `json.Unmarshal` refuses for a struct: array, string, number, bool, syntax error
deriving DecidableEq, Repr

/-- `new(RawConfig)` -/
def emptyRaw : RawConfig := ⟨"", "", "", [], [], 0, "", "", "", "", [], false, "", "", "", "", 0, 0⟩

/-- `ParseConfig` after the text has been obtained: `raw = new(RawConfig); err = json.Unmarshal(content, target)`.
`onNull` (extracted) says what the document `null` leads to: `"nil-config"` — the target is the pointer variable
(`&raw`), `null` stores a nil pointer, no error, nothing tests it: `(nil, nil)`; `"error"` — the same target followed
by a nil test that returns an error; `"empty-config"` — the target is the struct, `null` is a no-op. -/
def parseDoc (onNull : String) : Doc → Except Unit (Option RawConfig)
  | .null => if onNull = "nil-config" then .ok none else if onNull = "error" then .error () else .ok (some emptyRaw)
  | .object raw => .ok (some raw)
  | .other => .error ()

inductive Loaded
  | parseError
  | configError (e : Err)
  | ok (c : Cfg)
  | nilDereference      -- `cmd/ck-client` reads `rawConfig.RemoteHost` of a nil `*RawConfig`: the process dies
deriving DecidableEq, Repr

/-- `ParseConfig` followed by what `cmd/ck-client` does (it uses the result without a nil test, then `ProcessRawConfig`) -/
def loadDocWith (onNull : String) (lower : String → String) (d : Doc) : Loaded :=
  match parseDoc onNull d with
  | .error _ => .parseError
  | .ok none => .nilDereference
  | .ok (some raw) =>
    match processRaw lower raw with
    | .ok c => .ok c
    | .error e => .configError e

def loadDoc (lower : String → String) (d : Doc) : Loaded := loadDocWith Gen.ClientCfg.parseNullOutcome lower d

/-! ### the first connection made with an accepted configuration -/

inductive Connect | proceeds | panics
deriving DecidableEq, Repr

/-- `makeAuthenticationPayload`: `ecdh.GenerateSharedSecret(ephemeral, ServerPubKey)`; `dhFails pk` = `curve25519.X25519`
refuses `pk` ("bad input point: low order point": the shared secret would be all-zero whatever the private key is).
The client answers that error with `log.Panicf` (extracted). -/
def firstConnect (dhFails : Bytes → Bool) (c : Cfg) : Connect :=
  if Gen.ClientCfg.authPayloadPanicsOnDHError && dhFails c.serverPubKey then .panics else .proceeds

/-- the server name in the ClientHello of one connection; `fresh` = what `randomServerName()` draws for it.
`strings.EqualFold(name, "random")` is `lower name = "random"` for the ASCII names used. -/
def sniOf (lower : String → String) (c : Cfg) (fresh : String) : String :=
  let randomises := match c.transport with
    | .direct _ => Gen.ClientCfg.directRandomisesServerName
    | .cdn _ => Gen.ClientCfg.cdnRandomisesServerName
  if randomises && lower c.mockDomain = "random" then fresh else c.mockDomain

/-! ### `ssvToJson` on `List Char` -/

abbrev Str := List Char

def isPrefix : Str → Str → Bool
  | [], _ => true
  | _ :: _, [] => false
  | p :: ps, c :: cs => p == c && isPrefix ps cs

/-- `strings.Replace(s, old, new, -1)` for a non-empty `old`: leftmost, non-overlapping -/
def replaceAll (old new : Str) (s : Str) : Str :=
  go s.length s
where
  go : Nat → Str → Str
    | 0, s => s
    | _, [] => []
    | fuel + 1, c :: cs =>
      if old ≠ [] ∧ isPrefix old (c :: cs) then new ++ go fuel ((c :: cs).drop old.length)
      else c :: go fuel cs

def unescape (s : Str) : Str :=
  Gen.ClientCfg.ssvUnescape.foldl (fun acc p => replaceAll p.1.toList p.2.toList acc) s

/-- `strings.Split(s, sep)` for a one-character separator -/
def splitOn (sep : Char) : Str → List Str
  | [] => [[]]
  | c :: cs =>
    if c = sep then [] :: splitOn sep cs
    else match splitOn sep cs with
      | [] => [[c]]
      | h :: t => (c :: h) :: t

/-- `strings.SplitN(ln, "=", 2)` when `ln` contains '=' -/
def splitFirst (sep : Char) : Str → Option (Str × Str)
  | [] => none
  | c :: cs =>
    if c = sep then some ([], cs)
    else match splitFirst sep cs with
      | none => none
      | some (k, v) => some (c :: k, v)

def quote (s : Str) : Str := '"' :: s ++ ['"']

def intercalateStr (sep : Str) : List Str → Str
  | [] => []
  | [x] => x
  | x :: y :: r => x ++ sep ++ intercalateStr sep (y :: r)

/-- one `key=value` item rendered as a JSON member followed by a comma -/
def member (key value : Str) : Str :=
  if isPrefix "AlternativeNames".toList key then
    if value.contains ',' then
      quote key ++ ":[".toList ++ intercalateStr [','] ((splitOn ',' value).map quote) ++ "],".toList
    else quote key ++ ":[".toList ++ quote value ++ "],".toList
  else if Gen.ClientCfg.ssvUnquoted.contains (String.ofList key) then quote key ++ [':'] ++ value ++ [',']
  else quote key ++ [':'] ++ quote value ++ [',']

/-- the loop over the items: stop at the first empty item, skip items without '=' -/
def members : List Str → Str
  | [] => []
  | ln :: rest =>
    if ln = [] then []
    else match splitFirst '=' ln with
      | none => members rest
      | some (k, v) => member k v ++ members rest

/-- `ssvToJson`: "{" ++ members, last byte dropped, "}" appended -/
def ssvToJson (ssv : Str) : Str :=
  let ret := '{' :: members (splitOn ';' (unescape ssv))
  ret.dropLast ++ ['}']

end CC
