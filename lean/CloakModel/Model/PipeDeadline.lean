import CloakModel.Model.DgPipe
import CloakModel.Gen.Deadline

/-! Read deadlines of the datagram pipe (`internal/multiplex/datagramBufferedPipe.go`: `Read`'s wait loop,
`SetReadDeadline`, `broadcastAfter`) on a virtual clock.  `client.RouteUDP` sets a read deadline on every stream it
serves and refreshes it on every datagram, so every datagram of C14 passes a pipe with a deadline.

* `PDL.eval` is ONE pass through the wait loop of `Read` at the current time, in the order of the source
  (`Gen.Deadline.dgDeadlineOrder`): the `closed && empty` test (`io.EOF`), then — if a deadline is set — the test
  `time.Until(rDeadline) <= 0` (`Gen.Deadline.dgTimedOut`, `ErrTimeout`), then the has-data test (leave the loop: the
  pop of `DG.read`), otherwise arm the timer for the time left (`broadcastAfter(time.Until(rDeadline))`: it fires AT the
  deadline) and park in `rwCond.Wait()`.
* a parked reader runs the loop again whenever somebody broadcasts: `Write` (data or closing frame), `Close`,
  `SetReadDeadline`, or the timer (`PDL.wake`).
* `PDL.adv` lets virtual time pass: an armed timer whose time is reached fires on the way.

One reader at a time (a stream has one reading goroutine: `RouteUDP`'s per-stream goroutine, `common.Copy`).  The state
carries the ghost lists `outs` (results of the reads that reached the pipe) and `acc` (datagrams a `Write` accepted),
as `C14.Run` does, so that the FIFO theorems of C14 can be stated for timed runs. -/

namespace PDL
open DG

structure St where
  p : Pipe
  now : Nat                -- virtual clock, ns
  deadline : Option Nat    -- rDeadline; `none` = the zero time (no deadline)
  timer : Option Nat       -- when timeoutTimer fires, if armed and neither fired nor stopped
  pending : Option Nat     -- buffer length of the parked Read, if one is parked
  outs : List ROut         -- ghost: every result a Read got FROM THE PIPE (data / short / eof), in order
  acc : List Bytes         -- ghost: every datagram a Write accepted, in order
deriving Repr

def init : St := ⟨Pipe.empty, 0, none, none, none, [], []⟩

/-- how a `Read` call ends — or does not yet -/
inductive Out
  | r (o : ROut)     -- `data`, `short` (`io.ErrShortBuffer`), `eof`
  | timeout          -- `ErrTimeout`
  | park             -- reached `rwCond.Wait()`
deriving DecidableEq, Repr

/-- the part of `Read` after the wait loop (there is a datagram): `DG.read`'s pop or short-buffer answer -/
def take (s : St) (cap : Nat) : St × Out :=
  ({ s with p := (DG.read s.p cap).1, outs := s.outs ++ [(DG.read s.p cap).2] }, .r (DG.read s.p cap).2)

/-- one pass through the wait loop of `datagramBufferedPipe.Read` with a buffer of `cap` bytes -/
def eval (s : St) (cap : Nat) : St × Out :=
  if Gen.Datagram.dgEOF s.p.closed (s.p.lens.length : Int) then take s cap
  else match s.deadline with
    | some d =>
      if Gen.Deadline.dgTimedOut ((d : Int) - (s.now : Int)) then (s, .timeout)
      else if Gen.Datagram.dgHasData (s.p.lens.length : Int) then take s cap
      else ({ s with timer := some d }, .park)
    | none =>
      if Gen.Datagram.dgHasData (s.p.lens.length : Int) then take s cap
      else (s, .park)

/-- `rwCond.Broadcast()`: a parked reader runs the loop again; if it returns, its result is the second component -/
def wake (s : St) : St × Option Out :=
  match s.pending with
  | none => (s, none)
  | some cap =>
    match eval s cap with
    | (s', .park) => (s', none)
    | (s', o) => ({ s' with pending := none }, some o)

inductive Op
  | w (closing : Nat) (d : Bytes)
  | r (cap : Nat)
  | c
  | dl (at_ : Option Nat)
  | adv (dt : Nat)
deriving Repr

/-- what an operation shows: the write's answer, the read's own outcome, and the outcome of a parked read that this
operation woke -/
structure Res where
  w : Option WOut := none
  r : Option Out := none
  woke : Option Out := none
deriving Repr

/-- the timer fires if its time lies within `target` -/
def fire (s : St) (target : Nat) : St × Option Out :=
  match s.timer with
  | some f => if f ≤ target then wake { s with now := max s.now f, timer := none } else (s, none)
  | none => (s, none)

def step (s : St) : Op → St × Res
  | .w c d =>
    let s1 := { s with p := (DG.write s.p c d).1, acc := if (DG.write s.p c d).2 = .ok then s.acc ++ [d] else s.acc }
    let (s2, k) := wake s1
    (s2, { w := some (DG.write s.p c d).2, woke := k })
  | .r cap =>
    match s.pending with
    | some _ => (s, {})          -- one reader at a time: the harness never issues this
    | none =>
      match eval s cap with
      | (s', .park) => ({ s' with pending := some cap }, { r := some .park })
      | (s', o) => (s', { r := some o })
  | .c =>
    let (s2, k) := wake { s with p := DG.close s.p }
    (s2, { woke := k })
  | .dl at_ =>
    let (s2, k) := wake { s with deadline := at_ }
    (s2, { woke := k })
  | .adv dt =>
    let target := s.now + dt
    let (s1, k1) := fire s target
    let (s2, k2) := fire s1 target     -- a timer armed by the first wake-up (never happens: `PDL.Inv`); kept for faithfulness
    ({ s2 with now := target }, { woke := match k1 with | some o => some o | none => k2 })

def run (ops : List Op) : St := ops.foldl (fun s op => (step s op).1) init

end PDL
