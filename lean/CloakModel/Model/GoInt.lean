/-! Go's fixed-width integer conversions (two's complement), shared by the models that have to mirror
`int64`/`int32`/`uint32` arithmetic exactly. Core Lean only. -/

namespace GoInt

/-- `uint64(v)` for an `int64`/`int` value -/
def toU64 (v : Int) : Nat := (v % 18446744073709551616).toNat
/-- `int64(n)` for a `uint64` value -/
def toS64 (n : Nat) : Int :=
  if n % 18446744073709551616 < 9223372036854775808 then ((n % 18446744073709551616 : Nat) : Int)
  else ((n % 18446744073709551616 : Nat) : Int) - 18446744073709551616
def toU32 (v : Int) : Nat := (v % 4294967296).toNat
def toS32 (n : Nat) : Int :=
  if n % 4294967296 < 2147483648 then ((n % 4294967296 : Nat) : Int) else ((n % 4294967296 : Nat) : Int) - 4294967296
/-- the result of an `int64` operation whose mathematical value is `v` -/
def wrap64 (v : Int) : Int := toS64 (toU64 v)

def In64 (v : Int) : Prop := -9223372036854775808 ≤ v ∧ v < 9223372036854775808
def In32 (v : Int) : Prop := -2147483648 ≤ v ∧ v < 2147483648

theorem toU64_lt (v : Int) : toU64 v < 18446744073709551616 := by unfold toU64; omega
theorem toU32_lt (v : Int) : toU32 v < 4294967296 := by unfold toU32; omega
theorem toS64_toU64 (v : Int) (h : In64 v) : toS64 (toU64 v) = v := by
  unfold In64 at h; unfold toS64 toU64; split <;> omega
theorem toS32_toU32 (v : Int) (h : In32 v) : toS32 (toU32 v) = v := by
  unfold In32 at h; unfold toS32 toU32; split <;> omega
theorem toS64_in (n : Nat) : In64 (toS64 n) := by unfold In64 toS64; split <;> omega
theorem toS32_in (n : Nat) : In32 (toS32 n) := by unfold In32 toS32; split <;> omega
theorem wrap64_in (v : Int) : In64 (wrap64 v) := toS64_in _
theorem wrap64_id (v : Int) (h : In64 v) : wrap64 v = v := toS64_toU64 v h
theorem toU32_toS32 (n : Nat) (h : n < 4294967296) : toU32 (toS32 n) = n := by
  unfold toU32 toS32; split <;> omega

end GoInt
