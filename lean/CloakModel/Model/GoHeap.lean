import CloakModel.Model.ReorderBuf
import CloakModel.Gen.Heap

/-! `container/heap` (Go standard library, transcribed from `$GOROOT/src/container/heap/heap.go` of the toolchain the
repository builds with) instantiated with `sorterHeap` of `internal/multiplex/streamBuffer.go`, and `streamBuffer.Write`
on top of it.  The array is an `Array RB.Frame`; every index the Go code uses is in range *by construction* (the
functions carry the bound proofs), so there is no out-of-range default anywhere: the only panic of the Go code —
`heap.Pop` on an empty heap — is excluded by the argument `0 < a.size` of `heapPop`.

Index formulas (`(j - 1) / 2`, `2*i + 1`, `j1 + 1`) and the comparison of `sorterHeap.Less` are the terms the extractor
translated (`Gen.Heap.*`); the branch conditions of `up`/`down` are pinned by `C02Heap.gen_*`. -/

namespace GoHeap
open RB (Frame SB Out W pipeAppend)

abbrev Heap := Array Frame

/-- `sorterHeap.Less(i, j)`: `sh[i].Seq < sh[j].Seq` (uint64) -/
def less (a : Heap) (i j : Nat) (hi : i < a.size) (hj : j < a.size) : Bool :=
  Gen.Heap.shLess (a[i].seq : Int) (a[j].seq : Int)

theorem parent_le (j : Nat) : Gen.Heap.upParent j ≤ j := by unfold Gen.Heap.upParent; omega
theorem left_gt (i : Nat) : i < Gen.Heap.downLeft i := by unfold Gen.Heap.downLeft; omega

/-- `up(h, j)`: the loop runs at most `j+1` times (`fuel`); `C02Heap.up_fuel`: any fuel `> j` gives the same result -/
def up : Nat → (a : Heap) → (j : Nat) → j < a.size → Heap
  | 0, a, _, _ => a
  | fuel+1, a, j, hj =>
    let i := Gen.Heap.upParent j                      -- i := (j - 1) / 2 // parent
    have hi : i < a.size := Nat.lt_of_le_of_lt (parent_le j) hj
    if i = j ∨ ¬ less a j i hj hi then a               -- if i == j || !h.Less(j, i) { break }
    else up fuel (a.swap i j hi hj) i (by simpa using hi)   -- h.Swap(i, j); j = i

/-- the child to compare with in `down`: `j := j1; if j2 := j1 + 1; j2 < n && h.Less(j2, j1) { j = j2 }` -/
def pick (a : Heap) (j1 n : Nat) (h1 : j1 < n) (hn : n ≤ a.size) : Nat :=
  let j2 := Gen.Heap.downRight j1
  if h2 : j2 < n then
    if less a j2 j1 (Nat.lt_of_lt_of_le h2 hn) (Nat.lt_of_lt_of_le h1 hn) then j2 else j1
  else j1

theorem pick_lt (a : Heap) (j1 n : Nat) (h1 : j1 < n) (hn : n ≤ a.size) : pick a j1 n h1 hn < n := by
  unfold pick
  simp only
  split
  · split <;> assumption
  · assumption

/-- `down(h, i0, n)` (the Boolean result is unused by `Pop`) -/
def down : Nat → (a : Heap) → (i n : Nat) → n ≤ a.size → Heap
  | 0, a, _, _, _ => a
  | fuel+1, a, i, n, hn =>
    let j1 := Gen.Heap.downLeft i                     -- j1 := 2*i + 1
    if h1 : j1 < n then                               -- if j1 >= n || j1 < 0 { break }
      have hi : i < a.size := Nat.lt_trans (left_gt i) (Nat.lt_of_lt_of_le h1 hn)
      let j := pick a j1 n h1 hn
      have hj : j < a.size := Nat.lt_of_lt_of_le (pick_lt a j1 n h1 hn) hn
      if less a j i hj hi then down fuel (a.swap i j hi hj) j n (by simpa using hn)   -- h.Swap(i, j); i = j
      else a                                          -- if !h.Less(j, i) { break }
    else a

theorem size_up : ∀ (fuel : Nat) (a : Heap) (j : Nat) (hj : j < a.size), (up fuel a j hj).size = a.size
  | 0, _, _, _ => rfl
  | fuel+1, a, j, hj => by
    unfold up
    simp only
    split
    · rfl
    · rw [size_up fuel]; simp

theorem size_down : ∀ (fuel : Nat) (a : Heap) (i n : Nat) (hn : n ≤ a.size), (down fuel a i n hn).size = a.size
  | 0, _, _, _, _ => rfl
  | fuel+1, a, i, n, hn => by
    unfold down
    simp only
    split
    · split
      · rw [size_down fuel]; simp
      · rfl
    · rfl

/-- `heap.Push(h, x)`: `h.Push(x)` (append), then `up(h, h.Len()-1)` -/
def heapPush (a : Heap) (x : Frame) : Heap :=
  up (a.size + 1) (a.push x) ((a.push x).size - 1) (by simp)

/-- `heap.Pop(h)` on a non-empty heap: `n := h.Len()-1; h.Swap(0, n); down(h, 0, n); return h.Pop()` where
`sorterHeap.Pop` returns the last slot and truncates by one.  (On an empty heap Go panics in `Swap(0, -1)`.) -/
def heapPop (a : Heap) (h : 0 < a.size) : Frame × Heap :=
  let n := a.size - 1
  let a1 := a.swap 0 n h (by omega)
  let a2 := down (n + 1) a1 0 n (by simp [a1]; omega)
  have h2 : 0 < a2.size := by simp [a2, a1, size_down]; exact h
  (a2[a2.size - 1]'(by omega), a2.pop)

/-- receive side of one ordered stream with the array heap (same fields as `RB.SB`) -/
structure SBH where
  next : Nat
  heap : Heap
  buf  : Bytes
  out  : Bytes
  closed : Bool

/-- the loop of `streamBuffer.Write`; at most `size + 1` tests (`fuel`) -/
def drainH : Nat → Bool → Nat → Bytes → Bytes → Heap → SBH × Out
  | 0, closed, next, buf, out, h => (⟨next, h, buf, out, closed⟩, .ok)
  | fuel+1, closed, next, buf, out, h =>
    if hz : 0 < h.size then                            -- len(sb.sh) > 0 && sb.sh[0].Seq == sb.nextRecvSeq
      if Gen.Reorder.sbLoop (h.size : Nat) (h[0].seq) next then
        let r := heapPop h hz
        if r.1.closing then (⟨next, r.2, buf, out, closed⟩, .close)
        else drainH fuel closed ((next + 1) % W) (pipeAppend closed buf r.1.payload) out r.2
      else (⟨next, h, buf, out, closed⟩, .ok)
    else (⟨next, h, buf, out, closed⟩, .ok)

def writeH (sb : SBH) (f : Frame) : SBH × Out :=
  if Gen.Reorder.sbFast (sb.heap.size : Nat) f.seq sb.next then
    if f.closing then (sb, .close)
    else ({ sb with next := (sb.next + 1) % W, buf := pipeAppend sb.closed sb.buf f.payload }, .ok)
  else if Gen.Reorder.sbStale f.seq sb.next then (sb, .errOld)
  else
    let h := heapPush sb.heap f
    drainH (h.size + 1) sb.closed sb.next sb.buf sb.out h

def initH (next : Nat) : SBH := ⟨next, #[], [], [], false⟩

end GoHeap
