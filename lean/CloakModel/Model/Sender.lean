import CloakModel.Model.Basic
import CloakModel.Gen.Sender

/-! Sender side of one stream (`internal/multiplex/stream.go`: `Write`, `ReadFrom`, `Close` →
`obfuscateAndSend`; `session.go`: `closeStream`) as an interleaving system.

Shared state: `writingFrame.Seq`, the `closed` flag, the mutex `writingM`.  Every call of `Write`,
`ReadFrom` or `Close` is a thread running a straight-line program of atomic steps.  The encode is
deliberately split in two steps — `enc` = `session.obfuscate(&s.writingFrame, …)` *reads* `Seq`,
`inc` = `s.writingFrame.Seq++` — so that only the mutex makes the pair atomic.  Whether a program
contains the `lock`/`unlock` steps, and whether `inc` precedes `send`, is decided by the facts the
extractor regenerates from the Go source (`Gen.Sender.lockWrite/lockReadFrom/lockClose`,
`Gen.Sender.seqIncrAfterObfuscate`; `Gen.Sender.readFromChkUnderLock`: whether `ReadFrom`'s closed-test is made
inside the critical section that sends the chunk — it was not before /repo 6ee9036). -/

namespace SN

structure Frame where
  seq : Nat           -- the value of writingFrame.Seq the encode read
  closing : Bool
  pl : Nat            -- identity of the payload chunk
  owner : Nat         -- the call (thread) that encoded it (ghost)
deriving DecidableEq, Repr

/-- outcome of the rest of `obfuscateAndSend` after the number was consumed: sent; `sb.send` failed
(the session is torn down: every stream's `closed` is set); `obfuscate` itself failed (nothing sent) -/
inductive Res | ok | connErr | encErr deriving DecidableEq, Repr

inductive Instr
  | lock | unlock
  | chk                            -- `if s.isClosed() { return …ErrBrokenStream }`
  | cas                            -- `closeStream`: `if !CAS(&s.closed, 0, 1) { return err }`
  | enc (closing : Bool) (pl : Nat) -- `session.obfuscate(&s.writingFrame, …)`
  | inc                            -- `s.writingFrame.Seq++`
  | send (r : Res)                 -- `if err != nil { return }` / `sb.send(…)`
deriving DecidableEq, Repr

structure Thread where
  prog : List Instr
  cur  : Option Frame     -- frame produced by this call's last encode, not yet handed to `send`
  pend : Bool             -- encoded, `Seq++` not yet executed
deriving Repr

structure State where
  seq    : Nat
  closed : Bool
  clflag : Bool           -- `writingFrame.Closing ≠ closingNothing`: set by `closeStream`, never reset
  lock   : Option Nat
  enc    : List Frame     -- numbers consumed, in the order of the `Seq++` steps
  wire   : List Frame     -- frames handed to a connection successfully
  thr    : List Thread
deriving Repr

/-- an early `return`: a deferred / pending `Unlock` still runs -/
def abort (s : State) (t : Nat) : State :=
  { s with thr := s.thr.set t ⟨if s.lock = some t then [.unlock] else [], none, false⟩ }

/-- one atomic step of thread `t`; `none` when not enabled -/
def step (s : State) (t : Nat) : Option State :=
  match s.thr[t]? with
  | none => none
  | some th =>
    match th.prog with
    | [] => none
    | .lock :: p =>
      if s.lock = none then some { s with lock := some t, thr := s.thr.set t { th with prog := p } } else none
    | .unlock :: p => some { s with lock := none, thr := s.thr.set t { th with prog := p } }
    | .chk :: p =>
      if s.closed then some (abort s t) else some { s with thr := s.thr.set t { th with prog := p } }
    | .cas :: p =>
      if s.closed then some (abort s t)
      else some { s with closed := true, thr := s.thr.set t { th with prog := p } }
    | .enc cl pl :: p =>
      -- `Close` sets `writingFrame.Closing = closingStream` right before its encode; the field is shared, so a
      -- `ReadFrom` chunk that passed its closed-test earlier and is encoded afterwards carries the flag too
      some { s with clflag := cl || s.clflag, thr := s.thr.set t ⟨p, some ⟨s.seq, cl || s.clflag, pl, t⟩, true⟩ }
    | .inc :: p =>
      match th.cur, th.pend with
      | some f, true => some { s with seq := s.seq + 1, enc := s.enc ++ [f], thr := s.thr.set t ⟨p, some f, false⟩ }
      | _, _ => none
    | .send r :: p =>
      match th.cur with
      | none => none
      | some f =>
        match r with
        | .ok => some { s with wire := s.wire ++ [f], thr := s.thr.set t ⟨p, none, th.pend⟩ }
        | .connErr => some (abort { s with closed := true } t)
        | .encErr => some (abort s t)

def runSched (s : State) : List Nat → State
  | [] => s
  | t :: ts => match step s t with
    | some s' => runSched s' ts
    | none => runSched s ts          -- a pick that is not enabled is a no-op

def init (progs : List (List Instr)) : State :=
  ⟨0, false, false, none, [], [], progs.map (fun p => ⟨p, none, false⟩)⟩

/-- a new call starts (a goroutine enters `Write`/`ReadFrom`/`Close`) -/
def spawn (s : State) (p : List Instr) : State := { s with thr := s.thr ++ [⟨p, none, false⟩] }

/-! ### the three kinds of call, with step granularity taken from the extracted facts -/

/-- one pass through `obfuscateAndSend`; `incFirst` = "`Seq++` directly follows the encode" -/
def frameI (incFirst : Bool) (cl : Bool) (pl : Nat) (r : Res) : List Instr :=
  if incFirst then [.enc cl pl, .inc, .send r] else [.enc cl pl, .send r, .inc]

def sect (locked : Bool) (body : List Instr) : List Instr :=
  if locked then .lock :: (body ++ [.unlock]) else body

inductive Call
  | write (frames : List (Nat × Res))      -- `Stream.Write`: one chunk per frame
  | readFrom (chunks : List (Nat × Res))   -- `Stream.ReadFrom`: one chunk per `r.Read`
  | close (pl : Nat) (r : Res)             -- `Stream.Close`
deriving Repr

/-- structure of the three call chains as read from the source -/
structure Shape where
  lockWrite : Bool
  lockReadFrom : Bool
  lockClose : Bool
  incFirst : Bool
  chkInRF : Bool      -- `ReadFrom` makes its closed-test under the mutex, in the section that sends the chunk
deriving DecidableEq, Repr

def Call.progW (sh : Shape) : Call → List Instr
  | .write fs => sect sh.lockWrite (.chk :: fs.flatMap (fun x => frameI sh.incFirst false x.1 x.2))
  | .readFrom cs =>
    if sh.chkInRF then cs.flatMap (fun x => sect sh.lockReadFrom (.chk :: frameI sh.incFirst false x.1 x.2))
    else cs.flatMap (fun x => .chk :: sect sh.lockReadFrom (frameI sh.incFirst false x.1 x.2))
  | .close pl r => sect sh.lockClose (.cas :: frameI sh.incFirst true pl r)

/-- the shape of the code under check -/
def genShape : Shape :=
  ⟨Gen.Sender.lockWrite, Gen.Sender.lockReadFrom, Gen.Sender.lockClose, Gen.Sender.seqIncrAfterObfuscate,
   Gen.Sender.readFromChkUnderLock⟩

def Call.prog (c : Call) : List Instr := c.progW genShape

/-! ### phases of a program (which instruction may come next) -/

structure Ph where
  inside : Bool
  pend : Bool
  has : Bool
deriving DecidableEq, Repr

def idle : Ph := ⟨false, false, false⟩

def adv (ph : Ph) (i : Instr) : Option Ph :=
  match i, ph with
  | .lock,     ⟨false, false, false⟩ => some ⟨true, false, false⟩
  | .unlock,   ⟨true, false, false⟩  => some ⟨false, false, false⟩
  | .chk,      ⟨b, false, false⟩     => some ⟨b, false, false⟩
  | .cas,      ⟨true, false, false⟩  => some ⟨true, false, false⟩
  | .enc _ _,  ⟨true, false, false⟩  => some ⟨true, true, true⟩
  | .inc,      ⟨true, true, true⟩    => some ⟨true, false, true⟩
  | .send _,   ⟨true, false, true⟩   => some ⟨true, false, false⟩
  | _, _ => none

def advs (ph : Ph) : List Instr → Option Ph
  | [] => some ph
  | i :: p => match adv ph i with
    | some ph' => advs ph' p
    | none => none

/-- a program made of critical sections `lock (chk|cas|enc inc send)* unlock` and closed-tests outside -/
def wf (p : List Instr) : Prop := advs idle p = some idle

end SN
