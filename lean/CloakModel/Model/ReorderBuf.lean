import CloakModel.Model.Basic
import CloakModel.Gen.Reorder

/-! Model of `internal/multiplex/streamBuffer.go` (`streamBuffer.Write/Read/Close`) on top of the
byte pipe of `streamBufferedPipe.go`.  The three branch conditions are the terms the extractor
translated from the Go source (`Gen.Reorder.sbFast/sbStale/sbLoop`); the heap is modelled as a list
kept sorted by sequence number (priority-queue abstraction of `container/heap`). -/

namespace RB

structure Frame where
  seq : Nat
  closing : Bool
  payload : Bytes
deriving Repr

/-- receive side of one ordered stream -/
structure SB where
  next : Nat
  heap : List Frame
  buf  : Bytes          -- bytes in the pipe, not yet read
  out  : Bytes          -- bytes already returned to the reader (ghost)
  closed : Bool         -- the pipe's `closed` flag
deriving Repr

inductive Out | ok | close | errOld deriving DecidableEq, Repr

def W : Nat := 2^64

def ins (f : Frame) : List Frame → List Frame
  | [] => [f]
  | g :: gs => if f.seq < g.seq then f :: g :: gs else g :: ins f gs

/-- `streamBufferedPipe.Write`: bytes are dropped when the pipe is closed (the error is ignored by the caller) -/
def pipeAppend (closed : Bool) (buf data : Bytes) : Bytes := if closed then buf else buf ++ data

def drain (closed : Bool) (next : Nat) (buf out : Bytes) : List Frame → SB × Out
  | [] => (⟨next, [], buf, out, closed⟩, .ok)
  | g :: gs =>
    if Gen.Reorder.sbLoop ((g :: gs).length : Nat) g.seq next then
      if g.closing then (⟨next, gs, buf, out, closed⟩, .close)
      else drain closed ((next + 1) % W) (pipeAppend closed buf g.payload) out gs
    else (⟨next, g :: gs, buf, out, closed⟩, .ok)

def write (sb : SB) (f : Frame) : SB × Out :=
  if Gen.Reorder.sbFast (sb.heap.length : Nat) f.seq sb.next then
    if f.closing then (sb, .close)
    else ({ sb with next := (sb.next + 1) % W, buf := pipeAppend sb.closed sb.buf f.payload }, .ok)
  else if Gen.Reorder.sbStale f.seq sb.next then (sb, .errOld)
  else drain sb.closed sb.next sb.buf sb.out (ins f sb.heap)

inductive ROut | data (b : Bytes) | eof | block deriving DecidableEq, Repr

/-- `streamBufferedPipe.Read` with a target of `k > 0` bytes -/
def read (sb : SB) (k : Nat) : SB × ROut :=
  if sb.closed ∧ sb.buf = [] then (sb, .eof)
  else if sb.buf = [] then (sb, .block)
  else ({ sb with buf := sb.buf.drop k, out := sb.out ++ sb.buf.take k }, .data (sb.buf.take k))

def close (sb : SB) : SB := { sb with closed := true }

def init (next : Nat) : SB := ⟨next, [], [], [], false⟩

end RB
