import CloakModel.Model.Basic

/-! Algebraic interface of the cryptography used by the handshake (AES-GCM with a 16-byte tag and
X25519).  The executable models and the theorems of C06/C07/C08 are parametric in `C : HS.Crypto`;
proofs never unfold a cipher.  The driver instantiates `C` from ORACLE rows computed by Go's
`crypto/aes`+`crypto/cipher` and `golang.org/x/crypto/curve25519` (not through Cloak's wrappers).

* `HS.Lawful` — laws that are TRUE of the real primitives (decrypt∘encrypt, determinism of GCM
  decryption, tag length, Diffie-Hellman commutativity, output sizes).
* `HS.INT`, `HS.DH12` — explicit IDEALISATIONS used only as theorem hypotheses (never axioms) where a
  property speaks about an adversary "who holds no keys"; each is shown satisfiable, jointly with
  `Lawful`, by the toy instance at the end of `Props/C08.lean`.
* `HS.TopBit` — X25519 ignores bit 255 of the peer's public value (RFC 7748 §5).  A fact about the
  real function that this framework does not prove (no native Lean X25519 yet); it is validated
  against x/crypto by the harness on every run and used only for the *refutation* witnesses. -/

namespace HS

structure Crypto where
  /-- AES-GCM seal: key, 12-byte nonce, plaintext ↦ ciphertext ‖ tag -/
  gcmSeal : Bytes → Bytes → Bytes → Bytes
  /-- AES-GCM open: key, nonce, ciphertext ‖ tag ↦ plaintext, `none` = authentication failure -/
  gcmOpen : Bytes → Bytes → Bytes → Option Bytes
  /-- X25519(private scalar, peer public value); `none` = x/crypto's low-order-point error -/
  dh : Bytes → Bytes → Option Bytes
  /-- X25519 base-point multiplication -/
  pub : Bytes → Bytes

structure Lawful (C : Crypto) : Prop where
  open_seal : ∀ k n p, C.gcmOpen k n (C.gcmSeal k n p) = some p
  /-- GCM decryption is deterministic: whatever opens IS the sealing of what it opens to -/
  open_sound : ∀ k n c p, C.gcmOpen k n c = some p → c = C.gcmSeal k n p
  seal_len : ∀ k n p, (C.gcmSeal k n p).length = p.length + 16
  dh_comm : ∀ a b, C.dh a (C.pub b) = C.dh b (C.pub a)
  pub_len : ∀ a, (C.pub a).length = 32
  dh_len : ∀ a b s, C.dh a b = some s → s.length = 32

/-- `r[31] &= 0x7f`: the 32-byte value with bit 255 cleared -/
def clear255 (r : Bytes) : Bytes := r.take 31 ++ (r.drop 31).map (fun b => b &&& 127)
/-- the 32-byte value with bit 255 flipped -/
def flip255 (r : Bytes) : Bytes := r.take 31 ++ (r.drop 31).map (fun b => b ^^^ 128)

/-- the (secret, nonce) pair under which the server tries to open the block that came with `r` -/
def opensUnder (C : Crypto) (sk r c : Bytes) : Option Bytes :=
  (C.dh sk r).bind (fun s => C.gcmOpen s (r.take 12) c)

/-- **INT** (idealised integrity of the sealed identity block against an adversary who holds no
keys), relative to the set `U` of 32-byte values that are ever presented to the server: if one sealed
block authenticates under the secrets derived from two presented values, then it is the same secret
and the same nonce (nobody can transplant a block to another key or nonce, or re-seal it). -/
def INT (C : Crypto) (sk : Bytes) (U : Bytes → Prop) : Prop :=
  ∀ r r' c p p', U r → U r' → opensUnder C sk r c = some p → opensUnder C sk r' c = some p' →
    C.dh sk r = C.dh sk r' ∧ r.take 12 = r'.take 12

/-- **DH12**: two presented 32-byte values that agree in their first 12 bytes and give the same
X25519 output under the server key agree up to bit 255. -/
def DH12 (C : Crypto) (sk : Bytes) (U : Bytes → Prop) : Prop :=
  ∀ r r', U r → U r' → r.length = 32 → r'.length = 32 → r.take 12 = r'.take 12 →
    (C.dh sk r).isSome = true → C.dh sk r = C.dh sk r' → clear255 r = clear255 r'

/-- X25519 masks bit 255 of the u-coordinate (RFC 7748 §5) -/
def TopBit (C : Crypto) (sk : Bytes) : Prop := ∀ r, r.length = 32 → C.dh sk (flip255 r) = C.dh sk r

end HS
