import CloakModel.Model.HsCrypto
import CloakModel.Gen.Handshake
import CloakModel.Gen.Auth

/-! The 48-byte authentication plaintext: how the client builds and seals it
(`internal/client/auth.go: makeAuthenticationPayload`) and how the server opens and reads it
(`internal/server/auth.go: decryptClientInfo`).  Every offset, the flag mask, the `bytes.Trim`
cutset and the timestamp window are the values/terms regenerated from the Go source. -/

namespace HS
open Gen.Handshake

/-- Go `b[lo:hi]` on a slice long enough (callers guarantee the length) -/
def slice (b : Bytes) (lo hi : Nat) : Bytes := (b.drop lo).take (hi - lo)

/-- Go `copy(buf[lo:hi], data)`: copies `min (hi-lo) len(data)` bytes (for `lo ≤ hi ≤ len buf`) -/
def blit (buf : Bytes) (lo hi : Nat) (data : Bytes) : Bytes :=
  let d := data.take (hi - lo)
  buf.take lo ++ d ++ buf.drop (lo + d.length)

def zeros (n : Nat) : Bytes := List.replicate n 0

/-- Go `copy(arr[:], x)` into a fresh zero `[n]byte` -/
def fit (n : Nat) (x : Bytes) : Bytes := x.take n ++ zeros (n - x.length)

/-- what the client is configured with (`client.AuthInfo`) -/
structure AuthInfo where
  uid : Bytes
  sid : Nat              -- uint32
  method : Bytes         -- ProxyMethod (a Go string)
  enc : UInt8
  unordered : Bool
deriving DecidableEq, Repr

/-- `uint64(t)` of a (possibly negative) int64, big-endian -/
def u64OfInt (t : Int) : Nat := (t % 18446744073709551616).toNat
/-- `int64(u)` of a uint64 -/
def i64OfNat (u : Nat) : Int := if u < 9223372036854775808 then (u : Int) else (u : Int) - 18446744073709551616

/-- `makeAuthenticationPayload`, the plaintext: writes in source order into a zeroed buffer -/
def mkPlain (a : AuthInfo) (ts : Int) : Bytes :=
  let p0 := zeros cPlainLen
  let p1 := blit p0 0 cPlainLen a.uid
  let p2 := blit p1 cMethodLo cMethodHi a.method
  let p3 := blit p2 cEncIdx (cEncIdx + 1) [a.enc]
  let p4 := blit p3 cTsLo cTsHi (beBytes 8 (u64OfInt ts))
  let p5 := blit p4 cSidLo cSidHi (beBytes 4 a.sid)
  if a.unordered then
    blit p5 cFlagIdx (cFlagIdx + 1) ((slice p5 cFlagIdx (cFlagIdx + 1)).map (fun b => b ||| UInt8.ofNat cFlagMask))
  else p5

structure Payload where
  rand : Bytes      -- randPubKey [32]byte
  ct   : Bytes      -- ciphertextWithTag [64]byte
  shared : Bytes    -- the client's copy of the shared secret [32]byte
deriving DecidableEq, Repr

/-- `makeAuthenticationPayload`; `none` = the `log.Panicf` on a failed key agreement -/
def mkPayload (C : Crypto) (eph serverPub : Bytes) (a : AuthInfo) (ts : Int) : Option Payload :=
  let rand := fit 32 (C.pub eph)
  match C.dh eph serverPub with
  | none => none
  | some secret =>
    let shared := fit 32 secret
    some ⟨rand, fit 64 (C.gcmSeal shared (slice rand cNonceLo cNonceHi) (mkPlain a ts)), shared⟩

/-- `server.ClientInfo` (without the transport) -/
structure ClientInfo where
  uid : Bytes
  sid : Nat
  method : Bytes
  enc : UInt8
  unordered : Bool
deriving DecidableEq, Repr

def AuthInfo.toClientInfo (a : AuthInfo) : ClientInfo := ⟨a.uid, a.sid, a.method, a.enc, a.unordered⟩

/-- `bytes.Trim(b, cutset)` -/
def trim (cut : List Nat) (b : Bytes) : Bytes :=
  let inCut := fun (x : UInt8) => cut.contains x.toNat
  ((b.dropWhile inCut).reverse.dropWhile inCut).reverse

/-- `authFragments` -/
structure Fragments where
  shared : Bytes
  rand : Bytes
  ct : Bytes
deriving DecidableEq, Repr

inductive DecErr | open_ | window | panic
deriving DecidableEq, Repr

/-- timestamp field of an opened plaintext -/
def plainTs (pt : Bytes) : Int := i64OfNat (beNat (slice pt sTsLo sTsHi))

/-- the highest plaintext offset `decryptClientInfo` touches; a shorter plaintext would be an
index-out-of-range panic (it cannot occur: the sealed block is a `[64]byte`, so what opens has 48 bytes) -/
def sNeed : Nat := [sUidHi, sMethodHi, sEncIdx + 1, sFlagIdx + 1, sTsHi, sSidHi].foldl max 0

/-- the fields `decryptClientInfo` reads; `none` = index out of range -/
def plainInfo (pt : Bytes) (sid : Nat) : Option ClientInfo := do
  let e ← pt[sEncIdx]?
  let f ← pt[sFlagIdx]?
  pure { uid := slice pt sUidLo sUidHi, sid := sid, method := trim sTrimCutset (slice pt sMethodLo sMethodHi),
         enc := e, unordered := (f &&& UInt8.ofNat sFlagMask) != 0 }

/-- the window of `decryptClientInfo`: the negation of the translated rejecting condition -/
def inWindow (ts now : Int) : Bool := !(Gen.Auth.windowReject ts now)

/-- `decryptClientInfo`.  On a window failure Go also returns the partially filled `info`
(session id 0); callers only log it. -/
def decryptInfo (C : Crypto) (f : Fragments) (now : Int) : Except DecErr ClientInfo :=
  match C.gcmOpen f.shared (slice f.rand sNonceLo sNonceHi) f.ct with
  | none => .error .open_
  | some pt =>
    if pt.length < sNeed then .error .panic
    else match plainInfo pt (beNat (slice pt sSidLo sSidHi)) with
      | none => .error .panic
      | some info => if inWindow (plainTs pt) now then .ok info else .error .window

end HS
