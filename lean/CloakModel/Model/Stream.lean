import CloakModel.Model.ReorderBuf
import CloakModel.Gen.StreamClose

/-! One side of one ordered stream (`internal/multiplex/stream.go` + `session.go: closeStream,
recvDataFromRemote`), operations taken one at a time: `write`, active `close`, `recv` (a frame for
this stream id arrives), `read`, and the session-level sweep `sessClose`.  The receive buffer is the
executable reorder-buffer model `RB` that the C02 check ties to `streamBuffer.go`; whether
`closeStream` closes that buffer, whether `Write` tests the closed flag, the pipe's EOF test and the
EOF → `ErrBrokenStream` mapping are the terms/facts the extractor regenerates (`Gen.StreamClose`). -/

namespace ST
open RB (Frame W)

structure Side where
  closed : Bool     -- Stream.closed
  wseq   : Nat      -- writingFrame.Seq
  tomb   : Bool     -- the session's table entry for this id is nil (frames for it are dropped)
  rb     : RB.SB    -- recvBuf
deriving Repr

def init : Side := ⟨false, 0, false, RB.init 0⟩

/-! ### Read -/

/-- `streamBufferedPipe.Read` (no deadline), EOF test as extracted -/
def pipeRead (sb : RB.SB) (k : Nat) : RB.SB × RB.ROut :=
  if Gen.StreamClose.pipeEOF sb.closed (sb.buf.length : Nat) then (sb, .eof)
  else if sb.buf = [] then (sb, .block)
  else ({ sb with buf := sb.buf.drop k, out := sb.out ++ sb.buf.take k }, .data (sb.buf.take k))

inductive RdOut | data (b : Bytes) | broken | eof | block deriving DecidableEq, Repr

/-- `Stream.Read(buf)` with `len(buf) = k` -/
def read (s : Side) (k : Nat) : Side × RdOut :=
  if k = 0 then (s, .data [])
  else
    match pipeRead s.rb k with
    | (rb', .data b) => ({ s with rb := rb' }, .data b)
    | (rb', .eof) => ({ s with rb := rb' }, if Gen.StreamClose.readMapsEOF then .broken else .eof)
    | (rb', .block) => ({ s with rb := rb' }, .block)

/-! ### Write -/

/-- the split loop of `Stream.Write` (`mtu` = `maxStreamUnitWrite`); `fuel` bounds the iterations -/
def chunksF (mtu : Nat) : Nat → Bytes → List Bytes
  | 0, _ => []
  | fuel + 1, d =>
    if d = [] then []
    else if mtu = 0 ∨ d.length ≤ mtu then [d]
    else d.take mtu :: chunksF mtu fuel (d.drop mtu)

def chunks (mtu : Nat) (d : Bytes) : List Bytes := chunksF mtu d.length d

/-- one data frame per chunk, numbered from `seq` (uint64 wrap explicit) -/
def frames (seq : Nat) : List Bytes → List Frame × Nat
  | [] => ([], seq)
  | c :: cs => (⟨seq, false, c⟩ :: (frames ((seq + 1) % W) cs).1, (frames ((seq + 1) % W) cs).2)

inductive WOut | refused | sent (fs : List Frame) deriving Repr

def write (mtu : Nat) (s : Side) (d : Bytes) : Side × WOut :=
  if Gen.StreamClose.writeChecksClosed && s.closed then (s, .refused)
  else ({ s with wseq := (frames s.wseq (chunks mtu d)).2 }, .sent (frames s.wseq (chunks mtu d)).1)

/-! ### Close, active and passive -/

/-- `_ = s.recvBuf.Close()` in `closeStream` — present or not, as extracted -/
def closeRecv (rb : RB.SB) : RB.SB := if Gen.StreamClose.closesRecvBuf then RB.close rb else rb

inductive COut | repeated | sent (f : Frame) deriving Repr

/-- `Stream.Close` → `closeStream(s, true)`: CAS; close the receive buffer; closing frame with the next
number (payload = random padding `pad`); tombstone -/
def close (s : Side) (pad : Bytes) : Side × COut :=
  if s.closed then (s, .repeated)
  else ({ closed := true, wseq := (s.wseq + 1) % W, tomb := s.tomb || Gen.StreamClose.tombstones, rb := closeRecv s.rb },
        .sent ⟨s.wseq, true, pad⟩)

inductive RvOut | dropped | ok | closed | errOld deriving DecidableEq, Repr

/-- `recvDataFromRemote` for a frame of this stream → `recvFrame` → (on the close report) `passiveClose` -/
def recv (s : Side) (f : Frame) : Side × RvOut :=
  if s.tomb then (s, .dropped)
  else
    match RB.write s.rb f with
    | (rb', .ok) => ({ s with rb := rb' }, .ok)
    | (rb', .errOld) => ({ s with rb := rb' }, .errOld)
    | (rb', .close) =>
      if s.closed then ({ s with rb := rb' }, .ok)          -- errRepeatStreamClosing is swallowed
      else ({ s with closed := true, tomb := s.tomb || Gen.StreamClose.tombstones, rb := closeRecv rb' }, .closed)

/-- `closeSession`'s sweep over the streams (session torn down or closing notice received): CAS, close
the buffer, delete the entry; later frames are refused by the closed session -/
def sessClose (s : Side) : Side :=
  if s.closed then { s with tomb := true }
  else { s with closed := true, tomb := true, rb := RB.close s.rb }

end ST
