import CloakModel.Gen.Panel

/-! Model of the server's user bookkeeping as far as sessions are concerned (C15, C17 second half):
`userPanel.GetUser/GetBypassUser`, `ActiveUser.GetSession/CloseSession/closeAllSessions`,
`userPanel.TerminateActiveUser`, and the part of `localManager` they consult.

Atomic steps = the critical sections the extractor saw (`Gen.Panel.*UnderLock`):
* `getUser`      — lookup-or-authenticate-and-create under `activeUsersM`;
* `getSession`   — lookup-or-authorise-and-create under the record's `sessionsM`;
* `closeLocked`  — the locked part of `CloseSession` (remove, report how many remain);
* `retire`       — `TerminateActiveUser`'s own `sessionsM` section that sets the retired flag (a no-op on the
                   pinned tree, where it merely marks "a termination of this record has started");
* `closeAll`     — `closeAllSessions` (under `sessionsM`), enabled only after that thread's `retire`;
* `deleteRec`    — the `activeUsersM` section of `TerminateActiveUser`, enabled only after that thread's `closeAll`;
* `refusedCleanup` — the `sessionsM` section of what `dispatchConnection` does with the record after `GetSession`
                   REFUSED its connection (C15): on the pinned tree `CloseSession(<the connection's own session id>)`,
                   on the repaired tree a helper that looks at the record only (`cleanupNamesSession`, `cleanupRetires`);
                   its answer says whether `TerminateActiveUser` (`retire`, `closeAll`, `deleteRec`) follows.
                   The model lets it run for any (record, id) at any time — more schedules than the code has.
The comparisons of `AuthoriseNewSession` / `AuthenticateUser` are the translated terms `Gen.Panel.authoriseChecks`
/ `authenticateChecks` (evaluated in source order). Which parts of the orphan-session repair the tree has is
`genCfg` (three extracted Booleans); the pinned tree is `pinnedCfg`. -/

namespace Panel

/-- one complete bbolt record -/
structure Info where
  cap : Int            -- SessionsCap as the admin wrote it (int32)
  upRate : Int
  downRate : Int
  upCredit : Int
  downCredit : Int
  expiry : Int         -- unix seconds
deriving Repr, DecidableEq

structure Rec where
  uid : Nat
  bypass : Bool
  retired : Bool
  sessions : List (Nat × Nat)       -- (session id, session key)
deriving Repr, DecidableEq

structure Cfg where
  checksRetired : Bool     -- GetSession refuses on a retired record
  marksRetired : Bool      -- TerminateActiveUser retires the record (under sessionsM) before closing its sessions
  guardedDelete : Bool     -- TerminateActiveUser deletes the map entry only if it still is this record
  cleanupNamesSession : Bool  -- a connection refused by GetSession calls CloseSession(its own session id)
  cleanupRetires : Bool    -- (otherwise) the clean-up retires the record, under sessionsM, when it finds it empty
deriving Repr, DecidableEq

def genCfg : Cfg :=
  ⟨Gen.Panel.getSessionChecksRetired, Gen.Panel.terminateRetiresFirst, Gen.Panel.terminateDeleteGuarded,
   Gen.Panel.refusedCleanupClosesOwnId, Gen.Panel.refusedCleanupRetires⟩
def pinnedCfg : Cfg := ⟨false, false, false, true, false⟩
/-- the orphan-session repair (C17) with either clean-up of a refused connection -/
def orphanRepaired (names retires : Bool) : Cfg := ⟨true, true, true, names, retires⟩
/-- the tree after the C17 repair, before the C15 one: the refused connection still calls `CloseSession(own id)` -/
def c17Cfg : Cfg := orphanRepaired true false
def repairedCfg : Cfg := orphanRepaired false true

structure St where
  store : List (Nat × Info)      -- the database: uid ↦ record (first binding wins; kept duplicate-free by `put`)
  recs : List Rec                -- every ActiveUser object ever created; its index is its identity
  active : List (Nat × Nat)      -- userPanel.activeUsers: uid ↦ record index
  pendingClose : List Nat        -- terminations that have run their retire section, closeAllSessions outstanding
  pendingDel : List Nat          -- terminations that have run closeAllSessions, delete section outstanding
deriving Repr, DecidableEq

def init : St := ⟨[], [], [], [], []⟩

def lookup {α : Type} (l : List (Nat × α)) (k : Nat) : Option α := (l.find? (fun e => e.1 == k)).map (·.2)

/-- `int(u32(...))` of a stored `uint32(int32)` -/
def capEff (cap : Int) : Int := cap % 4294967296

def firstFail (l : List (String × Bool)) : Option String := (l.find? (·.2)).map (·.1)

/-- `localManager.AuthoriseNewSession` -/
def authoriseNew (store : List (Nat × Info)) (uid : Nat) (now : Int) (numExisting : Nat) : Option String :=
  match lookup store uid with
  | none => some "ErrUserNotFound"
  | some i => firstFail (Gen.Panel.authoriseChecks i.upCredit i.downCredit i.expiry now numExisting (capEff i.cap))

/-- `localManager.AuthenticateUser` -/
def authenticate (store : List (Nat × Info)) (uid : Nat) (now : Int) : Option String :=
  match lookup store uid with
  | none => some "ErrUserNotFound"
  | some i => firstFail (Gen.Panel.authenticateChecks i.upCredit i.downCredit i.expiry now)

inductive URes | ok (rid : Nat) (fresh : Bool) | err (why : String)
deriving Repr, DecidableEq

/-- `GetUser` (`bypass = false`) / `GetBypassUser` (`bypass = true`) -/
def getUser (s : St) (uid : Nat) (bypass : Bool) (now : Int) : St × URes :=
  match lookup s.active uid with
  | some rid => (s, .ok rid false)
  | none =>
    match (if bypass then none else authenticate s.store uid now) with
    | some e => (s, .err e)
    | none =>
      ({ s with recs := s.recs ++ [⟨uid, bypass, false, []⟩], active := (uid, s.recs.length) :: s.active },
       .ok s.recs.length true)

inductive Res | joined (key : Nat) | created (key : Nat) | refused (why : String) | retired | noRec
deriving Repr, DecidableEq

/-- `ActiveUser.GetSession`, one step under `sessionsM`; `key` is the fresh key the arriving connection offers -/
def getSession (cfg : Cfg) (s : St) (rid sid key : Nat) (now : Int) : St × Res :=
  match s.recs[rid]? with
  | none => (s, .noRec)
  | some r =>
    if cfg.checksRetired && r.retired then (s, .retired)
    else match lookup r.sessions sid with
      | some k => (s, .joined k)
      | none =>
        match (if r.bypass then none else authoriseNew s.store r.uid now r.sessions.length) with
        | some e => (s, .refused e)
        | none => ({ s with recs := s.recs.set rid { r with sessions := (sid, key) :: r.sessions } }, .created key)

/-- locked part of `CloseSession`: returns how many sessions remain -/
def closeLocked (s : St) (rid sid : Nat) : St × Option Nat :=
  match s.recs[rid]? with
  | none => (s, none)
  | some r =>
    let ss := r.sessions.filter (fun e => e.1 != sid)
    -- `u.retired = u.retired || remaining == 0` in the same section (`Gen.Panel.closeSessionRetiresWhenEmpty`; the
    -- trees before that repair left the flag to `TerminateActiveUser`, after the lock had been released)
    let r' := { r with sessions := ss, retired := r.retired || (Gen.Panel.closeSessionRetiresWhenEmpty && ss.isEmpty) }
    ({ s with recs := s.recs.set rid r' }, some r'.sessions.length)

/-- first `sessionsM` section of `TerminateActiveUser` (whoever calls it: last-session closure or a TERMINATE verdict) -/
def retire (cfg : Cfg) (s : St) (rid : Nat) : St :=
  match s.recs[rid]? with
  | none => s
  | some r =>
    { s with recs := s.recs.set rid { r with retired := r.retired || cfg.marksRetired },
             pendingClose := rid :: s.pendingClose }

/-- `closeAllSessions` as called by `TerminateActiveUser`; only a thread that has run `retire rid` gets here -/
def closeAll (s : St) (rid : Nat) : St × Bool :=
  if rid ∈ s.pendingClose then
    match s.recs[rid]? with
    | none => (s, false)
    | some r =>
      ({ s with recs := s.recs.set rid { r with sessions := [] },
                pendingClose := s.pendingClose.erase rid, pendingDel := rid :: s.pendingDel }, true)
  else (s, false)

/-- the `activeUsersM` section of `TerminateActiveUser`; only a thread that has run `closeAll rid` gets here -/
def deleteRec (cfg : Cfg) (s : St) (rid : Nat) : St × Bool :=
  if rid ∈ s.pendingDel then
    match s.recs[rid]? with
    | none => (s, false)
    | some r =>
      if cfg.guardedDelete && (lookup s.active r.uid != some rid) then
        ({ s with pendingDel := s.pendingDel.erase rid }, true)
      else
        ({ s with pendingDel := s.pendingDel.erase rid, active := s.active.filter (fun e => e.1 != r.uid) }, true)
  else (s, false)

/-- what `dispatchConnection` does with the record when `GetSession` refused its connection `(rid, sid)`: the
`sessionsM` section; `some true` = `TerminateActiveUser` follows -/
def refusedCleanup (cfg : Cfg) (s : St) (rid sid : Nat) : St × Option Bool :=
  if cfg.cleanupNamesSession then
    -- `user.CloseSession(ci.SessionId, "")`: removes whatever session carries that id NOW; `remaining == 0` terminates
    match closeLocked s rid sid with
    | (s', some n) => (s', some (n == 0))
    | (s', none) => (s', none)
  else
    -- names no session: `empty := len(u.sessions) == 0; u.retired = u.retired || empty` (the latter iff `cleanupRetires`)
    match s.recs[rid]? with
    | none => (s, none)
    | some r =>
      ({ s with recs := s.recs.set rid { r with retired := r.retired || (cfg.cleanupRetires && r.sessions.isEmpty) } },
       some r.sessions.isEmpty)

def put (s : St) (uid : Nat) (i : Info) : St := { s with store := (uid, i) :: s.store.filter (fun e => e.1 != uid) }
def del (s : St) (uid : Nat) : St := { s with store := s.store.filter (fun e => e.1 != uid) }

inductive Ev
  | put (uid : Nat) (i : Info)
  | del (uid : Nat)
  | getUser (uid : Nat) (bypass : Bool) (now : Int)
  | getSession (rid sid key : Nat) (now : Int)
  | closeLocked (rid sid : Nat)
  | retire (rid : Nat)
  | closeAll (rid : Nat)
  | deleteRec (rid : Nat)
  | refusedCleanup (rid sid : Nat)
deriving Repr, DecidableEq

def step (cfg : Cfg) (s : St) : Ev → St
  | .put u i => put s u i
  | .del u => del s u
  | .getUser u b now => (getUser s u b now).1
  | .getSession rid sid key now => (getSession cfg s rid sid key now).1
  | .closeLocked rid sid => (closeLocked s rid sid).1
  | .retire rid => retire cfg s rid
  | .closeAll rid => (closeAll s rid).1
  | .deleteRec rid => (deleteRec cfg s rid).1
  | .refusedCleanup rid sid => (refusedCleanup cfg s rid sid).1

def run (cfg : Cfg) (s : St) (evs : List Ev) : St := evs.foldl (step cfg) s

/-- every live session is owned by the record `activeUsers` holds for its uid (so: one record per uid,
no session in a terminated record) -/
def SingleRecord (s : St) : Prop :=
  ∀ rid r, s.recs[rid]? = some r → r.sessions ≠ [] → lookup s.active r.uid = some rid

def singleRecordB (s : St) : Bool :=
  (List.range s.recs.length).all fun rid =>
    match s.recs[rid]? with
    | some r => r.sessions.isEmpty || (lookup s.active r.uid == some rid)
    | none => true

end Panel
