import CloakModel.Model.AuthPlain
import CloakModel.Model.ReplayCache

/-! `server.AuthFirstPacket` from the point where the transport (`processFirstPacket`) has located the
32 bytes `rand` and the 64-byte sealed block `ct`: key agreement with the static key, replay
registration, then `decryptClientInfo`.  Order of the steps: `Gen.Replay.registerBeforeDecrypt`. -/

namespace HS

inductive AuthRes
  | ok (info : ClientInfo)
  | replay
  | badDecrypt (e : DecErr)
  | badKey                       -- `GenerateSharedSecret` failed (unmarshal error, before registration)
deriving DecidableEq, Repr

/-- the part of `AuthFirstPacket` after `processFirstPacket` returned the fragments -/
def authFrag (C : Crypto) (cache : Replay.Cache) (f : Fragments) (now : Int) : Replay.Cache × AuthRes :=
  let (c, u) := Replay.register cache (Replay.G.keyOf f.rand) now
  if u then (c, .replay)
  else
    match decryptInfo C f now with
    | .ok info => (c, .ok info)
    | .error e => (c, .badDecrypt e)

def authCore (C : Crypto) (sk : Bytes) (cache : Replay.Cache) (rand ct : Bytes) (now : Int) : Replay.Cache × AuthRes :=
  match C.dh sk rand with
  | none => (cache, .badKey)
  | some secret => authFrag C cache ⟨fit 32 secret, rand, ct⟩ now

end HS
