import CloakModel.Model.AuthPlain
import CloakModel.Model.ReplayCache

/-! `server.AuthFirstPacket` from the point where the transport (`processFirstPacket`) has located the
32 bytes `rand` and the 64-byte sealed block `ct`: key agreement with the static key, replay
registration, then `decryptClientInfo`.  Order of the steps: `Gen.Replay.registerBeforeDecrypt`. -/

namespace HS

inductive AuthRes
  | ok (info : ClientInfo)
  | replay
  | badDecrypt (e : DecErr)
  | badKey                       -- `GenerateSharedSecret` failed (unmarshal error, before registration)
deriving DecidableEq, Repr

def authCore (C : Crypto) (sk : Bytes) (cache : Replay.Cache) (rand ct : Bytes) (now : Int) : Replay.Cache × AuthRes :=
  match C.dh sk rand with
  | none => (cache, .badKey)
  | some secret =>
    let (c, u) := Replay.register cache (Replay.G.keyOf rand) now
    if u then (c, .replay)
    else
      match decryptInfo C ⟨fit 32 secret, rand, ct⟩ now with
      | .ok info => (c, .ok info)
      | .error e => (c, .badDecrypt e)

end HS
