import CloakModel.Model.AuthPlain

/-! The server's hand-written ClientHello parser (`internal/server/TLSAux.go`: `parseClientHello`,
`parseExtensions`, `parseKeyShare`) and the two `unmarshal…` functions that turn a first packet into
`authFragments` (`TLS.go: unmarshalClientHello`, `websocket.go: unmarshalHidden`), mirrored as total
functions: `none` is the error return, which is also what the `defer recover()` of each parser turns an
index-out-of-range panic into (`Gen.Handshake.parsersRecover = 3`).

Go subtlety made explicit (spike S15): re-slicing a slice is bounded by its CAPACITY.  `peeled` is a
fresh `make([]byte, n)` (capacity = length), but an extension's `data := input[p : p+length]` keeps the
capacity up to the end of `peeled`, so `parseKeyShare`'s `input[0:2]`, `input[pointer:pointer+2]`, … can
read past the extension, up to the end of the packet buffer.  The mirror therefore works with ABSOLUTE
offsets into `peeled` and uses the buffer's end as the bound. -/

namespace HS
open Gen.Handshake

/-- `b[p : p+n]` for a slice whose capacity ends at the end of `b`; `none` = panic -/
def take? (b : Bytes) (p n : Nat) : Option Bytes :=
  if p + n ≤ b.length then some ((b.drop p).take n) else none

/-- big-endian u16 at absolute offset `i`; `none` = panic -/
def rd16 (b : Bytes) (i : Nat) : Option Nat :=
  match b.drop i with
  | x :: y :: _ => some (x.toNat * 256 + y.toNat)
  | _ => none

/-- one extension as located in the buffer: `ret[typ] = input[start : start+len]` -/
structure Loc where
  typ : Nat
  start : Nat
  len : Nat
deriving DecidableEq, Repr

/-- `parseExtensions` on `peeled[p:]`: `for pointer < totalLen { typ; length; data }` with absolute
offsets; `fuel` bounds the loop (each iteration advances by ≥ 4) -/
def parseExts (b : Bytes) : Nat → Nat → Option (List Loc)
  | 0, _ => none
  | fuel+1, p =>
    if b.length ≤ p then some []
    else
      match rd16 b p, rd16 b (p + 2) with
      | some typ, some len =>
        if p + 4 + len ≤ b.length then
          match parseExts b fuel (p + 4 + len) with
          | some rest => some (⟨typ, p + 4, len⟩ :: rest)
          | none => none
        else none
      | _, _ => none

/-- Go map semantics of `ret[typ] = data`: the LAST extension of a type wins -/
def lookupExt (typ : Nat) (ls : List Loc) : Option Loc := ls.reverse.find? (fun l => l.typ == typ)

/-- the entry loop of `parseKeyShare` at absolute offset `base` (start of the extension data),
`ptr` relative to it, `total` = the declared client-key-share length -/
def ksLoop (b : Bytes) (base total : Nat) : Nat → Nat → Option Bytes
  | 0, _ => none
  | fuel+1, ptr =>
    if total ≤ ptr then none                                  -- "x25519 does not exist"
    else
      match rd16 b (base + ptr), rd16 b (base + ptr + 2) with
      | some grp, some len =>
        if grp = beNat (ksGroup.map UInt8.ofNat) then
          if len ≠ ksKeyLen then none                          -- "key share length should be 32"
          else take? b (base + ptr + 4) len
        else
          if base + ptr + 4 + len ≤ b.length then ksLoop b base total fuel (ptr + 4 + len) else none
      | _, _ => none

/-- `parseKeyShare(ch.extensions[key])`: a missing extension is a nil slice, whose `input[0:2]` panics -/
def parseKeyShare (b : Bytes) (ext : Option Loc) : Option Bytes :=
  match ext with
  | none => none
  | some l =>
    match rd16 b l.start with
    | none => none
    | some total => ksLoop b l.start total (b.length + 1) 2

structure CHParsed where
  peeled : Bytes
  random : Bytes
  sid : Bytes
  exts : List Loc
deriving DecidableEq, Repr

/-- `parseClientHello`; the `pointer +=` sequence is `Gen.Handshake.chAdvances` -/
def parseClientHello (data : Bytes) : Option CHParsed := do
  let magic ← take? data chMagicAtLo (chMagicAtHi - chMagicAtLo)
  if magic ≠ chMagic.map UInt8.ofNat then none
  if data.length < chRecHdr then none                 -- make([]byte, len(data)-5) panics
  let peeled := data.drop chRecHdr
  let ht ← peeled[0]?
  if ht.toNat ≠ chType then none
  let l3 ← take? peeled 1 3
  if beNat l3 ≠ peeled.length - 4 then none
  let _ver ← take? peeled 4 2
  let random ← take? peeled 6 32
  let sl ← peeled[38]?
  let sid ← take? peeled 39 sl.toNat
  let p := 39 + sl.toNat
  let csl ← rd16 peeled p
  let _cs ← take? peeled (p + 2) csl
  let p := p + 2 + csl
  let cml ← peeled[p]?
  let _cm ← take? peeled (p + 1) cml.toNat
  let p := p + 1 + cml.toNat
  let _el ← rd16 peeled p
  let exts ← parseExts peeled (peeled.length + 1) (p + 2)
  pure ⟨peeled, random, sid, exts⟩

/-- outcome of a transport's `processFirstPacket` -/
inductive Extract
  | ok (rand ct secret : Bytes)
  | badHello            -- `ErrBadClientHello` / the HTTP request does not parse
  | unmarshal           -- any error of `unmarshalClientHello` / `unmarshalHidden`
deriving DecidableEq, Repr

/-- `TLS.unmarshalClientHello` after `parseClientHello`: key agreement first, then the key share, then
the length test on session id ‖ key share -/
def unmarshalCH (C : Crypto) (sk : Bytes) (ch : CHParsed) : Extract :=
  let rand := fit 32 ch.random
  match C.dh sk rand with
  | none => .unmarshal
  | some secret =>
    match parseKeyShare ch.peeled (lookupExt (beNat (umExtKey.map UInt8.ofNat)) ch.exts) with
    | none => .unmarshal
    | some ks =>
      let ctx := ch.sid ++ ks
      if ctx.length ≠ umCtLen then .unmarshal else .ok rand (fit 64 ctx) (fit 32 secret)

def tlsExtract (C : Crypto) (sk : Bytes) (data : Bytes) : Extract :=
  match parseClientHello data with
  | none => .badHello
  | some ch => unmarshalCH C sk ch

/-- `WebSocket.unmarshalHidden` on the decoded `hidden` header -/
def wsExtract (C : Crypto) (sk : Bytes) (hidden : Bytes) : Extract :=
  if hidden.length < wsHiddenMin then .unmarshal
  else
    let rand := fit 32 (slice hidden wsRandLo wsRandHi)
    match C.dh sk rand with
    | none => .unmarshal
    | some secret =>
      if (hidden.drop wsCtFrom).length ≠ wsCtLen then .unmarshal
      else .ok rand (fit 64 (hidden.drop wsCtCopyFrom)) (fit 32 secret)

end HS
