/-! Shared basics for the executable models: bytes, hex, big-endian numbers. Core Lean only. -/

abbrev Bytes := List UInt8

namespace Hex

def digit (n : Nat) : Char :=
  if n < 10 then Char.ofNat (48 + n) else Char.ofNat (87 + n)

def ofBytes (b : Bytes) : String :=
  String.ofList (b.flatMap fun x => [digit (x.toNat / 16), digit (x.toNat % 16)])

def val (c : Char) : Option Nat :=
  if '0' ≤ c ∧ c ≤ '9' then some (c.toNat - 48)
  else if 'a' ≤ c ∧ c ≤ 'f' then some (c.toNat - 87)
  else if 'A' ≤ c ∧ c ≤ 'F' then some (c.toNat - 55)
  else none

def toBytesAux : List Char → Option Bytes
  | [] => some []
  | [_] => none
  | a :: b :: r => do
    let x ← val a
    let y ← val b
    let t ← toBytesAux r
    pure (UInt8.ofNat (x * 16 + y) :: t)

def toBytes (s : String) : Option Bytes := toBytesAux s.toList

end Hex

/-- big-endian bytes of `v`, `n` bytes wide (truncating like Go's conversions) -/
def beBytes : Nat → Nat → Bytes
  | 0, _ => []
  | n+1, v => beBytes n (v / 256) ++ [UInt8.ofNat (v % 256)]

def beNat : Bytes → Nat
  | [] => 0
  | l => l.foldl (fun acc b => acc * 256 + b.toNat) 0
