import CloakModel.Model.ReorderBuf
import CloakModel.Gen.Deliver

/-! End-to-end delivery model for ordered streams (C01): the sender's chunking loop of
`Stream.Write` (conditions and the frame-size formula are the extracted terms), consecutive
numbering of the chunks, a network that delivers frames of all streams in ANY global order, the
receiver's demultiplexing table and per-stream reorder buffers (`RB`). -/
namespace Deliver

/-- `Stream.Write`'s loop: `for n < len(in) { if len(in)-n <= unit {in[n:]} else {in[n:unit+n]}; send; n += len(payload) }` -/
def chunksAux (unit : Int) (inp : Bytes) : Nat → Nat → List Bytes
  | 0, _ => []
  | fuel + 1, n =>
    if Gen.Deliver.writeLoopCond n inp.length then
      let chunk := if Gen.Deliver.writeFitsCond n inp.length unit then inp.drop n else (inp.drop n).take unit.toNat
      chunk :: chunksAux unit inp fuel (n + chunk.length)
    else []

def unitOf (limit : Int) : Int := Gen.Deliver.maxStreamUnitWrite limit

def chunks (limit : Int) (inp : Bytes) : List Bytes := chunksAux (unitOf limit) inp (inp.length + 1) 0

/-- frames of one stream: the chunks of the successive writes, numbered consecutively from `seq0` -/
def number (seq0 : Nat) : List Bytes → List RB.Frame
  | [] => []
  | c :: r => ⟨seq0, false, c⟩ :: number (seq0 + 1) r

def framesOf (limit : Int) (writes : List Bytes) : List RB.Frame :=
  number 0 (writes.flatMap (chunks limit))

/-- a global receive-side event -/
inductive GEv
  | deliver (sid : Nat) (f : RB.Frame)    -- `recvDataFromRemote` of a decoded frame
  | read (sid : Nat) (k : Nat)            -- the application reads from stream `sid`

def GEv.sid : GEv → Nat
  | .deliver s _ => s
  | .read s _ => s

/-- the demultiplexing table: stream id ↦ receive buffer (a stream not seen yet is the empty buffer) -/
abbrev Tbl := Nat → RB.SB

def gstep (t : Tbl) (e : GEv) : Tbl := fun s =>
  if s = e.sid then
    match e with
    | .deliver _ f => (RB.write (t s) f).1
    | .read _ k => (RB.read (t s) k).1
  else t s

def tbl0 : Tbl := fun _ => RB.init 0

end Deliver
