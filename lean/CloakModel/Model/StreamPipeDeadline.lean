import CloakModel.Model.ReorderBuf
import CloakModel.Gen.StreamClose
import CloakModel.Gen.Deadline

/-! Read deadlines of the byte pipe of an ordered stream (`internal/multiplex/streamBufferedPipe.go`: `Read`'s wait loop,
`SetReadDeadline`, `broadcastAfter`, `Write`, `Close`) on a virtual clock — the ordered-mode twin of `Model/PipeDeadline.lean`.
`client.RouteTCP`/`RouteUDP` and the server's `serveSession` set read deadlines on the streams they serve
(`stream.SetReadDeadline`, `SetReadFromTimeout`/`WriteTo` timeouts go through the same pipe).

`SPD.eval` is one pass through the wait loop in the order of the source (`Gen.Deadline.spDeadlineOrder`): the
`closed && empty` test (`Gen.StreamClose.pipeEOF`, `io.EOF`), then — if a deadline is set — `time.Until(rDeadline) <= 0`
(`Gen.Deadline.spTimedOut`, `ErrTimeout`), then the has-data test (leave the loop: `buf.Read(target)` takes
`min(len(target), buffered)` bytes), otherwise arm the timer for the time left and park.  One reader at a time.
Ghost: `out` (bytes returned so far), `acc` (bytes accepted by writes so far). -/

namespace SPD

structure St where
  buf : Bytes
  closed : Bool
  now : Nat
  deadline : Option Nat
  timer : Option Nat
  pending : Option Nat
  out : Bytes
  acc : Bytes
deriving Repr

def init : St := ⟨[], false, 0, none, none, none, [], []⟩

inductive Out
  | data (b : Bytes)
  | eof
  | timeout
  | park
deriving DecidableEq, Repr

/-- the part of `Read` after the wait loop: `p.buf.Read(target)` -/
def take (s : St) (cap : Nat) : St × Out :=
  ({ s with buf := s.buf.drop cap, out := s.out ++ s.buf.take cap }, .data (s.buf.take cap))

/-- one pass through the wait loop of `streamBufferedPipe.Read` with a target of `cap` bytes -/
def eval (s : St) (cap : Nat) : St × Out :=
  if Gen.StreamClose.pipeEOF s.closed (s.buf.length : Int) then (s, .eof)
  else match s.deadline with
    | some d =>
      if Gen.Deadline.spTimedOut ((d : Int) - (s.now : Int)) then (s, .timeout)
      else if 0 < s.buf.length then take s cap
      else ({ s with timer := some d }, .park)
    | none =>
      if 0 < s.buf.length then take s cap
      else (s, .park)

/-- `rwCond.Broadcast()` reaching a parked reader -/
def wake (s : St) : St × Option Out :=
  match s.pending with
  | none => (s, none)
  | some cap =>
    match eval s cap with
    | (s', .park) => (s', none)
    | (s', o) => ({ s' with pending := none }, some o)

inductive Op
  | w (d : Bytes)
  | r (cap : Nat)
  | c
  | dl (at_ : Option Nat)
  | adv (dt : Nat)
deriving Repr

structure Res where
  w : Option Bool := none      -- the write was accepted (`false`: `io.ErrClosedPipe`)
  r : Option Out := none
  woke : Option Out := none
deriving Repr

def fire (s : St) (target : Nat) : St × Option Out :=
  match s.timer with
  | some f => if f ≤ target then wake { s with now := max s.now f, timer := none } else (s, none)
  | none => (s, none)

def step (s : St) : Op → St × Res
  | .w d =>
    if s.closed then (s, { w := some false })     -- no broadcast on this path
    else
      let (s2, k) := wake { s with buf := s.buf ++ d, acc := s.acc ++ d }
      (s2, { w := some true, woke := k })
  | .r cap =>
    match s.pending with
    | some _ => (s, {})
    | none =>
      match eval s cap with
      | (s', .park) => ({ s' with pending := some cap }, { r := some .park })
      | (s', o) => (s', { r := some o })
  | .c =>
    let (s2, k) := wake { s with closed := true }
    (s2, { woke := k })
  | .dl at_ =>
    let (s2, k) := wake { s with deadline := at_ }
    (s2, { woke := k })
  | .adv dt =>
    let target := s.now + dt
    let (s1, k1) := fire s target
    let (s2, k2) := fire s1 target
    ({ s2 with now := target }, { woke := match k1 with | some o => some o | none => k2 })

def run (ops : List Op) : St := ops.foldl (fun s op => (step s op).1) init

end SPD
