import CloakModel.Model.ClientHello
import CloakModel.Model.AuthFirst

/-! `server.dispatchConnection` as a pure decision function (C07): what a complete byte stream from a
peer leads to — connection closed, relay to the redirect address ("web"), the admin API, or a proxy
session — composed of `readFirstPacket`, the transport's `processFirstPacket`, `AuthFirstPacket`
(replay registration, opening, window), `MakeObfuscator`'s method check, the admin gate, the
ProxyBook lookup, bypass / user-database authorisation and `GetSession`.  Branch conditions and
comparisons are the terms regenerated from the source (`Gen.Auth.*`). -/

namespace HS

/-- a user record of the local user manager, as the two authorisation functions read it -/
structure UserRec where
  upCredit : Int
  downCredit : Int
  expiry : Int          -- unix seconds
  cap : Int             -- SessionsCap
deriving DecidableEq, Repr

structure Srv where
  sk : Bytes
  adminUID : Bytes
  bypass : List Bytes                 -- includes the admin UID when one is configured (InitState)
  proxyBook : List Bytes              -- the book's keys as the server holds them (lower-cased by parseProxyBook)
  db : List (Bytes × UserRec)
  cache : Replay.Cache
  active : List (Bytes × List Nat)    -- active users and the ids of their sessions
deriving Repr

inductive Decision
  | closeOnly                                  -- first packet incomplete: the connection is closed
  | web                                        -- relayed to the redirect address
  | admin                                      -- handshake reply, then the user-management API
  | proxy (uid : Bytes) (sid : Nat) (existing : Bool)   -- handshake reply, connection added to that session
  | stall                                      -- GetSession refused a new session and the branch just returns: neither reply, relay nor close
deriving DecidableEq, Repr

inductive Transport | tls | ws
deriving DecidableEq, Repr

inductive ReadRes
  | closed
  | web
  | packet (t : Transport) (data : Bytes)
deriving DecidableEq, Repr

def firstPacketSize : Nat := 3000

/-- the lines `connReadLine` returns: split after every `\n` -/
def splitLines : Bytes → Bytes → List Bytes
  | [], cur => if cur = [] then [] else [cur]
  | c :: r, cur => if c = 10 then (cur ++ [c]) :: splitLines r [] else splitLines r (cur ++ [c])

/-- length of the request up to and including the first empty line `\r\n`, if there is one -/
def requestEnd : List Bytes → Nat → Option Nat
  | [], _ => none
  | l :: r, n => if l = [13, 10] then some (n + 2) else requestEnd r (n + l.length)

/-- `readFirstPacket` on a peer that sends `stream` and then half-closes.  (C09 owns the byte-exact
relay; here only the classification matters.) -/
def readFirst (stream : Bytes) : ReadRes :=
  match stream with
  | [] => .closed
  | b0 :: _ =>
    if b0 = 0x16 then
      if stream.length < 5 then .closed
      else
        let dl := beNat ((stream.drop 3).take 2)
        if dl + 5 > firstPacketSize then .web
        else if stream.length < dl + 5 then .closed
        else .packet .tls (stream.take (dl + 5))
    else if b0 = 0x47 then
      -- byte 0 is consumed, then lines are read from byte 1 on; a line never contains the first byte
      match requestEnd (splitLines (stream.drop 1) []) 1 with
      | some n =>
        if n ≤ firstPacketSize ∧ (stream.take n).length = n then .packet .ws (stream.take n)
        else if firstPacketSize ≤ stream.length then .web else .closed
      | none => if firstPacketSize ≤ stream.length then .web else .closed
    else .web

def isBypass (s : Srv) (uid : Bytes) : Bool := s.bypass.contains uid
def isActive (s : Srv) (uid : Bytes) : Bool := s.active.any (fun a => a.1 == uid)
def sessionsOf (s : Srv) (uid : Bytes) : List Nat :=
  match s.active.find? (fun a => a.1 == uid) with
  | some a => a.2
  | none => []

/-- `localManager.AuthenticateUser` (comparisons: `Gen.Auth.authn*`) -/
def dbAuthenticate (s : Srv) (uid : Bytes) (nowSec : Int) : Bool :=
  match s.db.find? (fun r => r.1 == uid) with
  | none => false
  | some (_, u) =>
    !(Gen.Auth.authnUpBad u.upCredit) && !(Gen.Auth.authnDownBad u.downCredit) && !(Gen.Auth.authnExpired u.expiry nowSec)

/-- `localManager.AuthoriseNewSession` (comparisons: `Gen.Auth.authz*`) -/
def dbAuthoriseSession (s : Srv) (uid : Bytes) (nowSec : Int) (nExisting : Nat) : Bool :=
  match s.db.find? (fun r => r.1 == uid) with
  | none => false
  | some (_, u) =>
    !(Gen.Auth.authzUpBad u.upCredit) && !(Gen.Auth.authzDownBad u.downCredit) && !(Gen.Auth.authzExpired u.expiry nowSec) &&
    !(Gen.Auth.authzCapReached (nExisting : Int) u.cap)

def setSessions (act : List (Bytes × List Nat)) (uid : Bytes) (ss : List Nat) : List (Bytes × List Nat) :=
  (uid, ss) :: act.filter (fun a => !(a.1 == uid))

/-- ASCII lower-casing, what `strings.ToLower` does on ASCII names (non-ASCII names follow Go's Unicode tables, which
are not modelled: the harness uses ASCII names) -/
def lowerAscii (b : Bytes) : Bytes :=
  b.map (fun c => if 0x41 ≤ c.toNat ∧ c.toNat ≤ 0x5a then UInt8.ofNat (c.toNat + 32) else c)

/-- the key under which `dispatchConnection` looks a received proxy-method name up in the book -/
def bookKey (m : Bytes) : Bytes := if Gen.Auth.proxyLookupLowercases then lowerAscii m else m

/-- what follows a successful `AuthFirstPacket` in `dispatchConnection`.  `sessErrGoesWeb`: does the branch taken when
`user.GetSession` refuses a new session end in `goWeb()` (`dispatchInfo` instantiates it with the extracted fact) -/
def dispatchInfoWith (sessErrGoesWeb : Bool) (s : Srv) (info : ClientInfo) (now : Int) : Srv × Decision :=
  if !(Gen.Auth.encMethods.contains (info.enc.toNat : Int)) then (s, .web)
  else if Gen.Auth.adminGate (s.adminUID.length : Int) (info.uid == s.adminUID) (info.sid : Int) then (s, .admin)
  else if !(s.proxyBook.contains (bookKey info.method)) then (s, .web)
  else
    let nowSec := now / 1000000000
    let byp := isBypass s info.uid
    -- GetBypassUser / GetUser
    if !byp && !(isActive s info.uid) && !(dbAuthenticate s info.uid nowSec) then (s, .web)
    else
      let ss := sessionsOf s info.uid
      if ss.contains info.sid then
        ({ s with active := setSessions s.active info.uid ss }, .proxy info.uid info.sid true)
      else if !byp && !(dbAuthoriseSession s info.uid nowSec ss.length) then
        -- GetSession failed: `user.CloseSession(sid)` deletes the user record when it has no session left
        let act := if ss.length = 0 then s.active.filter (fun a => !(a.1 == info.uid)) else setSessions s.active info.uid ss
        ({ s with active := act }, if sessErrGoesWeb then .web else .stall)
      else
        ({ s with active := setSessions s.active info.uid (info.sid :: ss) }, .proxy info.uid info.sid false)

def dispatchInfo (s : Srv) (info : ClientInfo) (now : Int) : Srv × Decision :=
  dispatchInfoWith Gen.Auth.getSessionErrGoesWeb s info now

/-- `AuthFirstPacket` + the rest of `dispatchConnection`, for fragments already extracted -/
def dispatchFrag (C : Crypto) (s : Srv) (e : Extract) (now : Int) : Srv × Decision :=
  match e with
  | .ok rand ct secret =>
    match authFrag C s.cache ⟨secret, rand, ct⟩ now with
    | (c, .ok info) => dispatchInfo { s with cache := c } info now
    | (c, _) => ({ s with cache := c }, .web)
  | _ => (s, .web)

/-- the transport's `processFirstPacket`; for WebSocket the decoded `hidden` header comes from the
harness (net/http + base64 are not modelled): `none` = the request does not parse -/
def extract (C : Crypto) (s : Srv) (t : Transport) (data : Bytes) (hidden : Option Bytes) : Extract :=
  match t with
  | .tls => tlsExtract C s.sk data
  | .ws => match hidden with
    | none => .badHello
    | some h => wsExtract C s.sk h

/-- **the decision function** -/
def decide (C : Crypto) (s : Srv) (stream : Bytes) (hidden : Option Bytes) (now : Int) : Srv × Decision :=
  match readFirst stream with
  | .closed => (s, .closeOnly)
  | .web => (s, .web)
  | .packet t data => dispatchFrag C s (extract C s t data hidden) now

end HS
