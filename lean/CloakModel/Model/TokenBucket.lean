import CloakModel.Model.Basic
import CloakModel.Gen.Valve

/-! Executable model of `github.com/juju/ratelimit` (the version pinned in /repo/go.mod): `Bucket.take`,
`adjustavailableTokens`, `currentTick`, over `Int` ticks and `Int` nanoseconds.  Every comparison and every
arithmetic expression is the term the extractor translated from the library source in the module cache
(`Gen.Valve.tb*`; Go's truncating `/` is `Int.tdiv`); the statement order is pinned by
`Gen.Valve.tbTakeShape/tbAdjustShape` (checked in `Props/C19.lean`).

Cloak's use (`internal/multiplex/qos.go`, `switchboard.go`): `MakeValve(rx, tx)` builds two buckets with
`capacity = rate`; `send` = [take len(data)] [sleep until release] [write]; `deplex` = [read n] [take n] [sleep]
[process]; one valve per active user shared by all its sessions and connections (`Gen.Valve.*` facts).

Not modelled: the `maxWait` test of `take` (`Take`/`Wait` pass `infinityDuration`), int64 overflow, and the
float search for `(quantum, fillInterval)` in `NewBucketWithRate` (its result is checked per rate: `rateOK`). -/

namespace TB

/-- `availableTokens`, `latestTick` -/
structure B where
  avail : Int
  last  : Int
deriving Repr, DecidableEq

/-- `adjustavailableTokens(tick)` -/
def adjust (cap q : Int) (b : B) (tick : Int) : B :=
  -- lastTick := tb.latestTick; tb.latestTick = tick
  if Gen.Valve.tbFull b.avail cap then ⟨b.avail, tick⟩
  else
    let a := b.avail + Gen.Valve.tbRefillAdd tick b.last q
    if Gen.Valve.tbOver a cap then ⟨cap, tick⟩ else ⟨a, tick⟩

/-- when the requested tokens become available: at once, or at the start of tick `endTick` -/
inductive Rel | now | at (endTick : Int) deriving Repr, DecidableEq

/-- `take(now, count, infinityDuration)` with `tick = currentTick(now)` -/
def take (cap q : Int) (b : B) (tick c : Int) : B × Rel :=
  if Gen.Valve.tbCountNonPos c then (b, .now)
  else
    let b' := adjust cap q b tick
    let a := Gen.Valve.tbAvailAfter b'.avail c
    if Gen.Valve.tbEnough a then (⟨a, b'.last⟩, .now)
    else (⟨a, b'.last⟩, .at (Gen.Valve.tbEndTick tick a q))

/-- the tick in which the caller proceeds -/
def relTick (tick : Int) : Rel → Int
  | .now => tick
  | .at e => e

/-- a sequence of requests `(tick, count)` against one bucket → `(release tick, count)` -/
def run (cap q : Int) : B → List (Int × Int) → List (Int × Int)
  | _, [] => []
  | b, (t, c) :: r => (relTick t (take cap q b t c).2, c) :: run cap q (take cap q b t c).1 r

/-! ### nanosecond layer (`Bucket.Take` as the harness calls it) -/

structure P where
  cap : Int
  q   : Int
  fi  : Int      -- fillInterval, ns
deriving Repr

/-- `NewBucketWithQuantumAndClock`: full, tick 0 -/
def init (p : P) : B := ⟨p.cap, 0⟩

/-- `Bucket.Take(count)` at `now` ns after the bucket's start: new state and the wait in ns -/
def takeNs (p : P) (b : B) (now c : Int) : B × Int :=
  let tick := Gen.Valve.tbCurrentTick now p.fi
  match take p.cap p.q b tick c with
  | (b', .now) => (b', 0)
  | (b', .at e) => (b', Gen.Valve.tbEndTimeSinceStart e p.fi - now)

/-- `Bucket.Available()` at `now` -/
def availNs (p : P) (b : B) (now : Int) : B × Int :=
  let b' := adjust p.cap p.q b (Gen.Valve.tbCurrentTick now p.fi)
  (b', b'.avail)

/-- the constructor's promise: the real rate `q·10⁹/fi` is within 1 % of `rate` (a relative 10⁻⁹ is added for the
library's float arithmetic) -/
def rateOK (q fi rate : Int) : Bool :=
  decide (100000000000 * ((q * 1000000000 - rate * fi).natAbs : Int) ≤ 1000000001 * (rate * fi))

/-! ### the constructor's search for `(quantum, fillInterval)` (`NewBucketWithRateAndClock`)

In exact arithmetic, for an integer rate (Cloak passes `float64(rate)` of an `int64`; the harness compares the result
with what the real constructor chose for every rate it builds, `tb.search`): try `quantum = 1, nextQuantum(1), …` below
`2⁵⁰`; `fillInterval = ⌊10⁹·quantum/rate⌋` ns, skipped when 0; accept when the real rate `10⁹·quantum/fillInterval` is
within 1 % of the rate. `fuel` only makes the recursion structural: the sequence passes `2⁵⁰` after fewer than 400 steps. -/

/-- `nextQuantum` -/
def nextQ (q : Int) : Int :=
  let q1 := Gen.Valve.tbNextQuantumFirst q
  if q1 = q then q1 + 1 else q1

/-- `|Rate() - rate| / rate <= 0.01`, exactly -/
def within (q fi rate : Int) : Bool :=
  decide (100 * ((q * 1000000000 - rate * fi).natAbs : Int) ≤ rate * fi)

def searchFrom (rate : Int) : Nat → Int → Option (Int × Int)
  | 0, _ => none
  | n + 1, q =>
    if q < 2^50 then
      if 1000000000 * q / rate ≤ 0 then searchFrom rate n (nextQ q)
      else if within q (1000000000 * q / rate) rate then some (q, 1000000000 * q / rate)
      else searchFrom rate n (nextQ q)
    else none

def search (rate : Int) : Option (Int × Int) := searchFrom rate 4000 1

end TB
