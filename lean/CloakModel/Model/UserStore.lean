import CloakModel.Model.Basic
import CloakModel.Model.GoInt
import CloakModel.Gen.Store

/-! Model of the user database (`internal/server/usermanager/localmanager.go`), of the admin API
handlers (`api_router.go`) and of the activation of a user (`userPanel.GetUser` → `mux.MakeValve`).

Concrete store: `uid ↦ bucket`, a bucket is a partial map from the six keys to the *bytes* bbolt holds
(fixed-width big-endian, written by `i32ToB`/`i64ToB`, i.e. with Go's two's-complement conversions).
bbolt itself is abstracted to "a committed map; a transaction that returns an error or panics is rolled
back" (modelled, not verified).  The model is parametric in `Facts` — the four places where the pinned
tree is defective — and otherwise uses the `Gen.Store` terms directly.  Panics are explicit outcomes. -/

namespace US
open GoInt

/-! ### keys, buckets, keyed lists -/

inductive Key | cap | upRate | downRate | upCredit | downCredit | expiry
  deriving DecidableEq, Repr

def Key.all : List Key := [.cap, .upRate, .downRate, .upCredit, .downCredit, .expiry]

/-- the bbolt key (= the JSON field name); tied to `Gen.Store.writeFields` in `Props/C18.lean` -/
def Key.name : Key → String
  | .cap => "SessionsCap" | .upRate => "UpRate" | .downRate => "DownRate"
  | .upCredit => "UpCredit" | .downCredit => "DownCredit" | .expiry => "ExpiryTime"

def Key.width : Key → Nat
  | .cap => 4
  | _ => 8

abbrev Bucket := Key → Option Bytes
def Bucket.empty : Bucket := fun _ => none
def Bucket.set (b : Bucket) (k : Key) (v : Bytes) : Bucket := fun k' => if k' = k then some v else b k'

/-- association list keyed by UID; `set` removes older entries, so `lookup` sees at most one -/
abbrev AL (α : Type) := List (Bytes × α)

def AL.lookup {α} : AL α → Bytes → Option α
  | [], _ => none
  | (k, v) :: r, uid => if k = uid then some v else AL.lookup r uid

def AL.erase {α} : AL α → Bytes → AL α
  | [], _ => []
  | (k, v) :: r, uid => if k = uid then AL.erase r uid else (k, v) :: AL.erase r uid

def AL.set {α} (s : AL α) (uid : Bytes) (v : α) : AL α := (uid, v) :: AL.erase s uid

abbrev Store := AL Bucket

/-! ### facts about the four defective places -/

inductive Panic | indexOutOfRange | tokenBucket
  deriving DecidableEq, Repr

structure Facts where
  /-- `u64`: "return 0 without indexing" test on the length of what `bucket.Get` returned -/
  g8 : Int → Bool
  /-- same for `u32` -/
  g4 : Int → Bool
  /-- `writeUserInfoHlr`: a `return` follows the "UID mismatch" error -/
  postRetMismatch : Bool
  /-- `GetUser`: refusal of the rates before `mux.MakeValve` -/
  valveGuard : Int → Int → Bool
  /-- `ListAllUsers`: the UID put into each listed `UserInfo` is a copy of the key slice that bbolt hands
  to the `tx.ForEach` callback (`false`: it is that slice itself, i.e. database memory) -/
  listCopiesUID : Bool

def genFacts : Facts :=
  ⟨Gen.Store.decGuard_u64, Gen.Store.decGuard_u32, Gen.Store.postRet_mismatch, Gen.Store.valveGuard,
   Gen.Store.listUIDIsCopy⟩

/-- the values of the pinned tree `e2cb346`, written out -/
def pinnedFacts : Facts := ⟨fun _ => false, fun _ => false, false, fun _ _ => false, false⟩

/-! ### encoding / decoding of one stored value -/

/-- `i32ToB` / `i64ToB` -/
def enc (k : Key) (v : Int) : Bytes :=
  match k with
  | .cap => beBytes 4 (toU32 v)
  | _ => beBytes 8 (toU64 v)

/-- what `bucket.Get` hands to the decoder: `nil` (length 0) for an absent key -/
def gotten : Option Bytes → Bytes
  | none => []
  | some bs => bs

/-- `D(bucket.Get(key))` for a decoder of width `w` with guard `g`: `binary.BigEndian.UintNN` indexes
byte `w-1` first and panics on a shorter slice -/
def decU (g : Int → Bool) (w : Nat) (v : Option Bytes) : Except Panic Nat :=
  if g ((gotten v).length : Nat) then .ok 0
  else if (gotten v).length < w then .error .indexOutOfRange
  else .ok (beNat ((gotten v).take w))

def dec64 (F : Facts) (v : Option Bytes) : Except Panic Nat := decU F.g8 Gen.Store.decWidth_u64 v
def dec32 (F : Facts) (v : Option Bytes) : Except Panic Nat := decU F.g4 Gen.Store.decWidth_u32 v

/-! ### `localManager` -/

structure Rec where
  cap : Int
  upRate : Int
  downRate : Int
  upCredit : Int
  downCredit : Int
  expiry : Int
deriving DecidableEq, Repr

/-- a decoded `UserInfo`: `none` = the JSON field was absent (nil pointer) -/
structure Info where
  uid : Bytes
  cap : Option Int
  upRate : Option Int
  downRate : Option Int
  upCredit : Option Int
  downCredit : Option Int
  expiry : Option Int
deriving DecidableEq, Repr

/-- `if u.F != nil { bucket.Put(key, iNNToB(*u.F)) }` -/
def putField (b : Bucket) (k : Key) : Option Int → Bucket
  | none => b
  | some v => b.set k (enc k v)

def writeBucket (b : Bucket) (i : Info) : Bucket :=
  putField (putField (putField (putField (putField (putField b .cap i.cap) .upRate i.upRate)
    .downRate i.downRate) .upCredit i.upCredit) .downCredit i.downCredit) .expiry i.expiry

/-- `tx.CreateBucketIfNotExists`: the existing bucket, or a fresh empty one -/
def bucketOrNew : Option Bucket → Bucket
  | none => Bucket.empty
  | some b => b

/-- `WriteUserInfo`; `.error` = bbolt refuses an empty bucket name (transaction rolled back) -/
def writeUserInfo (s : Store) (i : Info) : Except Unit Store :=
  if i.uid = [] then .error ()
  else .ok (s.set i.uid (writeBucket (bucketOrNew (s.lookup i.uid)) i))

/-- the six decodes of `GetUserInfo` / `ListAllUsers` in source order -/
def readRec (F : Facts) (b : Bucket) : Except Panic Rec := do
  let c ← dec32 F (b .cap)
  let ur ← dec64 F (b .upRate)
  let dr ← dec64 F (b .downRate)
  let uc ← dec64 F (b .upCredit)
  let dc ← dec64 F (b .downCredit)
  let e ← dec64 F (b .expiry)
  pure ⟨toS32 c, toS64 ur, toS64 dr, toS64 uc, toS64 dc, toS64 e⟩

/-- `GetUserInfo`: `none` = `ErrUserNotFound` -/
def getUserInfo (F : Facts) (s : Store) (uid : Bytes) : Except Panic (Option Rec) :=
  match s.lookup uid with
  | none => .ok none
  | some b => do let r ← readRec F b; pure (some r)

def listAllUsers (F : Facts) : Store → Except Panic (List (Bytes × Rec))
  | [] => .ok []
  | (uid, b) :: rest => do
    let r ← readRec F b
    let l ← listAllUsers F rest
    pure ((uid, r) :: l)

/-! #### whose memory is a returned UID?

bbolt: "byte slices returned from Bolt are only valid during a transaction" — the key slice of a
`ForEach` callback is a window into the read-only mapping of the database file.  The result of
`ListAllUsers` is used after `db.View` has returned (`listAllUsersHlr` marshals it; a caller of the
`UserManager` method keeps it).  Once a later write transaction has committed (freed pages are recycled)
or the file has been closed (the mapping is gone) the window shows whatever is there now. -/

/-- a `[]byte` inside a value the manager returned -/
inductive Held
  | own (bs : Bytes)     -- memory of its own (a copy, or the caller's argument)
  | txmem (bs : Bytes)   -- a window into the database mapping that showed `bs` during the transaction
deriving DecidableEq, Repr

/-- what the slice reads as when it is looked at again.  `mem bs` = the present content of the window that
showed `bs` inside the transaction: the identity as long as nothing has been committed or closed since,
otherwise not determined by the operation sequence (bbolt's page reuse; an unmapped window faults). -/
def Held.read (mem : Bytes → Bytes) : Held → Bytes
  | .own bs => bs
  | .txmem bs => mem bs

/-- the value `ListAllUsers` returns, with the provenance of each UID -/
def listHeld (F : Facts) (l : List (Bytes × Rec)) : List (Held × Rec) :=
  l.map fun p => (if F.listCopiesUID then Held.own p.1 else Held.txmem p.1, p.2)

/-- the caller looks at a list result it still holds -/
def rereadList (mem : Bytes → Bytes) (h : List (Held × Rec)) : List (Bytes × Rec) :=
  h.map fun p => (p.1.read mem, p.2)

/-- `DeleteUser`: `none` = `tx.DeleteBucket` failed (no such bucket), nothing changed -/
def deleteUser (s : Store) (uid : Bytes) : Option Store :=
  match s.lookup uid with
  | none => none
  | some _ => some (s.erase uid)

inductive AuthRes | notFound | noUp | noDown | expired | ok (up down : Int)
  deriving DecidableEq, Repr

def authenticateUser (F : Facts) (s : Store) (uid : Bytes) (now : Int) : Except Panic AuthRes :=
  match s.lookup uid with
  | none => .ok .notFound
  | some b => do
    let ur ← dec64 F (b .upRate)
    let dr ← dec64 F (b .downRate)
    let uc ← dec64 F (b .upCredit)
    let dc ← dec64 F (b .downCredit)
    let e ← dec64 F (b .expiry)
    if Gen.Store.authNoUp (toS64 uc) then pure .noUp
    else if Gen.Store.authNoDown (toS64 dc) then pure .noDown
    else if Gen.Store.authExpired (toS64 e) now then pure .expired
    else pure (.ok (toS64 ur) (toS64 dr))

inductive AuthzRes | notFound | noUp | noDown | expired | capReached | ok
  deriving DecidableEq, Repr

/-- `copy(arrUID[:], UID)` into a `[16]byte` -/
def pad16 (uid : Bytes) : Bytes := (uid ++ List.replicate 16 0).take 16

/-- `AuthoriseNewSession`; the cap is read as `int(u32(..))`, i.e. unsigned -/
def authoriseNewSession (F : Facts) (s : Store) (uid : Bytes) (n : Int) (now : Int) : Except Panic AuthzRes :=
  match s.lookup (pad16 uid) with
  | none => .ok .notFound
  | some b => do
    let c ← dec32 F (b .cap)
    let uc ← dec64 F (b .upCredit)
    let dc ← dec64 F (b .downCredit)
    let e ← dec64 F (b .expiry)
    if Gen.Store.authzNoUp (toS64 uc) then pure .noUp
    else if Gen.Store.authzNoDown (toS64 dc) then pure .noDown
    else if Gen.Store.authzExpired (toS64 e) now then pure .expired
    else if Gen.Store.authzCapReached n (c : Nat) then pure .capReached
    else pure .ok

inductive Msg | gone | noUp | noDown | expired
  deriving DecidableEq, Repr

structure Upd where
  uid : Bytes
  up : Int
  down : Int
deriving DecidableEq, Repr

/-- one iteration of the loop of `UploadStatus` -/
def uploadOne (F : Facts) (now : Int) (acc : Store × List (Bytes × Msg)) (u : Upd) :
    Except Panic (Store × List (Bytes × Msg)) :=
  match acc.1.lookup u.uid with
  | none => .ok (acc.1, acc.2 ++ [(u.uid, .gone)])
  | some b => do
    let oldUp ← dec64 F (b .upCredit)
    let newUp := wrap64 (Gen.Store.uploadNewUp (toS64 oldUp) u.up)
    let r1 := if Gen.Store.uploadUpExhausted newUp then [(u.uid, Msg.noUp)] else []
    let b1 := b.set .upCredit (enc .upCredit newUp)
    let oldDown ← dec64 F (b1 .downCredit)
    let newDown := wrap64 (Gen.Store.uploadNewDown (toS64 oldDown) u.down)
    let r2 := if Gen.Store.uploadDownExhausted newDown then [(u.uid, Msg.noDown)] else []
    let b2 := b1.set .downCredit (enc .downCredit newDown)
    let e ← dec64 F (b2 .expiry)
    let r3 := if Gen.Store.uploadExpired now (toS64 e) then [(u.uid, Msg.expired)] else []
    pure (acc.1.set u.uid b2, acc.2 ++ r1 ++ r2 ++ r3)

def uploadLoop (F : Facts) (now : Int) : Store × List (Bytes × Msg) → List Upd → Except Panic (Store × List (Bytes × Msg))
  | acc, [] => .ok acc
  | acc, u :: us => do
    let acc' ← uploadOne F now acc u
    uploadLoop F now acc' us

/-- `UploadStatus`: the whole loop is one `db.Update`; a panic rolls the transaction back -/
def uploadStatus (F : Facts) (s : Store) (ups : List Upd) (now : Int) : Store × Except Panic (List (Bytes × Msg)) :=
  match uploadLoop F now (s, []) ups with
  | .ok (s', r) => (s', .ok r)
  | .error p => (s, .error p)

/-! ### `userPanel.GetUser` for a UID that is not active yet -/

inductive UserRes | refused (r : AuthRes) | badRate | active
  deriving DecidableEq, Repr

/-- `mux.MakeValve(up, down)`: `ratelimit.NewBucketWithRate(float64(r), r)` panics
("token bucket capacity is not > 0") unless the rate is positive (library source, v1.0.2) -/
def makeValve (up down : Int) : Except Panic Unit :=
  if up ≤ 0 ∨ down ≤ 0 then .error .tokenBucket else .ok ()

def getUser (F : Facts) (s : Store) (uid : Bytes) (now : Int) : Except Panic UserRes := do
  match ← authenticateUser F s uid now with
  | .ok up down =>
    if F.valveGuard up down then pure .badRate
    else do makeValve up down; pure .active
  | r => pure (.refused r)

/-! ### the admin API handlers as decision functions -/

/-- the `{UID}` path variable: empty, not base64, or decoded -/
inductive Url | empty | bad | ok (uid : Bytes)
  deriving DecidableEq, Repr

/-- the request body: not decodable into `UserInfo`, or decoded -/
inductive Body | bad | ok (i : Info)
  deriving DecidableEq, Repr

/-- net/http keeps the first status written (`http.Error` / `WriteHeader`); later ones are superfluous -/
def firstStatus : Option Nat → Nat → Nat
  | some st, _ => st
  | none, st => st

/-- `writeUserInfoHlr` -/
def postHlr (F : Facts) (s : Store) (u : Url) (b : Body) : Store × Nat :=
  match u with
  | .empty => (s, Gen.Store.postSt_empty)
  | .bad => (s, Gen.Store.postSt_b64)
  | .ok uid =>
    match b with
    | .bad => (s, Gen.Store.postSt_json)
    | .ok i =>
      if uid ≠ i.uid ∧ F.postRetMismatch = true then (s, Gen.Store.postSt_mismatch)
      else
        let st0 : Option Nat := if uid ≠ i.uid then some Gen.Store.postSt_mismatch else none
        match writeUserInfo s i with
        | .error _ => (s, firstStatus st0 Gen.Store.postSt_mgr)
        | .ok s' => (s', firstStatus st0 Gen.Store.postSt_ok)

/-- `getUserInfoHlr`: status and, when a body was marshalled, the record -/
def getHlr (F : Facts) (s : Store) (u : Url) : Except Panic (Nat × Option Rec) :=
  match u with
  | .empty =>
    if Gen.Store.getRet_empty then .ok (Gen.Store.getSt_empty, none)
    else do
      -- no `return`: carries on with the empty UID; whatever follows, the status stays the first one
      let _ ← getUserInfo F s []
      pure (Gen.Store.getSt_empty, none)
  | .bad => .ok (Gen.Store.getSt_b64, none)
  | .ok uid => do
    match ← getUserInfo F s uid with
    | none => pure (Gen.Store.getSt_notfound, none)
    | some r => pure (200, some r)

/-- `deleteUserHlr` -/
def delHlr (s : Store) (u : Url) : Store × Nat :=
  match u with
  | .empty => (s, Gen.Store.delSt_empty)
  | .bad => (s, Gen.Store.delSt_b64)
  | .ok uid =>
    match deleteUser s uid with
    | none => (s, Gen.Store.delSt_mgr)
    | some s' => (s', Gen.Store.delSt_ok)

/-! ### operations and one step -/

inductive Op
  | post (u : Url) (b : Body)
  | get (u : Url)
  | list
  | del (u : Url)
  | auth (uid : Bytes) (now : Int)
  | authz (uid : Bytes) (n : Int) (now : Int)
  | upload (ups : List Upd) (now : Int)
  | getUser (uid : Bytes) (now : Int)
  | reopen
deriving Repr

inductive Out
  | status (n : Nat)
  | info (n : Nat) (r : Option Rec)
  | users (l : List (Bytes × Rec))
  | auth (r : AuthRes)
  | authz (r : AuthzRes)
  | user (r : UserRes)
  | resps (l : List (Bytes × Msg))
  | ok
  | panic (p : Panic)
deriving DecidableEq, Repr

def step (F : Facts) (s : Store) : Op → Store × Out
  | .post u b => let r := postHlr F s u b; (r.1, .status r.2)
  | .get u =>
    match getHlr F s u with
    | .ok (st, r) => (s, .info st r)
    | .error p => (s, .panic p)
  | .list =>
    match listAllUsers F s with
    | .ok l => (s, .users l)
    | .error p => (s, .panic p)
  | .del u => let r := delHlr s u; (r.1, .status r.2)
  | .auth uid now =>
    match authenticateUser F s uid now with
    | .ok r => (s, .auth r)
    | .error p => (s, .panic p)
  | .authz uid n now =>
    match authoriseNewSession F s uid n now with
    | .ok r => (s, .authz r)
    | .error p => (s, .panic p)
  | .upload ups now =>
    match uploadStatus F s ups now with
    | (s', .ok r) => (s', .resps r)
    | (s', .error p) => (s', .panic p)
  | .getUser uid now =>
    match getUser F s uid now with
    | .ok r => (s, .user r)
    | .error p => (s, .panic p)
  | .reopen => (s, .ok)   -- bbolt persists committed transactions (assumption)

def run (F : Facts) : Store → List Op → Store × List Out
  | s, [] => (s, [])
  | s, op :: ops =>
    let r := step F s op
    let rest := run F r.1 ops
    (rest.1, r.2 :: rest.2)

end US
