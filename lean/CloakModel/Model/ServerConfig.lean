import CloakModel.Model.Basic
import CloakModel.Gen.ServerCfg

/-! The server's configuration → `State` → the address `goWeb` dials (`internal/server/state.go`, `dispatcher.go`).

Go strings are byte strings; here `Str = List Char` with one `Char` per byte (`strings.Split/Contains/TrimSuffix/TrimPrefix`
with ASCII arguments act byte-wise, so this is exact; `strings.ToLower` is modelled for ASCII names only — assumption).
EXTERNAL (parameters of the model, trusted base): `net.ResolveIPAddr("ip", host)` (`resolveIP`, giving the `String()` of the
resolved address), `net.ResolveTCPAddr/ResolveUDPAddr` (`resolveBook`), `usermanager.MakeLocalManager` (`dbOpens`),
`net.SplitHostPort(conn.LocalAddr().String())` (the local port handed to `dialAddr`).

`redirSplit` is NOT written here: it is the term the extractor regenerates from `parseRedirAddr` (Gen.ServerCfg.redirSplit),
instantiated with the string primitives below. -/
namespace SCfg

abbrev Str := List Char

/-- first segment and the remaining segments of `strings.Split(s, c)` (never empty: `Split("", ":") = [""]`) -/
def split1 (c : Char) : Str → Str × List Str
  | [] => ([], [])
  | x :: xs =>
    let r := split1 c xs
    if x = c then ([], r.1 :: r.2) else (x :: r.1, r.2)

def splitOn (c : Char) (s : Str) : List Str := (split1 c s).1 :: (split1 c s).2

def contains (s : Str) (c : Char) : Bool := s.elem c

/-- `some rest` iff `s = pre ++ rest` -/
def stripPrefix : Str → Str → Option Str
  | [], s => some s
  | _ :: _, [] => none
  | p :: ps, x :: xs => if p = x then stripPrefix ps xs else none

/-- strings.TrimPrefix -/
def trimPrefix (s pre : Str) : Str :=
  match stripPrefix pre s with
  | some r => r
  | none => s

/-- strings.TrimSuffix -/
def trimSuffix (s suf : Str) : Str :=
  match stripPrefix suf.reverse s.reverse with
  | some r => r.reverse
  | none => s

/-- `parseRedirAddr` up to the resolver call: (host handed to `net.ResolveIPAddr`, port); `none` = index panic.
The body is the regenerated term. -/
def redirSplit (s : Str) : Option (Str × Str) :=
  Gen.ServerCfg.redirSplit (fun s c => splitOn c s) contains trimSuffix trimPrefix s

/-- net.JoinHostPort (go1.24: brackets iff the host contains ':') -/
def joinHostPort (h p : Str) : Str :=
  if contains h ':' then '[' :: (h ++ ']' :: ':' :: p) else h ++ ':' :: p

inductive RedirRes where
  | panic
  | err
  | ok (host port : Str)
  deriving DecidableEq, Repr

/-- `parseRedirAddr`; `resolve h` = `String()` of `net.ResolveIPAddr("ip", h)`, `none` when it fails -/
def parseRedirAddr (resolve : Str → Option Str) (s : Str) : RedirRes :=
  match redirSplit s with
  | none => .panic
  | some (h, p) =>
    match resolve h with
    | none => .err
    | some a => .ok a p

/-- the address `goWeb` hands to `RedirDialer.Dial("tcp", ·)`; `localPort` = port of the connection's local address -/
def dialAddr (host port localPort : Str) : Str :=
  joinHostPort host (if port = [] then localPort else port)

/-! ### BypassUID / AdminUID table -/

def keyLen : Nat := Gen.ServerCfg.bypassKeyLen

/-- `var arr [n]byte; copy(arr[:], uid)`: truncated or zero-padded to n bytes -/
def key (n : Nat) (uid : Bytes) : Bytes := uid.take n ++ List.replicate (n - uid.length) 0

def bypassTable (bypass : List Bytes) (admin : Bytes) : List Bytes :=
  bypass.map (key keyLen) ++ (if Gen.ServerCfg.initAdminKeyAdded admin.length then [key keyLen admin] else [])

def isBypass (tab : List Bytes) (uid : Bytes) : Bool := tab.elem (key keyLen uid)

/-! ### ProxyBook -/

def lowerC (c : Char) : Char := if 'A' ≤ c ∧ c ≤ 'Z' then Char.ofNat (c.toNat + 32) else c
/-- strings.ToLower on ASCII -/
def lower (s : Str) : Str := s.map lowerC

structure Entry where
  name : Str
  pair : List Str
  deriving Repr

inductive EntryRes where
  | panic
  | err
  | skip                       -- unknown network name: no store, no error
  | store (k v : Str)
  deriving DecidableEq, Repr

/-- the resolver the switch of `parseProxyBook` selects for a (lower-cased) network name -/
def bookResolver (nw : Str) : Option String :=
  (Gen.ServerCfg.bookCases.find? (fun c => c.1.toList == nw)).map (·.2)

/-- one iteration of the loop of `parseProxyBook`; `resolve r a` = `String()` of `net.<r>(a)`, prefixed by its network -/
def parseEntry (resolve : String → Str → Option Str) (e : Entry) : EntryRes :=
  if Gen.ServerCfg.bookPairBad e.pair.length then .err
  else match e.pair[0]?, e.pair[1]? with
    | some nw, some addr =>
      match bookResolver (lower nw) with
      | none => .skip
      | some r =>
        match resolve r addr with
        | none => .err
        | some a => .store (lower e.name) a
    | _, _ => .panic

abbrev Book := List (Str × Str)

def bookSet (b : Book) (k v : Str) : Book := (k, v) :: b.filter (fun kv => kv.1 != k)
def bookGet (b : Book) (k : Str) : Option Str := (b.find? (fun kv => kv.1 == k)).map (·.2)

inductive BookRes where
  | panic
  | err
  | ok (b : Book)
  deriving DecidableEq, Repr

/-- `parseProxyBook` over the entries in the order the map iteration visits them -/
def parseProxyBook (resolve : String → Str → Option Str) : List Entry → Book → BookRes
  | [], b => .ok b
  | e :: es, b =>
    match parseEntry resolve e with
    | .panic => .panic
    | .err => .err
    | .skip => parseProxyBook resolve es b
    | .store k v => parseProxyBook resolve es (bookSet b k v)

/-! ### InitState -/

structure Raw where
  proxyBook : List Entry
  bypassUID : List Bytes
  redirAddr : Str
  privateKey : Bytes
  adminUID : Bytes
  dbPathEmpty : Bool
  keepAlive : Int
  cnc : Bool

structure Env where
  resolveIP : Str → Option Str
  resolveBook : String → Str → Option Str
  dbOpens : Bool                     -- usermanager.MakeLocalManager(DatabasePath) succeeds

inductive InitErr where
  | cnc | db | redir | book | key | panic
  deriving DecidableEq, Repr

structure Sta where
  voidManager : Bool
  proxyKeepAlive : Int               -- net.Dialer.KeepAlive in ns (negative: keep-alives off)
  redirHost : Str
  redirPort : Str
  book : Book
  pv : Bytes
  admin : Bytes
  bypass : List Bytes
  deriving Repr

/-- `InitState`, stage by stage in the order of `Gen.ServerCfg.initOrder` -/
def initState (env : Env) (r : Raw) : Except InitErr Sta :=
  if r.cnc then .error .cnc
  else
    let void := Gen.ServerCfg.initVoidManager r.adminUID.length r.dbPathEmpty
    if !void && !env.dbOpens then .error .db
    else
      let ka := if Gen.ServerCfg.initKeepAliveCond r.keepAlive then Gen.ServerCfg.initKeepAliveThen r.keepAlive
                else Gen.ServerCfg.initKeepAliveElse r.keepAlive
      match parseRedirAddr env.resolveIP r.redirAddr with
      | .panic => .error .panic
      | .err => .error .redir
      | .ok h p =>
        match parseProxyBook env.resolveBook r.proxyBook [] with
        | .panic => .error .panic
        | .err => .error .book
        | .ok b =>
          if Gen.ServerCfg.initKeyMissing r.privateKey.length then .error .key
          else .ok { voidManager := void, proxyKeepAlive := ka, redirHost := h, redirPort := p, book := b,
                     pv := key 32 r.privateKey, admin := r.adminUID, bypass := bypassTable r.bypassUID r.adminUID }

end SCfg
