import CloakModel.Model.TLSRecord
import CloakModel.Gen.FirstPacket

/-! Model of `internal/server/dispatcher.go`: `readFirstPacket` / `connReadLine` over a peer byte stream
that arrives in arbitrary chunks and may end (EOF or the 15 s read deadline) anywhere, the decision
`dispatchConnection` takes for a peer that is not an authorised Cloak client, and the relay `goWeb` sets up.

Constants, comparisons, slice bounds, "ReadFull or Read", the `redirOnErr` results, which branches call
`goWeb()` / `conn.Close()` and what `goWeb` writes to the target all come from `Gen.FirstPacket`.

Buffer model: the first-packet buffer is represented by `data` = the bytes read so far, in order
(`buf[:bufOffset]`); the bridging lemmas of `Props/C09.lean` show that every read of the source lands exactly
at `bufOffset` (contiguity), which is what makes this representation faithful. -/

namespace FP
open Rec Gen.FirstPacket

inductive Transport | none | tls | ws deriving DecidableEq, Repr
inductive ErrKind | ok | readErr | shortBuffer | unrecognised deriving DecidableEq, Repr

/-- results of `readFirstPacket` (+ whether it closed the connection itself) -/
structure Out where
  data : Bytes
  transport : Transport
  redirOnErr : Bool
  err : ErrKind
  closed : Bool
deriving DecidableEq, Repr

def bufLen : Nat := dcBufSize.toNat

def byteOf (v : Int) : UInt8 := UInt8.ofNat v.toNat

/-- `int(binary.BigEndian.Uint16(buf[fpLenLo:fpLenHi]))` of a (zero-initialised) buffer starting with `hdr` -/
def declaredLen (hdr : Bytes) : Nat :=
  let buf := hdr ++ List.replicate (fpLenHi.toNat - hdr.length) 0
  beNat ((buf.drop fpLenLo.toNat).take (sliceLen fpLenLo fpLenHi))

/-- the `case 0x47` loop: `connReadLine` byte by byte into `buf[bufOffset:]`, lines until `"\r\n"`.
`ls` = offset at which the current `connReadLine` call started (its `i` is `data.length - ls`, its
`len(buf)` is `bufLen - ls`).  `fuel` bounds the number of bytes (callers pass more than `bufLen`). -/
def wsScan : Nat → Nat → Bytes → Chunks → Out × Chunks
  | 0, _, data, cs => (⟨data, .ws, fpLineFullRedir, .shortBuffer, false⟩, cs)
  | fuel+1, ls, data, cs =>
    let i : Int := (data.length - ls : Nat)
    if crlLoop i ((bufLen - ls : Nat) : Int) then
      match readWith crlReadFull (sliceLen (crlReadLo i) (crlReadHi i)) cs with
      | none => (⟨data ++ cs.flatten, .ws, fpLineErrRedir, .readErr, fpLineErrCloses⟩, [])
      | some (b, rest) =>
        if b = [byteOf crlNewline] then
          -- connReadLine returns i+1; line := buf[ls : ls+i+1]; bufOffset += i+1
          let data' := data ++ b
          if (data'.drop ls).take (crlRetOnNewline i).toNat = fpTerminator.map UInt8.ofNat then
            (⟨data', .ws, true, .ok, false⟩, rest)
          else wsScan fuel data'.length data' rest
        else wsScan fuel ls (data ++ b) rest
    else (⟨data, .ws, fpLineFullRedir, .shortBuffer, false⟩, cs)

/-- linear-time implementation of `wsScan` for the compiled driver: the data is kept reversed with its length.
`wsScan_eq_fast` (kernel-checked) makes the compiler use it in place of `wsScan`; the theorems speak about `wsScan`. -/
def wsScanFast : Nat → Nat → Nat → Bytes → Chunks → Out × Chunks
  | 0, _, _, rdata, cs => (⟨rdata.reverse, .ws, fpLineFullRedir, .shortBuffer, false⟩, cs)
  | fuel+1, ls, n, rdata, cs =>
    let i : Int := (n - ls : Nat)
    if crlLoop i ((bufLen - ls : Nat) : Int) then
      match readWith crlReadFull (sliceLen (crlReadLo i) (crlReadHi i)) cs with
      | none => (⟨rdata.reverse ++ cs.flatten, .ws, fpLineErrRedir, .readErr, fpLineErrCloses⟩, [])
      | some (b, rest) =>
        if b = [byteOf crlNewline] then
          let rdata' := b.reverse ++ rdata
          let n' := n + b.length
          if ((rdata'.take (n' - ls)).reverse).take (crlRetOnNewline i).toNat = fpTerminator.map UInt8.ofNat then
            (⟨rdata'.reverse, .ws, true, .ok, false⟩, rest)
          else wsScanFast fuel n' n' rdata' rest
        else wsScanFast fuel ls (n + b.length) (b.reverse ++ rdata) rest
    else (⟨rdata.reverse, .ws, fpLineFullRedir, .shortBuffer, false⟩, cs)

theorem wsScan_fast : ∀ (fuel ls : Nat) (data : Bytes) (cs : Chunks),
    wsScan fuel ls data cs = wsScanFast fuel ls data.length data.reverse cs := by
  intro fuel
  induction fuel with
  | zero => intro ls data cs; simp [wsScan, wsScanFast]
  | succ fuel ih =>
    intro ls data cs
    unfold wsScan wsScanFast
    simp only [List.reverse_reverse]
    split
    · split
      · rfl
      · rename_i b rest _
        have hrev : b.reverse ++ data.reverse = (data ++ b).reverse := by rw [List.reverse_append]
        have hlen : data.length + b.length = (data ++ b).length := by rw [List.length_append]
        have hline : (List.take (data.length + b.length - ls) (b.reverse ++ data.reverse)).reverse = (data ++ b).drop ls := by
          rw [hrev, hlen, List.take_reverse, List.reverse_reverse]
          by_cases h : ls ≤ (data ++ b).length
          · congr 1; omega
          · have h1 : (data ++ b).length - ((data ++ b).length - ls) = (data ++ b).length := by omega
            rw [h1, List.drop_of_length_le (Nat.le_refl _), List.drop_of_length_le (by omega)]
        rw [hline]
        split
        · split
          · rw [hrev, List.reverse_reverse]
          · rw [ih, hrev, hlen]
        · rw [ih, hrev, hlen]
    · rfl

def wsScanImpl (fuel ls : Nat) (data : Bytes) (cs : Chunks) : Out × Chunks :=
  wsScanFast fuel ls data.length data.reverse cs

@[csimp] theorem wsScan_eq_fast : @wsScan = @wsScanImpl := by
  funext fuel ls data cs; exact wsScan_fast fuel ls data cs

/-- `readFirstPacket(conn, buf, 15s)`; the end of the chunk list is EOF or the deadline -/
def readFirstPacket (cs : Chunks) : Out × Chunks :=
  match readWith fpFirstFull (sliceLen (fpFirstLo 0 0) (fpFirstHi 0 0)) cs with
  | none => (⟨[], .none, fpFirstErrRedir, .readErr, fpFirstErrCloses⟩, [])
  | some (b0, rest) =>
    let first : UInt8 := match b0 with | b :: _ => b | [] => 0   -- buf[0] of a fresh buffer
    let off := fpInitOffset
    if (first.toNat : Int) = fpTLSByte then
      match readWith fpHdrFull (sliceLen (fpHdrLo off 0) (fpHdrHi off 0)) rest with
      | none => (⟨b0 ++ rest.flatten, .tls, fpHdrErrRedir, .readErr, fpHdrErrCloses⟩, [])
      | some (h, rest2) =>
        let hdr := b0 ++ h
        let dl := declaredLen hdr
        if fpOversize dl bufLen then (⟨hdr, .tls, fpOversizeRedir, .shortBuffer, false⟩, rest2)
        else
          match readWith fpBodyFull (sliceLen (fpBodyLo off dl) (fpBodyHi off dl)) rest2 with
          | none => (⟨hdr ++ rest2.flatten, .tls, fpBodyErrRedir, .readErr, fpBodyErrCloses⟩, [])
          | some (body, rest3) => (⟨hdr ++ body, .tls, true, .ok, false⟩, rest3)
    else if (first.toNat : Int) = fpWSByte then
      wsScan (bufLen + 1) off.toNat b0 rest
    else (⟨b0, .none, fpDefaultRedir, .unrecognised, false⟩, rest)

/-! ### what `dispatchConnection` does next -/

/-- outcome of everything between a complete first packet and the decision (abstract: `AuthFirstPacket`,
`MakeObfuscator`, the admin gate, the `ProxyBook` lookup, the user lookup, `GetSession`) -/
inductive Verdict | authFail | obfsFail | admin | badMethod | badUser | sessErr | proxy
deriving DecidableEq, Repr

inductive Action
  | web        -- goWeb(); return
  | close      -- conn.Close(); return
  | drop       -- return (neither relayed nor closed)
  | handshake  -- finishHandshake: the server answers as Cloak (admin / proxy — outside C09)
  | other      -- a branch body the extractor could not classify
deriving DecidableEq, Repr

def actionOfCode : Nat → Action
  | 1 => .web
  | 2 => .close
  | 3 => .drop
  | _ => .other

def decideAction (o : Out) (v : Verdict) : Action :=
  if o.err ≠ .ok then
    (if o.redirOnErr then actionOfCode dcReadErrRedirAction else actionOfCode dcReadErrElseAction)
  else match v with
    | .authFail => actionOfCode dcAuthErrAction
    | .obfsFail => actionOfCode dcObfsErrAction
    | .admin => .handshake
    | .badMethod => actionOfCode dcBadMethodAction
    | .badUser => actionOfCode dcBadUserAction
    | .sessErr => actionOfCode dcSessErrAction
    | .proxy => .handshake

/-- what `goWeb` writes to the target first: `webConn.Write(<slice of data>)` -/
def goWebWrite (data : Bytes) : Bytes :=
  (data.take (goWebWriteHi data.length).toNat).drop (goWebWriteLo data.length).toNat

/-- later events of the connection, each processed to quiescence before the next.  `peerEOF`: the peer ends ITS
sending direction (a TCP FIN — a half close, or a full close: the server's `Read` cannot tell them apart) -/
inductive Ev | peer (b : Bytes) | target (b : Bytes) | peerEOF | targetEOF
deriving DecidableEq, Repr

/-- how the redirect target behaves when `goWeb` reaches for it -/
inductive Target
  | up          -- the dial succeeds and the first write is taken
  | dialFails   -- `RedirDialer.Dial` returns an error (target down / restarting)
  | writeFails  -- the dial succeeds, the first `webConn.Write(data)` returns an error (reset)
deriving DecidableEq, Repr

structure Relay where
  dialed : Bool             -- `RedirDialer.Dial` was called
  toTarget : List Bytes     -- writes to the target conn, in order
  toPeer : List Bytes       -- writes to the peer conn, in order
  «open» : Bool             -- both `common.Copy` loops still running
  peerClosed : Bool         -- `Close()` was called on the peer conn
  targetClosed : Bool       -- `Close()` was called on the target conn
deriving DecidableEq, Repr

/-- the two `common.Copy` goroutines (`defer func() { src.Close(); dst.Close() }()`): forward a chunk while open; the
first EOF on either side ends BOTH directions and closes both conns — a half close of the peer is not passed on, and
what the target sends afterwards is lost -/
def relayStep (r : Relay) : Ev → Relay
  | .peer b => if r.open then { r with toTarget := r.toTarget ++ [b] } else r
  | .target b => if r.open then { r with toPeer := r.toPeer ++ [b] } else r
  | .peerEOF => if r.open then { r with «open» := false, peerClosed := true, targetClosed := true } else r
  | .targetEOF => if r.open then { r with «open» := false, peerClosed := true, targetClosed := true } else r

/-- the whole connection: peer chunks `cs` (then silence until the deadline, or EOF), the verdict on a complete
first packet, the behaviour of the redirect target, later events.  The three Booleans say what `goWeb` does at its
two fault points (`run` instantiates them with the extracted facts): does the `Dial` error branch close the peer
conn; does the `Write` error branch close the peer conn / the half-open target conn. -/
def runWith (dialErrClosesPeer writeErrClosesPeer writeErrClosesTarget : Bool)
    (cs : Chunks) (v : Verdict) (tg : Target) (evs : List Ev) : Action × Relay :=
  let o := (readFirstPacket cs).1
  let rest := (readFirstPacket cs).2
  match decideAction o v with
  | .web =>
    match tg with
    | .up =>
      -- dial; webConn.Write(goWebWrite data); then Copy forwards what is already waiting and what comes later
      (.web, evs.foldl relayStep ⟨true, goWebWrite o.data :: rest, [], true, false, false⟩)
    | .dialFails =>
      (if dialErrClosesPeer then .close else .drop, ⟨true, [], [], false, dialErrClosesPeer, false⟩)
    | .writeFails =>
      (if writeErrClosesPeer then .close else .drop, ⟨true, [], [], false, writeErrClosesPeer, writeErrClosesTarget⟩)
  | .close => (.close, ⟨false, [], [], false, true, false⟩)
  | a => (a, ⟨false, [], [], false, false, false⟩)

def run (cs : Chunks) (v : Verdict) (tg : Target) (evs : List Ev) : Action × Relay :=
  runWith goWebDialErrClosesPeer goWebWriteErrClosesPeer goWebWriteErrClosesTarget cs v tg evs

end FP
