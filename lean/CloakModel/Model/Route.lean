import CloakModel.Model.Basic
import CloakModel.Gen.Route

/-! `client.RouteUDP` (internal/client/piper.go) as a state machine: the address → stream table, the session in use,
the per-stream return goroutines.  One `localDatagram` is one iteration of the `for` loop; the return goroutine of a
stream is `live` from its `go` statement until it has run its `delete(streams, addr.String())`.

What the environment chooses is in the events: whether the session `newSeshFunc` hands out is already closed
(then `OpenStream` fails), when a session dies, when a return goroutine's `stream.Read` fails (read deadline,
closed stream, closed session), whether `localConn.WriteTo` fails.  -/
namespace Route

/-- one stream ever opened by RouteUDP.  `addr` is the `proxyAddr := addr` captured by its return goroutine. -/
structure SRec where
  id     : Nat          -- order of opening (0,1,2,…)
  sess   : Nat          -- index of the session it was opened on (order of the newSeshFunc calls)
  sid    : Nat          -- stream id inside that session
  addr   : Nat          -- the local address it was opened for
  closed : Bool         -- stream.Close() has run / its session is closed: Write and Read fail
  live   : Bool         -- the return goroutine has not yet done its delete
deriving Repr, DecidableEq

structure St where
  single  : Bool
  max     : Nat                        -- largest datagram one frame carries (Stream.Write refuses more)
  table   : List (Nat × Nat)           -- addr ↦ stream (by SRec.id)
  streams : List SRec
  nextId  : Nat
  cur     : Option Nat                 -- `sesh` (none = nil)
  nextSess : Nat                       -- number of newSeshFunc calls so far
  deadSess : List Nat                  -- sessions that are closed
  writes  : List (Nat × Nat × Bytes)   -- ghost: (addr, stream, payload) of every successful stream.Write, oldest first
  delivs  : List (Nat × Nat × Bytes)   -- ghost: (stream, addr, payload) of every localConn.WriteTo, oldest first
deriving Repr

def St.init (single : Bool) (max : Nat) : St :=
  { single, max, table := [], streams := [], nextId := 0, cur := none, nextSess := 0, deadSess := [], writes := [], delivs := [] }

inductive Ev where
  | localDatagram (a : Nat) (pl : Bytes) (bornClosed : Bool)   -- bornClosed: a session made in this iteration is already closed
  | streamDatagram (s : Nat) (pl : Bytes) (writeToFails : Bool) -- the return goroutine of s reads a datagram from the remote
  | retExit (s : Nat)                                          -- stream.Read of the goroutine of s fails (deadline, closed)
  | sessionClosed (k : Nat)
deriving Repr

def lookup (t : List (Nat × Nat)) (a : Nat) : Option Nat := (t.find? (·.1 == a)).map (·.2)
def delete (t : List (Nat × Nat)) (a : Nat) : List (Nat × Nat) := t.filter (·.1 != a)
def rec? (st : St) (s : Nat) : Option SRec := st.streams.find? (·.id == s)
def seshClosed (st : St) : Bool := match st.cur with | none => false | some k => st.deadSess.contains k
def closeStream (st : St) (s : Nat) : St :=
  { st with streams := st.streams.map fun r => if r.id == s then { r with closed := true } else r }

/-- `sesh = newSeshFunc()` -/
def newSession (st : St) (bornClosed : Bool) : St :=
  { st with cur := some st.nextSess, nextSess := st.nextSess + 1,
            deadSess := if bornClosed then st.nextSess :: st.deadSess else st.deadSess }

/-- `sesh.Close()`: the session and every stream of it -/
def closeSession (st : St) (k : Nat) : St :=
  { st with deadSess := k :: st.deadSess,
            streams := st.streams.map fun r => if r.sess == k then { r with closed := true } else r }

/-- the tail of an iteration: `stream.Write(data[:i])` and its error path -/
def writeTo (st : St) (a s : Nat) (pl : Bytes) : St :=
  match rec? st s with
  | none => st     -- unreachable: table entries name opened streams (`tableSound`)
  | some r =>
    if r.closed || decide (pl.length > st.max) then
      -- delete(streams, addr.String()); stream.Close(); continue
      closeStream { st with table := delete st.table a } s
    else { st with writes := st.writes ++ [(a, s, pl)] }

/-- one iteration of RouteUDP's loop for a datagram `pl` read from local address `a` -/
def localDatagram (st : St) (a : Nat) (pl : Bytes) (bornClosed : Bool) : St :=
  let st := if Gen.Route.routeUDPReuse st.single st.cur.isNone (seshClosed st) then newSession st bornClosed else st
  match lookup st.table a with
  | some s => writeTo st a s pl
  | none =>
    let st := if st.single then newSession st bornClosed else st
    match st.cur with
    | none => st      -- unreachable (nil session): Go would panic; `cur_some` shows it cannot happen
    | some k =>
      if st.deadSess.contains k then
        -- OpenStream fails: `if singleplex { sesh.Close() }`, the datagram is dropped
        if st.single then closeSession st k else st
      else
        let sid := 1 + (st.streams.filter (·.sess == k)).length
        let r : SRec := { id := st.nextId, sess := k, sid, addr := a, closed := false, live := true }
        let st := { st with streams := st.streams ++ [r], nextId := st.nextId + 1, table := (a, r.id) :: st.table }
        writeTo st a r.id pl

/-- the return goroutine of `s` ends: `delete(streams, addr.String())` — whatever is mapped for its address — and `stream.Close()` -/
def retExit (st : St) (s : Nat) : St :=
  match rec? st s with
  | none => st
  | some r =>
    if r.live then
      { st with table := delete st.table r.addr,
                streams := st.streams.map fun x => if x.id == s then { x with closed := true, live := false } else x }
    else st

/-- the return goroutine of `s` got a datagram from the remote: `localConn.WriteTo(buf[:n], proxyAddr)` -/
def streamDatagram (st : St) (s : Nat) (pl : Bytes) (writeToFails : Bool) : St :=
  match rec? st s with
  | none => st
  | some r =>
    if r.live && !r.closed then
      if writeToFails then retExit st s
      else { st with delivs := st.delivs ++ [(s, r.addr, pl)] }
    else st

def step (st : St) : Ev → St
  | .localDatagram a pl b => localDatagram st a pl b
  | .streamDatagram s pl f => streamDatagram st s pl f
  | .retExit s => retExit st s
  | .sessionClosed k => if decide (k < st.nextSess) then closeSession st k else st

def run (st : St) (evs : List Ev) : St := evs.foldl step st

end Route
