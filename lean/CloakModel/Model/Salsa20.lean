import CloakModel.Model.Basic

/-! Salsa20/20 key stream (D. J. Bernstein, "Salsa20 specification"), 32-byte key, 8-byte nonce, 64-bit
little-endian block counter starting at 0 — what `golang.org/x/crypto/salsa20.XORKeyStream` computes for an
8-byte nonce.  Executable reference, core Lean only; validated against x/crypto on every run through the
harness (`obfs.salsa` rows).  The proofs never unfold it: they use the cipher interface of `Model/Codec.lean`. -/

namespace Salsa20

@[inline] def rotl (x : UInt32) (n : UInt32) : UInt32 := (x <<< n) ||| (x >>> (32 - n))

structure St where
  x0 : UInt32
  x1 : UInt32
  x2 : UInt32
  x3 : UInt32
  x4 : UInt32
  x5 : UInt32
  x6 : UInt32
  x7 : UInt32
  x8 : UInt32
  x9 : UInt32
  x10 : UInt32
  x11 : UInt32
  x12 : UInt32
  x13 : UInt32
  x14 : UInt32
  x15 : UInt32

/-- quarterround(y0,y1,y2,y3) of the specification -/
@[inline] def qr (y0 y1 y2 y3 : UInt32) : UInt32 × UInt32 × UInt32 × UInt32 :=
  let z1 := y1 ^^^ rotl (y0 + y3) 7
  let z2 := y2 ^^^ rotl (z1 + y0) 9
  let z3 := y3 ^^^ rotl (z2 + z1) 13
  let z0 := y0 ^^^ rotl (z3 + z2) 18
  (z0, z1, z2, z3)

def columnround (s : St) : St :=
  let (y0, y4, y8, y12) := qr s.x0 s.x4 s.x8 s.x12
  let (y5, y9, y13, y1) := qr s.x5 s.x9 s.x13 s.x1
  let (y10, y14, y2, y6) := qr s.x10 s.x14 s.x2 s.x6
  let (y15, y3, y7, y11) := qr s.x15 s.x3 s.x7 s.x11
  ⟨y0, y1, y2, y3, y4, y5, y6, y7, y8, y9, y10, y11, y12, y13, y14, y15⟩

def rowround (s : St) : St :=
  let (z0, z1, z2, z3) := qr s.x0 s.x1 s.x2 s.x3
  let (z5, z6, z7, z4) := qr s.x5 s.x6 s.x7 s.x4
  let (z10, z11, z8, z9) := qr s.x10 s.x11 s.x8 s.x9
  let (z15, z12, z13, z14) := qr s.x15 s.x12 s.x13 s.x14
  ⟨z0, z1, z2, z3, z4, z5, z6, z7, z8, z9, z10, z11, z12, z13, z14, z15⟩

def doubleround (s : St) : St := rowround (columnround s)

def iter : Nat → St → St
  | 0, s => s
  | n+1, s => iter n (doubleround s)

def le32 (a b c d : UInt8) : UInt32 :=
  a.toUInt32 ||| (b.toUInt32 <<< 8) ||| (c.toUInt32 <<< 16) ||| (d.toUInt32 <<< 24)

def unle32 (w : UInt32) : Bytes :=
  [w.toUInt8, (w >>> 8).toUInt8, (w >>> 16).toUInt8, (w >>> 24).toUInt8]

/-- little-endian words of a byte string whose length is a multiple of four; `none` otherwise -/
def words : Bytes → Option (List UInt32)
  | [] => some []
  | a :: b :: c :: d :: r => (words r).map (le32 a b c d :: ·)
  | _ => none

/-- one 64-byte block of key stream; `none` unless the key has 32 bytes and the nonce 8 -/
def block (key nonce : Bytes) (ctr : Nat) : Option Bytes :=
  match words key, words nonce with
  | some [k0, k1, k2, k3, k4, k5, k6, k7], some [n0, n1] =>
    let c0 : UInt32 := UInt32.ofNat (ctr % 2^32)
    let c1 : UInt32 := UInt32.ofNat (ctr / 2^32 % 2^32)
    let s : St := ⟨0x61707865, k0, k1, k2, k3, 0x3320646e, n0, n1, c0, c1, 0x79622d32, k4, k5, k6, k7, 0x6b206574⟩
    let t := iter 10 s
    some (unle32 (s.x0 + t.x0) ++ unle32 (s.x1 + t.x1) ++ unle32 (s.x2 + t.x2) ++ unle32 (s.x3 + t.x3) ++
          unle32 (s.x4 + t.x4) ++ unle32 (s.x5 + t.x5) ++ unle32 (s.x6 + t.x6) ++ unle32 (s.x7 + t.x7) ++
          unle32 (s.x8 + t.x8) ++ unle32 (s.x9 + t.x9) ++ unle32 (s.x10 + t.x10) ++ unle32 (s.x11 + t.x11) ++
          unle32 (s.x12 + t.x12) ++ unle32 (s.x13 + t.x13) ++ unle32 (s.x14 + t.x14) ++ unle32 (s.x15 + t.x15))
  | _, _ => none

def blocks (key nonce : Bytes) : Nat → Nat → Option Bytes
  | _, 0 => some []
  | ctr, n+1 => do
    let b ← block key nonce ctr
    let r ← blocks key nonce (ctr + 1) n
    pure (b ++ r)

/-- the first `len` bytes of the key stream -/
def stream (key nonce : Bytes) (len : Nat) : Option Bytes :=
  (blocks key nonce 0 ((len + 63) / 64)).map (·.take len)

end Salsa20
