import CloakModel.Model.Basic
import CloakModel.Gen.Replay
import CloakModel.Gen.Auth

/-! Model of the replay memory of `internal/server/state.go` (`registerRandom`, `UsedRandomCleaner`)
as used by `AuthFirstPacket` (`internal/server/auth.go`).

`Replay.stepEv` is parametric in the three things the source decides — the eviction predicate, the
timestamp window and the canonicalisation applied to the registered key — so that theorems can be
stated both about the terms regenerated from the source (`Replay.G.*`, which is also what the driver
executes against the real `AuthFirstPacket`) and about explicit pinned values (the witnesses). -/

namespace Replay

/-- what the replay logic sees of one first packet -/
structure Pkt where
  rand : Bytes     -- the 32 bytes carrying the ephemeral public key (ClientHello.random / hidden[0:32])
  reg  : Bool      -- `processFirstPacket` succeeded, i.e. `registerRandom` is reached
  ok   : Bool      -- the sealed identity block opens under DH(static key, rand), nonce rand[0:12]
  ts   : Int       -- embedded timestamp, whole seconds (meaningful when `ok`)
deriving DecidableEq, Repr

/-- a presentation at server time `now` (ns), or a pass of the cleaner at `now` -/
inductive Ev | present (p : Pkt) (now : Int) | clean (now : Int)
deriving Repr

abbrev Cache := List (Bytes × Int)       -- key ↦ server time (seconds) of the latest sighting

structure St where
  cache : Cache
  acc   : List (Pkt × Int)               -- accepted presentations, oldest first (ghost)
deriving Repr

inductive Out | accept | replay | reject | early
deriving DecidableEq, Repr

def used (c : Cache) (k : Bytes) : Bool := c.any (fun e => decide (e.1 = k))

/-- `r[31] &= mask` on the 32-byte array handed to `registerRandom` (`mask = 255`: the raw bytes) -/
def canon (mask : Nat) (r : Bytes) : Bytes :=
  r.take 31 ++ (r.drop 31).map (fun b => b &&& UInt8.ofNat mask)

/-- `registerRandom`: one test-and-set; the time of sighting is rewritten on every presentation -/
def register (c : Cache) (k : Bytes) (now : Int) : Cache × Bool :=
  ((k, now / 1000000000) :: c.filter (fun e => decide (e.1 ≠ k)), used c k)

/-- `AuthFirstPacket` seen from the cache: register first, then decrypt and test the window -/
def present (keyOf : Bytes → Bytes) (inWin : Int → Int → Bool) (s : St) (p : Pkt) (now : Int) : St × Out :=
  if p.reg = false then (s, .early)
  else
    let (c, u) := register s.cache (keyOf p.rand) now
    if u then (⟨c, s.acc⟩, .replay)
    else if p.ok && inWin p.ts now then (⟨c, s.acc ++ [(p, now)]⟩, .accept)
    else (⟨c, s.acc⟩, .reject)

/-- one pass of `UsedRandomCleaner` at time `now` -/
def clean (evict : Int → Int → Bool) (s : St) (now : Int) : St :=
  ⟨s.cache.filter (fun e => !(evict e.2 now)), s.acc⟩

def stepEv (evict : Int → Int → Bool) (keyOf : Bytes → Bytes) (inWin : Int → Int → Bool) (s : St) : Ev → St
  | .present p now => (present keyOf inWin s p now).1
  | .clean now => clean evict s now

def clockOf : Ev → Int | .present _ n => n | .clean n => n

def init : St := ⟨[], []⟩

/-! ### the instance regenerated from the source -/
namespace G
def inWin (ts now : Int) : Bool := !(Gen.Auth.windowReject ts now)
def keyOf (r : Bytes) : Bytes := canon Gen.Replay.keyMask31 r
def present := Replay.present keyOf inWin
def clean := Replay.clean Gen.Replay.evict
def stepEv := Replay.stepEv Gen.Replay.evict keyOf inWin
def run (h : List Ev) : St := h.foldl stepEv init
end G

/-! ### N simultaneous presentations of one packet: the steps are the critical sections T1 saw -/
inductive Instr | tas | lookup | store
deriving DecidableEq, Repr

/-- program of one presenting goroutine inside `registerRandom`; split in two steps when the
lookup and the store are not inside one critical section -/
def prog (atomic : Bool) : List Instr := if atomic then [.tas] else [.lookup, .store]

structure Th where
  pc   : List Instr
  seen : Option Bool       -- the `used` flag this goroutine read
deriving DecidableEq, Repr

structure CSt where
  present : Bool           -- the key is in the map
  ths : List Th
deriving DecidableEq, Repr

def cinit (atomic : Bool) (wasPresent : Bool) (n : Nat) : CSt := ⟨wasPresent, List.replicate n ⟨prog atomic, none⟩⟩

/-- goroutine `i` performs its next step (no-op if it has finished or does not exist) -/
def cstep (s : CSt) (i : Nat) : CSt :=
  match s.ths[i]? with
  | none => s
  | some t =>
    match t.pc with
    | [] => s
    | .tas :: r => ⟨true, s.ths.set i ⟨r, some s.present⟩⟩
    | .lookup :: r => ⟨s.present, s.ths.set i ⟨r, some s.present⟩⟩
    | .store :: r => ⟨true, s.ths.set i ⟨r, t.seen⟩⟩

def crun (atomic : Bool) (wasPresent : Bool) (n : Nat) (sched : List Nat) : CSt := sched.foldl cstep (cinit atomic wasPresent n)

/-- how many goroutines were told "not used" (and so go on to authenticate the packet) -/
def fresh (s : CSt) : Nat := (s.ths.filter (fun t => t.seen == some false)).length
def finished (s : CSt) : Nat := (s.ths.filter (fun t => t.pc == [])).length

end Replay
