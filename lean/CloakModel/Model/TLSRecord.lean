import CloakModel.Model.Basic
import CloakModel.Gen.Record

/-! Model of `internal/common/tls.go`: `TLSConn.Read` / `TLSConn.Write` over a byte stream that
arrives in arbitrary chunks (TCP segmentation), and of several goroutines calling `Write`.

Everything that is a constant, comparison, slice bound, "ReadFull or Read" choice, or a count of
underlying writes in the Go source comes from `Gen.Record` (regenerated from /repo on every run):
the model *uses* those terms, so the theorems of `Props/C05.lean` are about what the code says now. -/

namespace Rec
open Gen.Record

/-- inbound side of a connection: the chunks in which the bytes arrive; the end of the list is EOF -/
abbrev Chunks := List Bytes

/-- `io.ReadFull(conn, b)` with `len b = n`: keep reading chunks until `n` bytes are gathered;
`none` = EOF before `n` bytes (everything that was there has been consumed) -/
def readFull : Nat → Chunks → Option (Bytes × Chunks)
  | 0, cs => some ([], cs)
  | _+1, [] => none
  | n+1, c :: cs =>
    if c.length ≤ n + 1 then
      match readFull (n + 1 - c.length) cs with
      | some (r, rest) => some (c ++ r, rest)
      | none => none
    else some (c.take (n + 1), c.drop (n + 1) :: cs)

/-- implementation of `readFull` for the compiled driver: the "does the chunk fit" test walks at most `n+1`
cells instead of the whole chunk (matters when a long chunk is consumed byte by byte); proved equal below -/
def readFullImpl : Nat → Chunks → Option (Bytes × Chunks)
  | 0, cs => some ([], cs)
  | _+1, [] => none
  | n+1, c :: cs =>
    if (c.drop (n + 1)).isEmpty then
      match readFullImpl (n + 1 - c.length) cs with
      | some (r, rest) => some (c ++ r, rest)
      | none => none
    else some (c.take (n + 1), c.drop (n + 1) :: cs)

@[csimp] theorem readFull_eq_impl : @readFull = @readFullImpl := by
  funext n cs
  induction cs generalizing n with
  | nil => cases n <;> rfl
  | cons c cs ih =>
    cases n with
    | zero => rfl
    | succ n =>
      unfold readFull readFullImpl
      have : (c.drop (n + 1)).isEmpty = decide (c.length ≤ n + 1) := by
        rw [Bool.eq_iff_iff]; simp [List.isEmpty_iff, List.drop_eq_nil_iff]
      rw [this, ih]
      simp only [decide_eq_true_eq]

/-- one plain `conn.Read(b)` with `len b = n`: whatever the next chunk holds, at most `n` bytes -/
def readOnce : Nat → Chunks → Option (Bytes × Chunks)
  | 0, cs => some ([], cs)
  | _+1, [] => none
  | n+1, c :: cs => if c.length ≤ n + 1 then some (c, cs) else some (c.take (n + 1), c.drop (n + 1) :: cs)

/-- the read primitive the source uses at a given site (`Gen.Record.tlsRead*Full`) -/
def readWith (full : Bool) (n : Nat) (cs : Chunks) : Option (Bytes × Chunks) :=
  if full then readFull n cs else readOnce n cs

inductive RErr | shortBuf | eof | oversize deriving DecidableEq, Repr

deriving instance DecidableEq for Except

/-- length of the Go slice `b[lo:hi]` -/
def sliceLen (lo hi : Int) : Nat := (hi - lo).toNat

/-- the declared length: `int(binary.BigEndian.Uint16(buffer[tlsReadLenLo:tlsReadLenHi]))` of a buffer
whose first bytes are `hdr` (a fresh caller buffer is zero beyond what was read) -/
def declaredLen (hdr : Bytes) : Nat :=
  let buf := hdr ++ List.replicate (tlsReadLenHi.toNat - hdr.length) 0
  beNat ((buf.drop tlsReadLenLo.toNat).take (sliceLen tlsReadLenLo tlsReadLenHi))

/-- `TLSConn.Read(buffer)` with `len(buffer) = bufLen`; returns the outcome and what is left in the
connection.  After an EOF nothing is left; after `oversize` the header has been consumed. -/
def tlsRead (bufLen : Nat) (cs : Chunks) : Except RErr Bytes × Chunks :=
  if tlsReadShortBuf bufLen then (.error .shortBuf, cs) else
  match readWith tlsReadHdrFull (sliceLen (tlsReadHdrLo 0 bufLen) (tlsReadHdrHi 0 bufLen)) cs with
  | none => (.error .eof, [])
  | some (hdr, rest) =>
    let len := declaredLen hdr
    if tlsReadOversize len bufLen then (.error .oversize, rest) else
    match readWith tlsReadBodyFull (sliceLen (tlsReadBodyLo len bufLen) (tlsReadBodyHi len bufLen)) rest with
    | none => (.error .eof, [])
    | some (body, rest') => (.ok body, rest')

/-- successive reads with caller buffers of the given sizes -/
def readAll : List Nat → Chunks → List (Except RErr Bytes)
  | [], _ => []
  | b :: bs, cs => (tlsRead b cs).1 :: readAll bs (tlsRead b cs).2

/-! ### writing -/

/-- the five header bytes `TLSConn.Write` puts before a message of length `n`: the pooled prefix
(`tlsWritePrefix`) then `byte(msgLen>>8), byte(msgLen&0xFF)` -/
def hdrOf (n : Nat) : Bytes :=
  tlsWritePrefix.map UInt8.ofNat ++ [UInt8.ofNat (tlsWriteLenHi n).toNat, UInt8.ofNat (tlsWriteLenLo n).toNat]

def record (m : Bytes) : Bytes := hdrOf m.length ++ m

/-- the underlying `Conn.Write` calls of one `TLSConn.Write(m)` when the source contains `k` of them:
none when the message is refused; the whole record for `k = 1`; header and body separately otherwise
(the only other shape the model knows: `k = 2`) -/
def pieces (k : Nat) (m : Bytes) : List Bytes :=
  if tlsWriteTooLong m.length then [] else if k = 1 then [record m] else [hdrOf m.length, m]

/-- `TLSConn.Write(m)` as the source has it -/
def tlsWrite (m : Bytes) : Option (List Bytes) :=
  if tlsWriteTooLong m.length then none else some (pieces tlsWriteSingleWrite m)

/-! ### concurrent writers
Each goroutine `i` runs a program (a list of messages, one `Write` each).  An atomic step of the
system is one underlying `Conn.Write` (atomic by the environment assumption on `net.Conn`).  A
schedule is any list of writer numbers; a writer with nothing left to do idles. -/

abbrev Pend := Nat → List Bytes

def pendOf (k : Nat) (progs : List (List Bytes)) : Pend :=
  fun i => match progs[i]? with
    | some p => p.flatMap (pieces k)
    | none => []

/-- the wire log: (writer, bytes of one underlying write) in the order they hit the connection -/
abbrev Log := List (Nat × Bytes)

def stepW (st : Pend × Log) (i : Nat) : Pend × Log :=
  match st.1 i with
  | [] => st
  | p :: ps => (fun j => if j = i then ps else st.1 j, st.2 ++ [(i, p)])

def runW (pend : Pend) (sched : List Nat) : Pend × Log := sched.foldl stepW (pend, [])

/-- the bytes on the wire -/
def wire (l : Log) : Bytes := (l.map (·.2)).flatten

end Rec
