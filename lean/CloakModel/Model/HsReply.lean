import CloakModel.Model.ClientHello

/-! The server's handshake reply and how the client reads it.

* direct transport: `composeServerHello` / `composeReply` / `addRecordLayer` (`internal/server/TLSAux.go`),
  `TLS.makeResponder` (`TLS.go`), and on the client `DirectTLS.Handshake` (`internal/client/TLS.go`): first
  record read into a 1024-byte buffer, `buf[6:38] ‖ buf[84:116]` = nonce(12) ‖ sealed key(48);
* CDN transport: `WebSocket.makeResponder` (`websocket.go`): one binary message `nonce ‖ sealed key`, and
  `WSOverTLS.Handshake` (`client/websocket.go`): exactly 60 bytes, `[:12]` / `[12:]`.
All literals and offsets are `Gen.Handshake.*`. -/

namespace HS
open Gen.Handshake

def u8s (l : List Nat) : Bytes := l.map UInt8.ofNat

/-- `addRecordLayer(input, typ, ver)` -/
def addRecordLayer (typ ver input : Bytes) : Bytes := typ ++ ver ++ beBytes 2 input.length ++ input

/-- the 32-byte key share of the ServerHello: sealed key bytes, then 4 random bytes (`pad`) -/
def keyExchange (ek pad : Bytes) : Bytes :=
  let k0 := zeros shKeyExchangeLen
  let k1 := blit k0 0 shKeyExchangeLen (slice ek shKsKeyLo shKsKeyHi)
  blit k1 shKsPadLo shKsPadHi pad

/-- `composeServerHello(sessionId, nonce, encryptedSessionKeyWithTag)`; `pad` = the 4 bytes drawn by
`CryptoRandRead` -/
def composeServerHello (sid nonce ek pad : Bytes) : Bytes :=
  u8s shPiece0 ++ u8s shPiece1 ++ u8s shPiece2 ++
  (slice nonce shRandNonceLo shRandNonceHi ++ slice ek shRandKeyLo shRandKeyHi) ++
  u8s shPiece4 ++ sid ++ u8s shPiece6 ++ u8s shPiece7 ++ u8s shPiece8 ++
  (u8s shKeyShareHdr ++ keyExchange ek pad) ++ u8s shPiece10

/-- `composeReply`: ServerHello, ChangeCipherSpec and one application-data record; `none` = the
extractor saw a different record list than the three this model knows -/
def composeReply (sid nonce ek cert pad : Bytes) : Option Bytes :=
  match replyRecTypes, replyRecInputs with
  | [t1, t2, t3], ["sh", "[]byte{0x01}", "cert"] =>
    let v := u8s replyVersion
    some (addRecordLayer [UInt8.ofNat t1] v (composeServerHello sid nonce ek pad) ++
          addRecordLayer [UInt8.ofNat t2] v [1] ++
          addRecordLayer [UInt8.ofNat t3] v cert)
  | _, _ => none

/-- `TLS.makeResponder`: what is written to the connection for session key `key` -/
def tlsReply (C : Crypto) (sid shared key nonce cert pad : Bytes) : Option Bytes :=
  composeReply sid (fit 12 nonce) (fit 48 (C.gcmSeal shared (fit 12 nonce) key)) cert pad

/-- `TLSConn.Read` of the first record into a buffer of `cReplyBufLen` bytes (all else zero);
`none` = read error -/
def firstRecordBuf (reply : Bytes) : Option Bytes :=
  if reply.length < 5 then none
  else
    let dl := beNat (slice reply 3 5)
    if dl > cReplyBufLen then none
    else if reply.length < 5 + dl then none
    else some (fit cReplyBufLen (slice reply 5 (5 + dl)))

/-- `DirectTLS.Handshake`: nonce and sealed key as located by the client's fixed offsets -/
def clientExtract (reply : Bytes) : Option (Bytes × Bytes) :=
  match firstRecordBuf reply with
  | none => none
  | some buf =>
    let encrypted := slice buf cReplyRandLo cReplyRandHi ++ slice buf cReplyKsLo cReplyKsHi
    some (slice encrypted cReplyNonceLo cReplyNonceHi, slice encrypted cReplyCtLo cReplyCtHi)

/-- the session key the direct client ends up with; `none` = it returns an error -/
def tlsClientKey (C : Crypto) (shared reply : Bytes) : Option Bytes :=
  match clientExtract reply with
  | none => none
  | some (n, c) => (C.gcmOpen shared n c).map (fit 32)

/-- `WebSocket.makeResponder`: the binary message -/
def wsReply (C : Crypto) (shared key nonce : Bytes) : Bytes :=
  let n := fit wsReplyNonceLen nonce
  n ++ C.gcmSeal shared n key

/-- `WSOverTLS.Handshake` on the first binary message -/
def wsClientKey (C : Crypto) (shared msg : Bytes) : Option Bytes :=
  if msg.length ≠ cWsReplyLen then none
  else
    let reply := slice msg cWsReplyLo cWsReplyHi
    (C.gcmOpen shared (slice reply cWsNonceLo cWsNonceHi) (reply.drop cWsCtLo)).map (fit 32)

/-! ### structural ClientHello and its serialisation (what uTLS is assumed to emit) -/

structure Ext where
  typ : Nat
  data : Bytes
deriving DecidableEq, Repr

structure CH where
  version : Bytes           -- 2 bytes
  random : Bytes            -- 32 bytes
  sid : Bytes
  suites : Bytes
  comp : Bytes
  exts : List Ext
deriving DecidableEq, Repr

def be16 (x : Nat) : Bytes := [UInt8.ofNat (x / 256), UInt8.ofNat (x % 256)]
def serExt (e : Ext) : Bytes := be16 e.typ ++ be16 e.data.length ++ e.data
def serExts (es : List Ext) : Bytes := (es.map serExt).flatten

def chBody (ch : CH) : Bytes :=
  ch.version ++ ch.random ++ [UInt8.ofNat ch.sid.length] ++ ch.sid ++ be16 ch.suites.length ++ ch.suites ++
  [UInt8.ofNat ch.comp.length] ++ ch.comp ++ be16 (serExts ch.exts).length ++ serExts ch.exts

/-- the handshake message: type 1, 24-bit length, body -/
def serializeCH (ch : CH) : Bytes := [1] ++ beBytes 3 (chBody ch).length ++ chBody ch

/-- `common.AddRecordLayer(ch, Handshake, VersionTLS11)` on the client -/
def record22 (msg : Bytes) : Bytes :=
  [UInt8.ofNat cHelloRecType] ++ beBytes 2 cHelloRecVer ++ beBytes 2 msg.length ++ msg

/-- one `KeyShareEntry` -/
structure KsEntry where
  group : Nat
  key : Bytes
deriving DecidableEq, Repr

def serKs (e : KsEntry) : Bytes := be16 e.group ++ be16 e.key.length ++ e.key
def ksData (es : List KsEntry) : Bytes := be16 ((es.map serKs).flatten).length ++ (es.map serKs).flatten

end HS
