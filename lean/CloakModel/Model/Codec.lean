import CloakModel.Model.Basic
import CloakModel.Gen.Codec

/-! Model of `internal/multiplex/obfs.go`: `Obfuscator.obfuscate` / `Obfuscator.deobfuscate`
(Cloak v2 frame layout) and of the decode step of `Session.recvDataFromRemote`.

Every constant, bound, guard and slice limit is the term the extractor translated from the Go source
(`Gen.Codec.*`); Boolean call-site facts (AAD is nil, the cipher works in place, statement order) are
pinned by `C04.gen_structure`.  Go slice expressions are *checked* slices: a failing one is the explicit
`panic` outcome.  The ciphers are an interface (`Crypto`); what proofs may assume about them is the
separate structure `Lawful`.  The model is functional: "the payload already sits in the buffer"
(`payloadOffsetInBuf = frameHeaderLength`) and "the payload is copied in" are the same function here;
that equivalence is checked on the real code by T2 only. -/

namespace Codec
open Gen.Codec

/-- an AEAD as `cipher.AEAD` presents it -/
structure Aead where
  overhead : Nat
  nonceSize : Nat
  /-- key nonce plaintext additionalData -/
  aseal : Bytes → Bytes → Bytes → Bytes → Bytes
  /-- key nonce ciphertext additionalData; `none` = authentication failed -/
  aopen : Bytes → Bytes → Bytes → Bytes → Option Bytes

/-- `aead = none` is `payloadCipher == nil` (EncryptionMethodPlain); `stream key nonce n` is the first `n`
bytes of the Salsa20 key stream -/
structure Crypto where
  aead : Option Aead
  stream : Bytes → Bytes → Nat → Bytes

structure Frame where
  sid : Nat
  seq : Nat
  closing : UInt8
  payload : Bytes
deriving DecidableEq, Repr

def xor (a b : Bytes) : Bytes := List.zipWith (· ^^^ ·) a b

/-- Go `b[lo:hi]` (with `len` in place of `cap`, i.e. at least as strict); `none` = run-time panic -/
def gslice (b : Bytes) (lo hi : Int) : Option Bytes :=
  if 0 ≤ lo ∧ lo ≤ hi ∧ hi ≤ (b.length : Int) then some ((b.drop lo.toNat).take (hi - lo).toNat) else none

/-- Go `b[i]`; `none` = run-time panic -/
def gidx (b : Bytes) (i : Int) : Option UInt8 :=
  if 0 ≤ i then b[i.toNat]? else none

/-- overwrite `v.length` bytes of `buf` starting at `lo` (`copy(buf[lo:], v)` when it fits) -/
def putAt (buf : Bytes) (lo : Nat) (v : Bytes) : Bytes := buf.take lo ++ v ++ buf.drop (lo + v.length)

def tagLenOf (C : Crypto) : Nat :=
  match C.aead with
  | some a => a.overhead
  | none => tagLenPlain.toNat

/-- the 14 header bytes before masking: the four stores of `obfuscate` into a zeroed header.
`extra` is the argument of the `byte(..)` conversion. -/
def header (f : Frame) (extra : Int) : Bytes :=
  let z : Bytes := List.replicate headerHi.toNat 0
  let b1 := putAt z hdrSidLo.toNat (beBytes 4 f.sid)
  let b2 := putAt b1 hdrSeqLo.toNat (beBytes 8 f.seq)
  let b3 := putAt b2 hdrClosingIdx.toNat [f.closing]
  putAt b3 hdrExtraIdx.toNat [UInt8.ofNat extra.toNat]

inductive OOut
  | ok (msg : Bytes)
  | errEmpty
  | errSmall
  | panic
deriving DecidableEq, Repr

/-- the pad length `obfuscate` uses when `common.RandInt` returned `padDraw` -/
def padLenOf (f : Frame) (padDraw : Nat) : Nat := if padGuard f.seq then padDraw else 0

/-- `buf[:usefulLen]` right before the cipher call: header stores, payload in place, `rand.Read` over
`buf[randLo:randHi]` (the bytes it produced are `rnd`) -/
def obfBuf (f : Frame) (padLen tagLen : Nat) (rnd : Bytes) : Bytes :=
  let useful := (usefulLen f.payload.length padLen tagLen).toNat
  let b0 : Bytes := List.replicate useful 0
  let b1 := putAt b0 0 (header f (extraByte padLen tagLen))
  let b2 := putAt b1 payloadLo.toNat f.payload
  putAt b2 (randLo f.payload.length).toNat rnd

/-- the cipher step and the header mask, given the buffer prepared by `obfBuf`; `sealed` is what the AEAD
returned for the query `(key, nonce, plaintext, nil)` computed by `obfQuery` -/
def obfFinish (C : Crypto) (key : Bytes) (buf : Bytes) (useful : Int) (sealed : Option Bytes) : OOut :=
  let buf' := match sealed with
    | some ct => putAt buf payloadLo.toNat ct
    | none => buf
  match gslice buf' 0 headerHi, gslice buf' (salsaNonceLo useful) (salsaNonceHi useful) with
  | some hdr, some nonce =>
    match gslice (putAt buf' 0 (xor hdr (C.stream key nonce hdr.length))) 0 useful with
    | some m => .ok m
    | none => .panic
  | _, _ => .panic

/-- the AEAD query of `obfuscate`: nonce `header[sealNonceLo:sealNonceHi]`, plaintext `buf[payloadLo:payloadHi]` -/
def obfQuery (a : Aead) (buf : Bytes) (payloadLen padLen : Int) : Option (Bytes × Bytes) :=
  match gslice buf 0 headerHi with
  | none => none
  | some hdr =>
    match gslice hdr sealNonceLo (sealNonceHi a.nonceSize), gslice buf payloadLo (payloadHi payloadLen padLen) with
    | some n, some pt => some (n, pt)
    | _, _ => none

inductive OPreOut
  | go (buf : Bytes) (useful payloadLen padLen : Int)
  | errEmpty
  | errSmall

/-- everything `obfuscate` does before the cipher call -/
def obfPre (tagLen : Nat) (f : Frame) (bufLen : Nat) (padDraw : Nat) (rnd : Bytes) : OPreOut :=
  let payloadLen : Int := f.payload.length
  if emptyPayload payloadLen then .errEmpty else
  let padLen := padLenOf f padDraw
  let useful := usefulLen payloadLen padLen tagLen
  if bufTooSmall bufLen useful then .errSmall else
  .go (obfBuf f padLen tagLen rnd) useful payloadLen padLen

/-- `Obfuscator.obfuscate(f, buf, off)` with `len(buf) = bufLen`; `padDraw` is the value `common.RandInt`
returned (used only when the pad guard holds), `rnd` the bytes `rand.Read` produced.  Returns `buf[:n]`. -/
def obfuscate (C : Crypto) (key : Bytes) (f : Frame) (bufLen : Nat) (padDraw : Nat) (rnd : Bytes) : OOut :=
  match obfPre (tagLenOf C) f bufLen padDraw rnd with
  | .errEmpty => .errEmpty
  | .errSmall => .errSmall
  | .go buf useful payloadLen padLen =>
    match C.aead with
    | none => obfFinish C key buf useful none
    | some a =>
      match obfQuery a buf payloadLen padLen with
      | none => .panic
      | some (n, pt) => obfFinish C key buf useful (some (a.aseal key n pt []))

inductive DOut
  | ok (f : Frame)
  | errShort
  | errExtra
  | errAuth
  | panic
deriving DecidableEq, Repr

/-- everything `deobfuscate` does before the cipher call -/
structure DPre where
  hdr : Bytes       -- header with the Salsa20 mask removed
  pld : Bytes       -- pldWithOverHead
  sid : Nat
  seq : Nat
  closing : UInt8
  extra : UInt8
  useful : Int      -- usefulPayloadLen

inductive DPreOut
  | go (p : DPre)
  | errShort
  | errExtra
  | panic

def deobfPre (C : Crypto) (key : Bytes) (msg : Bytes) : DPreOut :=
  if deobfTooShort msg.length then .errShort else
  match gslice msg 0 deobfHeaderHi, gslice msg deobfPldLo msg.length, gslice msg (deobfSalsaNonceLo msg.length) msg.length with
  | some hdrEnc, some pld, some nonce =>
    let hdr := xor hdrEnc (C.stream key nonce hdrEnc.length)
    match gslice hdr deobfSidLo deobfSidHi, gslice hdr deobfSeqLo deobfSeqHi, gidx hdr deobfClosingIdx, gidx hdr deobfExtraIdx with
    | some sidB, some seqB, some closing, some extra =>
      let useful := deobfUseful pld.length extra.toNat
      if deobfExtraBad useful pld.length then .errExtra
      else .go ⟨hdr, pld, beNat sidB, beNat seqB, closing, extra, useful⟩
    | _, _, _, _ => .panic
  | _, _, _ => .panic

/-- the AEAD query of `deobfuscate`: nonce `header[openNonceLo:openNonceHi]`, ciphertext `pldWithOverHead`;
`none` = the nonce slice panics -/
def deobfQuery (a : Aead) (p : DPre) : Option (Bytes × Bytes) :=
  (gslice p.hdr openNonceLo (openNonceHi a.nonceSize)).map (·, p.pld)

/-- the part of `deobfuscate` after the cipher call.  `opened` is the AEAD's answer (`none` for the plain
method, `some none` = authentication failure, `some (some pt)` = plaintext).  `Open` works in place, so
after success the buffer holds the plaintext followed by the untouched rest of the ciphertext. -/
def deobfFinish (p : DPre) (opened : Option (Option Bytes)) : DOut :=
  match opened with
  | none =>
    if plainWholeCond p.extra.toNat then .ok ⟨p.sid, p.seq, p.closing, p.pld⟩
    else match gslice p.pld 0 (plainOutHi p.useful) with
      | some out => .ok ⟨p.sid, p.seq, p.closing, out⟩
      | none => .panic
  | some none => .errAuth
  | some (some pt) =>
    match gslice (pt ++ p.pld.drop pt.length) 0 (aeadOutHi p.useful) with
    | some out => .ok ⟨p.sid, p.seq, p.closing, out⟩
    | none => .panic

/-- `Obfuscator.deobfuscate(f, in)` -/
def deobfuscate (C : Crypto) (key : Bytes) (msg : Bytes) : DOut :=
  match deobfPre C key msg with
  | .errShort => .errShort
  | .errExtra => .errExtra
  | .panic => .panic
  | .go p =>
    match C.aead with
    | none => deobfFinish p none
    | some a =>
      match deobfQuery a p with
      | none => .panic
      | some (n, ct) => deobfFinish p (some (a.aopen key n ct []))

/-- the decode step of `Session.recvDataFromRemote` followed by "whatever the session does with a frame"
(`deliver`): by `Gen.Codec.recvErrReturnsFirst` a decode error returns before the session is touched, and by
`Gen.Codec.deplexContinues` the connection keeps being read. -/
def recv {σ : Type} (C : Crypto) (key : Bytes) (deliver : σ → Frame → σ) (s : σ) (msg : Bytes) : σ :=
  match deobfuscate C key msg with
  | .ok f => deliver s f
  | _ => s

/-- what the proofs may assume about the ciphers -/
structure Lawful (C : Crypto) : Prop where
  stream_len : ∀ k n l, (C.stream k n l).length = l
  unseal_seal : ∀ a : Aead, C.aead = some a → ∀ k n p : Bytes, a.aopen k n (a.aseal k n p []) [] = some p
  seal_len : ∀ a : Aead, C.aead = some a → ∀ k n p : Bytes, (a.aseal k n p []).length = p.length + a.overhead
  /-- the Salsa20 nonce is cut from the tag: every supported AEAD has a tag of at least that size -/
  tag_ge : ∀ a : Aead, C.aead = some a → salsa20NonceSize ≤ (a.overhead : Int)
  /-- tag plus padding must fit the one-byte extra-length field -/
  tag_le : ∀ a : Aead, C.aead = some a → (a.overhead : Int) ≤ maxExtraLen
  /-- `MakeObfuscator` refuses a cipher whose nonce is longer than the header -/
  nonce_ok : ∀ a : Aead, C.aead = some a → nonceTooLong a.nonceSize = false

end Codec
