import CloakModel.Model.Stream
import CloakModel.Props.C02

/-! Lemmas for C03: bridging the extracted facts used by `Model/Stream.lean`, and the invariant of the
receiving side of a stream (`J`): while the stream is open its receive buffer is the C02
specification buffer (so the in-order prefix invariant of `Lemmas/ReorderCore.lean` applies); once it
is closed — by the peer's closing frame applied in sequence order, or locally — the bytes read plus
the bytes buffered are frozen. -/
set_option linter.unusedVariables false
set_option linter.unusedSimpArgs false

namespace ST
open RB (Frame W)

/-! ### extracted facts -/

theorem gen_flags :
    Gen.StreamClose.closesRecvBuf = true ∧ Gen.StreamClose.writeChecksClosed = true ∧
    Gen.StreamClose.readMapsEOF = true ∧ Gen.StreamClose.tombstones = true := by decide

theorem gen_pipe_eof (c : Bool) (n : Nat) :
    Gen.StreamClose.pipeEOF c (n : Int) = true ↔ (c = true ∧ n = 0) := by
  unfold Gen.StreamClose.pipeEOF
  simp only [Bool.and_eq_true, decide_eq_true_eq]
  constructor
  · rintro ⟨h1, h2⟩; exact ⟨h1, by omega⟩
  · rintro ⟨h1, h2⟩; exact ⟨h1, by omega⟩

/-- the pipe read of this model is the pipe read of the C02 model -/
theorem pipeRead_eq (sb : RB.SB) (k : Nat) : pipeRead sb k = RB.read sb k := by
  unfold pipeRead RB.read
  by_cases h : sb.closed = true ∧ sb.buf = []
  · have : Gen.StreamClose.pipeEOF sb.closed (sb.buf.length : Nat) = true := by
      rw [gen_pipe_eof]; exact ⟨h.1, by simp [h.2]⟩
    rw [if_pos this, if_pos h]
  · have : ¬ Gen.StreamClose.pipeEOF sb.closed (sb.buf.length : Nat) = true := by
      rw [gen_pipe_eof]; intro hh; exact h ⟨hh.1, List.length_eq_zero_iff.1 hh.2⟩
    simp only [this, if_neg h]
    simp

theorem closeRecv_eq (rb : RB.SB) : closeRecv rb = RB.close rb := by
  simp [closeRecv, gen_flags.1]

/-! ### operations of one side -/

inductive Op | recv (f : Frame) | read (k : Nat) | close (pad : Bytes) | write (d : Bytes)

def step (mtu : Nat) (s : Side) : Op → Side
  | .recv f => (recv s f).1
  | .read k => (read s k).1
  | .close p => (close s p).1
  | .write d => (write mtu s d).1

def run (mtu : Nat) (ops : List Op) : Side := ops.foldl (step mtu) init

def recvs : List Op → List Frame
  | [] => []
  | .recv f :: r => f :: recvs r
  | _ :: r => recvs r

def Op.isClose : Op → Bool
  | .close _ => true
  | _ => false

/-! ### the invariant of the receiving side -/

section
variable (pl : Nat → Bytes) (c : Nat)

/-- `A` = numbers delivered so far, `lc` = a local `Close` has been made -/
structure J (A : List Nat) (lc : Bool) (s : Side) : Prop where
  opn : s.closed = false → s.tomb = false ∧ s.rb.closed = false ∧ RC.Inv pl c (c + 1) A (C02.core s.rb)
  cls : s.closed = true → s.tomb = true ∧ s.rb.closed = true ∧
          ∃ m, m ≤ c ∧ s.rb.out ++ s.rb.buf = RC.prefixData pl m ∧ (lc = false → m = c)

theorem J_mono {A A' : List Nat} {lc lc' : Bool} {s : Side} (h : J pl c A lc s) (hcl : s.closed = true)
    (hl : lc' = false → lc = false) : J pl c A' lc' s := by
  refine ⟨(by intro h0; rw [hcl] at h0; cases h0), ?_⟩
  intro _
  obtain ⟨h1, h2, m, hm, hd, hmc⟩ := h.cls hcl
  exact ⟨h1, h2, m, hm, hd, fun h0 => hmc (hl h0)⟩

theorem read_closed_pipe (rb : RB.SB) (k : Nat) (hcl : rb.closed = true) :
    (RB.read rb k).1.closed = true ∧ (RB.read rb k).1.out ++ (RB.read rb k).1.buf = rb.out ++ rb.buf ∧
    (RB.read rb k).2 ≠ .block := by
  unfold RB.read
  by_cases hb : rb.buf = []
  · simp [hcl, hb]
  · simp [hcl, hb, List.append_assoc]

theorem read_fst (s : Side) (k : Nat) (hk : k ≠ 0) :
    (read s k).1 = { s with rb := (RB.read s.rb k).1 } := by
  unfold read
  rw [if_neg hk, pipeRead_eq]
  rcases h : RB.read s.rb k with ⟨rb', o⟩
  cases o <;> simp

theorem step_J (hc : c + 1 < W) (mtu : Nat) (A : List Nat) (lc : Bool) (s : Side) (op : Op)
    (hJ : J pl c A lc s) (hA : ∀ j ∈ A, j < c + 1)
    (hop : ∀ f, op = .recv f → f = RC.fr pl c f.seq ∧ f.seq ≤ c ∧ f.seq ∉ A) :
    J pl c ((recvs [op]).map (·.seq) ++ A) (lc || op.isClose) (step mtu s op) := by
  cases op with
  | write d =>
    simp only [recvs, List.map_nil, List.nil_append, Op.isClose, Bool.or_false, step]
    unfold write
    split
    · exact hJ
    · exact ⟨hJ.opn, hJ.cls⟩
  | read k =>
    simp only [recvs, List.map_nil, List.nil_append, Op.isClose, Bool.or_false, step]
    by_cases hk : k = 0
    · subst hk; simp [read]; exact hJ
    · rw [read_fst s k hk]
      refine ⟨?_, ?_⟩
      · intro h0
        obtain ⟨h1, h2, h3⟩ := hJ.opn h0
        have hs := C02.read_sim s.rb k h2
        refine ⟨h1, ?_, ?_⟩
        · show (RB.read s.rb k).1.closed = false
          rw [hs]; rfl
        · show RC.Inv pl c (c + 1) A (C02.core (RB.read s.rb k).1)
          rw [hs]
          exact RC.read_inv pl c (c + 1) A _ k h3
      · intro h0
        obtain ⟨h1, h2, m, hm, hd, hmc⟩ := hJ.cls h0
        obtain ⟨r1, r2, _⟩ := read_closed_pipe s.rb k h2
        exact ⟨h1, r1, m, hm, by show (RB.read s.rb k).1.out ++ (RB.read s.rb k).1.buf = _; rw [r2]; exact hd, hmc⟩
  | close pad =>
    simp only [recvs, List.map_nil, List.nil_append, Op.isClose, Bool.or_true, step]
    unfold close
    by_cases h0 : s.closed = true
    · simp only [h0, if_true]
      exact J_mono pl c hJ h0 (by intro h; cases h)
    · have h0' : s.closed = false := by simpa using h0
      obtain ⟨h1, h2, h3⟩ := hJ.opn h0'
      simp only [h0', Bool.false_eq_true, if_false]
      refine ⟨(by intro h; cases h), ?_⟩
      intro _
      refine ⟨by simp [gen_flags.2.2.2], by rw [closeRecv_eq]; rfl, (C02.core s.rb).next, ?_, ?_, by intro h; cases h⟩
      · -- the closing number itself is never consumed as data
        have hb := h3.bound
        rcases Nat.lt_or_ge (C02.core s.rb).next (c + 1) with h | h
        · omega
        · have := (h3.below c (by omega)).2
          exact absurd rfl this
      · rw [closeRecv_eq]
        exact h3.data
  | recv f =>
    simp only [recvs, List.map_cons, List.map_nil, List.cons_append, List.nil_append, Op.isClose, Bool.or_false, step]
    obtain ⟨hfeq, hfle, hfA⟩ := hop f rfl
    by_cases h0 : s.closed = true
    · -- already closed: the table entry is a tombstone, the frame is dropped
      obtain ⟨h1, h2, hrest⟩ := hJ.cls h0
      have : (recv s f).1 = s := by unfold recv; simp [h1]
      rw [this]
      exact J_mono pl c hJ h0 (fun h => h)
    · have h0' : s.closed = false := by simpa using h0
      obtain ⟨h1, h2, h3⟩ := hJ.opn h0'
      have hsim := C02.write_sim s.rb f h2
      have hspec := RC.write_spec pl c (c + 1) hc A f.seq (by omega) hfA hA (C02.core s.rb) h3
      rw [← hfeq] at hspec
      unfold recv
      simp only [h1, Bool.false_eq_true, if_false, hsim]
      rcases hres : RC.write (C02.core s.rb) f with ⟨sb', o⟩
      cases o with
      | ok =>
        simp only
        refine ⟨?_, by intro h; rw [h0'] at h; cases h⟩
        intro _
        exact ⟨rfl, rfl, hspec.1 sb' hres⟩
      | errOld => exact absurd hres (hspec.2.2 sb')
      | close =>
        simp only [h0', Bool.false_eq_true, if_false]
        have hcl := hspec.2.1 sb' hres
        refine ⟨(by intro h; cases h), ?_⟩
        intro _
        refine ⟨by simp [gen_flags.2.2.2], by rw [closeRecv_eq]; rfl, c, Nat.le_refl _, ?_, fun _ => rfl⟩
        rw [closeRecv_eq]
        exact hcl.data

theorem run_J (hc : c + 1 < W) (mtu : Nat) : ∀ (ops : List Op) (A : List Nat) (lc : Bool) (s : Side),
    J pl c A lc s → (∀ j ∈ A, j < c + 1) →
    (∀ f ∈ recvs ops, f = RC.fr pl c f.seq ∧ f.seq ≤ c ∧ f.seq ∉ A) →
    ((recvs ops).map (·.seq)).Nodup →
    J pl c (((recvs ops).map (·.seq)).reverse ++ A) (lc || ops.any Op.isClose) (ops.foldl (step mtu) s) := by
  intro ops
  induction ops with
  | nil => intro A lc s h _ _ _; simpa [recvs] using h
  | cons op rest ih =>
    intro A lc s hJ hA hfr hnd
    simp only [List.foldl_cons, List.any_cons]
    have hstep := step_J pl c hc mtu A lc s op hJ hA (by
      intro f hf; subst hf
      exact hfr f (by simp [recvs]))
    cases op with
    | recv f =>
      simp only [recvs, List.map_cons, List.nodup_cons] at hfr hnd hstep ⊢
      have hf := hfr f (by simp)
      have := ih (f.seq :: A) (lc || Op.isClose (.recv f)) (step mtu s (.recv f)) (by simpa using hstep)
        (by intro j hj; rcases List.mem_cons.1 hj with rfl | hj
            · omega
            · exact hA j hj)
        (by intro g hg
            have hg' := hfr g (by simp [hg])
            refine ⟨hg'.1, hg'.2.1, ?_⟩
            intro hmem
            rcases List.mem_cons.1 hmem with h | h
            · exact hnd.1 (List.mem_map.2 ⟨g, hg, h⟩)
            · exact hg'.2.2 h)
        hnd.2
      simpa [Bool.or_assoc, Op.isClose] using this
    | read k =>
      simp only [recvs] at hfr hnd hstep ⊢
      have := ih A (lc || Op.isClose (.read k)) (step mtu s (.read k)) (by simpa using hstep) hA hfr hnd
      simpa [Bool.or_assoc, Op.isClose] using this
    | close p =>
      simp only [recvs] at hfr hnd hstep ⊢
      have := ih A (lc || Op.isClose (.close p)) (step mtu s (.close p)) (by simpa using hstep) hA hfr hnd
      simpa [Bool.or_assoc, Op.isClose] using this
    | write d =>
      simp only [recvs] at hfr hnd hstep ⊢
      have := ih A (lc || Op.isClose (.write d)) (step mtu s (.write d)) (by simpa using hstep) hA hfr hnd
      simpa [Bool.or_assoc, Op.isClose] using this

theorem init_J : J pl c [] false init := by
  refine ⟨?_, by intro h; cases h⟩
  intro _
  refine ⟨rfl, rfl, ?_⟩
  exact ⟨by simp [C02.core, init, RB.init, RC.prefixData], by simp [C02.core, init, RB.init],
    by simp [C02.core, init, RB.init], by simp [C02.core, init, RB.init], by simp,
    by simp [C02.core, init, RB.init], by simp [C02.core, init, RB.init]⟩

theorem prefixData_prefix : ∀ (m n : Nat), m ≤ n → RC.prefixData pl m <+: RC.prefixData pl n := by
  intro m n h
  induction n with
  | zero => have : m = 0 := by omega
            subst this; exact List.prefix_refl _
  | succ n ih =>
    rcases Nat.lt_or_ge m (n + 1) with h1 | h1
    · have := ih (by omega)
      simp only [RC.prefixData]
      exact this.trans (List.prefix_append _ _)
    · have : m = n + 1 := by omega
      subst this; exact List.prefix_refl _

end
end ST
