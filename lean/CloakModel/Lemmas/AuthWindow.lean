import CloakModel.Model.AuthPlain

/-! The timestamp window regenerated from `decryptClientInfo` is exactly the open interval of
± `timestampTolerance` around the server clock (ported from spike S12).  Closed by `omega` over the
*generated* term, so harmless rewrites of the Go condition re-prove and semantic changes do not. -/

set_option linter.unusedSimpArgs false

namespace HS

/-- the tolerance in whole seconds -/
def tolS : Int := Gen.Auth.timestampTolerance / 1000000000

/-- `timestampTolerance` is a whole number of seconds (needed by the whole-second argument of C08) -/
theorem gen_tol : Gen.Auth.timestampTolerance = tolS * 1000000000 := by decide

theorem window_exact (ts now : Int) :
    inWindow ts now = true ↔
      (now - Gen.Auth.timestampTolerance < ts * 1000000000 ∧ ts * 1000000000 < now + Gen.Auth.timestampTolerance) := by
  unfold inWindow Gen.Auth.windowReject
  simp only [Gen.Auth.timestampTolerance, Bool.not_eq_true', Bool.not_eq_false', Bool.and_eq_true, Bool.or_eq_true,
    Bool.not_eq_true, decide_eq_true_eq, decide_eq_false_iff_not, Bool.not_not, Bool.and_eq_false_iff, Bool.or_eq_false_iff]
  omega

end HS
