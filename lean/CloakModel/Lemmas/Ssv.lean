import CloakModel.Model.ClientConfig

/-! Lemmas for C20's option-string front end: `strings.Replace` with a two-character pattern as a
structural function, the three unescape passes on an escaped rendering, splitting at separators that
occur only where the renderer put them. -/
set_option linter.unusedSimpArgs false
set_option linter.unusedVariables false

namespace CC

/-! ### `replaceAll` with a two-character pattern -/

def rep2 (a b : Char) (new : Str) : Str → Str
  | [] => []
  | [c] => [c]
  | c :: d :: r => if c = a ∧ d = b then new ++ rep2 a b new r else c :: rep2 a b new (d :: r)

theorem go_eq_rep2 (a b : Char) (new : Str) : ∀ (fuel : Nat) (s : Str), s.length ≤ fuel →
    replaceAll.go [a, b] new fuel s = rep2 a b new s := by
  intro fuel
  induction fuel using Nat.strongRecOn with
  | _ fuel ih =>
    intro s hs
    cases fuel with
    | zero =>
      have : s = [] := by cases s <;> simp_all
      subst this; simp [replaceAll.go, rep2]
    | succ f =>
      cases s with
      | nil => simp [replaceAll.go, rep2]
      | cons c cs =>
        cases cs with
        | nil =>
          have h0 := ih f (by omega) [] (by simp)
          simp [replaceAll.go, isPrefix, rep2, h0]
        | cons d r =>
          simp only [List.length_cons] at hs
          by_cases h : c = a ∧ d = b
          · obtain ⟨rfl, rfl⟩ := h
            have := ih f (by omega) r (by omega)
            simp [replaceAll.go, isPrefix, rep2, this]
          · have h2 := ih f (by omega) (d :: r) (by simp; omega)
            have hp : ¬ ((a == c && (b == d && true)) = true) := by
              intro e; simp at e; exact h ⟨e.1.symm, e.2.symm⟩
            simp only [replaceAll.go, isPrefix, rep2, h, if_false]
            have hq : ¬ (a = c ∧ b = d) := fun e => h ⟨e.1.symm, e.2.symm⟩
            simp only [ne_eq, List.cons_ne_nil, not_false_eq_true, true_and, Bool.and_true, Bool.and_eq_true, beq_iff_eq, hq,
              if_false, h2]

theorem replaceAll_two (a b : Char) (new : Str) (s : Str) : replaceAll [a, b] new s = rep2 a b new s :=
  go_eq_rep2 a b new s.length s (Nat.le_refl _)

theorem rep2_cons_ne (a b : Char) (new : Str) (c : Char) (s : Str) (h : c ≠ a) :
    rep2 a b new (c :: s) = c :: rep2 a b new s := by
  cases s with
  | nil => simp [rep2]
  | cons d r => simp [rep2, h]

theorem rep2_no_first (a b : Char) (new : Str) (s : Str) (h : a ∉ s) : rep2 a b new s = s := by
  induction s with
  | nil => simp [rep2]
  | cons c r ih =>
    simp only [List.mem_cons, not_or] at h
    rw [rep2_cons_ne _ _ _ _ _ (fun e => h.1 e.symm), ih h.2]

/-! ### escaped renderings as token lists -/

/-- a character that is not a backslash, or an escaped `=` -/
inductive Tok | plain (c : Char) | escEq

def Tok.render : Tok → Str
  | .plain c => [c]
  | .escEq => ['\\', '=']
def Tok.plainOf : Tok → Str
  | .plain c => [c]
  | .escEq => ['=']
def Tok.ok : Tok → Prop
  | .plain c => c ≠ '\\'
  | .escEq => True

theorem rep_bsbs (ts : List Tok) (h : ∀ t ∈ ts, t.ok) :
    rep2 '\\' '\\' ['\\'] (ts.flatMap Tok.render) = ts.flatMap Tok.render := by
  induction ts with
  | nil => simp [rep2]
  | cons t r ih =>
    have hr := ih (fun t ht => h t (List.mem_cons_of_mem _ ht))
    cases t with
    | plain c =>
      have hc : c ≠ '\\' := h (.plain c) (by simp)
      simp only [List.flatMap_cons, Tok.render, List.singleton_append]
      rw [rep2_cons_ne _ _ _ _ _ hc, hr]
    | escEq =>
      simp only [List.flatMap_cons, Tok.render, List.cons_append, List.nil_append]
      rw [show rep2 '\\' '\\' ['\\'] ('\\' :: '=' :: List.flatMap Tok.render r) =
        '\\' :: rep2 '\\' '\\' ['\\'] ('=' :: List.flatMap Tok.render r) by simp [rep2]]
      rw [rep2_cons_ne _ _ _ _ _ (by decide), hr]

theorem rep_bseq (ts : List Tok) (h : ∀ t ∈ ts, t.ok) :
    rep2 '\\' '=' ['='] (ts.flatMap Tok.render) = ts.flatMap Tok.plainOf := by
  induction ts with
  | nil => simp [rep2]
  | cons t r ih =>
    have hr := ih (fun t ht => h t (List.mem_cons_of_mem _ ht))
    cases t with
    | plain c =>
      have hc : c ≠ '\\' := h (.plain c) (by simp)
      simp only [List.flatMap_cons, Tok.render, Tok.plainOf, List.singleton_append]
      rw [rep2_cons_ne _ _ _ _ _ hc, hr]
    | escEq =>
      simp only [List.flatMap_cons, Tok.render, Tok.plainOf, List.cons_append, List.nil_append]
      simp [rep2, hr]

theorem plainOf_no_bs (ts : List Tok) (h : ∀ t ∈ ts, t.ok) : '\\' ∉ ts.flatMap Tok.plainOf := by
  induction ts with
  | nil => simp
  | cons t r ih =>
    have hr := ih (fun t ht => h t (List.mem_cons_of_mem _ ht))
    cases t with
    | plain c =>
      have hc : c ≠ '\\' := h (.plain c) (by simp)
      simp only [List.flatMap_cons, Tok.plainOf, List.singleton_append, List.mem_cons, not_or]
      exact ⟨fun e => hc e.symm, hr⟩
    | escEq =>
      simp only [List.flatMap_cons, Tok.plainOf, List.singleton_append, List.mem_cons, not_or]
      exact ⟨by decide, hr⟩

/-! ### splitting -/

theorem splitOn_ne_nil (sep : Char) (s : Str) : splitOn sep s ≠ [] := by
  cases s with
  | nil => simp [splitOn]
  | cons c cs =>
    simp only [splitOn]
    split
    · simp
    · split <;> simp

theorem splitOn_append_sep (sep : Char) (s rest : Str) (h : sep ∉ s) :
    splitOn sep (s ++ sep :: rest) = s :: splitOn sep rest := by
  induction s with
  | nil => simp [splitOn]
  | cons c r ih =>
    simp only [List.mem_cons, not_or] at h
    have hc : ¬ c = sep := fun e => h.1 e.symm
    simp only [List.cons_append, splitOn, hc, if_false, ih h.2]

theorem splitFirst_append_sep (sep : Char) (k v : Str) (h : sep ∉ k) :
    splitFirst sep (k ++ sep :: v) = some (k, v) := by
  induction k with
  | nil => simp [splitFirst]
  | cons c r ih =>
    simp only [List.mem_cons, not_or] at h
    have hc : ¬ c = sep := fun e => h.1 e.symm
    simp only [List.cons_append, splitFirst, hc, if_false, ih h.2]

end CC
