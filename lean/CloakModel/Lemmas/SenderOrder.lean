import CloakModel.Model.Sender
import CloakModel.Lemmas.SenderCore

/-! Per-call order: the payloads logged for one call are, in log (= number) order, a prefix of the
payloads its program encodes, in program order — nothing foreign, nothing twice, nothing reordered. -/
set_option linter.unusedVariables false
set_option linter.unusedSimpArgs false

namespace SN

/-- payload ids a program still has to encode, in program order -/
def plsOf : List Instr → List Nat
  | [] => []
  | .enc _ pl :: p => pl :: plsOf p
  | .lock :: p => plsOf p
  | .unlock :: p => plsOf p
  | .chk :: p => plsOf p
  | .cas :: p => plsOf p
  | .inc :: p => plsOf p
  | .send _ :: p => plsOf p

/-- payload ids logged for call `t`, in log order -/
def mine (s : State) (t : Nat) : List Nat := (s.enc.filter (fun f => decide (f.owner = t))).map (·.pl)

/-- the payload encoded but not yet logged -/
def pendPl (th : Thread) : List Nat :=
  match th.cur, th.pend with
  | some f, true => [f.pl]
  | _, _ => []

def Q (progs : List (List Instr)) (s : State) : Prop :=
  ∀ t th p0, s.thr[t]? = some th → progs[t]? = some p0 →
    mine s t ++ pendPl th ++ plsOf th.prog <+: plsOf p0

theorem prefix_shrink {a b z : List Nat} (h : a ++ b <+: z) : a ++ [] ++ [] <+: z := by
  simp only [List.append_nil]
  exact (List.prefix_append a b).trans h

theorem pendPl_idle {th : Thread} (h : th.pend = false) : pendPl th = [] := by
  unfold pendPl
  cases hc : th.cur <;> simp [h]

theorem mine_same {s s' : State} (h : s'.enc = s.enc) (u : Nat) : mine s' u = mine s u := by
  simp [mine, h]

theorem Q_of_set {progs : List (List Instr)} {s s' : State} {t : Nat} {th th' : Thread}
    (hth : s.thr[t]? = some th) (hthr : s'.thr = s.thr.set t th')
    (hq : Q progs s)
    (hmine : ∀ u, u ≠ t → mine s' u = mine s u)
    (ht : ∀ p0, progs[t]? = some p0 → mine s t ++ pendPl th ++ plsOf th.prog <+: plsOf p0 →
            mine s' t ++ pendPl th' ++ plsOf th'.prog <+: plsOf p0) : Q progs s' := by
  have hlt : t < s.thr.length := (List.getElem?_eq_some_iff.1 hth).1
  intro u uh p0 hu hp
  rw [hthr] at hu
  by_cases hut : u = t
  · subst hut
    rw [List.getElem?_set_self hlt] at hu
    simp at hu; subst hu
    exact ht p0 hp (hq u th p0 hth hp)
  · rw [List.getElem?_set_ne (by omega)] at hu
    rw [hmine u hut]
    exact hq u uh p0 hu hp

theorem step_Q (progs : List (List Instr)) (s s' : State) (t : Nat) (h : Inv s) (hq : Q progs s)
    (hs : step s t = some s') : Q progs s' := by
  unfold step at hs
  split at hs
  · simp at hs
  · rename_i th hth
    have hph := h.thr t th hth
    unfold TOK at hph
    -- an early return: nothing is logged, the rest of the program is dropped
    have habort : ∀ c : Bool, Q progs (abort { s with closed := c } t) := by
      intro c
      refine Q_of_set (s := s) (s' := abort { s with closed := c } t) hth rfl hq (fun u _ => mine_same rfl u) ?_
      intro p0 _ hpre
      have : plsOf (if s.lock = some t then [Instr.unlock] else []) = [] := by
        by_cases hl : s.lock = some t <;> simp [hl, plsOf]
      show mine s t ++ pendPl ⟨_, none, false⟩ ++ plsOf (if s.lock = some t then [Instr.unlock] else []) <+: _
      rw [this]
      have e : pendPl ⟨(if s.lock = some t then [Instr.unlock] else []), none, false⟩ = [] := by simp [pendPl]
      rw [e]
      rw [List.append_assoc] at hpre
      exact prefix_shrink hpre
    split at hs
    · simp at hs
    · -- lock
      rename_i p hp
      split at hs
      · simp at hs; subst hs
        refine Q_of_set (s := s) hth rfl hq (fun u _ => mine_same rfl u) ?_
        intro p0 _ hpre
        rw [hp] at hpre
        simpa [plsOf, pendPl, mine] using hpre
      · simp at hs
    · -- unlock
      rename_i p hp
      simp at hs; subst hs
      refine Q_of_set (s := s) hth rfl hq (fun u _ => mine_same rfl u) ?_
      intro p0 _ hpre
      rw [hp] at hpre
      simpa [plsOf, pendPl, mine] using hpre
    · -- chk
      rename_i p hp
      split at hs
      · simp at hs; subst hs
        exact (show Q progs (abort { s with closed := s.closed } t) from habort s.closed)
      · simp at hs; subst hs
        refine Q_of_set (s := s) hth rfl hq (fun u _ => mine_same rfl u) ?_
        intro p0 _ hpre
        rw [hp] at hpre
        simpa [plsOf, pendPl, mine] using hpre
    · -- cas
      rename_i p hp
      split at hs
      · simp at hs; subst hs
        exact (show Q progs (abort { s with closed := s.closed } t) from habort s.closed)
      · simp at hs; subst hs
        refine Q_of_set (s := s) hth rfl hq (fun u _ => mine_same rfl u) ?_
        intro p0 _ hpre
        rw [hp] at hpre
        simpa [plsOf, pendPl, mine] using hpre
    · -- enc
      rename_i cl pl p hp
      simp at hs; subst hs
      rw [hp] at hph
      have hw := inv_enc hph.1
      simp at hw
      refine Q_of_set (s := s) hth rfl hq (fun u _ => mine_same rfl u) ?_
      intro p0 _ hpre
      rw [hp, pendPl_idle hw.1.2.1] at hpre
      have hm : mine { s with clflag := cl || s.clflag, thr := s.thr.set t ⟨p, some ⟨s.seq, cl || s.clflag, pl, t⟩, true⟩ } t = mine s t := mine_same rfl t
      rw [hm]
      simpa [plsOf, pendPl] using hpre
    · -- inc
      rename_i p hp
      split at hs
      · rename_i f hcur hpend
        simp at hs; subst hs
        obtain ⟨hown, _, _⟩ := hph.2 f hcur
        have hmt : ∀ u, mine { s with seq := s.seq + 1, enc := s.enc ++ [f], thr := s.thr.set t ⟨p, some f, false⟩ } u =
            mine s u ++ (if f.owner = u then [f.pl] else []) := by
          intro u
          by_cases ho : f.owner = u <;> simp [mine, List.filter_append, ho]
        refine Q_of_set (s := s) hth rfl hq ?_ ?_
        · intro u hut
          rw [hmt u]
          have : ¬ f.owner = u := by rw [hown]; exact fun e => hut e.symm
          simp [this]
        · intro p0 _ hpre
          rw [hmt t, hp] at *
          have hpd : pendPl th = [f.pl] := by simp [pendPl, hcur, hpend]
          rw [hpd] at hpre
          simpa [hown, plsOf, pendPl] using hpre
      · simp at hs
    · -- send
      rename_i r p hp
      split at hs
      · simp at hs
      · rename_i f hcur
        rw [hp] at hph
        have hw := inv_send hph.1
        simp at hw
        have hpend : th.pend = false := hw.1.2.1
        split at hs
        · simp at hs; subst hs
          refine Q_of_set (s := s) hth rfl hq (fun u _ => mine_same rfl u) ?_
          intro p0 _ hpre
          rw [hp, pendPl_idle hpend] at hpre
          have hm : mine { s with wire := s.wire ++ [f], thr := s.thr.set t ⟨p, none, th.pend⟩ } t = mine s t := mine_same rfl t
          rw [hm]
          simpa [plsOf, pendPl] using hpre
        · simp at hs; subst hs
          exact habort true
        · simp at hs; subst hs
          exact (show Q progs (abort { s with closed := s.closed } t) from habort s.closed)

theorem run_Q (progs : List (List Instr)) : ∀ (sched : List Nat) (s : State), Inv s → Q progs s →
    Q progs (runSched s sched) := by
  intro sched
  induction sched with
  | nil => intro s _ hq; exact hq
  | cons t ts ih =>
    intro s h hq
    simp only [runSched]
    split
    · rename_i s' hs; exact ih s' (step_inv s s' t h hs) (step_Q progs s s' t h hq hs)
    · exact ih s h hq

theorem init_Q (progs : List (List Instr)) : Q progs (init progs) := by
  intro t th p0 hth hp
  simp only [init, List.getElem?_map, Option.map_eq_some_iff] at hth
  obtain ⟨p, hp', rfl⟩ := hth
  rw [hp] at hp'; cases hp'
  simp [mine, init, pendPl]

end SN
