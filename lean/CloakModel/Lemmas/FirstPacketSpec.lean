import CloakModel.Model.FirstPacket

/-! Specification-level first-packet reader on a FLAT byte stream (`FPS.fpFlat`, no chunks, no `Gen`), and its
properties: conservation (consumed ++ rest = stream), the close-only outcome happens exactly when the stream
ran out inside the first packet, prefix stability, and the relay fold.  `Props/C09.lean` proves that the
executable model `FP.readFirstPacket` (built from the extracted `Gen.FirstPacket` terms, over any chunking)
equals this specification. -/
set_option linter.unusedSimpArgs false
set_option linter.unusedVariables false

namespace FPS
open FP

def specLen (s : Bytes) : Nat := beNat ((s.drop 3).take 2)

def closeOut (data : Bytes) (t : Transport) : Out := ⟨data, t, false, .readErr, true⟩

/-- the request-line/header loop on a flat stream; `ls` = where the current line started -/
def wsFlat (ls : Nat) (data : Bytes) : Bytes → Out × Bytes
  | [] => if data.length < 3000 then (closeOut data .ws, []) else (⟨data, .ws, true, .shortBuffer, false⟩, [])
  | b :: t =>
    if data.length < 3000 then
      if b = 10 then
        if (data ++ [b]).drop ls = [13, 10] then (⟨data ++ [b], .ws, true, .ok, false⟩, t)
        else wsFlat (data.length + 1) (data ++ [b]) t
      else wsFlat ls (data ++ [b]) t
    else (⟨data, .ws, true, .shortBuffer, false⟩, b :: t)

/-- the `case 0x16` branch on the whole flat stream `s` (first byte included) -/
def tlsFlat (s : Bytes) : Out × Bytes :=
  if s.length < 5 then (closeOut s .tls, [])
  else if 3000 < specLen s + 5 then (⟨s.take 5, .tls, true, .shortBuffer, false⟩, s.drop 5)
  else if s.length < 5 + specLen s then (closeOut s .tls, [])
  else (⟨s.take (5 + specLen s), .tls, true, .ok, false⟩, s.drop (5 + specLen s))

def fpFlat (s : Bytes) : Out × Bytes :=
  match s with
  | [] => (closeOut [] .none, [])
  | b :: t =>
    if b = 22 then tlsFlat (b :: t)
    else if b = 71 then wsFlat 1 [b] t
    else (⟨[b], .none, true, .unrecognised, false⟩, t)

/-! ### the line loop -/

theorem wsFlat_conserve : ∀ (s : Bytes) (ls : Nat) (data : Bytes),
    (wsFlat ls data s).1.data ++ (wsFlat ls data s).2 = data ++ s := by
  intro s
  induction s with
  | nil => intro ls data; unfold wsFlat; split <;> simp [closeOut]
  | cons b t ih =>
    intro ls data
    unfold wsFlat
    split
    · split
      · split
        · simp
        · rw [ih]; simp
      · rw [ih]; simp
    · simp

/-- the close-only outcome: the stream ran out (everything consumed) before the buffer was full -/
theorem wsFlat_close : ∀ (s : Bytes) (ls : Nat) (data : Bytes),
    ((wsFlat ls data s).1.err = .readErr ↔ (wsFlat ls data s).1 = closeOut (data ++ s) .ws ∧ (wsFlat ls data s).2 = [] ∧ data.length + s.length < 3000) ∧
    ((wsFlat ls data s).1.err ≠ .readErr → (wsFlat ls data s).1.redirOnErr = true ∧ (wsFlat ls data s).1.closed = false) := by
  intro s
  induction s with
  | nil =>
    intro ls data; unfold wsFlat
    split <;> simp [closeOut] <;> omega
  | cons b t ih =>
    intro ls data
    unfold wsFlat
    split
    · rename_i hlt
      split
      · split
        · simp [closeOut]
        · have := ih (data.length + 1) (data ++ [b])
          simp only [List.length_append, List.length_cons, List.length_nil, List.append_assoc, List.cons_append, List.nil_append] at this ⊢
          constructor
          · rw [this.1]; constructor
            · rintro ⟨h1, h2, h3⟩; exact ⟨h1, h2, by omega⟩
            · rintro ⟨h1, h2, h3⟩; exact ⟨h1, h2, by omega⟩
          · exact this.2
      · have := ih ls (data ++ [b])
        simp only [List.length_append, List.length_cons, List.length_nil, List.append_assoc, List.cons_append, List.nil_append] at this ⊢
        constructor
        · rw [this.1]; constructor
          · rintro ⟨h1, h2, h3⟩; exact ⟨h1, h2, by omega⟩
          · rintro ⟨h1, h2, h3⟩; exact ⟨h1, h2, by omega⟩
        · exact this.2
    · simp [closeOut]

theorem wsFlat_bound : ∀ (s : Bytes) (ls : Nat) (data : Bytes), data.length ≤ 3000 →
    (wsFlat ls data s).1.data.length ≤ 3000 := by
  intro s
  induction s with
  | nil => intro ls data h; unfold wsFlat; split <;> simp [closeOut] <;> omega
  | cons b t ih =>
    intro ls data h
    unfold wsFlat
    split
    · split
      · split
        · simp; omega
        · exact ih _ _ (by simp; omega)
      · exact ih _ _ (by simp; omega)
    · simpa using h

/-- prefix stability: once the loop has come to a verdict other than "stream ran out", further bytes change nothing -/
theorem wsFlat_stable : ∀ (p : Bytes) (ls : Nat) (data t : Bytes),
    (wsFlat ls data p).1.err ≠ .readErr →
    wsFlat ls data (p ++ t) = ((wsFlat ls data p).1, (wsFlat ls data p).2 ++ t) := by
  intro p
  induction p with
  | nil =>
    intro ls data t h
    unfold wsFlat at h
    split at h
    · simp [closeOut] at h
    · rename_i hge
      cases t with
      | nil => unfold wsFlat; simp [hge]
      | cons b t' => simp only [List.nil_append]; unfold wsFlat; simp [hge]
  | cons b p ih =>
    intro ls data t h
    simp only [List.cons_append]
    unfold wsFlat at h ⊢
    split
    · rename_i hlt
      rw [if_pos hlt] at h
      split
      · rename_i hb
        rw [if_pos hb] at h
        split
        · rfl
        · rename_i hterm
          rw [if_neg hterm] at h
          exact ih _ _ _ h
      · rename_i hb
        rw [if_neg hb] at h
        exact ih _ _ _ h
    · rfl

/-! ### the whole first packet -/

theorem specLen_append (p t : Bytes) (h : 5 ≤ p.length) : specLen (p ++ t) = specLen p := by
  unfold specLen
  rw [List.drop_append, List.take_append]
  have h1 : 3 - p.length = 0 := by omega
  have h3 : 2 - (p.length - 3) = 0 := by omega
  simp [h1, h3]

theorem tlsFlat_conserve (s : Bytes) : (tlsFlat s).1.data ++ (tlsFlat s).2 = s := by
  unfold tlsFlat
  split
  · simp [closeOut]
  · split
    · exact List.take_append_drop 5 _
    · split
      · simp [closeOut]
      · exact List.take_append_drop _ _

theorem tlsFlat_close (s : Bytes) :
    ((tlsFlat s).1.err = .readErr → (tlsFlat s).1.data = s ∧ (tlsFlat s).2 = [] ∧ s.length < 3000 ∧
        (tlsFlat s).1.redirOnErr = false ∧ (tlsFlat s).1.closed = true) ∧
    ((tlsFlat s).1.err ≠ .readErr → (tlsFlat s).1.redirOnErr = true ∧ (tlsFlat s).1.closed = false) := by
  unfold tlsFlat
  split
  · simp [closeOut]; omega
  · split
    · simp
    · split
      · simp [closeOut]; omega
      · simp

theorem tlsFlat_bound (s : Bytes) : (tlsFlat s).1.data.length ≤ 3000 := by
  unfold tlsFlat
  split
  · simp [closeOut]; omega
  · split
    · simp; omega
    · split
      · simp [closeOut]; omega
      · simp; omega

theorem tlsFlat_stable (p t : Bytes) (h : (tlsFlat p).1.err ≠ .readErr) :
    tlsFlat (p ++ t) = ((tlsFlat p).1, (tlsFlat p).2 ++ t) := by
  by_cases h5 : p.length < 5
  · have hp : tlsFlat p = (closeOut p .tls, []) := by unfold tlsFlat; rw [if_pos h5]
    rw [hp] at h; simp [closeOut] at h
  · have hl : specLen (p ++ t) = specLen p := specLen_append p t (by omega)
    have h5' : ¬ (p ++ t).length < 5 := by rw [List.length_append]; omega
    by_cases hov : 3000 < specLen p + 5
    · have hp : tlsFlat p = (⟨p.take 5, .tls, true, .shortBuffer, false⟩, p.drop 5) := by
        unfold tlsFlat; rw [if_neg h5, if_pos hov]
      have z : 5 - p.length = 0 := by omega
      rw [hp]; unfold tlsFlat
      rw [if_neg h5', hl, if_pos hov, List.take_append, List.drop_append, z]
      simp
    · by_cases hlen : p.length < 5 + specLen p
      · have hp : tlsFlat p = (closeOut p .tls, []) := by unfold tlsFlat; rw [if_neg h5, if_neg hov, if_pos hlen]
        rw [hp] at h; simp [closeOut] at h
      · have hp : tlsFlat p = (⟨p.take (5 + specLen p), .tls, true, .ok, false⟩, p.drop (5 + specLen p)) := by
          unfold tlsFlat; rw [if_neg h5, if_neg hov, if_neg hlen]
        have hlen' : ¬ (p ++ t).length < 5 + specLen p := by rw [List.length_append]; omega
        have z : 5 + specLen p - p.length = 0 := by omega
        rw [hp]; unfold tlsFlat
        rw [if_neg h5', hl, if_neg hov, if_neg hlen', List.take_append, List.drop_append, z]
        simp

theorem fpFlat_conserve (s : Bytes) : (fpFlat s).1.data ++ (fpFlat s).2 = s := by
  unfold fpFlat
  cases s with
  | nil => simp [closeOut]
  | cons b t =>
    simp only
    split
    · exact tlsFlat_conserve _
    · split
      · rw [wsFlat_conserve]; rfl
      · rfl

/-- **close-only ⇔ the stream ran out inside the first packet**: the reader consumed the entire stream (fewer
than 3000 bytes) and still needed more.  Otherwise the connection is kept and `redirOnErr` is set. -/
theorem fpFlat_close (s : Bytes) :
    ((fpFlat s).1.err = .readErr → (fpFlat s).1.data = s ∧ (fpFlat s).2 = [] ∧ s.length < 3000 ∧
        (fpFlat s).1.redirOnErr = false ∧ (fpFlat s).1.closed = true) ∧
    ((fpFlat s).1.err ≠ .readErr → (fpFlat s).1.redirOnErr = true ∧ (fpFlat s).1.closed = false) := by
  unfold fpFlat
  cases s with
  | nil => simp [closeOut]
  | cons b t =>
    simp only
    split
    · exact tlsFlat_close _
    · split
      · have := wsFlat_close t 1 [b]
        constructor
        · intro h
          have h' := this.1.1 h
          rw [h'.1]
          refine ⟨rfl, h'.2.1, ?_, rfl, rfl⟩
          have := h'.2.2; simp at this ⊢; omega
        · exact this.2
      · simp

theorem fpFlat_bound (s : Bytes) : (fpFlat s).1.data.length ≤ 3000 := by
  unfold fpFlat
  cases s with
  | nil => simp [closeOut]
  | cons b t =>
    simp only
    split
    · exact tlsFlat_bound _
    · split
      · exact wsFlat_bound _ _ _ (by simp)
      · simp

/-- **prefix stability**: if the reader reaches a verdict on `p` other than "stream ran out", it reaches the
same verdict, having consumed the same bytes, on `p` followed by anything -/
theorem fpFlat_stable (p t : Bytes) (h : (fpFlat p).1.err ≠ .readErr) :
    fpFlat (p ++ t) = ((fpFlat p).1, (fpFlat p).2 ++ t) := by
  cases p with
  | nil => simp [fpFlat, closeOut] at h
  | cons b p' =>
    simp only [List.cons_append]
    unfold fpFlat at h ⊢
    simp only at h ⊢
    split
    · rename_i hb
      rw [if_pos hb] at h
      have := tlsFlat_stable (b :: p') t h
      simpa using this
    · rename_i hb
      rw [if_neg hb] at h
      split
      · rename_i hw
        rw [if_pos hw] at h
        exact wsFlat_stable _ _ _ _ h
      · rfl

/-! ### relay -/

def isEOF : Ev → Bool
  | .peerEOF => true
  | .targetEOF => true
  | _ => false

/-- the events up to (excluding) the first EOF of either side -/
def live : List Ev → List Ev
  | [] => []
  | e :: es => if isEOF e then [] else e :: live es

def peerChunks : List Ev → List Bytes
  | [] => []
  | .peer b :: es => b :: peerChunks es
  | _ :: es => peerChunks es

def targetChunks : List Ev → List Bytes
  | [] => []
  | .target b :: es => b :: targetChunks es
  | _ :: es => targetChunks es

theorem relay_closed : ∀ (evs : List Ev) (r : Relay), r.open = false → evs.foldl relayStep r = r := by
  intro evs
  induction evs with
  | nil => intro r _; rfl
  | cons e es ih =>
    intro r h
    rw [List.foldl_cons]
    have : relayStep r e = r := by cases e <;> simp [relayStep, h]
    rw [this]; exact ih r h

theorem relay_fold : ∀ (evs : List Ev) (r : Relay), r.open = true →
    (evs.foldl relayStep r).toTarget = r.toTarget ++ peerChunks (live evs) ∧
    (evs.foldl relayStep r).toPeer = r.toPeer ++ targetChunks (live evs) ∧
    (evs.foldl relayStep r).dialed = r.dialed := by
  intro evs
  induction evs with
  | nil => intro r _; simp [live, peerChunks, targetChunks]
  | cons e es ih =>
    intro r h
    rw [List.foldl_cons]
    cases e with
    | peer b =>
      have := ih (relayStep r (.peer b)) (by simp [relayStep, h])
      simp [relayStep, h, live, isEOF, peerChunks, targetChunks] at this ⊢
      exact this
    | target b =>
      have := ih (relayStep r (.target b)) (by simp [relayStep, h])
      simp [relayStep, h, live, isEOF, peerChunks, targetChunks] at this ⊢
      exact this
    | peerEOF =>
      rw [relay_closed es _ (by simp [relayStep, h])]
      simp [relayStep, h, live, isEOF, peerChunks, targetChunks]
    | targetEOF =>
      rw [relay_closed es _ (by simp [relayStep, h])]
      simp [relayStep, h, live, isEOF, peerChunks, targetChunks]

/-- does either side end its stream at all -/
def anyEOF : List Ev → Bool
  | [] => false
  | e :: es => isEOF e || anyEOF es

/-- the first EOF of either side closes BOTH conns (`common.Copy`'s deferred `src.Close(); dst.Close()`); while neither
side has ended, both stay as they were -/
theorem relay_closes : ∀ (evs : List Ev) (r : Relay), r.open = true →
    ((evs.foldl relayStep r).open = !anyEOF evs) ∧
    (anyEOF evs = true → (evs.foldl relayStep r).peerClosed = true ∧ (evs.foldl relayStep r).targetClosed = true) ∧
    (anyEOF evs = false → (evs.foldl relayStep r).peerClosed = r.peerClosed ∧ (evs.foldl relayStep r).targetClosed = r.targetClosed) := by
  intro evs
  induction evs with
  | nil => intro r h; simp [anyEOF, h]
  | cons e es ih =>
    intro r h
    rw [List.foldl_cons]
    cases e with
    | peer b =>
      have := ih (relayStep r (.peer b)) (by simp [relayStep, h])
      simpa [relayStep, h, anyEOF, isEOF] using this
    | target b =>
      have := ih (relayStep r (.target b)) (by simp [relayStep, h])
      simpa [relayStep, h, anyEOF, isEOF] using this
    | peerEOF =>
      rw [relay_closed es _ (by simp [relayStep, h])]
      simp [relayStep, h, anyEOF, isEOF]
    | targetEOF =>
      rw [relay_closed es _ (by simp [relayStep, h])]
      simp [relayStep, h, anyEOF, isEOF]

/-! ### the target's reply, as the property speaks of it -/

/-- everything the target sends before it ends its own stream — whatever the peer does with its sending direction -/
def targetReply : List Ev → List Bytes
  | [] => []
  | .targetEOF :: _ => []
  | .target b :: es => b :: targetReply es
  | _ :: es => targetReply es

/-- the peer ends its sending direction (FIN) while the target has not ended its stream -/
def peerEndsFirst : List Ev → Bool
  | [] => false
  | .peerEOF :: _ => true
  | .targetEOF :: _ => false
  | _ :: es => peerEndsFirst es

/-- unless the peer half-closes first, "up to the first EOF of either side" IS the target's whole reply -/
theorem live_reply : ∀ evs : List Ev, peerEndsFirst evs = false → targetChunks (live evs) = targetReply evs := by
  intro evs
  induction evs with
  | nil => intro _; rfl
  | cons e es ih =>
    intro h
    cases e with
    | peer b => simp [live, isEOF, targetChunks, targetReply, peerEndsFirst] at h ⊢; exact ih h
    | target b => simp [live, isEOF, targetChunks, targetReply, peerEndsFirst] at h ⊢; exact ih h
    | peerEOF => simp [peerEndsFirst] at h
    | targetEOF => simp [live, isEOF, targetChunks, targetReply]

end FPS
