import CloakModel.Lemmas.HsBytes

/-! Correctness of the recursive parts of the ClientHello parser model against the structural
serializer: the extension loop (`parseExts`, ported from spike S15), the "last one wins" lookup, and
the key-share entry loop (`ksLoop`) — for ANY extension order and content and ANY position of the
X25519 entry among other key shares. -/
set_option linter.unusedSimpArgs false
set_option linter.unusedVariables false

namespace HS

theorem be16_length (x : Nat) : (be16 x).length = 2 := rfl

theorem rd16_be16 (pre post : Bytes) (x : Nat) (hx : x < 65536) :
    rd16 (pre ++ be16 x ++ post) pre.length = some x := by
  simp only [rd16, be16, List.append_assoc]
  rw [List.drop_left' rfl]
  simp only [List.cons_append, List.nil_append, UInt8.toNat_ofNat']
  congr 1
  omega

theorem rd16_be16' (pre post : Bytes) (x i : Nat) (hx : x < 65536) (hi : i = pre.length) :
    rd16 (pre ++ be16 x ++ post) i = some x := by subst hi; exact rd16_be16 pre post x hx

theorem take?_mid (a b c : Bytes) (i n : Nat) (hi : i = a.length) (hn : n = b.length) :
    take? (a ++ b ++ c) i n = some b := by
  subst hi; subst hn
  unfold take?
  rw [if_pos (by simp)]
  simp [List.append_assoc]

theorem get?_mid (a : Bytes) (x : UInt8) (c : Bytes) (i : Nat) (h : i = a.length) : (a ++ [x] ++ c)[i]? = some x := by
  subst h; simp [List.getElem?_append_right]

theorem serExt_length (e : Ext) : (serExt e).length = 4 + e.data.length := by
  simp [serExt, be16]; omega

theorem serExts_append (a b : List Ext) : serExts (a ++ b) = serExts a ++ serExts b := by
  simp [serExts]

theorem serExts_cons (e : Ext) (es : List Ext) : serExts (e :: es) = serExt e ++ serExts es := by
  simp [serExts]

/-- expected locations of the extensions when the list starts at offset `p` -/
def locs : Nat → List Ext → List Loc
  | _, [] => []
  | p, e :: es => ⟨e.typ, p + 4, e.data.length⟩ :: locs (p + 4 + e.data.length) es

theorem locs_append (a b : List Ext) : ∀ p, locs p (a ++ b) = locs p a ++ locs (p + (serExts a).length) b := by
  induction a with
  | nil => intro p; simp [locs, serExts]
  | cons e es ih =>
    intro p
    simp only [List.cons_append, locs, ih, serExts_cons, List.length_append, serExt_length, List.cons.injEq, true_and]
    have : p + 4 + e.data.length + (serExts es).length = p + (4 + e.data.length + (serExts es).length) := by omega
    rw [this]

theorem locs_typ (es : List Ext) : ∀ p, (locs p es).map (·.typ) = es.map (·.typ) := by
  induction es with
  | nil => intro p; rfl
  | cons e es ih => intro p; simp [locs, ih]

theorem parseExts_correct : ∀ (es : List Ext) (pre : Bytes) (fuel : Nat),
    (∀ e ∈ es, e.typ < 65536 ∧ e.data.length < 65536) → es.length < fuel →
    parseExts (pre ++ serExts es) fuel pre.length = some (locs pre.length es) := by
  intro es
  induction es with
  | nil =>
    intro pre fuel _ hf
    cases fuel with
    | zero => omega
    | succ f => simp [parseExts, serExts, locs]
  | cons e es ih =>
    intro pre fuel hw hf
    cases fuel with
    | zero => omega
    | succ f =>
      have he := hw e (by simp)
      have hser : pre ++ serExts (e :: es) = pre ++ be16 e.typ ++ (be16 e.data.length ++ e.data ++ serExts es) := by
        simp [serExts, serExt, List.append_assoc]
      have hlen : (pre ++ serExts (e :: es)).length = pre.length + 4 + e.data.length + (serExts es).length := by
        rw [hser]; simp [be16]; omega
      have h1 : rd16 (pre ++ serExts (e :: es)) pre.length = some e.typ := by
        rw [hser]; exact rd16_be16 pre _ e.typ he.1
      have h2 : rd16 (pre ++ serExts (e :: es)) (pre.length + 2) = some e.data.length := by
        have : pre ++ serExts (e :: es) = (pre ++ be16 e.typ) ++ be16 e.data.length ++ (e.data ++ serExts es) := by
          simp [serExts, serExt, List.append_assoc]
        rw [this]
        have hl : (pre ++ be16 e.typ).length = pre.length + 2 := by simp [be16]
        rw [← hl]
        exact rd16_be16 _ _ _ he.2
      have hnext : pre ++ serExts (e :: es) = (pre ++ serExt e) ++ serExts es := by
        simp [serExts, List.append_assoc]
      have hpl : (pre ++ serExt e).length = pre.length + 4 + e.data.length := by
        simp [serExt_length]; omega
      unfold parseExts
      rw [if_neg (by rw [hlen]; omega), h1, h2]
      simp only
      rw [if_pos (by rw [hlen]; omega)]
      have := ih (pre ++ serExt e) f (fun x hx => hw x (by simp [hx])) (by simp at hf; omega)
      rw [hpl] at this
      rw [hnext, this]
      simp [locs]

/-- "the last extension of a type wins": if no later extension has the type, the lookup returns the
location of this one -/
theorem lookupExt_last (typ p : Nat) (before after : List Ext) (x : Ext) (hx : x.typ = typ)
    (hafter : ∀ e ∈ after, e.typ ≠ typ) :
    lookupExt typ (locs p (before ++ [x] ++ after)) =
      some ⟨typ, p + (serExts before).length + 4, x.data.length⟩ := by
  unfold lookupExt
  rw [List.append_assoc, locs_append, locs_append]
  simp only [locs, List.reverse_append, List.reverse_cons, List.reverse_nil, List.nil_append, List.append_assoc]
  rw [List.find?_append]
  have hnone : (locs (p + (serExts before).length + (serExts [x]).length) after).reverse.find? (fun l => l.typ == typ) = none := by
    rw [List.find?_eq_none]
    intro l hl
    have hl' := List.mem_reverse.1 hl
    have : l.typ ∈ (locs (p + (serExts before).length + (serExts [x]).length) after).map (·.typ) := List.mem_map.2 ⟨l, hl', rfl⟩
    rw [locs_typ] at this
    obtain ⟨e, he, het⟩ := List.mem_map.1 this
    simp only [beq_iff_eq]
    rw [← het]; exact hafter e he
  rw [hnone]
  simp [hx]

/-! ### the key-share entry loop -/

theorem serKs_length (k : KsEntry) : (serKs k).length = 4 + k.key.length := by
  simp [serKs, be16]; omega

theorem gen_ks : beNat (Gen.Handshake.ksGroup.map UInt8.ofNat) = 29 ∧ Gen.Handshake.ksKeyLen = 32 ∧
    beNat (Gen.Handshake.umExtKey.map UInt8.ofNat) = 51 ∧ Gen.Handshake.umCtLen = 64 ∧
    Gen.Handshake.ksTotalFromFirstTwo = true := by decide

theorem ksLoop_find : ∀ (bef : List KsEntry) (pre post : Bytes) (base ptr total fuel : Nat) (key : Bytes),
    base + ptr = pre.length →
    (∀ k ∈ bef, k.group ≠ 29 ∧ k.group < 65536 ∧ k.key.length < 65536) → key.length = 32 →
    ptr + ((bef.map serKs).flatten).length < total → bef.length < fuel →
    ksLoop (pre ++ (bef.map serKs).flatten ++ serKs ⟨29, key⟩ ++ post) base total fuel ptr = some key := by
  intro bef
  induction bef with
  | nil =>
    intro pre post base ptr total fuel key hb _ hk ht hf
    cases fuel with
    | zero => omega
    | succ f =>
      simp only [List.map_nil, List.flatten_nil, List.append_nil, List.length_nil, Nat.add_zero] at ht ⊢
      have hdec : pre ++ serKs ⟨29, key⟩ ++ post = pre ++ be16 29 ++ (be16 key.length ++ key ++ post) := by
        simp [serKs, List.append_assoc]
      have h1 : rd16 (pre ++ serKs ⟨29, key⟩ ++ post) (base + ptr) = some 29 := by
        rw [hdec]; exact rd16_be16' pre _ 29 _ (by omega) hb
      have h2 : rd16 (pre ++ serKs ⟨29, key⟩ ++ post) (base + ptr + 2) = some 32 := by
        have : pre ++ serKs ⟨29, key⟩ ++ post = (pre ++ be16 29) ++ be16 key.length ++ (key ++ post) := by
          simp [serKs, List.append_assoc]
        rw [this, hk]
        exact rd16_be16' _ _ 32 _ (by omega) (by simp [be16]; omega)
      have h3 : take? (pre ++ serKs ⟨29, key⟩ ++ post) (base + ptr + 4) 32 = some key := by
        have : pre ++ serKs ⟨29, key⟩ ++ post = (pre ++ be16 29 ++ be16 key.length) ++ key ++ post := by
          simp [serKs, List.append_assoc]
        rw [this]
        exact take?_mid _ _ _ _ _ (by simp [be16]; omega) hk.symm
      unfold ksLoop
      rw [if_neg (by omega), h1, h2]
      simp only [gen_ks.1, gen_ks.2.1, if_true, ne_eq, not_true_eq_false, if_false, h3]
  | cons k ks ih =>
    intro pre post base ptr total fuel key hb hw hk ht hf
    cases fuel with
    | zero => omega
    | succ f =>
      have hkk := hw k (by simp)
      have hfl : ((k :: ks).map serKs).flatten = serKs k ++ (ks.map serKs).flatten := by simp
      rw [hfl] at ht ⊢
      have hdec : pre ++ (serKs k ++ (ks.map serKs).flatten) ++ serKs ⟨29, key⟩ ++ post =
          pre ++ be16 k.group ++ (be16 k.key.length ++ k.key ++ (ks.map serKs).flatten ++ serKs ⟨29, key⟩ ++ post) := by
        simp [serKs, List.append_assoc]
      have h1 : rd16 (pre ++ (serKs k ++ (ks.map serKs).flatten) ++ serKs ⟨29, key⟩ ++ post) (base + ptr) = some k.group := by
        rw [hdec]; exact rd16_be16' pre _ _ _ hkk.2.1 hb
      have h2 : rd16 (pre ++ (serKs k ++ (ks.map serKs).flatten) ++ serKs ⟨29, key⟩ ++ post) (base + ptr + 2) = some k.key.length := by
        have : pre ++ (serKs k ++ (ks.map serKs).flatten) ++ serKs ⟨29, key⟩ ++ post =
            (pre ++ be16 k.group) ++ be16 k.key.length ++ (k.key ++ (ks.map serKs).flatten ++ serKs ⟨29, key⟩ ++ post) := by
          simp [serKs, List.append_assoc]
        rw [this]
        exact rd16_be16' _ _ _ _ hkk.2.2 (by simp [be16]; omega)
      have hnext : pre ++ (serKs k ++ (ks.map serKs).flatten) ++ serKs ⟨29, key⟩ ++ post =
          (pre ++ serKs k) ++ (ks.map serKs).flatten ++ serKs ⟨29, key⟩ ++ post := by
        simp [List.append_assoc]
      have hblen : base + ptr + 4 + k.key.length ≤
          (pre ++ (serKs k ++ (ks.map serKs).flatten) ++ serKs ⟨29, key⟩ ++ post).length := by
        simp only [List.length_append, serKs_length]; omega
      unfold ksLoop
      simp only [List.length_append, serKs_length] at ht
      rw [if_neg (by omega), h1, h2]
      simp only [gen_ks.1, hkk.1, if_false]
      rw [if_pos hblen, hnext]
      apply ih (pre ++ serKs k) post base (ptr + 4 + k.key.length) total f key
      · simp [serKs_length]; omega
      · intro x hx; exact hw x (by simp [hx])
      · exact hk
      · omega
      · simp at hf; omega

end HS
