import CloakModel.Model.UserStore

/-! Lemmas for C18: big-endian round trip, Go conversions, keyed lists, the abstract specification
(`US.Spec`: uid ↦ record of six integers, absent = 0, total operations that never panic) and the
step-by-step simulation between the concrete store model and the specification. -/
set_option linter.unusedSimpArgs false
set_option linter.unusedVariables false

namespace US
open GoInt

/-! ### bytes -/

theorem length_beBytes (n v : Nat) : (beBytes n v).length = n := by
  induction n generalizing v with
  | zero => simp [beBytes]
  | succ n ih => simp [beBytes, ih]

theorem beNat_eq_foldl (l : Bytes) : beNat l = l.foldl (fun acc b => acc * 256 + b.toNat) 0 := by
  cases l <;> simp [beNat]

theorem beNat_append_single (l : Bytes) (x : UInt8) : beNat (l ++ [x]) = beNat l * 256 + x.toNat := by
  simp [beNat_eq_foldl, List.foldl_append]

theorem beNat_beBytes (n v : Nat) : beNat (beBytes n v) = v % 256 ^ n := by
  induction n generalizing v with
  | zero => simp [beBytes, beNat, Nat.mod_one]
  | succ n ih =>
    simp only [beBytes]
    rw [beNat_append_single, ih]
    have h1 : (UInt8.ofNat (v % 256)).toNat = v % 256 := by
      simp [UInt8.toNat_ofNat']
    rw [h1, Nat.pow_succ, Nat.mul_comm (256 ^ n) 256, Nat.mod_mul]
    omega

/-! ### keyed lists behave as a map -/

theorem AL.lookup_erase {α} (s : AL α) (k k' : Bytes) :
    (s.erase k).lookup k' = if k' = k then none else s.lookup k' := by
  induction s with
  | nil => simp [AL.erase, AL.lookup]
  | cons p r ih =>
    obtain ⟨a, v⟩ := p
    by_cases h : a = k
    · subst h
      simp only [AL.erase, if_true, AL.lookup, ih]
      by_cases h2 : k' = a
      · simp [h2]
      · have : ¬ a = k' := fun e => h2 e.symm
        simp [h2, this]
    · simp only [AL.erase, h, if_false, AL.lookup, ih]
      by_cases h2 : k' = k
      · subst h2; simp [h]
      · simp [h2]

theorem AL.lookup_set {α} (s : AL α) (k k' : Bytes) (v : α) :
    (s.set k v).lookup k' = if k' = k then some v else s.lookup k' := by
  simp only [AL.set, AL.lookup, AL.lookup_erase]
  by_cases h : k' = k
  · subst h; simp
  · have : ¬ k = k' := fun e => h e.symm
    simp [h, this]

def AL.mapv {α β} (f : α → β) (s : AL α) : AL β := s.map (fun p => (p.1, f p.2))

theorem AL.lookup_mapv {α β} (f : α → β) (s : AL α) (k : Bytes) :
    (AL.mapv f s).lookup k = (s.lookup k).map f := by
  induction s with
  | nil => simp [AL.mapv, AL.lookup]
  | cons p r ih =>
    obtain ⟨a, v⟩ := p
    simp only [AL.mapv, List.map_cons, AL.lookup] at ih ⊢
    by_cases h : a = k <;> simp [h, ih]

theorem AL.erase_mapv {α β} (f : α → β) (s : AL α) (k : Bytes) :
    (AL.mapv f s).erase k = AL.mapv f (s.erase k) := by
  induction s with
  | nil => simp [AL.mapv, AL.erase]
  | cons p r ih =>
    obtain ⟨a, v⟩ := p
    simp only [AL.mapv, List.map_cons, AL.erase] at ih ⊢
    by_cases h : a = k <;> simp [h, ih]

theorem AL.set_mapv {α β} (f : α → β) (s : AL α) (k : Bytes) (v : α) :
    (AL.mapv f s).set k (f v) = AL.mapv f (s.set k v) := by
  simp only [AL.set, AL.erase_mapv]; simp [AL.mapv]

theorem AL.mem_erase {α} (s : AL α) (k : Bytes) (p : Bytes × α) (h : p ∈ s.erase k) : p ∈ s := by
  induction s with
  | nil => simp [AL.erase] at h
  | cons q r ih =>
    obtain ⟨a, v⟩ := q
    simp only [AL.erase] at h
    by_cases hk : a = k
    · simp only [hk, if_true] at h; exact List.mem_cons_of_mem _ (ih h)
    · simp only [hk, if_false, List.mem_cons] at h
      rcases h with h | h
      · subst h; simp
      · exact List.mem_cons_of_mem _ (ih h)

theorem AL.mem_of_lookup {α} (s : AL α) (k : Bytes) (v : α) (h : s.lookup k = some v) : (k, v) ∈ s := by
  induction s with
  | nil => simp [AL.lookup] at h
  | cons q r ih =>
    obtain ⟨a, w⟩ := q
    simp only [AL.lookup] at h
    by_cases hk : a = k
    · simp only [hk, if_true, Option.some.injEq] at h; subst h; subst hk; simp
    · simp only [hk, if_false] at h; exact List.mem_cons_of_mem _ (ih h)

/-! ### the abstract specification: a keyed store of records -/

abbrev AStore := AL Rec

def Rec.zero : Rec := ⟨0, 0, 0, 0, 0, 0⟩

/-- a field mentioned in the request takes the new value, any other keeps its value -/
def orKeep : Option Int → Int → Int
  | some x, _ => x
  | none, old => old

def Rec.update (r : Rec) (i : Info) : Rec :=
  ⟨orKeep i.cap r.cap, orKeep i.upRate r.upRate, orKeep i.downRate r.downRate,
   orKeep i.upCredit r.upCredit, orKeep i.downCredit r.downCredit, orKeep i.expiry r.expiry⟩

/-- a user that does not exist yet starts from all-zero fields -/
def recOrNew : Option Rec → Rec
  | none => Rec.zero
  | some r => r

namespace Spec

def post (a : AStore) (u : Url) (b : Body) : AStore × Nat :=
  match u, b with
  | .ok uid, .ok i =>
    if uid ≠ i.uid then (a, 400)
    else if i.uid = [] then (a, 500)
    else (a.set i.uid ((recOrNew (a.lookup i.uid)).update i), 201)
  | _, _ => (a, 400)

def get (a : AStore) : Url → Nat × Option Rec
  | .ok uid =>
    match a.lookup uid with
    | none => (404, none)
    | some r => (200, some r)
  | _ => (400, none)

def del (a : AStore) : Url → AStore × Nat
  | .ok uid =>
    match a.lookup uid with
    | none => (a, 500)
    | some _ => (a.erase uid, 200)
  | _ => (a, 400)

def authRec (r : Rec) (now : Int) : AuthRes :=
  if r.upCredit ≤ 0 then .noUp
  else if r.downCredit ≤ 0 then .noDown
  else if r.expiry < now then .expired
  else .ok r.upRate r.downRate

def auth (a : AStore) (uid : Bytes) (now : Int) : AuthRes :=
  match a.lookup uid with
  | none => .notFound
  | some r => authRec r now

/-- the session cap is interpreted as an unsigned 32-bit number -/
def authz (a : AStore) (uid : Bytes) (n now : Int) : AuthzRes :=
  match a.lookup (pad16 uid) with
  | none => .notFound
  | some r =>
    if r.upCredit ≤ 0 then .noUp
    else if r.downCredit ≤ 0 then .noDown
    else if r.expiry < now then .expired
    else if n ≥ (toU32 r.cap : Nat) then .capReached
    else .ok

def uploadOne (now : Int) (acc : AStore × List (Bytes × Msg)) (u : Upd) : AStore × List (Bytes × Msg) :=
  match acc.1.lookup u.uid with
  | none => (acc.1, acc.2 ++ [(u.uid, .gone)])
  | some r =>
    let newUp := wrap64 (r.upCredit - u.up)
    let newDown := wrap64 (r.downCredit - u.down)
    (acc.1.set u.uid { r with upCredit := newUp, downCredit := newDown },
     acc.2 ++ (if newUp ≤ 0 then [(u.uid, Msg.noUp)] else []) ++ (if newDown ≤ 0 then [(u.uid, Msg.noDown)] else [])
       ++ (if now > r.expiry then [(u.uid, Msg.expired)] else []))

def upload (a : AStore) (ups : List Upd) (now : Int) : AStore × List (Bytes × Msg) :=
  ups.foldl (uploadOne now) (a, [])

/-- a user whose stored rate is not positive is refused, never activated -/
def getUser (a : AStore) (uid : Bytes) (now : Int) : UserRes :=
  match auth a uid now with
  | .ok up down => if up ≤ 0 ∨ down ≤ 0 then .badRate else .active
  | r => .refused r

/-- one operation on the abstract store; total, no panic outcome -/
def step (a : AStore) : Op → AStore × Out
  | .post u b => let r := post a u b; (r.1, .status r.2)
  | .get u => let r := get a u; (a, .info r.1 r.2)
  | .list => (a, .users a)
  | .del u => let r := del a u; (r.1, .status r.2)
  | .auth uid now => (a, .auth (auth a uid now))
  | .authz uid n now => (a, .authz (authz a uid n now))
  | .upload ups now => let r := upload a ups now; (r.1, .resps r.2)
  | .getUser uid now => (a, .user (getUser a uid now))
  | .reopen => (a, .ok)

def run : AStore → List Op → AStore × List Out
  | a, [] => (a, [])
  | a, op :: ops =>
    let r := step a op
    let rest := run r.1 ops
    (rest.1, r.2 :: rest.2)

end Spec

/-! ### abstraction function and well-formedness -/

/-- unsigned value stored under a key; an absent key counts as 0 -/
def valU (k : Key) (v : Option Bytes) : Nat := beNat ((gotten v).take k.width)

def recOf (b : Bucket) : Rec :=
  ⟨toS32 (valU .cap (b .cap)), toS64 (valU .upRate (b .upRate)), toS64 (valU .downRate (b .downRate)),
   toS64 (valU .upCredit (b .upCredit)), toS64 (valU .downCredit (b .downCredit)), toS64 (valU .expiry (b .expiry))⟩

def abs (s : Store) : AStore := AL.mapv recOf s

/-- every stored value was produced by the encoder of its key -/
def WFB (b : Bucket) : Prop := ∀ k bs, b k = some bs → ∃ v : Int, bs = enc k v
def WFS (s : Store) : Prop := ∀ p ∈ s, WFB p.2

/-- what the repaired tree guarantees about the five places -/
structure Good (F : Facts) : Prop where
  g8_absent : F.g8 0 = true
  g8_full : F.g8 8 = false
  g4_absent : F.g4 0 = true
  g4_full : F.g4 4 = false
  ret : F.postRetMismatch = true
  valve : ∀ up down, F.valveGuard up down = true ↔ (up ≤ 0 ∨ down ≤ 0)
  copy : F.listCopiesUID = true

theorem enc_length (k : Key) (v : Int) : (enc k v).length = k.width := by
  cases k <;> simp [enc, Key.width, length_beBytes]

theorem valU_none (k : Key) : valU k none = 0 := by simp [valU, gotten, beNat]

theorem valU_enc (k : Key) (v : Int) :
    valU k (some (enc k v)) = (match k with | .cap => toU32 v | _ => toU64 v) := by
  have hl := enc_length k v
  unfold valU gotten
  simp only
  rw [List.take_of_length_le (by omega)]
  cases k <;> simp only [enc, beNat_beBytes]
  · have := toU32_lt v; omega
  all_goals (have := toU64_lt v; omega)

theorem valU_cap_lt (b : Bucket) (h : WFB b) : valU .cap (b .cap) < 4294967296 := by
  cases hb : b .cap with
  | none => simp [valU_none]
  | some bs =>
    obtain ⟨v, rfl⟩ := h _ _ hb
    rw [valU_enc]; exact toU32_lt v

theorem WFB_empty : WFB Bucket.empty := by intro k bs h; simp [Bucket.empty] at h

theorem WFB_set (b : Bucket) (h : WFB b) (k : Key) (v : Int) : WFB (b.set k (enc k v)) := by
  intro k' bs hb
  simp only [Bucket.set] at hb
  by_cases e : k' = k
  · subst e; simp only [if_true, Option.some.injEq] at hb; exact ⟨v, hb.symm⟩
  · simp only [e, if_false] at hb; exact h _ _ hb

theorem WFS_lookup (s : Store) (h : WFS s) (uid : Bytes) (b : Bucket) (hb : s.lookup uid = some b) : WFB b :=
  h _ (AL.mem_of_lookup s uid b hb)

theorem WFS_erase (s : Store) (h : WFS s) (uid : Bytes) : WFS (s.erase uid) :=
  fun p hp => h p (AL.mem_erase s uid p hp)

theorem WFS_set (s : Store) (h : WFS s) (uid : Bytes) (b : Bucket) (hb : WFB b) : WFS (s.set uid b) := by
  intro p hp
  simp only [AL.set, List.mem_cons] at hp
  rcases hp with rfl | hp
  · exact hb
  · exact WFS_erase s h uid p hp

/-! ### decoding under the repaired guards -/

theorem dec64_ok (F : Facts) (hF : Good F) (k : Key) (hk : k.width = 8) (v : Option Bytes)
    (hv : ∀ bs, v = some bs → ∃ x : Int, bs = enc k x) : dec64 F v = .ok (valU k v) := by
  cases v with
  | none => simp [dec64, decU, gotten, hF.g8_absent, valU, beNat]
  | some bs =>
    obtain ⟨x, rfl⟩ := hv bs rfl
    have hl := enc_length k x
    simp [dec64, decU, gotten, hl, hk, hF.g8_full, valU, Gen.Store.decWidth_u64]

theorem dec32_ok (F : Facts) (hF : Good F) (v : Option Bytes)
    (hv : ∀ bs, v = some bs → ∃ x : Int, bs = enc .cap x) : dec32 F v = .ok (valU .cap v) := by
  cases v with
  | none => simp [dec32, decU, gotten, hF.g4_absent, valU, beNat]
  | some bs =>
    obtain ⟨x, rfl⟩ := hv bs rfl
    have hl := enc_length .cap x
    simp [Key.width] at hl
    simp [dec32, decU, gotten, hl, hF.g4_full, valU, Gen.Store.decWidth_u32, Key.width]

theorem readRec_ok (F : Facts) (hF : Good F) (b : Bucket) (hb : WFB b) : readRec F b = .ok (recOf b) := by
  unfold readRec
  rw [dec32_ok F hF _ (hb .cap), dec64_ok F hF .upRate rfl _ (hb .upRate), dec64_ok F hF .downRate rfl _ (hb .downRate),
    dec64_ok F hF .upCredit rfl _ (hb .upCredit), dec64_ok F hF .downCredit rfl _ (hb .downCredit),
    dec64_ok F hF .expiry rfl _ (hb .expiry)]
  rfl

end US
