import CloakModel.Model.HsReply

/-! Byte-level lemmas for the handshake layouts: slices of concatenations, `blit`, `fit`,
big-endian round trips, `bytes.Trim`. -/
set_option linter.unusedSimpArgs false
set_option linter.unusedVariables false

namespace HS

theorem slice_mid (a b c : Bytes) : slice (a ++ b ++ c) a.length (a.length + b.length) = b := by
  simp [slice, List.append_assoc]

theorem slice_mid' (a b c : Bytes) (lo hi : Nat) (hlo : lo = a.length) (hhi : hi = a.length + b.length) :
    slice (a ++ b ++ c) lo hi = b := by subst hlo; subst hhi; exact slice_mid a b c

theorem slice_prefix (b c : Bytes) (hi : Nat) (h : hi = b.length) : slice (b ++ c) 0 hi = b := by
  subst h; simp [slice]

theorem fit_eq (n : Nat) (x : Bytes) (h : x.length = n) : fit n x = x := by
  subst h; simp [fit, zeros]

theorem fit_length (n : Nat) (x : Bytes) : (fit n x).length = n := by
  simp [fit, zeros]; omega

theorem zeros_length (n : Nat) : (zeros n).length = n := by simp [zeros]

/-- writing `data` (exactly `hi - lo` bytes) over a region of a buffer laid out as `a ++ old ++ c` -/
theorem blit_mid (a old c data : Bytes) (lo hi : Nat) (hlo : lo = a.length) (hhi : hi = a.length + old.length)
    (hd : data.length = old.length) : blit (a ++ old ++ c) lo hi data = a ++ data ++ c := by
  subst hlo; subst hhi
  simp only [blit]
  have h1 : a.length + old.length - a.length = old.length := by omega
  rw [h1, ← hd, List.take_length, List.append_assoc a old c, List.take_left' rfl]
  rw [← List.append_assoc a old c, hd]
  have : (a ++ old ++ c).drop (a.length + old.length) = c := by
    rw [List.drop_left' (by simp)]
  rw [this]

/-- a shorter `data` leaves the tail of the region untouched -/
theorem blit_short (a old c data : Bytes) (lo hi : Nat) (hlo : lo = a.length) (hhi : hi = a.length + old.length)
    (hd : data.length ≤ old.length) : blit (a ++ old ++ c) lo hi data = a ++ data ++ old.drop data.length ++ c := by
  subst hlo; subst hhi
  simp only [blit]
  have h1 : a.length + old.length - a.length = old.length := by omega
  rw [h1, List.take_of_length_le hd, List.append_assoc a old c, List.take_left' rfl]
  have : (a ++ (old ++ c)).drop (a.length + data.length) = old.drop data.length ++ c := by
    rw [List.drop_append]
    have h2 : a.length + data.length - a.length = data.length := by omega
    have h3 : a.drop (a.length + data.length) = [] := List.drop_eq_nil_of_le (by omega)
    rw [h2, h3, List.nil_append, List.drop_append_of_le_length hd]
  rw [this]; simp [List.append_assoc]

theorem beBytes_length : ∀ (n v : Nat), (beBytes n v).length = n
  | 0, _ => rfl
  | n+1, v => by simp [beBytes, beBytes_length n]

theorem foldl_be (l : Bytes) (acc : Nat) :
    l.foldl (fun a b => a * 256 + b.toNat) acc = acc * 256 ^ l.length + l.foldl (fun a b => a * 256 + b.toNat) 0 := by
  induction l generalizing acc with
  | nil => simp
  | cons x xs ih =>
    simp only [List.foldl_cons, List.length_cons]
    rw [ih (acc * 256 + x.toNat), ih (0 * 256 + x.toNat)]
    rw [Nat.pow_succ]
    simp [Nat.add_mul, Nat.mul_assoc, Nat.mul_comm 256, Nat.add_assoc]

theorem beNat_eq (l : Bytes) : beNat l = l.foldl (fun a b => a * 256 + b.toNat) 0 := by
  cases l <;> rfl

theorem beNat_append (a b : Bytes) : beNat (a ++ b) = beNat a * 256 ^ b.length + beNat b := by
  rw [beNat_eq, beNat_eq, beNat_eq, List.foldl_append, foldl_be]

theorem beNat_beBytes : ∀ (n v : Nat), beNat (beBytes n v) = v % 256 ^ n
  | 0, v => by simp [beBytes, beNat, Nat.mod_one]
  | n+1, v => by
    rw [beBytes, beNat_append, beNat_beBytes n (v / 256)]
    have h1 : beNat [UInt8.ofNat (v % 256)] = v % 256 := by
      simp [beNat, UInt8.toNat_ofNat']
    rw [h1]
    simp only [List.length_cons, List.length_nil, Nat.zero_add, Nat.pow_one]
    rw [Nat.pow_succ, Nat.mul_comm (256 ^ n) 256, Nat.mod_mul, Nat.add_comm, Nat.mul_comm]

theorem beNat_beBytes_lt (n v : Nat) (h : v < 256 ^ n) : beNat (beBytes n v) = v := by
  rw [beNat_beBytes, Nat.mod_eq_of_lt h]

theorem i64_u64 (t : Int) (h1 : -9223372036854775808 ≤ t) (h2 : t < 9223372036854775808) :
    i64OfNat (u64OfInt t) = t := by
  unfold i64OfNat u64OfInt
  by_cases ht : 0 ≤ t
  · have : t % 18446744073709551616 = t := Int.emod_eq_of_lt ht (by omega)
    rw [this]
    have h3 : (t.toNat : Int) = t := Int.toNat_of_nonneg ht
    split <;> omega
  · have : t % 18446744073709551616 = t + 18446744073709551616 := by
      have := Int.emod_emod_of_dvd t (Int.dvd_refl 18446744073709551616)
      rw [← Int.add_emod_right]
      exact Int.emod_eq_of_lt (by omega) (by omega)
    rw [this]
    have h3 : ((t + 18446744073709551616).toNat : Int) = t + 18446744073709551616 := Int.toNat_of_nonneg (by omega)
    split <;> omega

theorem u64_lt (t : Int) : u64OfInt t < 256 ^ 8 := by
  unfold u64OfInt
  have h := Int.emod_lt_of_pos t (show (0 : Int) < 18446744073709551616 by decide)
  have h0 := Int.emod_nonneg t (show (18446744073709551616 : Int) ≠ 0 by decide)
  have : (256 : Nat) ^ 8 = 18446744073709551616 := by decide
  rw [this]
  omega

/-- `bytes.Trim(m ++ zeros k, "\x00") = m` when `m` neither starts nor ends with a NUL -/
theorem trim_padded (m : Bytes) (k : Nat) (hh : m.head? ≠ some 0) (hl : m.getLast? ≠ some 0) :
    trim [0] (m ++ zeros k) = m := by
  unfold trim
  have hin : ∀ x : UInt8, ([0] : List Nat).contains x.toNat = decide (x = 0) := by
    intro x
    simp only [List.contains_cons, List.contains_nil, Bool.or_false, beq_iff_eq]
    rw [Bool.eq_iff_iff]; simp only [beq_iff_eq, decide_eq_true_eq]
    constructor
    · intro h; exact UInt8.toNat_inj.1 (by simpa using h)
    · intro h; subst h; rfl
  have hfun : (fun (x : UInt8) => ([0] : List Nat).contains x.toNat) = fun x => decide (x = 0) := funext hin
  simp only [hfun]
  cases m with
  | nil =>
    simp only [List.nil_append]
    have : ∀ k, (zeros k).dropWhile (fun x => decide (x = 0)) = [] := by
      intro k
      induction k with
      | zero => simp [zeros]
      | succ n ih => simpa [zeros, List.replicate_succ, List.dropWhile_cons] using ih
    simp [this k]
  | cons a as =>
    have ha : a ≠ 0 := by intro h; apply hh; simp [h]
    have h1 : ((a :: as) ++ zeros k).dropWhile (fun x => decide (x = 0)) = (a :: as) ++ zeros k := by
      simp [List.dropWhile_cons, ha]
    rw [h1, List.reverse_append]
    have hz : (zeros k).reverse = zeros k := by simp [zeros]
    rw [hz]
    have h2 : ∀ (k : Nat) (r : Bytes), (zeros k ++ r).dropWhile (fun x => decide (x = 0)) = r.dropWhile (fun x => decide (x = 0)) := by
      intro k r
      induction k with
      | zero => simp [zeros]
      | succ n ih => simpa [zeros, List.replicate_succ, List.dropWhile_cons] using ih
    rw [h2]
    have hlast : (a :: as).reverse.head? ≠ some 0 := by
      rw [List.head?_reverse]; exact hl
    cases hr : (a :: as).reverse with
    | nil => simp at hr
    | cons b bs =>
      rw [hr] at hlast
      have hb : b ≠ 0 := by intro h; apply hlast; simp [h]
      simp only [List.dropWhile_cons, hb, decide_false, Bool.false_eq_true, if_false]
      rw [← hr, List.reverse_reverse]

end HS
