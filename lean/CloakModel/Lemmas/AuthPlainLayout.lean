import CloakModel.Lemmas.HsBytes

/-! Layout of the client's 48-byte authentication plaintext and the server's reading of it. -/
set_option linter.unusedSimpArgs false
set_option linter.unusedVariables false

namespace HS
open Gen.Handshake

theorem zeros_add (a b : Nat) : zeros (a + b) = zeros a ++ zeros b := by
  simp [zeros, List.replicate_append_replicate]

theorem zeros_drop (n k : Nat) : (zeros n).drop k = zeros (n - k) := by
  simp [zeros]

/-- the flag byte the client writes -/
def flagByte (u : Bool) : UInt8 := if u then (0 ||| UInt8.ofNat cFlagMask) else 0

/-- client offsets as regenerated from `makeAuthenticationPayload` -/
theorem gen_client_layout :
    cPlainLen = 48 ∧ cUidAtZero = true ∧ cMethodLo = 16 ∧ cMethodHi = 28 ∧ cEncIdx = 28 ∧ cTsLo = 29 ∧ cTsHi = 37 ∧
    cSidLo = 37 ∧ cSidHi = 41 ∧ cFlagIdx = 41 ∧ cFlagMask = 1 ∧ cNonceLo = 0 ∧ cNonceHi = 12 ∧
    cTsIsUnixSeconds = true ∧ cSealArgs = true ∧ cPayloadShape = true := by decide

/-- server offsets as regenerated from `decryptClientInfo` -/
theorem gen_server_layout :
    sUidLo = 0 ∧ sUidHi = 16 ∧ sMethodLo = 16 ∧ sMethodHi = 28 ∧ sEncIdx = 28 ∧ sTsLo = 29 ∧ sTsHi = 37 ∧
    sSidLo = 37 ∧ sSidHi = 41 ∧ sFlagIdx = 41 ∧ sFlagMask = 1 ∧ sNonceLo = 0 ∧ sNonceHi = 12 ∧ sTrimCutset = [0] ∧
    sOpenArgs = true := by decide

/-- **the plaintext, spelled out**: UID16 ‖ method padded to 12 ‖ enc ‖ be64 ts ‖ be32 sid ‖ flags ‖ 6 zero -/
theorem mkPlain_layout (a : AuthInfo) (ts : Int) (hu : a.uid.length = 16) (hm : a.method.length ≤ 12) :
    mkPlain a ts =
      a.uid ++ (a.method ++ zeros (12 - a.method.length)) ++ [a.enc] ++ beBytes 8 (u64OfInt ts) ++ beBytes 4 a.sid ++
      [flagByte a.unordered] ++ zeros 6 := by
  obtain ⟨h1, _, h3, h4, h5, h6, h7, h8, h9, h10, h11, _⟩ := gen_client_layout
  unfold mkPlain
  simp only [h1, h3, h4, h5, h6, h7, h8, h9, h10]
  -- p1
  have p1 : blit (zeros 48) 0 48 a.uid = a.uid ++ zeros 32 := by
    have hz : zeros 48 = [] ++ zeros 48 ++ [] := by simp
    rw [hz, blit_short [] (zeros 48) [] a.uid 0 48 rfl (by simp [zeros]) (by simp [zeros, hu])]
    simp [zeros_drop, hu]
  rw [p1]
  -- p2
  have p2 : blit (a.uid ++ zeros 32) 16 28 a.method = a.uid ++ (a.method ++ zeros (12 - a.method.length)) ++ zeros 20 := by
    have hz : a.uid ++ zeros 32 = a.uid ++ zeros 12 ++ zeros 20 := by rw [List.append_assoc, ← zeros_add]
    rw [hz, blit_short a.uid (zeros 12) (zeros 20) a.method 16 28 hu.symm (by simp [zeros, hu]) (by simpa [zeros] using hm)]
    simp [zeros_drop, List.append_assoc]
  rw [p2]
  have hlen2 : (a.uid ++ (a.method ++ zeros (12 - a.method.length))).length = 28 := by
    simp [zeros, hu]; omega
  -- p3
  have p3 : blit (a.uid ++ (a.method ++ zeros (12 - a.method.length)) ++ zeros 20) 28 (28 + 1) [a.enc] =
      a.uid ++ (a.method ++ zeros (12 - a.method.length)) ++ [a.enc] ++ zeros 19 := by
    have hz : a.uid ++ (a.method ++ zeros (12 - a.method.length)) ++ zeros 20 =
        (a.uid ++ (a.method ++ zeros (12 - a.method.length))) ++ zeros 1 ++ zeros 19 := by
      rw [List.append_assoc _ (zeros 1), ← zeros_add]
    rw [hz, blit_mid _ (zeros 1) (zeros 19) [a.enc] 28 (28 + 1) hlen2.symm (by rw [hlen2]; simp [zeros]) (by simp [zeros])]
  rw [p3]
  have hlen3 : (a.uid ++ (a.method ++ zeros (12 - a.method.length)) ++ [a.enc]).length = 29 := by
    rw [List.length_append, hlen2]; rfl
  -- p4
  have p4 : blit (a.uid ++ (a.method ++ zeros (12 - a.method.length)) ++ [a.enc] ++ zeros 19) 29 37 (beBytes 8 (u64OfInt ts)) =
      a.uid ++ (a.method ++ zeros (12 - a.method.length)) ++ [a.enc] ++ beBytes 8 (u64OfInt ts) ++ zeros 11 := by
    have hz : a.uid ++ (a.method ++ zeros (12 - a.method.length)) ++ [a.enc] ++ zeros 19 =
        (a.uid ++ (a.method ++ zeros (12 - a.method.length)) ++ [a.enc]) ++ zeros 8 ++ zeros 11 := by
      rw [List.append_assoc _ (zeros 8), ← zeros_add]
    rw [hz, blit_mid _ (zeros 8) (zeros 11) _ 29 37 hlen3.symm (by rw [hlen3]; simp [zeros]) (by simp [zeros, beBytes_length])]
  rw [p4]
  have hlen4 : (a.uid ++ (a.method ++ zeros (12 - a.method.length)) ++ [a.enc] ++ beBytes 8 (u64OfInt ts)).length = 37 := by
    rw [List.length_append, hlen3, beBytes_length]
  -- p5
  have p5 : blit (a.uid ++ (a.method ++ zeros (12 - a.method.length)) ++ [a.enc] ++ beBytes 8 (u64OfInt ts) ++ zeros 11) 37 41 (beBytes 4 a.sid) =
      a.uid ++ (a.method ++ zeros (12 - a.method.length)) ++ [a.enc] ++ beBytes 8 (u64OfInt ts) ++ beBytes 4 a.sid ++ zeros 7 := by
    have hz : a.uid ++ (a.method ++ zeros (12 - a.method.length)) ++ [a.enc] ++ beBytes 8 (u64OfInt ts) ++ zeros 11 =
        (a.uid ++ (a.method ++ zeros (12 - a.method.length)) ++ [a.enc] ++ beBytes 8 (u64OfInt ts)) ++ zeros 4 ++ zeros 7 := by
      rw [List.append_assoc _ (zeros 4), ← zeros_add]
    rw [hz, blit_mid _ (zeros 4) (zeros 7) _ 37 41 hlen4.symm (by rw [hlen4]; simp [zeros]) (by simp [zeros, beBytes_length])]
  rw [p5]
  have hlen5 : (a.uid ++ (a.method ++ zeros (12 - a.method.length)) ++ [a.enc] ++ beBytes 8 (u64OfInt ts) ++ beBytes 4 a.sid).length = 41 := by
    rw [List.length_append, hlen4, beBytes_length]
  have hz7 : a.uid ++ (a.method ++ zeros (12 - a.method.length)) ++ [a.enc] ++ beBytes 8 (u64OfInt ts) ++ beBytes 4 a.sid ++ zeros 7 =
      (a.uid ++ (a.method ++ zeros (12 - a.method.length)) ++ [a.enc] ++ beBytes 8 (u64OfInt ts) ++ beBytes 4 a.sid) ++ zeros 1 ++ zeros 6 := by
    rw [List.append_assoc _ (zeros 1), ← zeros_add]
  cases hun : a.unordered with
  | false =>
    simp only [Bool.false_eq_true, if_false, flagByte]
    rw [hz7]; simp [zeros]
  | true =>
    simp only [if_true, flagByte]
    have hs : slice (a.uid ++ (a.method ++ zeros (12 - a.method.length)) ++ [a.enc] ++ beBytes 8 (u64OfInt ts) ++ beBytes 4 a.sid ++ zeros 7) 41 (41 + 1) = zeros 1 := by
      rw [hz7]; exact slice_mid' _ (zeros 1) (zeros 6) 41 (41 + 1) hlen5.symm (by rw [hlen5]; simp [zeros])
    rw [hs, hz7, blit_mid _ (zeros 1) (zeros 6) _ 41 (41 + 1) hlen5.symm (by rw [hlen5]; simp [zeros]) (by simp [zeros])]
    simp [zeros]

theorem mkPlain_length (a : AuthInfo) (ts : Int) (hu : a.uid.length = 16) (hm : a.method.length ≤ 12) :
    (mkPlain a ts).length = 48 := by
  rw [mkPlain_layout a ts hu hm]
  simp [zeros, beBytes_length, hu]; omega

end HS
