import CloakModel.Model.GoHeap

/-! Lemmas about `GoHeap.up`/`down`: the binary-heap invariant, permutation, untouched slots. -/

namespace HeapCore
open GoHeap RB

/-- sequence number in slot `k` (proof device only; slots beyond the array read 0 and are never compared) -/
def key (a : Heap) (k : Nat) : Nat := match a[k]? with | some f => f.seq | none => 0

theorem key_eq (a : Heap) (k : Nat) (h : k < a.size) : key a k = a[k].seq := by
  simp [key, h]

theorem key_swap (a : Heap) (i j : Nat) (hi : i < a.size) (hj : j < a.size) (k : Nat) :
    key (a.swap i j hi hj) k = if k = j then key a i else if k = i then key a j else key a k := by
  unfold key
  rw [Array.getElem?_swap]
  by_cases h1 : j = k
  · subst h1; simp [hi]
  · by_cases h2 : i = k
    · subst h2; simp [h1, hj, Ne.symm h1]
    · simp [h1, h2, Ne.symm h1, Ne.symm h2]

/-- the extracted comparison of `sorterHeap.Less` is `<` on the sequence numbers -/
theorem gen_less (x y : Nat) : Gen.Heap.shLess (x : Int) (y : Int) = decide (x < y) := by
  unfold Gen.Heap.shLess
  by_cases h : x < y <;> simp [h] <;> omega

theorem less_iff (a : Heap) (i j : Nat) (hi : i < a.size) (hj : j < a.size) :
    less a i j hi hj = true ↔ key a i < key a j := by
  unfold less; rw [gen_less, key_eq a i hi, key_eq a j hj]; simp

theorem gen_parent (j : Nat) : Gen.Heap.upParent j = (j - 1) / 2 := by unfold Gen.Heap.upParent; omega
theorem gen_left (i : Nat) : Gen.Heap.downLeft i = 2 * i + 1 := by unfold Gen.Heap.downLeft; omega
theorem gen_right (j : Nat) : Gen.Heap.downRight j = j + 1 := by unfold Gen.Heap.downRight; omega

/-- binary min-heap order on the first `n` slots -/
def HeapInv (a : Heap) (n : Nat) : Prop := ∀ k p, 0 < k → k < n → p = (k - 1) / 2 → key a p ≤ key a k

/-- heap order except at `j` (which may be smaller than its parent); the parent of `j` is below `j`'s children -/
def UpInv (a : Heap) (j : Nat) : Prop :=
  (∀ k p, 0 < k → k < a.size → p = (k - 1) / 2 → k ≠ j → key a p ≤ key a k) ∧
  (∀ k, 0 < k → k < a.size → (k - 1) / 2 = j → 0 < j → key a ((j - 1) / 2) ≤ key a k)

theorem upinv_swap (a : Heap) (i j : Nat) (hi : i < a.size) (hj : j < a.size) (hie : i = (j - 1) / 2) (hij : i ≠ j)
    (hlt : key a j < key a i) (inv : UpInv a j) : UpInv (a.swap i j hi hj) i := by
  obtain ⟨inv1, inv2⟩ := inv
  have f3 : 0 < i → key a ((i - 1) / 2) ≤ key a i := fun h => inv1 i _ h hi rfl (by omega)
  constructor
  · intro k p hk hks hp hki
    simp only [Array.size_swap] at hks
    have f1 := inv1 k p hk hks hp
    have f2 := inv2 k hk hks
    rw [key_swap, key_swap]
    by_cases e1 : k = j
    · subst e1
      have : p = i := by omega
      subst this
      simp [hij]; omega
    · have f1' := f1 e1
      simp only [e1, hki, if_false]
      by_cases e2 : p = j
      · subst e2; simp only [if_true]
        have := f2 (by omega) (by omega)
        rw [← hie] at this; exact this
      · by_cases e3 : p = i
        · subst e3; simp [e2]; omega
        · simp [e2, e3]; exact f1'
  · intro k hk hks hpk hi0
    simp only [Array.size_swap] at hks
    rw [key_swap, key_swap]
    have q1 : (i - 1) / 2 ≠ j := by omega
    have q2 : (i - 1) / 2 ≠ i := by omega
    have q3 : k ≠ i := by omega
    simp only [q1, q2, q3, if_false]
    have f3' := f3 hi0
    by_cases e1 : k = j
    · simp [e1]; exact f3'
    · simp [e1]
      have := inv1 k i hk hks (by omega) e1
      omega

theorem up_heap : ∀ (fuel : Nat) (a : Heap) (j : Nat) (hj : j < a.size), j < fuel → UpInv a j →
    HeapInv (up fuel a j hj) a.size
  | 0, _, _, _, hf, _ => by omega
  | fuel+1, a, j, hj, hf, inv => by
    unfold up
    simp only [gen_parent]
    split
    · rename_i hb
      intro k p hk hks hp
      by_cases hkj : k = j
      · subst hkj
        rcases hb with hb | hb
        · omega
        · rw [less_iff] at hb; subst hp; omega
      · exact inv.1 k p hk hks hp hkj
    · rename_i hb
      have hij : (j - 1) / 2 ≠ j := fun h => hb (Or.inl h)
      have hi : (j - 1) / 2 < a.size := by omega
      have hlt : key a j < key a ((j - 1) / 2) := by
        have : less a j ((j - 1) / 2) hj hi = true := by
          by_cases h : less a j ((j - 1) / 2) hj hi = true
          · exact h
          · exact absurd (Or.inr h) hb
        exact (less_iff ..).1 this
      have := up_heap fuel (a.swap ((j - 1) / 2) j hi hj) ((j - 1) / 2) (by simpa using hi) (by omega)
        (upinv_swap a _ j hi hj rfl hij hlt inv)
      simpa using this

end HeapCore
