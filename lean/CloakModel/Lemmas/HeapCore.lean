import CloakModel.Model.GoHeap

/-! Lemmas about `GoHeap.up`/`down`: the binary-heap invariant, permutation, untouched slots. -/

namespace HeapCore
open GoHeap RB

/-- sequence number in slot `k` (proof device only; slots beyond the array read 0 and are never compared) -/
def key (a : Heap) (k : Nat) : Nat := match a[k]? with | some f => f.seq | none => 0

theorem key_eq (a : Heap) (k : Nat) (h : k < a.size) : key a k = a[k].seq := by
  simp [key, h]

theorem key_swap (a : Heap) (i j : Nat) (hi : i < a.size) (hj : j < a.size) (k : Nat) :
    key (a.swap i j hi hj) k = if k = j then key a i else if k = i then key a j else key a k := by
  unfold key
  rw [Array.getElem?_swap]
  by_cases h1 : j = k
  · subst h1; simp [hi]
  · by_cases h2 : i = k
    · subst h2; simp [h1, hj, Ne.symm h1]
    · simp [h1, h2, Ne.symm h1, Ne.symm h2]

/-- the extracted comparison of `sorterHeap.Less` is `<` on the sequence numbers -/
theorem gen_less (x y : Nat) : Gen.Heap.shLess (x : Int) (y : Int) = decide (x < y) := by
  unfold Gen.Heap.shLess
  by_cases h : x < y <;> simp [h] <;> omega

theorem less_iff (a : Heap) (i j : Nat) (hi : i < a.size) (hj : j < a.size) :
    less a i j hi hj = true ↔ key a i < key a j := by
  unfold less; rw [gen_less, key_eq a i hi, key_eq a j hj]; simp

theorem gen_parent (j : Nat) : Gen.Heap.upParent j = (j - 1) / 2 := by unfold Gen.Heap.upParent; omega
theorem gen_left (i : Nat) : Gen.Heap.downLeft i = 2 * i + 1 := by unfold Gen.Heap.downLeft; omega
theorem gen_right (j : Nat) : Gen.Heap.downRight j = j + 1 := by unfold Gen.Heap.downRight; omega

/-- binary min-heap order on the first `n` slots -/
def HeapInv (a : Heap) (n : Nat) : Prop := ∀ k p, 0 < k → k < n → p = (k - 1) / 2 → key a p ≤ key a k

/-- heap order except at `j` (which may be smaller than its parent); the parent of `j` is below `j`'s children -/
def UpInv (a : Heap) (j : Nat) : Prop :=
  (∀ k p, 0 < k → k < a.size → p = (k - 1) / 2 → k ≠ j → key a p ≤ key a k) ∧
  (∀ k, 0 < k → k < a.size → (k - 1) / 2 = j → 0 < j → key a ((j - 1) / 2) ≤ key a k)

theorem upinv_swap (a : Heap) (i j : Nat) (hi : i < a.size) (hj : j < a.size) (hie : i = (j - 1) / 2) (hij : i ≠ j)
    (hlt : key a j < key a i) (inv : UpInv a j) : UpInv (a.swap i j hi hj) i := by
  obtain ⟨inv1, inv2⟩ := inv
  have f3 : 0 < i → key a ((i - 1) / 2) ≤ key a i := fun h => inv1 i _ h hi rfl (by omega)
  constructor
  · intro k p hk hks hp hki
    simp only [Array.size_swap] at hks
    have f1 := inv1 k p hk hks hp
    have f2 := inv2 k hk hks
    rw [key_swap, key_swap]
    by_cases e1 : k = j
    · subst e1
      have : p = i := by omega
      subst this
      simp [hij]; omega
    · have f1' := f1 e1
      simp only [e1, hki, if_false]
      by_cases e2 : p = j
      · subst e2; simp only [if_true]
        have := f2 (by omega) (by omega)
        rw [← hie] at this; exact this
      · by_cases e3 : p = i
        · subst e3; simp [e2]; omega
        · simp [e2, e3]; exact f1'
  · intro k hk hks hpk hi0
    simp only [Array.size_swap] at hks
    rw [key_swap, key_swap]
    have q1 : (i - 1) / 2 ≠ j := by omega
    have q2 : (i - 1) / 2 ≠ i := by omega
    have q3 : k ≠ i := by omega
    simp only [q1, q2, q3, if_false]
    have f3' := f3 hi0
    by_cases e1 : k = j
    · simp [e1]; exact f3'
    · simp [e1]
      have := inv1 k i hk hks (by omega) e1
      omega

theorem up_heap : ∀ (fuel : Nat) (a : Heap) (j : Nat) (hj : j < a.size), j < fuel → UpInv a j →
    HeapInv (up fuel a j hj) a.size
  | 0, _, _, _, hf, _ => by omega
  | fuel+1, a, j, hj, hf, inv => by
    unfold up
    simp only [gen_parent]
    split
    · rename_i hb
      intro k p hk hks hp
      by_cases hkj : k = j
      · subst hkj
        rcases hb with hb | hb
        · omega
        · rw [less_iff] at hb; subst hp; omega
      · exact inv.1 k p hk hks hp hkj
    · rename_i hb
      have hij : (j - 1) / 2 ≠ j := fun h => hb (Or.inl h)
      have hi : (j - 1) / 2 < a.size := by omega
      have hlt : key a j < key a ((j - 1) / 2) := by
        have : less a j ((j - 1) / 2) hj hi = true := by
          by_cases h : less a j ((j - 1) / 2) hj hi = true
          · exact h
          · exact absurd (Or.inr h) hb
        exact (less_iff ..).1 this
      have := up_heap fuel (a.swap ((j - 1) / 2) j hi hj) ((j - 1) / 2) (by simpa using hi) (by omega)
        (upinv_swap a _ j hi hj rfl hij hlt inv)
      simpa using this

/-- heap order on the first `n` slots except below `i` (which may be larger than its children); the parent of `i` is
below `i`'s children -/
def DownInv (a : Heap) (i n : Nat) : Prop :=
  (∀ k p, 0 < k → k < n → p = (k - 1) / 2 → p ≠ i → key a p ≤ key a k) ∧
  (∀ k, 0 < k → k < n → (k - 1) / 2 = i → 0 < i → key a ((i - 1) / 2) ≤ key a k)

theorem pick_spec (a : Heap) (j1 n : Nat) (h1 : j1 < n) (hn : n ≤ a.size) :
    (pick a j1 n h1 hn = j1 ∨ (pick a j1 n h1 hn = j1 + 1 ∧ j1 + 1 < n)) ∧
    key a (pick a j1 n h1 hn) ≤ key a j1 ∧ (j1 + 1 < n → key a (pick a j1 n h1 hn) ≤ key a (j1 + 1)) := by
  unfold pick
  simp only [gen_right]
  split
  · rename_i h2
    split
    · rename_i hl
      rw [less_iff] at hl
      exact ⟨Or.inr ⟨rfl, h2⟩, by omega, fun _ => Nat.le_refl _⟩
    · rename_i hl
      rw [less_iff] at hl
      exact ⟨Or.inl rfl, Nat.le_refl _, fun _ => by omega⟩
  · rename_i h2
    exact ⟨Or.inl rfl, Nat.le_refl _, fun h => absurd h h2⟩

theorem downinv_swap (a : Heap) (i j n : Nat) (hn : n ≤ a.size) (hi : i < a.size) (hj : j < a.size) (hjn : j < n)
    (hc : j = 2 * i + 1 ∨ j = 2 * i + 2)
    (hm1 : key a j ≤ key a (2 * i + 1)) (hm2 : 2 * i + 2 < n → key a j ≤ key a (2 * i + 2))
    (hlt : key a j < key a i) (inv : DownInv a i n) : DownInv (a.swap i j hi hj) j n := by
  obtain ⟨inv1, inv2⟩ := inv
  constructor
  · intro k p hk hkn hp hpj
    have f1 := inv1 k p hk hkn hp
    rw [key_swap, key_swap]
    by_cases e1 : p = i
    · subst e1
      have hij : p ≠ j := by omega
      simp only [hij, if_false, if_true]
      by_cases e2 : k = j
      · simp [e2]; omega
      · have e3 : k ≠ p := by omega
        simp only [e2, e3, if_false]
        have : k = 2 * p + 1 ∨ k = 2 * p + 2 := by omega
        rcases this with h | h
        · subst h; exact hm1
        · subst h; exact hm2 hkn
    · have f1' := f1 e1
      simp only [hpj, e1, if_false]
      have e2 : k ≠ j := by omega
      simp only [e2, if_false]
      by_cases e3 : k = i
      · subst e3; simp only [if_true]
        have := inv2 j (by omega) hjn (by omega) hk
        rw [← hp] at this; exact this
      · simp only [e3, if_false]; exact f1'
  · intro k hk hkn hpk hj0
    rw [key_swap, key_swap]
    have q1 : (j - 1) / 2 = i := by omega
    have q2 : i ≠ j := by omega
    have q3 : k ≠ j := by omega
    have q4 : k ≠ i := by omega
    simp only [q1, q2, q3, q4, if_false, if_true]
    exact inv1 k j hk hkn (by omega) (by omega)

theorem down_heap : ∀ (fuel : Nat) (a : Heap) (i n : Nat) (hn : n ≤ a.size), n ≤ i + fuel → DownInv a i n →
    HeapInv (down fuel a i n hn) n
  | 0, a, i, n, _, hf, inv => by
    unfold down
    intro k p hk hkn hp
    exact inv.1 k p hk hkn hp (by omega)
  | fuel+1, a, i, n, hn, hf, inv => by
    unfold down
    simp only [gen_left]
    split
    · rename_i h1
      have ps := pick_spec a (2 * i + 1) n h1 hn
      have pl := pick_lt a (2 * i + 1) n h1 hn
      have ps22 : 2 * i + 2 < n → key a (pick a (2 * i + 1) n h1 hn) ≤ key a (2 * i + 2) := ps.2.2
      split
      · rename_i hl
        rw [less_iff] at hl
        have := down_heap fuel (a.swap i (pick a (2 * i + 1) n h1 hn) (by omega) (by omega)) (pick a (2 * i + 1) n h1 hn) n
          (by simpa using hn) (by omega)
          (downinv_swap a i _ n hn (by omega) (by omega) pl (by omega) ps.2.1 ps22 hl inv)
        exact this
      · rename_i hl
        rw [less_iff] at hl
        intro k p hk hkn hp
        by_cases e : p = i
        · subst e
          have : k = 2 * p + 1 ∨ k = 2 * p + 2 := by omega
          rcases this with h | h
          · subst h; have := ps.2.1; omega
          · subst h; have := ps22 hkn; omega
        · exact inv.1 k p hk hkn hp e
    · rename_i h1
      intro k p hk hkn hp
      exact inv.1 k p hk hkn hp (by omega)

/-! ### the root is a minimum -/

theorem root_min (a : Heap) (n : Nat) (inv : HeapInv a n) : ∀ k, k < n → key a 0 ≤ key a k := by
  intro k
  induction k using Nat.strongRecOn with
  | _ k ih =>
    intro hk
    by_cases h0 : k = 0
    · subst h0; exact Nat.le_refl _
    · have h1 := inv k ((k - 1) / 2) (by omega) hk rfl
      have h2 := ih ((k - 1) / 2) (by omega) (by omega)
      omega

/-! ### permutation and untouched slots -/

theorem up_perm : ∀ (fuel : Nat) (a : Heap) (j : Nat) (hj : j < a.size), (up fuel a j hj).Perm a
  | 0, _, _, _ => Array.Perm.refl _
  | fuel+1, a, j, hj => by
    unfold up
    simp only
    split
    · exact Array.Perm.refl _
    · exact (up_perm fuel _ _ _).trans (Array.swap_perm _ _)

theorem down_perm : ∀ (fuel : Nat) (a : Heap) (i n : Nat) (hn : n ≤ a.size), (down fuel a i n hn).Perm a
  | 0, _, _, _, _ => Array.Perm.refl _
  | fuel+1, a, i, n, hn => by
    unfold down
    simp only
    split
    · split
      · exact (down_perm fuel _ _ _ _).trans (Array.swap_perm _ _)
      · exact Array.Perm.refl _
    · exact Array.Perm.refl _

/-- `down(h, i, n)` never touches a slot `≥ n` -/
theorem down_above : ∀ (fuel : Nat) (a : Heap) (i n : Nat) (hn : n ≤ a.size) (k : Nat), n ≤ k →
    (down fuel a i n hn)[k]? = a[k]?
  | 0, _, _, _, _, _, _ => rfl
  | fuel+1, a, i, n, hn, k, hk => by
    unfold down
    simp only
    split
    · rename_i h1
      have pl := pick_lt a (Gen.Heap.downLeft i) n h1 hn
      have hi := left_gt i
      split
      · rw [down_above fuel _ _ _ _ k hk, Array.getElem?_swap]
        have e1 : pick a (Gen.Heap.downLeft i) n h1 hn ≠ k := by omega
        have e2 : i ≠ k := by omega
        simp [e1, e2]
      · rfl
    · rfl

theorem key_push_lt (a : Heap) (x : Frame) (k : Nat) (h : k < a.size) : key (a.push x) k = key a k := by
  unfold key; rw [Array.getElem?_push_lt h]; simp [h]

theorem key_pop (a : Heap) (k : Nat) (h : k < a.size - 1) : key a.pop k = key a k := by
  unfold key; rw [Array.getElem?_pop]; simp [h]

/-! ### Push and Pop -/

theorem push_heap (a : Heap) (x : Frame) (inv : HeapInv a a.size) : HeapInv (heapPush a x) (a.size + 1) := by
  unfold heapPush
  have := up_heap (a.size + 1) (a.push x) ((a.push x).size - 1) (by simp) (by simp) ?_
  · simpa using this
  · have hsz : (a.push x).size = a.size + 1 := Array.size_push ..
    rw [show (a.push x).size - 1 = a.size by simp]
    constructor
    · intro k p hk hks hp hkj
      rw [hsz] at hks
      rw [key_push_lt a x k (by omega), key_push_lt a x p (by omega)]
      exact inv k p hk (by omega) hp
    · intro k hk hks hpk h0
      rw [hsz] at hks
      omega

theorem push_perm (a : Heap) (x : Frame) : (heapPush a x).toList.Perm (x :: a.toList) := by
  unfold heapPush
  have := Array.perm_iff_toList_perm.1 (up_perm (a.size + 1) (a.push x) ((a.push x).size - 1) (by simp))
  exact this.trans (by simp)

theorem size_push (a : Heap) (x : Frame) : (heapPush a x).size = a.size + 1 := by
  unfold heapPush; rw [size_up]; simp

theorem size_pop (a : Heap) (h : 0 < a.size) : (heapPop a h).2.size = a.size - 1 := by
  unfold heapPop; simp [size_down]

/-- `heap.Pop` returns slot 0 of the array it is given -/
theorem pop_fst (a : Heap) (h : 0 < a.size) : (heapPop a h).1 = a[0] := by
  unfold heapPop
  simp only
  rw [Array.getElem_eq_iff]
  simp only [size_down, Array.size_swap]
  rw [down_above _ _ _ _ _ _ (Nat.le_refl _), Array.getElem?_swap]
  simp

theorem pop_heap (a : Heap) (h : 0 < a.size) (inv : HeapInv a a.size) : HeapInv (heapPop a h).2 (a.size - 1) := by
  unfold heapPop
  simp only
  have hd := down_heap (a.size - 1 + 1) (a.swap 0 (a.size - 1) h (by omega)) 0 (a.size - 1) (by simp) (by omega) ?_
  · intro k p hk hkn hp
    rw [key_pop _ k (by simp [size_down]; omega), key_pop _ p (by simp [size_down]; omega)]
    exact hd k p hk hkn hp
  · constructor
    · intro k p hk hkn hp hp0
      rw [key_swap, key_swap]
      have e1 : k ≠ a.size - 1 := by omega
      have e2 : k ≠ 0 := by omega
      have e3 : p ≠ a.size - 1 := by omega
      simp only [e1, e2, e3, hp0, if_false]
      exact inv k p hk (by omega) hp
    · intro k _ _ _ h0
      omega

theorem last_perm (b : Heap) (h : 0 < b.size) : b.toList.Perm (b[b.size - 1] :: b.pop.toList) := by
  have hne : b.toList ≠ [] := by
    intro e; have : b.size = 0 := by rw [← Array.length_toList, e]; rfl
    omega
  have e1 : b.toList.dropLast ++ [b.toList.getLast hne] = b.toList := List.dropLast_concat_getLast hne
  have e2 : b.toList.getLast hne = b[b.size - 1] := by
    rw [List.getLast_eq_getElem]; simp
  have : (b.toList.dropLast ++ [b[b.size - 1]]).Perm (b[b.size - 1] :: b.pop.toList) := by simp
  rw [← e2, e1] at this
  rw [← e2]; exact this

theorem pop_perm (a : Heap) (h : 0 < a.size) : a.toList.Perm ((heapPop a h).1 :: (heapPop a h).2.toList) := by
  unfold heapPop
  simp only
  have hp := Array.perm_iff_toList_perm.1
    ((down_perm (a.size - 1 + 1) (a.swap 0 (a.size - 1) h (by omega)) 0 (a.size - 1) (by simp)).trans (Array.swap_perm _ _))
  exact hp.symm.trans (last_perm _ (by rw [size_down, Array.size_swap]; exact h))

end HeapCore
