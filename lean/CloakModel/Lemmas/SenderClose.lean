import CloakModel.Lemmas.SenderCore

/-! The closing notice is the LAST frame a stream numbers (`Model/Sender.lean`).

Needs the closed-test of every sending section to sit INSIDE the section (`gOK`: every `lock` is directly followed by
`chk` or `cas`), which is what /repo 6ee9036 established for `ReadFrom`.  The invariant `CI` says: while `closed` is
unset no frame carries the closing flag and no thread is past a `cas`; once it is set, the mutex holder either cannot
number anything any more (`quiet`) or is the closing call about to number its one notice (`closerPending`), and
every other thread will run into a closed-test right after its next `lock`. -/
set_option linter.unusedVariables false
set_option linter.unusedSimpArgs false

namespace SN

/-- every `lock` of the program is directly followed by a closed-test (`chk`) or the closing CAS -/
def gOK : List Instr → Bool
  | [] => true
  | .lock :: p => (match p with | .chk :: _ => true | .cas :: _ => true | _ => false) && gOK p
  | _ :: p => gOK p

/-- what follows a `cas` is exactly the closing notice and the end of the section -/
def casTailOK : List Instr → Bool
  | [] => true
  | .cas :: p => (match p with | [.enc true _, .inc, .send _, .unlock] => true | _ => false) && casTailOK p
  | _ :: p => casTailOK p

/-- no closing encode before a `cas` has been passed -/
def casGuardOK : List Instr → Bool
  | [] => true
  | .cas :: _ => true
  | .enc true _ :: _ => false
  | _ :: p => casGuardOK p

/-- the rest of the current section numbers nothing (a closed-test ahead will fail once `closed` is set) -/
def quiet : List Instr → Bool
  | [] => true
  | .unlock :: _ => true
  | .chk :: _ => true
  | .cas :: _ => true
  | .lock :: _ => true
  | .send _ :: p => quiet p
  | .enc _ _ :: _ => false
  | .inc :: _ => false

/-- the closing call between its successful CAS and the numbering of its notice -/
def closerPending (th : Thread) : Bool :=
  match th.prog with
  | [.enc true _, .inc, .send _, .unlock] => true
  | [.inc, .send _, .unlock] => th.pend && (match th.cur with | some f => f.closing | none => false)
  | _ => false

theorem gOK_tail {i : Instr} {p : List Instr} (h : gOK (i :: p) = true) : gOK p = true := by
  cases i <;> simp [gOK] at h ⊢ <;> first | exact h | exact h.2
theorem casTailOK_tail {i : Instr} {p : List Instr} (h : casTailOK (i :: p) = true) : casTailOK p = true := by
  cases i <;> simp [casTailOK] at h ⊢ <;> first | exact h | exact h.2

structure CI (s : State) : Prop where
  prog : ∀ (t : Nat) (th : Thread), s.thr[t]? = some th → gOK th.prog = true ∧ casTailOK th.prog = true
  open_ : s.closed = false → s.clflag = false ∧ (∀ f ∈ s.enc, f.closing = false) ∧
    ∀ (t : Nat) (th : Thread), s.thr[t]? = some th → casGuardOK th.prog = true ∧ (∀ f : Frame, th.cur = some f → f.closing = false)
  holder : s.closed = true → ∀ (t : Nat) (th : Thread), s.thr[t]? = some th → s.lock = some t → quiet th.prog = true ∨ closerPending th = true
  pending : s.closed = true → ∀ (t : Nat) (th : Thread), s.thr[t]? = some th → s.lock = some t → closerPending th = true →
    ∀ f ∈ s.enc, f.closing = false
  last : ∀ (pre : List Frame) (f : Frame) (post : List Frame), s.enc = pre ++ f :: post → f.closing = true → post = []

theorem last_append {enc : List Frame} (h : ∀ f ∈ enc, f.closing = false) (g : Frame) :
    ∀ pre f post, enc ++ [g] = pre ++ f :: post → f.closing = true → post = [] := by
  intro pre f post he hf
  rcases List.eq_nil_or_concat post with hp | ⟨post', x, hp⟩
  · exact hp
  · exfalso
    subst hp
    have : enc ++ [g] = (pre ++ f :: post') ++ [x] := by simp [he]
    have h2 := List.append_inj' this rfl
    have : f ∈ enc := by rw [h2.1]; simp
    have := h f this
    rw [hf] at this; simp at this

theorem thr_set {l : List Thread} {t u : Nat} {x th : Thread} (h : (l.set t x)[u]? = some th) :
    (u = t ∧ th = x) ∨ (u ≠ t ∧ l[u]? = some th) := by
  by_cases hut : u = t
  · subst hut
    left
    rw [List.getElem?_set] at h
    simp at h
    exact ⟨rfl, h.2.symm⟩
  · right
    rw [List.getElem?_set] at h
    simp [Ne.symm hut] at h
    exact ⟨hut, h⟩

theorem quiet_not_pending {p : List Instr} {c : Option Frame} {b : Bool} (h : quiet p = true) :
    closerPending ⟨p, c, b⟩ = false := by
  cases p with
  | nil => rfl
  | cons i p => cases i <;> simp [quiet] at h <;> simp [closerPending]

theorem abort_prog_ok (b : Bool) :
    gOK (if b then [Instr.unlock] else []) = true ∧ casTailOK (if b then [Instr.unlock] else []) = true ∧
    casGuardOK (if b then [Instr.unlock] else []) = true ∧ quiet (if b then [Instr.unlock] else []) = true := by
  cases b <;> simp [gOK, casTailOK, casGuardOK, quiet]

/-- assembling `CI` of a successor state in which only thread `t` changed -/
theorem ci_of {s s' : State} {t : Nat} {th th' : Thread} (c : CI s) (hth : s.thr[t]? = some th)
    (hthr : s'.thr = s.thr.set t th')
    (hprog : gOK th'.prog = true ∧ casTailOK th'.prog = true)
    (hopen : s'.closed = false → s.closed = false ∧ s'.clflag = false ∧ (∀ f ∈ s'.enc, f.closing = false) ∧
      casGuardOK th'.prog = true ∧ (∀ f : Frame, th'.cur = some f → f.closing = false))
    (hholder_t : s'.closed = true → s'.lock = some t → quiet th'.prog = true ∨ closerPending th' = true)
    (hholder_o : s'.closed = true → ∀ u : Nat, u ≠ t → s'.lock = some u → s.closed = true ∧ s.lock = some u)
    (hpend_t : s'.closed = true → s'.lock = some t → closerPending th' = true → ∀ f ∈ s'.enc, f.closing = false)
    (hpend_o : ∀ u : Nat, u ≠ t → s'.lock = some u → s'.enc = s.enc)
    (hlast : ∀ (pre : List Frame) (f : Frame) (post : List Frame), s'.enc = pre ++ f :: post → f.closing = true → post = []) :
    CI s' := by
  refine ⟨?_, ?_, ?_, ?_, hlast⟩
  · intro u uh hu
    rw [hthr] at hu
    rcases thr_set hu with ⟨_, rfl⟩ | ⟨_, hu'⟩
    · exact hprog
    · exact c.prog u uh hu'
  · intro hc
    obtain ⟨h1, h2, h3, h4, h5⟩ := hopen hc
    refine ⟨h2, h3, ?_⟩
    intro u uh hu
    rw [hthr] at hu
    rcases thr_set hu with ⟨_, rfl⟩ | ⟨_, hu'⟩
    · exact ⟨h4, h5⟩
    · exact (c.open_ h1).2.2 u uh hu'
  · intro hc u uh hu hl
    rw [hthr] at hu
    rcases thr_set hu with ⟨rfl, rfl⟩ | ⟨hne, hu'⟩
    · exact hholder_t hc hl
    · obtain ⟨a, b⟩ := hholder_o hc u hne hl
      exact c.holder a u uh hu' b
  · intro hc u uh hu hl hp
    rw [hthr] at hu
    rcases thr_set hu with ⟨rfl, rfl⟩ | ⟨hne, hu'⟩
    · exact hpend_t hc hl hp
    · obtain ⟨a, b⟩ := hholder_o hc u hne hl
      rw [hpend_o u hne hl]
      exact c.pending a u uh hu' b hp


/-- every instruction except `lock` and the closed-test is executed by the mutex holder only -/
theorem inside_of {s : State} {t : Nat} {th : Thread} {i : Instr} {p : List Instr} (h : TOK s t th)
    (hp : th.prog = i :: p) (h1 : i ≠ .lock) (h2 : i ≠ .chk) : s.lock = some t := by
  by_cases hl : s.lock = some t
  · exact hl
  · exfalso
    have h0 := h.1
    rw [hp] at h0
    have hd : decide (s.lock = some t) = false := by simp [hl]
    rw [hd] at h0
    cases i <;> simp [advs, adv] at h0 h1 h2

theorem step_ci (s s' : State) (t : Nat) (h : Inv s) (c : CI s) (hs : step s t = some s') : CI s' := by
  unfold step at hs
  split at hs
  · simp at hs
  · rename_i th hth
    have htok := h.thr t th hth
    split at hs
    · simp at hs
    · -- lock
      rename_i p hp
      split at hs
      · rename_i hfree
        simp at hs; subst hs
        have hg := (c.prog t th hth)
        rw [hp] at hg
        have hq : quiet p = true := by
          have := hg.1
          cases p with
          | nil => simp [gOK] at this
          | cons j q => cases j <;> simp [gOK] at this <;> simp [quiet]
        refine ci_of c hth rfl ⟨gOK_tail hg.1, casTailOK_tail hg.2⟩ ?_ ?_ ?_ ?_ ?_ c.last
        · intro hc
          obtain ⟨a, b, d⟩ := c.open_ hc
          have := d t th hth
          rw [hp] at this
          exact ⟨hc, a, b, by simpa [casGuardOK] using this.1, this.2⟩
        · intro _ _; exact Or.inl hq
        · intro _ u hne hl; simp at hl; omega
        · intro _ _ hpe
          have := quiet_not_pending (c := th.cur) (b := th.pend) hq
          rw [this] at hpe; simp at hpe
        · intro u hne hl; rfl
      · simp at hs
    · -- unlock
      rename_i p hp
      simp at hs; subst hs
      have hg := (c.prog t th hth)
      rw [hp] at hg
      refine ci_of c hth rfl ⟨gOK_tail hg.1, casTailOK_tail hg.2⟩ ?_ ?_ ?_ ?_ ?_ c.last
      · intro hc
        obtain ⟨a, b, d⟩ := c.open_ hc
        have := d t th hth
        rw [hp] at this
        exact ⟨hc, a, b, by simpa [casGuardOK] using this.1, this.2⟩
      · intro _ hl; simp at hl
      · intro _ u hne hl; simp at hl
      · intro _ hl; simp at hl
      · intro u hne hl; rfl
    · -- chk
      rename_i p hp
      have hg := (c.prog t th hth)
      rw [hp] at hg
      split at hs
      · rename_i hcl
        simp at hs; subst hs
        have ha := abort_prog_ok (decide (s.lock = some t))
        simp only [decide_eq_true_eq] at ha
        refine ci_of (s' := abort s t) c hth rfl ⟨ha.1, ha.2.1⟩ ?_ ?_ ?_ ?_ ?_ c.last
        · intro hc; simp [abort] at hc; rw [hcl] at hc; simp at hc
        · intro _ _; exact Or.inl ha.2.2.2
        · intro _ u hne hl; exact ⟨hcl, hl⟩
        · intro _ _ hpe
          have := quiet_not_pending (c := none) (b := false) ha.2.2.2
          rw [this] at hpe; simp at hpe
        · intro u hne hl; rfl
      · rename_i hcl
        simp at hs; subst hs
        have hcl' : s.closed = false := by simpa using hcl
        refine ci_of c hth rfl ⟨gOK_tail hg.1, casTailOK_tail hg.2⟩ ?_ ?_ ?_ ?_ ?_ c.last
        · intro hc
          obtain ⟨a, b, d⟩ := c.open_ hc
          have := d t th hth
          rw [hp] at this
          exact ⟨hc, a, b, by simpa [casGuardOK] using this.1, this.2⟩
        · intro hc; simp at hc; rw [hcl'] at hc; simp at hc
        · intro hc; simp at hc; rw [hcl'] at hc; simp at hc
        · intro hc; simp at hc; rw [hcl'] at hc; simp at hc
        · intro u hne hl; rfl
    · -- cas
      rename_i p hp
      have hg := (c.prog t th hth)
      rw [hp] at hg
      have hmine : s.lock = some t := inside_of htok hp (by simp) (by simp)
      split at hs
      · rename_i hcl
        simp at hs; subst hs
        have ha := abort_prog_ok (decide (s.lock = some t))
        simp only [decide_eq_true_eq] at ha
        refine ci_of (s' := abort s t) c hth rfl ⟨ha.1, ha.2.1⟩ ?_ ?_ ?_ ?_ ?_ c.last
        · intro hc; simp [abort] at hc; rw [hcl] at hc; simp at hc
        · intro _ _; exact Or.inl ha.2.2.2
        · intro _ u hne hl; exact ⟨hcl, hl⟩
        · intro _ _ hpe
          have := quiet_not_pending (c := none) (b := false) ha.2.2.2
          rw [this] at hpe; simp at hpe
        · intro u hne hl; rfl
      · rename_i hcl
        simp at hs; subst hs
        have hcl' : s.closed = false := by simpa using hcl
        obtain ⟨hflag, henc, hthr⟩ := c.open_ hcl'
        -- what follows the CAS is the closing notice
        have htail : ∃ pl r, p = [Instr.enc true pl, .inc, .send r, .unlock] := by
          have := hg.2
          simp only [casTailOK, Bool.and_eq_true] at this
          have h1 := this.1
          split at h1
          · rename_i pl r; exact ⟨pl, r, rfl⟩
          · simp at h1
        obtain ⟨pl, r, rfl⟩ := htail
        refine ci_of c hth rfl ⟨gOK_tail hg.1, casTailOK_tail hg.2⟩ ?_ ?_ ?_ ?_ ?_ c.last
        · intro hc; simp at hc
        · intro _ _; right; simp [closerPending]
        · intro _ u hne hl
          simp at hl; rw [hmine] at hl; simp at hl; omega
        · intro _ _ _; exact henc
        · intro u hne hl; rfl
    · -- enc
      rename_i cl pl p hp
      simp at hs; subst hs
      have hg := (c.prog t th hth)
      rw [hp] at hg
      have hmine : s.lock = some t := inside_of htok hp (by simp) (by simp)
      cases hcl : s.closed with
      | false =>
        obtain ⟨hflag, henc, hthr⟩ := c.open_ hcl
        have hgd := (hthr t th hth).1
        rw [hp] at hgd
        have hclf : cl = false := by
          cases cl with
          | false => rfl
          | true => simp [casGuardOK] at hgd
        subst hclf
        refine ci_of c hth rfl ⟨gOK_tail hg.1, casTailOK_tail hg.2⟩ ?_ ?_ ?_ ?_ ?_ c.last
        · intro _
          refine ⟨hcl, by simp [hflag], henc, by simpa [casGuardOK] using hgd, ?_⟩
          intro f hf; simp at hf; rw [← hf]; simp [hflag]
        · intro hc; simp at hc
        · intro hc; simp at hc
        · intro hc; simp at hc
        · intro u hne hl; rfl
      | true =>
        have hh := c.holder hcl t th hth hmine
        rw [hp] at hh
        have hpe : closerPending th = true := by
          rcases hh with hq | hq
          · simp [quiet] at hq
          · exact hq
        -- the only pending form that starts with an encode: the closing notice
        have hform : cl = true ∧ ∃ r, p = [Instr.inc, .send r, .unlock] := by
          unfold closerPending at hpe
          rw [hp] at hpe
          split at hpe
          · rename_i pl' r heq
            simp at heq
            exact ⟨heq.1.1, r, heq.2⟩
          · rename_i r heq; simp at heq
          · simp at hpe
        obtain ⟨rfl, r, rfl⟩ := hform
        refine ci_of c hth rfl ⟨gOK_tail hg.1, casTailOK_tail hg.2⟩ ?_ ?_ ?_ ?_ ?_ c.last
        · intro hc; simp at hc
        · intro _ _; right; simp [closerPending]
        · intro _ u hne hl; exact ⟨hcl, hl⟩
        · intro _ _ _; exact c.pending hcl t th hth hmine hpe
        · intro u hne hl; rfl
    · -- inc
      rename_i p hp
      have hg := (c.prog t th hth)
      rw [hp] at hg
      have hmine : s.lock = some t := inside_of htok hp (by simp) (by simp)
      split at hs
      · rename_i f hcur hpend
        simp at hs; subst hs
        cases hcl : s.closed with
        | false =>
          obtain ⟨hflag, henc, hthr⟩ := c.open_ hcl
          have hgd := (hthr t th hth)
          rw [hp] at hgd
          have hf : f.closing = false := hgd.2 f hcur
          have hall : ∀ g ∈ s.enc ++ [f], g.closing = false := by
            intro g hg'
            rcases List.mem_append.1 hg' with h1 | h1
            · exact henc g h1
            · simp at h1; rw [h1]; exact hf
          refine ci_of c hth rfl ⟨gOK_tail hg.1, casTailOK_tail hg.2⟩ ?_ ?_ ?_ ?_ ?_ (last_append henc f)
          · intro _
            refine ⟨hcl, hflag, hall, by simpa [casGuardOK] using hgd.1, ?_⟩
            intro g hg'; simp at hg'; rw [← hg']; exact hf
          · intro hc; simp at hc
          · intro hc; simp at hc
          · intro hc; simp at hc
          · intro u hne hl; simp at hl; rw [hmine] at hl; simp at hl; omega
        | true =>
          have hh := c.holder hcl t th hth hmine
          have hpe : closerPending th = true := by
            rcases hh with hq | hq
            · rw [hp] at hq; simp [quiet] at hq
            · exact hq
          have hform : ∃ r, p = [Instr.send r, .unlock] := by
            unfold closerPending at hpe
            rw [hp] at hpe
            split at hpe
            · rename_i pl' r heq; simp at heq
            · rename_i r heq; simp at heq; exact ⟨r, heq⟩
            · simp at hpe
          obtain ⟨r, rfl⟩ := hform
          have henc := c.pending hcl t th hth hmine hpe
          refine ci_of c hth rfl ⟨gOK_tail hg.1, casTailOK_tail hg.2⟩ ?_ ?_ ?_ ?_ ?_ (last_append henc f)
          · intro hc; simp at hc
          · intro _ _; left; simp [quiet]
          · intro _ u hne hl; exact ⟨hcl, hl⟩
          · intro _ _ hpe'; simp [closerPending] at hpe'
          · intro u hne hl; simp at hl; rw [hmine] at hl; simp at hl; omega
      · simp at hs
    · -- send
      rename_i r p hp
      have hg := (c.prog t th hth)
      rw [hp] at hg
      have hmine : s.lock = some t := inside_of htok hp (by simp) (by simp)
      have ha := abort_prog_ok (decide (s.lock = some t))
      simp only [decide_eq_true_eq] at ha
      split at hs
      · simp at hs
      · rename_i f hcur
        split at hs
        · -- ok
          simp at hs; subst hs
          refine ci_of c hth rfl ⟨gOK_tail hg.1, casTailOK_tail hg.2⟩ ?_ ?_ ?_ ?_ ?_ c.last
          · intro hc
            have hc' : s.closed = false := by simpa using hc
            obtain ⟨a, b, d⟩ := c.open_ hc'
            have := d t th hth
            rw [hp] at this
            exact ⟨hc', a, b, by simpa [casGuardOK] using this.1, by intro g hg'; simp at hg'⟩
          · intro hc _
            have hc' : s.closed = true := by simpa using hc
            have hh := c.holder hc' t th hth hmine
            rcases hh with hq | hq
            · rw [hp] at hq; left; simpa [quiet] using hq
            · exfalso; unfold closerPending at hq; rw [hp] at hq; simp at hq
          · intro hc u hne hl; exact ⟨by simpa using hc, hl⟩
          · intro hc _ hpe
            have hc' : s.closed = true := by simpa using hc
            have hh := c.holder hc' t th hth hmine
            have hq : quiet p = true := by
              rcases hh with hq | hq
              · rw [hp] at hq; simpa [quiet] using hq
              · exfalso; unfold closerPending at hq; rw [hp] at hq; simp at hq
            have := quiet_not_pending (c := none) (b := th.pend) hq
            rw [this] at hpe; simp at hpe
          · intro u hne hl; rfl
        · -- connErr
          simp at hs; subst hs
          refine ci_of (s' := abort { s with closed := true } t) c hth rfl ⟨ha.1, ha.2.1⟩ ?_ ?_ ?_ ?_ ?_ c.last
          · intro hc; simp [abort] at hc
          · intro _ _; exact Or.inl ha.2.2.2
          · intro _ u hne hl
            simp [abort] at hl; rw [hmine] at hl; simp at hl; omega
          · intro _ _ hpe
            have := quiet_not_pending (c := none) (b := false) ha.2.2.2
            rw [this] at hpe; simp at hpe
          · intro u hne hl; rfl
        · -- encErr
          simp at hs; subst hs
          refine ci_of (s' := abort s t) c hth rfl ⟨ha.1, ha.2.1⟩ ?_ ?_ ?_ ?_ ?_ c.last
          · intro hc
            have hc' : s.closed = false := by simpa [abort] using hc
            obtain ⟨a, b, d⟩ := c.open_ hc'
            exact ⟨hc', a, b, ha.2.2.1, by intro g hg'; simp at hg'⟩
          · intro _ _; exact Or.inl ha.2.2.2
          · intro hc u hne hl; exact ⟨by simpa [abort] using hc, hl⟩
          · intro _ _ hpe
            have := quiet_not_pending (c := none) (b := false) ha.2.2.2
            rw [this] at hpe; simp at hpe
          · intro u hne hl; rfl

end SN

namespace SN

theorem run_ci : ∀ (sched : List Nat) (s : State), Inv s → CI s → CI (runSched s sched) := by
  intro sched
  induction sched with
  | nil => intro s _ c; exact c
  | cons t ts ih =>
    intro s h c
    simp only [runSched]
    cases hs : step s t with
    | none => exact ih s h c
    | some s' => exact ih s' (step_inv s s' t h hs) (step_ci s s' t h c hs)

theorem init_ci (progs : List (List Instr))
    (hp : ∀ p ∈ progs, gOK p = true ∧ casTailOK p = true ∧ casGuardOK p = true) : CI (init progs) := by
  have hget : ∀ (t : Nat) (th : Thread), (init progs).thr[t]? = some th → th.prog ∈ progs ∧ th.cur = none := by
    intro t th hth
    simp only [init, List.getElem?_map] at hth
    cases hq : progs[t]? with
    | none => rw [hq] at hth; simp at hth
    | some q =>
      rw [hq] at hth; simp at hth
      subst hth
      exact ⟨List.mem_of_getElem? hq, rfl⟩
  refine ⟨?_, ?_, ?_, ?_, ?_⟩
  · intro t th hth
    have := hp _ (hget t th hth).1
    exact ⟨this.1, this.2.1⟩
  · intro _
    refine ⟨rfl, by intro f hf; simp [init] at hf, ?_⟩
    intro t th hth
    refine ⟨(hp _ (hget t th hth).1).2.2, ?_⟩
    intro f hf; rw [(hget t th hth).2] at hf; simp at hf
  · intro hc; simp [init] at hc
  · intro hc; simp [init] at hc
  · intro pre f post he; simp [init] at he

/-- a closing frame that was handed to a connection is the last frame handed to a connection -/
theorem last_of_sublist {wire enc : List Frame} (hs : wire.Sublist enc)
    (hl : ∀ (pre : List Frame) (f : Frame) (post : List Frame), enc = pre ++ f :: post → f.closing = true → post = []) :
    ∀ (pre : List Frame) (f : Frame) (post : List Frame), wire = pre ++ f :: post → f.closing = true → post = [] := by
  intro pre f post hw hf
  have h1 : (pre ++ [f]) ++ post = wire := by simp [hw]
  rw [← h1] at hs
  obtain ⟨r1, r2, he, hs1, hs2⟩ := List.append_sublist_iff.1 hs
  have hmem : f ∈ r1 := hs1.subset (by simp)
  obtain ⟨a, b, hab⟩ := List.append_of_mem hmem
  have := hl a f (b ++ r2) (by rw [he, hab]; simp) hf
  have hr2 : r2 = [] := (List.append_eq_nil_iff.1 this).2
  rw [hr2] at hs2
  exact List.eq_nil_of_sublist_nil hs2

end SN
