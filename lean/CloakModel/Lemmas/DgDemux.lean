/-! C01/C14 spike: demultiplexing isolates streams — the state of stream `sid` after ANY global
    interleaving of deliveries and reads on all streams equals the state of a single stream fed
    with just its own operations. Generic in the per-stream machine. -/
namespace DgDemux

variable {σ : Type} {Op : Type}

/-- a global event: an operation addressed to one stream; `creates` says whether it may create
    the stream (a delivered frame does, an application read does not) -/
structure GEv (Op : Type) where
  sid : Nat
  op  : Op
  creates : Bool

def gstep (step : σ → Op → σ) (init : σ) (tbl : Nat → Option σ) (e : GEv Op) : Nat → Option σ :=
  fun s =>
    if s = e.sid then
      match tbl s with
      | some st => some (step st e.op)
      | none => if e.creates then some (step init e.op) else none
    else tbl s

def proj (sid : Nat) (evs : List (GEv Op)) : List (GEv Op) := evs.filter (fun e => decide (e.sid = sid))

/-- per-stream run that mirrors creation: `none` until the first creating event -/
def lstep (step : σ → Op → σ) (init : σ) (st : Option σ) (e : GEv Op) : Option σ :=
  match st with
  | some s => some (step s e.op)
  | none => if e.creates then some (step init e.op) else none

theorem isolation (step : σ → Op → σ) (init : σ) (sid : Nat) :
    ∀ (evs : List (GEv Op)) (tbl : Nat → Option σ),
      (evs.foldl (gstep step init) tbl) sid = (proj sid evs).foldl (lstep step init) (tbl sid) := by
  intro evs
  induction evs with
  | nil => intro tbl; rfl
  | cons e rest ih =>
    intro tbl
    simp only [List.foldl_cons, proj, List.filter_cons]
    by_cases h : e.sid = sid
    · simp only [h, decide_true, if_true, List.foldl_cons]
      rw [ih]
      congr 1
      simp only [gstep, lstep, h, if_true]
    · simp only [h, decide_false, Bool.false_eq_true, if_false]
      rw [ih]
      congr 1
      simp only [gstep]
      rw [if_neg (fun hh => h hh.symm)]

end DgDemux
