import CloakModel.Lemmas.PanelCore

/-! The single-record invariant of the REPAIRED bookkeeping design (C17, second half): a record that is no
longer the one `activeUsers` holds for its uid has been retired and emptied, and a retired record never gets a
session again. Proved for every event of `Panel.step repairedCfg`. -/
namespace Panel

structure Inv (s : St) : Prop where
  pendingDone : ∀ (rid : Nat), rid ∈ s.pendingDel →
    ∃ r : Rec, s.recs[rid]? = some r ∧ r.retired = true ∧ r.sessions = []
  unboundDone : ∀ (rid : Nat) (r : Rec), s.recs[rid]? = some r → lookup s.active r.uid ≠ some rid →
    r.retired = true ∧ r.sessions = []
  closingRetired : ∀ (rid : Nat), rid ∈ s.pendingClose → ∃ r : Rec, s.recs[rid]? = some r ∧ r.retired = true
  boundWf : ∀ (u rid : Nat), lookup s.active u = some rid → ∃ r : Rec, s.recs[rid]? = some r ∧ r.uid = u

theorem inv_init : Inv init :=
  ⟨by intro rid h; simp [init] at h, by intro rid r h; simp [init] at h,
   by intro rid h; simp [init] at h, by intro u rid h; simp [init, lookup] at h⟩

theorem inv_single {s : St} (h : Inv s) : SingleRecord s := by
  intro rid r hr hne
  apply Classical.byContradiction
  intro hl
  exact hne (h.unboundDone rid r hr hl).2

/-- how a table update that keeps `uid`, and keeps `retired`/`sessions` of retired records, transports the invariant -/
theorem inv_set {s : St} (h : Inv s) (rid : Nat) (r r' : Rec) (hr : s.recs[rid]? = some r)
    (huid : r'.uid = r.uid) (hret : r.retired = true → r'.retired = true)
    (hsess : r.retired = true → r.sessions = [] → r'.sessions = []) :
    Inv { s with recs := s.recs.set rid r' } := by
  refine ⟨?_, ?_, ?_, ?_⟩
  · intro j hp
    obtain ⟨x, hx, hxr, hxs⟩ := h.pendingDone j hp
    by_cases hj : j = rid
    · subst hj
      rw [hr] at hx; cases hx
      exact ⟨r', getElem?_set_eq' _ _ _ _ hr, hret hxr, hsess hxr hxs⟩
    · exact ⟨x, by simp only; rw [getElem?_set_ne' _ _ _ _ (fun e => hj e.symm)]; exact hx, hxr, hxs⟩
  · intro j x hx hl
    rcases getElem?_set_cases _ _ _ _ _ hx with ⟨hj, rfl⟩ | ⟨_, hx'⟩
    · subst hj
      simp only at hl
      rw [huid] at hl
      obtain ⟨a, b⟩ := h.unboundDone j r hr hl
      exact ⟨hret a, hsess a b⟩
    · exact h.unboundDone j x hx' hl
  · intro j hp
    obtain ⟨x, hx, hxr⟩ := h.closingRetired j hp
    by_cases hj : j = rid
    · subst hj
      rw [hr] at hx; cases hx
      exact ⟨r', getElem?_set_eq' _ _ _ _ hr, hret hxr⟩
    · exact ⟨x, by simp only; rw [getElem?_set_ne' _ _ _ _ (fun e => hj e.symm)]; exact hx, hxr⟩
  · intro u j hl
    obtain ⟨x, hx, hxu⟩ := h.boundWf u j hl
    by_cases hj : j = rid
    · subst hj
      rw [hr] at hx; cases hx
      exact ⟨r', getElem?_set_eq' _ _ _ _ hr, by rw [huid]; exact hxu⟩
    · exact ⟨x, by simp only; rw [getElem?_set_ne' _ _ _ _ (fun e => hj e.symm)]; exact hx, hxu⟩

theorem inv_getUser {s : St} (h : Inv s) (u : Nat) (b : Bool) (now : Int) : Inv (getUser s u b now).1 := by
  unfold getUser
  split
  · exact h
  · rename_i hnone
    split
    · exact h
    · refine ⟨?_, ?_, ?_, ?_⟩
      · intro rid hp
        obtain ⟨r, hr, hret⟩ := h.pendingDone rid hp
        exact ⟨r, by simp only; rw [List.getElem?_append_left (getElem?_lt _ _ _ hr)]; exact hr, hret⟩
      · intro rid r hr hl
        rcases getElem?_append_cases _ _ _ _ hr with ⟨hj, rfl⟩ | ⟨hj, hr'⟩
        · exfalso; apply hl; simp only [lookup_cons, if_true]; rw [hj]
        · simp only at hl
          rw [lookup_cons] at hl
          by_cases hu : u = r.uid
          · apply h.unboundDone rid r hr'
            rw [← hu, hnone]; intro e; cases e
          · rw [if_neg hu] at hl
            exact h.unboundDone rid r hr' hl
      · intro rid hp
        obtain ⟨r, hr, hret⟩ := h.closingRetired rid hp
        exact ⟨r, by simp only; rw [List.getElem?_append_left (getElem?_lt _ _ _ hr)]; exact hr, hret⟩
      · intro u' rid hl
        simp only at hl
        rw [lookup_cons] at hl
        by_cases hu : u = u'
        · rw [if_pos hu] at hl
          cases hl
          exact ⟨⟨u, b, false, []⟩, by simp, hu⟩
        · rw [if_neg hu] at hl
          obtain ⟨r, hr, hru⟩ := h.boundWf u' rid hl
          exact ⟨r, by simp only; rw [List.getElem?_append_left (getElem?_lt _ _ _ hr)]; exact hr, hru⟩

theorem inv_getSession {a b : Bool} {s : St} (h : Inv s) (rid sid key : Nat) (now : Int) :
    Inv (getSession (orphanRepaired a b) s rid sid key now).1 := by
  unfold getSession
  split
  · exact h
  · rename_i r hr
    split
    · exact h
    · rename_i hnr
      have hnr' : r.retired = false := by
        simp only [orphanRepaired, Bool.true_and, Bool.not_eq_true] at hnr; exact hnr
      split
      · exact h
      · split
        · exact h
        · exact inv_set h rid r _ hr rfl (fun hh => by first | exact hh | (simp only; rw [hh]; rfl) | simp [hh]) (by intro hx; rw [hnr'] at hx; cases hx)

theorem inv_closeLocked {s : St} (h : Inv s) (rid sid : Nat) : Inv (closeLocked s rid sid).1 := by
  unfold closeLocked
  split
  · exact h
  · rename_i r hr
    exact inv_set h rid r _ hr rfl (fun hh => by first | exact hh | (simp only; rw [hh]; rfl) | simp [hh]) (by intro _ he; simp only; rw [he]; rfl)

theorem inv_retire {a b : Bool} {s : St} (h : Inv s) (rid : Nat) : Inv (retire (orphanRepaired a b) s rid) := by
  unfold retire
  split
  · exact h
  · rename_i r hr
    refine ⟨?_, ?_, ?_, ?_⟩
    · intro j hp
      obtain ⟨x, hx, hxr, hxs⟩ := h.pendingDone j hp
      by_cases hj : j = rid
      · subst hj
        rw [hr] at hx; cases hx
        exact ⟨_, getElem?_set_eq' _ _ _ _ hr, by simp [orphanRepaired], hxs⟩
      · exact ⟨x, by simp only; rw [getElem?_set_ne' _ _ _ _ (fun e => hj e.symm)]; exact hx, hxr, hxs⟩
    · intro j x hx hl
      rcases getElem?_set_cases _ _ _ _ _ hx with ⟨hj, rfl⟩ | ⟨_, hx'⟩
      · subst hj
        exact ⟨by simp [orphanRepaired], (h.unboundDone j r hr hl).2⟩
      · exact h.unboundDone j x hx' hl
    · intro j hp
      simp only [List.mem_cons] at hp
      by_cases hj : j = rid
      · subst hj
        exact ⟨_, getElem?_set_eq' _ _ _ _ hr, by simp [orphanRepaired]⟩
      · rcases hp with hp | hp
        · exact absurd hp hj
        · obtain ⟨x, hx, hret⟩ := h.closingRetired j hp
          exact ⟨x, by simp only; rw [getElem?_set_ne' _ _ _ _ (fun e => hj e.symm)]; exact hx, hret⟩
    · intro u j hl
      obtain ⟨x, hx, hxu⟩ := h.boundWf u j hl
      by_cases hj : j = rid
      · subst hj
        rw [hr] at hx; cases hx
        exact ⟨_, getElem?_set_eq' _ _ _ _ hr, hxu⟩
      · exact ⟨x, by simp only; rw [getElem?_set_ne' _ _ _ _ (fun e => hj e.symm)]; exact hx, hxu⟩

theorem inv_closeAll {s : St} (h : Inv s) (rid : Nat) : Inv (closeAll s rid).1 := by
  unfold closeAll
  split
  · rename_i hp
    split
    · exact h
    · rename_i r hr
      obtain ⟨r0, hr0, hret⟩ := h.closingRetired rid hp
      rw [hr] at hr0; cases hr0
      have base := inv_set h rid r { r with sessions := [] } hr rfl (fun hh => hh) (by intro _ _; rfl)
      refine ⟨?_, base.unboundDone, ?_, base.boundWf⟩
      · intro j hj
        simp only [List.mem_cons] at hj
        by_cases hjr : j = rid
        · subst hjr
          exact ⟨_, getElem?_set_eq' _ _ _ _ hr, hret, rfl⟩
        · rcases hj with hj | hj
          · exact absurd hj hjr
          · exact base.pendingDone j hj
      · intro j hj
        exact base.closingRetired j (List.mem_of_mem_erase hj)
  · exact h

theorem inv_deleteRec {a b : Bool} {s : St} (h : Inv s) (rid : Nat) : Inv (deleteRec (orphanRepaired a b) s rid).1 := by
  unfold deleteRec
  split
  · rename_i hp
    split
    · exact h
    · rename_i r hr
      obtain ⟨r0, hr0, hret, hemp⟩ := h.pendingDone rid hp
      rw [hr] at hr0; cases hr0
      split
      · exact ⟨fun j hj => h.pendingDone j (List.mem_of_mem_erase hj), h.unboundDone, h.closingRetired, h.boundWf⟩
      · rename_i hbound
        refine ⟨fun j hj => h.pendingDone j (List.mem_of_mem_erase hj), ?_, h.closingRetired, ?_⟩
        · intro j x hx hl
          simp only at hl
          by_cases hu : x.uid = r.uid
          · by_cases hj : j = rid
            · subst hj; rw [hr] at hx; cases hx; exact ⟨hret, hemp⟩
            · apply h.unboundDone j x hx
              have hb : lookup s.active r.uid = some rid := by
                simp only [orphanRepaired, Bool.true_and, bne_iff_ne, ne_eq, Decidable.not_not] at hbound
                exact hbound
              rw [hu, hb]; intro e; cases e; exact hj rfl
          · rw [lookup_filter_ne _ _ _ hu] at hl
            exact h.unboundDone j x hx hl
        · intro u j hl
          simp only at hl
          obtain ⟨_, hl'⟩ := lookup_filter_some _ _ _ _ hl
          exact h.boundWf u j hl'
  · exact h

/-- the clean-up of a refused connection keeps the invariant, whichever of the two it is: `CloseSession(own id)` is a
closure; the repaired helper changes a record only by retiring it when it is empty -/
theorem inv_refusedCleanup {a b : Bool} {s : St} (h : Inv s) (rid sid : Nat) :
    Inv (refusedCleanup (orphanRepaired a b) s rid sid).1 := by
  unfold refusedCleanup
  split
  · have := inv_closeLocked h rid sid
    split <;> (rename_i heq; rw [heq] at this; exact this)
  · split
    · exact h
    · rename_i r hr
      by_cases he : r.sessions.isEmpty = true
      · have hemp : r.sessions = [] := List.isEmpty_iff.1 he
        by_cases hb : b = true
        · -- retired now, and empty
          have hret : (r.retired || ((orphanRepaired a b).cleanupRetires && r.sessions.isEmpty)) = true := by
            simp [orphanRepaired, hb, he]
          rw [hret]
          refine ⟨?_, ?_, ?_, ?_⟩
          · intro j hp
            obtain ⟨x, hx, hxr, hxs⟩ := h.pendingDone j hp
            by_cases hj : j = rid
            · subst hj
              exact ⟨_, getElem?_set_eq' _ _ _ _ hr, rfl, hemp⟩
            · exact ⟨x, by simp only; rw [getElem?_set_ne' _ _ _ _ (fun e => hj e.symm)]; exact hx, hxr, hxs⟩
          · intro j x hx hl
            rcases getElem?_set_cases _ _ _ _ _ hx with ⟨hj, rfl⟩ | ⟨_, hx'⟩
            · exact ⟨rfl, hemp⟩
            · exact h.unboundDone j x hx' hl
          · intro j hp
            obtain ⟨x, hx, hxr⟩ := h.closingRetired j hp
            by_cases hj : j = rid
            · subst hj
              exact ⟨_, getElem?_set_eq' _ _ _ _ hr, rfl⟩
            · exact ⟨x, by simp only; rw [getElem?_set_ne' _ _ _ _ (fun e => hj e.symm)]; exact hx, hxr⟩
          · intro u j hl
            obtain ⟨x, hx, hxu⟩ := h.boundWf u j hl
            by_cases hj : j = rid
            · subst hj
              rw [hr] at hx; cases hx
              exact ⟨_, getElem?_set_eq' _ _ _ _ hr, hxu⟩
            · exact ⟨x, by simp only; rw [getElem?_set_ne' _ _ _ _ (fun e => hj e.symm)]; exact hx, hxu⟩
        · have hret : (r.retired || ((orphanRepaired a b).cleanupRetires && r.sessions.isEmpty)) = r.retired := by
            simp [orphanRepaired, hb]
          rw [hret]
          exact inv_set h rid r _ hr rfl (fun hh => by first | exact hh | (simp only; rw [hh]; rfl) | simp [hh]) (fun _ he' => he')
      · have hret : (r.retired || ((orphanRepaired a b).cleanupRetires && r.sessions.isEmpty)) = r.retired := by
          simp [he]
        rw [hret]
        exact inv_set h rid r _ hr rfl (fun hh => by first | exact hh | (simp only; rw [hh]; rfl) | simp [hh]) (fun _ he' => he')

theorem inv_step {a b : Bool} {s : St} (h : Inv s) (e : Ev) : Inv (step (orphanRepaired a b) s e) := by
  cases e with
  | put u i => exact ⟨h.pendingDone, h.unboundDone, h.closingRetired, h.boundWf⟩
  | del u => exact ⟨h.pendingDone, h.unboundDone, h.closingRetired, h.boundWf⟩
  | getUser u b now => exact inv_getUser h u b now
  | getSession rid sid key now => exact inv_getSession h rid sid key now
  | closeLocked rid sid => exact inv_closeLocked h rid sid
  | retire rid => exact inv_retire h rid
  | closeAll rid => exact inv_closeAll h rid
  | deleteRec rid => exact inv_deleteRec h rid
  | refusedCleanup rid sid => exact inv_refusedCleanup h rid sid

theorem inv_run {a b : Bool} (evs : List Ev) : ∀ {s : St}, Inv s → Inv (run (orphanRepaired a b) s evs) := by
  induction evs with
  | nil => intro s h; exact h
  | cons e rest ih => intro s h; exact ih (inv_step h e)

theorem single_of_B {s : St} (h : SingleRecord s) : singleRecordB s = true := by
  unfold singleRecordB
  rw [List.all_eq_true]
  intro rid _
  split
  · rename_i r hr
    by_cases he : r.sessions = []
    · simp [he]
    · simp [h rid r hr he]
  · rfl

end Panel
