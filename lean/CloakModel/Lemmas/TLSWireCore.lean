import CloakModel.Model.TLSWire
import CloakModel.Lemmas.CodecCore

/-! Lemmas about the record parser of the validator and the byte-level mirrors of `Model/TLSWire.lean`. -/
set_option linter.unusedVariables false

namespace TLSWire
open Gen.Wire

theorem be16_toNat (n : Nat) (h : n < 65536) : (UInt8.ofNat (n / 256)).toNat * 256 + (UInt8.ofNat n).toNat = n := by
  rw [UInt8.toNat_ofNat', UInt8.toNat_ofNat']
  have : n / 256 < 256 := by omega
  rw [Nat.mod_eq_of_lt (show n / 256 < 2 ^ 8 by omega)]
  omega

/-- more fuel than bytes is always enough: the result does not depend on the fuel -/
theorem parseRecords_fuel2 : ∀ (f1 f2 : Nat) (b : Bytes), b.length < f1 → b.length < f2 → parseRecords f1 b = parseRecords f2 b := by
  intro f1
  induction f1 with
  | zero => intro f2 b h; omega
  | succ f1 ih =>
    intro f2 b h1 h2
    cases f2 with
    | zero => omega
    | succ f2 =>
      match b with
      | [] => simp [parseRecords]
      | [_] => simp [parseRecords]
      | [_, _] => simp [parseRecords]
      | [_, _, _] => simp [parseRecords]
      | [_, _, _, _] => simp [parseRecords]
      | t :: v0 :: v1 :: l0 :: l1 :: rest =>
        simp only [parseRecords]
        split
        · rfl
        · rename_i hlen
          simp only [List.length_cons] at h1 h2
          rw [ih f2 (rest.drop (l0.toNat * 256 + l1.toNat)) (by simp; omega) (by simp; omega)]

theorem parseRecords_fuel (fuel : Nat) (b : Bytes) (h : b.length < fuel) : parseRecords fuel b = parseRecords (b.length + 1) b :=
  parseRecords_fuel2 fuel (b.length + 1) b h (by omega)

/-- one record in front of a stream: the parser peels it off -/
theorem records_cons (t v0 v1 : UInt8) (body rest : Bytes) (h : body.length < 65536) :
    records (t :: v0 :: v1 :: UInt8.ofNat (body.length / 256) :: UInt8.ofNat body.length :: (body ++ rest)) =
      (records rest).map (⟨t, [v0, v1], body⟩ :: ·) := by
  unfold records
  simp only [List.length_cons, parseRecords]
  rw [be16_toNat _ h]
  rw [if_neg (by simp)]
  rw [List.drop_left' rfl, List.take_left' rfl]
  rw [parseRecords_fuel _ rest (by simp; omega)]

theorem records_nil : records [] = some [] := by simp [records, parseRecords]

end TLSWire
