import CloakModel.Lemmas.UserStore

/-! C18: each concrete operation, under the repaired facts and on a well-formed store, is the
abstract operation of `US.Spec` on the abstracted store, and keeps the store well-formed. -/
set_option linter.unusedSimpArgs false
set_option linter.unusedVariables false

namespace US
open GoInt

/-- the integers of a decoded request body fit their Go types (`*int32` / `*int64`) -/
def InRange (i : Info) : Prop :=
  (∀ v, i.cap = some v → In32 v) ∧ (∀ v, i.upRate = some v → In64 v) ∧ (∀ v, i.downRate = some v → In64 v) ∧
  (∀ v, i.upCredit = some v → In64 v) ∧ (∀ v, i.downCredit = some v → In64 v) ∧ (∀ v, i.expiry = some v → In64 v)

def Op.WF : Op → Prop
  | .post _ (.ok i) => InRange i
  | _ => True

theorem putField_other (b : Bucket) (k k' : Key) (o : Option Int) (h : k' ≠ k) : (putField b k o) k' = b k' := by
  cases o <;> simp [putField, Bucket.set, h]

/-- what key `k` holds after `putField b k o`, given what it held before -/
def putVal (k : Key) : Option Int → Option Bytes → Option Bytes
  | some v, _ => some (enc k v)
  | none, old => old

theorem putField_same (b : Bucket) (k : Key) (o : Option Int) : (putField b k o) k = putVal k o (b k) := by
  cases o <;> simp [putField, Bucket.set, putVal]

theorem WFB_putField (b : Bucket) (h : WFB b) (k : Key) (o : Option Int) : WFB (putField b k o) := by
  cases o with
  | none => exact h
  | some v => exact WFB_set b h k v

theorem WFB_writeBucket (b : Bucket) (h : WFB b) (i : Info) : WFB (writeBucket b i) := by
  unfold writeBucket
  repeat apply WFB_putField
  exact h

theorem recOf_empty : recOf Bucket.empty = Rec.zero := by
  simp [recOf, Bucket.empty, valU_none, Rec.zero, toS32, toS64]

theorem recOf_bucketOrNew (x : Option Bucket) : recOf (bucketOrNew x) = recOrNew (x.map recOf) := by
  cases x <;> simp [bucketOrNew, recOrNew, recOf_empty]

theorem WFB_bucketOrNew (x : Option Bucket) (h : ∀ b, x = some b → WFB b) : WFB (bucketOrNew x) := by
  cases x with
  | none => exact WFB_empty
  | some b => exact h b rfl

theorem field64 (k : Key) (hk : k ≠ .cap) (o : Option Int) (old : Option Bytes) (h : ∀ v, o = some v → In64 v) :
    toS64 (valU k (putVal k o old)) = orKeep o (toS64 (valU k old)) := by
  cases o with
  | none => simp [orKeep, putVal]
  | some v =>
    simp only [orKeep, putVal, valU_enc]
    cases k <;> first | exact absurd rfl hk | exact toS64_toU64 v (h v rfl)

theorem field32 (o : Option Int) (old : Option Bytes) (h : ∀ v, o = some v → In32 v) :
    toS32 (valU .cap (putVal .cap o old)) = orKeep o (toS32 (valU .cap old)) := by
  cases o with
  | none => simp [orKeep, putVal]
  | some v => simp only [orKeep, putVal, valU_enc]; exact toS32_toU32 v (h v rfl)

theorem recOf_writeBucket (b : Bucket) (i : Info) (hi : InRange i) : recOf (writeBucket b i) = (recOf b).update i := by
  obtain ⟨h1, h2, h3, h4, h5, h6⟩ := hi
  simp only [recOf, writeBucket, Rec.update, Rec.mk.injEq]
  refine ⟨?_, ?_, ?_, ?_, ?_, ?_⟩
  · rw [putField_other _ _ _ _ (by decide), putField_other _ _ _ _ (by decide), putField_other _ _ _ _ (by decide),
      putField_other _ _ _ _ (by decide), putField_other _ _ _ _ (by decide), putField_same]
    exact field32 _ _ h1
  · rw [putField_other _ _ _ _ (by decide), putField_other _ _ _ _ (by decide), putField_other _ _ _ _ (by decide),
      putField_other _ _ _ _ (by decide), putField_same, putField_other _ _ _ _ (by decide)]
    exact field64 _ (by decide) _ _ h2
  · rw [putField_other _ _ _ _ (by decide), putField_other _ _ _ _ (by decide), putField_other _ _ _ _ (by decide),
      putField_same, putField_other _ _ _ _ (by decide), putField_other _ _ _ _ (by decide)]
    exact field64 _ (by decide) _ _ h3
  · rw [putField_other _ _ _ _ (by decide), putField_other _ _ _ _ (by decide), putField_same,
      putField_other _ _ _ _ (by decide), putField_other _ _ _ _ (by decide), putField_other _ _ _ _ (by decide)]
    exact field64 _ (by decide) _ _ h4
  · rw [putField_other _ _ _ _ (by decide), putField_same, putField_other _ _ _ _ (by decide),
      putField_other _ _ _ _ (by decide), putField_other _ _ _ _ (by decide), putField_other _ _ _ _ (by decide)]
    exact field64 _ (by decide) _ _ h5
  · rw [putField_same, putField_other _ _ _ _ (by decide), putField_other _ _ _ _ (by decide),
      putField_other _ _ _ _ (by decide), putField_other _ _ _ _ (by decide), putField_other _ _ _ _ (by decide)]
    exact field64 _ (by decide) _ _ h6

/-- closes a goal `extracted Boolean term = true ↔ mathematical condition` (or an equation between
an extracted arithmetic term and its meaning) whatever the syntactic form of the Go expression -/
macro "gen_cmp" : tactic =>
  `(tactic| ((try simp only [Bool.and_eq_true, Bool.or_eq_true, Bool.not_eq_true', decide_eq_true_eq,
      decide_eq_false_iff_not]) <;> (try omega)))

theorem abs_lookup (s : Store) (uid : Bytes) : (abs s).lookup uid = (s.lookup uid).map recOf :=
  AL.lookup_mapv recOf s uid

/-- the status codes the handlers use (from `Gen.Store`) are the documented ones -/
theorem gen_status :
    Gen.Store.postSt_empty = 400 ∧ Gen.Store.postSt_b64 = 400 ∧ Gen.Store.postSt_json = 400 ∧
    Gen.Store.postSt_mismatch = 400 ∧ Gen.Store.postSt_mgr = 500 ∧ Gen.Store.postSt_ok = 201 ∧
    Gen.Store.getSt_empty = 400 ∧ Gen.Store.getSt_b64 = 400 ∧ Gen.Store.getSt_notfound = 404 ∧
    Gen.Store.delSt_empty = 400 ∧ Gen.Store.delSt_b64 = 400 ∧ Gen.Store.delSt_mgr = 500 ∧ Gen.Store.delSt_ok = 200 := by
  decide

/-! ### POST -/

theorem post_sim (F : Facts) (hF : Good F) (s : Store) (hs : WFS s) (u : Url) (b : Body)
    (hb : ∀ i, b = .ok i → InRange i) :
    abs (postHlr F s u b).1 = (Spec.post (abs s) u b).1 ∧ (postHlr F s u b).2 = (Spec.post (abs s) u b).2 ∧
    WFS (postHlr F s u b).1 := by
  obtain ⟨e1, e2, e3, e4, e5, e6, _⟩ := gen_status
  cases u with
  | empty => cases b <;> simp [postHlr, Spec.post, e1, hs]
  | bad => cases b <;> simp [postHlr, Spec.post, e2, hs]
  | ok uid =>
    cases b with
    | bad => simp [postHlr, Spec.post, e3, hs]
    | ok i =>
      have hi := hb i rfl
      by_cases hm : uid = i.uid
      · subst hm
        by_cases he : i.uid = []
        · simp [postHlr, Spec.post, writeUserInfo, he, firstStatus, e5, hs]
        · simp only [postHlr, Spec.post, writeUserInfo, he, firstStatus, e6, ne_eq, not_true_eq_false, false_and,
            if_false]
          refine ⟨?_, trivial, ?_⟩
          · show abs (s.set i.uid _) = _
            unfold abs
            rw [← AL.set_mapv, recOf_writeBucket _ _ hi, recOf_bucketOrNew]
            show _ = (AL.mapv recOf s).set i.uid ((recOrNew ((abs s).lookup i.uid)).update i)
            rw [abs_lookup]
          · apply WFS_set _ hs
            apply WFB_writeBucket
            apply WFB_bucketOrNew
            intro b hb'; exact WFS_lookup s hs _ _ hb'
      · simp [postHlr, Spec.post, hm, hF.ret, e4, hs]

/-! ### GET / list / DELETE -/

theorem getUserInfo_ok (F : Facts) (hF : Good F) (s : Store) (hs : WFS s) (uid : Bytes) :
    getUserInfo F s uid = .ok ((abs s).lookup uid) := by
  unfold getUserInfo
  rw [abs_lookup]
  cases h : s.lookup uid with
  | none => rfl
  | some b => simp [readRec_ok F hF b (WFS_lookup s hs uid b h), bind, Except.bind, pure, Except.pure]

theorem get_sim (F : Facts) (hF : Good F) (s : Store) (hs : WFS s) (u : Url) :
    getHlr F s u = .ok (Spec.get (abs s) u) := by
  obtain ⟨_, _, _, _, _, _, e7, e8, e9, _⟩ := gen_status
  cases u with
  | empty =>
    by_cases hr : Gen.Store.getRet_empty = true
    · simp [getHlr, hr, Spec.get, e7]
    · simp [getHlr, hr, getUserInfo_ok F hF s hs, Spec.get, e7, bind, Except.bind, pure, Except.pure]
  | bad => simp [getHlr, Spec.get, e8]
  | ok uid =>
    simp only [getHlr, getUserInfo_ok F hF s hs, Spec.get, bind, Except.bind]
    cases (abs s).lookup uid <;> simp [e9, pure, Except.pure]

theorem list_sim (F : Facts) (hF : Good F) (s : Store) (hs : WFS s) : listAllUsers F s = .ok (abs s) := by
  induction s with
  | nil => rfl
  | cons p r ih =>
    obtain ⟨uid, b⟩ := p
    have hb : WFB b := hs (uid, b) (by simp)
    have hr : WFS r := fun q hq => hs q (List.mem_cons_of_mem _ hq)
    simp [listAllUsers, readRec_ok F hF b hb, ih hr, bind, Except.bind, pure, Except.pure, abs, AL.mapv]

theorem del_sim (s : Store) (hs : WFS s) (u : Url) :
    abs (delHlr s u).1 = (Spec.del (abs s) u).1 ∧ (delHlr s u).2 = (Spec.del (abs s) u).2 ∧ WFS (delHlr s u).1 := by
  obtain ⟨_, _, _, _, _, _, _, _, _, e10, e11, e12, e13⟩ := gen_status
  cases u with
  | empty => simp [delHlr, Spec.del, e10, hs]
  | bad => simp [delHlr, Spec.del, e11, hs]
  | ok uid =>
    simp only [delHlr, deleteUser, Spec.del, abs_lookup]
    cases h : s.lookup uid with
    | none => simp [e12, hs]
    | some b =>
      simp only [Option.map_some, e13]
      refine ⟨?_, trivial, WFS_erase s hs uid⟩
      unfold abs; rw [AL.erase_mapv]

/-! ### authenticate / authorise / activate -/

theorem gen_auth_cmp (uc dc e now : Int) :
    (Gen.Store.authNoUp uc = true ↔ uc ≤ 0) ∧ (Gen.Store.authNoDown dc = true ↔ dc ≤ 0) ∧
    (Gen.Store.authExpired e now = true ↔ e < now) := by
  unfold Gen.Store.authNoUp Gen.Store.authNoDown Gen.Store.authExpired
  refine ⟨?_, ?_, ?_⟩ <;> gen_cmp

theorem gen_authz_cmp (uc dc e now n cap : Int) :
    (Gen.Store.authzNoUp uc = true ↔ uc ≤ 0) ∧ (Gen.Store.authzNoDown dc = true ↔ dc ≤ 0) ∧
    (Gen.Store.authzExpired e now = true ↔ e < now) ∧ (Gen.Store.authzCapReached n cap = true ↔ n ≥ cap) := by
  unfold Gen.Store.authzNoUp Gen.Store.authzNoDown Gen.Store.authzExpired Gen.Store.authzCapReached
  refine ⟨?_, ?_, ?_, ?_⟩ <;> gen_cmp

theorem bool_if {α} (c : Bool) (p : Prop) [Decidable p] (h : c = true ↔ p) (x y : α) :
    (if c = true then x else y) = (if p then x else y) := by
  by_cases hp : p
  · simp [hp, h.mpr hp]
  · have : c = false := by cases c <;> simp_all
    simp [hp, this]

theorem auth_sim (F : Facts) (hF : Good F) (s : Store) (hs : WFS s) (uid : Bytes) (now : Int) :
    authenticateUser F s uid now = .ok (Spec.auth (abs s) uid now) := by
  unfold authenticateUser Spec.auth
  rw [abs_lookup]
  cases h : s.lookup uid with
  | none => rfl
  | some b =>
    have hb := WFS_lookup s hs uid b h
    simp only [dec64_ok F hF .upRate rfl _ (hb .upRate), dec64_ok F hF .downRate rfl _ (hb .downRate),
      dec64_ok F hF .upCredit rfl _ (hb .upCredit), dec64_ok F hF .downCredit rfl _ (hb .downCredit),
      dec64_ok F hF .expiry rfl _ (hb .expiry), bind, Except.bind, Option.map_some, Spec.authRec, recOf]
    obtain ⟨c1, c2, c3⟩ := gen_auth_cmp (toS64 (valU .upCredit (b .upCredit))) (toS64 (valU .downCredit (b .downCredit)))
      (toS64 (valU .expiry (b .expiry))) now
    rw [bool_if _ _ c1, bool_if _ _ c2, bool_if _ _ c3]
    split
    · rfl
    · split
      · rfl
      · split <;> rfl

theorem authz_sim (F : Facts) (hF : Good F) (s : Store) (hs : WFS s) (uid : Bytes) (n now : Int) :
    authoriseNewSession F s uid n now = .ok (Spec.authz (abs s) uid n now) := by
  unfold authoriseNewSession Spec.authz
  rw [abs_lookup]
  cases h : s.lookup (pad16 uid) with
  | none => rfl
  | some b =>
    have hb := WFS_lookup s hs _ b h
    simp only [dec32_ok F hF _ (hb .cap),
      dec64_ok F hF .upCredit rfl _ (hb .upCredit), dec64_ok F hF .downCredit rfl _ (hb .downCredit),
      dec64_ok F hF .expiry rfl _ (hb .expiry), bind, Except.bind, Option.map_some, recOf]
    obtain ⟨c1, c2, c3, c4⟩ := gen_authz_cmp (toS64 (valU .upCredit (b .upCredit))) (toS64 (valU .downCredit (b .downCredit)))
      (toS64 (valU .expiry (b .expiry))) now n ((valU .cap (b .cap) : Nat) : Int)
    rw [bool_if _ _ c1, bool_if _ _ c2, bool_if _ _ c3, bool_if _ _ c4, toU32_toS32 _ (valU_cap_lt b hb)]
    split
    · rfl
    · split
      · rfl
      · split
        · rfl
        · split <;> rfl

theorem getUser_sim (F : Facts) (hF : Good F) (s : Store) (hs : WFS s) (uid : Bytes) (now : Int) :
    getUser F s uid now = .ok (Spec.getUser (abs s) uid now) := by
  unfold getUser Spec.getUser
  rw [auth_sim F hF s hs]
  simp only [bind, Except.bind]
  cases h : Spec.auth (abs s) uid now with
  | ok up down =>
    simp only
    by_cases hr : up ≤ 0 ∨ down ≤ 0
    · simp [(hF.valve up down).mpr hr, hr, pure, Except.pure]
    · have : F.valveGuard up down = false := by
        cases hv : F.valveGuard up down
        · rfl
        · exact absurd ((hF.valve up down).mp hv) hr
      simp [this, hr, makeValve, pure, Except.pure, bind, Except.bind]
  | notFound => rfl
  | noUp => rfl
  | noDown => rfl
  | expired => rfl

/-! ### upload -/

theorem gen_upload (old usage new now expiry : Int) :
    Gen.Store.uploadNewUp old usage = old - usage ∧ Gen.Store.uploadNewDown old usage = old - usage ∧
    (Gen.Store.uploadUpExhausted new = true ↔ new ≤ 0) ∧ (Gen.Store.uploadDownExhausted new = true ↔ new ≤ 0) ∧
    (Gen.Store.uploadExpired now expiry = true ↔ now > expiry) := by
  unfold Gen.Store.uploadNewUp Gen.Store.uploadNewDown Gen.Store.uploadUpExhausted Gen.Store.uploadDownExhausted
    Gen.Store.uploadExpired
  refine ⟨?_, ?_, ?_, ?_, ?_⟩ <;> gen_cmp

theorem set_other (b : Bucket) (k k' : Key) (v : Bytes) (h : k' ≠ k) : (b.set k v) k' = b k' := by
  simp [Bucket.set, h]

theorem set_same (b : Bucket) (k : Key) (v : Bytes) : (b.set k v) k = some v := by simp [Bucket.set]

theorem uploadOne_sim (F : Facts) (hF : Good F) (now : Int) (acc : Store × List (Bytes × Msg)) (hs : WFS acc.1) (u : Upd) :
    ∃ acc', uploadOne F now acc u = .ok acc' ∧ WFS acc'.1 ∧
      (abs acc'.1, acc'.2) = Spec.uploadOne now (abs acc.1, acc.2) u := by
  unfold uploadOne Spec.uploadOne
  simp only [abs_lookup]
  cases h : acc.1.lookup u.uid with
  | none => exact ⟨_, rfl, hs, rfl⟩
  | some b =>
    have hb := WFS_lookup acc.1 hs _ b h
    have hb1 : WFB (b.set .upCredit (enc .upCredit
        (wrap64 (Gen.Store.uploadNewUp (toS64 (valU .upCredit (b .upCredit))) u.up)))) := WFB_set b hb _ _
    have hb2 := WFB_set _ hb1 .downCredit
        (wrap64 (Gen.Store.uploadNewDown (toS64 (valU .downCredit (b .downCredit))) u.down))
    simp only [dec64_ok F hF .upCredit rfl _ (hb .upCredit), bind, Except.bind]
    rw [set_other _ _ _ _ (by decide)]
    simp only [dec64_ok F hF .downCredit rfl _ (hb .downCredit)]
    rw [set_other _ _ _ _ (by decide), set_other _ _ _ _ (by decide)]
    simp only [dec64_ok F hF .expiry rfl _ (hb .expiry), pure, Except.pure]
    refine ⟨_, rfl, WFS_set _ hs _ _ hb2, ?_⟩
    obtain ⟨g1, g2, g3, g4, g5⟩ := gen_upload 0 0 0 0 0
    have gu := fun old usage => (gen_upload old usage 0 0 0).1
    have gd := fun old usage => (gen_upload old usage 0 0 0).2.1
    have g3 := fun new => (gen_upload 0 0 new 0 0).2.2.1
    have g4 := fun new => (gen_upload 0 0 new 0 0).2.2.2.1
    have g5 := fun now expiry => (gen_upload 0 0 0 now expiry).2.2.2.2
    simp only [Option.map_some, gu, gd]
    rw [bool_if _ _ (g3 _), bool_if _ _ (g4 _), bool_if _ _ (g5 _ _)]
    have hrec : recOf ((b.set .upCredit (enc .upCredit (wrap64 (toS64 (valU .upCredit (b .upCredit)) - u.up)))).set .downCredit
        (enc .downCredit (wrap64 (toS64 (valU .downCredit (b .downCredit)) - u.down)))) =
        { recOf b with upCredit := wrap64 ((recOf b).upCredit - u.up), downCredit := wrap64 ((recOf b).downCredit - u.down) } := by
      simp only [recOf, Rec.mk.injEq]
      refine ⟨?_, ?_, ?_, ?_, ?_, ?_⟩
      · rw [set_other _ _ _ _ (by decide), set_other _ _ _ _ (by decide)]
      · rw [set_other _ _ _ _ (by decide), set_other _ _ _ _ (by decide)]
      · rw [set_other _ _ _ _ (by decide), set_other _ _ _ _ (by decide)]
      · rw [set_other _ _ _ _ (by decide), set_same, valU_enc]
        exact toS64_toU64 _ (wrap64_in _)
      · rw [set_same, valU_enc]
        exact toS64_toU64 _ (wrap64_in _)
      · rw [set_other _ _ _ _ (by decide), set_other _ _ _ _ (by decide)]
    show (abs (acc.1.set u.uid _), _) = _
    unfold abs
    rw [← AL.set_mapv, hrec]
    rfl

theorem uploadLoop_sim (F : Facts) (hF : Good F) (now : Int) (ups : List Upd) :
    ∀ (acc : Store × List (Bytes × Msg)), WFS acc.1 →
    ∃ acc', uploadLoop F now acc ups = .ok acc' ∧ WFS acc'.1 ∧
      (abs acc'.1, acc'.2) = ups.foldl (Spec.uploadOne now) (abs acc.1, acc.2) := by
  induction ups with
  | nil => intro acc hs; exact ⟨acc, rfl, hs, rfl⟩
  | cons u us ih =>
    intro acc hs
    obtain ⟨a1, h1, w1, e1⟩ := uploadOne_sim F hF now acc hs u
    obtain ⟨a2, h2, w2, e2⟩ := ih a1 w1
    refine ⟨a2, ?_, w2, ?_⟩
    · simp [uploadLoop, h1, h2, bind, Except.bind]
    · rw [e2, e1]; rfl

theorem upload_sim (F : Facts) (hF : Good F) (s : Store) (hs : WFS s) (ups : List Upd) (now : Int) :
    ∃ s' r, uploadStatus F s ups now = (s', .ok r) ∧ WFS s' ∧ (abs s', r) = Spec.upload (abs s) ups now := by
  obtain ⟨a, h, w, e⟩ := uploadLoop_sim F hF now ups (s, []) hs
  refine ⟨a.1, a.2, ?_, w, e⟩
  simp [uploadStatus, h]

/-! ### one step, and whole runs -/

theorem step_sim (F : Facts) (hF : Good F) (s : Store) (hs : WFS s) (op : Op) (hop : op.WF) :
    abs (step F s op).1 = (Spec.step (abs s) op).1 ∧ (step F s op).2 = (Spec.step (abs s) op).2 ∧ WFS (step F s op).1 := by
  cases op with
  | post u b =>
    have hb : ∀ i, b = .ok i → InRange i := by
      intro i hi; subst hi; exact hop
    obtain ⟨h1, h2, h3⟩ := post_sim F hF s hs u b hb
    exact ⟨h1, by simp [step, Spec.step, h2], h3⟩
  | get u => simp [step, Spec.step, get_sim F hF s hs u, hs]
  | list => simp [step, Spec.step, list_sim F hF s hs, hs]
  | del u =>
    obtain ⟨h1, h2, h3⟩ := del_sim s hs u
    exact ⟨h1, by simp [step, Spec.step, h2], h3⟩
  | auth uid now => simp [step, Spec.step, auth_sim F hF s hs, hs]
  | authz uid n now => simp [step, Spec.step, authz_sim F hF s hs, hs]
  | upload ups now =>
    obtain ⟨s', r, h, w, e⟩ := upload_sim F hF s hs ups now
    simp only [step, Spec.step, h]
    have e1 : abs s' = (Spec.upload (abs s) ups now).1 := by rw [← e]
    have e2 : r = (Spec.upload (abs s) ups now).2 := by rw [← e]
    exact ⟨e1, by rw [e2], w⟩
  | getUser uid now => simp [step, Spec.step, getUser_sim F hF s hs, hs]
  | reopen => simp [step, Spec.step, hs]

theorem run_sim (F : Facts) (hF : Good F) (ops : List Op) : ∀ (s : Store), WFS s → (∀ op ∈ ops, op.WF) →
    abs (run F s ops).1 = (Spec.run (abs s) ops).1 ∧ (run F s ops).2 = (Spec.run (abs s) ops).2 ∧ WFS (run F s ops).1 := by
  induction ops with
  | nil => intro s hs _; exact ⟨rfl, rfl, hs⟩
  | cons op ops ih =>
    intro s hs hw
    obtain ⟨h1, h2, h3⟩ := step_sim F hF s hs op (hw op (by simp))
    obtain ⟨i1, i2, i3⟩ := ih (step F s op).1 h3 (fun o ho => hw o (List.mem_cons_of_mem _ ho))
    simp only [run, Spec.run]
    rw [← h1]
    exact ⟨i1, by rw [i2, h2], i3⟩

end US
