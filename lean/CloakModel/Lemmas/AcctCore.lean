import CloakModel.Model.Acct

/-! Conservation and non-negativity invariants of the accounting model (ported from spike S11 `C16Accounting.lean`,
extended with both directions, retired-record valves, deleted users and admin credit changes). -/
namespace Acct

/-- OBLIGATION-level bridging: the arithmetic of `UploadStatus` is `old − usage` in both directions -/
theorem gen_upload_arith (d : Bool) (old usage : Int) : newCredit d old usage = old - usage := by
  unfold newCredit Gen.Acct.uploadNewDown Gen.Acct.uploadNewUp
  split <;> omega

/-- conservation, per user and direction -/
def Inv (s : St) : Prop :=
  ∀ k, s.carried k = (s.granted k - s.stored k) + fsum s.inflight k + s.queue k + s.pending k + s.valve k + s.old k + s.dropped k

theorem fsum_append (l : List (List U × Fn)) (e : List U × Fn) (k : K) : fsum (l ++ [e]) k = fsum l k + e.2 k := by
  simp [fsum, List.sum_append]

theorem fsum_cons (l : List (List U × Fn)) (e : List U × Fn) (k : K) : fsum (e :: l) k = e.2 k + fsum l k := by
  simp [fsum]

theorem step_inv (s : St) (e : Ev) (h : Inv s) : Inv (step s e) := by
  intro x
  have hx := h x
  cases e with
  | traffic u d n =>
    simp only [step]
    split
    · exact hx
    · split <;> (simp only; by_cases hxu : x = (u, d)
                 · simp only [hxu, if_true] at hx ⊢; omega
                 · simp only [hxu, if_false]; omega)
  | stray u d n =>
    simp only [step]
    split
    · exact hx
    · simp only; by_cases hxu : x = (u, d)
      · simp only [hxu, if_true] at hx ⊢; omega
      · simp only [hxu, if_false]; omega
  | collectAll =>
    simp only [step]
    split <;> omega
  | swapOne u =>
    simp only [step]; by_cases hxu : x.1 = u
    · simp only [hxu, if_true]; omega
    · simp only [hxu, if_false]; omega
  | swapOld u up down =>
    simp only [step]
    split
    · simp only; by_cases hxu : x.1 = u
      · simp only [hxu, if_true]; omega
      · simp only [hxu, if_false]; omega
    · exact hx
  | enqueueOne u =>
    simp only [step]; by_cases hxu : x.1 = u
    · simp only [hxu, if_true]; omega
    · simp only [hxu, if_false]; omega
  | snapshot => simp only [step]; rw [fsum_append]; simp only; omega
  | upload now =>
    simp only [step]
    split
    · exact hx
    · rename_i keys f rest hfl
      rw [hfl, fsum_cons] at hx
      simp only at hx ⊢
      split
      · rw [gen_upload_arith]; omega
      · omega
  | retire u =>
    simp only [step]; by_cases hxu : x.1 = u
    · simp only [hxu, if_true]; omega
    · simp only [hxu, if_false]; omega
  | activate u now =>
    simp only [step]
    split
    · exact hx
    · split <;> exact hx
  | openSess u => simp only [step]; split <;> exact hx
  | closeSess u => exact hx
  | closeAllSess u => exact hx
  | put u up down e =>
    simp only [step]; by_cases hxu : x.1 = u
    · simp only [hxu, if_true]; omega
    · simp only [hxu, if_false]; omega
  | delete u =>
    simp only [step]; by_cases hxu : x.1 = u
    · simp only [hxu, if_true]; omega
    · simp only [hxu, if_false]; omega

theorem run_inv (evs : List Ev) (s : St) (h : Inv s) : Inv (run s evs) := by
  induction evs generalizing s with
  | nil => exact h
  | cons e rest ih => exact ih (step s e) (step_inv s e h)

/-- every term of the conservation law stays non-negative -/
def NonNeg (s : St) : Prop :=
  ∀ k, 0 ≤ s.valve k ∧ 0 ≤ s.old k ∧ 0 ≤ s.pending k ∧ 0 ≤ s.queue k ∧ 0 ≤ s.dropped k ∧ (∀ e ∈ s.inflight, 0 ≤ e.2 k)

theorem fsum_nonneg (l : List (List U × Fn)) (k : K) (h : ∀ e ∈ l, 0 ≤ e.2 k) : 0 ≤ fsum l k := by
  induction l with
  | nil => simp [fsum]
  | cons f rest ih =>
    rw [fsum_cons]
    have := h f (by simp)
    have := ih (fun g hg => h g (by simp [hg]))
    omega

theorem step_nonneg (s : St) (e : Ev) (h : NonNeg s) : NonNeg (step s e) := by
  intro x
  obtain ⟨h1, h2, h3, h4, h5, h6⟩ := h x
  cases e with
  | traffic u d n =>
    simp only [step]
    split
    · exact ⟨h1, h2, h3, h4, h5, h6⟩
    · split <;> (simp only; by_cases hxu : x = (u, d)
                 · subst hxu; simp only [if_true]; exact ⟨by omega, by omega, h3, h4, h5, h6⟩
                 · simp only [hxu, if_false]; exact ⟨h1, h2, h3, h4, h5, h6⟩)
  | stray u d n =>
    simp only [step]
    split
    · exact ⟨h1, h2, h3, h4, h5, h6⟩
    · simp only; by_cases hxu : x = (u, d)
      · subst hxu; simp only [if_true]; exact ⟨h1, by omega, h3, h4, h5, h6⟩
      · simp only [hxu, if_false]; exact ⟨h1, h2, h3, h4, h5, h6⟩
  | collectAll =>
    simp only [step]
    refine ⟨?_, h2, h3, ?_, h5, h6⟩ <;> split <;> omega
  | swapOne u =>
    simp only [step]; by_cases hxu : x.1 = u
    · simp only [hxu, if_true]; exact ⟨by omega, h2, by omega, h4, h5, h6⟩
    · simp only [hxu, if_false]; exact ⟨h1, h2, h3, h4, h5, h6⟩
  | swapOld u up down =>
    simp only [step]
    split
    · rename_i hg
      simp only; by_cases hxu : x.1 = u
      · obtain ⟨xu, xd⟩ := x
        simp only at hxu; subst hxu
        simp only [if_true]
        cases xd
        · simp only [Bool.false_eq_true, if_false]; exact ⟨h1, by omega, by omega, h4, h5, h6⟩
        · simp only [if_true]; exact ⟨h1, by omega, by omega, h4, h5, h6⟩
      · simp only [hxu, if_false]; exact ⟨h1, h2, h3, h4, h5, h6⟩
    · exact ⟨h1, h2, h3, h4, h5, h6⟩
  | enqueueOne u =>
    simp only [step]; by_cases hxu : x.1 = u
    · simp only [hxu, if_true]; exact ⟨h1, h2, by omega, by omega, h5, h6⟩
    · simp only [hxu, if_false]; exact ⟨h1, h2, h3, h4, h5, h6⟩
  | snapshot =>
    simp only [step]
    refine ⟨h1, h2, h3, Int.le_refl 0, h5, ?_⟩
    intro f hf
    rcases List.mem_append.1 hf with hf | hf
    · exact h6 f hf
    · simp at hf; subst hf; exact h4
  | upload now =>
    simp only [step]
    split
    · exact ⟨h1, h2, h3, h4, h5, h6⟩
    · rename_i keys f rest hfl
      have hf : 0 ≤ f x := h6 (keys, f) (by rw [hfl]; simp)
      refine ⟨h1, h2, h3, h4, ?_, fun g hg => h6 g (by rw [hfl]; simp [hg])⟩
      simp only
      split <;> omega
  | retire u =>
    simp only [step]; by_cases hxu : x.1 = u
    · simp only [hxu, if_true]; exact ⟨by omega, by omega, h3, h4, h5, h6⟩
    · simp only [hxu, if_false]; exact ⟨h1, h2, h3, h4, h5, h6⟩
  | activate u now =>
    simp only [step]
    split
    · exact ⟨h1, h2, h3, h4, h5, h6⟩
    · split <;> exact ⟨h1, h2, h3, h4, h5, h6⟩
  | openSess u => simp only [step]; split <;> exact ⟨h1, h2, h3, h4, h5, h6⟩
  | closeSess u => exact ⟨h1, h2, h3, h4, h5, h6⟩
  | closeAllSess u => exact ⟨h1, h2, h3, h4, h5, h6⟩
  | put u up down e => exact ⟨h1, h2, h3, h4, h5, h6⟩
  | delete u => exact ⟨h1, h2, h3, h4, h5, h6⟩

theorem run_nonneg (evs : List Ev) (s : St) (h : NonNeg s) : NonNeg (run s evs) := by
  induction evs generalizing s with
  | nil => exact h
  | cons e rest ih => exact ih (step s e) (step_nonneg s e h)

theorem inv_init : Inv init := by intro k; simp [init, fsum]
theorem nonneg_init : NonNeg init := by intro k; simp [init]

end Acct
