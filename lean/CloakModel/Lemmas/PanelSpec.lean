import CloakModel.Lemmas.PanelCore

/-! What each answer of `Panel.getSession` says about the state before and after. -/
namespace Panel

theorem created_spec {cfg : Cfg} {s : St} {rid sid key : Nat} {now : Int} {k : Nat}
    (h : (getSession cfg s rid sid key now).2 = .created k) :
    ∃ r, s.recs[rid]? = some r ∧ lookup r.sessions sid = none ∧ k = key ∧
      (getSession cfg s rid sid key now).1.recs = s.recs.set rid { r with sessions := (sid, key) :: r.sessions } ∧
      (cfg.checksRetired = true → r.retired = false) ∧
      (r.bypass = false → authoriseNew s.store r.uid now r.sessions.length = none) := by
  unfold getSession at h ⊢
  cases hr : s.recs[rid]? with
  | none => simp only [hr] at h; cases h
  | some r =>
    simp only [hr] at h ⊢
    by_cases hc : (cfg.checksRetired && r.retired) = true
    · simp only [hc, if_true] at h; cases h
    · simp only [hc] at h ⊢
      cases hl : lookup r.sessions sid with
      | some k' => simp only [hl] at h; cases h
      | none =>
        simp only [hl] at h ⊢
        cases ha : (if r.bypass = true then none else authoriseNew s.store r.uid now r.sessions.length) with
        | some e => simp only [ha] at h; cases h
        | none =>
          simp only [ha] at h ⊢
          cases h
          refine ⟨r, rfl, hl, rfl, rfl, ?_, ?_⟩
          · intro hcr; simpa [hcr] using hc
          · intro hb; simpa [hb] using ha

theorem joined_spec {cfg : Cfg} {s : St} {rid sid key : Nat} {now : Int} {k : Nat}
    (h : (getSession cfg s rid sid key now).2 = .joined k) :
    ∃ r, s.recs[rid]? = some r ∧ lookup r.sessions sid = some k ∧ (getSession cfg s rid sid key now).1 = s ∧
      (cfg.checksRetired = true → r.retired = false) := by
  unfold getSession at h ⊢
  cases hr : s.recs[rid]? with
  | none => simp only [hr] at h; cases h
  | some r =>
    simp only [hr] at h ⊢
    by_cases hc : (cfg.checksRetired && r.retired) = true
    · simp only [hc, if_true] at h; cases h
    · simp only [hc] at h ⊢
      cases hl : lookup r.sessions sid with
      | some k' =>
        simp only [hl] at h ⊢
        cases h
        exact ⟨r, rfl, hl, rfl, by intro hcr; simpa [hcr] using hc⟩
      | none =>
        simp only [hl] at h
        cases ha : (if r.bypass = true then none else authoriseNew s.store r.uid now r.sessions.length) with
        | some e => simp only [ha] at h; cases h
        | none => simp only [ha] at h; cases h

/-- any other answer leaves the state unchanged -/
theorem other_spec {cfg : Cfg} {s : St} {rid sid key : Nat} {now : Int}
    (h : ∀ k, (getSession cfg s rid sid key now).2 ≠ .created k) :
    (getSession cfg s rid sid key now).1 = s := by
  unfold getSession at h ⊢
  cases hr : s.recs[rid]? with
  | none => rfl
  | some r =>
    simp only [hr] at h ⊢
    by_cases hc : (cfg.checksRetired && r.retired) = true
    · simp only [hc, if_true]
    · simp only [hc] at h ⊢
      cases hl : lookup r.sessions sid with
      | some k' => rfl
      | none =>
        simp only [hl] at h ⊢
        cases ha : (if r.bypass = true then none else authoriseNew s.store r.uid now r.sessions.length) with
        | some e => rfl
        | none => simp only [ha] at h; exact absurd rfl (h key)

/-! the clean-up of a refused connection -/

/-- pinned shape: it IS the locked part of `CloseSession(rid's record, sid)` -/
theorem refusedCleanup_names {cfg : Cfg} {s : St} {rid sid : Nat} (h : cfg.cleanupNamesSession = true) :
    (refusedCleanup cfg s rid sid).1 = (closeLocked s rid sid).1 := by
  unfold refusedCleanup
  rw [if_pos h]
  split <;> (rename_i heq; rw [heq])

/-- repaired shape, no such record -/
theorem refusedCleanup_noRec {cfg : Cfg} {s : St} {rid sid : Nat} (h : cfg.cleanupNamesSession = false)
    (hr : s.recs[rid]? = none) : refusedCleanup cfg s rid sid = (s, none) := by
  unfold refusedCleanup
  simp [h, hr]

/-- repaired shape: the only thing it may change is the `retired` flag of a record that is EMPTY at that moment -/
theorem refusedCleanup_rec {cfg : Cfg} {s : St} {rid sid : Nat} {r : Rec} (h : cfg.cleanupNamesSession = false)
    (hr : s.recs[rid]? = some r) :
    refusedCleanup cfg s rid sid =
      ({ s with recs := s.recs.set rid { r with retired := r.retired || (cfg.cleanupRetires && r.sessions.isEmpty) } },
       some r.sessions.isEmpty) := by
  unfold refusedCleanup
  simp [h, hr]

/-- … so a record that has a session is left exactly as it was, and no termination is started -/
theorem refusedCleanup_nonempty {cfg : Cfg} {s : St} {rid sid : Nat} {r : Rec} (h : cfg.cleanupNamesSession = false)
    (hr : s.recs[rid]? = some r) (hne : r.sessions ≠ []) :
    refusedCleanup cfg s rid sid = (s, some false) := by
  rw [refusedCleanup_rec h hr]
  have he : r.sessions.isEmpty = false := by
    cases hs : r.sessions with
    | nil => exact absurd hs hne
    | cons a t => rfl
  have hrec : ({ r with retired := r.retired || (cfg.cleanupRetires && r.sessions.isEmpty) } : Rec) = r := by
    rw [he]; simp
  rw [hrec, he]
  have : s.recs.set rid r = s.recs := by
    apply List.ext_getElem?
    intro j
    by_cases hj : rid = j
    · subst hj; rw [getElem?_set_eq' _ _ _ _ hr, hr]
    · rw [getElem?_set_ne' _ _ _ _ hj]
  rw [this]

/-- the clean-up announces a termination (`some true`) only for a record it found empty; with `cleanupRetires` that
record is retired by the same step -/
theorem refusedCleanup_terminate_spec {cfg : Cfg} {s : St} {rid sid : Nat} (h : cfg.cleanupNamesSession = false)
    (ht : (refusedCleanup cfg s rid sid).2 = some true) :
    ∃ r, s.recs[rid]? = some r ∧ r.sessions = [] ∧
      (refusedCleanup cfg s rid sid).1.recs = s.recs.set rid { r with retired := r.retired || cfg.cleanupRetires } := by
  cases hr : s.recs[rid]? with
  | none => rw [refusedCleanup_noRec h hr] at ht; cases ht
  | some r =>
    rw [refusedCleanup_rec h hr] at ht ⊢
    simp only [Option.some.injEq] at ht
    exact ⟨r, rfl, List.isEmpty_iff.1 ht, by simp [ht]⟩

end Panel
