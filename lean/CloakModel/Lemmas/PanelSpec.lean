import CloakModel.Lemmas.PanelCore

/-! What each answer of `Panel.getSession` says about the state before and after. -/
namespace Panel

theorem created_spec {cfg : Cfg} {s : St} {rid sid key : Nat} {now : Int} {k : Nat}
    (h : (getSession cfg s rid sid key now).2 = .created k) :
    ∃ r, s.recs[rid]? = some r ∧ lookup r.sessions sid = none ∧ k = key ∧
      (getSession cfg s rid sid key now).1.recs = s.recs.set rid { r with sessions := (sid, key) :: r.sessions } ∧
      (cfg.checksRetired = true → r.retired = false) ∧
      (r.bypass = false → authoriseNew s.store r.uid now r.sessions.length = none) := by
  unfold getSession at h ⊢
  cases hr : s.recs[rid]? with
  | none => simp only [hr] at h; cases h
  | some r =>
    simp only [hr] at h ⊢
    by_cases hc : (cfg.checksRetired && r.retired) = true
    · simp only [hc, if_true] at h; cases h
    · simp only [hc] at h ⊢
      cases hl : lookup r.sessions sid with
      | some k' => simp only [hl] at h; cases h
      | none =>
        simp only [hl] at h ⊢
        cases ha : (if r.bypass = true then none else authoriseNew s.store r.uid now r.sessions.length) with
        | some e => simp only [ha] at h; cases h
        | none =>
          simp only [ha] at h ⊢
          cases h
          refine ⟨r, rfl, hl, rfl, rfl, ?_, ?_⟩
          · intro hcr; simpa [hcr] using hc
          · intro hb; simpa [hb] using ha

theorem joined_spec {cfg : Cfg} {s : St} {rid sid key : Nat} {now : Int} {k : Nat}
    (h : (getSession cfg s rid sid key now).2 = .joined k) :
    ∃ r, s.recs[rid]? = some r ∧ lookup r.sessions sid = some k ∧ (getSession cfg s rid sid key now).1 = s ∧
      (cfg.checksRetired = true → r.retired = false) := by
  unfold getSession at h ⊢
  cases hr : s.recs[rid]? with
  | none => simp only [hr] at h; cases h
  | some r =>
    simp only [hr] at h ⊢
    by_cases hc : (cfg.checksRetired && r.retired) = true
    · simp only [hc, if_true] at h; cases h
    · simp only [hc] at h ⊢
      cases hl : lookup r.sessions sid with
      | some k' =>
        simp only [hl] at h ⊢
        cases h
        exact ⟨r, rfl, hl, rfl, by intro hcr; simpa [hcr] using hc⟩
      | none =>
        simp only [hl] at h
        cases ha : (if r.bypass = true then none else authoriseNew s.store r.uid now r.sessions.length) with
        | some e => simp only [ha] at h; cases h
        | none => simp only [ha] at h; cases h

/-- any other answer leaves the state unchanged -/
theorem other_spec {cfg : Cfg} {s : St} {rid sid key : Nat} {now : Int}
    (h : ∀ k, (getSession cfg s rid sid key now).2 ≠ .created k) :
    (getSession cfg s rid sid key now).1 = s := by
  unfold getSession at h ⊢
  cases hr : s.recs[rid]? with
  | none => rfl
  | some r =>
    simp only [hr] at h ⊢
    by_cases hc : (cfg.checksRetired && r.retired) = true
    · simp only [hc, if_true]
    · simp only [hc] at h ⊢
      cases hl : lookup r.sessions sid with
      | some k' => rfl
      | none =>
        simp only [hl] at h ⊢
        cases ha : (if r.bypass = true then none else authoriseNew s.store r.uid now r.sessions.length) with
        | some e => rfl
        | none => simp only [ha] at h; exact absurd rfl (h key)

end Panel
