import CloakModel.Model.Sender

/-! Invariant of the sender interleaving system (`Model/Sender.lean`) and its preservation by every
step of every thread.  Port of spike S7 (`C13SeqNumbers.lean`) to the richer instruction set
(closed test, CAS, send outcomes, early returns). -/
set_option linter.unusedVariables false
set_option linter.unusedSimpArgs false

namespace SN

/-! ### phase bookkeeping -/

theorem advs_outside {pe ha : Bool} {p : List Instr} (h : advs ⟨false, pe, ha⟩ p = some idle) :
    pe = false ∧ ha = false := by
  cases p with
  | nil => simp [advs, idle] at h; exact h
  | cons i p => cases i <;> cases pe <;> cases ha <;> simp [advs, adv] at h ⊢

theorem inv_lock {ph : Ph} {p : List Instr} (h : advs ph (.lock :: p) = some idle) :
    ph = ⟨false, false, false⟩ ∧ advs ⟨true, false, false⟩ p = some idle := by
  obtain ⟨a, b, c⟩ := ph
  cases a <;> cases b <;> cases c <;> simp [advs, adv] at h ⊢ <;> exact h

theorem inv_unlock {ph : Ph} {p : List Instr} (h : advs ph (.unlock :: p) = some idle) :
    ph = ⟨true, false, false⟩ ∧ advs ⟨false, false, false⟩ p = some idle := by
  obtain ⟨a, b, c⟩ := ph
  cases a <;> cases b <;> cases c <;> simp [advs, adv] at h ⊢ <;> exact h

theorem inv_chk {ph : Ph} {p : List Instr} (h : advs ph (.chk :: p) = some idle) :
    ph.pend = false ∧ ph.has = false ∧ advs ph p = some idle := by
  obtain ⟨a, b, c⟩ := ph
  cases a <;> cases b <;> cases c <;> simp [advs, adv] at h ⊢ <;> exact h

theorem inv_cas {ph : Ph} {p : List Instr} (h : advs ph (.cas :: p) = some idle) :
    ph = ⟨true, false, false⟩ ∧ advs ⟨true, false, false⟩ p = some idle := by
  obtain ⟨a, b, c⟩ := ph
  cases a <;> cases b <;> cases c <;> simp [advs, adv] at h ⊢ <;> exact h

theorem inv_enc {ph : Ph} {cl : Bool} {pl : Nat} {p : List Instr} (h : advs ph (.enc cl pl :: p) = some idle) :
    ph = ⟨true, false, false⟩ ∧ advs ⟨true, true, true⟩ p = some idle := by
  obtain ⟨a, b, c⟩ := ph
  cases a <;> cases b <;> cases c <;> simp [advs, adv] at h ⊢ <;> exact h

theorem inv_inc {ph : Ph} {p : List Instr} (h : advs ph (.inc :: p) = some idle) :
    ph = ⟨true, true, true⟩ ∧ advs ⟨true, false, true⟩ p = some idle := by
  obtain ⟨a, b, c⟩ := ph
  cases a <;> cases b <;> cases c <;> simp [advs, adv] at h ⊢ <;> exact h

theorem inv_send {ph : Ph} {r : Res} {p : List Instr} (h : advs ph (.send r :: p) = some idle) :
    ph = ⟨true, false, true⟩ ∧ advs ⟨true, false, false⟩ p = some idle := by
  obtain ⟨a, b, c⟩ := ph
  cases a <;> cases b <;> cases c <;> simp [advs, adv] at h ⊢ <;> exact h

theorem advs_append (a b : List Instr) : ∀ ph, advs ph (a ++ b) = (advs ph a).bind (fun q => advs q b) := by
  induction a with
  | nil => intro ph; simp [advs]
  | cons i a ih =>
    intro ph
    simp only [List.cons_append, advs]
    cases adv ph i with
    | none => simp
    | some q => simpa using ih q

/-! ### the invariant -/

/-- what is known about thread `t` -/
def TOK (s : State) (t : Nat) (th : Thread) : Prop :=
  advs ⟨decide (s.lock = some t), th.pend, th.cur.isSome⟩ th.prog = some idle ∧
  (∀ f, th.cur = some f → f.owner = t ∧ (th.pend = true → f.seq = s.seq) ∧
     (th.pend = false → ∃ ini, s.enc = ini ++ [f] ∧ s.wire.Sublist ini))

structure Inv (s : State) : Prop where
  seqLen  : s.seq = s.enc.length
  gapfree : s.enc.map (·.seq) = List.range s.enc.length
  owner   : ∀ f ∈ s.enc, f.owner < s.thr.length
  wire    : s.wire.Sublist s.enc
  lockValid : ∀ u, s.lock = some u → u < s.thr.length
  thr     : ∀ t th, s.thr[t]? = some th → TOK s t th

theorem tok_other {s s' : State} {u : Nat} {th : Thread}
    (hl : decide (s'.lock = some u) = decide (s.lock = some u))
    (hg : s.lock = some u → s'.seq = s.seq ∧ s'.enc = s.enc ∧ s'.wire = s.wire)
    (h : TOK s u th) : TOK s' u th := by
  refine ⟨by rw [hl]; exact h.1, ?_⟩
  intro f hf
  by_cases hu : s.lock = some u
  · obtain ⟨e1, e2, e3⟩ := hg hu
    rw [e1, e2, e3]; exact h.2 f hf
  · have h1 := h.1
    have : decide (s.lock = some u) = false := by simp [hu]
    rw [this] at h1
    have := (advs_outside h1).2
    rw [hf] at this; simp at this

theorem inv_of_set {s s' : State} {t : Nat} {th th' : Thread} (hth : s.thr[t]? = some th)
    (hthr : s'.thr = s.thr.set t th')
    (h1 : s'.seq = s'.enc.length) (h2 : s'.enc.map (·.seq) = List.range s'.enc.length)
    (h3 : ∀ f ∈ s'.enc, f.owner < s.thr.length) (h4 : s'.wire.Sublist s'.enc)
    (h5 : ∀ u, s'.lock = some u → u < s.thr.length)
    (ht : TOK s' t th')
    (ho : ∀ u uh, u ≠ t → s.thr[u]? = some uh → TOK s' u uh) : Inv s' := by
  have hlt : t < s.thr.length := (List.getElem?_eq_some_iff.1 hth).1
  refine ⟨h1, h2, ?_, h4, ?_, ?_⟩
  · intro f hf; rw [hthr, List.length_set]; exact h3 f hf
  · intro u hu; rw [hthr, List.length_set]; exact h5 u hu
  · intro u uh hu
    rw [hthr] at hu
    by_cases hut : u = t
    · subst hut
      rw [List.getElem?_set_self hlt] at hu
      simp at hu; subst hu; exact ht
    · rw [List.getElem?_set_ne (by omega)] at hu
      exact ho u uh hut hu

theorem tok_abort (s : State) (t : Nat) (s' : State) (hl : s'.lock = s.lock) :
    TOK s' t ⟨if s.lock = some t then [.unlock] else [], none, false⟩ := by
  refine ⟨?_, by intro f hf; simp at hf⟩
  rw [hl]
  by_cases h : s.lock = some t
  · simp [h, advs, adv, idle]
  · simp [h, advs, idle]

/-- an early return changes nothing but the returning thread -/
theorem inv_abort {s : State} {t : Nat} {th : Thread} (h : Inv s) (hth : s.thr[t]? = some th) (c : Bool) :
    Inv (abort { s with closed := c } t) := by
  refine inv_of_set (s := s) (s' := abort { s with closed := c } t) (t := t) hth rfl h.seqLen h.gapfree h.owner h.wire h.lockValid
    (tok_abort _ t _ rfl) ?_
  intro u uh hut hu
  exact tok_other (by rfl) (by intro _; exact ⟨rfl, rfl, rfl⟩) (h.thr u uh hu)

/-- the lock holder of the successor state is a thread of `s` -/
local macro "lv" : term => `(by
  intro u hu
  first
    | exact ‹Inv _›.lockValid u hu
    | (simp at hu; omega)
    | (simp at hu))

theorem step_inv (s s' : State) (t : Nat) (h : Inv s) (hs : step s t = some s') : Inv s' := by
  unfold step at hs
  split at hs
  · simp at hs
  · rename_i th hth
    have hph := h.thr t th hth
    have hlt : t < s.thr.length := (List.getElem?_eq_some_iff.1 hth).1
    split at hs
    · simp at hs
    · -- lock
      rename_i p hp
      split at hs
      · rename_i hfree
        simp at hs; subst hs
        unfold TOK at hph; rw [hp] at hph
        have h1 := hph.1
        rw [hfree] at h1
        have hw := inv_lock h1
        simp at hw
        have hcur : th.cur = none := by
          cases hc : th.cur with
          | none => rfl
          | some f => rw [hc] at hw; simp at hw
        refine inv_of_set (s := s) (t := t) hth rfl h.seqLen h.gapfree h.owner h.wire lv ?_ ?_
        · refine ⟨?_, by intro f hf; simp [hcur] at hf⟩
          simp [hw.1.1, hcur]; exact hw.2
        · intro u uh hut hu
          refine tok_other ?_ (by intro hh; rw [hfree] at hh; simp at hh) (h.thr u uh hu)
          simp [hfree]; omega
      · simp at hs
    · -- unlock
      rename_i p hp
      simp at hs; subst hs
      unfold TOK at hph; rw [hp] at hph
      have hw := inv_unlock hph.1
      simp at hw
      have hmine : s.lock = some t := hw.1.1
      have hcur : th.cur = none := by
        cases hc : th.cur with
        | none => rfl
        | some f => rw [hc] at hw; simp at hw
      refine inv_of_set (s := s) (t := t) hth rfl h.seqLen h.gapfree h.owner h.wire lv ?_ ?_
      · refine ⟨?_, by intro f hf; simp [hcur] at hf⟩
        simp [hw.1.2.1, hcur]; exact hw.2
      · intro u uh hut hu
        refine tok_other ?_ (by intro hh; rw [hmine] at hh; simp at hh; omega) (h.thr u uh hu)
        simp [hmine]; omega
    · -- chk
      rename_i p hp
      split at hs
      · simp at hs; subst hs
        exact (show Inv (abort { s with closed := s.closed } t) from inv_abort h hth s.closed)
      · simp at hs; subst hs
        unfold TOK at hph; rw [hp] at hph
        have hw := inv_chk hph.1
        simp at hw
        have hcur : th.cur = none := by
          cases hc : th.cur with
          | none => rfl
          | some f => rw [hc] at hw; simp at hw
        refine inv_of_set (s := s) (t := t) hth rfl h.seqLen h.gapfree h.owner h.wire lv ?_ ?_
        · refine ⟨?_, by intro f hf; simp [hcur] at hf⟩
          simpa [hw.1, hcur] using hw.2.2
        · intro u uh hut hu
          exact tok_other (by rfl) (by intro _; exact ⟨rfl, rfl, rfl⟩) (h.thr u uh hu)
    · -- cas
      rename_i p hp
      split at hs
      · simp at hs; subst hs
        exact (show Inv (abort { s with closed := s.closed } t) from inv_abort h hth s.closed)
      · simp at hs; subst hs
        unfold TOK at hph; rw [hp] at hph
        have hw := inv_cas hph.1
        simp at hw
        have hcur : th.cur = none := by
          cases hc : th.cur with
          | none => rfl
          | some f => rw [hc] at hw; simp at hw
        refine inv_of_set (s := s) (t := t) hth rfl h.seqLen h.gapfree h.owner h.wire lv ?_ ?_
        · refine ⟨?_, by intro f hf; simp [hcur] at hf⟩
          simp [hw.1.1, hw.1.2.1, hcur]; exact hw.2
        · intro u uh hut hu
          exact tok_other (by rfl) (by intro _; exact ⟨rfl, rfl, rfl⟩) (h.thr u uh hu)
    · -- enc
      rename_i cl pl p hp
      simp at hs; subst hs
      unfold TOK at hph; rw [hp] at hph
      have hw := inv_enc hph.1
      simp at hw
      refine inv_of_set (s := s) (t := t) hth rfl h.seqLen h.gapfree h.owner h.wire lv ?_ ?_
      · refine ⟨?_, ?_⟩
        · simp [hw.1.1]; exact hw.2
        · intro f hf
          simp at hf; subst hf
          simp
      · intro u uh hut hu
        exact tok_other (by rfl) (by intro _; exact ⟨rfl, rfl, rfl⟩) (h.thr u uh hu)
    · -- inc
      rename_i p hp
      split at hs
      · rename_i f hcur hpend
        simp at hs; subst hs
        unfold TOK at hph; rw [hp] at hph
        have hw := inv_inc hph.1
        simp at hw
        have hmine : s.lock = some t := hw.1.1
        obtain ⟨hown, hseq, _⟩ := hph.2 f hcur
        have hfseq : f.seq = s.seq := hseq hpend
        refine inv_of_set (s := s) (t := t) hth rfl ?_ ?_ ?_ ?_ lv ?_ ?_
        · simp [h.seqLen]
        · simp only [List.map_append, List.map_cons, List.map_nil, List.length_append,
            List.length_cons, List.length_nil]
          rw [List.range_succ, h.gapfree, hfseq, h.seqLen]
        · intro g hg
          simp at hg
          rcases hg with hg | hg
          · exact h.owner g hg
          · subst hg; rw [hown]; exact hlt
        · exact h.wire.trans (List.sublist_append_left _ _)
        · refine ⟨?_, ?_⟩
          · simp [hmine]; exact hw.2
          · intro g hg
            simp at hg; subst hg
            refine ⟨hown, by simp, ?_⟩
            intro _
            exact ⟨s.enc, rfl, h.wire⟩
        · intro u uh hut hu
          refine tok_other (by rfl) ?_ (h.thr u uh hu)
          intro hh; rw [hmine] at hh; simp at hh; omega
      · simp at hs
    · -- send
      rename_i r p hp
      split at hs
      · simp at hs
      · rename_i f hcur
        unfold TOK at hph; rw [hp] at hph
        have hw := inv_send hph.1
        simp at hw
        have hmine : s.lock = some t := hw.1.1
        have hpend : th.pend = false := hw.1.2.1
        obtain ⟨hown, _, hcm⟩ := hph.2 f hcur
        obtain ⟨ini, hini, hsub⟩ := hcm hpend
        split at hs
        · -- ok
          simp at hs; subst hs
          refine inv_of_set (s := s) (t := t) hth rfl h.seqLen h.gapfree h.owner ?_ lv ?_ ?_
          · show (s.wire ++ [f]).Sublist s.enc
            rw [hini]; exact List.Sublist.append hsub (List.Sublist.refl _)
          · refine ⟨?_, by intro g hg; simp at hg⟩
            simp [hmine, hpend]; exact hw.2
          · intro u uh hut hu
            refine tok_other (by rfl) ?_ (h.thr u uh hu)
            intro hh; rw [hmine] at hh; simp at hh; omega
        · simp at hs; subst hs
          exact inv_abort h hth true
        · simp at hs; subst hs
          exact (show Inv (abort { s with closed := s.closed } t) from inv_abort h hth s.closed)

theorem run_inv : ∀ (sched : List Nat) (s : State), Inv s → Inv (runSched s sched) := by
  intro sched
  induction sched with
  | nil => intro s h; exact h
  | cons t ts ih =>
    intro s h
    simp only [runSched]
    split
    · rename_i s' hs; exact ih s' (step_inv s s' t h hs)
    · exact ih s h

theorem init_inv (progs : List (List Instr)) (hwf : ∀ p ∈ progs, wf p) : Inv (init progs) := by
  refine ⟨rfl, rfl, by intro f hf; simp [init] at hf, List.Sublist.refl _, by intro u hu; simp [init] at hu, ?_⟩
  intro t th hth
  simp only [init, List.getElem?_map, Option.map_eq_some_iff] at hth
  obtain ⟨p, hp, rfl⟩ := hth
  have := hwf p (List.mem_of_getElem? hp)
  refine ⟨?_, by intro f hf; simp at hf⟩
  simpa [init, wf, idle] using this

theorem spawn_inv (s : State) (p : List Instr) (h : Inv s) (hp : wf p) : Inv (spawn s p) := by
  have hfree : s.lock = none ∨ ∀ t, s.lock = some t → t < s.thr.length := Or.inr h.lockValid
  refine ⟨h.seqLen, h.gapfree, ?_, h.wire, ?_, ?_⟩
  · intro f hf
    have := h.owner f hf
    simp [spawn]; omega
  · intro u hu
    have := h.lockValid u hu
    simp [spawn]; omega
  · intro t th hth
    simp only [spawn] at hth
    by_cases hlt : t < s.thr.length
    · rw [List.getElem?_append_left hlt] at hth
      exact h.thr t th hth
    · rw [List.getElem?_append_right (by omega)] at hth
      have ht : t = s.thr.length := by
        by_cases h0 : t - s.thr.length = 0
        · omega
        · rw [List.getElem?_cons] at hth; simp [h0] at hth
      subst ht
      simp at hth; subst hth
      refine ⟨?_, by intro f hf; simp at hf⟩
      have hnl : decide (s.lock = some s.thr.length) = false := by
        rcases hfree with h0 | h0
        · simp [h0]
        · simp; intro hh; have := h0 _ hh; omega
      show advs ⟨decide (s.lock = some s.thr.length), false, false⟩ p = some idle
      rw [hnl]; exact hp

end SN
