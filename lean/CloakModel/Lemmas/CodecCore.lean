import CloakModel.Model.Codec

/-! Lemmas about the frame codec model: byte-level facts, bridging lemmas about the extracted terms, and the
normal forms `obfNF` / `deobfNF` (the layout with literal offsets) the property proofs work with. -/
set_option linter.unusedVariables false

namespace Codec
open Gen.Codec

/-- closes `extractedBool args = decide (arithmetic fact)` whatever Boolean shape (`&&`, `||`, `!`, swapped operands)
the Go condition was written in -/
macro "gen_bool" : tactic =>
  `(tactic| (rw [Bool.eq_iff_iff]
             simp only [Bool.and_eq_true, Bool.or_eq_true, Bool.not_eq_true', decide_eq_true_eq, decide_eq_false_iff_not]
             omega))

theorem beBytes_length : ∀ w x, (beBytes w x).length = w := by
  intro w; induction w with
  | zero => intro x; rfl
  | succ w ih => intro x; simp [beBytes, ih]

theorem beNat_append_single (l : Bytes) (b : UInt8) : beNat (l ++ [b]) = beNat l * 256 + b.toNat := by
  cases l with
  | nil => simp [beNat]
  | cons a t =>
    have : beNat (a :: t ++ [b]) = (a :: t ++ [b]).foldl (fun acc b => acc * 256 + b.toNat) 0 := rfl
    rw [this, List.foldl_append]; rfl

theorem beNat_beBytes : ∀ w x, x < 256^w → beNat (beBytes w x) = x := by
  intro w
  induction w with
  | zero => intro x hx; simp at hx; simp [beBytes, beNat, hx]
  | succ w ih =>
    intro x hx
    have hdiv : x / 256 < 256^w := by
      rw [Nat.div_lt_iff_lt_mul (by decide)]; rw [Nat.pow_succ] at hx; exact hx
    simp only [beBytes]
    rw [beNat_append_single, ih _ hdiv, UInt8.toNat_ofNat', Nat.mod_mod_of_dvd _ (by decide : 256 ∣ 2^8)]
    omega

def hdrNF (f : Frame) (e : Nat) : Bytes := beBytes 4 f.sid ++ beBytes 8 f.seq ++ [f.closing, UInt8.ofNat e]

theorem gen_hdr_offsets : headerHi = 14 ∧ hdrSidLo = 0 ∧ hdrSidHi = 4 ∧ hdrSeqLo = 4 ∧ hdrSeqHi = 12 ∧ hdrClosingIdx = 12 ∧ hdrExtraIdx = 13 := by decide

theorem putAt_append_left (a b v : Bytes) (lo : Nat) (h : lo + v.length ≤ a.length) :
    putAt (a ++ b) lo v = putAt a lo v ++ b := by
  unfold putAt
  rw [List.take_append_of_le_length (by omega), List.drop_append_of_le_length h]
  simp

/-- overwrite right after a prefix `a`: the next `v.length` bytes of the tail are replaced -/
theorem putAt_after (a b v : Bytes) (h : v.length ≤ b.length) :
    putAt (a ++ b) a.length v = a ++ v ++ b.drop v.length := by
  unfold putAt
  rw [List.take_left', List.drop_append]
  · simp [List.drop_eq_nil_of_le]
  · rfl

theorem header_nf (f : Frame) (e : Int) : header f e = hdrNF f e.toNat := by
  obtain ⟨h1, h2, _, h4, _, h6, h7⟩ := gen_hdr_offsets
  unfold header hdrNF
  rw [h1, h2, h4, h6, h7]
  have l4 := beBytes_length 4 f.sid
  have l8 := beBytes_length 8 f.seq
  generalize beBytes 4 f.sid = S at *
  generalize beBytes 8 f.seq = Q at *
  simp only [show (14:Int).toNat = 14 from rfl, show (0:Int).toNat = 0 from rfl, show (4:Int).toNat = 4 from rfl,
    show (12:Int).toNat = 12 from rfl, show (13:Int).toNat = 13 from rfl]
  have e1 : putAt (List.replicate 14 (0:UInt8)) 0 S = S ++ List.replicate 10 0 := by
    have := putAt_after [] (List.replicate 14 (0:UInt8)) S (by simp [l4])
    simpa [l4] using this
  rw [e1]
  have e2 : putAt (S ++ List.replicate 10 (0:UInt8)) 4 Q = S ++ Q ++ List.replicate 2 0 := by
    have := putAt_after S (List.replicate 10 (0:UInt8)) Q (by simp [l8])
    simpa [l4, l8] using this
  rw [e2]
  have e3 : putAt (S ++ Q ++ List.replicate 2 (0:UInt8)) 12 [f.closing] = S ++ Q ++ [f.closing] ++ List.replicate 1 0 := by
    have := putAt_after (S ++ Q) (List.replicate 2 (0:UInt8)) [f.closing] (by simp)
    simpa [l4, l8] using this
  rw [e3]
  have e4 : putAt (S ++ Q ++ [f.closing] ++ List.replicate 1 (0:UInt8)) 13 [UInt8.ofNat e.toNat] = S ++ Q ++ [f.closing] ++ [UInt8.ofNat e.toNat] := by
    have := putAt_after (S ++ Q ++ [f.closing]) (List.replicate 1 (0:UInt8)) [UInt8.ofNat e.toNat] (by simp)
    simpa [l4, l8] using this
  rw [e4]; simp

theorem gslice_nat (b : Bytes) (lo hi : Int) (l h : Nat) (hl : lo = l) (hh : hi = h) (h1 : l ≤ h) (h2 : h ≤ b.length) :
    gslice b lo hi = some ((b.drop l).take (h - l)) := by
  subst hl hh
  have e : ((h : Int) - (l : Int)).toNat = h - l := by omega
  unfold gslice
  rw [if_pos (by omega)]
  simp [e]

theorem gslice_none (b : Bytes) (lo hi : Int) (h : ¬ (0 ≤ lo ∧ lo ≤ hi ∧ hi ≤ (b.length : Int))) : gslice b lo hi = none := by
  unfold gslice; rw [if_neg h]

theorem gen_obf_consts : payloadLo = 14 ∧ tagLenPlain = 8 ∧ salsa20NonceSize = 8 ∧ frameHeaderLength = 14 ∧ maxExtraLen = 255 := by decide
theorem gen_useful (p d t : Nat) : usefulLen p d t = ((14 + p + d + t : Nat) : Int) := by unfold usefulLen; omega
theorem gen_payloadHi (p d : Nat) : payloadHi p d = ((14 + p + d : Nat) : Int) := by unfold payloadHi; omega
theorem gen_randLo (p : Nat) : randLo p = ((14 + p : Nat) : Int) := by unfold randLo; omega
theorem gen_extraByte (d t : Nat) : extraByte d t = ((d + t : Nat) : Int) := by unfold extraByte; omega
theorem gen_salsaNonce (u : Nat) (h : 8 ≤ u) : salsaNonceLo u = ((u - 8 : Nat) : Int) ∧ salsaNonceHi u = (u : Int) := by
  unfold salsaNonceLo salsaNonceHi; omega
theorem gen_sealNonce (ns : Nat) : sealNonceLo = 0 ∧ sealNonceHi ns = (ns : Int) := by
  unfold sealNonceLo sealNonceHi; omega
theorem gen_emptyPayload (p : Nat) : emptyPayload p = decide (p = 0) := by
  unfold emptyPayload; gen_bool
theorem gen_padGuard (s : Nat) : padGuard s = decide (s < 5) := by
  unfold padGuard; gen_bool
theorem gen_bufTooSmall (b u : Nat) : bufTooSmall b u = decide (b < u) := by
  unfold bufTooSmall; gen_bool

theorem hdrNF_length (f : Frame) (e : Nat) : (hdrNF f e).length = 14 := by
  simp [hdrNF, beBytes_length]

theorem obfBuf_nf (f : Frame) (pad tag : Nat) (rnd : Bytes) (hr : rnd.length = pad + tag) :
    obfBuf f pad tag rnd = hdrNF f (pad + tag) ++ f.payload ++ rnd := by
  unfold obfBuf
  rw [gen_useful, gen_extraByte, gen_randLo, header_nf, gen_obf_consts.1]
  simp only [Int.toNat_natCast, show (14:Int).toNat = 14 from rfl]
  have hl := hdrNF_length f (pad + tag)
  generalize hdrNF f (pad + tag) = H at *
  have e1 : putAt (List.replicate (14 + f.payload.length + pad + tag) (0:UInt8)) 0 H = H ++ List.replicate (f.payload.length + pad + tag) 0 := by
    have := putAt_after [] (List.replicate (14 + f.payload.length + pad + tag) (0:UInt8)) H (by simp [hl]; omega)
    simp only [List.nil_append, List.length_nil] at this
    rw [this, List.drop_replicate, hl]; congr 2; omega
  rw [e1]
  have e2 : putAt (H ++ List.replicate (f.payload.length + pad + tag) (0:UInt8)) 14 f.payload = H ++ f.payload ++ List.replicate (pad + tag) 0 := by
    have := putAt_after H (List.replicate (f.payload.length + pad + tag) (0:UInt8)) f.payload (by simp; omega)
    rw [hl] at this
    rw [this, List.drop_replicate]; congr 2; omega
  rw [e2]
  have e3 : putAt (H ++ f.payload ++ List.replicate (pad + tag) (0:UInt8)) (14 + f.payload.length) rnd = H ++ f.payload ++ rnd := by
    have := putAt_after (H ++ f.payload) (List.replicate (pad + tag) (0:UInt8)) rnd (by simp [hr])
    rw [List.length_append, hl] at this
    rw [this, List.drop_replicate, hr]; simp
  rw [e3]

theorem xor_length (a b : Bytes) (h : a.length = b.length) : (xor a b).length = a.length := by
  simp [xor, h]

theorem obfFinish_plain (C : Crypto) (hs : ∀ k n l, (C.stream k n l).length = l) (key H B : Bytes)
    (hH : H.length = 14) (hB : 8 ≤ B.length) (u : Int) (hu : u = ((14 + B.length : Nat) : Int)) :
    obfFinish C key (H ++ B) u none = .ok (xor H (C.stream key (B.drop (B.length - 8)) 14) ++ B) := by
  unfold obfFinish
  simp only
  have g1 : gslice (H ++ B) 0 headerHi = some H := by
    rw [gslice_nat (H ++ B) 0 headerHi 0 14 rfl (by decide) (by omega) (by simp; omega)]
    simp [List.take_left' hH]
  have hn := gen_salsaNonce (14 + B.length) (by omega)
  have g2 : gslice (H ++ B) (salsaNonceLo u) (salsaNonceHi u) = some (B.drop (B.length - 8)) := by
    rw [hu, gslice_nat (H ++ B) _ _ (14 + B.length - 8) (14 + B.length) hn.1 hn.2 (by omega) (by simp; omega)]
    congr 1
    rw [List.drop_append, hH]
    have : H.drop (14 + B.length - 8) = [] := List.drop_eq_nil_of_le (by omega)
    rw [this]
    have e : 14 + B.length - 8 - 14 = B.length - 8 := by omega
    rw [e, List.nil_append]
    apply List.take_of_length_le; simp; omega
  rw [g1, g2]
  simp only [hH]
  have hx : (xor H (C.stream key (B.drop (B.length - 8)) 14)).length = 14 := by
    rw [xor_length _ _ (by rw [hH, hs]), hH]
  have g3 : putAt (H ++ B) 0 (xor H (C.stream key (B.drop (B.length - 8)) 14)) = xor H (C.stream key (B.drop (B.length - 8)) 14) ++ B := by
    have := putAt_after [] (H ++ B) (xor H (C.stream key (B.drop (B.length - 8)) 14)) (by simp [hx]; omega)
    simp only [List.nil_append, List.length_nil] at this
    rw [this, hx, List.drop_left' hH]
  rw [g3, hu, gslice_nat _ 0 _ 0 (14 + B.length) rfl rfl (by omega) (by simp [hx])]
  simp only [List.drop_zero, Nat.sub_zero]
  rw [List.take_of_length_le (by simp [hx])]

/-! ## normal form of `obfuscate` -/

def tagNF (C : Crypto) : Nat :=
  match C.aead with
  | some a => a.overhead
  | none => 8

theorem tagLenOf_nf (C : Crypto) : tagLenOf C = tagNF C := by
  unfold tagLenOf tagNF; rw [gen_obf_consts.2.1]; rfl

def padNF (f : Frame) (padDraw : Nat) : Nat := if f.seq < 5 then padDraw else 0

theorem padLenOf_nf (f : Frame) (d : Nat) : padLenOf f d = padNF f d := by
  unfold padLenOf padNF; rw [gen_padGuard]; simp

/-- the v2 message for frame `f`, padding draw `padDraw`, random bytes `rnd`, with literal offsets -/
def obfNF (C : Crypto) (key : Bytes) (f : Frame) (bufLen padDraw : Nat) (rnd : Bytes) : OOut :=
  if f.payload.length = 0 then .errEmpty else
  let pad := padNF f padDraw
  let tag := tagNF C
  if bufLen < 14 + f.payload.length + pad + tag then .errSmall else
  let hdr := hdrNF f (pad + tag)
  let body := match C.aead with
    | none => f.payload ++ rnd
    | some a => a.aseal key (hdr.take a.nonceSize) (f.payload ++ rnd.take pad) []
  .ok (xor hdr (C.stream key (body.drop (body.length - 8)) 14) ++ body)

theorem gen_nonceTooLong (ns : Nat) : nonceTooLong ns = decide (14 < ns) := by
  unfold nonceTooLong; gen_bool

theorem obfQuery_nf (a : Aead) (H P R : Bytes) (hH : H.length = 14) (hn : a.nonceSize ≤ 14) (pad : Nat) (hp : pad ≤ R.length) :
    obfQuery a (H ++ P ++ R) P.length pad = some (H.take a.nonceSize, P ++ R.take pad) := by
  unfold obfQuery
  have g1 : gslice (H ++ P ++ R) 0 headerHi = some H := by
    rw [gslice_nat _ 0 headerHi 0 14 rfl (by decide) (by omega) (by simp; omega)]
    simp [List.append_assoc, List.take_left' hH]
  rw [g1]
  simp only
  have hs := gen_sealNonce a.nonceSize
  rw [gslice_nat H _ _ 0 a.nonceSize hs.1 hs.2 (by omega) (by omega)]
  rw [gslice_nat (H ++ P ++ R) _ _ 14 (14 + P.length + pad) gen_obf_consts.1 (gen_payloadHi _ _) (by omega) (by simp; omega)]
  simp only [List.drop_zero, Nat.sub_zero]
  congr 2
  rw [List.append_assoc, List.drop_left' hH]
  have e : 14 + P.length + pad - 14 = P.length + pad := by omega
  rw [e, List.take_append, List.take_of_length_le (by omega)]
  simp

theorem putAt_tail (H X ct : Bytes) (hH : H.length = 14) (h : ct.length = X.length) : putAt (H ++ X) 14 ct = H ++ ct := by
  have := putAt_after H X ct (by omega)
  rw [hH] at this
  rw [this, h, List.drop_length]; simp

theorem obf_nf (C : Crypto) (hL : Lawful C) (key : Bytes) (f : Frame) (bufLen padDraw : Nat) (rnd : Bytes)
    (hr : rnd.length = padNF f padDraw + tagNF C) :
    obfuscate C key f bufLen padDraw rnd = obfNF C key f bufLen padDraw rnd := by
  unfold obfuscate obfPre obfNF
  dsimp only
  rw [gen_emptyPayload, tagLenOf_nf, padLenOf_nf]
  by_cases h0 : f.payload.length = 0
  · simp [h0]
  · simp only [h0, decide_false, Bool.false_eq_true, if_false]
    rw [gen_useful, gen_bufTooSmall]
    by_cases h1 : bufLen < 14 + f.payload.length + padNF f padDraw + tagNF C
    · simp [h1]
    · simp only [h1, decide_false, Bool.false_eq_true, if_false]
      rw [obfBuf_nf f _ _ rnd hr]
      have hHl := hdrNF_length f (padNF f padDraw + tagNF C)
      generalize hdrNF f (padNF f padDraw + tagNF C) = H at *
      cases hc : C.aead with
      | none =>
        simp only
        have ht : tagNF C = 8 := by unfold tagNF; rw [hc]
        rw [List.append_assoc]
        rw [obfFinish_plain C hL.stream_len key H (f.payload ++ rnd) hHl (by simp [hr, ht]; omega) _ (by simp; omega)]
      | some a =>
        simp only
        have ht : tagNF C = a.overhead := by unfold tagNF; rw [hc]
        have hns : a.nonceSize ≤ 14 := by
          have := hL.nonce_ok a hc
          rw [gen_nonceTooLong] at this; simpa using this
        rw [obfQuery_nf a H f.payload rnd hHl hns _ (by omega)]
        simp only
        unfold obfFinish
        simp only
        have hct : (a.aseal key (H.take a.nonceSize) (f.payload ++ rnd.take (padNF f padDraw)) []).length = (f.payload ++ rnd).length := by
          rw [hL.seal_len a hc]; simp [hr, ht]; omega
        have hpl : payloadLo.toNat = 14 := by rw [gen_obf_consts.1]; rfl
        rw [hpl, List.append_assoc, putAt_tail H (f.payload ++ rnd) _ hHl hct]
        have h8 : 8 ≤ (a.aseal key (H.take a.nonceSize) (f.payload ++ rnd.take (padNF f padDraw)) []).length := by
          rw [hL.seal_len a hc]
          have := hL.tag_ge a hc
          rw [gen_obf_consts.2.2.1] at this; omega
        have := obfFinish_plain C hL.stream_len key H _ hHl h8 ((14 + f.payload.length + padNF f padDraw + tagNF C : Nat) : Int)
          (by rw [hct]; simp [hr]; omega)
        unfold obfFinish at this
        simp only at this
        exact this

/-! ## normal form of `deobfuscate` -/

def frameNF (hdr : Bytes) (closing : UInt8) (pl : Bytes) : Frame :=
  ⟨beNat (hdr.take 4), beNat ((hdr.drop 4).take 8), closing, pl⟩

/-- `deobfuscate` with literal offsets and unchecked slices -/
def deobfNF (C : Crypto) (key msg : Bytes) : DOut :=
  if msg.length < 22 then .errShort else
  let body := msg.drop 14
  let hdr := xor (msg.take 14) (C.stream key (msg.drop (msg.length - 8)) 14)
  match hdr[12]?, hdr[13]? with
  | some closing, some extra =>
    if body.length < extra.toNat then .errExtra else
    let useful := body.length - extra.toNat
    match C.aead with
    | none => .ok (frameNF hdr closing (body.take useful))
    | some a =>
      match a.aopen key (hdr.take a.nonceSize) body [] with
      | none => .errAuth
      | some pt => .ok (frameNF hdr closing ((pt ++ body.drop pt.length).take useful))
  | _, _ => .panic

theorem gen_deobf_consts : deobfHeaderHi = 14 ∧ deobfPldLo = 14 ∧ deobfSidLo = 0 ∧ deobfSidHi = 4 ∧ deobfSeqLo = 4 ∧
    deobfSeqHi = 12 ∧ deobfClosingIdx = 12 ∧ deobfExtraIdx = 13 ∧ openNonceLo = 0 := by decide
theorem gen_deobfTooShort (n : Nat) : deobfTooShort n = decide (n < 22) := by
  unfold deobfTooShort; gen_bool
theorem gen_deobfSalsaNonceLo (n : Nat) (h : 8 ≤ n) : deobfSalsaNonceLo n = ((n - 8 : Nat) : Int) := by
  unfold deobfSalsaNonceLo; omega
theorem gen_deobfUseful (p e : Nat) : deobfUseful p e = (p : Int) - (e : Int) := by
  unfold deobfUseful; omega
theorem gen_deobfExtraBad (p e : Nat) : deobfExtraBad ((p : Int) - (e : Int)) p = decide (p < e) := by
  unfold deobfExtraBad; gen_bool
theorem gen_openNonceHi (ns : Nat) : openNonceHi ns = (ns : Int) := by unfold openNonceHi; omega
theorem gen_plainWhole (e : Nat) : plainWholeCond e = decide (e = 0) := by
  unfold plainWholeCond; gen_bool
theorem gen_outHi (u : Int) : plainOutHi u = u ∧ aeadOutHi u = u := by
  unfold plainOutHi aeadOutHi; omega

theorem gidx_nat (b : Bytes) (i : Int) (n : Nat) (h : i = n) : gidx b i = b[n]? := by
  subst h; unfold gidx; rw [if_pos (by omega)]; simp

theorem deobf_nf (C : Crypto) (hs : ∀ k n l, (C.stream k n l).length = l)
    (hn : ∀ a : Aead, C.aead = some a → a.nonceSize ≤ 14) (key msg : Bytes) :
    deobfuscate C key msg = deobfNF C key msg := by
  obtain ⟨c1, c2, c3, c4, c5, c6, c7, c8, c9⟩ := gen_deobf_consts
  unfold deobfuscate deobfPre deobfNF
  dsimp only
  rw [gen_deobfTooShort]
  by_cases hlen : msg.length < 22
  · simp [hlen]
  · simp only [hlen, decide_false, Bool.false_eq_true, if_false]
    have g1 : gslice msg 0 deobfHeaderHi = some (msg.take 14) := by
      rw [gslice_nat msg 0 _ 0 14 rfl c1 (by omega) (by omega)]; simp
    have g2 : gslice msg deobfPldLo msg.length = some (msg.drop 14) := by
      rw [gslice_nat msg _ _ 14 msg.length c2 rfl (by omega) (by omega)]
      rw [List.take_of_length_le (by simp)]
    have g3 : gslice msg (deobfSalsaNonceLo msg.length) msg.length = some (msg.drop (msg.length - 8)) := by
      rw [gslice_nat msg _ _ (msg.length - 8) msg.length (gen_deobfSalsaNonceLo _ (by omega)) rfl (by omega) (by omega)]
      rw [List.take_of_length_le (by simp)]
    rw [g1, g2, g3]
    clear g1 g2 g3
    dsimp only
    generalize msg.drop 14 = body
    have ht : (msg.take 14).length = 14 := by simp; omega
    rw [ht]
    have hx : (xor (msg.take 14) (C.stream key (msg.drop (msg.length - 8)) 14)).length = 14 := by
      rw [xor_length _ _ (by rw [ht, hs]), ht]
    generalize xor (msg.take 14) (C.stream key (msg.drop (msg.length - 8)) 14) = hdr at *
    rw [gslice_nat hdr _ _ 0 4 c3 c4 (by omega) (by omega), gslice_nat hdr _ _ 4 12 c5 c6 (by omega) (by omega),
      gidx_nat hdr _ 12 c7, gidx_nat hdr _ 13 c8]
    have h12 : ∃ c, hdr[12]? = some c := ⟨hdr[12], by simp [List.getElem?_eq_getElem (show 12 < hdr.length by omega)]⟩
    have h13 : ∃ e, hdr[13]? = some e := ⟨hdr[13], by simp [List.getElem?_eq_getElem (show 13 < hdr.length by omega)]⟩
    obtain ⟨c, hc⟩ := h12
    obtain ⟨e, he⟩ := h13
    rw [hc, he]
    dsimp only
    rw [gen_deobfUseful, gen_deobfExtraBad]
    by_cases hex : body.length < e.toNat
    · simp only [hex, decide_true, if_true]
    · simp only [hex, decide_false, Bool.false_eq_true, if_false]
      have hu : (body.length : Int) - (e.toNat : Int) = ((body.length - e.toNat : Nat) : Int) := by omega
      cases hca : C.aead with
      | none =>
        dsimp only
        unfold deobfFinish
        dsimp only
        rw [gen_plainWhole, (gen_outHi _).1, hu]
        rw [gslice_nat body 0 _ 0 (body.length - e.toNat) rfl rfl (by omega) (by omega)]
        by_cases hz : e.toNat = 0
        · simp [hz, frameNF]
        · simp [hz, frameNF]
      | some a =>
        dsimp only
        unfold deobfQuery
        dsimp only
        rw [c9, gen_openNonceHi, gslice_nat hdr 0 _ 0 a.nonceSize rfl rfl (by omega) (by have := hn a hca; omega)]
        simp only [Option.map_some, List.drop_zero, Nat.sub_zero]
        unfold deobfFinish
        dsimp only
        cases hop : a.aopen key (hdr.take a.nonceSize) body [] with
        | none => rfl
        | some pt =>
          dsimp only
          rw [(gen_outHi _).2, hu]
          rw [gslice_nat _ 0 _ 0 (body.length - e.toNat) rfl rfl (by omega) (by simp; omega)]
          simp [frameNF]

/-! ## decoding a message assembled from a header and a body -/

theorem xor_xor : ∀ (a b : Bytes), a.length = b.length → xor (xor a b) b = a := by
  intro a
  induction a with
  | nil => intro b _; simp [xor]
  | cons x xs ih =>
    intro b hb
    cases b with
    | nil => simp at hb
    | cons y ys =>
      simp only [xor, List.zipWith_cons_cons, List.cons.injEq]
      constructor
      · rw [UInt8.xor_assoc, UInt8.xor_self, UInt8.xor_zero]
      · exact ih ys (by simpa using hb)

theorem xor_take (a b : Bytes) (k : Nat) : (xor a b).take k = xor (a.take k) (b.take k) := by
  simp [xor, List.take_zipWith]

/-- what `deobfNF` computes on `mask(H') ++ body`, in terms of the plain header `H'` -/
def decodeParts (C : Crypto) (key H' body : Bytes) : DOut :=
  match H'[12]?, H'[13]? with
  | some closing, some extra =>
    if body.length < extra.toNat then .errExtra else
    match C.aead with
    | none => .ok (frameNF H' closing (body.take (body.length - extra.toNat)))
    | some a =>
      match a.aopen key (H'.take a.nonceSize) body [] with
      | none => .errAuth
      | some pt => .ok (frameNF H' closing ((pt ++ body.drop pt.length).take (body.length - extra.toNat)))
  | _, _ => .panic

theorem deobfNF_parts (C : Crypto) (hs : ∀ k n l, (C.stream k n l).length = l) (key H' body : Bytes)
    (hH : H'.length = 14) (hb : 8 ≤ body.length) :
    deobfNF C key (xor H' (C.stream key (body.drop (body.length - 8)) 14) ++ body) = decodeParts C key H' body := by
  have hks : (C.stream key (body.drop (body.length - 8)) 14).length = 14 := hs _ _ _
  have hxl : (xor H' (C.stream key (body.drop (body.length - 8)) 14)).length = 14 := by
    rw [xor_length _ _ (by rw [hH, hks]), hH]
  have hlen : (xor H' (C.stream key (body.drop (body.length - 8)) 14) ++ body).length = 14 + body.length := by
    simp [hxl]
  unfold deobfNF decodeParts
  rw [if_neg (by rw [hlen]; omega)]
  have hdropb : (xor H' (C.stream key (body.drop (body.length - 8)) 14) ++ body).drop 14 = body := List.drop_left' hxl
  have hnonce : (xor H' (C.stream key (body.drop (body.length - 8)) 14) ++ body).drop
      ((xor H' (C.stream key (body.drop (body.length - 8)) 14) ++ body).length - 8) = body.drop (body.length - 8) := by
    rw [hlen, List.drop_append, List.drop_eq_nil_of_le (by omega), hxl]
    simp only [List.nil_append]
    congr 1; omega
  have htake : (xor H' (C.stream key (body.drop (body.length - 8)) 14) ++ body).take 14 = xor H' (C.stream key (body.drop (body.length - 8)) 14) :=
    List.take_left' hxl
  dsimp only
  rw [hdropb, hnonce, htake, xor_xor H' _ (by rw [hH, hks])]

theorem hdrNF_12 (f : Frame) (e : Nat) : (hdrNF f e)[12]? = some f.closing := by
  have l4 := beBytes_length 4 f.sid
  have l8 := beBytes_length 8 f.seq
  unfold hdrNF
  rw [List.getElem?_append_right (by simp [l4, l8])]
  simp [l4, l8]

theorem hdrNF_13 (f : Frame) (e : Nat) : (hdrNF f e)[13]? = some (UInt8.ofNat e) := by
  have l4 := beBytes_length 4 f.sid
  have l8 := beBytes_length 8 f.seq
  unfold hdrNF
  rw [List.getElem?_append_right (by simp [l4, l8])]
  simp [l4, l8]

theorem hdrNF_take12 (f : Frame) (e : Nat) : (hdrNF f e).take 12 = beBytes 4 f.sid ++ beBytes 8 f.seq := by
  unfold hdrNF
  exact List.take_left' (by simp [beBytes_length])

theorem frameNF_hdrNF (f : Frame) (e : Nat) (c : UInt8) (pl : Bytes) (hsid : f.sid < 2^32) (hseq : f.seq < 2^64) :
    frameNF (hdrNF f e) c pl = ⟨f.sid, f.seq, c, pl⟩ := by
  have l4 := beBytes_length 4 f.sid
  have l8 := beBytes_length 8 f.seq
  unfold frameNF hdrNF
  have h1 : (beBytes 4 f.sid ++ beBytes 8 f.seq ++ [f.closing, UInt8.ofNat e]).take 4 = beBytes 4 f.sid := by
    rw [List.append_assoc]; exact List.take_left' l4
  have h2 : ((beBytes 4 f.sid ++ beBytes 8 f.seq ++ [f.closing, UInt8.ofNat e]).drop 4).take 8 = beBytes 8 f.seq := by
    rw [List.append_assoc, List.drop_left' l4]; exact List.take_left' l8
  rw [h1, h2, beNat_beBytes 4 _ (by simpa using hsid), beNat_beBytes 8 _ (by simpa using hseq)]

/-! ## an honest message decodes to its frame -/

/-- body of an honest v2 message with plain header `H`, padding `pad`, and (plain method) 8-byte tail -/
def honestBody (C : Crypto) (key H : Bytes) (f : Frame) (pad tail : Bytes) : Bytes :=
  match C.aead with
  | none => f.payload ++ pad ++ tail
  | some a => a.aseal key (H.take a.nonceSize) (f.payload ++ pad) []

def honestMsg (C : Crypto) (key : Bytes) (f : Frame) (pad tail : Bytes) : Bytes :=
  let H := hdrNF f (pad.length + tagNF C)
  let body := honestBody C key H f pad tail
  xor H (C.stream key (body.drop (body.length - 8)) 14) ++ body

theorem honestBody_length (C : Crypto) (hL : Lawful C) (key H : Bytes) (f : Frame) (pad tail : Bytes)
    (htail : C.aead = none → tail.length = 8) :
    (honestBody C key H f pad tail).length = f.payload.length + pad.length + tagNF C := by
  unfold honestBody tagNF
  cases hc : C.aead with
  | none => simp [htail hc, Nat.add_assoc]
  | some a => simp [hL.seal_len a hc]

theorem tagNF_ge8 (C : Crypto) (hL : Lawful C) : 8 ≤ tagNF C := by
  unfold tagNF
  cases hc : C.aead with
  | none => simp
  | some a =>
    have := hL.tag_ge a hc
    rw [gen_obf_consts.2.2.1] at this
    simp only; omega

theorem decode_honest (C : Crypto) (hL : Lawful C) (key : Bytes) (f : Frame) (pad tail : Bytes)
    (hsid : f.sid < 2^32) (hseq : f.seq < 2^64) (he : pad.length + tagNF C ≤ 255)
    (htail : C.aead = none → tail.length = 8) :
    deobfNF C key (honestMsg C key f pad tail) = .ok f := by
  unfold honestMsg
  dsimp only
  have hbl := honestBody_length C hL key (hdrNF f (pad.length + tagNF C)) f pad tail htail
  have h8 := tagNF_ge8 C hL
  rw [deobfNF_parts C hL.stream_len key _ _ (hdrNF_length _ _) (by omega)]
  unfold decodeParts
  rw [hdrNF_12, hdrNF_13]
  dsimp only
  have hex : (UInt8.ofNat (pad.length + tagNF C)).toNat = pad.length + tagNF C := by
    rw [UInt8.toNat_ofNat', Nat.mod_eq_of_lt (by omega)]
  rw [hex, if_neg (by omega), hbl]
  have hu : f.payload.length + pad.length + tagNF C - (pad.length + tagNF C) = f.payload.length := by omega
  rw [hu]
  simp only [frameNF_hdrNF _ _ _ _ hsid hseq]
  cases hc : C.aead with
  | none =>
    dsimp only
    have : honestBody C key (hdrNF f (pad.length + tagNF C)) f pad tail = f.payload ++ pad ++ tail := by
      unfold honestBody; rw [hc]
    rw [this, List.append_assoc, List.take_left' rfl]
  | some a =>
    dsimp only
    have hb : honestBody C key (hdrNF f (pad.length + tagNF C)) f pad tail
        = a.aseal key ((hdrNF f (pad.length + tagNF C)).take a.nonceSize) (f.payload ++ pad) [] := by
      unfold honestBody; rw [hc]
    rw [hb, hL.unseal_seal a hc]
    dsimp only
    rw [List.append_assoc, List.take_left' rfl]

/-- the message `obfNF` produces is the honest message for padding `rnd.take pad` and tail `rnd.drop pad` -/
theorem obfNF_honest (C : Crypto) (key : Bytes) (f : Frame) (bufLen padDraw : Nat) (rnd : Bytes)
    (hpl : f.payload.length ≠ 0) (hr : rnd.length = padNF f padDraw + tagNF C)
    (hbuf : ¬ bufLen < 14 + f.payload.length + padNF f padDraw + tagNF C) :
    obfNF C key f bufLen padDraw rnd = .ok (honestMsg C key f (rnd.take (padNF f padDraw)) (rnd.drop (padNF f padDraw))) := by
  unfold obfNF honestMsg honestBody
  rw [if_neg hpl]
  dsimp only
  rw [if_neg hbuf]
  have hpt : (rnd.take (padNF f padDraw)).length = padNF f padDraw := by simp; omega
  rw [hpt]
  cases hc : C.aead with
  | none => simp only [List.append_assoc, List.take_append_drop]
  | some a => rfl

end Codec
