import CloakModel.Model.ReplayCache

/-! Invariant of the replay memory over arbitrary histories (ported from spike S3, generalised to an
arbitrary eviction predicate / window / key canonicalisation satisfying the two facts the argument
needs). -/
set_option linter.unusedSimpArgs false
set_option linter.unusedVariables false

namespace Replay

theorem used_iff (c : Cache) (k : Bytes) : used c k = true ↔ ∃ e ∈ c, e.1 = k := by
  simp [used, List.any_eq_true]

/-- the state after a presentation, spelled out -/
theorem present_state (keyOf : Bytes → Bytes) (inWin : Int → Int → Bool) (s : St) (p : Pkt) (now : Int) :
    (present keyOf inWin s p now).1 =
      if p.reg = false then s
      else
        let c := (keyOf p.rand, now / 1000000000) :: s.cache.filter (fun e => decide (e.1 ≠ keyOf p.rand))
        if used s.cache (keyOf p.rand) = false ∧ p.ok = true ∧ inWin p.ts now = true then ⟨c, s.acc ++ [(p, now)]⟩ else ⟨c, s.acc⟩ := by
  unfold present register
  by_cases hr : p.reg = false
  · simp [hr]
  · simp only [hr, if_false]
    cases hu : used s.cache (keyOf p.rand) <;> cases ho : p.ok <;> cases hw : inWin p.ts now <;> simp

section
variable (evict : Int → Int → Bool) (keyOf : Bytes → Bytes) (inWin : Int → Int → Bool) (tolS : Int)

/-- what the proof needs from the cleaner: an evicted entry was last sighted more than two tolerances ago -/
def EvictSound : Prop := ∀ t now, evict t now = true → t * 1000000000 + 2 * (tolS * 1000000000) < now
/-- what the proof needs from the window: it is contained in the open interval of ± one tolerance -/
def WindowSound : Prop := ∀ ts now, inWin ts now = true →
  now - tolS * 1000000000 < ts * 1000000000 ∧ ts * 1000000000 < now + tolS * 1000000000

/-- invariant at clock value `c` -/
structure Inv (c : Int) (s : St) : Prop where
  past   : ∀ a ∈ s.acc, a.2 ≤ c ∧ inWin a.1.ts a.2 = true
  fresh  : ∀ a ∈ s.acc, ∀ e ∈ s.cache, e.1 = keyOf a.1.rand → a.2 / 1000000000 ≤ e.2
  alive  : ∀ a ∈ s.acc, used s.cache (keyOf a.1.rand) = true ∨
             (a.2 / 1000000000) * 1000000000 + 2 * (tolS * 1000000000) < c
  once   : s.acc.Pairwise (fun a b => ¬ (keyOf a.1.rand = keyOf b.1.rand ∧ a.1.ts = b.1.ts))

theorem inv_step (hev : EvictSound evict tolS) (hwin : WindowSound inWin tolS)
    (c : Int) (s : St) (h : Inv keyOf inWin tolS c s) (e : Ev)
    (hmono : c ≤ clockOf e) : Inv keyOf inWin tolS (clockOf e) (stepEv evict keyOf inWin s e) := by
  cases e with
  | clean now =>
    simp only [clockOf] at hmono ⊢
    simp only [stepEv, clean]
    refine ⟨?_, ?_, ?_, h.once⟩
    · intro a ha; have := h.past a ha; exact ⟨by omega, this.2⟩
    · intro a ha e he hk
      exact h.fresh a ha e (List.mem_filter.1 he).1 hk
    · intro a ha
      rcases h.alive a ha with hu | hx
      · by_cases hs : used (s.cache.filter (fun e => !(evict e.2 now))) (keyOf a.1.rand) = true
        · exact Or.inl hs
        · right
          obtain ⟨e, he, hk⟩ := (used_iff _ _).1 hu
          have hfr := h.fresh a ha e he hk
          have hevd : evict e.2 now = true := by
            cases hh : evict e.2 now with
            | true => rfl
            | false =>
              exfalso; apply hs
              exact (used_iff _ _).2 ⟨e, List.mem_filter.2 ⟨he, by simp [hh]⟩, hk⟩
          have := hev e.2 now hevd
          omega
      · right; omega
  | present p now =>
    simp only [clockOf] at hmono ⊢
    simp only [stepEv]
    rw [present_state]
    by_cases hr : p.reg = false
    · rw [if_pos hr]
      refine ⟨?_, h.fresh, ?_, h.once⟩
      · intro a ha; have := h.past a ha; exact ⟨by omega, this.2⟩
      · intro a ha
        rcases h.alive a ha with hu | hx
        · exact Or.inl hu
        · right; omega
    rw [if_neg hr]
    simp only
    by_cases hacc : used s.cache (keyOf p.rand) = false ∧ p.ok = true ∧ inWin p.ts now = true
    · rw [if_pos hacc]
      refine ⟨?_, ?_, ?_, ?_⟩
      · intro a ha
        rcases List.mem_append.1 ha with ha | ha
        · have := h.past a ha; exact ⟨by omega, this.2⟩
        · simp at ha; subst ha; exact ⟨Int.le_refl _, hacc.2.2⟩
      · intro a ha e he hk
        rcases List.mem_cons.1 he with he | he
        · subst he
          rcases List.mem_append.1 ha with ha | ha
          · have := (h.past a ha).1
            simp only
            omega
          · simp at ha; subst ha; simp
        · have hef := List.mem_filter.1 he
          rcases List.mem_append.1 ha with ha | ha
          · exact h.fresh a ha e hef.1 hk
          · simp at ha; subst ha
            simp at hef; exact absurd hk hef.2
      · intro a ha
        rcases List.mem_append.1 ha with ha | ha
        · by_cases hk : keyOf a.1.rand = keyOf p.rand
          · left; exact (used_iff _ _).2 ⟨_, List.mem_cons_self, hk.symm⟩
          · rcases h.alive a ha with hu | hx
            · left
              obtain ⟨e, he, hke⟩ := (used_iff _ _).1 hu
              exact (used_iff _ _).2 ⟨e, List.mem_cons_of_mem _ (List.mem_filter.2 ⟨he, by
                simp; intro h2; exact hk (hke ▸ h2 ▸ rfl)⟩), hke⟩
            · right; omega
        · simp at ha; subst ha
          left; exact (used_iff _ _).2 ⟨_, List.mem_cons_self, rfl⟩
      · rw [List.pairwise_append]
        refine ⟨h.once, by simp, ?_⟩
        intro a ha b hb
        simp at hb; subst hb
        intro ⟨hk, hts⟩
        have hpast := h.past a ha
        rcases h.alive a ha with hu | hx
        · rw [hk, hacc.1] at hu; exact absurd hu (by simp)
        · have hw1 := hwin _ _ hpast.2
          have hw2 := hwin _ _ hacc.2.2
          simp only at hts
          rw [hts] at hw1
          omega
    · rw [if_neg hacc]
      refine ⟨?_, ?_, ?_, h.once⟩
      · intro a ha; have := h.past a ha; exact ⟨by omega, this.2⟩
      · intro a ha e he hk
        rcases List.mem_cons.1 he with he | he
        · subst he
          have := (h.past a ha).1
          simp only
          omega
        · exact h.fresh a ha e (List.mem_filter.1 he).1 hk
      · intro a ha
        by_cases hk : keyOf a.1.rand = keyOf p.rand
        · left; exact (used_iff _ _).2 ⟨_, List.mem_cons_self, hk.symm⟩
        · rcases h.alive a ha with hu | hx
          · left
            obtain ⟨e, he, hke⟩ := (used_iff _ _).1 hu
            exact (used_iff _ _).2 ⟨e, List.mem_cons_of_mem _ (List.mem_filter.2 ⟨he, by
              simp; intro h2; exact hk (hke ▸ h2 ▸ rfl)⟩), hke⟩
          · right; omega

theorem inv_run (hev : EvictSound evict tolS) (hwin : WindowSound inWin tolS) :
    ∀ (h : List Ev) (c : Int) (s : St), Inv keyOf inWin tolS c s →
      (h.map clockOf).Pairwise (· ≤ ·) → (∀ e ∈ h, c ≤ clockOf e) →
      ∃ c', Inv keyOf inWin tolS c' (h.foldl (stepEv evict keyOf inWin) s) := by
  intro h
  induction h with
  | nil => intro c s hi _ _; exact ⟨c, hi⟩
  | cons e rest ih =>
    intro c s hi hp hc
    simp only [List.map_cons, List.pairwise_cons] at hp
    have h1 := inv_step evict keyOf inWin tolS hev hwin c s hi e (hc e (by simp))
    simp only [List.foldl_cons]
    apply ih (clockOf e) _ h1 hp.2
    intro e' he'
    exact hp.1 (clockOf e') (List.mem_map.2 ⟨e', he', rfl⟩)

/-- across any history of presentations and clean-ups on a monotone clock, no (registered key,
embedded timestamp) pair is accepted twice -/
theorem once_of_sound (hev : EvictSound evict tolS) (hwin : WindowSound inWin tolS) (h : List Ev)
    (hmono : (h.map clockOf).Pairwise (· ≤ ·)) :
    ((h.foldl (stepEv evict keyOf inWin) init).acc).Pairwise
      (fun a b => ¬ (keyOf a.1.rand = keyOf b.1.rand ∧ a.1.ts = b.1.ts)) := by
  cases h with
  | nil => simp [init]
  | cons e rest =>
    have hinit : Inv keyOf inWin tolS (clockOf e) init := ⟨by simp [init], by simp [init], by simp [init], by simp [init]⟩
    obtain ⟨c', hi⟩ := inv_run evict keyOf inWin tolS hev hwin (e :: rest) (clockOf e) init hinit hmono (by
      intro e' he'
      simp only [List.map_cons, List.pairwise_cons] at hmono
      rcases List.mem_cons.1 he' with rfl | he'
      · exact Int.le_refl _
      · exact hmono.1 _ (List.mem_map.2 ⟨e', he', rfl⟩))
    exact hi.once

/-- every accepted presentation was reached, opened, and was inside the window when presented -/
theorem acc_sound : ∀ (h : List Ev) (s : St),
    (∀ a ∈ s.acc, a.1.reg = true ∧ a.1.ok = true ∧ inWin a.1.ts a.2 = true) →
    ∀ a ∈ (h.foldl (stepEv evict keyOf inWin) s).acc, a.1.reg = true ∧ a.1.ok = true ∧ inWin a.1.ts a.2 = true := by
  intro h
  induction h with
  | nil => intro s hs; exact hs
  | cons e rest ih =>
    intro s hs
    simp only [List.foldl_cons]
    apply ih
    cases e with
    | clean now => simpa [stepEv, clean] using hs
    | present p now =>
      simp only [stepEv]; rw [present_state]
      by_cases hr : p.reg = false
      · rw [if_pos hr]; exact hs
      · rw [if_neg hr]; simp only
        split
        · rename_i hacc
          intro a ha
          rcases List.mem_append.1 ha with ha | ha
          · exact hs a ha
          · simp at ha; subst ha; exact ⟨by simpa using hr, hacc.2.1, hacc.2.2⟩
        · exact hs

end
end Replay
