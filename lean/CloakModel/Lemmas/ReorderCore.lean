import CloakModel.Model.ReorderBuf

/-! Specification-level reorder buffer (no `closed` flag, plain mathematical branch conditions)
and the complete reassembly proof.  `Props/C02.lean` relates it to the executable model `RB`. -/
set_option linter.unusedVariables false
namespace RC
open RB (Frame Out W ins)

structure SB where
  next : Nat
  heap : List Frame
  buf  : Bytes
  out  : Bytes

inductive Op | write (f : Frame) | read (k : Nat)


def drain (next : Nat) (buf out : Bytes) : List Frame → SB × Out
  | [] => (⟨next, [], buf, out⟩, .ok)
  | g :: gs =>
    if g.seq = next then
      if g.closing then (⟨next, gs, buf, out⟩, .close)
      else drain ((next + 1) % W) (buf ++ g.payload) out gs
    else (⟨next, g :: gs, buf, out⟩, .ok)

def write (sb : SB) (f : Frame) : SB × Out :=
  if sb.heap = [] ∧ f.seq = sb.next then
    if f.closing then (sb, .close)
    else ({ sb with next := (sb.next + 1) % W, buf := sb.buf ++ f.payload }, .ok)
  else if f.seq < sb.next then (sb, .errOld)
  else drain sb.next sb.buf sb.out (ins f sb.heap)

def read (sb : SB) (k : Nat) : SB := { sb with buf := sb.buf.drop k, out := sb.out ++ sb.buf.take k }

def prefixData (pl : Nat → Bytes) : Nat → Bytes
  | 0 => []
  | k+1 => prefixData pl k ++ pl k

section
variable (pl : Nat → Bytes) (c n : Nat)

/-- the frame numbered `i` -/
def fr (i : Nat) : Frame := ⟨i, decide (i = c), pl i⟩

/-- between writes, before the closing frame has been reported; `A` = seqs arrived so far -/
structure Inv (A : List Nat) (sb : SB) : Prop where
  data    : sb.out ++ sb.buf = prefixData pl sb.next
  below   : ∀ i, i < sb.next → i ∈ A ∧ i ≠ c
  heap_fr : ∀ g ∈ sb.heap, g = fr pl c g.seq ∧ g.seq ∈ A ∧ sb.next < g.seq
  heap_all: ∀ i ∈ A, sb.next < i → fr pl c i ∈ sb.heap
  next_na : sb.next ∉ A
  sorted  : sb.heap.Pairwise (fun a b => a.seq < b.seq)
  bound   : sb.next ≤ n

/-- after the closing frame has been reported -/
structure Closed (A : List Nat) (sb : SB) : Prop where
  data  : sb.out ++ sb.buf = prefixData pl c
  isNext: sb.next = c
  cin   : c ∈ A
  below : ∀ i, i < c → i ∈ A
  heap_gt : ∀ g ∈ sb.heap, c < g.seq

structure Pre (A : List Nat) (next : Nat) (buf out : Bytes) (h : List Frame) : Prop where
  data    : out ++ buf = prefixData pl next
  below   : ∀ i, i < next → i ∈ A ∧ i ≠ c
  heap_fr : ∀ g ∈ h, g = fr pl c g.seq ∧ g.seq ∈ A ∧ next ≤ g.seq
  heap_all: ∀ i ∈ A, next ≤ i → fr pl c i ∈ h
  sorted  : h.Pairwise (fun a b => a.seq < b.seq)
  bound   : next ≤ n

theorem drain_spec (hn : n < W) (A : List Nat) (hA : ∀ i ∈ A, i < n) :
    ∀ (h : List Frame) (next : Nat) (buf out : Bytes), Pre pl c n A next buf out h →
    (∀ sb, drain next buf out h = (sb, .ok) → Inv pl c n A sb) ∧
    (∀ sb, drain next buf out h = (sb, .close) → Closed pl c A sb) ∧
    (∀ sb, drain next buf out h ≠ (sb, .errOld)) := by
  intro h
  induction h with
  | nil =>
    intro next buf out hp
    refine ⟨?_, ?_, ?_⟩
    · intro sb hsb
      simp [drain] at hsb
      subst hsb
      refine ⟨hp.data, hp.below, by simp, ?_, ?_, by simp, hp.bound⟩
      · intro i hi hlt
        have := hp.heap_all i hi (Nat.le_of_lt hlt)
        simp at this
      · intro hmem
        have := hp.heap_all next hmem (Nat.le_refl _)
        simp at this
    · intro sb hsb; simp [drain] at hsb
    · intro sb hsb; simp [drain] at hsb
  | cons g gs ih =>
    intro next buf out hp
    have hg := hp.heap_fr g (by simp)
    have hsorted := hp.sorted
    rw [List.pairwise_cons] at hsorted
    by_cases hseq : g.seq = next
    · have hnextA : next ∈ A := by rw [← hseq]; exact hg.2.1
      have hnlt : next < n := hA next hnextA
      by_cases hc : g.closing = true
      · refine ⟨?_, ?_, ?_⟩
        · intro sb hsb; simp [drain, hseq, hc] at hsb
        · intro sb hsb
          simp [drain, hseq, hc] at hsb
          subst hsb
          have hcn : next = c := by
            have := hg.1; rw [this] at hc; simpa [fr, hseq] using hc
          refine ⟨by rw [← hcn]; exact hp.data, hcn, by rw [← hcn]; exact hnextA, ?_, ?_⟩
          · intro i hi; exact (hp.below i (by omega)).1
          · intro g' hg'; have := hsorted.1 g' hg'; omega
        · intro sb hsb; simp [drain, hseq, hc] at hsb
      · have hc' : g.closing = false := by simpa using hc
        have hmod : (next + 1) % W = next + 1 := Nat.mod_eq_of_lt (by omega)
        have hstep : drain next buf out (g :: gs) = drain (next+1) (buf ++ g.payload) out gs := by
          simp [drain, hseq, hc', hmod]
        rw [hstep]
        apply ih
        refine ⟨?_, ?_, ?_, ?_, hsorted.2, by omega⟩
        · rw [← List.append_assoc, hp.data]; simp [prefixData]
          have := hg.1; rw [this]; simp [fr, hseq]
        · intro i hi
          by_cases h2 : i < next
          · exact hp.below i h2
          · have : i = next := by omega
            subst this
            refine ⟨hnextA, ?_⟩
            have h3 := hg.1; rw [h3] at hc'; simpa [fr, hseq] using hc'
        · intro g' hg'
          have h1 := hp.heap_fr g' (by simp [hg'])
          have h2 := hsorted.1 g' hg'
          exact ⟨h1.1, h1.2.1, by omega⟩
        · intro i hi hle
          have h1 := hp.heap_all i hi (by omega)
          simp at h1
          rcases h1 with h1 | h1
          · exfalso
            have : (fr pl c i).seq = g.seq := by rw [h1]
            simp [fr] at this; omega
          · exact h1
    · have hstop : drain next buf out (g :: gs) = (⟨next, g :: gs, buf, out⟩, .ok) := by
        simp [drain, hseq]
      rw [hstop]
      refine ⟨?_, ?_, ?_⟩
      · intro sb hsb
        simp at hsb; subst hsb
        have hlt : next < g.seq := by have := hg.2.2; omega
        refine ⟨hp.data, hp.below, ?_, ?_, ?_, hp.sorted, hp.bound⟩
        · intro g' hg'
          have h1 := hp.heap_fr g' hg'
          refine ⟨h1.1, h1.2.1, ?_⟩
          simp at hg'
          rcases hg' with rfl | hg'
          · exact hlt
          · have := hsorted.1 g' hg'; show next < g'.seq; omega
        · intro i hi hlt'
          exact hp.heap_all i hi (by have : next < i := hlt'; omega)
        · intro hmem
          have h1 := hp.heap_all next hmem (Nat.le_refl _)
          simp at h1
          rcases h1 with h1 | h1
          · have : (fr pl c next).seq = g.seq := by rw [h1]
            simp [fr] at this; omega
          · have h2 := hsorted.1 _ h1
            simp [fr] at h2; omega
      · intro sb hsb; simp at hsb
      · intro sb hsb; simp at hsb

theorem mem_ins (f g : Frame) : ∀ l, g ∈ ins f l ↔ g = f ∨ g ∈ l := by
  intro l
  induction l with
  | nil => simp [ins]
  | cons x xs ih =>
    simp only [ins]
    split
    · simp
    · simp [ih]; constructor
      · rintro (h | h | h) <;> simp [h]
      · rintro (h | h | h) <;> simp [h]

theorem sorted_ins (f : Frame) : ∀ l, l.Pairwise (fun a b => a.seq < b.seq) →
    (∀ g ∈ l, g.seq ≠ f.seq) → (ins f l).Pairwise (fun a b => a.seq < b.seq) := by
  intro l
  induction l with
  | nil => intro _ _; simp [ins]
  | cons x xs ih =>
    intro hs hne
    rw [List.pairwise_cons] at hs
    simp only [ins]
    split
    · rename_i hlt
      rw [List.pairwise_cons]
      refine ⟨?_, List.pairwise_cons.2 hs⟩
      intro g hg
      simp at hg
      rcases hg with rfl | hg
      · exact hlt
      · have := hs.1 g hg; omega
    · rename_i hnlt
      rw [List.pairwise_cons]
      refine ⟨?_, ih hs.2 (fun g hg => hne g (by simp [hg]))⟩
      intro g hg
      rw [mem_ins] at hg
      rcases hg with rfl | hg
      · have := hne x (by simp); omega
      · exact hs.1 g hg

/-- one write of a not-yet-seen frame -/
theorem write_spec (hn : n < W) (A : List Nat) (i : Nat) (hi : i < n) (hiA : i ∉ A)
    (hA : ∀ j ∈ A, j < n) (sb : SB) (hinv : Inv pl c n A sb) :
    (∀ sb', write sb (fr pl c i) = (sb', .ok) → Inv pl c n (i :: A) sb') ∧
    (∀ sb', write sb (fr pl c i) = (sb', .close) → Closed pl c (i :: A) sb') ∧
    (∀ sb', write sb (fr pl c i) ≠ (sb', .errOld)) := by
  have hA' : ∀ j ∈ i :: A, j < n := by
    intro j hj; rcases List.mem_cons.1 hj with rfl | hj
    · exact hi
    · exact hA j hj
  unfold write
  by_cases hfast : sb.heap = [] ∧ (fr pl c i).seq = sb.next
  · rw [if_pos hfast]
    have hseq : i = sb.next := by simpa [fr] using hfast.2
    by_cases hcl : (fr pl c i).closing = true
    · rw [if_pos hcl]
      have hic : i = c := by simpa [fr] using hcl
      refine ⟨by intro sb' h; simp at h, ?_, by intro sb' h; simp at h⟩
      intro sb' h; simp at h; subst h
      refine ⟨by rw [← hic, hseq]; exact hinv.data, by omega, by simp [hic], ?_, by simp [hfast.1]⟩
      intro j hj
      have := (hinv.below j (by omega)).1
      simp [this]
    · rw [if_neg hcl]
      have hcl' : (fr pl c i).closing = false := by simpa using hcl
      have hic : i ≠ c := by simpa [fr] using hcl'
      have hmod : (sb.next + 1) % W = sb.next + 1 := Nat.mod_eq_of_lt (by omega)
      refine ⟨?_, by intro sb' h; simp at h, by intro sb' h; simp at h⟩
      intro sb' h; simp at h; subst h
      refine ⟨?_, ?_, ?_, ?_, ?_, ?_, ?_⟩
      · simp only [hmod]; rw [← List.append_assoc, hinv.data]; simp [prefixData, fr, hseq]
      · simp only [hmod]
        intro j hj
        by_cases h2 : j < sb.next
        · have := hinv.below j h2; exact ⟨by simp [this.1], this.2⟩
        · have : j = sb.next := by omega
          subst this; exact ⟨by simp [hseq], by omega⟩
      · simp [hfast.1]
      · simp only [hmod]
        intro j hj hlt
        rcases List.mem_cons.1 hj with rfl | hj
        · omega
        · have := hinv.heap_all j hj (by omega)
          rw [hfast.1] at this; simp at this
      · simp only [hmod]
        intro hmem
        rcases List.mem_cons.1 hmem with h | h
        · omega
        · have := hinv.heap_all _ h (by omega)
          rw [hfast.1] at this; simp at this
      · simp [hfast.1]
      · simp only [hmod]; omega
  · rw [if_neg hfast]
    have hnotold : ¬ (fr pl c i).seq < sb.next := by
      intro hlt
      have := (hinv.below i (by simpa [fr] using hlt)).1
      exact hiA this
    rw [if_neg hnotold]
    have hge : sb.next ≤ i := by simpa [fr] using hnotold
    apply drain_spec pl c n hn (i :: A) hA'
    refine ⟨hinv.data, ?_, ?_, ?_, ?_, hinv.bound⟩
    · intro j hj; have := hinv.below j hj; exact ⟨by simp [this.1], this.2⟩
    · intro g hg
      rw [mem_ins] at hg
      rcases hg with rfl | hg
      · exact ⟨rfl, by simp [fr], by simpa [fr] using hge⟩
      · have := hinv.heap_fr g hg
        exact ⟨this.1, by simp [this.2.1], by omega⟩
    · intro j hj hle
      rw [mem_ins]
      rcases List.mem_cons.1 hj with rfl | hj
      · left; rfl
      · right
        have hne : j ≠ sb.next := fun h => hinv.next_na (h ▸ hj)
        exact hinv.heap_all j hj (by omega)
    · apply sorted_ins _ _ hinv.sorted
      intro g hg
      have := hinv.heap_fr g hg
      intro heq
      simp [fr] at heq
      exact hiA (heq ▸ this.2.1)

/-- after the close has been reported, later (higher-numbered) frames change nothing visible -/
theorem write_closed (A : List Nat) (i : Nat) (hiA : i ∉ A) (sb : SB) (hcl : Closed pl c A sb) :
    ∃ sb', write sb (fr pl c i) = (sb', .ok) ∧ Closed pl c (i :: A) sb' := by
  have hic : i ≠ c := fun h => hiA (h ▸ hcl.cin)
  have hgt : c < i := by
    rcases Nat.lt_or_ge i c with h | h
    · exact absurd (hcl.below i h) hiA
    · omega
  unfold write
  have hfast : ¬ (sb.heap = [] ∧ (fr pl c i).seq = sb.next) := by
    intro h; have : i = sb.next := by simpa [fr] using h.2
    rw [hcl.isNext] at this; exact hic this
  rw [if_neg hfast]
  have hnotold : ¬ (fr pl c i).seq < sb.next := by rw [hcl.isNext]; simp [fr]; omega
  rw [if_neg hnotold]
  -- the head of the heap is never `next = c`
  have hdrain : ∀ (h : List Frame), (∀ g ∈ h, c < g.seq) →
      drain sb.next sb.buf sb.out h = (⟨sb.next, h, sb.buf, sb.out⟩, .ok) := by
    intro h hh
    cases h with
    | nil => simp [drain]
    | cons g gs =>
      have : g.seq ≠ sb.next := by rw [hcl.isNext]; have := hh g (by simp); omega
      simp [drain, this]
  have hall : ∀ g ∈ ins (fr pl c i) sb.heap, c < g.seq := by
    intro g hg; rw [mem_ins] at hg
    rcases hg with rfl | hg
    · simpa [fr] using hgt
    · exact hcl.heap_gt g hg
  refine ⟨_, hdrain _ hall, ?_⟩
  exact ⟨hcl.data, hcl.isNext, by simp [hcl.cin], fun j hj => by simp [hcl.below j hj], hall⟩

theorem read_inv (A : List Nat) (sb : SB) (k : Nat) (h : Inv pl c n A sb) : Inv pl c n A (read sb k) := by
  refine ⟨?_, h.below, h.heap_fr, h.heap_all, h.next_na, h.sorted, h.bound⟩
  simp only [read]; rw [List.append_assoc, List.take_append_drop]; exact h.data

theorem read_closed (A : List Nat) (sb : SB) (k : Nat) (h : Closed pl c A sb) : Closed pl c A (read sb k) := by
  refine ⟨?_, h.isNext, h.cin, h.below, h.heap_gt⟩
  simp only [read]; rw [List.append_assoc, List.take_append_drop]; exact h.data

def step (s : SB × List Out) : Op → SB × List Out
  | .write f => ((write s.1 f).1, s.2 ++ [(write s.1 f).2])
  | .read k  => (read s.1 k, s.2)

def writesOf : List Op → List Frame
  | [] => []
  | .write f :: r => f :: writesOf r
  | .read _ :: r => writesOf r

def closes (o : List Out) : Nat := (o.filter (· = Out.close)).length

/-- the two phases of a run, with what has been reported so far -/
def Phase (A : List Nat) (s : SB × List Out) : Prop :=
  Out.errOld ∉ s.2 ∧
  ((Inv pl c n A s.1 ∧ closes s.2 = 0) ∨ (Closed pl c A s.1 ∧ closes s.2 = 1))

theorem closes_append (o : List Out) (x : Out) :
    closes (o ++ [x]) = closes o + (if x = Out.close then 1 else 0) := by
  simp only [closes, List.filter_append, List.length_append]
  by_cases h : x = Out.close <;> simp [List.filter, h]

theorem run_phase (hn : n < W) : ∀ (ops : List Op) (A : List Nat) (s : SB × List Out),
    Phase pl c n A s → (∀ j ∈ A, j < n) →
    (∀ f ∈ writesOf ops, f = fr pl c f.seq ∧ f.seq < n ∧ f.seq ∉ A) →
    ((writesOf ops).map (·.seq)).Nodup →
    Phase pl c n (((writesOf ops).map (·.seq)).reverse ++ A) (ops.foldl step s) := by
  intro ops
  induction ops with
  | nil => intro A s h _ _ _; simpa [writesOf] using h
  | cons op rest ih =>
    intro A s hph hA hfr hnd
    cases op with
    | read k =>
      simp only [writesOf] at hfr hnd ⊢
      simp only [List.foldl_cons]
      apply ih A _ _ hA hfr hnd
      refine ⟨hph.1, ?_⟩
      rcases hph.2 with h | h
      · exact Or.inl ⟨read_inv pl c n A s.1 k h.1, h.2⟩
      · exact Or.inr ⟨read_closed pl c A s.1 k h.1, h.2⟩
    | write f =>
      simp only [writesOf, List.map_cons, List.nodup_cons] at hfr hnd ⊢
      have hf := hfr f (by simp)
      obtain ⟨hfeq, hflt, hfA⟩ := hf
      simp only [List.foldl_cons, List.reverse_cons, List.append_assoc, List.singleton_append]
      have hA' : ∀ j ∈ f.seq :: A, j < n := by
        intro j hj; rcases List.mem_cons.1 hj with rfl | hj
        · exact hflt
        · exact hA j hj
      apply ih (f.seq :: A) _ _ hA'
      · intro g hg
        have := hfr g (by simp [hg])
        refine ⟨this.1, this.2.1, ?_⟩
        intro hmem
        rcases List.mem_cons.1 hmem with h | h
        · exact hnd.1 (List.mem_map.2 ⟨g, hg, h⟩)
        · exact this.2.2 h
      · exact hnd.2
      · -- one write step
        simp only [step]
        rw [hfeq]
        rcases hph.2 with ⟨hinv, hcz⟩ | ⟨hcl, hc1⟩
        · have hw := write_spec pl c n hn A f.seq hflt hfA hA s.1 hinv
          match hres : write s.1 (fr pl c f.seq) with
          | (sb', .ok) =>
            refine ⟨by simp [hph.1], Or.inl ⟨hw.1 sb' hres, ?_⟩⟩
            rw [closes_append]; simp [hcz]
          | (sb', .close) =>
            refine ⟨by simp [hph.1], Or.inr ⟨hw.2.1 sb' hres, ?_⟩⟩
            rw [closes_append]; simp [hcz]
          | (sb', .errOld) => exact absurd hres (hw.2.2 sb')
        · obtain ⟨sb', hres, hcl'⟩ := write_closed pl c A f.seq hfA s.1 hcl
          rw [hres]
          refine ⟨by simp [hph.1], Or.inr ⟨hcl', ?_⟩⟩
          rw [closes_append]; simp [hc1]

def run (ops : List Op) : SB × List Out := ops.foldl step (⟨0, [], [], []⟩, [])

/-- C02: frames 0..n-1 (the one numbered `c`, if any, closing) each delivered exactly once in ANY
    order, reads interleaved anywhere: everything read plus everything buffered is the
    concatenation in sequence order up to the closing frame; no write is rejected; the close is
    reported exactly once iff there is a closing frame. -/
theorem c02_reassembly (hn : n < W) (ops : List Op)
    (hperm : ((writesOf ops).map (·.seq)).Perm (List.range n))
    (hfr : ∀ f ∈ writesOf ops, f = fr pl c f.seq) :
    let r := run ops
    r.1.out ++ r.1.buf = prefixData pl (min n c) ∧
    Out.errOld ∉ r.2 ∧
    closes r.2 = (if c < n then 1 else 0) := by
  have hnd : ((writesOf ops).map (·.seq)).Nodup := hperm.nodup_iff.2 List.nodup_range
  have hmem : ∀ i, i ∈ (writesOf ops).map (·.seq) ↔ i < n := by
    intro i; rw [hperm.mem_iff]; simp
  have h0 : Phase pl c n [] (⟨0, [], [], []⟩, []) := by
    refine ⟨by simp, Or.inl ⟨⟨by simp [prefixData], by simp, by simp, by simp, by simp, by simp, by simp⟩, by simp [closes]⟩⟩
  have hfin := run_phase pl c n hn ops [] _ h0 (by simp) (by
    intro f hf
    exact ⟨hfr f hf, (hmem _).1 (List.mem_map.2 ⟨f, hf, rfl⟩), by simp⟩) hnd
  simp only [List.append_nil] at hfin
  have hmemA : ∀ i, i ∈ ((writesOf ops).map (·.seq)).reverse ↔ i < n := by
    intro i; rw [List.mem_reverse]; exact hmem i
  show (run ops).1.out ++ (run ops).1.buf = _ ∧ _ ∧ _
  unfold run
  refine ⟨?_, hfin.1, ?_⟩
  · rcases hfin.2 with ⟨hinv, _⟩ | ⟨hcl, _⟩
    · -- no close reported: everything arrived, so next = n and c ≥ n
      have hnext : (ops.foldl step (⟨0, [], [], []⟩, [])).1.next = n := by
        have h1 := hinv.next_na
        rw [hmemA] at h1
        have := hinv.bound; omega
      have hc : n ≤ c := by
        rcases Nat.lt_or_ge c n with h | h
        · have := (hinv.below c (by omega)).2; exact absurd rfl this
        · exact h
      rw [hinv.data, hnext, Nat.min_eq_left hc]
    · have hc : c < n := (hmemA c).1 hcl.cin
      rw [hcl.data, Nat.min_eq_right (by omega)]
  · rcases hfin.2 with ⟨hinv, hz⟩ | ⟨hcl, h1⟩
    · have hnext : (ops.foldl step (⟨0, [], [], []⟩, [])).1.next = n := by
        have h1 := hinv.next_na
        rw [hmemA] at h1
        have := hinv.bound; omega
      have hc : ¬ c < n := by
        intro h; have := (hinv.below c (by omega)).2; exact absurd rfl this
      rw [hz, if_neg hc]
    · have hc : c < n := (hmemA c).1 hcl.cin
      rw [h1, if_pos hc]

end
end RC

