import CloakModel.Model.TLSRecord

/-! Lemmas about `Rec.readFull` (model of `io.ReadFull` over a chunked stream): its result depends
only on the concatenation of the chunks.  Used by C05 (record framing) and C09 (first packet). -/

namespace Rec

theorem readFull_spec : ∀ (cs : Chunks) (n : Nat),
    (n ≤ cs.flatten.length →
      ∃ rest, readFull n cs = some (cs.flatten.take n, rest) ∧ rest.flatten = cs.flatten.drop n) ∧
    (cs.flatten.length < n → readFull n cs = none) := by
  intro cs
  induction cs with
  | nil =>
    intro n
    cases n with
    | zero => simp [readFull]
    | succ n => simp [readFull]
  | cons c cs ih =>
    intro n
    cases n with
    | zero => simp [readFull]
    | succ n =>
      simp only [List.flatten_cons, List.length_append]
      by_cases hle : c.length ≤ n + 1
      · have ih' := ih (n + 1 - c.length)
        constructor
        · intro hlen
          obtain ⟨rest, h1, h2⟩ := ih'.1 (by omega)
          refine ⟨rest, ?_, ?_⟩
          · unfold readFull; simp [hle, h1, List.take_append]
            rw [List.take_of_length_le hle]
          · rw [h2, List.drop_append, List.drop_of_length_le hle]; simp
        · intro hlen
          have := ih'.2 (by omega)
          unfold readFull; simp [hle, this]
      · constructor
        · intro _
          refine ⟨c.drop (n+1) :: cs, ?_, ?_⟩
          · unfold readFull; simp [hle, List.take_append]
            have : n + 1 - c.length = 0 := by omega
            simp [this]
          · simp [List.drop_append]
            have : n + 1 - c.length = 0 := by omega
            simp [this]
        · intro hlen; omega

/-- `readFull` on a flat byte string (the specification `readFull` is compared with) -/
def takeExact (n : Nat) (s : Bytes) : Option (Bytes × Bytes) :=
  if n ≤ s.length then some (s.take n, s.drop n) else none

/-- `readFull` sees only the concatenation of the chunks -/
theorem readFull_flat (cs : Chunks) (n : Nat) :
    (readFull n cs).map (fun r => (r.1, r.2.flatten)) = takeExact n cs.flatten := by
  unfold takeExact
  by_cases h : n ≤ cs.flatten.length
  · obtain ⟨rest, h1, h2⟩ := (readFull_spec cs n).1 h
    rw [if_pos h, h1]; simp only [Option.map_some, h2]
  · have := (readFull_spec cs n).2 (by omega)
    rw [if_neg h, this]; rfl

theorem readFull_some {cs : Chunks} {n : Nat} {r : Bytes} {rest : Chunks} (h : readFull n cs = some (r, rest)) :
    n ≤ cs.flatten.length ∧ r = cs.flatten.take n ∧ rest.flatten = cs.flatten.drop n := by
  by_cases hn : n ≤ cs.flatten.length
  · obtain ⟨rest', h1, h2⟩ := (readFull_spec cs n).1 hn
    rw [h1] at h
    injection h with h
    injection h with ha hb
    subst ha; subst hb
    exact ⟨hn, rfl, h2⟩
  · have := (readFull_spec cs n).2 (by omega)
    rw [this] at h; cases h

theorem readFull_none {cs : Chunks} {n : Nat} (h : readFull n cs = none) : cs.flatten.length < n := by
  by_cases hn : n ≤ cs.flatten.length
  · obtain ⟨rest', h1, _⟩ := (readFull_spec cs n).1 hn
    rw [h1] at h; cases h
  · omega

end Rec
