import CloakModel.Model.Panel

/-! Helper lemmas about the association lists and record tables of `Model/Panel.lean`. -/
namespace Panel

theorem lookup_nil {α : Type} (k : Nat) : lookup ([] : List (Nat × α)) k = none := rfl

theorem lookup_cons {α : Type} (a : Nat) (v : α) (l : List (Nat × α)) (k : Nat) :
    lookup ((a, v) :: l) k = if a = k then some v else lookup l k := by
  unfold lookup
  by_cases h : a = k
  · simp [List.find?_cons, h]
  · simp [List.find?_cons, h]

theorem lookup_filter_ne {α : Type} (l : List (Nat × α)) (u k : Nat) (h : k ≠ u) :
    lookup (l.filter (fun e => e.1 != u)) k = lookup l k := by
  induction l with
  | nil => rfl
  | cons e t ih =>
    obtain ⟨a, v⟩ := e
    by_cases hau : a = u
    · subst hau
      have : a ≠ k := fun e => h e.symm
      simp only [List.filter_cons, bne_self_eq_false, Bool.false_eq_true, if_false, lookup_cons, this, ih]
    · have : (a != u) = true := by simp [hau]
      simp only [List.filter_cons, this, if_true, lookup_cons, ih]

theorem lookup_filter_eq {α : Type} (l : List (Nat × α)) (u : Nat) :
    lookup (l.filter (fun e => e.1 != u)) u = none := by
  induction l with
  | nil => rfl
  | cons e t ih =>
    obtain ⟨a, v⟩ := e
    by_cases hau : a = u
    · subst hau
      simp only [List.filter_cons, bne_self_eq_false, Bool.false_eq_true, if_false, ih]
    · have : (a != u) = true := by simp [hau]
      simp only [List.filter_cons, this, if_true, lookup_cons, hau, if_false, ih]

theorem lookup_filter_some {α : Type} (l : List (Nat × α)) (u k : Nat) (v : α)
    (h : lookup (l.filter (fun e => e.1 != u)) k = some v) : k ≠ u ∧ lookup l k = some v := by
  by_cases hk : k = u
  · subst hk; rw [lookup_filter_eq] at h; cases h
  · exact ⟨hk, by rw [lookup_filter_ne _ _ _ hk] at h; exact h⟩

theorem length_filter_le {α : Type} (p : α → Bool) (l : List α) : (l.filter p).length ≤ l.length :=
  List.length_filter_le p l

theorem getElem?_set_eq' {α : Type} (l : List α) (i : Nat) (x y : α) (h : l[i]? = some y) :
    (l.set i x)[i]? = some x := by
  have hi : i < l.length := by
    rcases Nat.lt_or_ge i l.length with h' | h'
    · exact h'
    · rw [List.getElem?_eq_none h'] at h; cases h
  simp [List.getElem?_set, hi]

theorem getElem?_set_ne' {α : Type} (l : List α) (i j : Nat) (x : α) (h : i ≠ j) :
    (l.set i x)[j]? = l[j]? := by
  simp [List.getElem?_set, h]

/-- reading a table entry after `set`: either the new value at the same index, or the old one elsewhere -/
theorem getElem?_set_cases {α : Type} (l : List α) (i j : Nat) (x y : α) (h : (l.set i x)[j]? = some y) :
    (j = i ∧ y = x) ∨ (j ≠ i ∧ l[j]? = some y) := by
  by_cases hji : j = i
  · subst hji
    left
    refine ⟨rfl, ?_⟩
    rw [List.getElem?_set] at h
    split at h
    · split at h
      · cases h; rfl
      · cases h
    · exact absurd rfl ‹¬ j = j›
  · right
    refine ⟨hji, ?_⟩
    rw [getElem?_set_ne' _ _ _ _ (fun e => hji e.symm)] at h
    exact h

theorem getElem?_append_cases {α : Type} (l : List α) (x y : α) (j : Nat) (h : (l ++ [x])[j]? = some y) :
    (j = l.length ∧ y = x) ∨ (j < l.length ∧ l[j]? = some y) := by
  rcases Nat.lt_trichotomy j l.length with hlt | heq | hgt
  · right; refine ⟨hlt, ?_⟩
    rw [List.getElem?_append_left hlt] at h; exact h
  · left; subst heq
    simp at h; exact ⟨rfl, h.symm⟩
  · have : (l ++ [x]).length ≤ j := by simp; omega
    rw [List.getElem?_eq_none this] at h; cases h

theorem getElem?_lt {α : Type} (l : List α) (i : Nat) (y : α) (h : l[i]? = some y) : i < l.length := by
  rcases Nat.lt_or_ge i l.length with h' | h'
  · exact h'
  · rw [List.getElem?_eq_none h'] at h; cases h

end Panel
