import CloakModel.Model.Locks

/-! Generic theorem: rank-ordered, well-bracketed lock programs never deadlock — any number of threads,
any schedule, any blocking discipline in which a refused acquisition has another holder.
(ported from spike S1 `C17Locks.lean`) plus the transport lemmas class-program → instance-program. -/

namespace Locks

def Inv (rank : Nat → Nat) (s : List Thread) : Prop := ∀ t ∈ s, ok rank t.held t.prog

theorem inv_step (D : Discipline) (rank) {s s'} (h : Inv rank s) (st : Step D s s') : Inv rank s' := by
  cases st with
  | acq i t l p hi hp hc =>
    intro u hu
    rcases List.mem_or_eq_of_mem_set hu with hu | hu
    · exact h u hu
    · subst hu
      have := h t (List.mem_of_getElem? hi)
      rw [hp] at this
      exact this.2
  | rel i t l p hi hp =>
    intro u hu
    rcases List.mem_or_eq_of_mem_set hu with hu | hu
    · exact h u hu
    · subst hu
      have := h t (List.mem_of_getElem? hi)
      rw [hp] at this
      exact this.2

theorem inv_reach (D : Discipline) (rank) {s0 s} (h0 : Inv rank s0) (hr : Reach D s0 s) : Inv rank s := by
  induction hr with
  | refl => exact h0
  | step _ st ih => exact inv_step D rank ih st

/-- in a stuck state satisfying `Inv`, every blocked thread awaiting `l` yields another blocked thread
awaiting a lock of strictly larger rank -/
theorem climb (D : Discipline) (rank) (s : List Thread) (hinv : Inv rank s)
    (hd : ∀ s', ¬ Step D s s') (i : Nat) (t : Thread) (l : Nat) (p : List Instr)
    (hi : s[i]? = some t) (hp : t.prog = .acq l :: p) :
    ∃ (j : Nat) (t' : Thread) (l' : Nat) (p' : List Instr),
      s[j]? = some t' ∧ t'.prog = Instr.acq l' :: p' ∧ rank l < rank l' := by
  have hblocked : ¬ D.canAcq s i l := fun hc => hd _ (Step.acq s i t l p hi hp hc)
  obtain ⟨j, _, t', hj, hl⟩ := D.blocked_has_holder s i l hblocked
  have hok := hinv t' (List.mem_of_getElem? hj)
  match hprog : t'.prog with
  | [] =>
    rw [hprog] at hok
    simp [ok] at hok
    rw [hok] at hl; simp at hl
  | .rel l' :: p' =>
    exact absurd (Step.rel s j t' l' p' hj hprog) (hd _)
  | .acq l' :: p' =>
    rw [hprog] at hok
    exact ⟨j, t', l', p', hj, hprog, hok.1 l hl⟩

theorem locks_rank_ordered_no_deadlock (D : Discipline) (rank : Nat → Nat) (R : Nat)
    (hR : ∀ l, rank l < R)
    (s0 : List Thread) (h0 : ∀ t ∈ s0, t.held = [] ∧ ok rank [] t.prog)
    (s : List Thread) (hr : Reach D s0 s) : ¬ Deadlocked D s := by
  intro ⟨⟨t, ht, hne⟩, hd⟩
  have hinv : Inv rank s := inv_reach D rank (fun t ht => by
    have := h0 t ht; rw [this.1]; exact this.2) hr
  obtain ⟨i, hi⟩ := List.getElem?_of_mem ht
  have key : ∀ n, ∃ (j : Nat) (t' : Thread) (l' : Nat) (p' : List Instr),
      s[j]? = some t' ∧ t'.prog = Instr.acq l' :: p' ∧ n ≤ rank l' := by
    intro n
    induction n with
    | zero =>
      match hprog : t.prog with
      | [] => exact absurd hprog hne
      | .rel l :: p => exact absurd (Step.rel s i t l p hi hprog) (hd _)
      | .acq l :: p => exact ⟨i, t, l, p, hi, hprog, Nat.zero_le _⟩
    | succ n ih =>
      obtain ⟨j, t', l', p', hj, hp, hle⟩ := ih
      obtain ⟨j2, t2, l2, p2, hj2, hp2, hlt⟩ := climb D rank s hinv hd j t' l' p' hj hp
      exact ⟨j2, t2, l2, p2, hj2, hp2, by omega⟩
  obtain ⟨_, _, l', _, _, _, hle⟩ := key R
  have := hR l'
  omega

theorem ok_of_okb (rank : Nat → Nat) : ∀ (p : List Instr) (held : List Nat), okb rank held p = true → ok rank held p := by
  intro p
  induction p with
  | nil => intro held h; simpa [okb, ok, List.isEmpty_iff] using h
  | cons i p ih =>
    intro held h
    cases i with
    | acq l =>
      simp only [okb, Bool.and_eq_true, List.all_eq_true, decide_eq_true_eq] at h
      exact ⟨h.1, ih _ h.2⟩
    | rel l =>
      simp only [okb, Bool.and_eq_true, List.contains_iff_mem] at h
      exact ⟨h.1, ih _ h.2⟩

theorem okb_of_ok (rank : Nat → Nat) : ∀ (p : List Instr) (held : List Nat), ok rank held p → okb rank held p = true := by
  intro p
  induction p with
  | nil => intro held h; simpa [okb, ok, List.isEmpty_iff] using h
  | cons i p ih =>
    intro held h
    cases i with
    | acq l =>
      simp only [okb, Bool.and_eq_true, List.all_eq_true, decide_eq_true_eq]
      exact ⟨h.1, ih _ h.2⟩
    | rel l =>
      simp only [okb, Bool.and_eq_true, List.contains_iff_mem]
      exact ⟨h.1, ih _ h.2⟩

/-! ### class programs → instance programs -/

theorem erase_map_inj (f : Nat → Nat) (hf : ∀ a b, f a = f b → a = b) (l : Nat) :
    ∀ held : List Nat, (held.map f).erase (f l) = (held.erase l).map f := by
  intro held
  induction held with
  | nil => rfl
  | cons h t ih =>
    by_cases hh : h = l
    · subst hh; simp
    · have : f h ≠ f l := fun e => hh (hf _ _ e)
      simp only [List.map_cons, List.erase_cons, beq_iff_eq, this, hh, if_false, ih]

/-- a rank-ordered class program stays rank-ordered when its classes are renamed injectively into
instances of the same rank -/
theorem ok_map (rank rank' : Nat → Nat) (f : Nat → Nat) (hf : ∀ a b, f a = f b → a = b)
    (hr : ∀ c, rank (f c) = rank' c) :
    ∀ (p : List Instr) (held : List Nat), ok rank' held p → ok rank (held.map f) (p.map (Instr.map f)) := by
  intro p
  induction p with
  | nil => intro held h; simp only [ok] at h; subst h; simp [ok]
  | cons i p ih =>
    intro held h
    cases i with
    | acq l =>
      simp only [List.map_cons, Instr.map, ok]
      refine ⟨?_, ?_⟩
      · intro x hx
        obtain ⟨y, hy, rfl⟩ := List.mem_map.1 hx
        rw [hr, hr]; exact h.1 y hy
      · have := ih (l :: held) h.2
        simpa using this
    | rel l =>
      simp only [List.map_cons, Instr.map, ok]
      refine ⟨List.mem_map.2 ⟨l, h.1, rfl⟩, ?_⟩
      rw [erase_map_inj f hf]
      exact ih _ h.2

theorem instOf_inj (u : Nat) : ∀ a b, instOf u a = instOf u b → a = b := by
  intro a b h
  unfold instOf at h
  split at h <;> split at h <;> omega

theorem rankQAS_instOf (u c : Nat) : rankQAS (instOf u c) = rankQAS c := by
  unfold rankQAS instOf
  split <;> omega

/-! ### the exclusive-lock discipline (an instance, used for non-vacuity and for the pinned witness) -/

def mutexD : Discipline where
  canAcq := fun s i l => ∀ j t, j ≠ i → s[j]? = some t → l ∉ t.held
  blocked_has_holder := by
    intro s i l h
    apply Classical.byContradiction
    intro hn
    apply h
    intro j t hj ht hl
    exact hn ⟨j, hj, t, ht, hl⟩

end Locks
