/-! Specification-level token bucket (the `juju/ratelimit` take/adjust discipline in mathematical form: `min`,
`ceilDiv`) and the interval theorems for C19.  `Model/TokenBucket.lean` is the executable transcription of the
library built from the extracted terms; `Props/C19.lean` proves the two agree and re-exports the theorems. -/
namespace TBS

structure B where
  avail : Int
  last  : Int

def adjust (cap q : Int) (b : B) (tick : Int) : B :=
  if b.avail ≥ cap then ⟨b.avail, tick⟩
  else ⟨min cap (b.avail + (tick - b.last) * q), tick⟩

/-- ceil(d/q) as juju computes it -/
def ceilDiv (d q : Int) : Int := (d + q - 1) / q

def take (cap q : Int) (b : B) (tick c : Int) : B × Int :=
  let b' := adjust cap q b tick
  let a := b'.avail - c
  (⟨a, tick⟩, if a ≥ 0 then tick else tick + ceilDiv (-a) q)

def run (cap q : Int) : B → List (Int × Int) → List (Int × Int)
  | _, [] => []
  | b, (t, c) :: r => ((take cap q b t c).2, c) :: run cap q (take cap q b t c).1 r

theorem ceilDiv_ge (d q : Int) (hq : 0 < q) : d ≤ ceilDiv d q * q := by
  unfold ceilDiv
  have := Int.lt_ediv_add_one_mul_self (d + q - 1) hq
  have h2 : ((d + q - 1) / q + 1) * q = (d + q - 1) / q * q + q := by
    rw [Int.add_mul, Int.one_mul]
  omega

theorem ceilDiv_lt (d q : Int) (hq : 0 < q) : (ceilDiv d q - 1) * q < d := by
  unfold ceilDiv
  have := Int.ediv_mul_le (d + q - 1) (Int.ne_of_gt hq)
  have h2 : ((d + q - 1) / q - 1) * q = (d + q - 1) / q * q - q := by
    rw [Int.sub_mul, Int.one_mul]
  omega

end TBS

namespace TBS

def anyRel (bb : Int) (rs : List (Int × Int)) : Bool := rs.any (fun x => decide (x.1 ≤ bb))

def sumUpToLast (bb : Int) : List (Int × Int) → Int
  | [] => 0
  | (r, c) :: rest => if r ≤ bb ∨ anyRel bb rest = true then c + sumUpToLast bb rest else 0

def windowSum (a bb : Int) : List (Int × Int) → Int
  | [] => 0
  | (r, c) :: rest => (if a ≤ r ∧ r ≤ bb then c else 0) + windowSum a bb rest

/-- requests are in non-decreasing tick order starting at `last`, counts positive -/
def Good : Int → List (Int × Int) → Prop
  | _, [] => True
  | last, (t, c) :: r => last ≤ t ∧ 0 < c ∧ Good t r

theorem mulMono {x y q : Int} (h : x ≤ y) (hq : 0 < q) : x * q ≤ y * q :=
  Int.mul_le_mul_of_nonneg_right h (Int.le_of_lt hq)

theorem pre_le (cap q : Int) (hq : 0 < q) (b : B) (t : Int) (ht : b.last ≤ t) :
    (adjust cap q b t).avail ≤ b.avail + (t - b.last) * q := by
  have h0 : 0 ≤ (t - b.last) * q := Int.mul_nonneg (by omega) (Int.le_of_lt hq)
  unfold adjust
  split
  · simp; omega
  · simp; omega

theorem pre_le_cap (cap q : Int) (b : B) (t : Int) (hb : b.avail ≤ cap) :
    (adjust cap q b t).avail ≤ cap := by
  unfold adjust
  split
  · simp; omega
  · simp; omega

theorem counts_pos (cap q : Int) : ∀ (reqs : List (Int × Int)) (b : B), Good b.last reqs →
    ∀ x ∈ run cap q b reqs, 0 < x.2 := by
  intro reqs
  induction reqs with
  | nil => intro b _ x hx; simp [run] at hx
  | cons rc rest ih =>
    obtain ⟨t, c⟩ := rc
    intro b hg x hx
    simp only [run, List.mem_cons] at hx
    rcases hx with hx | hx
    · subst hx; exact hg.2.1
    · exact ih _ (by simpa [take] using hg.2.2) x hx

theorem sumUpToLast_zero (bb : Int) : ∀ l, anyRel bb l = false → sumUpToLast bb l = 0 := by
  intro l
  induction l with
  | nil => intro _; rfl
  | cons x rest ih =>
    obtain ⟨r, c⟩ := x
    intro h
    simp only [anyRel, List.any_cons, Bool.or_eq_false_iff, decide_eq_false_iff_not] at h
    have h2 : anyRel bb rest = false := h.2
    simp [sumUpToLast, h.1, h2]

theorem windowSum_zero (a bb : Int) : ∀ l, anyRel bb l = false → windowSum a bb l = 0 := by
  intro l
  induction l with
  | nil => intro _; rfl
  | cons x rest ih =>
    obtain ⟨r, c⟩ := x
    intro h
    simp only [anyRel, List.any_cons, Bool.or_eq_false_iff, decide_eq_false_iff_not] at h
    have h2 : anyRel bb rest = false := h.2
    simp [windowSum, h.1, ih h2]

theorem sumUpToLast_nonneg (bb : Int) : ∀ l, (∀ x ∈ l, 0 < x.2) → 0 ≤ sumUpToLast bb l := by
  intro l
  induction l with
  | nil => intro _; simp [sumUpToLast]
  | cons x rest ih =>
    obtain ⟨r, c⟩ := x
    intro h
    have hc : 0 < c := h (r, c) (by simp)
    have hr := ih (fun x hx => h x (by simp [hx]))
    simp only [sumUpToLast]
    split <;> omega

theorem window_le_upto (a bb : Int) : ∀ l, (∀ x ∈ l, 0 < x.2) → windowSum a bb l ≤ sumUpToLast bb l := by
  intro l
  induction l with
  | nil => intro _; simp [windowSum, sumUpToLast]
  | cons x rest ih =>
    obtain ⟨r, c⟩ := x
    intro h
    have hc : 0 < c := h (r, c) (by simp)
    have hrest : ∀ x ∈ rest, 0 < x.2 := fun x hx => h x (by simp [hx])
    have ih' := ih hrest
    simp only [windowSum, sumUpToLast]
    by_cases hcond : r ≤ bb ∨ anyRel bb rest = true
    · rw [if_pos hcond]
      split <;> omega
    · rw [if_neg hcond]
      have h1 : ¬ r ≤ bb := fun h => hcond (Or.inl h)
      have h2 : anyRel bb rest = false := by
        cases hh : anyRel bb rest with
        | false => rfl
        | true => exact absurd (Or.inr hh) hcond
      rw [windowSum_zero a bb rest h2]
      have : ¬ (a ≤ r ∧ r ≤ bb) := fun h => h1 h.2
      simp [this]

end TBS

namespace TBS

/-- G: if anything is released by `bb`, everything up to the last such request is paid for
    by the tokens present plus those generated until `bb`. -/
theorem upto_le_potential (cap q : Int) (hq : 0 < q) (bb : Int) :
    ∀ (reqs : List (Int × Int)) (b : B), Good b.last reqs →
      anyRel bb (run cap q b reqs) = true →
      sumUpToLast bb (run cap q b reqs) ≤ b.avail + (bb - b.last) * q := by
  intro reqs
  induction reqs with
  | nil => intro b _ h; simp [run, anyRel] at h
  | cons rc rest ih =>
    obtain ⟨t, c⟩ := rc
    intro b hg hany
    obtain ⟨hlt, hc, hgr⟩ := hg
    have hpre := pre_le cap q hq b t hlt
    -- abbreviations
    generalize hP : (adjust cap q b t).avail = pre at hpre
    have htake1 : (take cap q b t c).1 = ⟨pre - c, t⟩ := by simp [take, hP]
    have htake2 : (take cap q b t c).2 = if pre - c ≥ 0 then t else t + ceilDiv (-(pre - c)) q := by
      simp [take, hP]
    simp only [run, htake1] at hany ⊢
    simp only [sumUpToLast]
    have hdist : (bb - b.last) * q = (bb - t) * q + (t - b.last) * q := by
      rw [← Int.add_mul]; congr 1; omega
    by_cases hrest : anyRel bb (run cap q ⟨pre - c, t⟩ rest) = true
    · rw [if_pos (Or.inr hrest)]
      have := ih ⟨pre - c, t⟩ hgr hrest
      simp only at this
      omega
    · have hrest' : anyRel bb (run cap q ⟨pre - c, t⟩ rest) = false := by
        cases hh : anyRel bb (run cap q ⟨pre - c, t⟩ rest) with
        | false => rfl
        | true => exact absurd hh hrest
      -- then the head itself is released by bb
      have hhead : (take cap q b t c).2 ≤ bb := by
        simp only [anyRel, List.any_cons, Bool.or_eq_true, decide_eq_true_eq] at hany
        rcases hany with h | h
        · exact h
        · simp only [anyRel] at hrest'; rw [hrest'] at h; exact absurd h (by simp)
      rw [if_pos (Or.inl hhead), sumUpToLast_zero bb _ hrest']
      rw [htake2] at hhead
      by_cases ha : pre - c ≥ 0
      · rw [if_pos ha] at hhead
        have h0 : 0 ≤ (bb - t) * q := Int.mul_nonneg (by omega) (Int.le_of_lt hq)
        omega
      · rw [if_neg ha] at hhead
        have h1 := ceilDiv_ge (-(pre - c)) q hq
        have h2 : ceilDiv (-(pre - c)) q * q ≤ (bb - t) * q := mulMono (by omega) hq
        omega

end TBS

namespace TBS

/-- C19 upper bound: bytes released in any closed tick interval [a, bb]. -/
theorem c19_upper (cap q M : Int) (hcap : 0 < cap) (hq : 0 < q) (a bb : Int) (hab : a ≤ bb) :
    ∀ (reqs : List (Int × Int)) (b : B), Good b.last reqs → b.avail ≤ cap →
      (∀ x ∈ reqs, x.2 ≤ M) →
      windowSum a bb (run cap q b reqs) ≤ max cap (M + q - 1) + (bb - a) * q := by
  have hspan : 0 ≤ (bb - a) * q := Int.mul_nonneg (by omega) (Int.le_of_lt hq)
  intro reqs
  induction reqs with
  | nil => intro b _ _ _; simp [run, windowSum]; omega
  | cons rc rest ih =>
    obtain ⟨t, c⟩ := rc
    intro b hg hb hM
    have hgood := hg
    obtain ⟨hlt, hc, hgr⟩ := hg
    have hcM : c ≤ M := hM (t, c) (by simp)
    have hprecap := pre_le_cap cap q b t hb
    generalize hP : (adjust cap q b t).avail = pre at hprecap
    have htake1 : (take cap q b t c).1 = ⟨pre - c, t⟩ := by simp [take, hP]
    have htake2 : (take cap q b t c).2 = if pre - c ≥ 0 then t else t + ceilDiv (-(pre - c)) q := by
      simp [take, hP]
    by_cases hin : a ≤ (take cap q b t c).2 ∧ (take cap q b t c).2 ≤ bb
    · -- the head is in the window: bound the whole remaining window by the potential at the head
      have hpos := counts_pos cap q ((t, c) :: rest) b hgood
      have h1 := window_le_upto a bb (run cap q b ((t, c) :: rest)) hpos
      -- potential bound, one step unfolded
      have h2 : sumUpToLast bb (run cap q b ((t, c) :: rest)) ≤ pre + (bb - t) * q := by
        simp only [run, htake1, sumUpToLast]
        rw [if_pos (Or.inl hin.2)]
        by_cases hrest : anyRel bb (run cap q ⟨pre - c, t⟩ rest) = true
        · have := upto_le_potential cap q hq bb rest ⟨pre - c, t⟩ hgr hrest
          simp only at this
          omega
        · have hrest' : anyRel bb (run cap q ⟨pre - c, t⟩ rest) = false := by
            cases hh : anyRel bb (run cap q ⟨pre - c, t⟩ rest) with
            | false => rfl
            | true => exact absurd hh hrest
          rw [sumUpToLast_zero bb _ hrest']
          have hhead := hin.2
          rw [htake2] at hhead
          by_cases ha : pre - c ≥ 0
          · rw [if_pos ha] at hhead
            have h0 : 0 ≤ (bb - t) * q := Int.mul_nonneg (by omega) (Int.le_of_lt hq)
            omega
          · rw [if_neg ha] at hhead
            have h3 := ceilDiv_ge (-(pre - c)) q hq
            have h4 : ceilDiv (-(pre - c)) q * q ≤ (bb - t) * q := mulMono (by omega) hq
            omega
      -- now use that the head is released no earlier than `a`
      have hlow := hin.1
      rw [htake2] at hlow
      have hdist : (bb - t) * q = (bb - a) * q + (a - t) * q := by
        rw [← Int.add_mul]; congr 1; omega
      by_cases ha : pre - c ≥ 0
      · rw [if_pos ha] at hlow
        -- released immediately at t ≥ a
        have h5 : (a - t) * q ≤ 0 := by
          have := mulMono (show a - t ≤ 0 by omega) hq
          simpa using this
        have : max cap (M + q - 1) ≥ cap := Int.le_max_left _ _
        omega
      · rw [if_neg ha] at hlow
        -- released at t + k with k = ceil((c - pre)/q); k ≥ a - t
        have h6 := ceilDiv_lt (-(pre - c)) q hq
        have h7 : (a - t - 1) * q ≤ (ceilDiv (-(pre - c)) q - 1) * q := mulMono (by omega) hq
        have h8 : (a - t - 1) * q = (a - t) * q - q := by
          rw [Int.sub_mul, Int.one_mul]
        have : max cap (M + q - 1) ≥ M + q - 1 := Int.le_max_right _ _
        omega
    · -- the head is outside the window: drop it and recurse
      have hstep : windowSum a bb (run cap q b ((t, c) :: rest)) =
          windowSum a bb (run cap q (take cap q b t c).1 rest) := by
        simp only [run, windowSum]
        rw [if_neg hin]; simp
      rw [hstep, htake1]
      apply ih ⟨pre - c, t⟩ hgr
      · show pre - c ≤ cap; omega
      · intro x hx; exact hM x (by simp [hx])

end TBS

namespace TBS

/-! ### a backlogged sender is not starved -/

/-- back-to-back sender: each request is issued in the tick in which the previous one was released -/
def runBL (cap q : Int) : B → Int → List Int → List (Int × Int)
  | _, _, [] => []
  | b, t, c :: r => ((take cap q b t c).2, c) :: runBL cap q (take cap q b t c).1 (take cap q b t c).2 r

/-- the timed request list of the back-to-back sender -/
def reqsBL (cap q : Int) : B → Int → List Int → List (Int × Int)
  | _, _, [] => []
  | b, t, c :: r => (t, c) :: reqsBL cap q (take cap q b t c).1 (take cap q b t c).2 r

theorem runBL_eq_run (cap q : Int) : ∀ (cs : List Int) (b : B) (t : Int),
    runBL cap q b t cs = run cap q b (reqsBL cap q b t cs) := by
  intro cs
  induction cs with
  | nil => intro b t; rfl
  | cons c r ih => intro b t; simp only [runBL, reqsBL, run, ih]

theorem ceilDiv_nonneg (d q : Int) (hd : 0 ≤ d) (hq : 0 < q) : 0 ≤ ceilDiv d q := by
  unfold ceilDiv
  exact Int.ediv_nonneg (by omega) (Int.le_of_lt hq)

theorem take_rel_ge (cap q : Int) (hq : 0 < q) (b : B) (t c : Int) : t ≤ (take cap q b t c).2 := by
  simp only [take]
  split
  · exact Int.le_refl _
  · have := ceilDiv_nonneg (-((adjust cap q b t).avail - c)) q (by omega) hq
    omega

theorem take_last (cap q : Int) (b : B) (t c : Int) : (take cap q b t c).1.last = t := by simp [take]

theorem reqsBL_good (cap q : Int) (hq : 0 < q) : ∀ (cs : List Int) (b : B) (t : Int), b.last ≤ t →
    (∀ c ∈ cs, 0 < c) → Good b.last (reqsBL cap q b t cs) := by
  intro cs
  induction cs with
  | nil => intro b t _ _; trivial
  | cons c r ih =>
    intro b t hbt hc
    refine ⟨hbt, hc c (by simp), ?_⟩
    have := ih (take cap q b t c).1 (take cap q b t c).2 (by rw [take_last]; exact take_rel_ge cap q hq b t c)
      (fun x hx => hc x (by simp [hx]))
    rw [take_last] at this; exact this

theorem runBL_rel_ge (cap q : Int) (hq : 0 < q) : ∀ (cs : List Int) (b : B) (t : Int),
    ∀ x ∈ runBL cap q b t cs, t ≤ x.1 := by
  intro cs
  induction cs with
  | nil => intro b t x hx; simp [runBL] at hx
  | cons c r ih =>
    intro b t x hx
    simp only [runBL, List.mem_cons] at hx
    have h1 := take_rel_ge cap q hq b t c
    rcases hx with hx | hx
    · subst hx; exact h1
    · have := ih _ _ x hx; omega

/-- bytes released up to and including tick `t` -/
def sumBy (t : Int) : List (Int × Int) → Int
  | [] => 0
  | (r, c) :: rest => (if r ≤ t then c else 0) + sumBy t rest

theorem sumBy_zero (t : Int) : ∀ l : List (Int × Int), (∀ x ∈ l, t < x.1) → sumBy t l = 0 := by
  intro l
  induction l with
  | nil => intro _; rfl
  | cons x rest ih =>
    obtain ⟨r, c⟩ := x
    intro h
    have h1 : ¬ r ≤ t := by have := h (r, c) (by simp); simp only at this; omega
    simp [sumBy, h1, ih (fun x hx => h x (by simp [hx]))]

theorem sumBy_eq_window (a t : Int) : ∀ l : List (Int × Int), (∀ x ∈ l, a ≤ x.1) → sumBy t l = windowSum a t l := by
  intro l
  induction l with
  | nil => intro _; rfl
  | cons x rest ih =>
    obtain ⟨r, c⟩ := x
    intro h
    have h1 : a ≤ r := h (r, c) (by simp)
    simp [sumBy, windowSum, h1, ih (fun x hx => h x (by simp [hx]))]

/-- **not starved (core).** A sender that always has the next message ready (message sizes `0 < c ≤ M`) against a
bucket that is not over-full, with `q ≤ cap + 1`: at every tick `t ≥ T` at which it is still waiting for some
message, it has already been let through more than `A + q·(t − T) − M` bytes, where `A` is what the bucket holds at
`T`.  Nothing is lost to the capacity clamp and at most one message (`M`) is ever outstanding. -/
theorem not_starved_core (cap q M : Int) (hq : 0 < q) (hqc : q ≤ cap + 1) :
    ∀ (cs : List Int) (b : B) (T : Int), b.last ≤ T → b.avail ≤ cap → (∀ c ∈ cs, 0 < c ∧ c ≤ M) →
    ∀ t, T ≤ t → (∃ x ∈ runBL cap q b T cs, t < x.1) →
      (adjust cap q b T).avail + q * (t - T) - M < sumBy t (runBL cap q b T cs) := by
  intro cs
  induction cs with
  | nil => intro b T _ _ _ t _ hp; obtain ⟨x, hx, _⟩ := hp; simp [runBL] at hx
  | cons c rest ih =>
    intro b T hbT hbc hcs t hTt hp
    have hc := hcs c (by simp)
    have hprecap := pre_le_cap cap q b T hbc
    generalize hP : (adjust cap q b T).avail = pre at hprecap
    have htake1 : (take cap q b T c).1 = ⟨pre - c, T⟩ := by simp [take, hP]
    have htake2 : (take cap q b T c).2 = if pre - c ≥ 0 then T else T + ceilDiv (-(pre - c)) q := by
      simp [take, hP]
    simp only [runBL, sumBy]
    have hrest : ∀ c' ∈ rest, 0 < c' ∧ c' ≤ M := fun x hx => hcs x (by simp [hx])
    by_cases ha : pre - c ≥ 0
    · -- released at once
      have hrel : (take cap q b T c).2 = T := by rw [htake2, if_pos ha]
      rw [hrel, htake1, if_pos hTt]
      -- the pending message is among the rest
      have hp' : ∃ x ∈ runBL cap q ⟨pre - c, T⟩ T rest, t < x.1 := by
        obtain ⟨x, hx, hxt⟩ := hp
        simp only [runBL, List.mem_cons] at hx
        rcases hx with hx | hx
        · subst hx; simp only at hxt; rw [hrel] at hxt; omega
        · rw [hrel, htake1] at hx; exact ⟨x, hx, hxt⟩
      have := ih ⟨pre - c, T⟩ T (Int.le_refl _) (by show pre - c ≤ cap; omega) hrest t hTt hp'
      have hadj : (adjust cap q ⟨pre - c, T⟩ T).avail = pre - c := by
        unfold adjust
        split
        · rfl
        · simp; omega
      rw [hadj] at this
      omega
    · -- has to wait until T' = T + k
      have hrel : (take cap q b T c).2 = T + ceilDiv (-(pre - c)) q := by rw [htake2, if_neg ha]
      have hk1 := ceilDiv_ge (-(pre - c)) q hq
      have hk2 := ceilDiv_lt (-(pre - c)) q hq
      have hk0 := ceilDiv_nonneg (-(pre - c)) q (by omega) hq
      generalize hK : ceilDiv (-(pre - c)) q = k at hrel hk1 hk2 hk0
      rw [hrel, htake1]
      by_cases hwait : T + k ≤ t
      · rw [if_pos hwait]
        have hp' : ∃ x ∈ runBL cap q ⟨pre - c, T⟩ (T + k) rest, t < x.1 := by
          obtain ⟨x, hx, hxt⟩ := hp
          simp only [runBL, List.mem_cons] at hx
          rcases hx with hx | hx
          · subst hx; simp only at hxt; rw [hrel] at hxt; omega
          · rw [hrel, htake1] at hx; exact ⟨x, hx, hxt⟩
        have := ih ⟨pre - c, T⟩ (T + k) (by show T ≤ T + k; omega) (by show pre - c ≤ cap; omega) hrest t hwait hp'
        have hkq : (T + k - T) * q = k * q := by congr 1; omega
        have hadj : (adjust cap q ⟨pre - c, T⟩ (T + k)).avail = pre - c + k * q := by
          unfold adjust
          have h1 : ¬ (pre - c ≥ cap) := by omega
          have hkq' : (k - 1) * q = k * q - q := by rw [Int.sub_mul, Int.one_mul]
          simp only [h1, if_false, hkq]
          omega
        rw [hadj] at this
        have e1 : q * (t - (T + k)) = q * (t - T) - k * q := by
          rw [Int.mul_comm k q, ← Int.mul_sub]; congr 1; omega
        omega
      · rw [if_neg hwait]
        have hz : sumBy t (runBL cap q ⟨pre - c, T⟩ (T + k) rest) = 0 :=
          sumBy_zero t _ (fun x hx => by have := runBL_rel_ge cap q hq rest _ _ x hx; omega)
        rw [hz]
        have hkq' : (k - 1) * q = k * q - q := by rw [Int.sub_mul, Int.one_mul]
        have hle : q * (t - T) ≤ q * (k - 1) := Int.mul_le_mul_of_nonneg_left (by omega) (Int.le_of_lt hq)
        have e2 : q * (k - 1) = (k - 1) * q := Int.mul_comm _ _
        omega

end TBS
