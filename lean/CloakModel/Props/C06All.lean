import CloakModel.Props.C06Disp
import CloakModel.Props.C06Connector
import CloakModel.Props.C06ConnectorC15

/-! Everything C06's check builds and audits: the handshake itself (`C06`, `HS`, the dispatcher fact of `C06Disp`) and
the client's session establishment around it (`C06Connector`: `client.MakeSession`, `common.backoff`). -/
