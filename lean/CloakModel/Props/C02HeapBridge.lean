import CloakModel.Props.C02Heap
import CloakModel.Gen.Backlog

/-! # The array heap IS the abstract out-of-order store (C02): proof of `C02Heap.c02_heap_bridge_full`

`streamBuffer.Write` run over Go's `container/heap` on the array (`GoHeap.writeH`) and over the sorted list of C02's model
(`RB.write`) give the same answer and related states (same `nextRecvSeq`, same pipe, the array a permutation of the list),
from any related pair whose array is reachable and whose stored frames — with the arriving one — carry pairwise different
sequence numbers (identical copies allowed).  So every theorem of `Props/C02.lean` about `RB.write` (reassembly in any
arrival order, prefix always) speaks about the code path that really runs `heap.Push`/`heap.Pop`. -/
set_option linter.unusedVariables false

namespace C02Heap
open GoHeap RB HeapCore

/-- the ways out of `streamBuffer.Write` are the five of the models (`RB.write`, `GoHeap.writeH`): fast path closing / stored, the
stale-frame refusal (the only error), the drain loop's closing frame, the end — no other refusal of a frame (seed C02-6) -/
theorem gen_write_exits : Gen.Backlog.sbWriteReturns = 5 ∧ Gen.Backlog.sbWriteErrorReturns = 1 := by decide

theorem ins_perm (f : Frame) : ∀ l : List Frame, (ins f l).Perm (f :: l)
  | [] => List.Perm.refl _
  | g :: gs => by
    unfold ins
    split
    · exact List.Perm.refl _
    · exact ((ins_perm f gs).cons g).trans (List.Perm.swap f g gs)

theorem ins_sorted (f : Frame) : ∀ l : List Frame, l.Pairwise (fun x y => x.seq ≤ y.seq) →
    (ins f l).Pairwise (fun x y => x.seq ≤ y.seq)
  | [], _ => by simp [ins]
  | g :: gs, h => by
    unfold ins
    have hg := List.pairwise_cons.1 h
    split
    · rename_i hlt
      refine List.pairwise_cons.2 ⟨?_, h⟩
      intro y hy
      rcases List.mem_cons.1 hy with e | e
      · rw [e]; omega
      · have := hg.1 y e; omega
    · rename_i hge
      refine List.pairwise_cons.2 ⟨?_, ins_sorted f gs hg.2⟩
      intro y hy
      have : y ∈ f :: gs := (ins_perm f gs).subset hy
      rcases List.mem_cons.1 this with e | e
      · rw [e]; omega
      · exact hg.1 y e

/-- the drain loop over the array and over the list, in lockstep -/
theorem drain_bridge : ∀ (l : List Frame) (h : Heap) (fuel : Nat) (closed : Bool) (next : Nat) (buf out : Bytes),
    Reach h → h.toList.Perm l → l.Pairwise (fun x y => x.seq ≤ y.seq) →
    (∀ x ∈ l, ∀ y ∈ l, x.seq = y.seq → x = y) → l.length < fuel →
    (drainH fuel closed next buf out h).2 = (drain closed next buf out l).2 ∧
    Rel (drainH fuel closed next buf out h).1 (drain closed next buf out l).1 ∧
    Reach (drainH fuel closed next buf out h).1.heap := by
  intro l
  induction l with
  | nil =>
    intro h fuel closed next buf out r hp _ _ hf
    have hsz : h.size = 0 := by
      have := hp.length_eq; simpa using this
    cases fuel with
    | zero => omega
    | succ k =>
      have hz : ¬ 0 < h.size := by omega
      simp only [drainH, dif_neg hz, drain]
      refine ⟨?_, ?_, ?_⟩
      · first | trivial | rfl
      · exact ⟨rfl, rfl, rfl, rfl, hp⟩
      · exact r
  | cons g gs ih =>
    intro h fuel closed next buf out r hp hs hu hf
    have hlen : h.size = (g :: gs).length := by
      have := hp.length_eq; simpa using this
    have hz : 0 < h.size := by rw [hlen]; simp
    have hsg := List.pairwise_cons.1 hs
    obtain ⟨e1, e2, e3⟩ := c02_heap_bridge_partial r hz g gs hp hsg.1 hu
    cases fuel with
    | zero => simp at hf
    | succ k =>
      have hcond : Gen.Reorder.sbLoop (h.size : Nat) (h[0].seq) next =
          Gen.Reorder.sbLoop ((g :: gs).length : Nat) g.seq next := by rw [e3]; rw [hlen]
      simp only [drainH, dif_pos hz, drain]
      rw [hcond]
      by_cases hc : Gen.Reorder.sbLoop ((g :: gs).length : Nat) g.seq next = true
      · rw [if_pos hc, if_pos hc, e1]
        by_cases hcl : g.closing = true
        · rw [if_pos hcl, if_pos hcl]
          exact ⟨rfl, ⟨rfl, rfl, rfl, rfl, e2⟩, Reach.pop hz r⟩
        · rw [if_neg hcl, if_neg hcl]
          apply ih (heapPop h hz).2 k closed ((next + 1) % W) (pipeAppend closed buf g.payload) out
            (Reach.pop hz r) e2 hsg.2
          · intro x hx y hy hxy
            exact hu x (List.mem_cons_of_mem _ hx) y (List.mem_cons_of_mem _ hy) hxy
          · simp at hf; omega
      · rw [if_neg hc, if_neg hc]
        exact ⟨rfl, ⟨rfl, rfl, rfl, rfl, hp⟩, r⟩

/-- **The bridge.** `streamBuffer.Write` over `container/heap` on the array = `RB.write` over the sorted list. -/
theorem c02_heap_bridge : c02_heap_bridge_full := by
  intro s t f r hrel hs hu
  obtain ⟨hn, hb, ho, hc, hp⟩ := hrel
  have hlen : s.heap.size = t.heap.length := by
    have := hp.length_eq; simpa using this
  unfold writeH RB.write
  rw [hlen, hn]
  by_cases hfast : Gen.Reorder.sbFast (t.heap.length : Nat) f.seq t.next = true
  · rw [if_pos hfast, if_pos hfast]
    by_cases hcl : f.closing = true
    · rw [if_pos hcl, if_pos hcl]
      exact ⟨rfl, ⟨hn, hb, ho, hc, hp⟩, r⟩
    · rw [if_neg hcl, if_neg hcl]
      refine ⟨rfl, ⟨?_, ?_, ho, hc, hp⟩, r⟩
      · simp only [hn]
      · simp only [hb, hc]
  · rw [if_neg hfast, if_neg hfast]
    by_cases hst : Gen.Reorder.sbStale f.seq t.next = true
    · rw [if_pos hst, if_pos hst]
      exact ⟨rfl, ⟨hn, hb, ho, hc, hp⟩, r⟩
    · rw [if_neg hst, if_neg hst]
      have hpp : (heapPush s.heap f).toList.Perm (ins f t.heap) :=
        (c02_heap_push_perm s.heap f).trans ((hp.cons f).trans (ins_perm f t.heap).symm)
      have hu' : ∀ x ∈ ins f t.heap, ∀ y ∈ ins f t.heap, x.seq = y.seq → x = y := by
        intro x hx y hy hxy
        exact hu x ((ins_perm f t.heap).subset hx) y ((ins_perm f t.heap).subset hy) hxy
      have hfuel : (ins f t.heap).length < (heapPush s.heap f).size + 1 := by
        have := hpp.length_eq
        simp at this
        omega
      simp only
      rw [hb, ho, hc]
      exact drain_bridge (ins f t.heap) (heapPush s.heap f) _ t.closed t.next t.buf t.out
        (Reach.push f r) hpp (ins_sorted f t.heap hs) hu' hfuel

/-- non-vacuity: frames 2, 1 parked (next = 0), frame 0 arrives: both sides drain all three -/
example :
    let s0 : SBH := (writeH (writeH (initH 0) ⟨2, false, [3]⟩).1 ⟨1, false, [2]⟩).1
    let t0 : SB := (RB.write (RB.write (RB.init 0) ⟨2, false, [3]⟩).1 ⟨1, false, [2]⟩).1
    (writeH s0 ⟨0, false, [1]⟩).1.buf = [1, 2, 3] ∧ (RB.write t0 ⟨0, false, [1]⟩).1.buf = [1, 2, 3] ∧
    (writeH s0 ⟨0, false, [1]⟩).1.heap.size = 0 := by decide

end C02Heap

#print axioms C02Heap.c02_heap_bridge
