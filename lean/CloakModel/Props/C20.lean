import CloakModel.Model.ClientConfig
import CloakModel.Lemmas.Ssv

/-! # C20 — Client configuration is honoured exactly as documented, in both input syntaxes

* `Spec.processDoc` — the documented meaning and default of every client option, transcribed from
  `README.md` (section "Client" of "Configuration") and `example_config/ckclient.json`; it mentions no `Gen` term.
* `gen_structure` — order of the mandatory-field checks, which plain fields are copied where, that the
  three switches lower-case their tag, that nothing assigns `remote.KeepAlive` before the KeepAlive
  statement, what `cmd/ck-client` hands to `net.Dialer`.
* `c20_doc` — for every raw configuration (any `strings.ToLower`), the model of `ProcessRawConfig` built
  from the *extracted* conditions, right-hand sides, tables and literals equals `Spec.processDoc`.
  **Fails on the pinned tree** (`remote.KeepAlive = remote.KeepAlive * time.Second`), see `pinned_keepalive`.
* `c20_reject` — each missing mandatory field, a public key that is not 32 bytes, an unknown method ⇒ error.
  (`processRaw` is total and has no panic outcome.)
* `c20_ssv_partial` — the option-string front end `ssvToJson` on the escaping alphabet plugin hosts use;
  `c20_ssv_full` (values may contain `;`, escaped `\;`) is **false**: `c20_ssv_witness` (open finding).
* `c20_load_total` — the parse step: every JSON document (`null`, non-objects, `{}`) ends in an error or a
  configuration, never in a nil configuration (**fails on the tree that unmarshals into `&raw`**: `pinned_null_crashes`).
* `c20_no_crash_full` / `_partial` / `_witness` — first connection with an accepted configuration: a small-order
  `PublicKey` is accepted and panics (open finding).
* `c20_random_full` / `_partial` / `_witness` — `ServerName = random` is randomised by the direct transport only (open finding). -/
set_option linter.unusedSimpArgs false
set_option linter.unusedVariables false

namespace C20
open CC GoInt

/-! ## 1. The documentation, as a function -/

namespace Spec

/-- README: "Options are `plain`, `aes-256-gcm` (synonymous to `aes-gcm`), `aes-128-gcm`, and
`chacha20-poly1305`"; the numbers are the wire values `mux.EncryptionMethod*` (C04/C06). -/
def methods : List (String × Nat) :=
  [("plain", 0), ("aes-256-gcm", 1), ("aes-gcm", 1), ("aes-128-gcm", 3), ("chacha20-poly1305", 2)]

def second : Int := 1000000000

/-- README: `BrowserSig` — "Currently, `chrome`, `firefox` and `safari` are supported"; anything else, or nothing, is chrome -/
def browser (name : String) : String :=
  if name = "firefox" then "firefox" else if name = "safari" then "safari" else "chrome"

def processDoc (lower : String → String) (raw : RawConfig) : Option Cfg :=
  -- ServerName, ProxyMethod, UID, PublicKey (a curve25519 key: 32 bytes), the two addresses: mandatory
  if raw.serverName = "" ∨ raw.proxyMethod = "" ∨ raw.uid = [] ∨ raw.publicKey.length ≠ 32 ∨
     raw.remoteHost = "" ∨ raw.remotePort = "" ∨ raw.localHost = "" ∨ raw.localPort = "" then none
  else match caseOf methods (lower raw.encryptionMethod) with
  | none => none
  | some enc => some {
      localAddr := joinHostPort raw.localHost raw.localPort
      -- "`StreamTimeout` is the number of seconds ..."; 300 when unset
      timeout := if raw.streamTimeout = 0 then 300 * second else raw.streamTimeout * second
      -- "`AlternativeNames` is an array used alongside `ServerName`"; empty names are ignored
      mockDomainList := raw.alternativeNames.filter (fun n => n ≠ "") ++ [raw.serverName]
      -- "`NumConn` is the amount of underlying TCP connections ... Setting it to 0 will disable connection
      -- multiplexing and each TCP connection will spawn a separate short-lived session"
      singleplex := decide (raw.numConn ≤ 0)
      numConn := if raw.numConn ≤ 0 then 1 else raw.numConn
      -- "`KeepAlive` is the number of seconds ... Zero or negative value disables it" (net.Dialer: negative = disabled)
      keepAlive := if raw.keepAlive > 0 then raw.keepAlive * second else -1
      remoteAddr := joinHostPort raw.remoteHost raw.remotePort
      -- "`Transport` can be either `direct` or `CDN`"; `CDNOriginHost` "If unset, it will default to the remote
      -- hostname"; `CDNWsUrlPath` "If unset, it will default to \"/\""
      transport :=
        if lower raw.transport = "cdn" then
          .cdn ("ws://" ++ joinHostPort (if raw.cdnOriginHost = "" then raw.remoteHost else raw.cdnOriginHost) raw.remotePort
                ++ (if raw.cdnWsUrlPath = "" then "/" else raw.cdnWsUrlPath))
        else .direct (browser (lower raw.browserSig))
      uid := raw.uid
      proxyMethod := raw.proxyMethod
      encryptionMethod := enc
      unordered := raw.udp
      serverPubKey := raw.publicKey
      mockDomain := raw.serverName }

end Spec

/-! ## 2. Facts regenerated from the source -/

theorem gen_structure :
    Gen.ClientCfg.earlyReturns =
      [("raw.ServerName == \"\"", "empty:ServerName"), ("raw.ProxyMethod == \"\"", "empty:ServerName"),
       ("len(raw.UID) == 0", "empty:UID"), ("len(raw.PublicKey) == 0", "empty:PublicKey"),
       ("!ok", "error:failed to unmarshal Public key"), ("switch strings.ToLower(raw.EncryptionMethod)", "default"),
       ("raw.RemoteHost == \"\"", "empty:RemoteHost"), ("raw.RemotePort == \"\"", "empty:RemotePort"),
       ("raw.LocalHost == \"\"", "empty:LocalHost"), ("raw.LocalPort == \"\"", "empty:LocalPort")] ∧
    Gen.ClientCfg.assigns =
      [("auth.UID", "raw.UID"), ("auth.Unordered", "raw.UDP"), ("auth.MockDomain", "raw.ServerName"),
       ("raw.AlternativeNames", "filteredAlternativeNames"), ("local.MockDomainList", "raw.AlternativeNames"),
       ("local.MockDomainList", "append(local.MockDomainList, auth.MockDomain)"), ("auth.ProxyMethod", "raw.ProxyMethod"),
       ("auth.ServerPubKey", "pub"), ("remote.RemoteAddr", "net.JoinHostPort(raw.RemoteHost, raw.RemotePort)"),
       ("local.LocalAddr", "net.JoinHostPort(raw.LocalHost, raw.LocalPort)")] ∧
    Gen.ClientCfg.methodLowered = true ∧ Gen.ClientCfg.methodDefaultIsError = true ∧
    Gen.ClientCfg.transportLowered = true ∧ Gen.ClientCfg.browserLowered = true ∧
    Gen.ClientCfg.cdnHostPort = ["raw.CDNOriginHost == \"\"", "raw.RemoteHost", "raw.RemotePort", "raw.CDNOriginHost", "raw.RemotePort"] ∧
    Gen.ClientCfg.cdnPathDefaultWhenEmpty = true ∧
    Gen.ClientCfg.keepAliveEarlierAssignments = 0 ∧
    Gen.ClientCfg.processResultNames = ["localConfig", "remoteConfig", "authInfo"] ∧
    Gen.ClientCfg.dialerKeepAliveArg = "remoteConfig.KeepAlive" ∧
    Gen.ClientCfg.ssvUnescapeChained = true ∧ Gen.ClientCfg.ssvShape = true ∧
    Gen.ClientCfg.parseIsSsvCond = "strings.Contains(conf, \";\") && strings.Contains(conf, \"=\")" := by
  decide

/-- closes `extracted Boolean = true ↔ condition` and `extracted Int term = value` goals -/
macro "gen_cmp" : tactic =>
  `(tactic| ((try simp only [Bool.and_eq_true, Bool.or_eq_true, Bool.not_eq_true', decide_eq_true_eq,
      decide_eq_false_iff_not]) <;> (try omega)))

/-- the extracted numeric pieces mean what the documentation says -/
theorem gen_numeric (ka st nc : Int) :
    (Gen.ClientCfg.keepAliveOffCond ka = true ↔ ka ≤ 0) ∧
    Gen.ClientCfg.keepAliveOffVal ka 0 = -1 ∧
    (Gen.ClientCfg.timeoutDefaultCond st = true ↔ st = 0) ∧
    Gen.ClientCfg.timeoutDefaultVal st = 300 * 1000000000 ∧
    Gen.ClientCfg.timeoutVal st = st * 1000000000 ∧
    (Gen.ClientCfg.singleplexCond nc = true ↔ nc ≤ 0) ∧
    Gen.ClientCfg.numConnThen nc = 1 ∧ Gen.ClientCfg.singleplexThen = true ∧
    Gen.ClientCfg.numConnElse nc = nc ∧ Gen.ClientCfg.singleplexElse = false := by
  unfold Gen.ClientCfg.keepAliveOffCond Gen.ClientCfg.keepAliveOffVal
    Gen.ClientCfg.timeoutDefaultCond Gen.ClientCfg.timeoutDefaultVal Gen.ClientCfg.timeoutVal
    Gen.ClientCfg.singleplexCond Gen.ClientCfg.numConnThen Gen.ClientCfg.singleplexThen
    Gen.ClientCfg.numConnElse Gen.ClientCfg.singleplexElse
  refine ⟨?_, ?_, ?_, ?_, ?_, ?_, ?_, ?_, ?_, ?_⟩ <;> gen_cmp

/-- UDP mode rejects an invalid local address like TCP mode does (before /repo's fix the error of `net.ResolveUDPAddr` was
dropped and ck-client listened on a random port of every interface: `LocalPort = 80800` with `UDP = true`) -/
theorem gen_udp_local_addr : Gen.ClientCfg.udpLocalAddrErrorChecked = true := by decide

/-- **a positive `KeepAlive` of N seconds becomes N seconds**: the right-hand side of the assignment, with the
destination field still at its zero value, is `N · 10⁹` ns.  (Fails on the pinned tree, whose right-hand
side multiplies the destination field.) -/
theorem gen_keepalive (ka : Int) : Gen.ClientCfg.keepAliveOnVal ka 0 = ka * 1000000000 := by
  unfold Gen.ClientCfg.keepAliveOnVal; gen_cmp

theorem gen_pubkey (n : Nat) : Gen.ClientCfg.pubKeyRejected (n : Int) = true ↔ n ≠ 32 := by
  unfold Gen.ClientCfg.pubKeyRejected; gen_cmp

theorem gen_altname (n : Nat) : Gen.ClientCfg.altNameKept (n : Int) = true ↔ 0 < n := by
  unfold Gen.ClientCfg.altNameKept; gen_cmp

/-- the switch tables and string literals are the documented ones -/
theorem gen_tables :
    (∀ s, caseOf Gen.ClientCfg.methodCases s = caseOf Spec.methods s) ∧
    Gen.ClientCfg.transportCases = [("cdn", "cdn"), ("direct", "direct")] ∧ Gen.ClientCfg.transportDefault = "direct" ∧
    Gen.ClientCfg.browserCases = [("firefox", "firefox"), ("safari", "safari"), ("chrome", "chrome")] ∧
    Gen.ClientCfg.browserDefault = "chrome" ∧ Gen.ClientCfg.cdnPathDefault = "/" ∧
    (∀ h p, Gen.ClientCfg.wsUrl h p = "ws://" ++ h ++ p) := by
  refine ⟨?_, by decide, by decide, by decide, by decide, by decide, ?_⟩
  · intro s
    -- both are first-match lookups over five labels; compare label by label
    simp only [Gen.ClientCfg.methodCases, Spec.methods, caseOf]
    by_cases h1 : s = "plain" <;> by_cases h2 : s = "aes-gcm" <;> by_cases h3 : s = "aes-256-gcm" <;>
      by_cases h4 : s = "aes-128-gcm" <;> by_cases h5 : s = "chacha20-poly1305" <;> simp_all
  · intro h p; simp [Gen.ClientCfg.wsUrl, String.append_assoc]

/-! ## 3. The processed configuration is the documented one -/

/-- the two durations are representable as a `time.Duration` (|N| below ~292 years): otherwise Go's
multiplication wraps, which the model mirrors and the documentation does not discuss -/
def Fits (raw : RawConfig) : Prop :=
  In64 (raw.keepAlive * 1000000000) ∧ In64 (raw.streamTimeout * 1000000000)

/-- forget which error was reported -/
def accepted : Except Err Cfg → Option Cfg
  | .ok c => some c
  | .error _ => none

theorem keepAlive_doc (raw : RawConfig) (hf : Fits raw) :
    keepAliveOf raw = if raw.keepAlive > 0 then raw.keepAlive * Spec.second else -1 := by
  obtain ⟨c, v, _⟩ := gen_numeric raw.keepAlive 0 0
  unfold keepAliveOf keepAliveWith
  by_cases h : raw.keepAlive ≤ 0
  · rw [if_pos (c.mpr h), v, if_neg (by omega)]; exact wrap64_id _ (by unfold In64; omega)
  · have hc : ¬ Gen.ClientCfg.keepAliveOffCond raw.keepAlive = true := fun e => h (c.mp e)
    rw [if_neg hc, gen_keepalive, if_pos (by omega)]; exact wrap64_id _ hf.1

theorem timeout_doc (raw : RawConfig) (hf : Fits raw) :
    timeoutOf raw = if raw.streamTimeout = 0 then 300 * Spec.second else raw.streamTimeout * Spec.second := by
  obtain ⟨_, _, c, d, v, _⟩ := gen_numeric 0 raw.streamTimeout 0
  unfold timeoutOf
  by_cases h : raw.streamTimeout = 0
  · rw [if_pos (c.mpr h), d, if_pos h]; unfold Spec.second; exact wrap64_id _ (by unfold In64; omega)
  · have hc : ¬ Gen.ClientCfg.timeoutDefaultCond raw.streamTimeout = true := fun e => h (c.mp e)
    rw [if_neg hc, v, if_neg h]; exact wrap64_id _ hf.2

theorem numConn_doc (raw : RawConfig) :
    numConnOf raw = (if raw.numConn ≤ 0 then 1 else raw.numConn, decide (raw.numConn ≤ 0)) := by
  obtain ⟨_, _, _, _, _, c, t1, t2, e1, e2⟩ := gen_numeric 0 0 raw.numConn
  unfold numConnOf
  by_cases h : raw.numConn ≤ 0
  · rw [if_pos (c.mpr h), t1, t2]; simp [h]
  · have hc : ¬ Gen.ClientCfg.singleplexCond raw.numConn = true := fun e => h (c.mp e)
    rw [if_neg hc, e1, e2]; simp [h]

theorem altKept_iff (n : String) : Gen.ClientCfg.altNameKept ((n.utf8ByteSize : Nat) : Int) = true ↔ n ≠ "" := by
  rw [gen_altname, Nat.pos_iff_ne_zero]
  exact not_congr String.utf8ByteSize_eq_zero_iff

theorem mockList_doc (raw : RawConfig) :
    mockList raw = raw.alternativeNames.filter (fun n => n ≠ "") ++ [raw.serverName] := by
  unfold mockList
  congr 1
  apply List.filter_congr
  intro n _
  rw [Bool.eq_iff_iff]
  simpa using altKept_iff n

theorem transport_doc (lower : String → String) (raw : RawConfig) :
    transportOf lower raw =
      if lower raw.transport = "cdn" then
        .cdn ("ws://" ++ joinHostPort (if raw.cdnOriginHost = "" then raw.remoteHost else raw.cdnOriginHost) raw.remotePort
              ++ (if raw.cdnWsUrlPath = "" then "/" else raw.cdnWsUrlPath))
      else .direct (Spec.browser (lower raw.browserSig)) := by
  obtain ⟨_, tc, td, bc, bd, pd, ws⟩ := gen_tables
  unfold transportOf
  rw [tc, td, bc, bd, pd]
  by_cases h : lower raw.transport = "cdn"
  · simp only [h, caseOf, if_true, ws]
    by_cases ho : raw.cdnOriginHost = "" <;> simp [ho]
  · by_cases h2 : lower raw.transport = "direct"
    · simp only [h2, caseOf, if_true]
      simp only [Spec.browser]
      by_cases b1 : lower raw.browserSig = "firefox"
      · simp [b1, show ¬ ("direct" = "cdn") by decide]
      · by_cases b2 : lower raw.browserSig = "safari"
        · simp [b1, b2, show ¬ ("direct" = "cdn") by decide]
        · by_cases b3 : lower raw.browserSig = "chrome" <;> simp [b1, b2, b3, show ¬ ("direct" = "cdn") by decide]
    · simp only [h, h2, caseOf, if_false]
      simp only [Spec.browser]
      by_cases b1 : lower raw.browserSig = "firefox"
      · simp [b1, show ¬ ("direct" = "cdn") by decide]
      · by_cases b2 : lower raw.browserSig = "safari"
        · simp [b1, b2, show ¬ ("direct" = "cdn") by decide]
        · by_cases b3 : lower raw.browserSig = "chrome" <;> simp [b1, b2, b3, show ¬ ("direct" = "cdn") by decide]

/-- **C20 (documented behaviour).** For every raw configuration whose two durations are representable, and
whatever `strings.ToLower` does, `ProcessRawConfig` (the model assembled from the extracted conditions,
right-hand sides, switch tables and literals) accepts exactly the configurations the documentation calls
complete, and yields exactly the documented processed values: `NumConn ≤ 0` ⇒ one connection per stream;
`KeepAlive = N > 0` ⇒ a period of N seconds, otherwise disabled; `StreamTimeout` seconds with default 300;
`Transport`/`BrowserSig` case-insensitively with defaults direct/chrome; CDN host and path defaults;
empty alternative names dropped and `ServerName` appended; the five method names. -/
theorem c20_doc (lower : String → String) (raw : RawConfig) (hf : Fits raw) :
    accepted (processRaw lower raw) = Spec.processDoc lower raw := by
  obtain ⟨mt, _⟩ := gen_tables
  unfold processRaw processRawK Spec.processDoc
  simp only [gen_pubkey, mt, List.length_eq_zero_iff]
  by_cases h1 : raw.serverName = ""
  · simp [h1, accepted]
  by_cases h2 : raw.proxyMethod = ""
  · simp [h1, h2, accepted]
  by_cases h3 : raw.uid = []
  · simp [h1, h2, h3, accepted]
  by_cases h4 : raw.publicKey.length = 32
  · have h4' : ¬ raw.publicKey = [] := by intro e; rw [e] at h4; simp at h4
    cases hm : caseOf Spec.methods (lower raw.encryptionMethod) with
    | none => simp [h1, h2, h3, h4, h4', accepted]
    | some enc =>
      by_cases h5 : raw.remoteHost = ""
      · simp [h1, h2, h3, h4, h4', h5, accepted]
      by_cases h6 : raw.remotePort = ""
      · simp [h1, h2, h3, h4, h4', h5, h6, accepted]
      by_cases h7 : raw.localHost = ""
      · simp [h1, h2, h3, h4, h4', h5, h6, h7, accepted]
      by_cases h8 : raw.localPort = ""
      · simp [h1, h2, h3, h4, h4', h5, h6, h7, h8, accepted]
      simp only [h1, h2, h3, h4, h4', h5, h6, h7, h8, if_false, or_self, not_true_eq_false, accepted,
        keepAlive_doc raw hf, timeout_doc raw hf, numConn_doc raw, mockList_doc raw, transport_doc lower raw, ne_eq]
  · by_cases h0 : raw.publicKey = []
    · simp [h1, h2, h3, h4, h0, accepted]
    · simp [h1, h2, h3, h4, h0, accepted]

/-- a `lower` good enough for the example below -/
def demoLower (s : String) : String :=
  if s = "AES-GCM" then "aes-gcm" else if s = "CDN" then "cdn" else if s = "Safari" then "safari" else s

/-- non-vacuity: a complete configuration in mixed case with a keep-alive, a CDN transport, an IPv6 host and an
empty alternative name satisfies `Fits` and gets the documented values -/
example :
    let raw : RawConfig := ⟨"bing.com", "ss", "AES-GCM", [1], List.replicate 32 7, 0, "127.0.0.1", "1984", "::1", "443",
      ["a.com", "", "b.com"], true, "Safari", "CDN", "", "", 0, 5⟩
    Fits raw ∧ Spec.processDoc demoLower raw = some
      { localAddr := "127.0.0.1:1984", timeout := 300000000000, mockDomainList := ["a.com", "b.com", "bing.com"],
        singleplex := true, numConn := 1, keepAlive := 5000000000, remoteAddr := "[::1]:443",
        transport := .cdn "ws://[::1]:443/", uid := [1], proxyMethod := "ss", encryptionMethod := 1, unordered := true,
        serverPubKey := List.replicate 32 7, mockDomain := "bing.com" } := by
  refine ⟨by simp [Fits, In64], ?_⟩
  simp [Spec.processDoc, demoLower, caseOf, Spec.methods, joinHostPort, Spec.second]

/-! ## 4. Invalid and incomplete configurations are rejected with an error -/

def isError : Except Err Cfg → Prop
  | .error _ => True
  | .ok _ => False

/-- **C20 (rejection).** Each missing mandatory field, a public key whose length is not 32 bytes, and an
encryption method that is none of the five names make `ProcessRawConfig` return an error.  The model is a
total function whose only outcomes are a configuration or an error: there is no panic outcome to reach. -/
theorem c20_reject (lower : String → String) (raw : RawConfig)
    (h : raw.serverName = "" ∨ raw.proxyMethod = "" ∨ raw.uid = [] ∨ raw.publicKey.length ≠ 32 ∨
         raw.remoteHost = "" ∨ raw.remotePort = "" ∨ raw.localHost = "" ∨ raw.localPort = "" ∨
         caseOf Spec.methods (lower raw.encryptionMethod) = none) :
    isError (processRaw lower raw) := by
  obtain ⟨mt, _⟩ := gen_tables
  unfold processRaw processRawK
  simp only [gen_pubkey, mt, List.length_eq_zero_iff]
  by_cases h1 : raw.serverName = ""
  · simp [h1, isError]
  by_cases h2 : raw.proxyMethod = ""
  · simp [h1, h2, isError]
  by_cases h3 : raw.uid = []
  · simp [h1, h2, h3, isError]
  by_cases h4 : raw.publicKey = []
  · simp [h1, h2, h3, h4, isError]
  by_cases h5 : raw.publicKey.length = 32
  · cases hm : caseOf Spec.methods (lower raw.encryptionMethod) with
    | none => simp [h1, h2, h3, h4, h5, isError]
    | some enc =>
      by_cases h6 : raw.remoteHost = ""
      · simp [h1, h2, h3, h4, h5, h6, isError]
      by_cases h7 : raw.remotePort = ""
      · simp [h1, h2, h3, h4, h5, h6, h7, isError]
      by_cases h8 : raw.localHost = ""
      · simp [h1, h2, h3, h4, h5, h6, h7, h8, isError]
      by_cases h9 : raw.localPort = ""
      · simp [h1, h2, h3, h4, h5, h6, h7, h8, h9, isError]
      simp [h1, h2, h3, h5, h6, h7, h8, h9, hm] at h
  · simp [h1, h2, h3, h4, h5, isError]

/-- the five documented names (in any case `lower` folds) are the only accepted methods -/
theorem methods_exact (s : String) :
    caseOf Spec.methods s ≠ none ↔ s = "plain" ∨ s = "aes-256-gcm" ∨ s = "aes-gcm" ∨ s = "aes-128-gcm" ∨ s = "chacha20-poly1305" := by
  simp only [Spec.methods, caseOf]
  by_cases h1 : s = "plain" <;> by_cases h2 : s = "aes-gcm" <;> by_cases h3 : s = "aes-256-gcm" <;>
    by_cases h4 : s = "aes-128-gcm" <;> by_cases h5 : s = "chacha20-poly1305" <;> simp_all

/-! ### the parse step: every JSON document ends in a configuration or an error -/

/-- `ParseConfig` either decodes into the allocated struct or tests the pointer afterwards (**fails on the tree where
`json.Unmarshal(content, &raw)` lets the document `null` produce `(nil, nil)`**) -/
theorem gen_parse : Gen.ClientCfg.parseNullOutcome = "empty-config" ∨ Gen.ClientCfg.parseNullOutcome = "error" := by decide

/-- `cmd/ck-client` uses the result of `ParseConfig` without a nil test: a nil configuration with a nil error is a crash -/
theorem gen_main_derefs : Gen.ClientCfg.mainUsesConfigWithoutNilTest = true := by decide

/-- **C20 (rejection, whole front end).** Whatever the top-level JSON value of the configuration text is, loading it
ends in a parse error, a configuration error or a processed configuration — never in the dereference of a nil
configuration.  In particular the documents `null` and `{}` and every non-object are *rejected with an error*. -/
theorem c20_load_total (lower : String → String) (d : Doc) :
    loadDoc lower d ≠ .nilDereference ∧
    (loadDoc lower .null = .configError (.empty "ServerName") ∨ loadDoc lower .null = .parseError) ∧
    loadDoc lower (.object emptyRaw) = .configError (.empty "ServerName") ∧
    loadDoc lower .other = .parseError := by
  have hn : loadDoc lower .null = .configError (.empty "ServerName") ∨ loadDoc lower .null = .parseError := by
    rcases gen_parse with h | h
    · left; simp [loadDoc, loadDocWith, parseDoc, h, processRaw, processRawK, emptyRaw]
    · right; simp [loadDoc, loadDocWith, parseDoc, h]
  refine ⟨?_, hn, ?_, ?_⟩
  · cases d with
    | null => rcases hn with h | h <;> simp [h]
    | object raw => simp only [loadDoc, loadDocWith, parseDoc]; split <;> simp
    | other => simp [loadDoc, loadDocWith, parseDoc]
  · simp [loadDoc, loadDocWith, parseDoc, processRaw, processRawK, emptyRaw]
  · simp [loadDoc, loadDocWith, parseDoc]

/-- the pinned `json.Unmarshal(content, &raw)`: the document `null` is not rejected, it kills the client
(the harness replays it: signature `C20 invalid-config-accepted null-document`) -/
theorem pinned_null_crashes (lower : String → String) : loadDocWith "nil-config" lower .null = .nilDereference := by
  simp [loadDocWith, parseDoc]

/-! ## 5. The pinned tree: `KeepAlive = 5` is ignored (explicit pinned right-hand side) -/

/-- the right-hand side the pinned tree assigns: `remote.KeepAlive * time.Second` -/
def pinnedKeepAliveOnVal (_rawKeepAlive remoteKeepAlive : Int) : Int := remoteKeepAlive * 1000000000

/-- with the destination field at its zero value a 5-second keep-alive becomes 0 (Go's default
keep-alive), not 5 s: the documented statement is false for the pinned right-hand side -/
theorem pinned_keepalive : pinnedKeepAliveOnVal 5 0 = 0 ∧ pinnedKeepAliveOnVal 5 0 ≠ 5 * Spec.second := by decide

/-- the statement of `c20_doc` is **false** for the pinned KeepAlive statement: a complete configuration with
`KeepAlive = 5` (the harness replays it: signature `C20 keepalive-positive-ignored`) -/
theorem pinned_doc_false :
    ¬ ∀ (lower : String → String) (raw : RawConfig), Fits raw →
      accepted (processRawK (keepAliveWith pinnedKeepAliveOnVal) lower raw) = Spec.processDoc lower raw := by
  intro h
  have h5 := h demoLower ⟨"bing.com", "ss", "plain", [1], List.replicate 32 7, 4, "127.0.0.1", "1984", "1.2.3.4", "443",
      [], false, "", "", "", "", 0, 5⟩ (by simp [Fits, In64])
  have hk : ∀ c d : Cfg, some c = some d → c.keepAlive = d.keepAlive := by
    intro c d e; cases e; rfl
  obtain ⟨mt, _⟩ := gen_tables
  obtain ⟨c, _⟩ := gen_numeric 5 0 0
  have hc : Gen.ClientCfg.keepAliveOffCond 5 = false := by
    cases hb : Gen.ClientCfg.keepAliveOffCond 5
    · rfl
    · have := c.mp hb; omega
  simp only [processRawK, Spec.processDoc, gen_pubkey, mt, demoLower, caseOf, Spec.methods, accepted,
    keepAliveWith, hc, pinnedKeepAliveOnVal, wrap64, toS64, toU64, Spec.second] at h5
  simp at h5

/-! ## 6. The option-string syntax -/

/-- a logical option: key and value as they are meant (before any escaping) -/
structure Opt where
  key : Str
  value : Str

/-- what plugin hosts do to a value: every `=` becomes `\=` -/
def escEqs (v : Str) : Str := v.flatMap fun c => if c = '=' then ['\\', '='] else [c]

/-- the option string: `key=escaped value;` for every option -/
def renderSsv (opts : List Opt) : Str := opts.flatMap fun o => o.key ++ '=' :: escEqs o.value ++ [';']

/-- keys documented as numbers / booleans are written without quotes -/
def unquotedKeys : List String := ["NumConn", "StreamTimeout", "KeepAlive", "UDP"]

def jsonValue (key value : Str) : Str :=
  if isPrefix "AlternativeNames".toList key then '[' :: intercalateStr [','] ((splitOn ',' value).map quote) ++ [']']
  else if unquotedKeys.contains (String.ofList key) then value
  else quote value

def jsonMember (o : Opt) : Str := quote o.key ++ ':' :: jsonValue o.key o.value

/-- the same configuration as a JSON object text, members in the same order -/
def renderJson (opts : List Opt) : Str := '{' :: intercalateStr [','] (opts.map jsonMember) ++ ['}']

/-- the restricted alphabet: keys without `=`, `;`, `\`; values without `;`, `\` (they may contain `=`) -/
def Opt.Plain (o : Opt) : Prop :=
  '=' ∉ o.key ∧ ';' ∉ o.key ∧ '\\' ∉ o.key ∧ ';' ∉ o.value ∧ '\\' ∉ o.value

theorem gen_ssv : Gen.ClientCfg.ssvUnquoted = unquotedKeys ∧
    Gen.ClientCfg.ssvUnescape = [("\\\\", "\\"), ("\\=", "="), ("\\;", ";")] := by decide

theorem unescape_eq (s : Str) :
    unescape s = rep2 '\\' ';' [';'] (rep2 '\\' '=' ['='] (rep2 '\\' '\\' ['\\'] s)) := by
  unfold unescape
  rw [gen_ssv.2]
  simp only [List.foldl]
  rw [show ("\\\\" : String).toList = ['\\', '\\'] by decide, show ("\\" : String).toList = ['\\'] by decide,
    show ("\\=" : String).toList = ['\\', '='] by decide, show ("=" : String).toList = ['='] by decide,
    show ("\\;" : String).toList = ['\\', ';'] by decide, show (";" : String).toList = [';'] by decide]
  rw [replaceAll_two, replaceAll_two, replaceAll_two]

def toks (o : Opt) : List Tok :=
  o.key.map Tok.plain ++ [Tok.plain '='] ++ o.value.map (fun c => if c = '=' then Tok.escEq else Tok.plain c) ++ [Tok.plain ';']

theorem flatMap_render_plain (s : Str) : (s.map Tok.plain).flatMap Tok.render = s := by
  induction s with
  | nil => rfl
  | cons c r ih => simp [Tok.render, ih]

theorem flatMap_plainOf_plain (s : Str) : (s.map Tok.plain).flatMap Tok.plainOf = s := by
  induction s with
  | nil => rfl
  | cons c r ih => simp [Tok.plainOf, ih]

theorem render_value (v : Str) :
    (v.map (fun c => if c = '=' then Tok.escEq else Tok.plain c)).flatMap Tok.render = escEqs v := by
  induction v with
  | nil => rfl
  | cons c r ih =>
    simp only [List.map_cons, List.flatMap_cons, ih, escEqs]
    by_cases h : c = '=' <;> simp [h, Tok.render]

theorem plainOf_value (v : Str) :
    (v.map (fun c => if c = '=' then Tok.escEq else Tok.plain c)).flatMap Tok.plainOf = v := by
  induction v with
  | nil => rfl
  | cons c r ih =>
    simp only [List.map_cons, List.flatMap_cons, ih]
    by_cases h : c = '=' <;> simp [h, Tok.plainOf]

theorem render_toks (o : Opt) : (toks o).flatMap Tok.render = o.key ++ '=' :: escEqs o.value ++ [';'] := by
  simp [toks, List.flatMap_append, flatMap_render_plain, render_value, Tok.render]

theorem plainOf_toks (o : Opt) : (toks o).flatMap Tok.plainOf = o.key ++ '=' :: o.value ++ [';'] := by
  simp [toks, List.flatMap_append, flatMap_plainOf_plain, plainOf_value, Tok.plainOf]

theorem toks_ok (o : Opt) (h : o.Plain) : ∀ t ∈ toks o, t.ok := by
  obtain ⟨_, _, hk, _, hv⟩ := h
  intro t ht
  simp only [toks, List.mem_append, List.mem_map, List.mem_singleton] at ht
  rcases ht with ((⟨c, hc, rfl⟩ | rfl) | ⟨c, hc, rfl⟩) | rfl
  · intro e; exact hk (e ▸ hc)
  · show '=' ≠ '\\'; decide
  · by_cases e : c = '='
    · simp [e, Tok.ok]
    · simp only [e, if_false]; intro e2; exact hv (e2 ▸ hc)
  · show ';' ≠ '\\'; decide

/-- after the three passes the escaped rendering is the plain one -/
theorem unescape_render (opts : List Opt) (h : ∀ o ∈ opts, o.Plain) :
    unescape (renderSsv opts) = opts.flatMap fun o => o.key ++ '=' :: o.value ++ [';'] := by
  have e1 : renderSsv opts = (opts.flatMap toks).flatMap Tok.render := by
    simp only [renderSsv, List.flatMap_assoc, render_toks]
  have e2 : (opts.flatMap fun o => o.key ++ '=' :: o.value ++ [';']) = (opts.flatMap toks).flatMap Tok.plainOf := by
    simp only [List.flatMap_assoc, plainOf_toks]
  have hok : ∀ t ∈ opts.flatMap toks, t.ok := by
    intro t ht
    simp only [List.mem_flatMap] at ht
    obtain ⟨o, ho, hto⟩ := ht
    exact toks_ok o (h o ho) t hto
  rw [unescape_eq, e1, rep_bsbs _ hok, rep_bseq _ hok, rep2_no_first _ _ _ _ (plainOf_no_bs _ hok), e2]

theorem split_lines (opts : List Opt) (h : ∀ o ∈ opts, o.Plain) :
    splitOn ';' (opts.flatMap fun o => o.key ++ '=' :: o.value ++ [';']) =
      opts.map (fun o => o.key ++ '=' :: o.value) ++ [[]] := by
  induction opts with
  | nil => simp [splitOn]
  | cons o r ih =>
    obtain ⟨_, hk, _, hv, _⟩ := h o (by simp)
    have hr := ih (fun x hx => h x (List.mem_cons_of_mem _ hx))
    simp only [List.flatMap_cons, List.map_cons, List.cons_append]
    have : (o.key ++ '=' :: o.value ++ [';']) ++ (r.flatMap fun o => o.key ++ '=' :: o.value ++ [';']) =
        (o.key ++ '=' :: o.value) ++ ';' :: (r.flatMap fun o => o.key ++ '=' :: o.value ++ [';']) := by simp
    rw [this, splitOn_append_sep _ _ _ (by
      simp only [List.mem_append, List.mem_cons, not_or]
      exact ⟨hk, by decide, hv⟩), hr]

theorem members_lines (opts : List Opt) (h : ∀ o ∈ opts, o.Plain) :
    members (opts.map (fun o => o.key ++ '=' :: o.value) ++ [[]]) = opts.flatMap fun o => member o.key o.value := by
  induction opts with
  | nil => simp [members]
  | cons o r ih =>
    obtain ⟨hk, _⟩ := h o (by simp)
    have hr := ih (fun x hx => h x (List.mem_cons_of_mem _ hx))
    have hne : o.key ++ '=' :: o.value ≠ [] := by simp
    simp only [List.map_cons, List.cons_append, members, hne, if_false, splitFirst_append_sep _ _ _ hk, List.flatMap_cons]
    rw [← hr]

theorem splitOn_no_sep (sep : Char) (s : Str) (h : sep ∉ s) : splitOn sep s = [s] := by
  induction s with
  | nil => simp [splitOn]
  | cons c r ih =>
    simp only [List.mem_cons, not_or] at h
    have hc : ¬ c = sep := fun e => h.1 e.symm
    simp [splitOn, hc, ih h.2]

theorem member_eq (o : Opt) : member o.key o.value = jsonMember o ++ [','] := by
  unfold member jsonMember jsonValue
  rw [gen_ssv.1]
  by_cases h1 : isPrefix "AlternativeNames".toList o.key = true
  · simp only [h1, if_true]
    by_cases h2 : ',' ∈ o.value
    · have : o.value.contains ',' = true := by simpa using h2
      simp only [this, if_true]
      simp [List.append_assoc]
    · have : o.value.contains ',' = false := by simpa using h2
      simp only [this, splitOn_no_sep _ _ h2, List.map_cons, List.map_nil, intercalateStr]
      simp [List.append_assoc]
  · simp only [h1, if_false, Bool.false_eq_true]
    by_cases h3 : unquotedKeys.contains (String.ofList o.key) = true
    · simp only [h3, if_true]; simp [List.append_assoc]
    · simp only [h3, if_false]; simp [List.append_assoc]

theorem dropLast_members (l : List Str) (h : l ≠ []) :
    (l.flatMap fun m => m ++ [',']).dropLast = intercalateStr [','] l := by
  induction l with
  | nil => exact absurd rfl h
  | cons x r ih =>
    cases r with
    | nil => simp [intercalateStr]
    | cons y r' =>
      have hr := ih (by simp)
      simp only [List.flatMap_cons] at hr ⊢
      rw [intercalateStr]
      have hne : (y ++ [',']) ++ (r'.flatMap fun m => m ++ [',']) ≠ [] := by simp
      rw [List.dropLast_append_of_ne_nil hne, hr]
      try simp [List.append_assoc]

/-- **C20 (syntax equivalence, restricted alphabet).** For a non-empty list of options whose keys contain no
`=`, `;`, `\\` and whose values contain no `;`, `\\` (values may contain `=`, which plugin hosts escape as `\\=`,
as in base64 UIDs and keys), converting the option string yields exactly the JSON object text with the same
members in the same order: numbers/booleans unquoted, `AlternativeNames` as an array split at commas,
everything else a string.  Outside this alphabet: an escaped semicolon `\;` inside a value does NOT work
(`c20_ssv_witness` below: the full statement `c20_ssv_full` is false — open finding); `"` and raw `\\` in values
make the correspondence depend on `encoding/json` string escaping and are exercised by T2 only. -/
theorem c20_ssv_partial (opts : List Opt) (hne : opts ≠ []) (h : ∀ o ∈ opts, o.Plain) :
    ssvToJson (renderSsv opts) = renderJson opts := by
  unfold ssvToJson renderJson
  simp only [unescape_render opts h, split_lines opts h, members_lines opts h]
  have hm : (opts.flatMap fun o => member o.key o.value) = (opts.map jsonMember).flatMap fun m => m ++ [','] := by
    simp only [List.flatMap_map]; congr 1; funext o; exact member_eq o
  rw [hm]
  have hne' : opts.map jsonMember ≠ [] := by simpa using hne
  have hne2 : ((opts.map jsonMember).flatMap fun m => m ++ [',']) ≠ [] := by
    cases opts with
    | nil => exact absurd rfl hne
    | cons o r => simp
  rw [show ('{' :: ((opts.map jsonMember).flatMap fun m => m ++ [','])) = ['{'] ++ ((opts.map jsonMember).flatMap fun m => m ++ [',']) by rfl,
    List.dropLast_append_of_ne_nil hne2, dropLast_members _ hne']
  simp

/-- non-vacuity: the UID/NumConn/AlternativeNames example satisfies the hypotheses and both sides are the expected text -/
example :
    let opts : List Opt := [⟨"UID".toList, "aGk=".toList⟩, ⟨"NumConn".toList, "4".toList⟩, ⟨"AlternativeNames".toList, "a,,b".toList⟩]
    (∀ o ∈ opts, o.Plain) ∧ String.ofList (renderSsv opts) = "UID=aGk\\=;NumConn=4;AlternativeNames=a,,b;" ∧
    String.ofList (renderJson opts) = "{\"UID\":\"aGk=\",\"NumConn\":4,\"AlternativeNames\":[\"a\",\"\",\"b\"]}" := by
  refine ⟨?_, by decide, by decide⟩
  intro o ho
  simp only [List.mem_cons, List.mem_nil_iff, or_false] at ho
  rcases ho with rfl | rfl | rfl <;> (unfold Opt.Plain; decide)

/-! ### the full escaping alphabet: `\;` is in `unescape`'s table, but the string is split *after* unescaping -/

/-- the escaping of the plugin-option syntax (SIP003, the format Shadowsocks plugin hosts hand over):
`\` → `\\`, `=` → `\=`, `;` → `\;` — the three pairs of `Gen.ClientCfg.ssvUnescape`, read backwards -/
def escAll (v : Str) : Str := v.flatMap fun c =>
  if c = '\\' then ['\\', '\\'] else if c = '=' then ['\\', '='] else if c = ';' then ['\\', ';'] else [c]

def renderSsvEsc (opts : List Opt) : Str := opts.flatMap fun o => o.key ++ '=' :: escAll o.value ++ [';']

/-- keys as before; values free of `"` and `\` (JSON string escaping is not the subject) but they MAY contain `;` and `=` -/
def Opt.Semi (o : Opt) : Prop :=
  '=' ∉ o.key ∧ ';' ∉ o.key ∧ '\\' ∉ o.key ∧ '"' ∉ o.value ∧ '\\' ∉ o.value

/-- **C20 (syntax equivalence), full statement**: also for values that contain a semicolon -/
def c20_ssv_full : Prop :=
  ∀ opts : List Opt, opts ≠ [] → (∀ o ∈ opts, o.Semi) → ssvToJson (renderSsvEsc opts) = renderJson opts

theorem escAll_plain (v : Str) (h1 : ';' ∉ v) (h2 : '\\' ∉ v) : escAll v = escEqs v := by
  induction v with
  | nil => rfl
  | cons c r ih =>
    simp only [List.mem_cons, not_or] at h1 h2
    have e1 : ¬ c = '\\' := fun e => h2.1 e.symm
    have e2 : ¬ c = ';' := fun e => h1.1 e.symm
    simp only [escAll, escEqs, List.flatMap_cons] at ih ⊢
    rw [ih h1.2 h2.2]
    simp [e1, e2]

theorem renderSsvEsc_plain (opts : List Opt) (h : ∀ o ∈ opts, o.Plain) : renderSsvEsc opts = renderSsv opts := by
  induction opts with
  | nil => rfl
  | cons o r ih =>
    obtain ⟨_, _, _, hv1, hv2⟩ := h o (by simp)
    simp only [renderSsvEsc, renderSsv, List.flatMap_cons] at ih ⊢
    rw [ih (fun x hx => h x (List.mem_cons_of_mem _ hx)), escAll_plain _ hv1 hv2]

/-- what is proved of it: the part without `;` in values (this is `c20_ssv_partial` for the full escaping) -/
theorem c20_ssv_full_partial (opts : List Opt) (hne : opts ≠ []) (h : ∀ o ∈ opts, o.Plain) :
    ssvToJson (renderSsvEsc opts) = renderJson opts := by
  rw [renderSsvEsc_plain opts h]; exact c20_ssv_partial opts hne h

def semiOpt : Opt := ⟨"CDNWsUrlPath".toList, "/ws;v=1".toList⟩

/-- the option string `CDNWsUrlPath=/ws\;v\=1;` becomes `{"CDNWsUrlPath":"/ws","v":"1"}`: the escaped semicolon still
splits, the path is cut and a bogus option `v` appears; the JSON syntax keeps `"/ws;v=1"` -/
theorem ssv_semicolon_splits :
    String.ofList (renderSsvEsc [semiOpt]) = "CDNWsUrlPath=/ws\\;v\\=1;" ∧
    String.ofList (ssvToJson (renderSsvEsc [semiOpt])) = "{\"CDNWsUrlPath\":\"/ws\",\"v\":\"1\"}" ∧
    String.ofList (renderJson [semiOpt]) = "{\"CDNWsUrlPath\":\"/ws;v=1\"}" := by
  decide

/-- **the full equivalence statement is false of `ssvToJson`** (genuine defect, open finding; the harness replays this
configuration: signature `C20 syntaxes-differ escaped-semicolon-in-value`) -/
theorem c20_ssv_witness : ¬ c20_ssv_full := by
  intro h
  have h1 := h [semiOpt] (by simp) (by
    intro o ho
    simp only [List.mem_cons, List.mem_nil_iff, or_false] at ho
    subst ho; unfold Opt.Semi semiOpt; decide)
  have h2 := congrArg String.ofList h1
  rw [ssv_semicolon_splits.2.1, ssv_semicolon_splits.2.2] at h2
  revert h2; decide

/-- mirrored by the model, compared in the T rows, *not* asserted by any monitor (the text gives them no meaning):
an empty item ends the loop, so every later option is dropped; only the exact spellings of the four numeric/boolean
keys are left unquoted -/
theorem ssv_mirrored_oddities :
    String.ofList (ssvToJson "ProxyMethod=ss;;NumConn=4;".toList) = "{\"ProxyMethod\":\"ss\"}" ∧
    String.ofList (ssvToJson "numconn=4;".toList) = "{\"numconn\":\"4\"}" := by
  decide

/-! ## 7. The first connection made with an accepted configuration -/

theorem gen_connect : Gen.ClientCfg.authPayloadPanicsOnDHError = true ∧
    Gen.ClientCfg.directRandomisesServerName = true ∧ Gen.ClientCfg.cdnRandomisesServerName = false := by decide

/-- what an accepted configuration carries over unchanged -/
theorem processRaw_ok_fields (lower : String → String) (raw : RawConfig) (c : Cfg) (h : processRaw lower raw = .ok c) :
    c.serverPubKey = raw.publicKey ∧ c.mockDomain = raw.serverName ∧ c.transport = transportOf lower raw := by
  unfold processRaw processRawK at h
  by_cases h1 : raw.serverName = ""
  · simp [h1] at h
  by_cases h2 : raw.proxyMethod = ""
  · simp [h1, h2] at h
  by_cases h3 : raw.uid.length = 0
  · simp [h1, h2, h3] at h
  by_cases h4 : raw.publicKey.length = 0
  · simp [h1, h2, h3, h4] at h
  by_cases h5 : Gen.ClientCfg.pubKeyRejected (raw.publicKey.length : Nat) = true
  · simp [h1, h2, h3, h4, h5] at h
  simp only [h1, h2, h3, h4, h5, if_false] at h
  cases hm : caseOf Gen.ClientCfg.methodCases (lower raw.encryptionMethod) with
  | none => simp [hm] at h
  | some enc =>
    simp only [hm] at h
    by_cases h6 : raw.remoteHost = ""
    · simp [h6] at h
    by_cases h7 : raw.remotePort = ""
    · simp [h6, h7] at h
    by_cases h8 : raw.localHost = ""
    · simp [h6, h7, h8] at h
    by_cases h9 : raw.localPort = ""
    · simp [h6, h7, h8, h9] at h
    simp only [h6, h7, h8, h9, if_false] at h
    injection h with h
    subst h
    exact ⟨rfl, rfl, rfl⟩

/-- **C20 ("rejected with an error rather than a crash"), full statement**: no accepted configuration makes the client
panic when it connects -/
def c20_no_crash_full : Prop :=
  ∀ (lower : String → String) (raw : RawConfig) (dhFails : Bytes → Bool) (c : Cfg),
    processRaw lower raw = .ok c → firstConnect dhFails c = .proceeds

/-- what holds: a configuration whose `PublicKey` X25519 accepts never reaches the `log.Panicf` -/
theorem c20_no_crash_partial (lower : String → String) (raw : RawConfig) (dhFails : Bytes → Bool) (c : Cfg)
    (h : processRaw lower raw = .ok c) (hk : dhFails raw.publicKey = false) : firstConnect dhFails c = .proceeds := by
  rw [firstConnect, (processRaw_ok_fields lower raw c h).1, hk]; simp

def rawZeroKey : RawConfig := ⟨"bing.com", "ss", "plain", [1], List.replicate 32 0, 4, "127.0.0.1", "1984", "1.2.3.4", "443",
  [], false, "", "", "", "", 0, 0⟩

/-- `PublicKey` = 32 zero bytes (a small-order point: `curve25519.X25519` answers "bad input point: low order point",
exercised on the real code by the harness) is accepted by `ProcessRawConfig` — only the length is tested — and the
first connection panics.  Signature `C20 invalid-config-crashes low-order-public-key`. -/
theorem c20_no_crash_witness : ¬ c20_no_crash_full := by
  intro h
  obtain ⟨mt, _⟩ := gen_tables
  have hk : Gen.ClientCfg.pubKeyRejected 32 = false := by unfold Gen.ClientCfg.pubKeyRejected; decide
  have hp : ∃ c, processRaw demoLower rawZeroKey = .ok c := by
    simp [processRaw, processRawK, rawZeroKey, hk, mt, demoLower, caseOf, Spec.methods]
  obtain ⟨c, hc⟩ := hp
  have h1 := h demoLower rawZeroKey (fun pk => pk == List.replicate 32 0) c hc
  rw [firstConnect, (processRaw_ok_fields _ _ _ hc).1, gen_connect.1] at h1
  revert h1; decide

/-! ## 8. `ServerName = random` -/

/-- **README: "Use `random` to randomize the server name for every connection made", full statement** -/
def c20_random_full : Prop :=
  ∀ (lower : String → String) (raw : RawConfig) (c : Cfg) (fresh : String),
    processRaw lower raw = .ok c → lower raw.serverName = "random" → sniOf lower c fresh = fresh

/-- what holds: the direct transport sends the freshly drawn name -/
theorem c20_random_partial (lower : String → String) (raw : RawConfig) (c : Cfg) (fresh : String)
    (h : processRaw lower raw = .ok c) (hr : lower raw.serverName = "random") (hd : ∀ u, c.transport ≠ .cdn u) :
    sniOf lower c fresh = fresh := by
  obtain ⟨_, hm, _⟩ := processRaw_ok_fields lower raw c h
  unfold sniOf
  cases ht : c.transport with
  | cdn u => exact absurd ht (hd u)
  | direct b => simp [gen_connect.2.1, hm, hr]

def rawRandomCdn : RawConfig := ⟨"random", "ss", "plain", [1], List.replicate 32 7, 4, "127.0.0.1", "1984", "1.2.3.4", "443",
  [], false, "", "CDN", "", "", 0, 0⟩

/-- with `Transport = CDN` the literal name `random` is the SNI of every connection (`WSOverTLS.Handshake` hands
`authInfo.MockDomain` to utls unchanged).  Signature `C20 servername-random-not-randomised cdn`. -/
theorem c20_random_witness : ¬ c20_random_full := by
  intro h
  obtain ⟨mt, tc, td, _⟩ := gen_tables
  have hk : Gen.ClientCfg.pubKeyRejected 32 = false := by unfold Gen.ClientCfg.pubKeyRejected; decide
  have hp : ∃ c, processRaw demoLower rawRandomCdn = .ok c := by
    simp [processRaw, processRawK, rawRandomCdn, hk, mt, demoLower, caseOf, Spec.methods]
  obtain ⟨c, hc⟩ := hp
  have h1 := h demoLower rawRandomCdn c "fresh.example" hc (by simp [rawRandomCdn, demoLower])
  obtain ⟨_, hm, ht⟩ := processRaw_ok_fields _ _ _ hc
  have htr : ∃ u, c.transport = .cdn u := by
    rw [ht]; simp [transportOf, tc, td, rawRandomCdn, demoLower, caseOf]
  obtain ⟨u, hu⟩ := htr
  simp [sniOf, hu, gen_connect.2.2, hm, rawRandomCdn] at h1

end C20

#print axioms C20.c20_doc
#print axioms C20.c20_reject
#print axioms C20.pinned_doc_false
#print axioms C20.c20_ssv_partial
#print axioms C20.gen_structure
#print axioms C20.c20_load_total
#print axioms C20.c20_ssv_witness
#print axioms C20.c20_no_crash_witness
#print axioms C20.c20_random_witness
