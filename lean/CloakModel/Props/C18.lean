import CloakModel.Lemmas.UserStoreSim

/-! # C18 — User database and admin API act as a keyed store and never crash the server

The executable model `US.*` (`Model/UserStore.lean`, what the driver runs against the real bbolt-backed
code) is parametric in `US.Facts`, the four places where the pinned tree `e2cb346` is defective:
the length guards of the two decoders applied to `bucket.Get(..)`, the `return` after the
"UID mismatch" error, the refusal of non-positive rates before `mux.MakeValve`, and whose memory the
UID of a listed record is (a copy, or the key slice of the finished bbolt transaction).

* `gen_structure` — the structural facts of `localmanager.go` / `api_router.go` the model relies on.
* `gen_good` — the facts extracted from the tree being checked are the repaired ones.  **This is the
  obligation that fails on the pinned tree** (three genuine defects, see the witnesses at the end).
* `c18_refines`, `c18_rejected_unchanged`, `c18_deleted_absent`, `c18_read_your_writes`,
  `c18_no_panic` — the property, for every operation sequence, proved from `gen_good`.
* `c18_list_result_stable` — the value a `list` returned still reads the same after any later operations.
* `pinned_*` — `decide` witnesses that the explicit pinned fact values break each statement; the
  harness replays the same three inputs on the real code. -/
set_option linter.unusedSimpArgs false
set_option linter.unusedVariables false

namespace C18
open US GoInt

/-! ## 1. Facts regenerated from the source -/

/-- keys, widths and "only present fields are written"; which keys each reader decodes, with which
decoder and conversion; order of the checks; the upload loop; the handlers' error sites, which of
them `return`, and which UID each manager call receives. -/
theorem gen_structure :
    Gen.Store.writeFields = Key.all.map (fun k => (k.name, k.name, k.width)) ∧
    Gen.Store.writeOtherPuts = 0 ∧ Gen.Store.writeCreatesBucketFromBodyUID = true ∧
    Gen.Store.decWidth_u64 = 8 ∧ Gen.Store.decWidth_u32 = 4 ∧
    Gen.Store.readsGetUserInfo = ["SessionsCap:u32:int32.JustInt32", "UpRate:u64:int64.JustInt64",
      "DownRate:u64:int64.JustInt64", "UpCredit:u64:int64.JustInt64", "DownCredit:u64:int64.JustInt64",
      "ExpiryTime:u64:int64.JustInt64"] ∧
    Gen.Store.readsListAllUsers = Gen.Store.readsGetUserInfo ∧
    Gen.Store.readsAuthenticateUser = ["UpRate:u64:int64", "DownRate:u64:int64", "UpCredit:u64:int64",
      "DownCredit:u64:int64", "ExpiryTime:u64:int64"] ∧
    Gen.Store.readsAuthoriseNewSession = ["SessionsCap:u32:int", "UpCredit:u64:int64", "DownCredit:u64:int64",
      "ExpiryTime:u64:int64"] ∧
    Gen.Store.readsUploadStatus = ["UpCredit:u64:int64", "DownCredit:u64:int64", "ExpiryTime:u64:int64"] ∧
    Gen.Store.otherGetsGetUserInfo = 0 ∧ Gen.Store.otherGetsListAllUsers = 0 ∧ Gen.Store.otherGetsAuthenticateUser = 0 ∧
    Gen.Store.otherGetsAuthoriseNewSession = 0 ∧ Gen.Store.otherGetsUploadStatus = 0 ∧
    Gen.Store.authOrder = ["err", "ErrNoUpCredit", "ErrNoDownCredit", "ErrUserExpired", "ok"] ∧
    Gen.Store.authzOrder = ["err", "ErrNoUpCredit", "ErrNoDownCredit", "ErrUserExpired", "ErrSessionsCapReached", "ok"] ∧
    Gen.Store.authzPads16 = true ∧
    Gen.Store.uploadSeq = ["if bucket == nil", "continue", "get UpCredit", "if newUp <= 0", "put UpCredit newUp",
      "get DownCredit", "if newDown <= 0", "put DownCredit newDown", "get ExpiryTime",
      "if manager.world.Now().Unix() > expiry"] ∧
    Gen.Store.uploadMsgs = ["User no longer exists", "No upload credit left", "No download credit left", "User has expired"] ∧
    Gen.Store.uploadInOneUpdateTx = true ∧ Gen.Store.deleteIsDeleteBucket = true ∧
    Gen.Store.postSiteNames = ["empty", "b64", "json", "mismatch", "mgr"] ∧
    Gen.Store.postRet_empty = true ∧ Gen.Store.postRet_b64 = true ∧ Gen.Store.postRet_json = true ∧
    Gen.Store.postComparesUrlWithBody = true ∧ Gen.Store.postWritesDecodedBody = true ∧
    Gen.Store.getSiteNames = ["empty", "b64", "notfound", "marshal"] ∧
    Gen.Store.getRet_b64 = true ∧ Gen.Store.getRet_notfound = true ∧ Gen.Store.getReadsUrlUID = true ∧
    Gen.Store.delSiteNames = ["empty", "b64", "mgr"] ∧
    Gen.Store.delRet_empty = true ∧ Gen.Store.delRet_b64 = true ∧ Gen.Store.delDeletesUrlUID = true ∧
    Gen.Store.listSiteNames = ["mgr", "marshal"] ∧ Gen.Store.listRet_mgr = true ∧
    Gen.Store.valveCapacityIsRate = true ∧ Gen.Store.getUIDIsCallersArgument = true := by
  decide

/-- **The tree being checked is repaired at the four places**: an absent key decodes as 0 without
indexing, a complete value is decoded, the "UID mismatch" error returns, and non-positive rates are
refused before the token buckets are built.  (Fails on the pinned tree.) -/
theorem gen_good : Good genFacts := by
  refine ⟨?_, ?_, ?_, ?_, ?_, ?_, ?_⟩
  · show Gen.Store.decGuard_u64 0 = true; decide
  · show Gen.Store.decGuard_u64 8 = false; decide
  · show Gen.Store.decGuard_u32 0 = true; decide
  · show Gen.Store.decGuard_u32 4 = false; decide
  · show Gen.Store.postRet_mismatch = true; decide
  · intro up down
    show Gen.Store.valveGuard up down = true ↔ _
    unfold Gen.Store.valveGuard
    gen_cmp
  · show Gen.Store.listUIDIsCopy = true; decide

/-! ## 2. The abstract specification is a keyed store (what "exactly what the sequence implies" means) -/

/-- a successful create/update: the record of that UID has the mentioned fields set and the others
kept (all-zero if the user is new); every other UID is untouched -/
theorem spec_post_ok (a : AStore) (i : Info) (h : i.uid ≠ []) (uid' : Bytes) :
    (Spec.post a (.ok i.uid) (.ok i)).2 = 201 ∧
    (Spec.post a (.ok i.uid) (.ok i)).1.lookup uid' =
      if uid' = i.uid then some ((recOrNew (a.lookup i.uid)).update i) else a.lookup uid' := by
  simp [Spec.post, h, AL.lookup_set]

/-- anything the specification answers with a status other than 201/200 leaves the state unchanged,
and the read-only operations never change it -/
theorem spec_rejected_unchanged (a : AStore) (op : Op) (n : Nat) (h : (Spec.step a op).2 = .status n) (hn : 400 ≤ n) :
    (Spec.step a op).1 = a := by
  cases op with
  | post u b =>
    simp only [Spec.step, Out.status.injEq] at h ⊢
    cases u <;> cases b <;> simp only [Spec.post] at h ⊢
    split <;> try rfl
    split <;> try rfl
    rename_i h1 h2; simp [h1, h2] at h; omega
  | del u =>
    simp only [Spec.step, Out.status.injEq] at h ⊢
    cases u <;> simp only [Spec.del] at h ⊢
    split <;> try rfl
    rename_i h1; simp [h1] at h; omega
  | get u => rfl
  | list => rfl
  | auth _ _ => rfl
  | authz _ _ _ => rfl
  | upload _ _ => simp [Spec.step] at h
  | getUser _ _ => rfl
  | reopen => rfl

theorem spec_deleted_absent (a : AStore) (uid : Bytes) (h : (Spec.del a (.ok uid)).2 = 200) :
    Spec.get (Spec.del a (.ok uid)).1 (.ok uid) = (404, none) := by
  simp only [Spec.del] at h ⊢
  cases hl : a.lookup uid with
  | none => simp [hl] at h
  | some r => simp [Spec.get, AL.lookup_erase]

theorem spec_no_panic (a : AStore) (op : Op) (p : Panic) : (Spec.step a op).2 ≠ .panic p := by
  cases op <;> simp [Spec.step]

/-! ## 3. The property, about the executable model with the extracted facts -/

/-- **C18 (keyed store).** For every sequence of admin/manager operations on a fresh database —
create/update with any subset of the six fields and any values of the Go field types, reads, lists,
deletes, malformed / mismatching requests, authentications, authorisations, usage uploads,
activations, close/reopen — the concrete model (bytes in buckets, fixed-width decoding, HTTP handler
branches) answers every operation exactly as the abstract keyed store `US.Spec` does, and its final
store abstracts to the specification's.  The state is a function of the operation sequence only
(`reopen` is the identity: bbolt persists committed transactions — assumption). -/
theorem c18_refines (ops : List Op) (hw : ∀ op ∈ ops, op.WF) :
    (run genFacts [] ops).2 = (Spec.run [] ops).2 ∧ abs (run genFacts [] ops).1 = (Spec.run [] ops).1 := by
  have h := run_sim genFacts gen_good ops [] (by intro p hp; simp at hp) hw
  exact ⟨h.2.1, h.1⟩

/-- reachable stores are well-formed -/
theorem reachable_wf (ops : List Op) (hw : ∀ op ∈ ops, op.WF) : WFS (run genFacts [] ops).1 :=
  (run_sim genFacts gen_good ops [] (by intro p hp; simp at hp) hw).2.2

/-- **C18 (a rejected request changes nothing)**, on the concrete store itself: a POST not answered
201 and a DELETE not answered 200 return the very same store. -/
theorem c18_rejected_unchanged (s : Store) (u : Url) (b : Body) :
    ((postHlr genFacts s u b).2 ≠ 201 → (postHlr genFacts s u b).1 = s) ∧
    ((delHlr s u).2 ≠ 200 → (delHlr s u).1 = s) := by
  obtain ⟨e1, e2, e3, e4, e5, e6, _, _, _, e10, e11, e12, e13⟩ := gen_status
  have hr : genFacts.postRetMismatch = true := gen_good.ret
  constructor
  · intro h
    cases u with
    | empty => rfl
    | bad => rfl
    | ok uid =>
      cases b with
      | bad => rfl
      | ok i =>
        simp only [postHlr, hr, and_true] at h ⊢
        split
        · rfl
        · rename_i hm
          have hm' : uid = i.uid := by
            cases hd : decide (uid = i.uid) <;> simp_all
          simp only [hm', ne_eq, not_true_eq_false, if_false, firstStatus] at h ⊢
          cases hwr : writeUserInfo s i with
          | error e => rfl
          | ok s' => simp [hwr, e6] at h
  · intro h
    cases u with
    | empty => rfl
    | bad => rfl
    | ok uid =>
      simp only [delHlr] at h ⊢
      cases hd : deleteUser s uid with
      | none => rfl
      | some s' => simp [hd, e13] at h

/-- **C18 (a deleted user is gone)** on the concrete model: after a DELETE answered 200, GET answers 404 -/
theorem c18_deleted_absent (s : Store) (hs : WFS s) (uid : Bytes) (h : (delHlr s (.ok uid)).2 = 200) :
    getHlr genFacts (delHlr s (.ok uid)).1 (.ok uid) = .ok (404, none) := by
  obtain ⟨d1, d2, d3⟩ := del_sim s hs (.ok uid)
  rw [get_sim genFacts gen_good _ d3, d1]
  rw [d2] at h
  rw [spec_deleted_absent _ uid h]

/-- **C18 (read your writes)** on the concrete model: after a create/update answered 201, GET of that UID
returns the previous record (all-zero if new) with exactly the mentioned fields replaced. -/
theorem c18_read_your_writes (s : Store) (hs : WFS s) (i : Info) (hi : InRange i) (hu : i.uid ≠ []) :
    (postHlr genFacts s (.ok i.uid) (.ok i)).2 = 201 ∧
    getHlr genFacts (postHlr genFacts s (.ok i.uid) (.ok i)).1 (.ok i.uid) =
      .ok (200, some ((recOrNew ((abs s).lookup i.uid)).update i)) := by
  obtain ⟨p1, p2, p3⟩ := post_sim genFacts gen_good s hs (.ok i.uid) (.ok i) (by intro j hj; cases hj; exact hi)
  obtain ⟨q1, q2⟩ := spec_post_ok (abs s) i hu i.uid
  refine ⟨by rw [p2, q1], ?_⟩
  rw [get_sim genFacts gen_good _ p3, p1]
  simp only [Spec.get, q2, if_true]

/-- **C18 (no crash).** In every state reachable through the API and the manager, no operation — reading
or listing a record, authenticating its owner, authorising a session, uploading usage, activating
the user (building the valve) — has the `panic` outcome. -/
theorem c18_no_panic (ops : List Op) (hw : ∀ op ∈ ops, op.WF) (op : Op) (hop : op.WF) (p : Panic) :
    (step genFacts (run genFacts [] ops).1 op).2 ≠ .panic p := by
  have hs := reachable_wf ops hw
  rw [(step_sim genFacts gen_good _ hs op hop).2.1]
  exact spec_no_panic _ _ _

/-! ### the value a read returned stays what the sequence implied -/

/-- a list result whose UIDs are copies reads back as it was returned, whatever has happened to the database
mapping since -/
theorem reread_own (F : Facts) (hc : F.listCopiesUID = true) (mem : Bytes → Bytes) (l : List (Bytes × Rec)) :
    rereadList mem (listHeld F l) = l := by
  induction l with
  | nil => rfl
  | cons p r ih =>
    simp only [rereadList, listHeld, List.map_cons, List.map_map] at ih ⊢
    rw [ih]
    simp [hc, Held.read]

/-- **C18 (a read returns what the sequence implies — and keeps doing so).** After any operation sequence, the
value `ListAllUsers` returns is the specification's list, and looking at that same value again after any
further operations — whatever bbolt has done to its pages in the meantime (`mem` arbitrary: commits recycle
freed pages, closing unmaps the file) — still gives exactly what was returned. -/
theorem c18_list_result_stable (ops : List Op) (hw : ∀ op ∈ ops, op.WF) (l : List (Bytes × Rec))
    (hl : (step genFacts (run genFacts [] ops).1 .list).2 = .users l) (mem : Bytes → Bytes) :
    l = (Spec.run [] ops).1 ∧ rereadList mem (listHeld genFacts l) = l := by
  refine ⟨?_, reread_own genFacts gen_good.copy mem l⟩
  have hs := reachable_wf ops hw
  have h := (step_sim genFacts gen_good _ hs .list trivial).2.1
  rw [hl, (c18_refines ops hw).2] at h
  simpa [Spec.step] using h

/-! ## 4. Non-vacuity -/

def uidA : Bytes := [1, 2, 3, 4, 5, 6, 7, 8, 9, 10, 11, 12, 13, 14, 15, 16]
def uidB : Bytes := [2, 2, 3, 4, 5, 6, 7, 8, 9, 10, 11, 12, 13, 14, 15, 16]
def onlyCap : Info := ⟨uidA, some (-1), none, none, none, none, none⟩
def rest : Info := ⟨uidA, none, some 0, some 9223372036854775807, some 5, some (-9223372036854775808), some 100⟩
def demo : List Op :=
  [.post (.ok uidA) (.ok onlyCap), .post (.ok uidA) (.ok rest), .post (.ok uidB) (.ok { rest with uid := uidB }),
   .post (.ok uidB) (.ok rest), .post (.ok uidA) .bad,
   .get (.ok uidA), .del (.ok uidB), .del (.ok uidB), .get (.ok uidB), .authz uidA 7 50, .upload [⟨uidA, 6, 1⟩] 200,
   .getUser uidA 50]

/-- the hypotheses of `c18_refines` hold for a script with a partial create, an update, an extreme
value, a rejected request, a double delete, a usage upload and an activation; the specification's
answers are the expected, non-trivial ones -/
example : (∀ op ∈ demo, op.WF) ∧
    (Spec.run [] demo).2 = [.status 201, .status 201, .status 201, .status 400, .status 400,
      .info 200 (some ⟨-1, 0, 9223372036854775807, 5, -9223372036854775808, 100⟩), .status 200, .status 500,
      .info 404 none, .authz .noDown, .resps [(uidA, .noUp), (uidA, .expired)],
      .user (.refused .noUp)] := by
  constructor
  · intro op h
    simp only [demo, List.mem_cons, List.mem_nil_iff, or_false] at h
    rcases h with rfl | rfl | rfl | rfl | rfl | rfl | rfl | rfl | rfl | rfl | rfl | rfl <;>
      simp [Op.WF, InRange, onlyCap, rest, In32, In64]
  · decide

/-! ## 5. The pinned tree: each of the four defects refutes the statement (explicit fact values) -/

theorem pinned_not_good : ¬ Good pinnedFacts := fun h => by
  have := h.ret; simp [pinnedFacts] at this

/-- (a) POST with URL uid A and body uid B is answered 400 and user B now exists -/
theorem pinned_mismatch_still_writes :
    (postHlr pinnedFacts [] (.ok uidA) (.ok ⟨uidB, some 3, none, none, none, none, none⟩)).2 = 400 ∧
    ((postHlr pinnedFacts [] (.ok uidA) (.ok ⟨uidB, some 3, none, none, none, none, none⟩)).1.lookup uidB).isSome = true := by
  decide

/-- (b) a record created from a subset of the fields makes every reader panic (index out of range) -/
theorem pinned_partial_record_panics :
    let s := (postHlr pinnedFacts [] (.ok uidA) (.ok onlyCap)).1
    (step pinnedFacts s (.get (.ok uidA))).2 = .panic .indexOutOfRange ∧
    (step pinnedFacts s .list).2 = .panic .indexOutOfRange ∧
    (step pinnedFacts s (.auth uidA 0)).2 = .panic .indexOutOfRange ∧
    (step pinnedFacts s (.authz uidA 0 0)).2 = .panic .indexOutOfRange ∧
    (step pinnedFacts s (.upload [⟨uidA, 1, 1⟩] 0)).2 = .panic .indexOutOfRange ∧
    (step pinnedFacts s (.getUser uidA 0)).2 = .panic .indexOutOfRange := by
  decide

/-- (c) a complete record whose rate is 0 panics in the token-bucket constructor when its owner
connects — also with the decoders and the handler already repaired -/
theorem pinned_nonpositive_rate_panics :
    let full : Info := ⟨uidA, some 1, some 0, some 5, some 5, some 5, some 100⟩
    (step pinnedFacts (postHlr pinnedFacts [] (.ok uidA) (.ok full)).1 (.getUser uidA 50)).2 = .panic .tokenBucket ∧
    (step ⟨fun l => decide (l < 8), fun l => decide (l < 4), true, fun _ _ => false, false⟩
      (postHlr pinnedFacts [] (.ok uidA) (.ok full)).1 (.getUser uidA 50)).2 = .panic .tokenBucket := by
  decide

/-- (d) `ListAllUsers` hands out the key slices of its finished read transaction: once a later commit has
recycled the page (the harness observes exactly this after two further writes: the 16 bytes now show a page
header) the list that was returned for `[uidA]` no longer says `uidA` -/
theorem pinned_list_result_unstable :
    let r : Rec := ⟨1, 2, 3, 4, 5, 6⟩
    rereadList (fun _ => [1, 0, 0, 0, 0x5e, 0, 0, 0, 0x10, 0, 0, 0, 0x3e, 0, 0, 0]) (listHeld pinnedFacts [(uidA, r)]) ≠ [(uidA, r)] ∧
    -- as long as the window still shows the transaction's bytes the defect is invisible
    rereadList id (listHeld pinnedFacts [(uidA, r)]) = [(uidA, r)] := by
  decide

/-- the statement of `c18_list_result_stable` is **false** for the pinned facts -/
theorem pinned_list_stable_false :
    ¬ ∀ (l : List (Bytes × Rec)) (mem : Bytes → Bytes), rereadList mem (listHeld pinnedFacts l) = l := by
  intro h
  have h1 := h [(uidA, ⟨1, 2, 3, 4, 5, 6⟩)] (fun _ => [])
  revert h1
  decide

/-- the statement of `c18_refines` is **false** for the pinned facts: (a) and (b) each give a well-formed
script whose concrete answers differ from the keyed-store specification -/
theorem pinned_refines_false :
    ¬ ∀ ops : List Op, (∀ op ∈ ops, op.WF) → (run pinnedFacts [] ops).2 = (Spec.run [] ops).2 := by
  intro h
  have h1 := h [.post (.ok uidA) (.ok ⟨uidB, some 3, none, none, none, none, none⟩), .get (.ok uidB)] (by
    intro op hop
    simp only [List.mem_cons, List.mem_nil_iff, or_false] at hop
    rcases hop with rfl | rfl <;> simp [Op.WF, InRange, In32, In64])
  revert h1
  decide

/-- the statement of `c18_no_panic` is **false** for the pinned facts (partial record; non-positive rate) -/
theorem pinned_no_panic_false :
    ¬ ∀ (ops : List Op), (∀ op ∈ ops, op.WF) → ∀ (op : Op), op.WF → ∀ p : Panic,
      (step pinnedFacts (run pinnedFacts [] ops).1 op).2 ≠ .panic p := by
  intro h
  have h1 := h [.post (.ok uidA) (.ok onlyCap)] (by
    intro op hop
    simp only [List.mem_cons, List.mem_nil_iff, or_false] at hop
    subst hop; simp [Op.WF, InRange, onlyCap, In32, In64]) (.auth uidA 0) trivial .indexOutOfRange
  revert h1
  decide

end C18

#print axioms C18.c18_refines
#print axioms C18.c18_no_panic
#print axioms C18.c18_rejected_unchanged
#print axioms C18.gen_structure
#print axioms C18.c18_list_result_stable
