import CloakModel.Gen.Deliver
import CloakModel.Model.Basic

/-! # C01 at the application's end of the relay (`RouteTCP` / `serveSession` + `common.Copy`) — an OPEN finding

One `common.Copy` per direction.  `Copy` closes BOTH connections when it returns (`Gen.Deliver.copyClosesBothOnReturn`);
the direction application → stream runs `Stream.ReadFrom`, which takes bytes from the application and then fails with
`ErrBrokenStream` once the stream has been closed (`Gen.Deliver.readFromFailsOnClosedStream`).  So when the peer has
written B and closed, and the application writes anything while B is still being handed to it, the application's
connection is closed under the delivering direction and the rest of B is lost.

`c01_relay_full` is the property at this point; it is FALSE of the code (`c01_relay_witness`, replayed by
`harness/main/c01copy.go`); `c01_relay_partial` is what holds: an application that does not write after the peer's close
gets all of B; `c01_relay_repaired` says a relay that tears down only when both directions are done would satisfy the full
statement. -/
set_option linter.unusedVariables false

namespace C01R

structure St where
  pending : Bytes        -- arrived in the local stream's buffer, not yet handed to the application
  delivered : Bytes      -- handed to the application
  closedByPeer : Bool    -- the peer's closing notice has been processed
  torn : Bool            -- the application's connection has been closed by the relay
deriving DecidableEq, Repr

inductive Ev
  | arrive (c : Bytes)   -- bytes of B reach the local stream
  | peerClose            -- the peer's close is processed (what arrived stays readable)
  | deliver (k : Nat)    -- the direction stream → application hands over up to `k` bytes
  | appWrite             -- the application writes something
deriving DecidableEq, Repr

/-- `tear`: does a failed write of the direction application → stream close the application's connection -/
def step (tear : Bool) (s : St) : Ev → St
  | .arrive c => if s.closedByPeer then s else { s with pending := s.pending ++ c }
  | .peerClose => { s with closedByPeer := true }
  | .deliver k => if s.torn then s else { s with delivered := s.delivered ++ s.pending.take k, pending := s.pending.drop k }
  | .appWrite => if s.closedByPeer && tear then { s with torn := true } else s

def init : St := ⟨[], [], false, false⟩
def run (tear : Bool) (evs : List Ev) : St := evs.foldl (step tear) init

/-- what the peer wrote before it closed, as far as it arrived -/
def arrivedAux : Bool → List Ev → Bytes
  | _, [] => []
  | true, _ :: r => arrivedAux true r
  | false, .arrive c :: r => c ++ arrivedAux false r
  | false, .peerClose :: r => arrivedAux true r
  | false, _ :: r => arrivedAux false r
def arrived (evs : List Ev) : Bytes := arrivedAux false evs

/-- the code: both facts as extracted -/
def genTear : Bool := Gen.Deliver.copyClosesBothOnReturn && Gen.Deliver.readFromFailsOnClosedStream

/-- after the events, let the delivering direction hand over everything that is left -/
def final (tear : Bool) (evs : List Ev) : Bytes :=
  (step tear (run tear evs) (.deliver (run tear evs).pending.length)).delivered

/-- the property at this point: the application ends up with everything that arrived -/
def c01_relay_full (tear : Bool) : Prop := ∀ evs : List Ev, final tear evs = arrived evs

theorem gen_relay : genTear = true ∧ Gen.Deliver.routeTCPOneCopyPerDirection = true := by decide

/-- tearing is permanent -/
theorem torn_perm (tear : Bool) : ∀ (l : List Ev) (x : St), x.torn = true → (l.foldl (step tear) x).torn = true := by
  intro l
  induction l with
  | nil => intro x hx; exact hx
  | cons a l ihl =>
    intro x hx
    simp only [List.foldl_cons]
    apply ihl
    cases a <;> simp only [step, hx] <;> (try split) <;> simp [hx]

/-- invariant while the application's connection is open: delivered ++ pending = what arrived -/
theorem run_inv (tear : Bool) : ∀ (evs : List Ev) (pend deliv : Bytes) (cb : Bool) (done : Bytes),
    deliv ++ pend = done →
    (evs.foldl (step tear) ⟨pend, deliv, cb, false⟩).torn = false →
    (evs.foldl (step tear) ⟨pend, deliv, cb, false⟩).delivered ++ (evs.foldl (step tear) ⟨pend, deliv, cb, false⟩).pending
      = done ++ arrivedAux cb evs := by
  intro evs
  induction evs with
  | nil => intro pend deliv cb done h _; cases cb <;> simp [arrivedAux, h]
  | cons e r ih =>
    intro pend deliv cb done h hfin
    simp only [List.foldl_cons] at hfin ⊢
    cases e with
    | arrive c =>
      cases cb with
      | true =>
        have hs : step tear ⟨pend, deliv, true, false⟩ (.arrive c) = ⟨pend, deliv, true, false⟩ := by simp [step]
        rw [hs] at hfin ⊢
        simpa [arrivedAux] using ih pend deliv true done h hfin
      | false =>
        have hs : step tear ⟨pend, deliv, false, false⟩ (.arrive c) = ⟨pend ++ c, deliv, false, false⟩ := by simp [step]
        rw [hs] at hfin ⊢
        have := ih (pend ++ c) deliv false (done ++ c) (by simp [← h, List.append_assoc]) hfin
        simpa [arrivedAux, List.append_assoc] using this
    | peerClose =>
      have hs : step tear ⟨pend, deliv, cb, false⟩ .peerClose = ⟨pend, deliv, true, false⟩ := rfl
      rw [hs] at hfin ⊢
      have := ih pend deliv true done h hfin
      cases cb <;> simpa [arrivedAux] using this
    | deliver k =>
      have hs : step tear ⟨pend, deliv, cb, false⟩ (.deliver k) = ⟨pend.drop k, deliv ++ pend.take k, cb, false⟩ := by simp [step]
      rw [hs] at hfin ⊢
      have := ih (pend.drop k) (deliv ++ pend.take k) cb done (by simp [← h, List.append_assoc]) hfin
      cases cb <;> simpa [arrivedAux] using this
    | appWrite =>
      by_cases hc : (cb && tear) = true
      · have hs : step tear ⟨pend, deliv, cb, false⟩ .appWrite = ⟨pend, deliv, cb, true⟩ := by simp [step, hc]
        rw [hs] at hfin
        rw [torn_perm tear r _ rfl] at hfin; cases hfin
      · have hs : step tear ⟨pend, deliv, cb, false⟩ .appWrite = ⟨pend, deliv, cb, false⟩ := by
          simp only [step]; rw [if_neg hc]
        rw [hs] at hfin ⊢
        have := ih pend deliv cb done h hfin
        cases cb <;> simpa [arrivedAux] using this

/-- **C01 (relay, partial).** Whenever the relay has not closed the application's connection by the end — in particular
when the application does not write after the peer's close — the application ends up with everything that arrived. -/
theorem c01_relay_partial (tear : Bool) (evs : List Ev) (h : (run tear evs).torn = false) : final tear evs = arrived evs := by
  have hinv := run_inv tear evs [] [] false [] rfl h
  unfold final
  simp only [step, h]
  have : (run tear evs).delivered ++ (run tear evs).pending = arrived evs := by
    simpa [run, arrived, init] using hinv
  simp [← this]

/-- a relay that does not tear the application's connection down on a failed write satisfies the full statement -/
theorem c01_relay_repaired : c01_relay_full false := by
  intro evs
  apply c01_relay_partial
  -- never torn
  have : ∀ (l : List Ev) (x : St), x.torn = false → (l.foldl (step false) x).torn = false := by
    intro l
    induction l with
    | nil => intro x hx; exact hx
    | cons a l ih =>
      intro x hx
      simp only [List.foldl_cons]
      apply ih
      cases a <;> simp [step, hx] <;> (try split) <;> simp [hx]
  exact this evs init rfl

/-- **C01 (relay, witness): the full statement is FALSE of the code.**  Two bytes arrive, the peer closes, the application
writes: nothing is delivered any more. -/
theorem c01_relay_witness : ¬ c01_relay_full genTear := by
  intro h
  have := h [.arrive [1, 2], .peerClose, .appWrite]
  revert this
  decide

end C01R

#print axioms C01R.c01_relay_partial
#print axioms C01R.c01_relay_repaired
#print axioms C01R.c01_relay_witness
