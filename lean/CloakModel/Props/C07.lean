import CloakModel.Model.Dispatch
import CloakModel.Lemmas.AuthWindow
import CloakModel.Gen.AuthDH

/-! # C07 — Only holders of valid, timely credentials are ever treated as Cloak clients

The decision function `HS.decide` (`Model/Dispatch.lean`, what the driver runs against the real
`dispatchConnection` / `AuthFirstPacket`) answers a peer with a handshake reply (`admin`, `proxy`) only if `Valid` holds:
the first packet is complete, the transport extracts 32 bytes `rand` and a block `ct`, key agreement
with the static key succeeds, the block OPENS under that secret with nonce `rand[0:12]` (so, by the
law `Lawful.open_sound`, it IS the sealing of the plaintext under the secret shared with the server's
static key: encrypted to the server key, unmodified), `rand` was not seen before, the timestamp is
strictly inside the window, the encryption method is one of those served, and either the admin gate
holds or the proxy method is served and the UID is bypass / already active / authorised by the store.
Everything else that is a complete first packet goes to the redirect address — including the packet of an entitled
user whose new session `GetSession` refuses (session cap reached; credit / expiry of a cached active user no longer
allow one): `c07_handled`, `c07_refused_session_web`; no first packet is left unanswered, unrelayed and unclosed. -/
set_option linter.unusedSimpArgs false
set_option linter.unusedVariables false

namespace C07
open HS Replay

/-! ## 1. Regenerated terms -/

/-- **C07 (window).** The window test regenerated from `decryptClientInfo` accepts exactly the
timestamps strictly inside `(now − tolerance, now + tolerance)` (nanoseconds, over `Int`): an
off-by-one (`After` → `!Before`) or a dropped side makes this false. -/
theorem c07_window_exact (ts now : Int) :
    Gen.Auth.windowReject ts now = false ↔
      (now - Gen.Auth.timestampTolerance < ts * 1000000000 ∧ ts * 1000000000 < now + Gen.Auth.timestampTolerance) := by
  have := window_exact ts now
  unfold inWindow at this
  simpa using this

/-- both edges are closed out, one nanosecond inside is in -/
example : Gen.Auth.windowReject 1000 (1000 * 1000000000 + Gen.Auth.timestampTolerance) = true ∧
    Gen.Auth.windowReject 1000 (1000 * 1000000000 - Gen.Auth.timestampTolerance) = true ∧
    Gen.Auth.windowReject 1000 (1000 * 1000000000 + Gen.Auth.timestampTolerance - 1) = false ∧
    Gen.Auth.windowReject 1000 (1000 * 1000000000 - Gen.Auth.timestampTolerance + 1) = false := by decide

theorem gen_admin_gate (l : Int) (e : Bool) (sid : Int) :
    Gen.Auth.adminGate l e sid = true ↔ (l ≠ 0 ∧ e = true ∧ sid = 0) := by
  unfold Gen.Auth.adminGate
  cases e <;>
    simp only [Bool.and_eq_true, Bool.or_eq_true, Bool.not_eq_true', decide_eq_true_eq, decide_eq_false_iff_not, ne_eq,
      Bool.and_false, Bool.false_and, Bool.and_true, Bool.true_and, Bool.false_eq_true, false_and, and_false, true_and, and_true,
      Bool.or_false, Bool.false_or, reduceCtorEq] <;>
    omega

theorem gen_enc (e : UInt8) : Gen.Auth.encMethods.contains (e.toNat : Int) = true ↔ e.toNat ≤ 3 := by
  unfold Gen.Auth.encMethods
  simp only [List.contains_cons, List.contains_nil, Bool.or_false, Bool.or_eq_true, beq_iff_eq]
  omega

theorem gen_db_authn (up down expiry nowSec : Int) :
    (!(Gen.Auth.authnUpBad up) && !(Gen.Auth.authnDownBad down) && !(Gen.Auth.authnExpired expiry nowSec)) = true ↔
      (0 < up ∧ 0 < down ∧ nowSec ≤ expiry) := by
  unfold Gen.Auth.authnUpBad Gen.Auth.authnDownBad Gen.Auth.authnExpired
  simp only [Bool.and_eq_true, Bool.not_eq_true', decide_eq_false_iff_not, decide_eq_true_eq]
  omega

theorem gen_db_authz (up down expiry nowSec n cap : Int) :
    (!(Gen.Auth.authzUpBad up) && !(Gen.Auth.authzDownBad down) && !(Gen.Auth.authzExpired expiry nowSec) &&
      !(Gen.Auth.authzCapReached n cap)) = true ↔ (0 < up ∧ 0 < down ∧ nowSec ≤ expiry ∧ n < cap) := by
  unfold Gen.Auth.authzUpBad Gen.Auth.authzDownBad Gen.Auth.authzExpired Gen.Auth.authzCapReached
  simp only [Bool.and_eq_true, Bool.not_eq_true', decide_eq_false_iff_not, decide_eq_true_eq]
  omega

/-- branch structure of `dispatchConnection`, `decryptClientInfo`, `IsBypass`, the two user-manager
functions and `MakeObfuscator` that the decision function mirrors: every rejection before a reply
ends in `goWeb(); return`; replies only inside the admin gate and after `GetSession`; the API router
only inside the gate; bypass users skip the store; the store tests not-found, both credits, expiry -/
theorem gen_structure :
    Gen.Auth.dispatchOrder = true ∧ Gen.Auth.authErrWeb = true ∧ Gen.Auth.obfErrWeb = true ∧
    Gen.Auth.proxyMissWeb = true ∧ Gen.Auth.userErrWeb = true ∧ Gen.Auth.bypassSplit = true ∧
    Gen.Auth.getSessionErrReturns = true ∧ Gen.Auth.replyOnlyAfterChecks = true ∧
    Gen.Auth.apiOnlyInsideGate = true ∧ Gen.Auth.isBypassLookup = true ∧ Gen.Auth.openBeforeWindow = true ∧
    Gen.Auth.encDefaultIsError = true ∧ Gen.Auth.authnOrder = true ∧ Gen.Auth.authzOrder = true ∧
    Gen.Replay.registerBeforeDecrypt = true ∧ Gen.Replay.replayReturnsBeforeDecrypt = true ∧
    Gen.Handshake.parsersRecover = 3 := by decide

/-! ## 2. What "valid, timely credentials" means -/

/-- the user store currently authorises `uid`: the record exists, both credits are positive and it
has not expired (whole seconds) -/
def StoreAuthorises (s : Srv) (uid : Bytes) (nowSec : Int) : Prop :=
  ∃ u, s.db.find? (fun r => r.1 == uid) = some (uid, u) ∧ 0 < u.upCredit ∧ 0 < u.downCredit ∧ nowSec ≤ u.expiry

theorem dbAuthenticate_iff (s : Srv) (uid : Bytes) (nowSec : Int) :
    dbAuthenticate s uid nowSec = true ↔ StoreAuthorises s uid nowSec := by
  unfold dbAuthenticate StoreAuthorises
  cases hf : s.db.find? (fun r => r.1 == uid) with
  | none => simp
  | some r =>
    obtain ⟨k, u⟩ := r
    have hk : k = uid := by
      have := List.find?_some hf; simpa using this
    subst hk
    simp only [gen_db_authn]
    constructor
    · intro h; exact ⟨u, rfl, h⟩
    · rintro ⟨u', he, h⟩
      have : u = u' := by simpa using he
      subst this; exact h

/-! ### the proxy book: a name is found if it is written like an entry, in any (ASCII) case

C06 ("every … option value the configuration allows") meets C07 ("a proxy method it serves"): `parseProxyBook` keeps
the operator's names lower-cased, so the admission test and `serveSession` must look a received name up lower-cased too.
Before /repo's fix the lookup used the name as received and a ProxyMethod written exactly like its mixed-case ProxyBook
entry — the documented way — was refused (`pinned_mixed_case_refused`). -/

/-- the bypass list the server holds is the configured entries, each zero-padded to 16 bytes on its own (before /repo's fix a
short entry inherited the tail of the previous one: a UID that appears nowhere in the configuration was authorised) -/
theorem gen_bypass_key : Gen.Auth.bypassKeyFreshPerEntry = true ∧ Gen.Auth.isBypassLookup = true := by decide

theorem gen_proxy_book :
    Gen.Auth.proxyLookupLowercases = true ∧ Gen.Auth.proxyBookLowercasedAtLoad = true ∧
    Gen.Auth.proxyLookupSameKeyInServe = true := by decide

/-- the book the server holds for the names the operator wrote -/
def loadBook (names : List Bytes) : List Bytes :=
  if Gen.Auth.proxyBookLowercasedAtLoad then names.map lowerAscii else names

/-- a client configured with a name that equals a ProxyBook entry up to ASCII case passes the served-method test -/
theorem c06_method_found (names : List Bytes) (n m : Bytes) (hn : n ∈ names) (hc : lowerAscii m = lowerAscii n) :
    (loadBook names).contains (bookKey m) = true := by
  unfold loadBook bookKey
  rw [gen_proxy_book.1, gen_proxy_book.2.1]
  simp only [if_true, List.contains_eq_mem, decide_eq_true_eq, List.mem_map]
  exact ⟨n, hn, hc.symm⟩

/-- and only such names pass it -/
theorem c07_method_served_only (names : List Bytes) (m : Bytes) (h : (loadBook names).contains (bookKey m) = true) :
    ∃ n ∈ names, lowerAscii n = lowerAscii m := by
  unfold loadBook bookKey at h
  rw [gen_proxy_book.1, gen_proxy_book.2.1] at h
  simpa only [if_true, List.contains_eq_mem, decide_eq_true_eq, List.mem_map] using h

/-- the defect repaired in /repo: with the lookup key taken as received, the entry `MixedCaseSS` (kept as
`mixedcasess`) is not found under the very name the operator wrote -/
theorem pinned_mixed_case_refused :
    let name : Bytes := [77, 105, 120, 101, 100, 67, 97, 115, 101, 83, 83]   -- "MixedCaseSS"
    ([name].map lowerAscii).contains name = false ∧ ([name].map lowerAscii).contains (lowerAscii name) = true := by
  decide

/-- the credentials clause of the property for an authenticated `info` -/
def Entitled (s : Srv) (info : ClientInfo) (now : Int) : Prop :=
  info.enc.toNat ≤ 3 ∧
  ((s.adminUID ≠ [] ∧ info.uid = s.adminUID ∧ info.sid = 0) ∨
   (bookKey info.method ∈ s.proxyBook ∧
     (info.uid ∈ s.bypass ∨ isActive s info.uid = true ∨ StoreAuthorises s info.uid (now / 1000000000))))

/-- a complete first packet carrying valid, timely, fresh credentials -/
def Valid (C : Crypto) (s : Srv) (stream : Bytes) (hidden : Option Bytes) (now : Int) : Prop :=
  ∃ t data rand ct secret pt info,
    readFirst stream = .packet t data ∧
    extract C s t data hidden = .ok rand ct secret ∧
    (∃ s0, C.dh s.sk rand = some s0 ∧ secret = fit 32 s0) ∧
    used s.cache (G.keyOf rand) = false ∧
    C.gcmOpen secret (slice rand Gen.Handshake.sNonceLo Gen.Handshake.sNonceHi) ct = some pt ∧
    (now - Gen.Auth.timestampTolerance < plainTs pt * 1000000000 ∧ plainTs pt * 1000000000 < now + Gen.Auth.timestampTolerance) ∧
    plainInfo pt (beNat (slice pt Gen.Handshake.sSidLo Gen.Handshake.sSidHi)) = some info ∧
    Entitled s info now

/-! ## 3. The decision function -/

theorem authFrag_ok (C : Crypto) (cache : Cache) (f : Fragments) (now : Int) (c : Cache) (info : ClientInfo)
    (h : authFrag C cache f now = (c, .ok info)) :
    used cache (G.keyOf f.rand) = false ∧
    ∃ pt, C.gcmOpen f.shared (slice f.rand Gen.Handshake.sNonceLo Gen.Handshake.sNonceHi) f.ct = some pt ∧
      inWindow (plainTs pt) now = true ∧
      plainInfo pt (beNat (slice pt Gen.Handshake.sSidLo Gen.Handshake.sSidHi)) = some info := by
  unfold authFrag register at h
  simp only at h
  by_cases hu : used cache (G.keyOf f.rand) = true
  · simp [hu] at h
  · have hu' : used cache (G.keyOf f.rand) = false := by simpa using hu
    refine ⟨hu', ?_⟩
    simp only [hu, if_false] at h
    unfold decryptInfo at h
    cases hop : C.gcmOpen f.shared (slice f.rand Gen.Handshake.sNonceLo Gen.Handshake.sNonceHi) f.ct with
    | none => simp [hop] at h
    | some pt =>
      simp only [hop] at h
      by_cases hl : pt.length < sNeed
      · simp [hl] at h
      · simp only [hl, if_false] at h
        cases hpi : plainInfo pt (beNat (slice pt Gen.Handshake.sSidLo Gen.Handshake.sSidHi)) with
        | none => simp [hpi] at h
        | some i =>
          simp only [hpi] at h
          by_cases hw : inWindow (plainTs pt) now = true
          · simp only [hw, if_true] at h
            have : i = info := by
              injection h with _ h2; injection h2
            subst this
            exact ⟨pt, rfl, hw, hpi⟩
          · simp [hw] at h

theorem extract_ok_dh (C : Crypto) (s : Srv) (t : Transport) (data : Bytes) (hidden : Option Bytes)
    (rand ct secret : Bytes) (h : extract C s t data hidden = .ok rand ct secret) :
    ∃ s0, C.dh s.sk rand = some s0 ∧ secret = fit 32 s0 := by
  unfold extract at h
  cases t with
  | tls =>
    simp only [tlsExtract] at h
    cases hp : parseClientHello data with
    | none => simp [hp] at h
    | some ch =>
      simp only [hp, unmarshalCH] at h
      cases hd : C.dh s.sk (fit 32 ch.random) with
      | none => simp [hd] at h
      | some s0 =>
        simp only [hd] at h
        split at h
        · simp at h
        · split at h
          · simp at h
          · injection h with h1 h2 h3
            exact ⟨s0, by rw [← h1]; exact hd, h3.symm⟩
  | ws =>
    simp only at h
    cases hidden with
    | none => simp at h
    | some hd =>
      simp only [wsExtract] at h
      split at h
      · simp at h
      · cases hdh : C.dh s.sk (fit 32 (slice hd Gen.Handshake.wsRandLo Gen.Handshake.wsRandHi)) with
        | none => simp [hdh] at h
        | some s0 =>
          simp only [hdh] at h
          split at h
          · simp at h
          · injection h with h1 h2 h3
            exact ⟨s0, by rw [← h1]; exact hdh, h3.symm⟩

/-- what each outcome of the post-authentication branches implies -/
theorem dispatchInfo_entitled (s : Srv) (info : ClientInfo) (now : Int) (d : Decision)
    (h : (dispatchInfo s info now).2 = d) (hd : d ≠ .web) :
    Entitled s info now ∧ d ≠ .closeOnly ∧
    (d = .admin ↔ (info.enc.toNat ≤ 3 ∧ s.adminUID ≠ [] ∧ info.uid = s.adminUID ∧ info.sid = 0)) := by
  unfold dispatchInfo dispatchInfoWith at h
  have hlen : ((s.adminUID.length : Int) ≠ 0) ↔ s.adminUID ≠ [] := by
    constructor
    · intro h he; rw [he] at h; exact h rfl
    · intro h he; exact h (List.eq_nil_of_length_eq_zero (by omega))
  have hgate : Gen.Auth.adminGate (s.adminUID.length : Int) (info.uid == s.adminUID) (info.sid : Int) = true ↔
      (s.adminUID ≠ [] ∧ info.uid = s.adminUID ∧ info.sid = 0) := by
    rw [gen_admin_gate, hlen]
    simp only [beq_iff_eq]
    constructor
    · intro ⟨a, b, c⟩; exact ⟨a, b, by omega⟩
    · intro ⟨a, b, c⟩; exact ⟨a, b, by omega⟩
  by_cases henc : Gen.Auth.encMethods.contains (info.enc.toNat : Int) = true
  · have henc' := (gen_enc info.enc).1 henc
    simp only [henc, Bool.not_true, Bool.false_eq_true, if_false] at h
    by_cases hg : Gen.Auth.adminGate (s.adminUID.length : Int) (info.uid == s.adminUID) (info.sid : Int) = true
    · simp only [hg, if_true] at h
      have hg' := hgate.1 hg
      subst h
      exact ⟨⟨henc', Or.inl hg'⟩, by simp, by simp [henc', hg']⟩
    · simp only [hg, if_false] at h
      have hng : ¬ (s.adminUID ≠ [] ∧ info.uid = s.adminUID ∧ info.sid = 0) := fun hc => hg (hgate.2 hc)
      by_cases hm : s.proxyBook.contains (bookKey info.method) = true
      · simp only [hm, Bool.not_true, Bool.false_eq_true, if_false] at h
        have hm' : bookKey info.method ∈ s.proxyBook := by simpa using hm
        by_cases hu : (!(isBypass s info.uid) && !(isActive s info.uid) && !(dbAuthenticate s info.uid (now / 1000000000))) = true
        · simp only [hu, if_true] at h; exact absurd h.symm hd
        · simp only [hu, if_false] at h
          have huser : info.uid ∈ s.bypass ∨ isActive s info.uid = true ∨ StoreAuthorises s info.uid (now / 1000000000) := by
            rw [← dbAuthenticate_iff]
            cases hb : isBypass s info.uid with
            | true => left; simpa [isBypass] using hb
            | false =>
              cases ha : isActive s info.uid with
              | true => right; left; rfl
              | false =>
                cases hdb : dbAuthenticate s info.uid (now / 1000000000) with
                | true => right; right; rfl
                | false => simp [hb, ha, hdb] at hu
          have hent : Entitled s info now := ⟨henc', Or.inr ⟨hm', huser⟩⟩
          refine ⟨hent, ?_, ?_⟩
          · intro hc; subst hc
            split at h <;> (try split at h) <;> (try split at h) <;> (try split at h) <;> (try split at h) <;> simp at h
          · constructor
            · intro hc; subst hc
              split at h <;> (try split at h) <;> (try split at h) <;> (try split at h) <;> (try split at h) <;> simp at h
            · intro hc; exact absurd ⟨hc.2.1, hc.2.2.1, hc.2.2.2⟩ hng
      · simp only [hm, Bool.not_false, if_true] at h; exact absurd h.symm hd
  · simp only [henc, Bool.not_false, if_true] at h; exact absurd h.symm hd

/-- **C07 (soundness).** Whatever bytes a peer sends, whatever the server's replay cache, active users
and user records: if the decision is anything other than "relay to the redirect address" or "close
an incomplete first packet", the stream carried valid, timely, fresh credentials (`Valid`). -/
theorem c07_sound (C : Crypto) (s : Srv) (stream : Bytes) (hidden : Option Bytes) (now : Int) (d : Decision)
    (h : (HS.decide C s stream hidden now).2 = d) (hw : d ≠ .web) (hc : d ≠ .closeOnly) :
    Valid C s stream hidden now := by
  unfold HS.decide at h
  cases hr : readFirst stream with
  | closed => simp [hr] at h; exact absurd h.symm hc
  | web => simp [hr] at h; exact absurd h.symm hw
  | packet t data =>
    simp only [hr, dispatchFrag] at h
    cases he : extract C s t data hidden with
    | badHello => simp [he] at h; exact absurd h.symm hw
    | unmarshal => simp [he] at h; exact absurd h.symm hw
    | ok rand ct secret =>
      simp only [he] at h
      cases ha : authFrag C s.cache ⟨secret, rand, ct⟩ now with
      | mk c r =>
        cases r with
        | ok info =>
          simp only [ha] at h
          obtain ⟨hu, pt, hop, hwin, hpi⟩ := authFrag_ok C s.cache ⟨secret, rand, ct⟩ now c info ha
          have hent := (dispatchInfo_entitled { s with cache := c } info now d h hw).1
          have hwin' := (window_exact _ _).1 hwin
          exact ⟨t, data, rand, ct, secret, pt, info, hr, he, extract_ok_dh C s t data hidden rand ct secret he,
            hu, hop, hwin', hpi, hent⟩
        | replay => simp [ha] at h; exact absurd h.symm hw
        | badDecrypt e => simp [ha] at h; exact absurd h.symm hw
        | badKey => simp [ha] at h; exact absurd h.symm hw

/-- "encrypted to the server's static key, unmodified": under the law that GCM decryption is
deterministic (`Lawful.open_sound`, true of the real primitive) the accepted block IS the sealing of
its plaintext under the secret the presented 32 bytes share with the server's static key, with the
first 12 of those bytes as nonce -/
theorem c07_sealed_to_server_key (C : Crypto) (hL : Lawful C) (s : Srv) (stream : Bytes) (hidden : Option Bytes) (now : Int)
    (hv : Valid C s stream hidden now) :
    ∃ rand ct s0 pt, C.dh s.sk rand = some s0 ∧
      ct = C.gcmSeal (fit 32 s0) (slice rand Gen.Handshake.sNonceLo Gen.Handshake.sNonceHi) pt := by
  obtain ⟨t, data, rand, ct, secret, pt, info, _, _, ⟨s0, hs0, hsec⟩, _, hop, _⟩ := hv
  exact ⟨rand, ct, s0, pt, hs0, by rw [← hsec]; exact hL.open_sound _ _ _ _ hop⟩

/-- **C07 (everything else is web traffic).** A complete first packet that does not carry valid,
timely, fresh credentials is relayed to the redirect address. -/
theorem c07_else_web (C : Crypto) (s : Srv) (stream : Bytes) (hidden : Option Bytes) (now : Int)
    (hcomplete : readFirst stream ≠ .closed) (hnv : ¬ Valid C s stream hidden now) :
    (HS.decide C s stream hidden now).2 = .web := by
  by_cases hw : (HS.decide C s stream hidden now).2 = .web
  · exact hw
  · by_cases hc : (HS.decide C s stream hidden now).2 = .closeOnly
    · exfalso
      unfold HS.decide at hc
      cases hr : readFirst stream with
      | closed => exact hcomplete hr
      | web => simp [hr] at hc
      | packet t data =>
        simp only [hr, dispatchFrag] at hc
        cases he : extract C s t data hidden with
        | badHello => simp [he] at hc
        | unmarshal => simp [he] at hc
        | ok rand ct secret =>
          simp only [he] at hc
          cases ha : authFrag C s.cache ⟨secret, rand, ct⟩ now with
          | mk c r =>
            cases r with
            | ok info =>
              simp only [ha] at hc
              by_cases hweb : (dispatchInfo { s with cache := c } info now).2 = .web
              · rw [hweb] at hc; simp at hc
              · exact (dispatchInfo_entitled { s with cache := c } info now _ rfl hweb).2.1 hc
            | replay => simp [ha] at hc
            | badDecrypt e => simp [ha] at hc
            | badKey => simp [ha] at hc
    · exact absurd (c07_sound C s stream hidden now _ rfl hw hc) hnv

/-- **C07 (admin gate).** The user-management API is reached exactly when an authenticated packet
names the configured, non-empty admin UID with session id 0 (and a served encryption method);
`Gen.Auth.apiOnlyInsideGate`: no other branch of the server calls the API router. -/
theorem c07_admin_gate (C : Crypto) (s : Srv) (stream : Bytes) (hidden : Option Bytes) (now : Int) :
    (HS.decide C s stream hidden now).2 = .admin ↔
      ∃ t data rand ct secret c info,
        readFirst stream = .packet t data ∧ extract C s t data hidden = .ok rand ct secret ∧
        authFrag C s.cache ⟨secret, rand, ct⟩ now = (c, .ok info) ∧
        info.enc.toNat ≤ 3 ∧ s.adminUID ≠ [] ∧ info.uid = s.adminUID ∧ info.sid = 0 := by
  constructor
  · intro h
    unfold HS.decide at h
    cases hr : readFirst stream with
    | closed => simp [hr] at h
    | web => simp [hr] at h
    | packet t data =>
      simp only [hr, dispatchFrag] at h
      cases he : extract C s t data hidden with
      | badHello => simp [he] at h
      | unmarshal => simp [he] at h
      | ok rand ct secret =>
        simp only [he] at h
        cases ha : authFrag C s.cache ⟨secret, rand, ct⟩ now with
        | mk c r =>
          cases r with
          | ok info =>
            simp only [ha] at h
            have := ((dispatchInfo_entitled { s with cache := c } info now .admin h (by simp)).2.2).1 rfl
            exact ⟨t, data, rand, ct, secret, c, info, rfl, he, ha, this⟩
          | replay => simp [ha] at h
          | badDecrypt e => simp [ha] at h
          | badKey => simp [ha] at h
  · rintro ⟨t, data, rand, ct, secret, c, info, hr, he, ha, henc, h1, h2, h3⟩
    unfold HS.decide
    simp only [hr, dispatchFrag, he, ha]
    have henc' := (gen_enc info.enc).2 henc
    have hg : Gen.Auth.adminGate ((s.adminUID.length : Nat) : Int) (info.uid == s.adminUID) (info.sid : Int) = true := by
      rw [gen_admin_gate]
      refine ⟨?_, by simpa using h2, by omega⟩
      intro hz; apply h1; exact List.eq_nil_of_length_eq_zero (by omega)
    unfold dispatchInfo dispatchInfoWith
    simp only [henc', Bool.not_true, Bool.false_eq_true, if_false, hg, if_true]

/-! ## 4. No first packet is left hanging -/

/-- the branch of `dispatchConnection` taken when `user.GetSession` refuses a new session ends in `goWeb(); return`
and does not reply -/
theorem gen_getsession_refusal : Gen.Auth.getSessionErrGoesWeb = true ∧ Gen.Auth.getSessionErrReturns = true := by decide

theorem dispatchInfo_no_stall (s : Srv) (info : ClientInfo) (now : Int) : (dispatchInfo s info now).2 ≠ .stall := by
  unfold dispatchInfo dispatchInfoWith
  rw [gen_getsession_refusal.1]
  simp only [apply_ite Prod.snd, ↓reduceIte]
  repeat' split
  all_goals simp

/-- **C07 (every first packet is handled).** Whatever a peer sends and whatever the server's state, the connection
ends in exactly one of: closed (incomplete first packet), relayed to the redirect address, the admin API, a proxy
session.  It is never left with no reply, no relay and no close. -/
theorem c07_handled (C : Crypto) (s : Srv) (stream : Bytes) (hidden : Option Bytes) (now : Int) :
    (HS.decide C s stream hidden now).2 ≠ .stall := by
  unfold HS.decide
  cases hr : readFirst stream with
  | closed => simp
  | web => simp
  | packet t data =>
    simp only [dispatchFrag]
    cases he : extract C s t data hidden with
    | badHello => simp
    | unmarshal => simp
    | ok rand ct secret =>
      simp only
      cases ha : authFrag C s.cache ⟨secret, rand, ct⟩ now with
      | mk c r =>
        cases r with
        | ok info => simp only; exact dispatchInfo_no_stall _ _ _
        | replay => simp
        | badDecrypt e => simp
        | badKey => simp

/-- **C07 (every other first packet is web traffic).** A complete first packet that is not accepted as a Cloak
handshake (neither the admin API nor a proxy session) is relayed to the redirect address — whether or not it carried
valid credentials (a valid packet may be refused: `c07_refused_session_web`). -/
theorem c07_not_accepted_web (C : Crypto) (s : Srv) (stream : Bytes) (hidden : Option Bytes) (now : Int)
    (hcomplete : readFirst stream ≠ .closed)
    (hna : (HS.decide C s stream hidden now).2 ≠ .admin)
    (hnp : ∀ uid sid ex, (HS.decide C s stream hidden now).2 ≠ .proxy uid sid ex) :
    (HS.decide C s stream hidden now).2 = .web := by
  by_cases hv : Valid C s stream hidden now
  · have hst := c07_handled C s stream hidden now
    have hcl : (HS.decide C s stream hidden now).2 ≠ .closeOnly := by
      intro hc
      by_cases hw : (HS.decide C s stream hidden now).2 = .web
      · rw [hw] at hc; simp at hc
      · -- closeOnly only arises from an incomplete first packet
        unfold HS.decide at hc
        cases hr : readFirst stream with
        | closed => exact hcomplete hr
        | web => simp [hr] at hc
        | packet t data =>
          simp only [hr, dispatchFrag] at hc
          cases he : extract C s t data hidden with
          | badHello => simp [he] at hc
          | unmarshal => simp [he] at hc
          | ok rand ct secret =>
            simp only [he] at hc
            cases ha : authFrag C s.cache ⟨secret, rand, ct⟩ now with
            | mk c r =>
              cases r with
              | ok info =>
                simp only [ha] at hc
                by_cases hweb : (dispatchInfo { s with cache := c } info now).2 = .web
                · rw [hweb] at hc; simp at hc
                · exact (dispatchInfo_entitled { s with cache := c } info now _ rfl hweb).2.1 hc
              | replay => simp [ha] at hc
              | badDecrypt e => simp [ha] at hc
              | badKey => simp [ha] at hc
    cases hd : (HS.decide C s stream hidden now).2 with
    | web => rfl
    | closeOnly => exact absurd hd hcl
    | admin => exact absurd hd hna
    | proxy uid sid ex => exact absurd hd (hnp uid sid ex)
    | stall => exact absurd hd hst
  · exact c07_else_web C s stream hidden now hcomplete hv

/-- **C07 (a refused new session is web traffic).** An authenticated packet of a non-bypass user that names a served
method and a session id the user does not have, while the store does not authorise another session (cap reached,
credit exhausted, expired, record deleted — e.g. for a user still cached as active): relayed to the redirect address,
exactly like the same packet of a user that is not active. -/
theorem c07_refused_session_web (s : Srv) (info : ClientInfo) (now : Int)
    (henc : Gen.Auth.encMethods.contains (info.enc.toNat : Int) = true)
    (hgate : Gen.Auth.adminGate (s.adminUID.length : Int) (info.uid == s.adminUID) (info.sid : Int) = false)
    (hm : s.proxyBook.contains (bookKey info.method) = true)
    (hbyp : isBypass s info.uid = false)
    (hnew : (sessionsOf s info.uid).contains info.sid = false)
    (hrefuse : dbAuthoriseSession s info.uid (now / 1000000000) (sessionsOf s info.uid).length = false) :
    (dispatchInfo s info now).2 = .web := by
  unfold dispatchInfo dispatchInfoWith
  rw [gen_getsession_refusal.1]
  simp [henc, hgate, hm, hbyp, hnew, hrefuse, apply_ite Prod.snd]
  intro _ _ _
  simpa using hnew

/-- the pinned code (`user.CloseSession(…); log.Error(err); return` — the fact is `false`): the second session of a
user whose cap is 1 is neither answered, relayed nor closed -/
theorem c07_stall_pinned_witness :
    let uidU : Bytes := List.replicate 16 2
    let s : Srv := ⟨[], [], [], [[115]], [(uidU, ⟨10, 10, 2000, 1⟩)], [], [(uidU, [0])]⟩
    (dispatchInfoWith false s ⟨uidU, 5, [115], 1, false⟩ 1000000000000).2 = .stall ∧
    (dispatchInfoWith true s ⟨uidU, 5, [115], 1, false⟩ 1000000000000).2 = .web := by
  decide

/-- non-vacuity: a server with an admin, a store record and a served method; the branches after
authentication really produce `admin`, `proxy` and `web` (the refused second session of a user with cap 1 included) -/
example :
    let uidA : Bytes := List.replicate 16 1
    let uidU : Bytes := List.replicate 16 2
    let s : Srv := ⟨[], uidA, [uidA], [[115]], [(uidU, ⟨10, 10, 2000, 1⟩)], [], []⟩
    (dispatchInfo s ⟨uidA, 0, [115], 1, false⟩ 1000000000000).2 = .admin ∧
    (dispatchInfo s ⟨uidA, 7, [115], 1, false⟩ 1000000000000).2 = .proxy uidA 7 false ∧
    (dispatchInfo s ⟨uidU, 0, [115], 1, false⟩ 1000000000000).2 = .proxy uidU 0 false ∧
    (dispatchInfo (dispatchInfo s ⟨uidU, 0, [115], 1, false⟩ 1000000000000).1 ⟨uidU, 5, [115], 1, false⟩ 1000000000000).2 = .web ∧
    (dispatchInfo s ⟨uidU, 0, [115], 1, false⟩ 2001000000000).2 = .web ∧
    (dispatchInfo s ⟨uidU, 0, [116], 1, false⟩ 1000000000000).2 = .web ∧
    (dispatchInfo s ⟨uidU, 0, [115], 4, false⟩ 1000000000000).2 = .web := by
  decide

end C07

#print axioms C07.c07_sound
#print axioms C07.c07_else_web
#print axioms C07.c07_admin_gate
#print axioms C07.c07_window_exact
#print axioms C07.c07_handled
#print axioms C07.c07_not_accepted_web
#print axioms C07.c07_refused_session_web

/-- **the key agreement refuses degenerate peer values** (regenerated facts): `ecdh.GenerateSharedSecret` returns what
`curve25519.X25519` returns, error included, and both transports stop on that error before using the secret.  The
model's `Crypto.dh` is partial for exactly this reason (`HS.Lawful` speaks about successful agreements only); with
`ScalarMult` (no error) a small-order point yields the all-zero secret for every private key, and a payload sealed to
it by anybody would be accepted. -/
theorem C07.gen_dh : Gen.AuthDH.dhReturnsX25519WithError = true ∧ Gen.AuthDH.tlsStopsOnDHError = true ∧
    Gen.AuthDH.wsStopsOnDHError = true := by decide
