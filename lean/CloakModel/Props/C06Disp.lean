import CloakModel.Props.C06
import CloakModel.Props.C07

/-! C06 needs one fact about the dispatcher that lives with C07's decision model: a client whose `ProxyMethod` is written
like an entry of the server's `ProxyBook` (up to ASCII case — the documented requirement is "exactly") passes the
served-method test, so the handshake of a correctly configured client is not diverted to the web server for the sake of
letter case (`C07.c06_method_found`, tied to the source by `C07.gen_proxy_book`). -/
