import CloakModel.Props.C02
import CloakModel.Props.C02Heap
import CloakModel.Props.C02HeapBridge

/-! Umbrella module of property C02: everything its check builds and audits (`lean_module` in `checks_d/C02.py`). -/
