import CloakModel.Props.C03
import CloakModel.Props.C13

/-! # C03, sender side of "once a side has closed the stream … its writes fail"

`Props/C03.lean` treats the receiver (the peer reads exactly B and only then the error) and the local flags.  The clause
about the closing side's own writes is a statement about the sender's interleavings, which `Model/Sender.lean` (C13)
covers at instruction granularity: with the closed-test inside every sending critical section
(`Gen.Sender.readFromChkUnderLock`, `Gen.Sender.writeChkUnderLock`), whatever the schedule of concurrent `Write`,
`ReadFrom` and `Close` calls, nothing is numbered or handed to a connection after the closing notice — a write that
has not gone out before the notice is refused, and no accepted byte is lost behind it. -/

namespace C03

theorem c03_nothing_after_close (calls : List SN.Call) (sched : List Nat) :
    let s := SN.runSched (SN.init (calls.map SN.Call.prog)) sched
    (∀ (pre : List SN.Frame) (f : SN.Frame) (post : List SN.Frame), s.enc = pre ++ f :: post → f.closing = true → post = []) ∧
    (∀ (pre : List SN.Frame) (f : SN.Frame) (post : List SN.Frame), s.wire = pre ++ f :: post → f.closing = true → post = []) :=
  C13.c13_close_last calls sched

/-- the closed-tests the theorem rests on, as read from the source on this run -/
theorem gen_chk_under_lock : Gen.Sender.readFromChkUnderLock = true ∧ Gen.Sender.writeChkUnderLock = true := by decide

/-- a closing frame is always one `obfuscate` accepts (it refuses an empty payload): every place that builds one draws
`int(<random byte>) + 1` bytes of padding. With a length that can be 0, one close in 256 sends nothing and the peer
waits for ever ("only afterwards gets the broken-stream error"). -/
theorem gen_closing_payload : Gen.Sender.closingPayloadNeverEmpty = true := by decide

end C03

#print axioms C03.c03_nothing_after_close
