import CloakModel.Props.C14
import CloakModel.Props.E2EDg
import CloakModel.Props.E2EDgWire
import CloakModel.Props.C14Deadline
import CloakModel.Props.C14Route

/-! Umbrella module of property C14: everything its check builds and audits (`lean_module` in `checks_d/C14.py`). -/
