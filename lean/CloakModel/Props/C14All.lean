import CloakModel.Props.C14
import CloakModel.Props.C14Route

/-! everything C14 is decided by: the datagram pipe / demultiplexer / entry buffers (C14) and the client's routing table (C14R) -/
