import CloakModel.Model.TokenBucket
import CloakModel.Lemmas.TokenBucketCore

/-! # C19 — A limited user's throughput never exceeds the configured rates

(1) bridging: the executable bucket `TB.*` (built from the terms extracted from the rate-limiter library's source)
is the specification bucket `TBS.*` (`min`, `ceilDiv`); structural facts about Cloak's use of the limiter;
(2) `c19_upper`: bytes released in ANY tick interval, ANY request sequence from any number of sessions and
connections sharing the bucket; (3) the property's literal burst term ("one second's worth") — true when every
message fits into one second's worth (`c19_literal_when_fits`), FALSE in general (`c19_witness`): open finding;
(4) `c19_not_starved`: a backlogged sender gets the configured rate; (5) nanosecond form used by the monitor. -/
set_option linter.unusedSimpArgs false
set_option linter.unusedVariables false

namespace C19

/-! ## 1. The executable bucket is the specification bucket -/

theorem gen_full (a cap : Int) : Gen.Valve.tbFull a cap = true ↔ a ≥ cap := by
  unfold Gen.Valve.tbFull; simp only [decide_eq_true_eq]
theorem gen_over (a cap : Int) : Gen.Valve.tbOver a cap = true ↔ a > cap := by
  unfold Gen.Valve.tbOver; simp only [decide_eq_true_eq]
theorem gen_refill (t l q : Int) : Gen.Valve.tbRefillAdd t l q = (t - l) * q := by
  unfold Gen.Valve.tbRefillAdd; rfl
theorem gen_nonpos (c : Int) : Gen.Valve.tbCountNonPos c = true ↔ c ≤ 0 := by
  unfold Gen.Valve.tbCountNonPos; simp only [decide_eq_true_eq]
theorem gen_after (a c : Int) : Gen.Valve.tbAvailAfter a c = a - c := by
  unfold Gen.Valve.tbAvailAfter; omega
theorem gen_enough (a : Int) : Gen.Valve.tbEnough a = true ↔ a ≥ 0 := by
  unfold Gen.Valve.tbEnough; simp only [decide_eq_true_eq]
/-- the library's round-up `tick + (-avail + quantum - 1) / quantum` (Go's truncating division) is
`tick + ⌈-avail / quantum⌉` whenever tokens are missing -/
theorem gen_endTick (t a q : Int) (ha : a < 0) (hq : 0 < q) : Gen.Valve.tbEndTick t a q = t + TBS.ceilDiv (-a) q := by
  unfold Gen.Valve.tbEndTick TBS.ceilDiv
  rw [Int.tdiv_eq_ediv_of_nonneg (by omega)]
theorem gen_currentTick (now fi : Int) (hn : 0 ≤ now) : Gen.Valve.tbCurrentTick now fi = now / fi := by
  unfold Gen.Valve.tbCurrentTick
  rw [Int.tdiv_eq_ediv_of_nonneg hn]
theorem gen_endTime (e fi : Int) : Gen.Valve.tbEndTimeSinceStart e fi = e * fi := by
  unfold Gen.Valve.tbEndTimeSinceStart; rfl

/-- structural facts (patterns the extractor matched on the current tree and on the library source at the version
pinned in go.mod): `send` waits for `len(data)` tokens before any write; `deplex` waits for `n` tokens after each
read and before processing; `MakeValve` gives each bucket capacity = rate; the switchboard uses the session's valve
and a session keeps the valve it was configured with; every session of an active user gets that user's one valve;
statement order of `take` / `adjustavailableTokens`; buckets start full; `Wait` sleeps for what `Take` computed. -/
theorem gen_structure :
    Gen.Valve.txWaitBeforeWrite = true ∧ Gen.Valve.txWaitArgIsLen = true ∧ Gen.Valve.addTxAfterWrite = true ∧
    Gen.Valve.rxWaitAfterRead = true ∧ Gen.Valve.addRxEveryRead = true ∧
    Gen.Valve.valveCapacityIsRate = true ∧ Gen.Valve.valveRxTxNotSwapped = true ∧ Gen.Valve.valveWaitsOnOwnBucket = true ∧
    Gen.Valve.sessionUsesConfiguredValve = true ∧ Gen.Valve.valvePerRecord = true ∧
    Gen.Valve.ratelimitVersion = "v1.0.2" ∧ Gen.Valve.tbRateMarginText = "0.01" ∧
    Gen.Valve.tbTakeShape = true ∧ Gen.Valve.tbAdjustShape = true ∧ Gen.Valve.tbStartsFull = true ∧
    Gen.Valve.tbWaitSleepsTake = true := by decide

def core (b : TB.B) : TBS.B := ⟨b.avail, b.last⟩

theorem adjust_sim (cap q : Int) (b : TB.B) (t : Int) : core (TB.adjust cap q b t) = TBS.adjust cap q (core b) t := by
  unfold TB.adjust TBS.adjust core
  by_cases hf : b.avail ≥ cap
  · have : Gen.Valve.tbFull b.avail cap = true := (gen_full _ _).2 hf
    simp [this, hf]
  · have : Gen.Valve.tbFull b.avail cap = false := by
      cases h : Gen.Valve.tbFull b.avail cap with
      | false => rfl
      | true => exact absurd ((gen_full _ _).1 h) hf
    simp only [this, Bool.false_eq_true, if_false, hf, gen_refill]
    by_cases ho : b.avail + (t - b.last) * q > cap
    · have : Gen.Valve.tbOver (b.avail + (t - b.last) * q) cap = true := (gen_over _ _).2 ho
      simp only [this, if_true, TBS.B.mk.injEq, and_true]
      rw [Int.min_def]; split <;> omega
    · have : Gen.Valve.tbOver (b.avail + (t - b.last) * q) cap = false := by
        cases h : Gen.Valve.tbOver (b.avail + (t - b.last) * q) cap with
        | false => rfl
        | true => exact absurd ((gen_over _ _).1 h) ho
      simp only [this, Bool.false_eq_true, if_false, TBS.B.mk.injEq, and_true]
      rw [Int.min_def]; split <;> omega

theorem adjust_last (cap q : Int) (b : TB.B) (t : Int) : (TB.adjust cap q b t).last = t := by
  unfold TB.adjust
  split
  · rfl
  · simp only; split <;> rfl

theorem take_sim (cap q : Int) (hq : 0 < q) (b : TB.B) (t c : Int) (hc : 0 < c) :
    core (TB.take cap q b t c).1 = (TBS.take cap q (core b) t c).1 ∧
    TB.relTick t (TB.take cap q b t c).2 = (TBS.take cap q (core b) t c).2 := by
  have hnp : Gen.Valve.tbCountNonPos c = false := by
    cases h : Gen.Valve.tbCountNonPos c with
    | false => rfl
    | true => have := (gen_nonpos c).1 h; omega
  have hadj := adjust_sim cap q b t
  have hav : (TB.adjust cap q b t).avail = (TBS.adjust cap q (core b) t).avail := by
    have := congrArg TBS.B.avail hadj; simpa [core] using this
  unfold TB.take TBS.take
  simp only [hnp, Bool.false_eq_true, if_false, gen_after, adjust_last, hav]
  generalize (TBS.adjust cap q (core b) t).avail = pre
  by_cases he : pre - c ≥ 0
  · have : Gen.Valve.tbEnough (pre - c) = true := (gen_enough _).2 he
    simp only [this, if_true, he, core, TB.relTick, and_self]
  · have : Gen.Valve.tbEnough (pre - c) = false := by
      cases h : Gen.Valve.tbEnough (pre - c) with
      | false => rfl
      | true => exact absurd ((gen_enough _).1 h) he
    simp only [this, Bool.false_eq_true, if_false, he, core, TB.relTick, true_and]
    exact gen_endTick _ _ _ (by omega) hq

theorem run_sim (cap q : Int) (hq : 0 < q) : ∀ (reqs : List (Int × Int)) (b : TB.B), (∀ x ∈ reqs, 0 < x.2) →
    TB.run cap q b reqs = TBS.run cap q (core b) reqs := by
  intro reqs
  induction reqs with
  | nil => intro b _; rfl
  | cons rc rest ih =>
    obtain ⟨t, c⟩ := rc
    intro b h
    obtain ⟨h1, h2⟩ := take_sim cap q hq b t c (h (t, c) (by simp))
    simp only [TB.run, TBS.run]
    rw [h2, ih _ (fun x hx => h x (by simp [hx])), h1]

/-! ## 2. Upper bound, every interval -/

/-- requests `(tick, count)` in non-decreasing tick order from `last` on, counts positive -/
abbrev Good := TBS.Good
/-- bytes whose release tick lies in the closed interval `[a, b]` -/
abbrev released := TBS.windowSum

theorem good_pos : ∀ (reqs : List (Int × Int)) (l : Int), Good l reqs → ∀ x ∈ reqs, 0 < x.2 := by
  intro reqs
  induction reqs with
  | nil => intro l _ x hx; simp at hx
  | cons rc rest ih =>
    obtain ⟨t, c⟩ := rc
    intro l hg x hx
    simp only [List.mem_cons] at hx
    rcases hx with hx | hx
    · subst hx; exact hg.2.1
    · exact ih t hg.2.2 x hx

/-- **C19 (upper bound).** One bucket of capacity `cap`, `q` tokens per tick, initially full (as `MakeValve` builds
it: `cap` = the configured rate), shared by any number of sessions, connections and streams: for ANY sequence of
requests `(tick, bytes)` in non-decreasing tick order (the order in which the bucket's mutex serialises them), with
every request at most `M` bytes, and ANY ticks `a ≤ b`: the bytes released (written to the wire / handed to the
session) in `[a, b]` are at most `max(cap, M + q − 1) + q·(b − a)`. -/
theorem c19_upper (cap q M : Int) (hcap : 0 < cap) (hq : 0 < q) (a bb : Int) (hab : a ≤ bb)
    (reqs : List (Int × Int)) (hg : Good 0 reqs) (hM : ∀ x ∈ reqs, x.2 ≤ M) :
    released a bb (TB.run cap q ⟨cap, 0⟩ reqs) ≤ max cap (M + q - 1) + (bb - a) * q := by
  rw [run_sim cap q hq reqs _ (good_pos reqs 0 hg)]
  exact TBS.c19_upper cap q M hcap hq a bb hab reqs ⟨cap, 0⟩ hg (Int.le_refl _) hM

/-- non-vacuity: three requests (the second and third have to wait) satisfy the hypotheses, and the bound is
attained in `[2, 2]`: the 7 bytes of the second message are released in tick 2 although the bucket holds only 4 -/
example : Good 0 [(0, 3), (0, 7), (1, 2)] ∧ TB.run 4 3 ⟨4, 0⟩ [(0, 3), (0, 7), (1, 2)] = [(0, 3), (2, 7), (3, 2)] ∧
    released 2 2 (TB.run 4 3 ⟨4, 0⟩ [(0, 3), (0, 7), (1, 2)]) = 7 ∧ max (4 : Int) (7 + 3 - 1) + (2 - 2) * 3 = 9 := by
  refine ⟨by simp [Good, TBS.Good], by decide, by decide, by decide⟩

/-! ## 3. The property's literal burst term -/

/-- the property as literally stated, in ticks: in ANY interval at most `rate × t` (here `q·(b−a)`) plus one second's
worth of burst (`cap`, which `MakeValve` sets to the rate), with one quantum of granularity — for ALL message sizes -/
def c19_literal_full (cap q : Int) : Prop :=
  ∀ reqs : List (Int × Int), Good 0 reqs → ∀ a bb : Int, a ≤ bb →
    released a bb (TB.run cap q ⟨cap, 0⟩ reqs) ≤ cap + (bb - a) * q + q

/-- **C19 (literal bound, partial).** When every message fits into one second's worth (`M + q − 1 ≤ cap`, i.e.
the configured rate is not below the largest message) the literal bound holds, without the granularity term.
What is missing for the full statement: rates below the largest message — see `c19_witness`. -/
theorem c19_literal_when_fits (cap q M : Int) (hcap : 0 < cap) (hq : 0 < q) (hfit : M + q - 1 ≤ cap) (a bb : Int) (hab : a ≤ bb)
    (reqs : List (Int × Int)) (hg : Good 0 reqs) (hM : ∀ x ∈ reqs, x.2 ≤ M) :
    released a bb (TB.run cap q ⟨cap, 0⟩ reqs) ≤ cap + (bb - a) * q := by
  have := c19_upper cap q M hcap hq a bb hab reqs hg hM
  have hm : max cap (M + q - 1) = cap := by rw [Int.max_def]; split <;> omega
  omega

/-- **C19 (open finding).** The literal statement is false of the faithful model for a rate below the message size:
rate 1000 B/s (`q = 1`, one tick = 1 ms), one 16000-byte message requested at tick 0 is released whole at tick
15000 — 16000 bytes in a zero-length interval, against the literal allowance of 1000 + 1. -/
theorem c19_witness : ¬ c19_literal_full 1000 1 := by
  intro h
  have := h [(0, 16000)] (by simp [Good, TBS.Good]) 15000 15000 (Int.le_refl _)
  revert this
  decide

/-- the literal statement fails for EVERY capacity and quantum: one message of `cap + q + 1` bytes asked for at
tick 0 is released whole two ticks later -/
theorem c19_witness_any (cap q : Int) (hcap : 0 < cap) (hq : 0 < q) : ¬ c19_literal_full cap q := by
  intro h
  have hg : Good 0 [(0, cap + q + 1)] := ⟨Int.le_refl _, by omega, trivial⟩
  have hrun : TB.run cap q ⟨cap, 0⟩ [(0, cap + q + 1)] = [(0 + TBS.ceilDiv (q + 1) q, cap + q + 1)] := by
    rw [run_sim cap q hq _ _ (good_pos _ 0 hg)]
    have hadj : TBS.adjust cap q (core ⟨cap, 0⟩) 0 = ⟨cap, 0⟩ := by simp [TBS.adjust, core]
    have hneg : ¬ (cap - (cap + q + 1) ≥ 0) := by omega
    have he : -(cap - (cap + q + 1)) = q + 1 := by omega
    simp only [TBS.run, TBS.take, hadj, hneg, if_false, he]
  have := h [(0, cap + q + 1)] hg (0 + TBS.ceilDiv (q + 1) q) (0 + TBS.ceilDiv (q + 1) q) (Int.le_refl _)
  rw [hrun] at this
  simp [released, TBS.windowSum] at this
  omega

/-! ## 4. A backlogged sender is not held below the rate -/

/-- back-to-back sender on the executable bucket: each message is requested in the tick in which the previous one
was released -/
def runBL (cap q : Int) : TB.B → Int → List Int → List (Int × Int)
  | _, _, [] => []
  | b, t, c :: r =>
    (TB.relTick t (TB.take cap q b t c).2, c) :: runBL cap q (TB.take cap q b t c).1 (TB.relTick t (TB.take cap q b t c).2) r

theorem runBL_sim (cap q : Int) (hq : 0 < q) : ∀ (cs : List Int) (b : TB.B) (t : Int), (∀ c ∈ cs, 0 < c) →
    runBL cap q b t cs = TBS.runBL cap q (core b) t cs := by
  intro cs
  induction cs with
  | nil => intro b t _; rfl
  | cons c rest ih =>
    intro b t h
    obtain ⟨h1, h2⟩ := take_sim cap q hq b t c (h c (by simp))
    simp only [runBL, TBS.runBL]
    rw [h2, ih _ _ (fun x hx => h x (by simp [hx])), h1]

/-- bytes released up to and including tick `t` -/
abbrev releasedBy := TBS.sumBy

/-- **C19 (not starved).** A single sender that always has the next message ready (sizes `0 < c ≤ M`), on a
bucket of capacity `cap ≥ q − 1` that starts full: at every tick `t ≥ 0` at which it is still waiting for a message
it has already been let through MORE than `cap + q·t − M` bytes — the configured rate from the first tick on, less
at most the one message in flight. -/
theorem c19_not_starved (cap q M : Int) (hq : 0 < q) (hqc : q ≤ cap + 1) (cs : List Int)
    (hcs : ∀ c ∈ cs, 0 < c ∧ c ≤ M) (t : Int) (ht : 0 ≤ t)
    (hp : ∃ x ∈ runBL cap q ⟨cap, 0⟩ 0 cs, t < x.1) :
    cap + q * t - M < releasedBy t (runBL cap q ⟨cap, 0⟩ 0 cs) := by
  rw [runBL_sim cap q hq cs _ _ (fun c hc => (hcs c hc).1)] at hp ⊢
  have := TBS.not_starved_core cap q M hq hqc cs ⟨cap, 0⟩ 0 (Int.le_refl _) (Int.le_refl _) hcs t ht hp
  have hadj : (TBS.adjust cap q ⟨cap, 0⟩ 0).avail = cap := by simp [TBS.adjust]
  rw [hadj] at this
  simpa [core] using this

/-- the back-to-back sender is one of the request sequences `c19_upper` quantifies over -/
theorem runBL_is_run (cap q : Int) (hq : 0 < q) (cs : List Int) (hcs : ∀ c ∈ cs, 0 < c) :
    runBL cap q ⟨cap, 0⟩ 0 cs = TB.run cap q ⟨cap, 0⟩ (TBS.reqsBL cap q ⟨cap, 0⟩ 0 cs) ∧
    Good 0 (TBS.reqsBL cap q ⟨cap, 0⟩ 0 cs) := by
  have hg := TBS.reqsBL_good cap q hq cs ⟨cap, 0⟩ 0 (Int.le_refl _) hcs
  refine ⟨?_, hg⟩
  rw [runBL_sim cap q hq cs _ _ hcs, run_sim cap q hq _ _ (good_pos _ 0 hg)]
  exact TBS.runBL_eq_run cap q cs _ _

/-- non-vacuity: rate 4/tick·3, messages 3,7,2,9 back to back; while the 9-byte message waits (tick 4) the sender
has been let through 12 > 4 + 3·4 − 9 bytes -/
example : runBL 4 3 ⟨4, 0⟩ 0 [3, 7, 2, 9] = [(0, 3), (2, 7), (3, 2), (6, 9)] ∧
    releasedBy 4 (runBL 4 3 ⟨4, 0⟩ 0 [3, 7, 2, 9]) = 12 := by
  refine ⟨by decide, by decide⟩

/-! ## 5. Nanosecond form (what the harness monitor evaluates) -/

/-- requests `(ns since the bucket was made, bytes)` → `(release time in ns, bytes)`, as `Bucket.Wait` behaves on an
exact clock: the caller proceeds `wait` ns after asking -/
def runNs (p : TB.P) : TB.B → List (Int × Int) → List (Int × Int)
  | _, [] => []
  | b, (now, c) :: r => (now + (TB.takeNs p b now c).2, c) :: runNs p (TB.takeNs p b now c).1 r

def toTicks (fi : Int) (l : List (Int × Int)) : List (Int × Int) := l.map (fun x => (x.1 / fi, x.2))

theorem takeNs_tick (p : TB.P) (hfi : 0 < p.fi) (b : TB.B) (now c : Int) (hn : 0 ≤ now) :
    (TB.takeNs p b now c).1 = (TB.take p.cap p.q b (now / p.fi) c).1 ∧
    (now + (TB.takeNs p b now c).2) / p.fi = TB.relTick (now / p.fi) (TB.take p.cap p.q b (now / p.fi) c).2 := by
  unfold TB.takeNs
  simp only [gen_currentTick now p.fi hn]
  cases hr : TB.take p.cap p.q b (now / p.fi) c with
  | mk b' rel =>
    cases rel with
    | now => simp [TB.relTick]
    | «at» e =>
      simp only [TB.relTick, gen_endTime, true_and]
      have : now + (e * p.fi - now) = e * p.fi := by omega
      rw [this, Int.mul_ediv_cancel _ (Int.ne_of_gt hfi)]

theorem runNs_ticks (p : TB.P) (hfi : 0 < p.fi) : ∀ (reqs : List (Int × Int)) (b : TB.B), (∀ x ∈ reqs, 0 ≤ x.1) →
    toTicks p.fi (runNs p b reqs) = TB.run p.cap p.q b (toTicks p.fi reqs) := by
  intro reqs
  induction reqs with
  | nil => intro b _; rfl
  | cons rc rest ih =>
    obtain ⟨now, c⟩ := rc
    intro b h
    obtain ⟨h1, h2⟩ := takeNs_tick p hfi b now c (h (now, c) (by simp))
    simp only [runNs, toTicks, List.map_cons, TB.run]
    rw [h2, h1]
    congr 1
    exact ih _ (fun x hx => h x (by simp [hx]))

theorem good_ticks (fi : Int) (hfi : 0 < fi) : ∀ (reqs : List (Int × Int)) (last : Int), Good last reqs →
    Good (last / fi) (toTicks fi reqs) := by
  intro reqs
  induction reqs with
  | nil => intro _ _; trivial
  | cons rc rest ih =>
    obtain ⟨t, c⟩ := rc
    intro last hg
    exact ⟨Int.ediv_le_ediv hfi hg.1, hg.2.1, ih t hg.2.2⟩

theorem window_ticks (fi : Int) (hfi : 0 < fi) (A B : Int) : ∀ l : List (Int × Int), (∀ x ∈ l, 0 ≤ x.2) →
    released A B l ≤ released (A / fi) (B / fi) (toTicks fi l) := by
  intro l
  induction l with
  | nil => intro _; simp [released, TBS.windowSum, toTicks]
  | cons x rest ih =>
    obtain ⟨r, c⟩ := x
    intro h
    have hc : 0 ≤ c := h (r, c) (by simp)
    have := ih (fun x hx => h x (by simp [hx]))
    simp only [released, toTicks, List.map_cons, TBS.windowSum] at this ⊢
    by_cases hin : A ≤ r ∧ r ≤ B
    · have h2 : A / fi ≤ r / fi ∧ r / fi ≤ B / fi := ⟨Int.ediv_le_ediv hfi hin.1, Int.ediv_le_ediv hfi hin.2⟩
      rw [if_pos hin, if_pos h2]; omega
    · rw [if_neg hin]; split <;> omega

theorem runNs_counts (p : TB.P) : ∀ (reqs : List (Int × Int)) (b : TB.B), (∀ x ∈ reqs, 0 < x.2) → ∀ x ∈ runNs p b reqs, 0 ≤ x.2 := by
  intro reqs
  induction reqs with
  | nil => intro b _ x hx; simp [runNs] at hx
  | cons rc rest ih =>
    obtain ⟨now, c⟩ := rc
    intro b h x hx
    simp only [runNs, List.mem_cons] at hx
    rcases hx with hx | hx
    · subst hx; exact Int.le_of_lt (h (now, c) (by simp))
    · exact ih _ (fun y hy => h y (by simp [hy])) x hx

/-- **C19 (upper bound, on the clock).** Requests arrive at non-decreasing times (ns since the valve was made), each
for at most `M` bytes; every caller proceeds exactly when `Bucket.Wait` lets it.  Then for ANY two instants `A ≤ B`
the bytes let through in `[A, B]` are at most `max(cap, M + q − 1) + q·(⌊B/fi⌋ − ⌊A/fi⌋)` — this is, literally, the
quantity the harness monitor compares every pair of event instants with. -/
theorem c19_upper_ns (p : TB.P) (hcap : 0 < p.cap) (hq : 0 < p.q) (hfi : 0 < p.fi) (M A B : Int) (hAB : A ≤ B)
    (reqs : List (Int × Int)) (hg : Good 0 reqs) (hM : ∀ x ∈ reqs, x.2 ≤ M) :
    released A B (runNs p (TB.init p) reqs) ≤ max p.cap (M + p.q - 1) + (B / p.fi - A / p.fi) * p.q := by
  have hpos := good_pos reqs 0 hg
  have hnn : ∀ x ∈ reqs, 0 ≤ x.1 := by
    have : ∀ (l : List (Int × Int)) (last : Int), 0 ≤ last → Good last l → ∀ x ∈ l, 0 ≤ x.1 := by
      intro l
      induction l with
      | nil => intro _ _ _ x hx; simp at hx
      | cons rc rest ih =>
        obtain ⟨t, c⟩ := rc
        intro last hl hg x hx
        simp only [List.mem_cons] at hx
        rcases hx with hx | hx
        · subst hx; exact Int.le_trans hl hg.1
        · exact ih t (Int.le_trans hl hg.1) hg.2.2 x hx
    exact this reqs 0 (Int.le_refl _) hg
  have h1 := window_ticks p.fi hfi A B (runNs p (TB.init p) reqs) (runNs_counts p reqs _ hpos)
  rw [runNs_ticks p hfi reqs _ hnn] at h1
  have hg' := good_ticks p.fi hfi reqs 0 hg
  have h0 : (0 : Int) / p.fi = 0 := Int.zero_ediv _
  rw [h0] at hg'
  have hM' : ∀ x ∈ toTicks p.fi reqs, x.2 ≤ M := by
    intro x hx
    simp only [toTicks, List.mem_map] at hx
    obtain ⟨y, hy, rfl⟩ := hx
    exact hM y hy
  have h2 := c19_upper p.cap p.q M hcap hq (A / p.fi) (B / p.fi) (Int.ediv_le_ediv hfi hAB) (toTicks p.fi reqs) hg' hM'
  exact Int.le_trans h1 h2

/-- non-vacuity: rate 1000 B/s (`q = 1`, `fi` = 1 ms): a 16000-byte record asked for at 0 ns and 100 bytes asked
for 5 ms later are let through at 15 s and 15.1 s -/
example : runNs ⟨1000, 1, 1000000⟩ (TB.init ⟨1000, 1, 1000000⟩) [(0, 16000), (5000000, 100)] =
    [(15000000000, 16000), (15100000000, 100)] := by decide

/-! ## 6. The user's allowance across re-activations (open finding: a fresh bucket per active-user record)

`userPanel.GetUser` builds a new `LimitedValve` (full bucket) whenever the user has no active record, and
`TerminateActiveUser` drops the record when the user's last session closes.  The property counts all of the user's
sessions and connections together over ANY interval, so a user who disconnects and reconnects must be modelled as a
sequence of activations, each served by its own fresh bucket. -/

/-- bytes released in `[a, bb]` by a sequence of activations, each with a fresh full bucket -/
def releasedActs (cap q : Int) (a bb : Int) : List (List (Int × Int)) → Int
  | [] => 0
  | r :: rest => released a bb (TB.run cap q ⟨cap, 0⟩ r) + releasedActs cap q a bb rest

/-- the property as literally stated, for the USER: whatever the pattern of activations -/
def c19_user_full (cap q : Int) : Prop :=
  ∀ acts : List (List (Int × Int)), (∀ r ∈ acts, Good 0 r) → ∀ a bb : Int, a ≤ bb →
    releasedActs cap q a bb acts ≤ cap + (bb - a) * q + q

/-- **C19 (across re-activations, partial).** With `k` activations in play the bound is `k` times the
per-activation bound of `c19_upper` — what is missing for the full statement is that a re-activation should not
bring a fresh second's worth of burst (see `c19_reactivation_witness`). -/
theorem c19_user_partial (cap q M : Int) (hcap : 0 < cap) (hq : 0 < q) (a bb : Int) (hab : a ≤ bb) :
    ∀ acts : List (List (Int × Int)), (∀ r ∈ acts, Good 0 r ∧ ∀ x ∈ r, x.2 ≤ M) →
      releasedActs cap q a bb acts ≤ (acts.length : Int) * (max cap (M + q - 1) + (bb - a) * q) := by
  intro acts
  induction acts with
  | nil => intro _; simp [releasedActs]
  | cons r rest ih =>
    intro h
    have h1 := c19_upper cap q M hcap hq a bb hab r (h r (by simp)).1 (h r (by simp)).2
    have h2 := ih (fun x hx => h x (by simp [hx]))
    simp only [releasedActs, List.length_cons]
    have : ((rest.length + 1 : Nat) : Int) = (rest.length : Int) + 1 := by omega
    rw [this, Int.add_mul]
    omega

/-- **C19 (open finding).** Two activations of a user with rate 1000 B/s (`q = 1`): a 1000-byte message in tick 0 on
the first record, the last session closes, the user reconnects and sends another 1000-byte message in tick 1 on the
new record's fresh bucket — 2000 bytes within one tick against the allowance of 1000 + 1 + 1. -/
theorem c19_reactivation_witness : ¬ c19_user_full 1000 1 := by
  intro h
  have := h [[(0, 1000)], [(1, 1000)]] (by intro r hr; simp at hr; rcases hr with rfl | rfl <;> simp [Good, TBS.Good]) 0 1 (by decide)
  revert this
  decide

end C19

#print axioms C19.c19_upper
#print axioms C19.c19_literal_when_fits
#print axioms C19.c19_witness
#print axioms C19.c19_not_starved
#print axioms C19.gen_structure
#print axioms C19.c19_upper_ns
#print axioms C19.c19_witness_any
#print axioms C19.c19_user_partial
#print axioms C19.c19_reactivation_witness
