import CloakModel.Model.Codec
namespace C04
theorem stub : True := trivial
end C04
