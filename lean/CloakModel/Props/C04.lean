import CloakModel.Model.Codec
import CloakModel.Lemmas.CodecCore

/-! # C04 — Frame encoding round-trips, respects the size limit and keeps the wire format

The model (`Model/Codec.lean`) is the function the Go source describes: every bound, guard and slice limit
is a term extracted from `internal/multiplex/obfs.go` / `session.go` (`Gen.Codec.*`).  `Lemmas/CodecCore.lean`
turns that model into the layout with literal offsets (`obf_nf`, `deobf_nf` — the bridging lemmas that stop
checking when an extracted expression changes meaning) and proves that an honest message decodes to its
frame.  Here: the structural facts, the padding bound, the round trip, the size bound, and agreement with the
Cloak v2 layout stated independently (`Spec`).  The ciphers are an interface with laws (`Codec.Lawful`);
"encoding in place vs from a separate buffer" is the same function in the model and is checked on the real
code by the correspondence harness only. -/

namespace C04
open Codec Gen.Codec

/-! ## 1. Structural facts of the source the model relies on -/

/-- call-site and statement-order facts of `obfuscate`, `deobfuscate`, `MakeObfuscator`, `MakeSession`:
the stores go to header[0:4], [4:12], [12], [13]; the whole random region is filled; `Seal`/`Open` work in
place with `nil` additional data; the Salsa20 mask is applied to the header with the session key after
`Seal` (before the field reads in `deobfuscate`); the ciphers are AES-GCM over the full key (method 1),
ChaCha20-Poly1305 (2), AES-GCM over the first 16 key bytes (3), none (0); unknown methods are refused; both
endpoints configure the same limit constant and every `sb.send` carries `buf[:n]` with `n` from `obfuscate`. -/
theorem gen_structure :
    payloadLenIsLen = true ∧ tagLenIsOverhead = true ∧ padDefaultZero = true ∧
    hdrSidHi - hdrSidLo = 4 ∧ hdrSeqHi - hdrSeqLo = 8 ∧
    sealInPlace = true ∧ sealAADNil = true ∧ obfSalsaOnHeader = true ∧ obfOrder = true ∧ obfReturnsUseful = true ∧
    deobfSalsaOnHeader = true ∧ deobfOrder = true ∧ openInPlace = true ∧ openAADNil = true ∧ openErrReturns = true ∧
    deobfFills = 4 ∧
    cipherPlain = "none/" ∧ cipherAES256 = "aes.NewCipher/full" ∧ cipherAES128 = "aes.NewCipher/16" ∧
    cipherChacha = "chacha20poly1305.New/full" ∧ unknownMethodIsError = true ∧ obfKeyIsSessionKey = true ∧
    encPlain = 0 ∧ encAES256GCM = 1 ∧ encChacha20Poly1305 = 2 ∧ encAES128GCM = 3 ∧
    limitDefault = defaultMaxOnWireSize ∧ clientLimitIsAppDataMax = true ∧ serverLimitIsAppDataMax = true ∧
    appDataMaxLengthClient = appDataMaxLengthServer ∧
    sendsOfObfuscateOutput = sendCallSites := by decide

/-- `rand.Read` fills exactly `buf[frameHeaderLength+payloadLen : usefulLen]`; the payload is copied exactly when
the caller says it is not already in place; a session's send buffer has the size of the limit -/
theorem gen_exprs (p u off limit : Int) :
    randLo p = frameHeaderLength + p ∧ randHi u = u ∧ (copyGuard off = true ↔ off ≠ frameHeaderLength) ∧
    streamSendBufferSize limit = limit := by
  unfold randLo randHi copyGuard streamSendBufferSize frameHeaderLength
  refine ⟨by omega, by omega, ?_, by omega⟩
  simp only [decide_eq_true_eq]

/-! ## 2. The padding bound: padding plus tag always fits the one-byte `extraLen` field -/

/-- for EVERY draw `common.RandInt(padBound tagLen)` can return, `byte(padLen + tagLen)` does not wrap.
(With the bound `maxExtraLen + 1` this fails: draw 240 with a 16-byte tag gives 256.) -/
theorem c04_extra_fits (tagLen padLen : Int) (h0 : 0 ≤ padLen) (ht : 0 ≤ tagLen) (h : padLen < padBound tagLen) :
    0 ≤ extraByte padLen tagLen ∧ extraByte padLen tagLen ≤ maxExtraLen ∧ maxExtraLen < 256 := by
  unfold padBound at h
  unfold extraByte maxExtraLen
  omega

/-- `common.RandInt` is never called with a non-positive bound (it would panic) for a tag that fits -/
theorem c04_bound_pos (tagLen : Int) (ht : tagLen ≤ maxExtraLen) : 0 < padBound tagLen := by
  unfold padBound; unfold maxExtraLen at ht; omega

/-- the unpadded case fits as well -/
theorem tagNF_le (C : Crypto) (hL : Lawful C) : tagNF C ≤ 255 := by
  unfold tagNF
  cases hc : C.aead with
  | none => simp
  | some a =>
    have := hL.tag_le a hc
    rw [gen_obf_consts.2.2.2.2] at this
    simp only; omega

theorem pad_tag_fits (C : Crypto) (hL : Lawful C) (f : Frame) (padDraw : Nat)
    (hdraw : (padDraw : Int) < padBound (tagLenOf C)) : padNF f padDraw + tagNF C ≤ 255 := by
  have ht := tagNF_le C hL
  unfold padNF
  split
  · have := c04_extra_fits (tagLenOf C) padDraw (by omega) (by omega) hdraw
    rw [tagLenOf_nf, gen_extraByte, gen_obf_consts.2.2.2.2] at this
    omega
  · omega

/-! ## 3. Round trip -/

/-- what `obfuscate` needs of its destination buffer -/
def fitsBuf (C : Crypto) (f : Frame) (bufLen padDraw : Nat) : Prop :=
  bufTooSmall bufLen (usefulLen f.payload.length (padLenOf f padDraw) (tagLenOf C)) = false

theorem fitsBuf_nf (C : Crypto) (f : Frame) (bufLen padDraw : Nat) (h : fitsBuf C f bufLen padDraw) :
    ¬ bufLen < 14 + f.payload.length + padNF f padDraw + tagNF C := by
  unfold fitsBuf at h
  rw [gen_useful, gen_bufTooSmall, padLenOf_nf, tagLenOf_nf] at h
  simpa using h

/-- **C04 (round trip).** For every lawful cipher (all four methods: `C.aead = none` is the plain method),
key, frame with a 32-bit stream id, 64-bit sequence number, any closing byte and a non-empty payload, every
padding draw `common.RandInt` can return, every output of `rand.Read`, and every destination buffer that is
large enough: `obfuscate` succeeds and `deobfuscate` of its output under the same key is the identical frame. -/
theorem c04_roundtrip (C : Crypto) (hL : Lawful C) (key : Bytes) (f : Frame) (bufLen padDraw : Nat) (rnd : Bytes)
    (hsid : f.sid < 2^32) (hseq : f.seq < 2^64) (hpl : 1 ≤ f.payload.length)
    (hdraw : (padDraw : Int) < padBound (tagLenOf C))
    (hrnd : rnd.length = padLenOf f padDraw + tagLenOf C)
    (hbuf : fitsBuf C f bufLen padDraw) :
    ∃ msg, obfuscate C key f bufLen padDraw rnd = .ok msg ∧ deobfuscate C key msg = .ok f := by
  rw [padLenOf_nf, tagLenOf_nf] at hrnd
  have hns : ∀ a : Aead, C.aead = some a → a.nonceSize ≤ 14 := by
    intro a hc
    have := hL.nonce_ok a hc
    rw [gen_nonceTooLong] at this; simpa using this
  refine ⟨honestMsg C key f (rnd.take (padNF f padDraw)) (rnd.drop (padNF f padDraw)), ?_, ?_⟩
  · rw [obf_nf C hL key f bufLen padDraw rnd hrnd]
    exact obfNF_honest C key f bufLen padDraw rnd (by omega) hrnd (fitsBuf_nf C f bufLen padDraw hbuf)
  · rw [deobf_nf C hL.stream_len hns]
    have hfit := pad_tag_fits C hL f padDraw hdraw
    have hpt : (rnd.take (padNF f padDraw)).length = padNF f padDraw := by simp; omega
    apply decode_honest C hL key f _ _ hsid hseq (by rw [hpt]; exact hfit)
    intro hc
    have : tagNF C = 8 := by unfold tagNF; rw [hc]
    simp; omega

/-! ## 4. Size -/

/-- **C04 (size).** Whatever `obfuscate` returns has length `14 + |payload| + pad + tag`; so for a payload of at
most `maxStreamUnitWrite limit` bytes the message never exceeds `limit` (the session's `MsgOnWireSizeLimit`),
and it is never shorter than 23 bytes. -/
theorem c04_size (C : Crypto) (hL : Lawful C) (key : Bytes) (f : Frame) (bufLen padDraw : Nat) (rnd : Bytes) (msg : Bytes)
    (limit : Int)
    (hdraw : (padDraw : Int) < padBound (tagLenOf C))
    (hrnd : rnd.length = padLenOf f padDraw + tagLenOf C)
    (hp : (f.payload.length : Int) ≤ maxStreamUnitWrite limit)
    (hok : obfuscate C key f bufLen padDraw rnd = .ok msg) :
    (msg.length : Int) = usefulLen f.payload.length (padLenOf f padDraw) (tagLenOf C) ∧
    (msg.length : Int) ≤ limit ∧ 23 ≤ msg.length := by
  rw [padLenOf_nf, tagLenOf_nf] at hrnd
  rw [obf_nf C hL key f bufLen padDraw rnd hrnd] at hok
  have hfit := pad_tag_fits C hL f padDraw hdraw
  have h8 := tagNF_ge8 C hL
  unfold obfNF at hok
  split at hok
  · cases hok
  · rename_i hne
    dsimp only at hok
    split at hok
    · cases hok
    · rename_i hb
      have hmsg := OOut.ok.inj hok
      have hbl := honestBody_length C hL key (hdrNF f (padNF f padDraw + tagNF C)) f (rnd.take (padNF f padDraw)) (rnd.drop (padNF f padDraw))
        (by intro hc; have : tagNF C = 8 := by unfold tagNF; rw [hc]
            simp; omega)
      have hpt : (rnd.take (padNF f padDraw)).length = padNF f padDraw := by simp; omega
      have hbody : ∀ B : Bytes, (xor (hdrNF f (padNF f padDraw + tagNF C)) (C.stream key (B.drop (B.length - 8)) 14) ++ B).length = 14 + B.length := by
        intro B
        rw [List.length_append, xor_length _ _ (by rw [hdrNF_length, hL.stream_len]), hdrNF_length]
      have hlen : msg.length = 14 + f.payload.length + padNF f padDraw + tagNF C := by
        rw [← hmsg]
        cases hc : C.aead with
        | none =>
          dsimp only
          rw [hbody]
          have : tagNF C = 8 := by unfold tagNF; rw [hc]
          simp [hrnd]; omega
        | some a =>
          dsimp only
          rw [hbody, hL.seal_len a hc]
          have : tagNF C = a.overhead := by unfold tagNF; rw [hc]
          simp [hpt]; omega
      rw [padLenOf_nf, tagLenOf_nf, gen_useful]
      unfold maxStreamUnitWrite at hp
      refine ⟨by rw [hlen], by omega, by omega⟩

/-- a payload of at most `maxStreamUnitWrite limit` bytes always fits a session's send buffer
(`streamSendBufferSize limit` bytes), whatever the padding draw: `obfuscate` never answers "buffer too small" -/
theorem c04_fits (C : Crypto) (hL : Lawful C) (f : Frame) (padDraw : Nat) (limit : Int) (bufLen : Nat)
    (hdraw : (padDraw : Int) < padBound (tagLenOf C))
    (hbuf : (bufLen : Int) = streamSendBufferSize limit)
    (hp : (f.payload.length : Int) ≤ maxStreamUnitWrite limit) :
    fitsBuf C f bufLen padDraw := by
  have hfit := pad_tag_fits C hL f padDraw hdraw
  unfold fitsBuf
  rw [padLenOf_nf, tagLenOf_nf, gen_useful, gen_bufTooSmall]
  unfold streamSendBufferSize at hbuf
  unfold maxStreamUnitWrite at hp
  simp only [decide_eq_false_iff_not]
  omega

/-- the two endpoints' limit (16401) is what `maxStreamUnitWrite` is derived from, and it does not exceed the
default / the largest TLS record (16640) -/
theorem gen_limits : appDataMaxLengthClient ≤ defaultMaxOnWireSize ∧ 0 < maxStreamUnitWrite appDataMaxLengthClient := by decide

/-! ## 5. The Cloak v2 layout, stated independently -/

namespace Spec

/-- StreamID(4) | Seq(8) | Closing(1) | extraLen(1), big-endian -/
def header (f : Frame) (extra : Nat) : Bytes :=
  beBytes 4 f.sid ++ beBytes 8 f.seq ++ [f.closing, UInt8.ofNat extra]

/-- v2 message: body = AEAD(key, nonce = header[0:12], payload ++ padding), or payload ++ padding ++ 8 random
bytes for the plain method; header masked with Salsa20(key, nonce = last 8 bytes of the message); extraLen =
padding + tag (8 for the plain method) -/
def encodeV2 (C : Crypto) (key : Bytes) (f : Frame) (pad tail : Bytes) : Bytes :=
  match C.aead with
  | some a =>
    let hdr := header f (pad.length + a.overhead)
    let body := a.aseal key (hdr.take 12) (f.payload ++ pad) []
    xor hdr (C.stream key (body.drop (body.length - 8)) 14) ++ body
  | none =>
    let hdr := header f (pad.length + 8)
    let body := f.payload ++ pad ++ tail
    xor hdr (C.stream key (body.drop (body.length - 8)) 14) ++ body

end Spec

theorem spec_encode_eq (C : Crypto) (key : Bytes) (f : Frame) (pad tail : Bytes)
    (h12 : ∀ a : Aead, C.aead = some a → a.nonceSize = 12) :
    Spec.encodeV2 C key f pad tail = honestMsg C key f pad tail := by
  unfold Spec.encodeV2 honestMsg honestBody tagNF
  cases hc : C.aead with
  | none => rfl
  | some a =>
    dsimp only
    rw [h12 a hc]
    rfl

/-- **C04 (layout).** With 12-byte AEAD nonces (all three supported AEADs), the bytes `obfuscate` produces ARE the
v2 message for the padding `rnd[:pad]` and tail `rnd[pad:]` — encoder and independently stated layout agree,
not merely encoder and decoder — and `deobfuscate` decodes EVERY v2 message (any padding length that fits the
length byte, also for sequence numbers the encoder would not pad) to its frame. -/
theorem c04_layout (C : Crypto) (hL : Lawful C) (h12 : ∀ a : Aead, C.aead = some a → a.nonceSize = 12) (key : Bytes) (f : Frame)
    (hsid : f.sid < 2^32) (hseq : f.seq < 2^64) :
    (∀ (bufLen padDraw : Nat) (rnd : Bytes), 1 ≤ f.payload.length →
        rnd.length = padLenOf f padDraw + tagLenOf C → fitsBuf C f bufLen padDraw →
        obfuscate C key f bufLen padDraw rnd =
          .ok (Spec.encodeV2 C key f (rnd.take (padLenOf f padDraw)) (rnd.drop (padLenOf f padDraw)))) ∧
    (∀ (pad tail : Bytes), pad.length + tagLenOf C ≤ 255 → (C.aead = none → tail.length = 8) →
        deobfuscate C key (Spec.encodeV2 C key f pad tail) = .ok f) := by
  have hns : ∀ a : Aead, C.aead = some a → a.nonceSize ≤ 14 := by
    intro a hc; rw [h12 a hc]; decide
  constructor
  · intro bufLen padDraw rnd hpl hrnd hbuf
    rw [padLenOf_nf, tagLenOf_nf] at hrnd
    rw [obf_nf C hL key f bufLen padDraw rnd hrnd, spec_encode_eq C key f _ _ h12, padLenOf_nf]
    exact obfNF_honest C key f bufLen padDraw rnd (by omega) hrnd (fitsBuf_nf C f bufLen padDraw hbuf)
  · intro pad tail he htail
    rw [tagLenOf_nf] at he
    rw [spec_encode_eq C key f _ _ h12, deobf_nf C hL.stream_len hns]
    exact decode_honest C hL key f pad tail hsid hseq he htail

/-! ## 6. Non-vacuity: a toy lawful cipher, and the theorems' hypotheses on a concrete frame -/

/-- toy AEAD: ciphertext = plaintext ++ 16 tag bytes derived from nothing; opens by stripping 16 bytes.
Lawful (round trip, lengths, 12-byte nonce) — enough to show the hypotheses are satisfiable. -/
def toyAead : Aead :=
  ⟨16, 12, fun _ _ p _ => p ++ List.replicate 16 7, fun _ _ c _ => if 16 ≤ c.length then some (c.take (c.length - 16)) else none⟩

def toy : Crypto := ⟨some toyAead, fun _ _ l => List.replicate l 0x5a⟩
def toyPlain : Crypto := ⟨none, fun _ _ l => List.replicate l 0x5a⟩

theorem toy_lawful : Lawful toy where
  stream_len := by intro k n l; simp [toy]
  unseal_seal := by
    intro a ha k n p
    have : a = toyAead := by simp [toy] at ha; exact ha.symm
    subst this; simp [toyAead]
  seal_len := by
    intro a ha k n p
    have : a = toyAead := by simp [toy] at ha; exact ha.symm
    subst this; simp [toyAead]
  tag_ge := by
    intro a ha
    have : a = toyAead := by simp [toy] at ha; exact ha.symm
    subst this; decide
  tag_le := by
    intro a ha
    have : a = toyAead := by simp [toy] at ha; exact ha.symm
    subst this; decide
  nonce_ok := by
    intro a ha
    have : a = toyAead := by simp [toy] at ha; exact ha.symm
    subst this; decide

theorem toyPlain_lawful : Lawful toyPlain where
  stream_len := by intro k n l; simp [toyPlain]
  unseal_seal := by intro a ha; simp [toyPlain] at ha
  seal_len := by intro a ha; simp [toyPlain] at ha
  tag_ge := by intro a ha; simp [toyPlain] at ha
  tag_le := by intro a ha; simp [toyPlain] at ha
  nonce_ok := by intro a ha; simp [toyPlain] at ha

/-- a padded frame (seq 3 < 5, draw 239 = the largest admissible one for a 16-byte tag) really round-trips
through the executable model, and the hypotheses of `c04_roundtrip` hold for it -/
def exFrame : Frame := ⟨0xffffffff, 3, 1, [1, 2, 3]⟩
def exRnd : Bytes := List.replicate (239 + 16) 9

set_option maxRecDepth 8000 in
example :
    ((239 : Nat) : Int) < padBound (tagLenOf toy) ∧ exRnd.length = padLenOf exFrame 239 + tagLenOf toy ∧
    fitsBuf toy exFrame 16401 239 ∧ exFrame.sid < 2^32 ∧ exFrame.seq < 2^64 ∧ 1 ≤ exFrame.payload.length ∧
    (match obfuscate toy [] exFrame 16401 239 exRnd with
     | .ok msg => decide (msg.length = 14 + 3 + 255) && decide (deobfuscate toy [] msg = .ok exFrame)
     | _ => false) = true := by
  refine ⟨by decide, by decide, ?_, by decide, by decide, by decide, by decide⟩
  unfold fitsBuf; decide

example :
    let f : Frame := ⟨7, 9, 0, [0xaa]⟩
    (match obfuscate toyPlain [] f 16401 0 (List.replicate 8 1) with
     | .ok msg => decide (msg.length = 23) && decide (deobfuscate toyPlain [] msg = .ok f)
     | _ => false) = true := by
  decide

end C04

#print axioms C04.c04_roundtrip
#print axioms C04.c04_size
#print axioms C04.c04_layout
#print axioms C04.c04_extra_fits
#print axioms C04.gen_structure
