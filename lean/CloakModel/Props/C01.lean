import CloakModel.Model.Deliver
import CloakModel.Model.SessionSM
import CloakModel.Props.C02

/-! # C01 — Tunnelled TCP streams deliver exactly the bytes written, in order, per stream

Composition: `chunks_flatten` (splitting a write into frames loses nothing), consecutive numbering,
`isolation` (a frame for stream `s` touches only `s`'s buffer, whatever else is in flight), and the
reassembly theorems of C02.  `c01_pick_ok` is the "keeps working" clause for the connection pool:
with the connection stored before the count is published, picking a connection never misses. -/
set_option linter.unusedSimpArgs false
set_option linter.unusedVariables false

namespace C01
open Deliver

/-! ## extracted terms -/
theorem gen_loop (n t : Nat) : Gen.Deliver.writeLoopCond (n : Int) (t : Int) = true ↔ n < t := by
  unfold Gen.Deliver.writeLoopCond
  simp only [Bool.and_eq_true, Bool.or_eq_true, Bool.not_eq_true', decide_eq_true_eq, decide_eq_false_iff_not]
  omega

theorem gen_fits (n t : Nat) (u : Int) : Gen.Deliver.writeFitsCond (n : Int) (t : Int) u = true ↔ (t : Int) - n ≤ u := by
  unfold Gen.Deliver.writeFitsCond
  simp only [Bool.and_eq_true, Bool.or_eq_true, Bool.not_eq_true', decide_eq_true_eq, decide_eq_false_iff_not]

/-- the frame payload limit is `limit − header − maxExtra`, so an encoded frame fits the limit (with C04) -/
theorem gen_unit (limit : Int) : unitOf limit = limit - Gen.Deliver.frameHeaderLength - Gen.Deliver.maxExtraLen := by
  unfold unitOf Gen.Deliver.maxStreamUnitWrite Gen.Deliver.frameHeaderLength Gen.Deliver.maxExtraLen
  omega

theorem gen_limits : unitOf Gen.Deliver.appDataMaxLengthClient = 16132 ∧ unitOf Gen.Deliver.appDataMaxLengthServer = 16132 ∧
    Gen.Deliver.appDataMaxLengthClient ≤ Gen.Deliver.defaultMaxOnWireSize ∧
    Gen.Deliver.appDataMaxLengthServer + 5 ≤ Gen.Deliver.connReceiveBufferSize := by decide

theorem gen_structure :
    Gen.Deliver.writeSliceShape = true ∧ Gen.Deliver.writeUnderMutex = true ∧
    Gen.Deliver.seqIncrRightAfterObfuscate = true ∧ Gen.Deliver.seqIncrs = 1 ∧
    Gen.Session.deplexPassesWholeRead = true ∧ Gen.Session.recvTombstoneDrops = true ∧
    Gen.Session.addConnStoreBeforePublish = true ∧ Gen.Session.pickMissIsError = true := by decide

/-- the server serves every session it registers: the connection that made the session runs `serveSession` for it even when
its own handshake reply could not be written (before /repo's fix it returned, and connections that joined the session later
found it registered, healthy — and never served: `c01creator.go`) -/
theorem gen_session_served :
    Gen.Deliver.creatorServesSessionEvenIfReplyFails = true ∧ Gen.Deliver.wsResponderReportsFailedUpgrade = true := by decide

/-- the goroutine pairs that relay one stream each (`serveSession` on the server, `RouteTCP`/`RouteUDP` on the client) read
only values of their own loop iteration: none of them can end up relaying the NEXT stream's bytes ("nothing ... taken from
another stream"). Which goroutine reads a shared variable first is the scheduler's choice; the fact is about the source. -/
theorem gen_goroutines_own_values :
    Gen.Deliver.serveSessionGoroutinesOwnTheirValues = true ∧ Gen.Deliver.routeTCPGoroutinesOwnTheirValues = true ∧
    Gen.Deliver.routeUDPGoroutinesOwnTheirValues = true := by decide

/-! ## the sender's chunking loses nothing -/

theorem take_drop_append {α : Type} (l : List α) (n u : Nat) : (l.drop n).take u ++ l.drop (n + u) = l.drop n := by
  have := List.take_append_drop u (l.drop n)
  rw [List.drop_drop] at this
  first
    | exact this
    | (rw [Nat.add_comm] at this; exact this)

theorem chunksAux_spec (unit : Int) (hu : 1 ≤ unit) (inp : Bytes) :
    ∀ (fuel n : Nat), inp.length < fuel + n →
      (chunksAux unit inp fuel n).flatten = inp.drop n ∧
      ∀ c ∈ chunksAux unit inp fuel n, 0 < c.length ∧ (c.length : Int) ≤ unit := by
  intro fuel
  induction fuel with
  | zero =>
    intro n h
    have : inp.length ≤ n := by omega
    simp [chunksAux, List.drop_eq_nil_of_le this]
  | succ fuel ih =>
    intro n h
    unfold chunksAux
    by_cases hl : n < inp.length
    · rw [(gen_loop n inp.length).2 hl]
      simp only [if_true]
      by_cases hf : (inp.length : Int) - n ≤ unit
      · rw [(gen_fits n inp.length unit).2 hf]
        simp only [if_true]
        have hlen : (inp.drop n).length = inp.length - n := by simp
        have hrest := ih (n + (inp.drop n).length) (by rw [hlen]; omega)
        have hdrop : inp.drop (n + (inp.drop n).length) = [] := by
          apply List.drop_eq_nil_of_le; rw [hlen]; omega
        refine ⟨?_, ?_⟩
        · simp only [List.flatten_cons, hrest.1, hdrop, List.append_nil]
        · intro c hc
          simp only [List.mem_cons] at hc
          rcases hc with rfl | hc
          · rw [hlen]; constructor <;> omega
          · exact hrest.2 c hc
      · have hff : Gen.Deliver.writeFitsCond (n : Int) (inp.length : Int) unit = false := by
          cases hb : Gen.Deliver.writeFitsCond (n : Int) (inp.length : Int) unit with
          | false => rfl
          | true => exact absurd ((gen_fits n inp.length unit).1 hb) hf
        rw [hff]
        simp only [Bool.false_eq_true, if_false]
        have hun : unit.toNat ≥ 1 := by omega
        have hlen : ((inp.drop n).take unit.toNat).length = unit.toNat := by
          simp only [List.length_take, List.length_drop]; omega
        have hrest := ih (n + ((inp.drop n).take unit.toNat).length) (by rw [hlen]; omega)
        have h1 := hrest.1
        rw [hlen] at h1
        refine ⟨?_, ?_⟩
        · rw [List.flatten_cons, hlen, h1]
          exact take_drop_append inp n unit.toNat
        · intro c hc
          simp only [List.mem_cons] at hc
          rcases hc with rfl | hc
          · rw [hlen]; constructor <;> omega
          · exact hrest.2 c hc
    · have : Gen.Deliver.writeLoopCond (n : Int) (inp.length : Int) = false := by
        cases hb : Gen.Deliver.writeLoopCond (n : Int) (inp.length : Int) with
        | false => rfl
        | true => exact absurd ((gen_loop n inp.length).1 hb) hl
      rw [this]
      simp only [Bool.false_eq_true, if_false]
      have : inp.length ≤ n := by omega
      simp [List.drop_eq_nil_of_le this]

/-- **C01 (chunking).** For every write of any length and every frame-size limit whose payload unit
is at least one byte, the chunks `Stream.Write` sends concatenate to exactly the bytes written, and
each chunk is non-empty and at most `maxStreamUnitWrite` long (so each encodes — C04 — and fits). -/
theorem c01_chunks_flatten (limit : Int) (hl : 1 ≤ unitOf limit) (inp : Bytes) :
    (chunks limit inp).flatten = inp ∧ ∀ c ∈ chunks limit inp, 0 < c.length ∧ (c.length : Int) ≤ unitOf limit := by
  have := chunksAux_spec (unitOf limit) hl inp (inp.length + 1) 0 (by omega)
  simpa [chunks] using this

/-! ## numbering -/

theorem number_seq : ∀ (l : List Bytes) (s0 : Nat), (number s0 l).map (·.seq) = List.range' s0 l.length := by
  intro l
  induction l with
  | nil => intro s0; rfl
  | cons c r ih => intro s0; simp [number, ih, List.range'_succ]

theorem number_payload : ∀ (l : List Bytes) (s0 : Nat), ((number s0 l).map (·.payload)).flatten = l.flatten := by
  intro l
  induction l with
  | nil => intro s0; rfl
  | cons c r ih => intro s0; simp [number, ih]

/-- the payload of the frame numbered `i` -/
def plOf (fs : List RB.Frame) (i : Nat) : Bytes :=
  match fs.find? (fun f => f.seq == i) with
  | some f => f.payload
  | none => []

theorem number_find : ∀ (l : List Bytes) (s0 i : Nat) (h : i < l.length),
    (number s0 l).find? (fun f => f.seq == s0 + i) = some ⟨s0 + i, false, l[i]⟩ := by
  intro l
  induction l with
  | nil => intro s0 i h; simp at h
  | cons c r ih =>
    intro s0 i h
    cases i with
    | zero => simp [number]
    | succ j =>
      simp only [number, List.find?_cons]
      have hne : (s0 == s0 + (j + 1)) = false := by simp
      simp only [hne]
      have := ih (s0 + 1) j (by simpa using h)
      simpa [Nat.add_assoc, Nat.add_comm 1 j] using this

theorem prefixData_number (l : List Bytes) : ∀ m, m ≤ l.length →
    RC.prefixData (plOf (number 0 l)) m = (l.take m).flatten := by
  intro m
  induction m with
  | zero => intro _; simp [RC.prefixData]
  | succ k ih =>
    intro h
    have hk : k < l.length := by omega
    have hf := number_find l 0 k hk
    simp only [Nat.zero_add] at hf
    simp only [RC.prefixData, ih (by omega), plOf, hf]
    rw [List.take_succ, List.getElem?_eq_getElem hk]
    simp only [Option.toList_some, List.flatten_append, List.flatten_cons, List.flatten_nil, List.append_nil]

/-! ## isolation -/

def proj (sid : Nat) (evs : List GEv) : List GEv := evs.filter (fun e => decide (e.sid = sid))

def lstep (sb : RB.SB) : GEv → RB.SB
  | .deliver _ f => (RB.write sb f).1
  | .read _ k => (RB.read sb k).1

/-- **C01 (isolation).** After ANY global interleaving of frame deliveries and application reads on
all streams, the buffer of stream `sid` is what it would be had only its own events happened:
nothing is taken from or leaked into another stream. -/
theorem isolation (sid : Nat) : ∀ (evs : List GEv) (t : Tbl),
    (evs.foldl gstep t) sid = (proj sid evs).foldl lstep (t sid) := by
  intro evs
  induction evs with
  | nil => intro t; rfl
  | cons e rest ih =>
    intro t
    simp only [List.foldl_cons, proj, List.filter_cons]
    by_cases h : e.sid = sid
    · simp only [h, decide_true, if_true, List.foldl_cons]
      rw [ih]
      congr 1
      cases e <;> simp_all [gstep, lstep, GEv.sid]
    · simp only [h, decide_false, Bool.false_eq_true, if_false]
      rw [ih]
      congr 1
      simp only [gstep]
      rw [if_neg (fun hh => h hh.symm)]

def toOp : GEv → C02.Op
  | .deliver _ f => .write f
  | .read _ k => .read k

theorem lstep_run (evs : List GEv) : ∀ (s : RB.SB × List RB.Out),
    evs.foldl lstep s.1 = ((evs.map toOp).foldl C02.step s).1 := by
  induction evs with
  | nil => intro s; rfl
  | cons e r ih =>
    intro s
    simp only [List.foldl_cons, List.map_cons]
    have := ih (C02.step s (toOp e))
    rw [← this]
    cases e <;> simp [lstep, toOp, C02.step]

def deliveredTo (sid : Nat) (evs : List GEv) : List RB.Frame :=
  evs.filterMap (fun e => match e with | .deliver s f => if s = sid then some f else none | .read _ _ => none)

theorem writesOf_proj (sid : Nat) (evs : List GEv) :
    C02.writesOf' ((proj sid evs).map toOp) = deliveredTo sid evs := by
  induction evs with
  | nil => rfl
  | cons e r ih =>
    cases e with
    | deliver s f =>
      by_cases h : s = sid
      · simp [proj, List.filter_cons, GEv.sid, h, toOp, C02.writesOf', deliveredTo] at *
        exact ih
      · simp [proj, List.filter_cons, GEv.sid, h, deliveredTo] at *
        exact ih
    | read s k =>
      by_cases h : s = sid
      · simp [proj, List.filter_cons, GEv.sid, h, toOp, C02.writesOf', deliveredTo] at *
        exact ih
      · simp [proj, List.filter_cons, GEv.sid, h, deliveredTo] at *
        exact ih

/-- **C01 (prefix, every reachable state).** The sender wrote `writes` (any sizes) on stream `sid`;
the frames are the numbered chunks.  The network delivers frames of ALL streams in any global order,
interleaved with reads on any streams; of `sid`'s frames any duplicate-free subset has arrived so far.
Then what `sid`'s reader has been given plus what is buffered for it is the concatenation of the
first `m` chunks for some `m` — a prefix of the bytes written, nothing from another stream, nothing
twice, nothing out of order. -/
theorem c01_prefix (limit : Int) (hl : 1 ≤ unitOf limit) (writes : List Bytes) (sid : Nat) (evs : List GEv)
    (hn : (writes.flatMap (chunks limit)).length < RB.W)
    (hsub : ∀ f ∈ deliveredTo sid evs, f ∈ framesOf limit writes)
    (hnd : ((deliveredTo sid evs).map (·.seq)).Nodup) :
    let sb := (evs.foldl gstep tbl0) sid
    ∃ m, m ≤ (writes.flatMap (chunks limit)).length ∧
      sb.out ++ sb.buf = ((writes.flatMap (chunks limit)).take m).flatten := by
  intro sb
  let cs := writes.flatMap (chunks limit)
  have hiso := isolation sid evs tbl0
  have hrun := lstep_run (proj sid evs) (RB.init 0, [])
  have hfr : ∀ f ∈ C02.writesOf' ((proj sid evs).map toOp),
      f = RC.fr (plOf (number 0 cs)) cs.length f.seq ∧ f.seq < cs.length := by
    intro f hf
    rw [writesOf_proj] at hf
    have hm := hsub f hf
    simp only [framesOf] at hm
    -- every numbered frame is `fr` of its own number
    have key : ∀ (l : List Bytes) (g : RB.Frame), g ∈ number 0 l →
        g.seq < l.length ∧ g = ⟨g.seq, false, plOf (number 0 l) g.seq⟩ := by
      intro l g hg
      have hseq : g.seq ∈ (number 0 l).map (·.seq) := List.mem_map.2 ⟨g, hg, rfl⟩
      rw [number_seq] at hseq
      have hlt : g.seq < l.length := by simpa using hseq
      refine ⟨hlt, ?_⟩
      have hfind := number_find l 0 g.seq hlt
      simp only [Nat.zero_add] at hfind
      -- g is the unique frame with its number
      have : ∀ (l : List Bytes) (s0 : Nat) (g : RB.Frame), g ∈ number s0 l →
          ∃ i, i < l.length ∧ g = ⟨s0 + i, false, l[i]!⟩ := by
        intro l
        induction l with
        | nil => intro s0 g hg; simp [number] at hg
        | cons c r ih =>
          intro s0 g hg
          simp only [number, List.mem_cons] at hg
          rcases hg with rfl | hg
          · exact ⟨0, by simp, by simp⟩
          · obtain ⟨i, hi, rfl⟩ := ih (s0 + 1) g hg
            exact ⟨i + 1, by simpa using hi, by simp [Nat.add_assoc, Nat.add_comm 1 i]⟩
      obtain ⟨i, hi, hgi⟩ := this l 0 g hg
      have hsi : g.seq = i := by rw [hgi]; simp
      subst hsi
      rw [hgi]
      simp only [Nat.zero_add, plOf, hfind]
      simp [List.getElem!_eq_getElem?_getD, List.getElem?_eq_getElem hi]
    obtain ⟨hlt, heq⟩ := key cs f hm
    refine ⟨?_, hlt⟩
    rw [heq]
    simp only [RC.fr]
    have : decide (f.seq = cs.length) = false := by simp; omega
    simp [this]
  have hp := C02.c02_prefix_always (plOf (number 0 cs)) cs.length cs.length hn ((proj sid evs).map toOp)
    (by rw [writesOf_proj]; exact hnd) hfr
  obtain ⟨m, hm, hdata, _⟩ := hp
  refine ⟨m, hm, ?_⟩
  show ((evs.foldl gstep tbl0) sid).out ++ ((evs.foldl gstep tbl0) sid).buf = _
  rw [hiso]
  have : tbl0 sid = (RB.init 0, ([] : List RB.Out)).1 := rfl
  rw [this, hrun]
  simp only [C02.run] at hdata
  rw [hdata, prefixData_number cs m hm]

/-- **C01 (completeness).** Once every frame of the stream has arrived (each exactly once, in any
order, interleaved with anything else), bytes read ++ bytes buffered = exactly the bytes written. -/
theorem c01_complete (limit : Int) (hl : 1 ≤ unitOf limit) (writes : List Bytes) (sid : Nat) (evs : List GEv)
    (hn : (writes.flatMap (chunks limit)).length < RB.W)
    (hsub : ∀ f ∈ deliveredTo sid evs, f ∈ framesOf limit writes)
    (hperm : ((deliveredTo sid evs).map (·.seq)).Perm (List.range (writes.flatMap (chunks limit)).length)) :
    let sb := (evs.foldl gstep tbl0) sid
    sb.out ++ sb.buf = writes.flatten := by
  intro sb
  -- all arrived: the prefix is everything (`next` has reached the number of frames)
  let cs := writes.flatMap (chunks limit)
  have hnd : ((deliveredTo sid evs).map (·.seq)).Nodup := hperm.nodup_iff.2 List.nodup_range
  have hiso := isolation sid evs tbl0
  have hrun := lstep_run (proj sid evs) (RB.init 0, [])
  have hfr : ∀ f ∈ C02.writesOf' ((proj sid evs).map toOp), f = RC.fr (plOf (number 0 cs)) cs.length f.seq := by
    intro f hf
    rw [writesOf_proj] at hf
    have hseq : f.seq ∈ (deliveredTo sid evs).map (·.seq) := List.mem_map.2 ⟨f, hf, rfl⟩
    rw [hperm.mem_iff] at hseq
    have hlt : f.seq < cs.length := List.mem_range.1 hseq
    have hm := hsub f hf
    simp only [framesOf] at hm
    have : ∀ (l : List Bytes) (s0 : Nat) (g : RB.Frame), g ∈ number s0 l →
        ∃ i, i < l.length ∧ g = ⟨s0 + i, false, l[i]!⟩ := by
      intro l
      induction l with
      | nil => intro s0 g hg; simp [number] at hg
      | cons c r ih =>
        intro s0 g hg
        simp only [number, List.mem_cons] at hg
        rcases hg with rfl | hg
        · exact ⟨0, by simp, by simp⟩
        · obtain ⟨i, hi, rfl⟩ := ih (s0 + 1) g hg
          exact ⟨i + 1, by simpa using hi, by simp [Nat.add_assoc, Nat.add_comm 1 i]⟩
    obtain ⟨i, hi, hgi⟩ := this cs 0 f hm
    have hsi : f.seq = i := by rw [hgi]; simp
    subst hsi
    have hfind := number_find cs 0 f.seq hi
    simp only [Nat.zero_add] at hfind
    have hd : decide (f.seq = cs.length) = false := by simp; omega
    rw [hgi]
    simp only [Nat.zero_add, RC.fr, plOf, hfind, hd]
    simp [List.getElem!_eq_getElem?_getD, List.getElem?_eq_getElem hi]
  have hp := C02.c02_reassembly (plOf (number 0 cs)) cs.length cs.length hn ((proj sid evs).map toOp)
    (by rw [writesOf_proj]; exact hperm) hfr
  show ((evs.foldl gstep tbl0) sid).out ++ ((evs.foldl gstep tbl0) sid).buf = _
  rw [hiso]
  have h0 : tbl0 sid = (RB.init 0, ([] : List RB.Out)).1 := rfl
  rw [h0, hrun]
  have hd := hp.1
  simp only [C02.run, Nat.min_self] at hd
  rw [hd, prefixData_number cs cs.length (Nat.le_refl _), List.take_length]
  -- concatenating the chunks of every write gives the writes
  have : ∀ (ws : List Bytes), (ws.flatMap (chunks limit)).flatten = ws.flatten := by
    intro ws
    induction ws with
    | nil => rfl
    | cons w r ih => simp [List.flatMap_cons, (c01_chunks_flatten limit hl w).1, ih]
  exact this writes

/-! ## the connection pool keeps working: publish order -/

namespace Pool
/-- `stored`: ids present in `conns`; `count`: published `connsCount`; `pending`: an `addConn` that has
done its first half.  `storeFirst` is the extracted publish order. -/
structure St where
  count : Nat := 0
  stored : List Nat := []
  pending : Option Nat := none   -- id being added (addConn is serialised by addConnM when storeFirst)

inductive Ev | addFirst | addSecond | pick (draw : Nat)

def step (storeFirst : Bool) (s : St) : Ev → St × Bool   -- Bool: `pick` succeeded / step ok
  | .addFirst =>
    match s.pending with
    | some _ => (s, true)
    | none => if storeFirst then ({ s with stored := s.count :: s.stored, pending := some s.count }, true)
              else ({ s with count := s.count + 1, pending := some s.count }, true)
  | .addSecond =>
    match s.pending with
    | none => (s, true)
    | some id => if storeFirst then ({ s with count := s.count + 1, pending := none }, true)
                 else ({ s with stored := id :: s.stored, pending := none }, true)
  | .pick d => if s.count = 0 then (s, true) else (s, decide ((d % s.count) ∈ s.stored))

def run (sf : Bool) (evs : List Ev) : St × Bool :=
  evs.foldl (fun (a : St × Bool) e => let (s', ok) := step sf a.1 e; (s', a.2 && ok)) ({}, true)

/-- every published id is stored; an `addConn` in progress has stored exactly the next id -/
def Inv (s : St) : Prop :=
  (∀ i, i < s.count → i ∈ s.stored) ∧ (∀ id, s.pending = some id → id = s.count ∧ id ∈ s.stored)

theorem step_inv (s : St) (e : Ev) (h : Inv s) : Inv (step true s e).1 ∧ (step true s e).2 = true := by
  cases e with
  | addFirst =>
    simp only [step]
    split
    · exact ⟨h, rfl⟩
    · rename_i hp
      refine ⟨⟨?_, ?_⟩, rfl⟩
      · intro i hi; simp only [if_true] at hi ⊢; exact List.mem_cons_of_mem _ (h.1 i hi)
      · intro id hid; simp only [if_true] at hid ⊢
        injection hid with hid; subst hid; exact ⟨rfl, List.mem_cons_self⟩
  | addSecond =>
    simp only [step]
    split
    · exact ⟨h, rfl⟩
    · rename_i id hp
      have := h.2 id hp
      refine ⟨⟨?_, ?_⟩, rfl⟩
      · intro i hi
        simp only [if_true] at hi ⊢
        by_cases hlt : i < s.count
        · exact h.1 i hlt
        · have : i = s.count := by omega
          rw [this, ← ‹id = s.count ∧ id ∈ s.stored›.1]; exact ‹id = s.count ∧ id ∈ s.stored›.2
      · intro id' hid; simp at hid
  | pick d =>
    simp only [step]
    split
    · exact ⟨h, rfl⟩
    · rename_i hc
      refine ⟨h, ?_⟩
      simp only [decide_eq_true_eq]
      exact h.1 _ (Nat.mod_lt _ (by omega))

/-- **C01 (keeps working).** With the connection stored before the incremented count is published
(and `addConn` serialised), for every interleaving of connection additions and sends, every pick of a
connection finds one: the pool never reports itself broken while no connection has failed. -/
theorem c01_pick_ok (evs : List Ev) : (run true evs).2 = true := by
  have : ∀ (evs : List Ev) (a : St × Bool), Inv a.1 → a.2 = true →
      (evs.foldl (fun (a : St × Bool) e => let (s', ok) := step true a.1 e; (s', a.2 && ok)) a).2 = true := by
    intro evs
    induction evs with
    | nil => intro a _ h; exact h
    | cons e r ih =>
      intro a hi ha
      simp only [List.foldl_cons]
      have := step_inv a.1 e hi
      apply ih
      · exact this.1
      · simp [ha, this.2]
  exact this evs ({}, true) ⟨by intro i hi; simp at hi, by intro id h; simp at h⟩ rfl

/-- the pinned order (count published first) lets a concurrent pick miss: two-step witness -/
theorem c01_pick_pinned_witness : (run false [.addFirst, .pick 0]).2 = false := by decide

end Pool

/-- the publish order the theorem needs is the one in the source -/
theorem gen_publish : Gen.Session.addConnStoreBeforePublish = true := by decide

end C01

#print axioms C01.c01_prefix
#print axioms C01.c01_complete
#print axioms C01.c01_chunks_flatten
#print axioms C01.Pool.c01_pick_ok
